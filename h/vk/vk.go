// Package vk is the shared kit of the verification harness: every property is
// an Exec function over a plain-data case that is drawn first (by rapid, or by
// an enumerator) and executed afterwards. The kit counts evaluations, hashes
// non-trivial cases, keeps samples, writes replay files for shrunk failures,
// replays regression files, consults known_findings.json and flushes a stats
// file which the driver (../../vcheck) merges into evidence/<ID>.json.
package vk

import (
	"encoding/json"
	"fmt"
	"hash/fnv"
	"os"
	"path/filepath"
	"runtime/debug"
	"sort"
	"strconv"
	"strings"
	"sync"
	"testing"
	"time"

	"pgregory.net/rapid"
)

// Ctx is handed to Exec for one case.
type Ctx struct {
	r       *Rec
	nt      bool
	classes []string
	notes   map[string]any
	known   []string
}

// NT marks the case as non-trivial by the property's stated rule.
func (c *Ctx) NT() { c.nt = true }

// NTIf marks the case as non-trivial when cond holds.
func (c *Ctx) NTIf(cond bool) {
	if cond {
		c.nt = true
	}
}

// Class counts the case under a named class (distribution measurement).
func (c *Ctx) Class(name string) { c.classes = append(c.classes, name) }

// ClassIf counts the class when cond holds.
func (c *Ctx) ClassIf(cond bool, name string) {
	if cond {
		c.classes = append(c.classes, name)
	}
}

// Note attaches an observation to the case (shown in samples).
func (c *Ctx) Note(k string, v any) {
	if c.notes == nil {
		c.notes = map[string]any{}
	}
	c.notes[k] = v
}

// Known reports whether a divergence identified by key is listed as a *known*
// finding in known_findings.json for this property. If it is, the finding is
// counted and the caller continues (typically re-synchronising with the
// model); if not, the caller must return an error (a violation).
func (c *Ctx) Known(key string) bool {
	f, ok := c.r.findings[key]
	if !ok || f.Status != "known" {
		return false
	}
	c.known = append(c.known, key)
	return true
}

// Tier returns "quick" or "thorough".
func (c *Ctx) Tier() string { return c.r.Tier }

type finding struct {
	Property string `json:"property"`
	Key      string `json:"key"`
	Status   string `json:"status"`
	Commit   string `json:"commit,omitempty"`
	What     string `json:"what"`
}

// Rec accumulates statistics for one test function of one property.
type Rec struct {
	ID, Name, Rule string
	Tier           string
	Seed           uint64
	Shard          int
	Root           string

	mu        sync.Mutex
	t         *testing.T
	start     time.Time
	evals     int64
	ntCount   int64
	hashes    map[uint64]struct{}
	classes   map[string]int64
	knownHits map[string]int64
	samples   []json.RawMessage
	rnd       []json.RawMessage
	findings  map[string]finding
	failed    bool
	lastFail  json.RawMessage
	lastErr   string
	extra     map[string]any
	requested int
	flushed   bool
	// ReplayAs names the Spec-driven test able to replay this recorder's
	// cases (enumerators share the case type of a rapid-driven sibling).
	ReplayAs string
}

// Replaying reports whether the process was started to replay one file.
func Replaying() bool { return os.Getenv("VERIF_REPLAY") != "" }

const maxHashes = 2_000_000

func env(k, def string) string {
	if v := os.Getenv(k); v != "" {
		return v
	}
	return def
}

// Open creates a recorder. It must be closed with Close (usually deferred).
func Open(t *testing.T, id, name, rule string) *Rec {
	r := &Rec{ID: id, Name: name, Rule: rule, t: t, start: time.Now()}
	r.Tier = env("VERIF_TIER", "quick")
	r.Seed, _ = strconv.ParseUint(env("VERIF_SEED", "1"), 10, 64)
	r.Shard, _ = strconv.Atoi(env("VERIF_SHARD", "0"))
	r.Root = env("VERIF_ROOT", "/verif")
	r.hashes = map[uint64]struct{}{}
	r.classes = map[string]int64{}
	r.knownHits = map[string]int64{}
	r.findings = map[string]finding{}
	r.extra = map[string]any{}
	if b, err := os.ReadFile(filepath.Join(r.Root, "known_findings.json")); err == nil {
		var all []finding
		if err := json.Unmarshal(b, &all); err != nil {
			t.Fatalf("known_findings.json: %v", err)
		}
		for _, f := range all {
			if f.Property == id {
				r.findings[f.Key] = f
			}
		}
	}
	return r
}

// Thorough reports whether the thorough tier is running.
func (r *Rec) Thorough() bool { return r.Tier == "thorough" }

// Pick returns q in the quick tier and th in the thorough tier.
func Pick[T any](r *Rec, q, th T) T {
	if r.Thorough() {
		return th
	}
	return q
}

// Extra attaches a property-specific value to the evidence.
func (r *Rec) Extra(k string, v any) {
	r.mu.Lock()
	r.extra[k] = v
	r.mu.Unlock()
}

func hashBytes(b []byte) uint64 {
	h := fnv.New64a()
	h.Write(b)
	return h.Sum64()
}

func render(c any, ctx *Ctx) json.RawMessage {
	m := map[string]any{"case": c}
	if ctx != nil {
		if len(ctx.notes) > 0 {
			m["notes"] = ctx.notes
		}
		if len(ctx.classes) > 0 {
			m["classes"] = ctx.classes
		}
	}
	b, err := json.Marshal(m)
	if err != nil {
		b, _ = json.Marshal(map[string]any{"case": fmt.Sprintf("%+v", c)})
	}
	if len(b) > 6000 {
		b, _ = json.Marshal(map[string]any{"case_truncated": string(b[:6000])})
	}
	return b
}

// Do runs exec on one case, with panic capture, and records the outcome. It
// returns the error (nil when the property held for the case).
func (r *Rec) Do(c any, exec func(*Ctx) error) (err error) {
	ctx := &Ctx{r: r}
	if dir := os.Getenv("VERIF_INFLIGHT"); dir != "" {
		// debugging aid for inputs that kill the process (Go fatal errors cannot be recovered):
		// the case about to run is left behind as a replay file.
		if b, jerr := json.Marshal(c); jerr == nil {
			_ = os.WriteFile(filepath.Join(dir, fmt.Sprintf("inflight-%s-%s.json", r.Name, os.Getenv("VERIF_SHARD"))), b, 0o644)
		}
	}
	func() {
		defer func() {
			if p := recover(); p != nil {
				err = fmt.Errorf("panic: %v\n%s", p, debug.Stack())
			}
		}()
		err = exec(ctx)
	}()
	r.mu.Lock()
	defer r.mu.Unlock()
	if err != nil {
		r.failed = true
		r.lastFail, _ = json.Marshal(c)
		r.lastErr = err.Error()
		return err
	}
	if r.failed {
		return nil // shrinking in progress: do not count
	}
	r.evals++
	for _, cl := range ctx.classes {
		r.classes[cl]++
	}
	for _, k := range ctx.known {
		if r.knownHits[k] == 0 {
			fmt.Printf("KNOWN-FINDING: property=%s %s\n", r.ID, r.findings[k].What)
		}
		r.knownHits[k]++
	}
	if ctx.nt {
		r.ntCount++
		b, jerr := json.Marshal(c)
		if jerr != nil {
			b = []byte(fmt.Sprintf("%+v", c))
		}
		h := hashBytes(b)
		if _, dup := r.hashes[h]; !dup && len(r.hashes) < maxHashes {
			r.hashes[h] = struct{}{}
			if len(r.samples) < 3 {
				r.samples = append(r.samples, render(c, ctx))
			} else if h%97 == 0 && len(r.rnd) < 3 {
				r.rnd = append(r.rnd, render(c, ctx))
			}
		}
	}
	return nil
}

type replayFile struct {
	Property string          `json:"property"`
	Test     string          `json:"test"`
	Error    string          `json:"error,omitempty"`
	Case     json.RawMessage `json:"case"`
}

func (r *Rec) violation(path string) {
	fmt.Printf("VIOLATION property=%s replay=%s\n", r.ID, path)
}

// writeReplay serialises the last failing case and prints the VIOLATION line.
func (r *Rec) writeReplay() {
	dir := filepath.Join(r.Root, "replay", r.ID)
	os.MkdirAll(dir, 0o755)
	h := hashBytes(r.lastFail)
	name := r.Name
	if r.ReplayAs != "" {
		name = r.ReplayAs
	}
	path := filepath.Join(dir, fmt.Sprintf("%s-%016x.json", name, h))
	msg := r.lastErr
	if len(msg) > 8000 {
		msg = msg[:8000]
	}
	b, _ := json.MarshalIndent(replayFile{Property: r.ID, Test: name, Error: msg, Case: r.lastFail}, "", " ")
	if err := os.WriteFile(path, b, 0o644); err != nil {
		fmt.Printf("cannot write replay file: %v\n", err)
	}
	r.violation(path)
	fmt.Printf("violation detail: %s\n", msg)
}

// Fail records an explicit failure of case c (enumerator mode).
func (r *Rec) Fail(c any, err error) {
	r.mu.Lock()
	r.failed = true
	r.lastFail, _ = json.Marshal(c)
	r.lastErr = err.Error()
	r.mu.Unlock()
}

// Close flushes statistics; when a failure was recorded it writes the replay
// file, prints the VIOLATION line and fails the test.
func (r *Rec) Close() {
	r.mu.Lock()
	if r.flushed {
		r.mu.Unlock()
		return
	}
	r.flushed = true
	failed := r.failed
	r.mu.Unlock()
	if failed {
		r.writeReplay()
	}
	r.flush()
	if failed && !r.t.Failed() {
		r.t.Fail()
	}
}

type Stats struct {
	Property   string            `json:"property"`
	Test       string            `json:"test"`
	Rule       string            `json:"rule"`
	Tier       string            `json:"tier"`
	Seed       uint64            `json:"seed"`
	Shard      int               `json:"shard"`
	Evals      int64             `json:"evaluations"`
	NT         int64             `json:"nontrivial"`
	Distinct   int               `json:"distinct_nontrivial"`
	Hashes     []uint64          `json:"hashes,omitempty"`
	Classes    map[string]int64  `json:"classes"`
	Known      map[string]int64  `json:"known_findings_hit"`
	Samples    []json.RawMessage `json:"samples"`
	Failed     bool              `json:"failed"`
	Requested  int               `json:"requested_checks"`
	WallS      float64           `json:"wall_s"`
	Extra      map[string]any    `json:"extra,omitempty"`
	RapidSeed  uint64            `json:"rapid_seed"`
	Exhaustive bool              `json:"exhaustive,omitempty"`
}

func (r *Rec) flush() {
	dir := os.Getenv("VERIF_STATS")
	if dir == "" {
		return
	}
	r.mu.Lock()
	defer r.mu.Unlock()
	st := Stats{Property: r.ID, Test: r.Name, Rule: r.Rule, Tier: r.Tier, Seed: r.Seed, Shard: r.Shard,
		Evals: r.evals, NT: r.ntCount, Distinct: len(r.hashes), Classes: r.classes, Known: r.knownHits,
		Failed: r.failed, Requested: r.requested, WallS: time.Since(r.start).Seconds(), Extra: r.extra}
	st.Samples = append(append([]json.RawMessage{}, r.samples...), r.rnd...)
	n := 0
	for h := range r.hashes {
		if n >= 20000 {
			break
		}
		st.Hashes = append(st.Hashes, h)
		n++
	}
	sort.Slice(st.Hashes, func(i, j int) bool { return st.Hashes[i] < st.Hashes[j] })
	if v, ok := r.extra["exhaustive"].(bool); ok {
		st.Exhaustive = v
	}
	b, _ := json.Marshal(st)
	os.MkdirAll(dir, 0o755)
	os.WriteFile(filepath.Join(dir, fmt.Sprintf("%s.%d.json", r.Name, r.Shard)), b, 0o644)
}

// Spec describes one rapid-driven check.
type Spec[C any] struct {
	ID, Name, Rule string
	Draw           func(*rapid.T) C
	Exec           func(*Ctx, C) error
	// Setup, if set, runs once before any case (e.g. warm a chain).
	Setup func(*Rec)
}

// Run executes regression replays, then either the requested replay file or
// the rapid search.
func Run[C any](t *testing.T, s Spec[C]) {
	r := Open(t, s.ID, s.Name, s.Rule)
	defer r.Close()
	if s.Setup != nil {
		s.Setup(r)
	}
	runFile := func(path string, must bool) bool {
		b, err := os.ReadFile(path)
		if err != nil {
			t.Fatalf("replay %s: %v", path, err)
		}
		var rf replayFile
		if err := json.Unmarshal(b, &rf); err != nil {
			t.Fatalf("replay %s: %v", path, err)
		}
		if rf.Test != s.Name {
			return false
		}
		var c C
		if err := json.Unmarshal(rf.Case, &c); err != nil {
			t.Fatalf("replay %s: case does not decode: %v", path, err)
		}
		ctx := &Ctx{r: r}
		var err2 error
		// Markers for the driver: a former failing input that kills the process
		// (Go fatal errors cannot be recovered) leaves a BEGIN without an END.
		fmt.Printf("REPLAY-BEGIN %s\n", path)
		func() {
			defer func() {
				if p := recover(); p != nil {
					err2 = fmt.Errorf("panic: %v\n%s", p, debug.Stack())
				}
			}()
			err2 = s.Exec(ctx, c)
		}()
		fmt.Printf("REPLAY-END %s\n", path)
		for _, k := range ctx.known {
			fmt.Printf("KNOWN-FINDING: property=%s %s\n", r.ID, r.findings[k].What)
		}
		if err2 != nil {
			r.violation(path)
			fmt.Printf("violation detail: %s\n", err2)
			t.Fail()
			return true
		}
		fmt.Printf("replay %s: property held\n", path)
		return true
	}
	if p := os.Getenv("VERIF_REPLAY"); p != "" {
		if !runFile(p, true) {
			t.Skip("replay file is for another test")
		}
		r.flushed = true
		return
	}
	reg, _ := filepath.Glob(filepath.Join(r.Root, "replay", s.ID, "regress-*.json"))
	sort.Strings(reg)
	nreg := 0
	for _, p := range reg {
		if runFile(p, false) {
			nreg++
		}
		if t.Failed() {
			r.flushed = true
			return
		}
	}
	r.Extra("regressions_replayed", nreg)
	r.requested = rapidChecks()
	rapid.Check(t, func(rt *rapid.T) {
		c := s.Draw(rt)
		if err := r.Do(c, func(ctx *Ctx) error { return s.Exec(ctx, c) }); err != nil {
			rt.Fatalf("%v", err)
		}
	})
}

func rapidChecks() int {
	for _, a := range os.Args {
		if strings.HasPrefix(a, "-rapid.checks=") {
			n, _ := strconv.Atoi(strings.TrimPrefix(a, "-rapid.checks="))
			return n
		}
	}
	return 100
}

// Errf is fmt.Errorf.
func Errf(format string, a ...any) error { return fmt.Errorf(format, a...) }
