package vk
import ("testing";"pgregory.net/rapid"; _ "github.com/anishathalye/porcupine"; _ "github.com/gnolang/gno/tm2/pkg/std")
func TestX(t *testing.T){ rapid.Check(t, func(t *rapid.T){ _ = rapid.Int().Draw(t,"x") }) }
