package chain

import (
	"encoding/hex"
	"fmt"
	"reflect"
	"strconv"
	"strings"

	"github.com/gnolang/gno/gno.land/pkg/sdk/vm"
	"github.com/gnolang/gno/tm2/pkg/amino"
	abci "github.com/gnolang/gno/tm2/pkg/bft/abci/types"
	"github.com/gnolang/gno/tm2/pkg/crypto"
	dbm "github.com/gnolang/gno/tm2/pkg/db"
	"github.com/gnolang/gno/tm2/pkg/sdk/bank"
	"github.com/gnolang/gno/tm2/pkg/std"
	"pgregory.net/rapid"
)

// A History is plain data: genesis accounts and blocks of transactions drawn
// from a small message grammar. It is executed by Run.

type HMsg struct {
	Kind string   `json:"kind"` // send | call | addpkg | run
	To   int      `json:"to,omitempty"`
	Amt  int64    `json:"amt,omitempty"`
	Den  string   `json:"den,omitempty"`
	Pkg  string   `json:"pkg,omitempty"`
	Fn   string   `json:"fn,omitempty"`
	Args []string `json:"args,omitempty"`
	Send int64    `json:"send,omitempty"`
	Path string   `json:"path,omitempty"`
	Body string   `json:"body,omitempty"`
	Dep  int64    `json:"dep,omitempty"` // MaxDeposit (0 = unset)
}

type HTx struct {
	Signer int    `json:"signer"`
	Gas    int64  `json:"gas"`
	Fee    int64  `json:"fee"`
	Msgs   []HMsg `json:"msgs"`
}

type HBlock struct {
	DT  int64 `json:"dt"` // seconds since previous block
	Txs []HTx `json:"txs"`
}

type History struct {
	NAcc   int      `json:"nacc"`
	MaxGas int64    `json:"maxgas,omitempty"`
	Blocks []HBlock `json:"blocks"`
}

// Keys returns the deterministic keys of the history's accounts.
func Keys(n int) []Key {
	ks := make([]Key, n)
	for i := range ks {
		ks[i] = NewKey("acc" + strconv.Itoa(i))
	}
	return ks
}

// FreshAddr is a never-funded address used as a transfer target.
func FreshAddr(i int) crypto.Address { return NewKey("fresh" + strconv.Itoa(i)).Addr }

func (m HMsg) addr(keys []Key) crypto.Address {
	if m.To < 0 {
		return FreshAddr(-m.To)
	}
	return keys[m.To%len(keys)].Addr
}

// Build turns the data message into a real std.Msg signed-for by caller.
func (m HMsg) Build(caller crypto.Address, keys []Key) std.Msg {
	switch m.Kind {
	case "send":
		den := m.Den
		if den == "" {
			den = "ugnot"
		}
		return bank.MsgSend{FromAddress: caller, ToAddress: m.addr(keys), Amount: std.Coins{std.Coin{Denom: den, Amount: m.Amt}}}
	case "call":
		var send std.Coins
		if m.Send > 0 {
			send = std.Coins{std.NewCoin("ugnot", m.Send)}
		}
		args := make([]string, len(m.Args))
		for i, a := range m.Args {
			if strings.HasPrefix(a, "@") { // address of account index
				n, _ := strconv.Atoi(a[1:])
				if n < 0 {
					args[i] = FreshAddr(-n).String()
				} else {
					args[i] = keys[n%len(keys)].Addr.String()
				}
			} else {
				args[i] = a
			}
		}
		mc := vm.NewMsgCall(caller, send, m.Pkg, m.Fn, args)
		if m.Dep > 0 {
			mc.MaxDeposit = std.Coins{std.NewCoin("ugnot", m.Dep)}
		}
		return mc
	case "addpkg":
		var dep std.Coins
		if m.Dep > 0 {
			dep = std.Coins{std.NewCoin("ugnot", m.Dep)}
		}
		var send std.Coins
		if m.Send > 0 {
			send = std.Coins{std.NewCoin("ugnot", m.Send)}
		}
		msg := AddPkg(caller, m.Path, map[string]string{"a.gno": m.Body}, dep)
		msg.Send = send
		return msg
	case "run":
		var send std.Coins
		if m.Send > 0 {
			send = std.Coins{std.NewCoin("ugnot", m.Send)}
		}
		mr := vm.NewMsgRun(caller, send, []*std.MemFile{{Name: "main.gno", Body: m.Body}})
		if m.Dep > 0 {
			mr.MaxDeposit = std.Coins{std.NewCoin("ugnot", m.Dep)}
		}
		return mr
	}
	panic("bad msg kind " + m.Kind)
}

// ---------------------------------------------------------------------------
// Generator.

var callTable = []struct {
	pkg, fn string
	args    func(rt *rapid.T, nacc int) []string
}{
	{PathCtr, "Inc", func(rt *rapid.T, n int) []string { return []string{itoa(rapid.IntRange(-3, 9).Draw(rt, "n"))} }},
	{PathCtr, "Note", func(rt *rapid.T, n int) []string { return []string{rapid.StringMatching("[a-c]{0,12}").Draw(rt, "s")} }},
	{PathCtr, "Trim", func(rt *rapid.T, n int) []string { return []string{itoa(rapid.IntRange(0, 3).Draw(rt, "n"))} }},
	{PathCtr, "Boom", func(rt *rapid.T, n int) []string { return []string{"1"} }},
	{PathCtr, "Spin", func(rt *rapid.T, n int) []string { return []string{itoa(rapid.IntRange(0, 3000).Draw(rt, "n"))} }},
	{PathKV, "Set", func(rt *rapid.T, n int) []string {
		return []string{rapid.StringMatching("[a-d]").Draw(rt, "k"), rapid.StringMatching("[x-z]{0,40}").Draw(rt, "v")}
	}},
	{PathKV, "Del", func(rt *rapid.T, n int) []string { return []string{rapid.StringMatching("[a-d]").Draw(rt, "k")} }},
	{PathKV, "Push", func(rt *rapid.T, n int) []string {
		return []string{rapid.StringMatching("[a-d]").Draw(rt, "k"), rapid.StringMatching("[x-z]{0,20}").Draw(rt, "v")}
	}},
	{PathKV, "Pop", func(rt *rapid.T, n int) []string { return []string{itoa(rapid.IntRange(0, 3).Draw(rt, "n"))} }},
	{PathMulti, "Both", func(rt *rapid.T, n int) []string {
		return []string{rapid.StringMatching("[a-d]").Draw(rt, "k"), itoa(rapid.IntRange(0, 5).Draw(rt, "n"))}
	}},
	{PathMulti, "BothThenBoom", func(rt *rapid.T, n int) []string { return []string{"q", "1"} }},
	{PathMulti, "Grow", func(rt *rapid.T, n int) []string { return []string{rapid.StringMatching("[a-d]{1,8}").Draw(rt, "k")} }},
	{PathMulti, "Grow", func(rt *rapid.T, n int) []string { return []string{rapid.StringMatching("[a-d]{1,8}").Draw(rt, "k")} }},
	{PathBank, "Deposit", func(rt *rapid.T, n int) []string { return nil }},
	{PathBank, "Pay", func(rt *rapid.T, n int) []string {
		return []string{"@" + itoa(rapid.IntRange(-2, n-1).Draw(rt, "to")), itoa(rapid.SampledFrom([]int{0, 1, 50, 5000, 1 << 40}).Draw(rt, "amt"))}
	}},
	{PathBank, "Mint", func(rt *rapid.T, n int) []string {
		return []string{"@" + itoa(rapid.IntRange(-2, n-1).Draw(rt, "to")), itoa(rapid.SampledFrom([]int{1, 7, 1000}).Draw(rt, "amt"))}
	}},
	{PathBank, "Burn", func(rt *rapid.T, n int) []string {
		return []string{"@" + itoa(rapid.IntRange(-2, n-1).Draw(rt, "to")), itoa(rapid.SampledFrom([]int{1, 7, 5000}).Draw(rt, "amt"))}
	}},
	{PathCtr, "Nope", func(rt *rapid.T, n int) []string { return nil }},   // missing function
	{PathCtr, "Inc", func(rt *rapid.T, n int) []string { return []string{"x"} }}, // bad argument
}

func itoa(n int) string { return strconv.Itoa(n) }

var pkgBodies = []string{
	"package %s\n\nvar X = []int{1, 2, 3}\n\nfunc Add(cur realm, n int) int { X = append(X, n); return len(X) }\n",
	"package %s\n\nimport \"gno.land/r/vv/ctr\"\n\nvar S string\n\nfunc init() { S = \"init\" }\n\nfunc Poke(cur realm) int { S += \"!\"; return ctr.Inc(cross(cur), 1) }\n",
	"package %s\n\ntype T struct{ A, B int }\n\nvar M = map[string]*T{}\n\nfunc Put(cur realm, k string) int { M[k] = &T{len(M), 2}; return len(M) }\n",
	"package %s\n\nfunc Broken( int {\n", // syntax error
	"package %s\n\nvar X int = \"s\"\n",    // type error
	"package %s\n\nfunc init() { panic(\"init panic\") }\n",
}

var runBodies = []string{
	"package main\n\nimport \"gno.land/r/vv/ctr\"\n\nfunc main(cur realm) {\n\tctr.Inc(cross(cur), 2)\n\tprintln(ctr.Render(\"\"))\n}\n",
	"package main\n\nimport (\n\t\"gno.land/r/vv/kv\"\n\t\"gno.land/r/vv/ctr\"\n)\n\nfunc main(cur realm) {\n\tkv.Set(cross(cur), \"r\", \"run\")\n\tkv.Push(cross(cur), \"r\", \"run\")\n\tctr.Note(cross(cur), \"from-run\")\n}\n",
	"package main\n\nimport \"gno.land/r/vv/kv\"\n\nfunc main(cur realm) {\n\tkv.Set(cross(cur), \"r\", \"gone\")\n\tpanic(\"run panic\")\n}\n",
	"package main\n\nfunc main() {\n\tm := map[string]int{}\n\tfor i := 0; i < 50; i++ {\n\t\tm[string(rune('a'+i%26))] += i\n\t}\n\tprintln(len(m))\n}\n",
	"package main\n\nimport \"gno.land/r/vv/kv\"\n\nfunc main(cur realm) {\n\tkv.Pop(cross(cur), 100)\n\tkv.Del(cross(cur), \"a\")\n}\n",
}

// DrawMsg draws one message.
func DrawMsg(rt *rapid.T, nacc int) HMsg {
	switch rapid.IntRange(0, 9).Draw(rt, "kind") {
	case 0, 1:
		return HMsg{Kind: "send", To: rapid.IntRange(-3, nacc-1).Draw(rt, "to"),
			Amt: rapid.SampledFrom([]int64{1, 1000, 999_999, 1 << 50}).Draw(rt, "amt"),
			Den: rapid.SampledFrom([]string{"ugnot", "ugnot", "ugnot", "/" + PathBank + ":tok"}).Draw(rt, "den")}
	case 2:
		i := rapid.IntRange(0, len(pkgBodies)-1).Draw(rt, "body")
		name := "p" + itoa(rapid.IntRange(0, 3).Draw(rt, "pn"))
		return HMsg{Kind: "addpkg", Path: "gno.land/r/gen/" + name, Body: fmt.Sprintf(pkgBodies[i], name),
			Dep: rapid.SampledFrom([]int64{0, 0, 1, 100_000_000}).Draw(rt, "dep")}
	case 3:
		i := rapid.IntRange(0, len(runBodies)-1).Draw(rt, "run")
		return HMsg{Kind: "run", Body: runBodies[i], Dep: rapid.SampledFrom([]int64{0, 0, 0, 1}).Draw(rt, "dep")}
	default:
		e := callTable[rapid.IntRange(0, len(callTable)-1).Draw(rt, "fn")]
		m := HMsg{Kind: "call", Pkg: e.pkg, Fn: e.fn, Args: e.args(rt, nacc)}
		// a too-small MaxDeposit makes every realm whose storage grows report an error
		m.Dep = rapid.SampledFrom([]int64{0, 0, 0, 0, 1, 100_000_000}).Draw(rt, "dep")
		if e.fn == "Deposit" {
			m.Send = rapid.SampledFrom([]int64{0, 5000, 1_000_000}).Draw(rt, "send")
		}
		return m
	}
}

// ---------------------------------------------------------------------------
// Hook operations: values of function / interface type handed to the hk realm
// by MsgRun scripts (whose package gno.land/e/<addr>/run is ephemeral), by the
// realm's own code or taken from another realm, and invoked in later blocks.

func hkScript(decls, body string) string {
	return "package main\n\nimport (\n\t\"gno.land/r/vv/ctr\"\n\t\"gno.land/r/vv/hk\"\n)\n\nvar _ = ctr.Render\n\n" +
		decls + "\nfunc main(cur realm) {\n" + body + "}\n"
}

const hkTypeT = "type T struct{ S string }\n\nfunc (t T) Name() string { return \"T:\" + t.S }\n\ntype P struct{ N int }\n\nfunc (p *P) Name() string { p.N++; return \"P\" }\n"

// HookSetBodies are MsgRun scripts that hand a script-made value to hk.
var HookSetBodies = []string{
	// function literal capturing a local of main
	hkScript("", "\tgreeting := \"hello\"\n\thk.Set(cross(cur), func() string { return greeting + \" from the script\" })\n\tprintln(\"registered\")\n"),
	// function literal capturing nothing
	hkScript("", "\thk.Set(cross(cur), func() string { return \"lit\" })\n"),
	// top-level function of the script
	hkScript("func hook() string { return \"top-level\" }\n", "\thk.Set(cross(cur), hook)\n"),
	// closure over a package variable of the script, mutating it
	hkScript("var calls []string\n", "\thk.Set(cross(cur), func() string { calls = append(calls, \"c\"); return \"calls\" + string(rune('0'+len(calls))) })\n"),
	// closure capturing a loop variable and a map
	hkScript("", "\tm := map[string]int{\"a\": 1}\n\tfor i := 0; i < 3; i++ {\n\t\tif i == 1 {\n\t\t\thk.Set(cross(cur), func() string { m[\"a\"] += i; return \"loop\" + string(rune('0'+m[\"a\"])) })\n\t\t}\n\t}\n"),
	// value of a script-declared type through the interface parameter
	hkScript(hkTypeT, "\thk.SetAny(cross(cur), T{\"val\"})\n"),
	// pointer to a value of a script-declared type
	hkScript(hkTypeT, "\thk.SetAny(cross(cur), &P{})\n"),
	// bound method value of a script-declared type
	hkScript(hkTypeT, "\tt := T{\"meth\"}\n\thk.Set(cross(cur), t.Name)\n"),
	// any-typed slot: script struct, script func, plain values
	hkScript(hkTypeT, "\thk.Keep(cross(cur), T{\"kept\"})\n"),
	hkScript("", "\tn := 41\n\thk.Keep(cross(cur), func(p string) string { n++; return p + string(rune('0'+n%10)) })\n"),
	hkScript("", "\thk.Keep(cross(cur), \"plain\")\n"),
	// a function of another (public) realm
	hkScript("", "\thk.Keep(cross(cur), ctr.Render)\n"),
	// a script function of Render type
	hkScript("func render(p string) string { return \"script-render\" + p }\n", "\thk.Keep(cross(cur), render)\n"),
	// set and fire inside the same transaction
	hkScript("", "\tx := \"same-tx\"\n\thk.Set(cross(cur), func() string { return x })\n\tprintln(hk.Fire(cross(cur)))\n"),
	// set, fire, then replace by a realm-made closure (nothing of the script stays)
	hkScript("", "\thk.Set(cross(cur), func() string { return \"tmp\" })\n\tprintln(hk.Fire(cross(cur)))\n\thk.SetOwn(cross(cur), \"after\")\n"),
}

// HookFireBody is a MsgRun script invoking the stored values.
var HookFireBody = hkScript("", "\tprintln(\"fired:\", hk.Fire(cross(cur)))\n")

func isHookSet(m HMsg) bool {
	return m.Kind == "run" && (strings.Contains(m.Body, "hk.Set") || strings.Contains(m.Body, "hk.Keep("))
}

func isHookFire(m HMsg) bool {
	return (m.Kind == "call" && m.Pkg == PathHk && m.Fn == "Fire") || (m.Kind == "run" && m.Body == HookFireBody)
}

// HookSpan reports the first block holding a MsgRun that hands a value to hk
// and the last later block that fires; ok is false when there is no such pair.
func HookSpan(h History) (set, fire int, ok bool) {
	set, fire = -1, -1
	for bi, b := range h.Blocks {
		for _, tx := range b.Txs {
			for _, m := range tx.Msgs {
				if set < 0 && isHookSet(m) {
					set = bi
				}
				if set >= 0 && bi > set && isHookFire(m) {
					fire = bi
				}
			}
		}
	}
	return set, fire, set >= 0 && fire > set
}

func drawHookMsg(rt *rapid.T) HMsg {
	switch rapid.IntRange(0, 9).Draw(rt, "hk") {
	case 0, 1, 2:
		return HMsg{Kind: "run", Body: rapid.SampledFrom(HookSetBodies).Draw(rt, "hkset")}
	case 3:
		return HMsg{Kind: "call", Pkg: PathHk, Fn: "SetOwn", Args: []string{rapid.StringMatching("[a-c]{0,6}").Draw(rt, "s")}}
	case 4:
		return HMsg{Kind: "call", Pkg: PathHk, Fn: "Clear"}
	case 5, 6:
		return HMsg{Kind: "run", Body: HookFireBody}
	default:
		return HMsg{Kind: "call", Pkg: PathHk, Fn: "Fire"}
	}
}

func (h *History) insertTx(rt *rapid.T, b int, tx HTx) {
	txs := h.Blocks[b].Txs
	at := rapid.IntRange(0, len(txs)).Draw(rt, "at")
	txs = append(txs, HTx{})
	copy(txs[at+1:], txs[at:])
	txs[at] = tx
	h.Blocks[b].Txs = txs
}

// PlantHooks adds hook transactions to a drawn history: a MsgRun handing a
// script-made value to hk in one block, a Fire (MsgCall or MsgRun, same or
// other signer) in a later block, and a few more hook operations anywhere.
func PlantHooks(rt *rapid.T, h *History) {
	nb := len(h.Blocks)
	if nb < 2 {
		return
	}
	hookTx := func(signer int, m HMsg) HTx {
		tx := HTx{Signer: signer, Fee: 1_000_000, Gas: 60_000_000, Msgs: []HMsg{m}}
		if rapid.IntRange(0, 5).Draw(rt, "hkmore") == 0 {
			tx.Msgs = append(tx.Msgs, DrawMsg(rt, h.NAcc))
		}
		return tx
	}
	signer := rapid.IntRange(0, h.NAcc-1).Draw(rt, "hksigner")
	b := rapid.IntRange(0, nb-2).Draw(rt, "hksetblk")
	h.insertTx(rt, b, hookTx(signer, HMsg{Kind: "run", Body: rapid.SampledFrom(HookSetBodies).Draw(rt, "hkset")}))
	for k := rapid.IntRange(1, 2).Draw(rt, "hkfires"); k > 0; k-- {
		f := rapid.IntRange(b+1, nb-1).Draw(rt, "hkfireblk")
		s := signer
		if rapid.IntRange(0, 2).Draw(rt, "hkother") == 0 {
			s = rapid.IntRange(0, h.NAcc-1).Draw(rt, "hksigner2")
		}
		m := HMsg{Kind: "call", Pkg: PathHk, Fn: "Fire"}
		if rapid.Bool().Draw(rt, "hkfirerun") {
			m = HMsg{Kind: "run", Body: HookFireBody}
		}
		h.insertTx(rt, f, hookTx(s, m))
	}
	for k := rapid.IntRange(0, 3).Draw(rt, "hkextra"); k > 0; k-- {
		h.insertTx(rt, rapid.IntRange(0, nb-1).Draw(rt, "hkblk"),
			hookTx(rapid.IntRange(0, h.NAcc-1).Draw(rt, "hksigner3"), drawHookMsg(rt)))
	}
}

// DrawTx draws one transaction. Gas is either ample, tight (likely to run
// out inside the messages) or tiny (fails in the ante handler).
func DrawTx(rt *rapid.T, nacc, maxMsgs int) HTx {
	tx := HTx{Signer: rapid.IntRange(0, nacc-1).Draw(rt, "signer"), Fee: 1_000_000}
	n := rapid.IntRange(1, maxMsgs).Draw(rt, "nmsgs")
	for i := 0; i < n; i++ {
		tx.Msgs = append(tx.Msgs, DrawMsg(rt, nacc))
	}
	switch rapid.IntRange(0, 9).Draw(rt, "gaskind") {
	case 0:
		tx.Gas = rapid.Int64Range(1_200_000, 4_500_000).Draw(rt, "tight")
	case 1:
		tx.Gas = rapid.Int64Range(1, 60_000).Draw(rt, "tiny")
	default:
		tx.Gas = 60_000_000
	}
	return tx
}

// DrawHistory draws a history: block 1 always deploys the realm library.
// About 70% of the histories carry hook operations (PlantHooks).
func DrawHistory(rt *rapid.T, minBlocks, maxBlocks, maxTxs int) History {
	h := History{NAcc: rapid.IntRange(2, 5).Draw(rt, "nacc")}
	nb := rapid.IntRange(minBlocks, maxBlocks).Draw(rt, "nblocks")
	for b := 0; b < nb; b++ {
		blk := HBlock{DT: int64(rapid.IntRange(1, 100).Draw(rt, "dt"))}
		nt := rapid.IntRange(0, maxTxs).Draw(rt, "ntx")
		for i := 0; i < nt; i++ {
			blk.Txs = append(blk.Txs, DrawTx(rt, h.NAcc, 3))
		}
		h.Blocks = append(h.Blocks, blk)
	}
	// most histories also hand function / interface values to the hk realm and
	// invoke them in later blocks
	if rapid.IntRange(0, 9).Draw(rt, "hooks") < 7 {
		PlantHooks(rt, &h)
	}
	return h
}

// ---------------------------------------------------------------------------
// Execution trace.

type TxResult struct {
	Err       string `json:"err"`
	Log       string `json:"log,omitempty"`
	Data      string `json:"data"`
	Events    string `json:"events"`
	GasUsed   int64  `json:"gas_used"`
	GasWanted int64  `json:"gas_wanted"`
}

func (r TxResult) OK() bool { return r.Err == "" }

// ResultOf flattens a DeliverTx response into comparable strings.
func ResultOf(r abci.ResponseDeliverTx) TxResult {
	out := TxResult{Log: r.Log, Data: hex.EncodeToString(r.Data), GasUsed: r.GasUsed, GasWanted: r.GasWanted}
	if r.Error != nil {
		out.Err = reflect.TypeOf(r.Error).String() + ": " + r.Error.Error()
	}
	if len(r.Events) > 0 {
		b, err := amino.MarshalJSON(r.Events)
		if err != nil {
			out.Events = fmt.Sprintf("%v", r.Events)
		} else {
			out.Events = string(b)
		}
	}
	return out
}

type BlockResult struct {
	AppHash string     `json:"app_hash"`
	Txs     []TxResult `json:"txs"`
	Skipped int        `json:"skipped"`
}

type Trace struct {
	Init   []TxResult
	Blocks []BlockResult
	Final  Dump
}

// Config is one way of executing a history.
type Config struct {
	NewDB     func() (dbm.DB, func()) // nil => memdb
	Restarts  []bool                  // restart before block i (index into h.Blocks; padded with false)
	NoCacheSL bool                    // InitChainer loads stdlibs without the shared cache
	AfterTx   func(c *Chain, b, i int, r abci.ResponseDeliverTx)
	AfterBlk  func(c *Chain, b int) error
}

// Deploy block: library realms are deployed by account 0 in a leading block.
func deployLibrary(c *Chain, keys []Key) ([]TxResult, error) {
	var out []TxResult
	for _, r := range Realms {
		res, _, err := c.Send([]std.Msg{AddPkg(keys[0].Addr, r.Path, map[string]string{"a.gno": r.Src}, nil)}, 50_000_000, 1_000_000, keys[0])
		if err != nil {
			return nil, err
		}
		if res.Error != nil {
			return nil, fmt.Errorf("library realm %s failed to deploy: %v %s", r.Path, res.Error, res.Log)
		}
		out = append(out, ResultOf(res))
	}
	return out, nil
}

// Run executes the history under a configuration.
func Run(h History, cfg Config) (*Trace, *Chain, error) {
	keys := Keys(h.NAcc)
	var db dbm.DB
	cleanup := func() {}
	if cfg.NewDB != nil {
		db, cleanup = cfg.NewDB()
	}
	_ = cleanup
	c, _, err := New(db, GenesisWithBalances(1e13, keys...), Options{MaxGas: h.MaxGas, NoCacheStdlib: cfg.NoCacheSL})
	if err != nil {
		return nil, nil, err
	}
	tr := &Trace{}
	c.Begin(1)
	lib, err := deployLibrary(c, keys)
	if err != nil {
		return nil, c, err
	}
	_, hash := c.End()
	tr.Blocks = append(tr.Blocks, BlockResult{AppHash: hex.EncodeToString(hash), Txs: lib})
	t := int64(1)
	for bi, blk := range h.Blocks {
		if bi < len(cfg.Restarts) && cfg.Restarts[bi] {
			if err := c.Restart(); err != nil {
				return tr, c, fmt.Errorf("restart before block %d: %v", bi, err)
			}
		}
		t += blk.DT
		c.Begin(t)
		br := BlockResult{}
		for ti, tx := range blk.Txs {
			k := keys[tx.Signer%len(keys)]
			msgs := make([]std.Msg, len(tx.Msgs))
			for i, m := range tx.Msgs {
				msgs[i] = m.Build(k.Addr, keys)
			}
			res, _, err := c.Send(msgs, tx.Gas, tx.Fee, k)
			if err != nil {
				return tr, c, err
			}
			br.Txs = append(br.Txs, ResultOf(res))
			if cfg.AfterTx != nil {
				cfg.AfterTx(c, bi, ti, res)
			}
		}
		_, hash := c.End()
		br.AppHash = hex.EncodeToString(hash)
		tr.Blocks = append(tr.Blocks, br)
		if cfg.AfterBlk != nil {
			if err := cfg.AfterBlk(c, bi); err != nil {
				return tr, c, err
			}
		}
	}
	tr.Final, err = c.Dump()
	return tr, c, err
}

// CompareTraces returns "" when two traces agree on every block's app hash and
// every transaction's result (log text included when withLog).
func CompareTraces(a, b *Trace, withLog bool) string {
	if len(a.Blocks) != len(b.Blocks) {
		return fmt.Sprintf("block counts differ: %d vs %d", len(a.Blocks), len(b.Blocks))
	}
	for i := range a.Blocks {
		x, y := a.Blocks[i], b.Blocks[i]
		if len(x.Txs) != len(y.Txs) {
			return fmt.Sprintf("block %d: tx counts differ", i)
		}
		for j := range x.Txs {
			p, q := x.Txs[j], y.Txs[j]
			if !withLog {
				p.Log, q.Log = "", ""
			}
			if p != q {
				return fmt.Sprintf("block %d tx %d: results differ:\n A=%+v\n B=%+v", i, j, p, q)
			}
		}
		if x.AppHash != y.AppHash {
			return fmt.Sprintf("block %d: app hash differs: %s vs %s", i, x.AppHash, y.AppHash)
		}
	}
	return ""
}
