package chain

// Library of fixed Gno realms used by chain histories. They are small but
// cover: state growth and shrink (objects attached/detached), several realms
// touched in one transaction, panics after writes, events, coins held by a
// realm, realm-issued denoms, chain params, and caller-supplied function /
// interface values kept in realm state (hk).

const PathCtr = "gno.land/r/vv/ctr"
const PathKV = "gno.land/r/vv/kv"
const PathMulti = "gno.land/r/vv/multi"
const PathBank = "gno.land/r/vv/bnk"
const PathHk = "gno.land/r/vv/hk"

const RealmCtr = `package ctr

import "chain"

var N int
var Log []string

func Inc(cur realm, n int) int {
	N += n
	chain.Emit("inc", "n", itoa(N))
	return N
}

func Note(cur realm, s string) int {
	Log = append(Log, s)
	return len(Log)
}

func Trim(cur realm, n int) int {
	if n > len(Log) {
		n = len(Log)
	}
	Log = Log[:len(Log)-n]
	return len(Log)
}

func Boom(cur realm, n int) {
	N += n
	Log = append(Log, "boom")
	panic("boom after write")
}

func Spin(cur realm, n int) int {
	x := 0
	for i := 0; i < n; i++ {
		x += i % 7
	}
	N += x % 3
	return x
}

func itoa(n int) string {
	if n == 0 {
		return "0"
	}
	neg := n < 0
	if neg {
		n = -n
	}
	s := ""
	for n > 0 {
		s = string(rune('0'+n%10)) + s
		n /= 10
	}
	if neg {
		s = "-" + s
	}
	return s
}

func Render(path string) string { return "N=" + itoa(N) + " log=" + itoa(len(Log)) }
`

const RealmKV = `package kv

import "chain"

type Node struct {
	K, V string
	Next *Node
}

var (
	M    = map[string]string{}
	Head *Node
	Len  int
)

func Set(cur realm, k, v string) int {
	M[k] = v
	chain.Emit("set", "k", k)
	return len(M)
}

func Del(cur realm, k string) int {
	delete(M, k)
	return len(M)
}

func Push(cur realm, k, v string) int {
	Head = &Node{K: k, V: v, Next: Head}
	Len++
	return Len
}

func Pop(cur realm, n int) int {
	for ; n > 0 && Head != nil; n-- {
		Head = Head.Next
		Len--
	}
	return Len
}

func Get(k string) string { return M[k] }

func Render(path string) string {
	s := ""
	for n := Head; n != nil; n = n.Next {
		s += n.K + "=" + n.V + ";"
	}
	return s
}
`

const RealmMulti = `package multi

import (
	"gno.land/r/vv/ctr"
	"gno.land/r/vv/kv"
)

var Calls int

func Both(cur realm, k string, n int) int {
	Calls++
	kv.Set(cross(cur), k, "m")
	kv.Push(cross(cur), k, "p")
	return ctr.Inc(cross(cur), n)
}

var Seen []string

// Grow enlarges the storage of three realms in one transaction.
func Grow(cur realm, k string) int {
	Calls++
	Seen = append(Seen, k)
	kv.Push(cross(cur), k, "g")
	return ctr.Note(cross(cur), k)
}

func BothThenBoom(cur realm, k string, n int) {
	Calls++
	kv.Set(cross(cur), k, "x")
	ctr.Inc(cross(cur), n)
	ctr.Note(cross(cur), k)
	panic("multi boom")
}

func Render(path string) string { return "" }
`

const RealmBank = `package bnk

import (
	"chain"
	"chain/banker"
	"chain/runtime/unsafe"
)

var Received int64

func Deposit(cur realm) int64 {
	sent := unsafe.OriginSend()
	Received += sent.AmountOf("ugnot")
	return Received
}

func Pay(cur realm, to address, amt int64) {
	b := banker.NewBanker(banker.BankerTypeRealmSend, cur)
	b.SendCoins(cur.Address(), to, chain.Coins{{"ugnot", amt}})
}

func Mint(cur realm, to address, amt int64) {
	b := banker.NewBanker(banker.BankerTypeRealmIssue, cur)
	b.IssueCoin(to, chain.CoinDenom(cur.PkgPath(), "tok"), amt)
}

func Burn(cur realm, from address, amt int64) {
	b := banker.NewBanker(banker.BankerTypeRealmIssue, cur)
	b.RemoveCoin(from, chain.CoinDenom(cur.PkgPath(), "tok"), amt)
}

func Render(path string) string { return "" }
`

// RealmHk keeps caller-supplied values of function and interface type in
// package variables and invokes them later (nothing is recovered): whatever a
// caller manages to get persisted here must behave identically on every node,
// whatever that node's cache/restart history is.
const RealmHk = `package hk

type Namer interface{ Name() string }

var (
	F    func() string
	Any  interface{}
	Runs int
)

func Set(cur realm, f func() string) { F = f }

func SetAny(cur realm, v Namer) { Any = v }

func Keep(cur realm, v interface{}) { Any = v }

// SetOwn stores a closure made by this realm's own code.
func SetOwn(cur realm, s string) {
	F = func() string { s += "."; return s }
}

// Fire invokes whatever is stored.
func Fire(cur realm) string {
	Runs++
	s := "fire"
	if F != nil {
		s += " F=" + F()
	}
	switch a := Any.(type) {
	case func(string) string:
		s += " R=" + a("")
	case Namer:
		s += " N=" + a.Name()
	case string:
		s += " S=" + a
	}
	return s
}

func Clear(cur realm) { F, Any = nil, nil }
`

// Realms lists the library in deployment order.
var Realms = []struct{ Path, Src string }{
	{PathCtr, RealmCtr},
	{PathKV, RealmKV},
	{PathMulti, RealmMulti},
	{PathBank, RealmBank},
	{PathHk, RealmHk},
}
