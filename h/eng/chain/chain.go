// Package chain is engine E1: it drives the real gno.land application
// (gnoland.NewAppWithOptions) over a harness-supplied dbm.DB through
// InitChain / BeginBlock / DeliverTx / EndBlock / Commit, with really signed
// transactions, restarts over the same DB, deliver-state peeks and full
// logical dumps of the committed multistore through an independent read path.
package chain

import (
	"bytes"
	"encoding/hex"
	"fmt"
	"sort"
	"strings"
	"time"

	"github.com/gnolang/gno/gno.land/pkg/gnoland"
	"github.com/gnolang/gno/gno.land/pkg/sdk/vm"
	"github.com/gnolang/gno/gnovm/pkg/gnolang"
	"github.com/gnolang/gno/tm2/pkg/amino"
	abci "github.com/gnolang/gno/tm2/pkg/bft/abci/types"
	bft "github.com/gnolang/gno/tm2/pkg/bft/types"
	"github.com/gnolang/gno/tm2/pkg/crypto"
	"github.com/gnolang/gno/tm2/pkg/crypto/secp256k1"
	dbm "github.com/gnolang/gno/tm2/pkg/db"
	"github.com/gnolang/gno/tm2/pkg/db/memdb"
	"github.com/gnolang/gno/tm2/pkg/sdk"
	"github.com/gnolang/gno/tm2/pkg/std"
	"github.com/gnolang/gno/tm2/pkg/store"
	storebptree "github.com/gnolang/gno/tm2/pkg/store/bptree"
	"github.com/gnolang/gno/tm2/pkg/store/dbadapter"
	stypes "github.com/gnolang/gno/tm2/pkg/store/types"
)

const ChainID = "verif-chain"

// Key is a deterministic secp256k1 test identity.
type Key struct {
	Priv crypto.PrivKey
	Pub  crypto.PubKey
	Addr crypto.Address
}

// NewKey derives a key from a name.
func NewKey(name string) Key {
	p := secp256k1.GenPrivKeySecp256k1([]byte("verif-key-" + name))
	return Key{Priv: p, Pub: p.PubKey(), Addr: p.PubKey().Address()}
}

// Options configure a chain instance.
type Options struct {
	MaxGas          int64 // consensus Block.MaxGas (0 => 3_000_000_000)
	CacheStdlibLoad bool
	NoCacheStdlib   bool
	Prune           stypes.PruneStrategy
	GenesisTime     time.Time
	InitialHeight   int64
	VerifyGenesisSigs bool
}

// Chain is one running application instance over a DB.
type Chain struct {
	DB      dbm.DB
	App     *sdk.BaseApp
	Opts    Options
	Height  int64
	LastHdr *bft.Header
	inBlock bool
	// per-block account cache: committed number/sequence plus the bumps the
	// harness inferred from DeliverTx responses (GasWanted>0 <=> ante passed).
	accts map[string]*AccountInfo
}

func (o Options) appOptions(db dbm.DB) *gnoland.AppOptions {
	ao := gnoland.TestAppOptions(db)
	ao.CacheStdlibLoad = !o.NoCacheStdlib
	ao.GenesisTxResultHandler = gnoland.NoopGenesisTxResultHandler
	if o.Prune != "" {
		ao.PruneStrategy = o.Prune
	}
	ao.SkipGenesisSigVerification = !o.VerifyGenesisSigs
	return ao
}

// BlockParams returns the consensus block params used by the harness.
func (o Options) BlockParams() *abci.BlockParams {
	mg := o.MaxGas
	if mg == 0 {
		mg = 3_000_000_000
	}
	return &abci.BlockParams{MaxTxBytes: 1_000_000, MaxDataBytes: 2_000_000, MaxBlockBytes: 0, MaxGas: mg, TimeIotaMS: 100}
}

var T0 = time.Date(2026, 1, 1, 0, 0, 0, 0, time.UTC)

// New creates the app over db and runs InitChain with the given genesis state
// and commits the genesis block state (height 0 → first block is height 1).
func New(db dbm.DB, gen gnoland.GnoGenesisState, o Options) (*Chain, abci.ResponseInitChain, error) {
	if db == nil {
		db = memdb.NewMemDB()
	}
	app, err := gnoland.NewAppWithOptions(o.appOptions(db))
	if err != nil {
		return nil, abci.ResponseInitChain{}, err
	}
	c := &Chain{DB: db, App: app.(*sdk.BaseApp), Opts: o}
	gt := o.GenesisTime
	if gt.IsZero() {
		gt = T0
	}
	res := c.App.InitChain(abci.RequestInitChain{
		Time:            gt,
		ChainID:         ChainID,
		ConsensusParams: &abci.ConsensusParams{Block: o.BlockParams()},
		Validators:      []abci.ValidatorUpdate{},
		AppState:        gen,
		InitialHeight:   o.InitialHeight,
	})
	if res.Error != nil {
		return c, res, fmt.Errorf("InitChain: %v", res.Error)
	}
	// No Commit here: as under Tendermint the first Commit belongs to block 1.
	c.Height = c.App.LastBlockHeight()
	if o.InitialHeight > 1 {
		c.Height = o.InitialHeight - 1
	}
	return c, res, nil
}

// Restart drops the application object and rebuilds it over the same DB
// (cold caches, state reloaded from disk).
func (c *Chain) Restart() error {
	if c.inBlock {
		return fmt.Errorf("restart inside a block")
	}
	app, err := gnoland.NewAppWithOptions(c.Opts.appOptions(c.DB))
	if err != nil {
		return err
	}
	c.App = app.(*sdk.BaseApp)
	if got := c.App.LastBlockHeight(); got != c.Height {
		return fmt.Errorf("after restart LastBlockHeight=%d, want %d", got, c.Height)
	}
	return nil
}

// Begin starts block Height+1 at the given time offset (seconds after T0).
func (c *Chain) Begin(tsec int64) {
	h := c.Height + 1
	hdr := &bft.Header{ChainID: ChainID, Height: h, Time: T0.Add(time.Duration(tsec) * time.Second)}
	c.LastHdr = hdr
	c.App.BeginBlock(abci.RequestBeginBlock{Header: hdr})
	c.inBlock = true
	c.accts = map[string]*AccountInfo{}
}

// Acct returns the harness's view of an account inside the current block.
func (c *Chain) Acct(addr crypto.Address) (*AccountInfo, error) {
	if c.accts == nil {
		c.accts = map[string]*AccountInfo{}
	}
	if a, ok := c.accts[addr.String()]; ok {
		return a, nil
	}
	ai, err := c.Account(addr)
	if err != nil {
		return nil, err
	}
	c.accts[addr.String()] = &ai
	return &ai, nil
}

// Send signs msgs with the keys' current numbers/sequences, delivers the tx
// and updates the sequence view: runTx reports GasWanted>0 exactly when the
// ante handler passed (and therefore incremented every signer's sequence).
func (c *Chain) Send(msgs []std.Msg, gasWanted, feeAmount int64, keys ...Key) (abci.ResponseDeliverTx, []byte, error) {
	tx, err := c.MakeTx(msgs, gasWanted, feeAmount, keys...)
	if err != nil {
		return abci.ResponseDeliverTx{}, nil, err
	}
	r := c.Deliver(tx)
	c.NoteDelivered(r, keys...)
	return r, tx, nil
}

// NoteDelivered bumps the cached sequences of the signers if the ante passed.
func (c *Chain) NoteDelivered(r abci.ResponseDeliverTx, keys ...Key) {
	if r.GasWanted > 0 {
		for _, k := range keys {
			if a, ok := c.accts[k.Addr.String()]; ok {
				a.Sequence++
			}
		}
	}
}

// Deliver delivers raw tx bytes.
func (c *Chain) Deliver(tx []byte) abci.ResponseDeliverTx {
	return c.App.DeliverTx(abci.RequestDeliverTx{Tx: tx})
}

// End ends and commits the block, returning the app hash.
func (c *Chain) End() (abci.ResponseEndBlock, []byte) {
	eb := c.App.EndBlock(abci.RequestEndBlock{Height: c.Height + 1})
	cr := c.App.Commit()
	c.Height++
	c.inBlock = false
	return eb, cr.Data
}

// Query runs an ABCI query against committed state.
func (c *Chain) Query(path string, data []byte) abci.ResponseQuery {
	return c.App.Query(abci.RequestQuery{Path: path, Data: data})
}

// QEval evaluates expr in pkgPath.
func (c *Chain) QEval(pkgPath, expr string) (string, error) {
	r := c.Query("vm/qeval", []byte(pkgPath+"."+expr))
	if r.Error != nil {
		return "", fmt.Errorf("%v", r.Error)
	}
	return string(r.Data), nil
}

// AccountInfo holds number/sequence/coins of an account.
type AccountInfo struct {
	Exists   bool
	Number   uint64
	Sequence uint64
	Coins    std.Coins
}

// Account reads the account from committed state through the independent
// keeper stack (works for every account type: base, gno, vesting).
func (c *Chain) Account(addr crypto.Address) (AccountInfo, error) {
	rd, err := OpenReader(c.DB)
	if err != nil {
		return AccountInfo{}, err
	}
	acc := rd.Acck.GetAccount(rd.Ctx, addr)
	if acc == nil {
		return AccountInfo{}, nil
	}
	coins := rd.Bankk.GetCoins(rd.Ctx, addr)
	return AccountInfo{Exists: true, Number: acc.GetAccountNumber(), Sequence: acc.GetSequence(), Coins: coins}, nil
}

// SignTx signs msgs with the given keys using explicit numbers/sequences.
func SignTx(chainID string, msgs []std.Msg, fee std.Fee, memo string, keys []Key, nums, seqs []uint64) std.Tx {
	tx := std.Tx{Msgs: msgs, Fee: fee, Memo: memo}
	tx.Signatures = make([]std.Signature, len(keys))
	for i, k := range keys {
		sb, err := tx.GetSignBytes(chainID, nums[i], seqs[i])
		if err != nil {
			panic(err)
		}
		sig, err := k.Priv.Sign(sb)
		if err != nil {
			panic(err)
		}
		tx.Signatures[i] = std.Signature{PubKey: k.Pub, Signature: sig}
	}
	return tx
}

// MakeTx signs msgs for the current (live) account state of each key.
func (c *Chain) MakeTx(msgs []std.Msg, gasWanted, feeAmount int64, keys ...Key) ([]byte, error) {
	nums := make([]uint64, len(keys))
	seqs := make([]uint64, len(keys))
	for i, k := range keys {
		ai, err := c.Acct(k.Addr)
		if err != nil {
			return nil, err
		}
		nums[i], seqs[i] = ai.Number, ai.Sequence
	}
	tx := SignTx(ChainID, msgs, std.Fee{GasWanted: gasWanted, GasFee: std.NewCoin("ugnot", feeAmount)}, "", keys, nums, seqs)
	return amino.Marshal(tx)
}

// ---------------------------------------------------------------------------
// Committed-state dump through an independent read path.

// Dump is store name -> sorted key/value pairs (hex key -> value).
type Dump map[string][][2][]byte

// DumpDB opens a separate multistore over db (latest committed version) and
// returns the full logical contents of the "main" and "base" stores.
func DumpDB(db dbm.DB) (Dump, store.CommitID, error) {
	mainKey := store.NewStoreKey("main")
	baseKey := store.NewStoreKey("base")
	ms := store.NewCommitMultiStore(db)
	ms.MountStoreWithDB(mainKey, storebptree.FastStoreConstructor, db)
	ms.MountStoreWithDB(baseKey, dbadapter.StoreConstructor, db)
	if err := ms.LoadLatestVersion(); err != nil {
		return nil, store.CommitID{}, err
	}
	out := Dump{}
	for name, key := range map[string]store.StoreKey{"main": mainKey, "base": baseKey} {
		st := ms.GetStore(key)
		it := st.Iterator(nil, nil, nil)
		var kvs [][2][]byte
		for ; it.Valid(); it.Next() {
			if name == "base" && !logicalBaseKey(it.Key()) {
				continue
			}
			k := append([]byte{}, it.Key()...)
			v := append([]byte{}, it.Value()...)
			kvs = append(kvs, [2][]byte{k, v})
		}
		it.Close()
		out[name] = kvs
	}
	return out, ms.LastCommitID(), nil
}

// Dump dumps the committed state of this chain.
func (c *Chain) Dump() (Dump, error) {
	d, _, err := DumpDB(c.DB)
	return d, err
}

// logicalBaseKey reports whether a raw key of the shared DB belongs to the
// GnoVM base store (objects, types, nodes, package index). The dbadapter
// store shares the physical DB with the B+ tree and the multistore metadata,
// whose records (single upper-case byte prefixes, "s/") are persistence
// internals, not application state.
func logicalBaseKey(k []byte) bool {
	for _, p := range []string{"oid:", "tid:", "node:", "pkgidx:", "pkg:"} {
		if bytes.HasPrefix(k, []byte(p)) {
			return true
		}
	}
	return false
}

// isInfra reports keys of the base store that belong to the multistore /
// tree persistence itself rather than to logical application state.
func isInfra(store string, k []byte) bool {
	if store != "base" {
		return false
	}
	// The dbadapter store shares the raw DB with the B+ tree and the
	// multistore metadata: "s/" (rootmulti), and the tree's own prefixes.
	return bytes.HasPrefix(k, []byte("s/"))
}

// Diff returns a description of the first differences between two dumps.
func Diff(a, b Dump, ignore func(store string, key []byte) bool) string {
	var sb strings.Builder
	n := 0
	for _, name := range []string{"main", "base"} {
		ma, mb := map[string][]byte{}, map[string][]byte{}
		for _, kv := range a[name] {
			ma[string(kv[0])] = kv[1]
		}
		for _, kv := range b[name] {
			mb[string(kv[0])] = kv[1]
		}
		keys := map[string]bool{}
		for k := range ma {
			keys[k] = true
		}
		for k := range mb {
			keys[k] = true
		}
		sorted := make([]string, 0, len(keys))
		for k := range keys {
			sorted = append(sorted, k)
		}
		sort.Strings(sorted)
		for _, k := range sorted {
			if ignore != nil && ignore(name, []byte(k)) {
				continue
			}
			va, oka := ma[k]
			vb, okb := mb[k]
			if oka == okb && bytes.Equal(va, vb) {
				continue
			}
			n++
			if n <= 8 {
				fmt.Fprintf(&sb, "%s[%s]: A=%s B=%s\n", name, printable(k), show(va, oka), show(vb, okb))
			}
		}
	}
	if n > 8 {
		fmt.Fprintf(&sb, "... %d differing keys in total\n", n)
	}
	return sb.String()
}

func printable(k string) string {
	for _, c := range []byte(k) {
		if c < 0x20 || c > 0x7e {
			return "0x" + hex.EncodeToString([]byte(k))
		}
	}
	return k
}

func show(v []byte, ok bool) string {
	if !ok {
		return "<absent>"
	}
	if len(v) > 48 {
		return fmt.Sprintf("%x…(%d bytes)", v[:48], len(v))
	}
	return fmt.Sprintf("%x", v)
}

// ---------------------------------------------------------------------------
// Message helpers.

// AddPkg builds a MsgAddPackage for a single-file package plus gnomod.toml.
func AddPkg(creator crypto.Address, path string, files map[string]string, deposit std.Coins) vm.MsgAddPackage {
	var mf []*std.MemFile
	names := make([]string, 0, len(files))
	for n := range files {
		names = append(names, n)
	}
	sort.Strings(names)
	for _, n := range names {
		mf = append(mf, &std.MemFile{Name: n, Body: files[n]})
	}
	if _, ok := files["gnomod.toml"]; !ok {
		mf = append(mf, &std.MemFile{Name: "gnomod.toml", Body: gnolang.GenGnoModLatest(path)})
		sort.Slice(mf, func(i, j int) bool { return mf[i].Name < mf[j].Name })
	}
	m := vm.NewMsgAddPackage(creator, path, mf)
	m.MaxDeposit = deposit
	return m
}

// Call builds a MsgCall.
func Call(caller crypto.Address, pkg, fn string, args []string, send std.Coins) vm.MsgCall {
	return vm.NewMsgCall(caller, send, pkg, fn, args)
}

// GenesisWithBalances returns a default genesis state funding the keys.
func GenesisWithBalances(amount int64, keys ...Key) gnoland.GnoGenesisState {
	gs := gnoland.DefaultGenState()
	for _, k := range keys {
		gs.Balances = append(gs.Balances, gnoland.Balance{Address: k.Addr, Amount: std.Coins{std.NewCoin("ugnot", amount)}})
	}
	return gs
}
