package chain

import (
	"bytes"
	"encoding/binary"
	"fmt"
	"sort"

	"github.com/gnolang/gno/gno.land/pkg/gnoland"
	"github.com/gnolang/gno/tm2/pkg/amino"
	bft "github.com/gnolang/gno/tm2/pkg/bft/types"
	"github.com/gnolang/gno/tm2/pkg/crypto"
	dbm "github.com/gnolang/gno/tm2/pkg/db"
	"github.com/gnolang/gno/tm2/pkg/log"
	"github.com/gnolang/gno/tm2/pkg/sdk"
	"github.com/gnolang/gno/tm2/pkg/sdk/auth"
	"github.com/gnolang/gno/tm2/pkg/sdk/bank"
	"github.com/gnolang/gno/tm2/pkg/sdk/params"
	"github.com/gnolang/gno/tm2/pkg/std"
	"github.com/gnolang/gno/tm2/pkg/store"
	storebptree "github.com/gnolang/gno/tm2/pkg/store/bptree"
	"github.com/gnolang/gno/tm2/pkg/store/dbadapter"
)

// Reader is an independent read path over the committed state of a chain DB:
// its own multistore, store keys and keepers (never the application's).
type Reader struct {
	MS      store.CommitMultiStore
	MainKey store.StoreKey
	BaseKey store.StoreKey
	Acck    auth.AccountKeeper
	Bankk   bank.BankKeeper
	Prmk    params.ParamsKeeper
	Ctx     sdk.Context
}

// OpenReader loads the latest committed version of db.
func OpenReader(db dbm.DB) (*Reader, error) {
	r := &Reader{MainKey: store.NewStoreKey("main"), BaseKey: store.NewStoreKey("base")}
	r.MS = store.NewCommitMultiStore(db)
	r.MS.MountStoreWithDB(r.MainKey, storebptree.FastStoreConstructor, db)
	r.MS.MountStoreWithDB(r.BaseKey, dbadapter.StoreConstructor, db)
	if err := r.MS.LoadLatestVersion(); err != nil {
		return nil, err
	}
	r.Prmk = params.NewParamsKeeper(r.MainKey)
	r.Acck = auth.NewAccountKeeper(r.MainKey, r.Prmk.ForModule(auth.ModuleName), gnoland.ProtoGnoAccount, gnoland.ProtoGnoSessionAccount)
	r.Bankk = bank.NewBankKeeper(r.Acck, r.Prmk.ForModule(bank.ModuleName), r.MainKey, []string{"ugnot"})
	r.Prmk.Register(auth.ModuleName, r.Acck)
	r.Prmk.Register(bank.ModuleName, r.Bankk)
	r.Ctx = sdk.NewContext(sdk.RunTxModeCheck, r.MS.MultiCacheWrap(), &bft.Header{ChainID: ChainID, Height: 1}, log.NewNoopLogger())
	return r, nil
}

// RepoInvariants runs the repository's own bank and auth invariants.
func (r *Reader) RepoInvariants() error {
	if msg, broken := bank.AllInvariants(r.Bankk.ViewKeeper)(r.Ctx); broken {
		return fmt.Errorf("bank invariant broken: %s", msg)
	}
	if msg, broken := auth.AllInvariants(r.Acck)(r.Ctx); broken {
		return fmt.Errorf("auth invariant broken: %s", msg)
	}
	return nil
}

// Ledger is an independent recomputation of balances from raw keys.
type Ledger struct {
	Supply   map[string]int64            // /supply/<denom>
	Balances map[string]map[string]int64 // addr(bech32) -> denom -> amount (account tier + split keys)
	Accounts map[string]std.Account
	Problems []string
}

// Total sums every balance of a denom.
func (l *Ledger) Total(denom string) int64 {
	var t int64
	for _, m := range l.Balances {
		t += m[denom]
	}
	return t
}

// Denoms lists all denoms held or recorded, sorted.
func (l *Ledger) Denoms() []string {
	set := map[string]bool{}
	for d := range l.Supply {
		set[d] = true
	}
	for _, m := range l.Balances {
		for d := range m {
			set[d] = true
		}
	}
	out := make([]string, 0, len(set))
	for d := range set {
		out = append(out, d)
	}
	sort.Strings(out)
	return out
}

// LedgerOf rebuilds the ledger from the main-store key/values of a dump,
// checking record well-formedness on the way.
func LedgerOf(d Dump) *Ledger {
	l := &Ledger{Supply: map[string]int64{}, Balances: map[string]map[string]int64{}, Accounts: map[string]std.Account{}}
	add := func(addr crypto.Address, denom string, amt int64) {
		a := addr.String()
		if l.Balances[a] == nil {
			l.Balances[a] = map[string]int64{}
		}
		l.Balances[a][denom] += amt
	}
	for _, kv := range d["main"] {
		k, v := kv[0], kv[1]
		switch {
		case bytes.HasPrefix(k, []byte("/supply/")):
			denom := string(k[len("/supply/"):])
			if len(v) != 8 {
				l.Problems = append(l.Problems, fmt.Sprintf("supply record %q has %d bytes", denom, len(v)))
				continue
			}
			amt := int64(binary.BigEndian.Uint64(v))
			if amt <= 0 {
				l.Problems = append(l.Problems, fmt.Sprintf("supply record %q is %d", denom, amt))
			}
			l.Supply[denom] = amt
		case bytes.HasPrefix(k, []byte("/b/")):
			rest := k[3:]
			if len(rest) <= crypto.AddressSize {
				l.Problems = append(l.Problems, fmt.Sprintf("short balance key %x", k))
				continue
			}
			var addr crypto.Address
			copy(addr[:], rest[:crypto.AddressSize])
			denom := string(rest[crypto.AddressSize:])
			if len(v) != 8 {
				l.Problems = append(l.Problems, fmt.Sprintf("balance %s/%s has %d bytes", addr, denom, len(v)))
				continue
			}
			amt := int64(binary.BigEndian.Uint64(v))
			if amt <= 0 {
				l.Problems = append(l.Problems, fmt.Sprintf("balance %s/%s is %d (not positive)", addr, denom, amt))
			}
			if denom == "ugnot" {
				l.Problems = append(l.Problems, fmt.Sprintf("account-tier denom ugnot filed under a split key for %s", addr))
			}
			if err := std.ValidateDenom(denom); err != nil {
				l.Problems = append(l.Problems, fmt.Sprintf("balance key with invalid denom %q", denom))
			}
			add(addr, denom, amt)
		case bytes.HasPrefix(k, []byte("/a/")) && len(k) == 3+crypto.AddressSize:
			var acc std.Account
			if err := amino.Unmarshal(v, &acc); err != nil {
				l.Problems = append(l.Problems, fmt.Sprintf("account under %x does not decode: %v", k, err))
				continue
			}
			var addr crypto.Address
			copy(addr[:], k[3:])
			if acc.GetAddress() != addr {
				l.Problems = append(l.Problems, fmt.Sprintf("account %s stored under the key of %s", acc.GetAddress(), addr))
			}
			l.Accounts[addr.String()] = acc
			for _, c := range acc.GetCoins() {
				if c.Amount <= 0 {
					l.Problems = append(l.Problems, fmt.Sprintf("account %s holds non-positive %d%s", addr, c.Amount, c.Denom))
				}
				if c.Denom != "ugnot" {
					l.Problems = append(l.Problems, fmt.Sprintf("account %s holds split-tier denom %s inside the account object", addr, c.Denom))
				}
				add(addr, c.Denom, c.Amount)
			}
			if !acc.GetCoins().IsValid() {
				l.Problems = append(l.Problems, fmt.Sprintf("account %s coins not a valid set: %v", addr, acc.GetCoins()))
			}
		}
	}
	return l
}

// MainDump returns the logical contents of the main store only.
func (r *Reader) MainDump() Dump {
	st := r.MS.GetStore(r.MainKey)
	it := st.Iterator(nil, nil, nil)
	defer it.Close()
	var kvs [][2][]byte
	for ; it.Valid(); it.Next() {
		kvs = append(kvs, [2][]byte{append([]byte{}, it.Key()...), append([]byte{}, it.Value()...)})
	}
	return Dump{"main": kvs}
}
