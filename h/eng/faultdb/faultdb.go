// Package faultdb is engine E5: dbm.DB wrappers over an in-memory DB that let
// the harness count physical writes and "kill the process" after the k-th
// one. A batch write counts as one atomic physical write. After the crash
// point every further write is dropped and the wrapper panics with Crash, so
// the code under test unwinds as if the process had died; the underlying DB
// then holds exactly what reached the disk.
package faultdb

import (
	dbm "github.com/gnolang/gno/tm2/pkg/db"
)

// Crash is the sentinel panic value.
type Crash struct{ At int }

// Counter is shared by all wrapped DBs of one process image.
type Counter struct {
	N       int // physical writes so far
	CrashAt int // 0 = never; crash when write number CrashAt+1 is attempted
	Dead    bool
	Log     []string // sink name per write
}

func (c *Counter) before(sink string) {
	if c.Dead {
		panic(Crash{c.N})
	}
	if c.CrashAt > 0 && c.N >= c.CrashAt {
		c.Dead = true
		panic(Crash{c.N})
	}
	c.N++
	c.Log = append(c.Log, sink)
}

// DB wraps an underlying DB.
type DB struct {
	dbm.DB
	C    *Counter
	Sink string
}

// Wrap returns db with write counting.
func Wrap(db dbm.DB, c *Counter, sink string) *DB { return &DB{DB: db, C: c, Sink: sink} }

func (d *DB) Set(k, v []byte) error        { d.C.before(d.Sink); return d.DB.Set(k, v) }
func (d *DB) SetSync(k, v []byte) error    { d.C.before(d.Sink); return d.DB.SetSync(k, v) }
func (d *DB) Delete(k []byte) error        { d.C.before(d.Sink); return d.DB.Delete(k) }
func (d *DB) DeleteSync(k []byte) error    { d.C.before(d.Sink); return d.DB.DeleteSync(k) }
func (d *DB) NewBatch() dbm.Batch          { return &batch{Batch: d.DB.NewBatch(), d: d} }
func (d *DB) NewBatchWithSize(n int) dbm.Batch {
	return &batch{Batch: d.DB.NewBatchWithSize(n), d: d}
}

type batch struct {
	dbm.Batch
	d *DB
}

func (b *batch) Write() error     { b.d.C.before(b.d.Sink + "/batch"); return b.Batch.Write() }
func (b *batch) WriteSync() error { b.d.C.before(b.d.Sink + "/batch"); return b.Batch.WriteSync() }
