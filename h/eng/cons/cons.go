//go:build verif

// Package cons is engine E4: N real ConsensusStates driven single-threaded
// through the `verif` step driver (tm2/pkg/bft/consensus/verif_driver.go).
// The harness owns the network (a pool of in-flight messages) and every
// timeout firing. Byzantine validators are not ConsensusStates: the harness
// holds their keys and injects arbitrary signed votes and proposals.
package cons

import (
	"bytes"
	"fmt"
	"sort"
	"strings"
	"sync"
	"time"

	abcicli "github.com/gnolang/gno/tm2/pkg/bft/abci/client"
	"github.com/gnolang/gno/tm2/pkg/bft/abci/example/kvstore"
	abci "github.com/gnolang/gno/tm2/pkg/bft/abci/types"
	"github.com/gnolang/gno/tm2/pkg/bft/consensus"
	cnscfg "github.com/gnolang/gno/tm2/pkg/bft/consensus/config"
	cstypes "github.com/gnolang/gno/tm2/pkg/bft/consensus/types"
	mempl "github.com/gnolang/gno/tm2/pkg/bft/mempool"
	"github.com/gnolang/gno/tm2/pkg/bft/mempool/mock"
	sm "github.com/gnolang/gno/tm2/pkg/bft/state"
	"github.com/gnolang/gno/tm2/pkg/bft/store"
	"github.com/gnolang/gno/tm2/pkg/bft/types"
	"github.com/gnolang/gno/tm2/pkg/crypto"
	"github.com/gnolang/gno/tm2/pkg/crypto/ed25519"
	dbm "github.com/gnolang/gno/tm2/pkg/db"
	"github.com/gnolang/gno/tm2/pkg/db/memdb"
	"github.com/gnolang/gno/tm2/pkg/events"
	"github.com/gnolang/gno/tm2/pkg/log"
	p2pTypes "github.com/gnolang/gno/tm2/pkg/p2p/types"
)

const ChainID = "verif-cons"

// SignRecord is one signature released by an honest validator.
type SignRecord struct {
	Kind    string // "vote" | "proposal"
	Height  int64
	Round   int
	Type    types.SignedMsgType
	BlockID string // hex-ish identity of what was signed (block id)
}

// LogPV is a PrivValidator that signs everything it is asked to (like
// MockPV) and records what it signed: the consensus logic itself has to
// avoid conflicting signatures.
type LogPV struct {
	Priv crypto.PrivKey
	Log  []SignRecord
}

func (pv *LogPV) PubKey() crypto.PubKey { return pv.Priv.PubKey() }
func (pv *LogPV) Close() error          { return nil }
func (pv *LogPV) SignVote(chainID string, vote *types.Vote) error {
	sig, err := pv.Priv.Sign(vote.SignBytes(chainID))
	if err != nil {
		return err
	}
	vote.Signature = sig
	pv.Log = append(pv.Log, SignRecord{"vote", vote.Height, vote.Round, vote.Type, vote.BlockID.String()})
	return nil
}

func (pv *LogPV) SignProposal(chainID string, p *types.Proposal) error {
	sig, err := pv.Priv.Sign(p.SignBytes(chainID))
	if err != nil {
		return err
	}
	p.Signature = sig
	pv.Log = append(pv.Log, SignRecord{"proposal", p.Height, p.Round, types.ProposalType, p.BlockID.String()})
	return nil
}

// txMempool is the empty mock mempool, except that it offers one
// deterministic "key=value" transaction per height, so that blocks carry data
// and the application hash changes from block to block.
type txMempool struct {
	mock.Mempool
	height *int64
}

func newTxMempool() txMempool { h := int64(0); return txMempool{height: &h} }

func (m txMempool) ReapMaxBytesMaxGas(_, _ int64) types.Txs {
	return types.Txs{types.Tx(fmt.Sprintf("h%d=v", *m.height+1))}
}

func (m txMempool) Update(h int64, _ types.Txs, _ []abci.ResponseDeliverTx, _ mempl.PreCheckFunc, _ int64) error {
	*m.height = h
	return nil
}

// Node is one honest validator.
type Node struct {
	Idx     int
	CS      *consensus.ConsensusState
	BS      *store.BlockStore
	PV      *LogPV
	Ticker  *consensus.VerifTicker
	StateDB dbm.DB
	BlockDB dbm.DB
	App     abci.Application
	seen    map[string]bool // message ids already delivered (harness bookkeeping for re-gossip)
	XLog    *[]SignRecord   // sign log of the crash-capable node (its PV is file based)
}

// Msg is a message in flight to one destination.
type Msg struct {
	From, To int
	M        consensus.ConsensusMessage
	ID       string
	Height   int64
}

// Net is the simulated network.
type Net struct {
	N       int
	Keys    []crypto.PrivKey // sorted by address (validator index order)
	Powers  []int64
	Byz     []bool
	Nodes   []*Node // nil for byzantine validators
	Pool    []Msg
	Archive []Msg // every honest broadcast ever made, To = -1
	GenDoc  *types.GenesisDoc
	Vals    *types.ValidatorSet
	seq     int
	// crash-capable node (C33)
	X     int
	XDur  *Durable
	XDead bool
	// statistics
	MaxRoundSeen   int
	LockedAtRound1 bool
}

// NewNet builds a network of n validators with the given powers; byz marks
// the byzantine ones (by position after sorting by address).
func NewNet(powers []int64, byz []bool) (*Net, error) {
	n := len(powers)
	keys := make([]crypto.PrivKey, n)
	for i := range keys {
		keys[i] = ed25519.GenPrivKeyFromSecret([]byte(fmt.Sprintf("verif-cons-val-%d", i)))
	}
	sort.Slice(keys, func(i, j int) bool {
		return bytes.Compare(keys[i].PubKey().Address().Bytes(), keys[j].PubKey().Address().Bytes()) < 0
	})
	gvals := make([]types.GenesisValidator, n)
	for i := range keys {
		gvals[i] = types.GenesisValidator{Address: keys[i].PubKey().Address(), PubKey: keys[i].PubKey(), Power: powers[i], Name: fmt.Sprintf("v%d", i)}
	}
	gen := &types.GenesisDoc{
		GenesisTime: time.Date(2026, 1, 1, 0, 0, 0, 0, time.UTC),
		ChainID:     ChainID,
		Validators:  gvals,
	}
	if err := gen.ValidateAndComplete(); err != nil {
		return nil, err
	}
	net := &Net{N: n, Keys: keys, Powers: powers, Byz: byz, GenDoc: gen, Nodes: make([]*Node, n)}
	for i := 0; i < n; i++ {
		if byz[i] {
			continue
		}
		nd, err := net.newNode(i, memdb.NewMemDB(), memdb.NewMemDB(), kvstore.NewKVStoreApplication(), &LogPV{Priv: keys[i]}, nil)
		if err != nil {
			return nil, err
		}
		net.Nodes[i] = nd
	}
	st, _ := sm.MakeGenesisState(gen)
	net.Vals = st.Validators
	return net, nil
}

// NodeOpts lets C33 supply WAL-enabled configuration.
type NodeOpts struct {
	Config *cnscfg.ConsensusConfig
	State  *sm.State // state loaded by a handshake; nil => genesis / stored state
}

func (net *Net) newNode(i int, blockDB, stateDB dbm.DB, app abci.Application, pv *LogPV, o *NodeOpts) (*Node, error) {
	state, err := sm.LoadStateFromDBOrGenesisDoc(stateDB, net.GenDoc)
	if err != nil {
		return nil, err
	}
	if o != nil && o.State != nil {
		state = *o.State
	}
	cfg := cnscfg.TestConsensusConfig()
	cfg.WALDisabled = true
	if o != nil && o.Config != nil {
		cfg = o.Config
	}
	mtx := new(sync.Mutex)
	proxy := abcicli.NewLocalClient(mtx, app)
	bs := store.NewBlockStore(blockDB)
	// what the ABCI handshake does on a fresh node (see Handshaker.Handshake)
	if info := app.Info(abci.RequestInfo{}); state.AppVersion != info.AppVersion {
		state.AppVersion = info.AppVersion
	}
	if state.LastBlockHeight == 0 {
		sm.SaveState(stateDB, state)
	}
	mp := newTxMempool()
	*mp.height = state.LastBlockHeight
	blockExec := sm.NewBlockExecutor(stateDB, log.NewNoopLogger(), proxy, mp)
	cs := consensus.NewConsensusState(cfg, state, blockExec, bs, mp, consensus.NoOpEvidencePool{})
	cs.SetLogger(log.NewNoopLogger())
	cs.SetPrivValidator(pv)
	tk := consensus.NewVerifTicker()
	cs.SetTimeoutTicker(tk)
	evsw := events.NewEventSwitch()
	evsw.Start()
	cs.SetEventSwitch(evsw)
	if err := cs.VerifStart(); err != nil {
		return nil, err
	}
	nd := &Node{Idx: i, CS: cs, BS: bs, PV: pv, Ticker: tk, StateDB: stateDB, BlockDB: blockDB, App: app, seen: map[string]bool{}}
	return nd, nil
}

// msgID gives a content identity to a consensus message.
func msgID(m consensus.ConsensusMessage) (string, int64) {
	switch x := m.(type) {
	case *consensus.VoteMessage:
		v := x.Vote
		return fmt.Sprintf("V/%d/%d/%d/%d/%s", v.Height, v.Round, v.Type, v.ValidatorIndex, v.BlockID.String()), v.Height
	case *consensus.ProposalMessage:
		p := x.Proposal
		return fmt.Sprintf("P/%d/%d/%d/%s/%x", p.Height, p.Round, p.POLRound, p.BlockID.String(), p.Signature), p.Height
	case *consensus.BlockPartMessage:
		return fmt.Sprintf("B/%d/%d/%d/%x", x.Height, x.Round, x.Part.Index, x.Part.Proof.LeafHash), x.Height
	}
	return fmt.Sprintf("%T", m), 0
}

// Honest returns the indexes of honest nodes.
func (net *Net) Honest() []int {
	var out []int
	for i, nd := range net.Nodes {
		if nd != nil {
			out = append(out, i)
		}
	}
	return out
}

// broadcast puts m in flight to every other honest node and archives it.
func (net *Net) broadcast(from int, m consensus.ConsensusMessage) {
	id, h := msgID(m)
	net.Archive = append(net.Archive, Msg{From: from, To: -1, M: m, ID: id, Height: h})
	for _, j := range net.Honest() {
		if j == from {
			continue
		}
		net.Pool = append(net.Pool, Msg{From: from, To: j, M: m, ID: id, Height: h})
	}
}

// SendTo puts m in flight to the given destinations only (byzantine use).
func (net *Net) SendTo(from int, m consensus.ConsensusMessage, dests []int) {
	id, h := msgID(m)
	// honest nodes gossip whatever they have seen, byzantine messages included
	net.Archive = append(net.Archive, Msg{From: from, To: -1, M: m, ID: id, Height: h})
	for _, j := range dests {
		if net.Nodes[j] != nil {
			net.Pool = append(net.Pool, Msg{From: from, To: j, M: m, ID: id, Height: h})
		}
	}
}

// drain processes node i's own messages and broadcasts them.
func (net *Net) drain(i int) {
	nd := net.Nodes[i]
	if nd == nil {
		return
	}
	for {
		var out []consensus.ConsensusMessage
		net.guard(i, func() { out = nd.CS.VerifDrainInternal() })
		if len(out) == 0 || (net.XDead && i == net.X) {
			break
		}
		for _, m := range out {
			net.broadcast(i, m)
		}
	}
	if net.XDead && i == net.X {
		return
	}
	net.observe(nd)
}

func (net *Net) observe(nd *Node) {
	rs := nd.CS.GetRoundState()
	if rs.Round > net.MaxRoundSeen {
		net.MaxRoundSeen = rs.Round
	}
	if rs.Round >= 1 && rs.LockedBlock != nil {
		net.LockedAtRound1 = true
	}
}

// Start drains the initial internal queues (none expected) — round 0 starts
// when the NewHeight timeout is fired.
func (net *Net) Start() {
	for _, i := range net.Honest() {
		net.drain(i)
	}
}

// Deliver delivers pool entry k (removing it).
func (net *Net) Deliver(k int) {
	m := net.Pool[k]
	net.Pool = append(net.Pool[:k], net.Pool[k+1:]...)
	net.deliverMsg(m)
}

func (net *Net) deliverMsg(m Msg) {
	nd := net.Nodes[m.To]
	if nd == nil {
		return
	}
	nd.seen[m.ID] = true
	net.guard(m.To, func() { nd.CS.VerifDeliverPeer(m.M, fmt.Sprintf("peer%d", m.From)) })
	if net.XDead && m.To == net.X {
		return
	}
	net.drain(m.To)
}

// Drop removes pool entry k without delivering it.
func (net *Net) Drop(k int) { net.Pool = append(net.Pool[:k], net.Pool[k+1:]...) }

// Dup duplicates pool entry k.
func (net *Net) Dup(k int) { net.Pool = append(net.Pool, net.Pool[k]) }

// Fire fires node i's armed timeout.
func (net *Net) Fire(i int) bool {
	nd := net.Nodes[i]
	if nd == nil {
		return false
	}
	ok := false
	net.guard(i, func() { ok = nd.CS.VerifFireTimeout() })
	if net.XDead && i == net.X {
		return true
	}
	net.drain(i)
	return ok
}

// FlushWithin delivers (repeatedly, FIFO) every in-flight message whose
// destination is in group and — when srcToo — whose source is in group or
// byzantine; other messages stay in flight. Returns the number delivered.
func (net *Net) FlushWithin(group map[int]bool, srcToo bool, limit int) int {
	n := 0
	for progress := true; progress && n < limit; {
		progress = false
		for k := 0; k < len(net.Pool) && n < limit; k++ {
			m := net.Pool[k]
			if !group[m.To] {
				continue
			}
			if srcToo && !(group[m.From] || net.Byz[m.From]) {
				continue
			}
			net.Deliver(k)
			n++
			progress = true
			break
		}
	}
	return n
}

// MsgKind classifies a message: 1 proposal or block part, 2 prevote, 4 precommit.
func MsgKind(m consensus.ConsensusMessage) int {
	switch x := m.(type) {
	case *consensus.VoteMessage:
		if x.Vote.Type == types.PrevoteType {
			return 2
		}
		return 4
	default:
		return 1
	}
}

// FlushKinds delivers (FIFO, repeatedly up to limit) the in-flight messages
// whose kind is in kinds, whose destination is in dst and whose source is in
// src (byzantine sources always qualify).
func (net *Net) FlushKinds(kinds int, dst, src map[int]bool, limit int) int {
	n := 0
	for progress := true; progress && n < limit; {
		progress = false
		for k := 0; k < len(net.Pool); k++ {
			m := net.Pool[k]
			if MsgKind(m.M)&kinds == 0 || !dst[m.To] || !(src[m.From] || net.Byz[m.From]) {
				continue
			}
			net.Deliver(k)
			n++
			progress = true
			break
		}
	}
	return n
}

// Heights returns the committed height (block store) of each honest node.
func (net *Net) Heights() map[int]int64 {
	out := map[int]int64{}
	for _, i := range net.Honest() {
		out[i] = net.Nodes[i].BS.Height()
	}
	return out
}

// CheckSafety verifies agreement on every committed height and that no
// honest validator signed two different things for one (H, R, type).
func (net *Net) CheckSafety() error {
	byHeight := map[int64]string{}
	who := map[int64]int{}
	for _, i := range net.Honest() {
		bs := net.Nodes[i].BS
		for h := int64(1); h <= bs.Height(); h++ {
			meta := bs.LoadBlockMeta(h)
			if meta == nil {
				return fmt.Errorf("node %d: no block meta at committed height %d", i, h)
			}
			id := meta.BlockID.String()
			if prev, ok := byHeight[h]; ok && prev != id {
				return fmt.Errorf("honest nodes %d and %d committed different blocks at height %d: %s vs %s", who[h], i, h, prev, id)
			}
			byHeight[h] = id
			who[h] = i
		}
	}
	for _, i := range net.Honest() {
		seen := map[string]string{}
		var recs []SignRecord
		if net.Nodes[i].PV != nil {
			recs = net.Nodes[i].PV.Log
		} else if net.Nodes[i].XLog != nil {
			recs = *net.Nodes[i].XLog
		}
		for _, r := range recs {
			k := fmt.Sprintf("%s/%d/%d/%d", r.Kind, r.Height, r.Round, r.Type)
			if prev, ok := seen[k]; ok && prev != r.BlockID {
				return fmt.Errorf("honest validator %d signed two different %s messages at H=%d R=%d type=%d: %s and %s", i, r.Kind, r.Height, r.Round, r.Type, prev, r.BlockID)
			}
			seen[k] = r.BlockID
		}
	}
	return nil
}

// regossip re-sends to every node all archived messages of its current height
// (the reactor's gossip: peers keep offering what a node is missing, including
// messages it ignored earlier because it was at another round or had no
// proposal yet). Duplicates are harmless.
func (net *Net) regossip() {
	for _, j := range net.Honest() {
		nd := net.Nodes[j]
		for pass := 0; pass < 2; pass++ {
			if net.xJustDied() {
				return
			}
			net.claimMaj23(j)
			h := nd.CS.GetRoundState().Height
			for _, m := range net.Archive {
				if m.Height != h {
					continue // (own messages included: peers hold them too, e.g. the parts of a block j itself proposed)
				}
				mm := m
				mm.To = j
				net.deliverMsg(mm)
				if net.xJustDied() {
					return
				}
				if nd.CS.GetRoundState().Height != h {
					break
				}
			}
		}
	}
}

// claimMaj23 plays the reactor's VoteSetMaj23 exchange (queryMaj23Routine +
// the VoteSetMaj23Message handler): every honest peer tells node j which block
// it has seen +2/3 prevotes / precommits for at j's height, and which block it
// committed there. Without such a claim a vote set refuses conflicting votes
// of an equivocating validator, and j could never assemble a commit that an
// honest peer built with the other half of an equivocation.
func (net *Net) claimMaj23(j int) {
	nd := net.Nodes[j]
	rs := nd.CS.GetRoundState()
	h := rs.Height
	if rs.Votes == nil {
		return
	}
	for _, p := range net.Honest() {
		if p == j {
			continue
		}
		peer := net.Nodes[p]
		pid := p2pTypes.ID(fmt.Sprintf("peer%d", p))
		prs := peer.CS.GetRoundState()
		if prs.Height == h && prs.Votes != nil {
			for r := 0; r <= prs.Round; r++ {
				if pv := prs.Votes.Prevotes(r); pv != nil {
					if bid, ok := pv.TwoThirdsMajority(); ok {
						rs.Votes.SetPeerMaj23(r, types.PrevoteType, pid, bid)
					}
				}
				if pc := prs.Votes.Precommits(r); pc != nil {
					if bid, ok := pc.TwoThirdsMajority(); ok {
						rs.Votes.SetPeerMaj23(r, types.PrecommitType, pid, bid)
					}
				}
			}
		}
		if peer.BS.Height() >= h {
			if c := peer.BS.LoadSeenCommit(h); c != nil {
				rs.Votes.SetPeerMaj23(c.Round(), types.PrecommitType, pid, c.BlockID)
			} else if c := peer.BS.LoadBlockCommit(h); c != nil {
				rs.Votes.SetPeerMaj23(c.Round(), types.PrecommitType, pid, c.BlockID)
			}
		}
	}
}

// xJustDied reports that the crash-capable node hit its crash point and has
// not been removed yet.
func (net *Net) xJustDied() bool { return net.XDur != nil && net.XDead && net.Nodes[net.X] != nil }

func (net *Net) fingerprint() string {
	s := ""
	for _, i := range net.Honest() {
		rs := net.Nodes[i].CS.GetRoundState()
		s += fmt.Sprintf("%d:%d/%d/%d", i, rs.Height, rs.Round, rs.Step)
		if rs.ProposalBlock != nil {
			s += fmt.Sprintf("p%X", rs.ProposalBlock.Hash()[:4])
		}
		if rs.LockedBlock != nil {
			s += fmt.Sprintf("l%X", rs.LockedBlock.Hash()[:4])
		}
		if rs.Votes != nil {
			if pv := rs.Votes.Prevotes(rs.Round); pv != nil {
				s += "v" + pv.BitArray().String()
			}
			if pc := rs.Votes.Precommits(rs.Round); pc != nil {
				s += "c" + pc.BitArray().String()
			}
		}
		s += fmt.Sprintf("b%d;", net.Nodes[i].BS.Height())
	}
	return s
}

// SyncSuffix runs a synchronous, fault-free suffix: everything in flight is
// delivered, missing messages are re-gossiped, and timeouts fire only when
// nothing else changes any node's state. It stops when every honest node has
// committed at least `more` heights beyond `from`, or after maxIter
// iterations, or when nothing can happen any more.
func (net *Net) SyncSuffix(from map[int]int64, more int64, maxIter int) (bool, int) {
	done := func() bool {
		for _, i := range net.Honest() {
			if net.Nodes[i].BS.Height() < from[i]+more {
				return false
			}
		}
		return true
	}
	for it := 0; it < maxIter; it++ {
		if done() {
			return true, it
		}
		before := net.fingerprint()
		moved := 0
		for len(net.Pool) > 0 {
			net.Deliver(0)
			moved++
			if net.xJustDied() {
				return false, it
			}
			if done() {
				return true, it
			}
			if moved > 100000 {
				return false, it
			}
		}
		net.regossip()
		if net.xJustDied() {
			return false, it
		}
		if done() {
			return true, it
		}
		if net.fingerprint() != before || len(net.Pool) > 0 {
			continue
		}
		fired := false
		for _, i := range net.Honest() {
			if net.Fire(i) {
				fired = true
			}
		}
		if net.xJustDied() {
			return false, it
		}
		if !fired && len(net.Pool) == 0 {
			return done(), it
		}
	}
	return done(), maxIter
}

// ---------------------------------------------------------------------------
// Byzantine message construction.

// ByzVote builds a signed vote of byzantine validator v.
func (net *Net) ByzVote(v int, height int64, round int, typ types.SignedMsgType, bid types.BlockID) *consensus.VoteMessage {
	return net.ByzVoteAt(v, height, round, typ, bid, false)
}

// ByzVoteAt is ByzVote with a choice of timestamp: current time (what an
// honest-looking validator would send) or a time far in the past.
func (net *Net) ByzVoteAt(v int, height int64, round int, typ types.SignedMsgType, bid types.BlockID, oldTime bool) *consensus.VoteMessage {
	addr := net.Keys[v].PubKey().Address()
	ts := time.Now().UTC()
	if oldTime {
		ts = time.Date(2026, 1, 1, 0, 0, int(height)*10+round, 0, time.UTC)
	}
	vote := &types.Vote{
		ValidatorAddress: addr, ValidatorIndex: v, Height: height, Round: round,
		Timestamp: ts, Type: typ, BlockID: bid,
	}
	sig, _ := net.Keys[v].Sign(vote.SignBytes(ChainID))
	vote.Signature = sig
	return &consensus.VoteMessage{Vote: vote}
}

// ByzProposal builds a block on top of node ref's state with the given txs and
// a signed proposal for it by byzantine validator v.
func (net *Net) ByzProposal(v int, ref int, round int, polRound int, txs []types.Tx) (*consensus.ProposalMessage, []*consensus.BlockPartMessage, types.BlockID, error) {
	nd := net.Nodes[ref]
	st := nd.CS.GetState()
	rs := nd.CS.GetRoundState()
	height := rs.Height
	var commit *types.Commit
	if height == st.InitialHeight || height == 1 {
		commit = types.NewCommit(types.BlockID{}, nil)
	} else if rs.LastCommit != nil && rs.LastCommit.HasTwoThirdsMajority() {
		commit = rs.LastCommit.MakeCommit()
	} else {
		return nil, nil, types.BlockID{}, fmt.Errorf("no last commit")
	}
	block, parts := st.MakeBlock(height, txs, commit, net.Keys[v].PubKey().Address())
	bid := types.BlockID{Hash: block.Hash(), PartsHeader: parts.Header()}
	prop := types.NewProposal(height, round, polRound, bid)
	prop.Timestamp = time.Date(2026, 1, 1, 0, 0, 0, 0, time.UTC)
	sig, _ := net.Keys[v].Sign(prop.SignBytes(ChainID))
	prop.Signature = sig
	var pms []*consensus.BlockPartMessage
	for i := 0; i < parts.Total(); i++ {
		pms = append(pms, &consensus.BlockPartMessage{Height: height, Round: round, Part: parts.GetPart(i)})
	}
	return &consensus.ProposalMessage{Proposal: prop}, pms, bid, nil
}

// ByzRepropose makes byzantine validator v re-propose, at the given round and
// with the given POL round, the block that node ref is locked on (or has as its
// valid / proposal block).
func (net *Net) ByzRepropose(v int, ref int, round int, polRound int) (*consensus.ProposalMessage, []*consensus.BlockPartMessage, types.BlockID, error) {
	rs := net.Nodes[ref].CS.GetRoundState()
	block, parts := rs.LockedBlock, rs.LockedBlockParts
	if block == nil {
		block, parts = rs.ValidBlock, rs.ValidBlockParts
	}
	if block == nil {
		block, parts = rs.ProposalBlock, rs.ProposalBlockParts
	}
	if block == nil || parts == nil {
		return nil, nil, types.BlockID{}, fmt.Errorf("node %d holds no block", ref)
	}
	bid := types.BlockID{Hash: block.Hash(), PartsHeader: parts.Header()}
	prop := types.NewProposal(rs.Height, round, polRound, bid)
	prop.Timestamp = time.Date(2026, 1, 1, 0, 0, 0, 0, time.UTC)
	sig, _ := net.Keys[v].Sign(prop.SignBytes(ChainID))
	prop.Signature = sig
	var pms []*consensus.BlockPartMessage
	for i := 0; i < parts.Total(); i++ {
		pms = append(pms, &consensus.BlockPartMessage{Height: rs.Height, Round: round, Part: parts.GetPart(i)})
	}
	return &consensus.ProposalMessage{Proposal: prop}, pms, bid, nil
}

// StaleBlockTime reports whether honest node i, building the next block from
// the commit it holds for the previous height, would produce a block that its
// own validation rejects because the weighted-median block time is not after
// the last block time.
func (net *Net) StaleBlockTime(i int) bool {
	nd := net.Nodes[i]
	rs := nd.CS.GetRoundState()
	st := nd.CS.GetState()
	if rs.LastCommit == nil || !rs.LastCommit.HasTwoThirdsMajority() || rs.Height <= 1 {
		return false
	}
	block, _ := st.MakeBlock(rs.Height, nil, rs.LastCommit.MakeCommit(), net.Keys[i].PubKey().Address())
	err := st.ValidateBlock(block)
	return err != nil && strings.Contains(err.Error(), "not greater than last block time")
}

// ProposerAt returns the validator index that proposes (height, round) from
// the point of view of node ref's current validator set (round relative to
// the node's current round state).
func (net *Net) ProposerAt(ref int, round int) int {
	rs := net.Nodes[ref].CS.GetRoundState()
	vals := rs.Validators.Copy()
	if round > rs.Round {
		vals.IncrementProposerPriority(round - rs.Round)
	} else if round < rs.Round {
		return -1
	}
	addr := vals.GetProposer().Address
	for i, k := range net.Keys {
		if k.PubKey().Address() == addr {
			return i
		}
	}
	return -1
}

var _ = cstypes.RoundStepNewHeight
