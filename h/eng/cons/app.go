//go:build verif

package cons

import (
	"encoding/binary"
	"encoding/json"
	"fmt"

	"github.com/gnolang/gno/tm2/pkg/bft/abci/example/kvstore"
	abci "github.com/gnolang/gno/tm2/pkg/bft/abci/types"
	abciver "github.com/gnolang/gno/tm2/pkg/bft/abci/version"
	dbm "github.com/gnolang/gno/tm2/pkg/db"
)

// DurableApp is a minimal ABCI application with the kvstore example's
// observable behaviour (one unit of size per delivered tx, app hash = varint
// of the size, same app version) whose committed state lives in a DB supplied
// by the harness: DeliverTx only changes memory, Commit persists with one
// physical write. A new DurableApp over the same DB is what a restarted
// application process would be.
type DurableApp struct {
	abci.BaseApplication
	db dbm.DB
	st durableState
}

type durableState struct {
	Size    int64  `json:"size"`
	Height  int64  `json:"height"`
	AppHash []byte `json:"app_hash"`
}

var durableKey = []byte("durable-app-state")

// NewDurableApp loads the committed state from db.
func NewDurableApp(db dbm.DB) *DurableApp {
	a := &DurableApp{db: db}
	if bz, err := db.Get(durableKey); err == nil && len(bz) > 0 {
		if err := json.Unmarshal(bz, &a.st); err != nil {
			panic(err)
		}
	}
	return a
}

func (a *DurableApp) Info(abci.RequestInfo) abci.ResponseInfo {
	return abci.ResponseInfo{
		ResponseBase:     abci.ResponseBase{Data: fmt.Appendf(nil, "{\"size\":%v}", a.st.Size)},
		ABCIVersion:      abciver.Version,
		AppVersion:       kvstore.AppVersion,
		LastBlockHeight:  a.st.Height,
		LastBlockAppHash: a.st.AppHash,
	}
}

func (a *DurableApp) DeliverTx(abci.RequestDeliverTx) (res abci.ResponseDeliverTx) {
	a.st.Size++
	res.Events = []abci.Event{abci.EventString(`{"creator":"Cosmoshi Netowoko"}`)}
	return res
}

func (a *DurableApp) CheckTx(abci.RequestCheckTx) abci.ResponseCheckTx {
	return abci.ResponseCheckTx{GasWanted: 1}
}

func (a *DurableApp) Commit() (res abci.ResponseCommit) {
	h := make([]byte, 8)
	binary.PutVarint(h, a.st.Size)
	a.st.AppHash = h
	a.st.Height++
	bz, _ := json.Marshal(a.st)
	if err := a.db.SetSync(durableKey, bz); err != nil {
		panic(err)
	}
	res.Data = h
	return res
}
