//go:build verif

package cons

import (
	"fmt"
	"os"
	"path/filepath"

	abci "github.com/gnolang/gno/tm2/pkg/bft/abci/types"
	"github.com/gnolang/gno/tm2/pkg/bft/appconn"
	"github.com/gnolang/gno/tm2/pkg/bft/consensus"
	cnscfg "github.com/gnolang/gno/tm2/pkg/bft/consensus/config"
	"github.com/gnolang/gno/tm2/pkg/bft/privval"
	"github.com/gnolang/gno/tm2/pkg/bft/proxy"
	sm "github.com/gnolang/gno/tm2/pkg/bft/state"
	"github.com/gnolang/gno/tm2/pkg/bft/store"
	"github.com/gnolang/gno/tm2/pkg/bft/types"
	"github.com/gnolang/gno/tm2/pkg/crypto"
	dbm "github.com/gnolang/gno/tm2/pkg/db"
	"github.com/gnolang/gno/tm2/pkg/db/memdb"
	"github.com/gnolang/gno/tm2/pkg/events"
	"github.com/gnolang/gno/tm2/pkg/log"
	"verif/eng/faultdb"
)

// SignLogPV wraps any PrivValidator and records released signatures.
type SignLogPV struct {
	Inner types.PrivValidator
	Log   *[]SignRecord
}

func (pv *SignLogPV) PubKey() crypto.PubKey { return pv.Inner.PubKey() }
func (pv *SignLogPV) Close() error          { return pv.Inner.Close() }
func (pv *SignLogPV) SignVote(chainID string, vote *types.Vote) error {
	if err := pv.Inner.SignVote(chainID, vote); err != nil {
		return err
	}
	*pv.Log = append(*pv.Log, SignRecord{"vote", vote.Height, vote.Round, vote.Type, vote.BlockID.String()})
	return nil
}

func (pv *SignLogPV) SignProposal(chainID string, p *types.Proposal) error {
	if err := pv.Inner.SignProposal(chainID, p); err != nil {
		return err
	}
	*pv.Log = append(*pv.Log, SignRecord{"proposal", p.Height, p.Round, types.ProposalType, p.BlockID.String()})
	return nil
}

// Durable is the persistent image of the crashing node X: everything that
// survives a process death.
type Durable struct {
	Dir      string // WAL + privval files
	BlockMem dbm.DB // underlying (unwrapped) stores
	StateMem dbm.DB
	AppMem   dbm.DB           // committed application state
	SignLog  []SignRecord     // signatures released by X before and after crashes
	Counter  *faultdb.Counter // write counter of the current process image
}

// NewDurable creates an empty persistent image under dir.
func NewDurable(dir string) *Durable {
	os.MkdirAll(dir, 0o755)
	return &Durable{Dir: dir, BlockMem: memdb.NewMemDB(), StateMem: memdb.NewMemDB(), AppMem: memdb.NewMemDB()}
}

// BootX (re)builds node x of the network from its durable image the way a
// node process starts: load state, ABCI handshake (block replay into the app),
// new ConsensusState with the WAL enabled (catch-up replay) and the file
// based privval. crashAt > 0 arms a crash after that many physical writes.
func (net *Net) BootX(x int, d *Durable, crashAt int) error {
	d.Counter = &faultdb.Counter{CrashAt: crashAt}
	blockDB := faultdb.Wrap(d.BlockMem, d.Counter, "blockstore")
	stateDB := faultdb.Wrap(d.StateMem, d.Counter, "state")
	// a restarted application process: memory is gone, committed state is reloaded
	app := NewDurableApp(faultdb.Wrap(d.AppMem, d.Counter, "app"))
	state, err := sm.LoadStateFromDBOrGenesisDoc(stateDB, net.GenDoc)
	if err != nil {
		return fmt.Errorf("load state: %w", err)
	}
	bs := store.NewBlockStore(blockDB)
	proxyApp := appconn.NewAppConns(proxy.NewLocalClientCreator(app))
	if err := proxyApp.Start(); err != nil {
		return fmt.Errorf("proxy start: %w", err)
	}
	hs := consensus.NewHandshaker(stateDB, state, bs, net.GenDoc)
	if err := hs.Handshake(proxyApp); err != nil {
		return fmt.Errorf("handshake: %w", err)
	}
	state = sm.LoadState(stateDB)
	// the handshake contract
	if bs.Height() != state.LastBlockHeight {
		return fmt.Errorf("after handshake: block store height %d != state height %d", bs.Height(), state.LastBlockHeight)
	}
	info, err := proxyApp.Query().InfoSync(abci.RequestInfo{})
	if err != nil {
		return err
	}
	if info.LastBlockHeight != state.LastBlockHeight {
		return fmt.Errorf("after handshake: app height %d != state height %d", info.LastBlockHeight, state.LastBlockHeight)
	}
	if string(info.LastBlockAppHash) != string(state.AppHash) {
		return fmt.Errorf("after handshake: app hash %X != state app hash %X", info.LastBlockAppHash, state.AppHash)
	}
	cfg := cnscfg.TestConsensusConfig()
	cfg.RootDir = d.Dir
	cfg.WALDisabled = false
	cfg.SetWalFile(filepath.Join(d.Dir, "wal", "wal"))
	os.MkdirAll(filepath.Join(d.Dir, "wal"), 0o755)
	pvInner, err := privval.NewPrivValidator(types.NewMockSignerWithPrivKey(net.Keys[x]), filepath.Join(d.Dir, "priv_state.json"))
	if err != nil {
		return fmt.Errorf("privval: %w", err)
	}
	pv := &SignLogPV{Inner: pvInner, Log: &d.SignLog}
	mp := newTxMempool()
	*mp.height = state.LastBlockHeight
	blockExec := sm.NewBlockExecutor(stateDB, log.NewNoopLogger(), proxyApp.Consensus(), mp)
	cs := consensus.NewConsensusState(cfg, state, blockExec, bs, mp, consensus.NoOpEvidencePool{})
	cs.SetLogger(log.NewNoopLogger())
	cs.SetPrivValidator(pv)
	tk := consensus.NewVerifTicker()
	cs.SetTimeoutTicker(tk)
	evsw := events.NewEventSwitch()
	evsw.Start()
	cs.SetEventSwitch(evsw)
	if err := cs.VerifStart(); err != nil {
		return fmt.Errorf("consensus start: %w", err)
	}
	net.Nodes[x] = &Node{Idx: x, CS: cs, BS: bs, Ticker: tk, StateDB: stateDB, BlockDB: blockDB, App: app, seen: map[string]bool{}, XLog: &d.SignLog}
	net.X = x
	net.XDur = d
	return nil
}

// guard runs f (a call into node i); when node i is the crashing node and f
// dies with the crash sentinel, the node is marked dead.
func (net *Net) guard(i int, f func()) {
	if net.XDur == nil || i != net.X {
		f()
		return
	}
	defer func() {
		if p := recover(); p != nil {
			if _, ok := p.(faultdb.Crash); ok {
				net.XDead = true
				return
			}
			panic(p)
		}
	}()
	f()
}

// KillX discards the dead process image of X (its WAL is closed, which also
// flushes it: a possible outcome of a real crash).
func (net *Net) KillX() {
	nd := net.Nodes[net.X]
	if nd != nil {
		func() {
			defer func() { recover() }()
			nd.CS.VerifStop()
		}()
	}
	net.Nodes[net.X] = nil
	// messages in flight to X are lost with its connections
	var keep []Msg
	for _, m := range net.Pool {
		if m.To != net.X {
			keep = append(keep, m)
		}
	}
	net.Pool = keep
}
