package walstate

// Shared chain builder for C32 and C41: executes a plain-data chain
// specification through the exported consensus-state API only
// (MakeGenesisState, State.MakeBlock, VoteSet.MakeCommit with ed25519-signed
// precommits, BlockExecutor.ApplyBlock over a local ABCI application,
// BlockStore.SaveBlock) and keeps, next to it, a harness-side model of what is
// in effect at every height.

import (
	"fmt"
	"sort"
	"time"

	abci "github.com/gnolang/gno/tm2/pkg/bft/abci/types"
	"github.com/gnolang/gno/tm2/pkg/bft/appconn"
	"github.com/gnolang/gno/tm2/pkg/bft/mempool/mock"
	"github.com/gnolang/gno/tm2/pkg/bft/proxy"
	sm "github.com/gnolang/gno/tm2/pkg/bft/state"
	"github.com/gnolang/gno/tm2/pkg/bft/store"
	"github.com/gnolang/gno/tm2/pkg/bft/types"
	"github.com/gnolang/gno/tm2/pkg/crypto"
	"github.com/gnolang/gno/tm2/pkg/crypto/ed25519"
	dbm "github.com/gnolang/gno/tm2/pkg/db"
	"github.com/gnolang/gno/tm2/pkg/db/memdb"
	"github.com/gnolang/gno/tm2/pkg/log"
	"pgregory.net/rapid"
)

const chNumKeys = 12

var chKeyTable = func() (out [chNumKeys]ed25519.PrivKeyEd25519) {
	for i := range out {
		out[i] = ed25519.GenPrivKeyFromSecret([]byte(fmt.Sprintf("verif-walstate-validator-%d", i)))
	}
	return
}()

func chPub(k int) crypto.PubKey { return chKeyTable[k].PubKey() }

// chKeyOf returns the key-table index of a validator address, or -1.
func chKeyOf(addr crypto.Address) int {
	for i := range chKeyTable {
		if chKeyTable[i].PubKey().Address() == addr {
			return i
		}
	}
	return -1
}

type ChVal struct {
	Key   int   `json:"key"`
	Power int64 `json:"power"`
}

type ChParams struct {
	MaxTxBytes    int64 `json:"max_tx_bytes"`
	MaxDataBytes  int64 `json:"max_data_bytes"`
	MaxBlockBytes int64 `json:"max_block_bytes"`
	MaxGas        int64 `json:"max_gas"`
	TimeIotaMS    int64 `json:"time_iota_ms"`
	WithValidator bool  `json:"with_validator"` // also send the (unchanged) validator params
}

type ChTx struct {
	Size int  `json:"size"`
	Seed int  `json:"seed"`
	Fail bool `json:"fail,omitempty"` // DeliverTx returns an error
	Data int  `json:"data,omitempty"` // bytes of result data
}

type ChBlock struct {
	Txs      []ChTx    `json:"txs,omitempty"`
	Round    int       `json:"round,omitempty"`
	Votes    []int     `json:"votes"`    // per validator position: 0 for the block, 1 absent, 2 nil, 3 for another block
	DeltasMs []int     `json:"deltas"`   // per validator position: precommit timestamp = block time + delta ms
	Proposer int       `json:"proposer"` // position (mod size) of the proposer address
	Updates  []ChVal   `json:"updates,omitempty"`
	Params   *ChParams `json:"params,omitempty"`
	App      int       `json:"app"` // app hash seed (0 = empty app hash)
}

type ChSpec struct {
	ChainID       string    `json:"chain_id"`
	AppVersion    string    `json:"app_version"`
	InitialHeight int64     `json:"initial_height"`
	GenesisSec    int64     `json:"genesis_sec"`
	Vals          []ChVal   `json:"vals"`
	Params        *ChParams `json:"params,omitempty"`
	Blocks        []ChBlock `json:"blocks"`
}

// chModelParams is the harness model of the consensus parameters.
type chModelParams struct {
	MaxTxBytes, MaxDataBytes, MaxBlockBytes, MaxGas, TimeIotaMS int64
	URLs                                                      []string
}

type chStep struct {
	Height  int64
	Pre     sm.State // state the block was made from and validated against
	Post    sm.State
	Block   *types.Block
	Parts   *types.PartSet
	BlockID types.BlockID
	Commit  *types.Commit // +2/3 precommits for Block (the next block's LastCommit)
	Resp    abci.ResponseEndBlock
	Results []abci.ResponseDeliverTx
}

type chChain struct {
	Spec    ChSpec
	Genesis sm.State
	Steps   []chStep
	StateDB dbm.DB
	BlockDB dbm.DB
	Store   *store.BlockStore
	// harness model: what is in effect at height h
	ValsAt   map[int64]map[int]int64 // key index -> power
	ParamsAt map[int64]chModelParams
	// store heights observed after every SaveBlock
	StoreHeights   []int64
	UpdatesDropped int
	// heights at which the state store persists the full validator set
	// (documented in saveValidatorsInfo: the height a change takes effect, and
	// every checkpoint height); all other heights are reconstructed on load
	FullSetAt map[int64]bool
}

func chTxBytes(t ChTx) types.Tx {
	b := make([]byte, t.Size)
	x := uint32(t.Seed)*2246822519 + 7
	for i := range b {
		x = x*1664525 + 1013904223
		b[i] = byte(x >> 24)
	}
	return types.Tx(b)
}

// chApp is the local ABCI application: it answers from the current block spec.
type chApp struct {
	abci.BaseApplication
	cur     *ChBlock
	txIdx   int
	updates []abci.ValidatorUpdate
	params  *abci.ConsensusParams
}

func (a *chApp) BeginBlock(abci.RequestBeginBlock) abci.ResponseBeginBlock {
	a.txIdx = 0
	return abci.ResponseBeginBlock{}
}

func (a *chApp) DeliverTx(req abci.RequestDeliverTx) (res abci.ResponseDeliverTx) {
	t := a.cur.Txs[a.txIdx]
	a.txIdx++
	if t.Fail {
		res.Error = abci.StringError(fmt.Sprintf("tx %d failed", t.Seed))
	}
	if t.Data > 0 {
		res.Data = []byte(chTxBytes(ChTx{Size: t.Data, Seed: t.Seed + 1}))
	}
	res.GasUsed = int64(t.Size)
	return res
}

func (a *chApp) EndBlock(abci.RequestEndBlock) abci.ResponseEndBlock {
	return abci.ResponseEndBlock{ValidatorUpdates: a.updates, ConsensusParams: a.params}
}

func (a *chApp) Commit() (res abci.ResponseCommit) {
	if a.cur.App != 0 {
		res.Data = []byte(chTxBytes(ChTx{Size: 1 + a.cur.App%40, Seed: a.cur.App}))
	}
	return res
}

func chABCIParams(p *ChParams) *abci.ConsensusParams {
	if p == nil {
		return nil
	}
	out := &abci.ConsensusParams{Block: &abci.BlockParams{MaxTxBytes: p.MaxTxBytes, MaxDataBytes: p.MaxDataBytes, MaxBlockBytes: p.MaxBlockBytes, MaxGas: p.MaxGas, TimeIotaMS: p.TimeIotaMS}}
	if p.WithValidator {
		out.Validator = types.DefaultValidatorParams()
	}
	return out
}

func chApplyParams(m chModelParams, p *ChParams) chModelParams {
	if p == nil {
		return m
	}
	m.MaxTxBytes, m.MaxDataBytes, m.MaxBlockBytes, m.MaxGas, m.TimeIotaMS = p.MaxTxBytes, p.MaxDataBytes, p.MaxBlockBytes, p.MaxGas, p.TimeIotaMS
	return m
}

func chCopyVals(m map[int]int64) map[int]int64 {
	o := make(map[int]int64, len(m))
	for k, v := range m {
		o[k] = v
	}
	return o
}

// chFilterUpdates keeps the updates the validator-set API accepts (documented
// in UpdateWithChangeSet: no duplicate, removals only of members, never an
// empty result) and applies them to the model.
func chFilterUpdates(cur map[int]int64, ups []ChVal) (kept []ChVal, next map[int]int64, dropped int) {
	next = chCopyVals(cur)
	seen := map[int]bool{}
	removed := 0
	for _, u := range ups {
		_, member := cur[u.Key]
		switch {
		case seen[u.Key], u.Power < 0:
			dropped++
			continue
		case u.Power == 0 && (!member || len(cur)-removed-1 < 1):
			dropped++
			continue
		}
		seen[u.Key] = true
		kept = append(kept, u)
		if u.Power == 0 {
			delete(next, u.Key)
			removed++
		} else {
			next[u.Key] = u.Power
		}
	}
	return kept, next, dropped
}

// chSigner signs v with key k (ed25519 over the canonical sign bytes).
func chSign(chainID string, k int, v *types.Vote) {
	sig, err := chKeyTable[k].Sign(v.SignBytes(chainID))
	if err != nil {
		panic(err)
	}
	v.Signature = sig
}

// chGenesis builds the genesis state of a specification together with the
// harness model of its validators and parameters.
func chGenesis(spec ChSpec) (sm.State, map[int]int64, chModelParams, error) {
	gvals := make([]types.GenesisValidator, len(spec.Vals))
	model := map[int]int64{}
	for i, v := range spec.Vals {
		pk := chPub(v.Key)
		gvals[i] = types.GenesisValidator{Address: pk.Address(), PubKey: pk, Power: v.Power, Name: fmt.Sprintf("v%d", v.Key)}
		model[v.Key] = v.Power
	}
	gen := &types.GenesisDoc{
		GenesisTime:   time.Unix(spec.GenesisSec, 0).UTC(),
		ChainID:       spec.ChainID,
		InitialHeight: spec.InitialHeight,
		Validators:    gvals,
	}
	mp := chModelParams{MaxTxBytes: types.MaxBlockTxBytes, MaxDataBytes: types.MaxBlockDataBytes, MaxBlockBytes: 0, MaxGas: types.MaxBlockMaxGas, TimeIotaMS: types.BlockTimeIotaMS,
		URLs: types.DefaultValidatorParams().PubKeyTypeURLs}
	if spec.Params != nil {
		gen.ConsensusParams = *chABCIParams(spec.Params)
		mp = chApplyParams(mp, spec.Params)
	}
	state, err := sm.MakeGenesisState(gen)
	if err != nil {
		return sm.State{}, nil, chModelParams{}, fmt.Errorf("generator produced an invalid genesis: %v", err)
	}
	state.AppVersion = spec.AppVersion // as the handshaker does after ABCI Info
	return state, model, mp, nil
}

// chBuild executes the specification. onBlock (optional) sees every block
// right before it is applied, together with the state it must validate against.
func chBuild(spec ChSpec, onBlock func(st sm.State, b *types.Block) error) (*chChain, error) {
	state, model, mp, err := chGenesis(spec)
	if err != nil {
		return nil, err
	}
	ch := &chChain{Spec: spec, Genesis: state.Copy(), StateDB: memdb.NewMemDB(), BlockDB: memdb.NewMemDB(),
		ValsAt: map[int64]map[int]int64{}, ParamsAt: map[int64]chModelParams{}, FullSetAt: map[int64]bool{}}
	sm.SaveState(ch.StateDB, state)
	ch.Store = store.NewBlockStore(ch.BlockDB)

	app := &chApp{}
	conns := appconn.NewAppConns(proxy.NewLocalClientCreator(app))
	if err := conns.Start(); err != nil {
		return nil, err
	}
	defer conns.Stop()
	exec := sm.NewBlockExecutor(ch.StateDB, log.NewNoopLogger(), conns.Consensus(), mock.Mempool{})

	ih := state.InitialHeight
	ch.ValsAt[ih], ch.ValsAt[ih+1] = chCopyVals(model), chCopyVals(model)
	ch.ParamsAt[ih] = mp
	ch.FullSetAt[ih] = true
	lastCommit := types.NewCommit(types.BlockID{}, nil)
	for bi := range spec.Blocks {
		b := &spec.Blocks[bi]
		h := state.LastBlockHeight + 1
		txs := make([]types.Tx, len(b.Txs))
		for i, t := range b.Txs {
			txs[i] = chTxBytes(t)
		}
		n := state.Validators.Size()
		proposer, _ := state.Validators.GetByIndex(b.Proposer % n)
		block, parts := state.MakeBlock(h, txs, lastCommit, proposer)
		blockID := types.BlockID{Hash: block.Hash(), PartsHeader: parts.Header()}
		pre := state.Copy()
		if onBlock != nil {
			if err := onBlock(pre, block); err != nil {
				return ch, err
			}
		}
		// what the application will answer for this block
		kept, nextVals, dropped := chFilterUpdates(ch.ValsAt[h+1], b.Updates)
		ch.UpdatesDropped += dropped
		app.cur, app.updates, app.params = b, nil, chABCIParams(b.Params)
		for _, u := range kept {
			pk := chPub(u.Key)
			app.updates = append(app.updates, abci.ValidatorUpdate{Address: pk.Address(), PubKey: pk, Power: u.Power})
		}
		post, err := exec.ApplyBlock(state, blockID, block)
		if err != nil {
			return ch, fmt.Errorf("ApplyBlock(height %d) of an honestly built block failed: %v", h, err)
		}
		ch.ValsAt[h+2] = nextVals
		if len(kept) > 0 {
			ch.FullSetAt[h+2] = true
		}
		ch.ParamsAt[h+1] = chApplyParams(ch.ParamsAt[h], b.Params)

		// precommits of the validators in effect at h
		vs := types.NewVoteSet(spec.ChainID, h, b.Round, types.PrecommitType, state.Validators)
		other := types.BlockID{Hash: crypto.Sha256([]byte(fmt.Sprintf("other-%d", h))), PartsHeader: types.PartSetHeader{Total: 1, Hash: crypto.Sha256([]byte("p"))}}
		kind := make([]int, n)
		var forBlock, total int64
		for i := 0; i < n; i++ {
			_, val := state.Validators.GetByIndex(i)
			total += val.VotingPower
			if i < len(b.Votes) {
				kind[i] = b.Votes[i]
			}
			if kind[i] == 0 {
				forBlock += val.VotingPower
			}
		}
		for i := 0; i < n && 3*forBlock <= 2*total; i++ { // honest blocks need +2/3
			if kind[i] != 0 {
				_, val := state.Validators.GetByIndex(i)
				kind[i] = 0
				forBlock += val.VotingPower
			}
		}
		for i := 0; i < n; i++ {
			if kind[i] == 1 {
				continue
			}
			addr, _ := state.Validators.GetByIndex(i)
			d := 1
			if i < len(b.DeltasMs) && b.DeltasMs[i] > 0 {
				d = b.DeltasMs[i]
			}
			v := &types.Vote{Type: types.PrecommitType, Height: h, Round: b.Round, Timestamp: block.Time.Add(time.Duration(d) * time.Millisecond),
				ValidatorAddress: addr, ValidatorIndex: i}
			switch kind[i] {
			case 0:
				v.BlockID = blockID
			case 3:
				v.BlockID = other
			}
			chSign(spec.ChainID, chKeyOf(addr), v)
			if added, err := vs.AddVote(v); !added || err != nil {
				return ch, fmt.Errorf("VoteSet.AddVote of an honest precommit (height %d validator %d): added=%v err=%v", h, i, added, err)
			}
		}
		commit := vs.MakeCommit()
		ch.Store.SaveBlock(block, parts, commit)
		ch.StoreHeights = append(ch.StoreHeights, ch.Store.Height())
		ch.Steps = append(ch.Steps, chStep{Height: h, Pre: pre, Post: post.Copy(), Block: block, Parts: parts, BlockID: blockID, Commit: commit,
			Resp: abci.ResponseEndBlock{ValidatorUpdates: app.updates, ConsensusParams: app.params}})
		state, lastCommit = post, commit
	}
	return ch, nil
}

// ---- generator

type chGenOpts struct {
	MinBlocks, MaxBlocks int
	Checkpoint           bool // draw initial heights next to the validator checkpoint interval
	BigTxs               bool // allow transactions that make multi-part blocks
}

func chDrawParams(rt *rapid.T, label string) *ChParams {
	return &ChParams{
		MaxTxBytes:    int64(rapid.SampledFrom([]int{1, 1000, 1000000, 104857600}).Draw(rt, label+"mtx")),
		MaxDataBytes:  int64(rapid.IntRange(0, 3000000).Draw(rt, label+"mdata")),
		MaxBlockBytes: int64(rapid.IntRange(0, 3000000).Draw(rt, label+"mblock")),
		MaxGas:        int64(rapid.SampledFrom([]int{-1, 0, 1, 3000000000}).Draw(rt, label+"mgas")),
		TimeIotaMS:    int64(rapid.IntRange(1, 1000).Draw(rt, label+"iota")),
		WithValidator: rapid.Bool().Draw(rt, label+"wv"),
	}
}

func chDrawPower(rt *rapid.T, label string, equal int64) int64 {
	switch rapid.IntRange(0, 5).Draw(rt, label+"pk") {
	case 0, 1:
		return equal
	case 2:
		return int64(rapid.IntRange(1, 10).Draw(rt, label+"ps"))
	case 3:
		return int64(rapid.SampledFrom([]int{1, 1000, 1 << 30, 1 << 40}).Draw(rt, label+"pb"))
	default:
		return int64(rapid.IntRange(1, 1000).Draw(rt, label+"pm"))
	}
}

func chDraw(rt *rapid.T, o chGenOpts) ChSpec {
	s := ChSpec{
		ChainID:    rapid.SampledFrom([]string{"verif-chain", "c", "test-chain-0123456789-0123456789-0123456789-012345"}).Draw(rt, "chain"),
		AppVersion: rapid.SampledFrom([]string{"", "v1"}).Draw(rt, "appv"),
		GenesisSec: int64(rapid.IntRange(1500000000, 1900000000).Draw(rt, "gsec")),
	}
	if o.Checkpoint {
		switch rapid.IntRange(0, 5).Draw(rt, "ihk") {
		case 0:
			s.InitialHeight = 0 // defaults to 1
		case 1:
			s.InitialHeight = int64(rapid.IntRange(1, 60).Draw(rt, "ihs"))
		case 2:
			s.InitialHeight = 200000 - int64(rapid.IntRange(0, 12).Draw(rt, "ih2"))
		default:
			s.InitialHeight = 100000 - int64(rapid.IntRange(-2, 30).Draw(rt, "ih1"))
		}
	} else {
		s.InitialHeight = int64(rapid.SampledFrom([]int{0, 1, 1, 2, 7, 99999}).Draw(rt, "ih"))
	}
	equal := int64(rapid.SampledFrom([]int{1, 10, 1000}).Draw(rt, "equal"))
	nv := rapid.IntRange(1, 7).Draw(rt, "nvals")
	perm := rapid.Permutation([]int{0, 1, 2, 3, 4, 5, 6, 7, 8, 9, 10, 11}).Draw(rt, "keys")
	for i := 0; i < nv; i++ {
		s.Vals = append(s.Vals, ChVal{Key: perm[i], Power: chDrawPower(rt, "g", equal)})
	}
	if rapid.IntRange(0, 3).Draw(rt, "gparams") == 0 {
		s.Params = chDrawParams(rt, "g")
	}
	nb := rapid.IntRange(o.MinBlocks, o.MaxBlocks).Draw(rt, "nblocks")
	for i := 0; i < nb; i++ {
		var b ChBlock
		ntx := rapid.SampledFrom([]int{0, 0, 1, 2, 3, 5}).Draw(rt, "ntx")
		for j := 0; j < ntx; j++ {
			t := ChTx{Size: rapid.IntRange(0, 40).Draw(rt, "txsize"), Seed: rapid.IntRange(0, 50).Draw(rt, "txseed"),
				Fail: rapid.IntRange(0, 4).Draw(rt, "txfail") == 0, Data: rapid.SampledFrom([]int{0, 0, 1, 8}).Draw(rt, "txdata")}
			b.Txs = append(b.Txs, t)
		}
		b.Round = rapid.SampledFrom([]int{0, 0, 0, 1, 2, 7}).Draw(rt, "round")
		for j := 0; j < chNumKeys; j++ {
			b.Votes = append(b.Votes, rapid.SampledFrom([]int{0, 0, 0, 0, 0, 1, 2, 3}).Draw(rt, "vote"))
			b.DeltasMs = append(b.DeltasMs, rapid.SampledFrom([]int{1, 1, 2, 100, 1000, 5000, 999, 1001}).Draw(rt, "delta"))
		}
		b.Proposer = rapid.IntRange(0, chNumKeys-1).Draw(rt, "proposer")
		if rapid.IntRange(0, 3).Draw(rt, "hasupd") == 0 {
			nu := rapid.IntRange(1, 3).Draw(rt, "nupd")
			for j := 0; j < nu; j++ {
				u := ChVal{Key: rapid.IntRange(0, chNumKeys-1).Draw(rt, "ukey")}
				if rapid.IntRange(0, 2).Draw(rt, "urm") != 0 {
					u.Power = chDrawPower(rt, "u", equal)
				}
				b.Updates = append(b.Updates, u)
			}
		}
		if rapid.IntRange(0, 5).Draw(rt, "hasparams") == 0 {
			b.Params = chDrawParams(rt, "b")
		}
		b.App = rapid.SampledFrom([]int{0, 1, 2, 3, 77}).Draw(rt, "app")
		s.Blocks = append(s.Blocks, b)
	}
	if o.BigTxs && rapid.IntRange(0, 2).Draw(rt, "hasbig") == 0 { // one multi-part block
		i := rapid.IntRange(0, nb-1).Draw(rt, "bigat")
		s.Blocks[i].Txs = append(s.Blocks[i].Txs, ChTx{Size: rapid.SampledFrom([]int{65000, 66000, 140000}).Draw(rt, "bigsize"), Seed: 1})
	}
	return s
}

// chSortedKeys returns the key indices of a model validator set ordered by address.
func chSortedKeys(m map[int]int64) []int {
	ks := make([]int, 0, len(m))
	for k := range m {
		ks = append(ks, k)
	}
	sort.Slice(ks, func(i, j int) bool {
		a, b := chPub(ks[i]).Address(), chPub(ks[j]).Address()
		return a.Compare(b) < 0
	})
	return ks
}

// chSync replays the chain's blocks into a fresh node the way block sync does:
// the +2/3 commit for a block (carried by the next block's LastCommit, or the
// seen commit for the tip) is verified against the validators in effect, then
// the block is applied. It returns the final state of the syncing node.
func chSync(ch *chChain) (sm.State, error) {
	state, _, _, err := chGenesis(ch.Spec)
	if err != nil {
		return state, err
	}
	db := memdb.NewMemDB()
	sm.SaveState(db, state)
	app := &chApp{}
	conns := appconn.NewAppConns(proxy.NewLocalClientCreator(app))
	if err := conns.Start(); err != nil {
		return state, err
	}
	defer conns.Stop()
	exec := sm.NewBlockExecutor(db, log.NewNoopLogger(), conns.Consensus(), mock.Mempool{})
	for i, st := range ch.Steps {
		commit := st.Commit
		if i+1 < len(ch.Steps) {
			commit = ch.Steps[i+1].Block.LastCommit
		}
		if err := state.Validators.VerifyCommit(ch.Spec.ChainID, st.BlockID, st.Height, commit); err != nil {
			return state, fmt.Errorf("block sync: VerifyCommit of the honest commit for block %d: %v", st.Height, err)
		}
		app.cur, app.updates, app.params = &ch.Spec.Blocks[i], st.Resp.ValidatorUpdates, st.Resp.ConsensusParams
		state, err = exec.ApplyBlock(state, st.BlockID, st.Block)
		if err != nil {
			return state, fmt.Errorf("block sync: ApplyBlock(%d): %v", st.Height, err)
		}
	}
	return state, nil
}
