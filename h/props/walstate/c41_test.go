package walstate

import (
	"bytes"
	"fmt"
	"testing"

	"github.com/gnolang/gno/tm2/pkg/amino"
	sm "github.com/gnolang/gno/tm2/pkg/bft/state"
	"github.com/gnolang/gno/tm2/pkg/bft/store"
	"github.com/gnolang/gno/tm2/pkg/bft/types"
	"pgregory.net/rapid"
	"verif/vk"
)

// C41 — block store and state store return exactly what was saved.

type c41Case struct {
	Spec ChSpec `json:"spec"`
}

const c41Interval = 100000 // validator checkpoint interval (state/store.go)

// c41SameValSet compares a loaded set with the one in effect. prioOnly reports
// that members, keys and powers agree and only proposer priorities (or the
// proposer derived from them) differ.
func c41SameValSet(got *types.ValidatorSet, want *types.ValidatorSet, what string) (err error, prioOnly bool) {
	if got == nil || want == nil {
		return fmt.Errorf("%s: nil validator set (got %v want %v)", what, got, want), false
	}
	if got.Size() != want.Size() {
		return fmt.Errorf("%s: %d validators, in effect were %d", what, got.Size(), want.Size()), false
	}
	for i := 0; i < want.Size(); i++ {
		_, g := got.GetByIndex(i)
		_, w := want.GetByIndex(i)
		if g.Address != w.Address || !g.PubKey.Equals(w.PubKey) || g.VotingPower != w.VotingPower {
			return fmt.Errorf("%s: validator %d is %v, in effect was %v", what, i, g, w), false
		}
	}
	if got.TotalVotingPower() != want.TotalVotingPower() {
		return fmt.Errorf("%s: total power %d vs %d", what, got.TotalVotingPower(), want.TotalVotingPower()), false
	}
	for i := 0; i < want.Size(); i++ {
		_, g := got.GetByIndex(i)
		_, w := want.GetByIndex(i)
		if g.ProposerPriority != w.ProposerPriority {
			return fmt.Errorf("%s: validator %d (%v, power %d) has proposer priority %d, in effect was %d", what, i, g.Address, g.VotingPower, g.ProposerPriority, w.ProposerPriority), true
		}
	}
	if gp, wp := got.GetProposer(), want.GetProposer(); gp.Address != wp.Address {
		return fmt.Errorf("%s: proposer %v, in effect was %v", what, gp.Address, wp.Address), true
	}
	return nil, false
}

// c41Model compares a validator set with the harness model (membership and power).
func c41Model(got *types.ValidatorSet, model map[int]int64, what string) error {
	if model == nil {
		return fmt.Errorf("%s: harness model has no entry", what)
	}
	keys := chSortedKeys(model)
	if got.Size() != len(keys) {
		return fmt.Errorf("%s: %d validators, model has %d (%v)", what, got.Size(), len(keys), model)
	}
	for i, k := range keys {
		addr, v := got.GetByIndex(i)
		if addr != chPub(k).Address() || v.VotingPower != model[k] || !v.PubKey.Equals(chPub(k)) {
			return fmt.Errorf("%s: validator %d is %v/%d, model has key %d (%v) power %d", what, i, addr, v.VotingPower, k, chPub(k).Address(), model[k])
		}
	}
	return nil
}

func c41Exec(ctx *vk.Ctx, c c41Case) error {
	ch, err := chBuild(c.Spec, nil)
	if err != nil {
		return err
	}
	if len(ch.Steps) == 0 {
		return nil
	}
	ih := ch.Genesis.InitialHeight
	last := ch.Steps[len(ch.Steps)-1].Height
	if ch.Steps[0].Height != ih {
		return fmt.Errorf("first block has height %d, initial height %d", ch.Steps[0].Height, ih)
	}

	// ---- block store
	prev := int64(0)
	for i, h := range ch.StoreHeights {
		if h != ch.Steps[i].Height || h <= prev {
			return fmt.Errorf("store height after saving block %d is %d (previous %d)", ch.Steps[i].Height, h, prev)
		}
		prev = h
	}
	multi := false
	for _, bs := range []*store.BlockStore{ch.Store, store.NewBlockStore(ch.BlockDB)} { // live and reopened
		if bs.Height() != last {
			return fmt.Errorf("store height %d, last saved block %d", bs.Height(), last)
		}
		for i, st := range ch.Steps {
			h := st.Height
			want := amino.MustMarshal(st.Block)
			b := bs.LoadBlock(h)
			if b == nil {
				return fmt.Errorf("LoadBlock(%d) = nil", h)
			}
			if got := amino.MustMarshal(b); !bytes.Equal(got, want) {
				return fmt.Errorf("LoadBlock(%d) differs from the saved block", h)
			}
			if !bytes.Equal(b.Hash(), st.BlockID.Hash) {
				return fmt.Errorf("LoadBlock(%d) hashes to %X, saved %X", h, b.Hash(), st.BlockID.Hash)
			}
			meta := bs.LoadBlockMeta(h)
			if meta == nil || !meta.BlockID.Equals(st.BlockID) {
				return fmt.Errorf("LoadBlockMeta(%d) block id %v, saved %v", h, meta, st.BlockID)
			}
			if !bytes.Equal(amino.MustMarshal(meta.Header), amino.MustMarshal(st.Block.Header)) {
				return fmt.Errorf("LoadBlockMeta(%d) header differs", h)
			}
			multi = multi || st.Parts.Total() > 1
			var joined []byte
			for p := 0; p < st.Parts.Total(); p++ {
				part := bs.LoadBlockPart(h, p)
				if part == nil {
					return fmt.Errorf("LoadBlockPart(%d,%d) = nil", h, p)
				}
				w := st.Parts.GetPart(p)
				if part.Index != w.Index || !bytes.Equal(part.Bytes, w.Bytes) || !bytes.Equal(amino.MustMarshal(part.Proof), amino.MustMarshal(w.Proof)) {
					return fmt.Errorf("LoadBlockPart(%d,%d) differs from the saved part", h, p)
				}
				joined = append(joined, part.Bytes...)
			}
			if bs.LoadBlockPart(h, st.Parts.Total()) != nil {
				return fmt.Errorf("LoadBlockPart(%d,%d) beyond the part set is not nil", h, st.Parts.Total())
			}
			if !bytes.Equal(joined, amino.MustMarshalSized(st.Block)) {
				return fmt.Errorf("parts of block %d do not join to the block", h)
			}
			seen := bs.LoadSeenCommit(h)
			if seen == nil || !bytes.Equal(amino.MustMarshal(seen), amino.MustMarshal(st.Commit)) {
				return fmt.Errorf("LoadSeenCommit(%d) differs from the saved seen commit", h)
			}
			if i > 0 {
				bc := bs.LoadBlockCommit(h - 1)
				if bc == nil || !bytes.Equal(amino.MustMarshal(bc), amino.MustMarshal(st.Block.LastCommit)) {
					return fmt.Errorf("LoadBlockCommit(%d) differs from block %d's LastCommit", h-1, h)
				}
				if !bytes.Equal(amino.MustMarshal(bc), amino.MustMarshal(ch.Steps[i-1].Commit)) {
					return fmt.Errorf("LoadBlockCommit(%d) differs from the commit made for block %d", h-1, h-1)
				}
			}
		}
		for _, h := range []int64{0, ih - 1, last + 1, last + 2, -1} {
			if h >= ih && h <= last {
				continue
			}
			if b := bs.LoadBlock(h); b != nil {
				return fmt.Errorf("LoadBlock(%d) returned a block that was never saved (range %d..%d)", h, ih, last)
			}
			if m := bs.LoadBlockMeta(h); m != nil {
				return fmt.Errorf("LoadBlockMeta(%d) returned a meta that was never saved", h)
			}
			if h != last && bs.LoadSeenCommit(h) != nil { // (seen commit of `last` exists)
				return fmt.Errorf("LoadSeenCommit(%d) returned a commit that was never saved", h)
			}
		}
		if c := bs.LoadBlockCommit(last); c != nil {
			return fmt.Errorf("LoadBlockCommit(%d) exists although block %d was never saved", last, last+1)
		}
	}

	// ---- state store
	final := ch.Steps[len(ch.Steps)-1].Post
	if ls := sm.LoadState(ch.StateDB); !ls.Equals(final) {
		return fmt.Errorf("LoadState differs from the last saved state")
	}
	inEffect := func(h int64) *types.ValidatorSet { // per the in-memory state sequence
		switch {
		case h >= ih && h <= last:
			return ch.Steps[h-ih].Pre.Validators
		case h == last+1:
			return final.Validators
		case h == last+2:
			return final.NextValidators
		}
		return nil
	}
	changes, viaCheckpoint := 0, 0
	for h := ih; h <= last+2; h++ {
		want := inEffect(h)
		if err := c41Model(want, ch.ValsAt[h], fmt.Sprintf("in-memory validators at %d", h)); err != nil {
			return err
		}
		got, err := sm.LoadValidators(ch.StateDB, h)
		if err != nil {
			return fmt.Errorf("LoadValidators(%d): %v (heights %d..%d applied)", h, err, ih, last)
		}
		if err := c41Model(got, ch.ValsAt[h], fmt.Sprintf("LoadValidators(%d)", h)); err != nil {
			return err
		}
		if err, prioOnly := c41SameValSet(got, want, fmt.Sprintf("LoadValidators(%d) [initial height %d, last %d]", h, ih, last)); err != nil {
			// divergence under triage: at heights where the store keeps only a
			// reference, the set is rebuilt from the last stored one by a single
			// rescale followed by k priority increments, while the state rescales
			// before each of the k increments
			reconstructed := !ch.FullSetAt[h] && h%c41Interval != 0
			if prioOnly && reconstructed {
				// exactly that divergence? rebuild from the set in effect at the
				// last height the store keeps in full
				hs := h
				for hs > ih && !ch.FullSetAt[hs] && hs%c41Interval != 0 {
					hs--
				}
				rebuilt := inEffect(hs).Copy()
				rebuilt.IncrementProposerPriority(int(h - hs))
				if e2, _ := c41SameValSet(got, rebuilt, ""); e2 == nil {
					ctx.Class("reconstructed-priorities-differ")
					if ctx.Known("loadvalidators-reconstructed-priorities-differ") {
						continue
					}
				}
			}
			return err
		}
		if h > ih && !c41EqualModel(ch.ValsAt[h], ch.ValsAt[h-1]) {
			changes++
		}
		if cp := h - h%c41Interval; cp >= ih && cp > 0 && h > cp {
			viaCheckpoint++
		}
	}
	for _, h := range []int64{0, ih - 1, last + 3, last + 50} {
		if h >= ih && h <= last+2 {
			continue
		}
		if vs, err := sm.LoadValidators(ch.StateDB, h); err == nil {
			return fmt.Errorf("LoadValidators(%d) returned %v although nothing is in effect there (range %d..%d)", h, vs, ih, last+2)
		}
	}
	pchanges := 0
	for h := ih; h <= last+1; h++ {
		got, err := sm.LoadConsensusParams(ch.StateDB, h)
		if err != nil {
			return fmt.Errorf("LoadConsensusParams(%d): %v", h, err)
		}
		m, ok := ch.ParamsAt[h]
		if !ok {
			return fmt.Errorf("harness model has no params for %d", h)
		}
		if got.Block == nil || got.Validator == nil {
			return fmt.Errorf("LoadConsensusParams(%d) = %+v", h, got)
		}
		g := chModelParams{got.Block.MaxTxBytes, got.Block.MaxDataBytes, got.Block.MaxBlockBytes, got.Block.MaxGas, got.Block.TimeIotaMS, got.Validator.PubKeyTypeURLs}
		if fmt.Sprint(g) != fmt.Sprint(m) {
			return fmt.Errorf("LoadConsensusParams(%d) = %+v, in effect %+v", h, g, m)
		}
		var st sm.State
		if h <= last {
			st = ch.Steps[h-ih].Pre
		} else {
			st = final
		}
		if !bytes.Equal(got.Hash(), st.ConsensusParams.Hash()) {
			return fmt.Errorf("LoadConsensusParams(%d) hash differs from the state's params at that height", h)
		}
		if h > ih && fmt.Sprint(m) != fmt.Sprint(ch.ParamsAt[h-1]) {
			pchanges++
		}
	}
	for _, h := range []int64{0, ih - 1, last + 2, last + 50} {
		if h >= ih && h <= last+1 {
			continue
		}
		if p, err := sm.LoadConsensusParams(ch.StateDB, h); err == nil {
			return fmt.Errorf("LoadConsensusParams(%d) returned %+v although nothing was saved there", h, p)
		}
	}
	// ABCI responses saved per height
	for _, st := range ch.Steps {
		r, err := sm.LoadABCIResponses(ch.StateDB, st.Height)
		if err != nil {
			return fmt.Errorf("LoadABCIResponses(%d): %v", st.Height, err)
		}
		if !bytes.Equal(amino.MustMarshal(r.EndBlock), amino.MustMarshal(st.Resp)) || len(r.DeliverTxs) != len(st.Block.Txs) {
			return fmt.Errorf("LoadABCIResponses(%d) differs from what the application answered", st.Height)
		}
		if !bytes.Equal(r.ResultsHash(), st.Post.LastResultsHash) {
			return fmt.Errorf("LoadABCIResponses(%d) results hash differs from the state's", st.Height)
		}
	}
	straddle := false
	for cp := int64(c41Interval); cp <= last+2; cp += c41Interval {
		straddle = straddle || (cp > ih && cp <= last+2)
	}
	ctx.ClassIf(straddle, "straddles-checkpoint")
	ctx.ClassIf(viaCheckpoint > 0, "lookup-above-checkpoint")
	ctx.ClassIf(changes > 0, "validator-change-in-effect")
	ctx.ClassIf(changes > 1, "validator-changes>=2")
	ctx.ClassIf(pchanges > 0, "params-change-in-effect")
	ctx.ClassIf(multi, "multi-part-block")
	ctx.ClassIf(ih > 1, "initial-height>1")
	ctx.ClassIf(straddle && changes > 0, "straddle+validator-change")
	ctx.Note("blocks", len(ch.Steps))
	ctx.Note("initial_height", ih)
	ctx.NTIf(changes > 0 || pchanges > 0 || straddle)
	return nil
}

func c41EqualModel(a, b map[int]int64) bool {
	if len(a) != len(b) {
		return false
	}
	for k, v := range a {
		if w, ok := b[k]; !ok || w != v {
			return false
		}
	}
	return true
}

func TestC41_Stores(t *testing.T) {
	vk.Run(t, vk.Spec[c41Case]{
		ID: "C41", Name: "TestC41_Stores",
		Rule: "rapid: a chain of 3-40 blocks (1-7 ed25519 validators with equal/small/huge powers, real +2/3 commits with absent/nil/stray precommits, validator updates and consensus-parameter updates returned by EndBlock at drawn heights, occasional multi-part blocks) applied through BlockExecutor.ApplyBlock and saved through BlockStore.SaveBlock, initial height drawn next to the 100000 validator checkpoint; every load API of both stores is compared with what was saved / with the sets and params in effect (in-memory state sequence and a harness membership/power/params model) at every height incl. last+1, last+2 and out-of-range heights; non-trivial = a validator-set or params change takes effect inside the chain, or the chain straddles a checkpoint height",
		Draw: func(rt *rapid.T) c41Case {
			return c41Case{Spec: chDraw(rt, chGenOpts{MinBlocks: 3, MaxBlocks: 40, Checkpoint: true, BigTxs: true})}
		},
		Exec: c41Exec,
	})
}
