package walstate

import (
	"bytes"
	stded "crypto/ed25519"
	"fmt"
	"math"
	"sort"
	"strings"
	"testing"
	"time"

	"github.com/gnolang/gno/tm2/pkg/amino"
	sm "github.com/gnolang/gno/tm2/pkg/bft/state"
	"github.com/gnolang/gno/tm2/pkg/bft/types"
	"github.com/gnolang/gno/tm2/pkg/crypto"
	"github.com/gnolang/gno/tm2/pkg/crypto/ed25519"
	"pgregory.net/rapid"
	"verif/vk"
)

// C32 — applied blocks are valid and block validation is robust.
//
// The oracle is c32Ref, a reference validator written from the property's list
// of conditions; State.ValidateBlock must agree with it in both directions on
// honest blocks, on single-field mutations of honest blocks (optionally
// repaired so that only one condition decides) and on blocks decoded from
// edited amino bytes, and must never panic.

type c32Mut struct {
	Kind   string `json:"kind"`
	Idx    int    `json:"idx"`
	Var    int    `json:"var"`
	Fix    bool   `json:"fix"`    // recompute the header fields derived from the block's own content (LastCommitHash, DataHash, NumTxs, TotalTxs)
	Retime bool   `json:"retime"` // set Header.Time to the weighted median of the (mutated) last commit
	Resign bool   `json:"resign"` // re-sign the mutated precommit with the key of the validator at its position
}

type c32Edit struct {
	Op  int `json:"op"` // 0 flip bit, 1 set byte, 2 delete byte, 3 insert byte, 4 truncate
	Pos int `json:"pos"`
	Val int `json:"val"`
}

type c32Case struct {
	Spec  ChSpec      `json:"spec"`
	Block int         `json:"block"` // which block of the chain is mutated: 0 the genesis block, k>0 block 1+(k-1) mod (len-1)
	Muts  []c32Mut    `json:"muts"`  // each applied on its own to a fresh copy
	Edits [][]c32Edit `json:"edits"` // each list applied to the encoded block, then decoded
}

// ---- reference validator

// c32SignBytes are the canonical sign bytes of a precommit; ok=false when the
// vote cannot be canonicalised (PartSetHeader.Total outside uint32).
func c32SignBytes(chainID string, p *types.CommitSig) ([]byte, bool) {
	if p.BlockID.PartsHeader.Total < 0 || int64(p.BlockID.PartsHeader.Total) > math.MaxUint32 {
		return nil, false
	}
	cv := types.CanonicalVote{
		Type:   p.Type,
		Height: p.Height,
		Round:  int64(p.Round),
		BlockID: types.CanonicalBlockID{Hash: p.BlockID.Hash,
			PartsHeader: types.CanonicalPartSetHeader{Total: uint32(p.BlockID.PartsHeader.Total), Hash: p.BlockID.PartsHeader.Hash}},
		Timestamp: p.Timestamp,
		ChainID:   chainID,
	}
	bz, err := amino.MarshalSized(cv)
	if err != nil {
		return nil, false
	}
	return bz, true
}

func c32SameBlockID(a, b types.BlockID) bool {
	return bytes.Equal(a.Hash, b.Hash) && a.PartsHeader.Total == b.PartsHeader.Total && bytes.Equal(a.PartsHeader.Hash, b.PartsHeader.Hash)
}

func c32ZeroBlockID(a types.BlockID) bool {
	return len(a.Hash) == 0 && a.PartsHeader.Total == 0 && len(a.PartsHeader.Hash) == 0
}

// c32Median is the weighted median of the precommit timestamps: the earliest
// timestamp at which the cumulative voting power reaches half (rounded down)
// of the power of all precommitting validators.
func c32Median(pcs []*types.CommitSig, vals *types.ValidatorSet) (time.Time, bool) {
	type wt struct {
		t time.Time
		w int64
	}
	var l []wt
	var total int64
	for i, p := range pcs {
		if p == nil {
			continue
		}
		if i >= vals.Size() {
			return time.Time{}, false
		}
		_, v := vals.GetByIndex(i)
		l = append(l, wt{p.Timestamp, v.VotingPower})
		total += v.VotingPower
	}
	if len(l) == 0 {
		return time.Time{}, false
	}
	sort.SliceStable(l, func(i, j int) bool { return l[i].t.UnixNano() < l[j].t.UnixNano() })
	half, cum := total/2, int64(0)
	for _, x := range l {
		cum += x.w
		if cum >= half {
			return x.t, true
		}
	}
	return l[len(l)-1].t, true
}

// c32Ref returns the violated conditions (empty = valid) and whether some
// precommit's ValidatorIndex/ValidatorAddress does not match its position (a
// field the property's conditions do not speak about: verdicts are then not
// compared when everything else is valid).
func c32Ref(st sm.State, b *types.Block) (viol []string, identity bool) {
	add := func(s string) { viol = append(viol, s) }
	if b == nil {
		return []string{"nil-block"}, false
	}
	if b.Version != st.BlockVersion {
		add("version")
	}
	if b.AppVersion != st.AppVersion {
		add("app-version")
	}
	if b.ChainID != st.ChainID {
		add("chain-id")
	}
	if b.Height != st.LastBlockHeight+1 || b.Height <= 0 {
		add("height")
	}
	if !c32SameBlockID(b.LastBlockID, st.LastBlockID) {
		add("last-block-id")
	}
	n := int64(len(b.Data.Txs))
	if b.NumTxs != n {
		add("num-txs")
	}
	if b.TotalTxs != st.LastBlockTotalTx+n {
		add("total-txs")
	}
	if !bytes.Equal(b.DataHash, types.Txs(b.Data.Txs).Hash()) {
		add("data-hash")
	}
	if !bytes.Equal(b.AppHash, st.AppHash) {
		add("app-hash")
	}
	if !bytes.Equal(b.ConsensusHash, st.ConsensusParams.Hash()) {
		add("consensus-hash")
	}
	if !bytes.Equal(b.LastResultsHash, st.LastResultsHash) {
		add("results-hash")
	}
	if !bytes.Equal(b.ValidatorsHash, st.Validators.Hash()) {
		add("validators-hash")
	}
	if !bytes.Equal(b.NextValidatorsHash, st.NextValidators.Hash()) {
		add("next-validators-hash")
	}
	if !st.Validators.HasAddress(b.ProposerAddress) {
		add("proposer")
	}
	genesis := st.LastBlockHeight+1 == st.InitialHeight
	if b.LastCommit == nil {
		add("nil-last-commit")
		return viol, false
	}
	pcs := b.LastCommit.Precommits
	if !bytes.Equal(b.LastCommitHash, types.NewCommit(b.LastCommit.BlockID, pcs).Hash()) {
		add("last-commit-hash")
	}
	if genesis {
		if len(pcs) != 0 || !c32ZeroBlockID(b.LastCommit.BlockID) {
			add("genesis-commit-not-empty")
		}
		if !b.Time.Equal(st.LastBlockTime) {
			add("genesis-time")
		}
		return viol, false
	}
	lv := st.LastValidators
	if !c32SameBlockID(b.LastCommit.BlockID, st.LastBlockID) || c32ZeroBlockID(b.LastCommit.BlockID) {
		add("commit-block-id")
	}
	if len(pcs) != lv.Size() {
		add("commit-size")
		return viol, false
	}
	var tallied, total int64
	first := true
	var round int
	for i, p := range pcs {
		_, v := lv.GetByIndex(i)
		total += v.VotingPower
		if p == nil {
			continue
		}
		if p.ValidatorIndex != i || p.ValidatorAddress != v.Address {
			identity = true
		}
		if p.Type != types.PrecommitType {
			add("precommit-type")
		}
		if p.Height != st.LastBlockHeight {
			add("precommit-height")
		}
		if first {
			round, first = p.Round, false
		} else if p.Round != round {
			add("precommit-round")
		}
		sb, ok := c32SignBytes(st.ChainID, p)
		pk, isEd := v.PubKey.(ed25519.PubKeyEd25519)
		if !ok || !isEd || len(p.Signature) != stded.SignatureSize || !stded.Verify(stded.PublicKey(pk[:]), sb, p.Signature) {
			add("precommit-signature")
			continue
		}
		if c32SameBlockID(p.BlockID, st.LastBlockID) {
			tallied += v.VotingPower
		}
	}
	if !(3*tallied > 2*total) { // powers are far below 2^61
		add("two-thirds")
	}
	if !b.Time.After(st.LastBlockTime) {
		add("time-not-monotonic")
	}
	if med, ok := c32Median(pcs, lv); !ok || !b.Time.Equal(med) {
		add("time-not-median")
	}
	return viol, identity
}

// ---- evaluation

func c32Decode(bz []byte) (*types.Block, error) {
	b := new(types.Block)
	if err := amino.Unmarshal(bz, b); err != nil {
		return nil, err
	}
	return b, nil
}

// c32Eval compares ValidateBlock with the reference on a decoded block.
func c32Eval(ctx *vk.Ctx, st sm.State, b *types.Block, what string) error {
	viol, identity := c32Ref(st, b)
	var err error
	var pv any
	func() {
		defer func() { pv = recover() }()
		err = st.ValidateBlock(b)
	}()
	if pv != nil {
		msg := fmt.Sprint(pv)
		badTotal, badIndex := false, false
		if b.LastCommit != nil {
			for _, p := range b.LastCommit.Precommits {
				if p == nil {
					continue
				}
				if p.BlockID.PartsHeader.Total < 0 || int64(p.BlockID.PartsHeader.Total) > math.MaxUint32 {
					badTotal = true
				}
				if p.ValidatorIndex < 0 || p.ValidatorIndex >= st.LastValidators.Size() {
					badIndex = true
				}
			}
		}
		switch {
		case badTotal && strings.Contains(msg, "out of canonical uint32 range"):
			ctx.Class("panic-precommit-parts-total-out-of-range")
			if ctx.Known("validateblock-panics-on-precommit-parts-total") {
				return nil
			}
		case badIndex && strings.Contains(msg, "nil pointer dereference"):
			ctx.Class("panic-precommit-validator-index-out-of-range")
			if ctx.Known("validateblock-panics-on-precommit-validator-index") {
				return nil
			}
		}
		return fmt.Errorf("%s: ValidateBlock panicked on a decodable block: %v (reference: %v)", what, pv, viol)
	}
	if len(viol) == 0 {
		ctx.Class("ref-valid")
		if identity {
			ctx.Class("valid-but-commit-sig-identity-fields-differ(verdict-not-compared)")
			return nil
		}
		if err != nil {
			return fmt.Errorf("%s: every listed condition holds but ValidateBlock rejects: %v", what, err)
		}
		return nil
	}
	ctx.Class("ref-invalid:" + viol[0])
	ctx.ClassIf(len(viol) == 1, "single-cause:"+viol[0])
	if err == nil {
		return fmt.Errorf("%s: ValidateBlock accepts a block that violates %v", what, viol)
	}
	return nil
}

// ---- mutations

func c32Flip(h []byte, v int) []byte {
	switch v % 4 {
	case 0:
		if len(h) == 0 {
			return []byte{1}
		}
		o := append([]byte{}, h...)
		o[(v/4)%len(o)] ^= 1 << uint(v%7)
		return o
	case 1:
		return nil
	case 2:
		if len(h) >= 20 {
			return append([]byte{}, h[:20]...)
		}
		return append(append([]byte{}, h...), 7)
	default:
		return crypto.Sha256([]byte(fmt.Sprint("other", v)))
	}
}

var c32Kinds = []string{
	"version", "chainid", "height", "time", "numtxs", "totaltxs", "appversion", "lastblockid",
	"lastcommithash", "datahash", "valhash", "nextvalhash", "conshash", "apphash", "resultshash", "proposer", "txs",
	"commit-nil", "commit-blockid", "pc-nil", "pc-nil-many", "pc-sig", "pc-height", "pc-round", "pc-round-all", "pc-type",
	"pc-blockid", "pc-total", "pc-time", "pc-times-all", "pc-index", "pc-addr", "pc-append", "pc-drop", "pc-swap", "pc-empty",
}

// c32Apply mutates b (a fresh decoded copy of an honest block) in place.
// It reports false when the mutation does not apply to this block.
func c32Apply(st sm.State, b *types.Block, m c32Mut) bool {
	lc := b.LastCommit
	pcs := lc.Precommits
	pick := func() (int, *types.CommitSig) { // a non-nil precommit
		if len(pcs) == 0 {
			return 0, nil
		}
		for k := 0; k < len(pcs); k++ {
			i := (m.Idx + k) % len(pcs)
			if pcs[i] != nil {
				return i, pcs[i]
			}
		}
		return 0, nil
	}
	resign := func(i int, p *types.CommitSig) {
		if !m.Resign || i >= st.LastValidators.Size() {
			return
		}
		addr, _ := st.LastValidators.GetByIndex(i)
		sb, ok := c32SignBytes(st.ChainID, p)
		if k := chKeyOf(addr); ok && k >= 0 {
			p.Signature, _ = chKeyTable[k].Sign(sb)
		}
	}
	v := m.Var
	switch m.Kind {
	case "version":
		b.Version = []string{"", "v9", b.Version + " "}[v%3]
	case "chainid":
		b.ChainID = []string{b.ChainID + "x", "", strings.Repeat("c", 51), strings.ToUpper(b.ChainID)}[v%4]
	case "height":
		b.Height = []int64{b.Height + 1, b.Height - 1, 0, -5, math.MaxInt64, st.InitialHeight - 1, st.InitialHeight}[v%7]
	case "time":
		b.Time = []time.Time{b.Time.Add(1), b.Time.Add(-1), st.LastBlockTime, st.LastBlockTime.Add(-time.Second), b.Time.Add(time.Hour), time.Unix(0, 0).UTC(), b.Time.Add(time.Millisecond)}[v%7]
	case "numtxs":
		b.NumTxs += []int64{1, -1}[v%2]
	case "totaltxs":
		b.TotalTxs = []int64{b.TotalTxs + 1, b.TotalTxs - 1, b.NumTxs - 1, -1000, 0}[v%5]
	case "appversion":
		b.AppVersion = []string{b.AppVersion + "x", "", "v2"}[v%3]
	case "lastblockid":
		switch v % 5 {
		case 0:
			b.LastBlockID.Hash = c32Flip(b.LastBlockID.Hash, v/5*4)
		case 1:
			b.LastBlockID.PartsHeader.Total++
		case 2:
			b.LastBlockID.PartsHeader.Hash = c32Flip(b.LastBlockID.PartsHeader.Hash, v/5*4)
		case 3:
			b.LastBlockID = types.BlockID{}
		case 4:
			b.LastBlockID.Hash = nil
		}
	case "lastcommithash":
		b.LastCommitHash = c32Flip(b.LastCommitHash, v)
	case "datahash":
		b.DataHash = c32Flip(b.DataHash, v)
	case "valhash":
		if v%5 == 4 {
			b.ValidatorsHash = b.NextValidatorsHash
		} else {
			b.ValidatorsHash = c32Flip(b.ValidatorsHash, v)
		}
	case "nextvalhash":
		if v%5 == 4 {
			b.NextValidatorsHash = b.ValidatorsHash
		} else {
			b.NextValidatorsHash = c32Flip(b.NextValidatorsHash, v)
		}
	case "conshash":
		b.ConsensusHash = c32Flip(b.ConsensusHash, v)
	case "apphash":
		b.AppHash = c32Flip(b.AppHash, v)
	case "resultshash":
		b.LastResultsHash = c32Flip(b.LastResultsHash, v)
	case "proposer":
		switch v % 3 {
		case 0:
			addr, _ := st.Validators.GetByIndex(m.Idx % st.Validators.Size())
			b.ProposerAddress = addr
		case 1:
			b.ProposerAddress = ed25519.GenPrivKeyFromSecret([]byte("nobody")).PubKey().Address()
		case 2:
			b.ProposerAddress = crypto.Address{}
		}
	case "txs":
		switch v % 3 {
		case 0:
			b.Data.Txs = append(b.Data.Txs, types.Tx("extra"))
		case 1:
			if len(b.Data.Txs) == 0 {
				return false
			}
			b.Data.Txs = b.Data.Txs[:len(b.Data.Txs)-1]
		case 2:
			if len(b.Data.Txs) == 0 {
				return false
			}
			b.Data.Txs[0] = append(append(types.Tx{}, b.Data.Txs[0]...), 1)
		}
	case "commit-nil":
		b.LastCommit = nil
		return true
	case "commit-blockid":
		switch v % 3 {
		case 0:
			lc.BlockID.Hash = c32Flip(lc.BlockID.Hash, v/3*4)
		case 1:
			lc.BlockID = types.BlockID{}
		case 2:
			lc.BlockID.PartsHeader.Total++
		}
	case "pc-nil":
		i, p := pick()
		if p == nil {
			return false
		}
		pcs[i] = nil
	case "pc-nil-many":
		if len(pcs) == 0 {
			return false
		}
		for k := 0; k <= v%len(pcs); k++ {
			pcs[(m.Idx+k)%len(pcs)] = nil
		}
	case "pc-empty":
		i, p := pick()
		if p == nil {
			return false
		}
		pcs[i] = &types.CommitSig{}
	case "pc-sig":
		_, p := pick()
		if p == nil {
			return false
		}
		switch v % 4 {
		case 0:
			p.Signature = c32Flip(p.Signature, v/4*4)
		case 1:
			p.Signature = nil
		case 2:
			p.Signature = p.Signature[:len(p.Signature)-1]
		case 3:
			p.Signature = append(p.Signature, 0)
		}
	case "pc-height":
		i, p := pick()
		if p == nil {
			return false
		}
		p.Height += []int64{1, -1, -p.Height}[v%3]
		resign(i, p)
	case "pc-round":
		i, p := pick()
		if p == nil {
			return false
		}
		p.Round += []int{1, -1, 100}[v%3]
		resign(i, p)
	case "pc-round-all":
		any := false
		for i, p := range pcs {
			if p != nil {
				p.Round += 1 + v%3
				resign(i, p)
				any = true
			}
		}
		if !any {
			return false
		}
	case "pc-type":
		i, p := pick()
		if p == nil {
			return false
		}
		p.Type = []types.SignedMsgType{types.PrevoteType, 0, 0x20, types.ProposalType}[v%4]
		resign(i, p)
	case "pc-blockid":
		i, p := pick()
		if p == nil {
			return false
		}
		switch v % 3 {
		case 0:
			p.BlockID = types.BlockID{}
		case 1:
			p.BlockID.Hash = c32Flip(p.BlockID.Hash, 0)
		case 2:
			p.BlockID.PartsHeader.Total++
		}
		resign(i, p)
	case "pc-total":
		_, p := pick()
		if p == nil {
			return false
		}
		p.BlockID.PartsHeader.Total = []int{-1, 1 << 32, 1 << 40, math.MaxInt64, math.MaxUint32}[v%5]
	case "pc-time":
		i, p := pick()
		if p == nil {
			return false
		}
		p.Timestamp = []time.Time{p.Timestamp.Add(time.Second), st.LastBlockTime, p.Timestamp.Add(-time.Hour), p.Timestamp.Add(1)}[v%4]
		resign(i, p)
	case "pc-times-all":
		any := false
		for i, p := range pcs {
			if p != nil {
				p.Timestamp = []time.Time{st.LastBlockTime, st.LastBlockTime.Add(-time.Second), st.LastBlockTime.Add(1)}[v%3]
				resign(i, p)
				any = true
			}
		}
		if !any {
			return false
		}
	case "pc-index":
		_, p := pick()
		if p == nil {
			return false
		}
		p.ValidatorIndex = []int{(p.ValidatorIndex + 1) % len(pcs), -1, len(pcs), 1 << 20, math.MinInt64}[v%5]
	case "pc-addr":
		_, p := pick()
		if p == nil {
			return false
		}
		p.ValidatorAddress = crypto.Address{}
	case "pc-append":
		if len(pcs) == 0 {
			return false
		}
		if v%2 == 0 {
			lc.Precommits = append(pcs, nil)
		} else {
			_, p := pick()
			if p == nil {
				return false
			}
			cp := *p
			lc.Precommits = append(pcs, &cp)
		}
	case "pc-drop":
		if len(pcs) == 0 {
			return false
		}
		lc.Precommits = pcs[:len(pcs)-1]
	case "pc-swap":
		if len(pcs) < 2 {
			return false
		}
		i := m.Idx % (len(pcs) - 1)
		pcs[i], pcs[i+1] = pcs[i+1], pcs[i]
	default:
		return false
	}
	if m.Fix {
		b.LastCommitHash = types.NewCommit(b.LastCommit.BlockID, b.LastCommit.Precommits).Hash()
		b.DataHash = types.Txs(b.Data.Txs).Hash()
		b.NumTxs = int64(len(b.Data.Txs))
		if m.Kind == "txs" {
			b.TotalTxs = st.LastBlockTotalTx + b.NumTxs
		}
	}
	if m.Retime && len(b.LastCommit.Precommits) <= st.LastValidators.Size() {
		if med, ok := c32Median(b.LastCommit.Precommits, st.LastValidators); ok {
			b.Time = med
		}
	}
	return true
}

func c32EditBytes(bz []byte, edits []c32Edit) []byte {
	out := append([]byte{}, bz...)
	for _, e := range edits {
		if len(out) == 0 {
			break
		}
		p := e.Pos % len(out)
		switch e.Op {
		case 0:
			out[p] ^= 1 << uint(e.Val%8)
		case 1:
			out[p] = byte(e.Val)
		case 2:
			out = append(out[:p], out[p+1:]...)
		case 3:
			out = append(out[:p], append([]byte{byte(e.Val)}, out[p:]...)...)
		case 4:
			out = out[:p]
		}
	}
	return out
}

func c32Exec(ctx *vk.Ctx, c c32Case) error {
	honest := 0
	ch, err := chBuild(c.Spec, func(st sm.State, b *types.Block) error {
		// every block the node is about to apply, as built, and as decoded from its wire form
		honest++
		if err := c32Eval(ctx, st, b, fmt.Sprintf("honest block %d", b.Height)); err != nil {
			return err
		}
		d, err := c32Decode(amino.MustMarshal(b))
		if err != nil {
			return fmt.Errorf("honest block %d does not decode: %v", b.Height, err)
		}
		if viol, _ := c32Ref(st, d); len(viol) != 0 {
			return fmt.Errorf("honest block %d (decoded) violates %v per the reference validator", b.Height, viol)
		}
		return c32Eval(ctx, st, d, fmt.Sprintf("honest block %d (decoded)", b.Height))
	})
	if err != nil {
		return err
	}
	if len(ch.Steps) == 0 {
		return nil
	}
	ctx.Note("blocks", len(ch.Steps))

	// ---- block sync: a second node verifies first.commit (= second.LastCommit) with the validators in effect, then applies
	{
		sync, err := chSync(ch)
		if err != nil {
			return err
		}
		if !sync.Equals(ch.Steps[len(ch.Steps)-1].Post) {
			return fmt.Errorf("block sync of the same blocks ends in a different state")
		}
	}

	ti := 0 // Block 0 targets the genesis block, any other value a later block
	if c.Block > 0 && len(ch.Steps) > 1 {
		ti = 1 + (c.Block-1)%(len(ch.Steps)-1)
	}
	step := ch.Steps[ti]
	st := step.Pre
	wire := amino.MustMarshal(step.Block)
	ctx.ClassIf(step.Height == st.InitialHeight, "target-is-genesis-block")
	nt := false
	for _, m := range c.Muts {
		b, err := c32Decode(wire)
		if err != nil {
			return fmt.Errorf("honest block does not decode: %v", err)
		}
		if !c32Apply(st, b, m) {
			ctx.Class("mutation-not-applicable")
			continue
		}
		bz, err := amino.Marshal(b)
		if err != nil {
			ctx.Class("mutant-not-encodable")
			continue
		}
		if bytes.Equal(bz, wire) {
			ctx.Class("mutation-no-change")
			continue
		}
		d, err := c32Decode(bz)
		if err != nil {
			ctx.Class("mutant-not-decodable")
			continue
		}
		ctx.Class("mut=" + m.Kind)
		basic := d.ValidateBasic() == nil
		ctx.ClassIf(basic, "mutant-passes-validate-basic")
		nt = nt || basic
		d, _ = c32Decode(bz) // fresh (ValidateBasic memoises hashes)
		if err := c32Eval(ctx, st, d, fmt.Sprintf("block %d mutated by %+v", step.Height, m)); err != nil {
			return err
		}
	}
	for _, edits := range c.Edits {
		bz := c32EditBytes(wire, edits)
		d, err := c32Decode(bz)
		if err != nil {
			ctx.Class("edited-bytes-not-decodable")
			continue
		}
		ctx.Class("edited-bytes-decodable")
		if bytes.Equal(amino.MustMarshal(d), wire) {
			ctx.Class("edited-bytes-same-block")
		}
		if err := c32Eval(ctx, st, d, fmt.Sprintf("block %d decoded from bytes edited by %+v", step.Height, edits)); err != nil {
			return err
		}
	}
	ctx.NTIf(nt)
	return nil
}

func c32Draw(rt *rapid.T) c32Case {
	c := c32Case{Spec: chDraw(rt, chGenOpts{MinBlocks: 3, MaxBlocks: 6})}
	c.Block = rapid.IntRange(0, 7).Draw(rt, "block")
	nm := rapid.IntRange(4, 16).Draw(rt, "nmuts")
	// kinds are walked with a drawn start and stride so that all 36 are covered evenly
	k0 := rapid.IntRange(0, len(c32Kinds)-1).Draw(rt, "kind0")
	stride := rapid.SampledFrom([]int{1, 5, 7, 11, 13, 17, 19, 23}).Draw(rt, "stride")
	for i := 0; i < nm; i++ {
		c.Muts = append(c.Muts, c32Mut{
			Kind:   c32Kinds[(k0+i*stride)%len(c32Kinds)],
			Idx:    rapid.IntRange(0, 11).Draw(rt, "idx"),
			Var:    rapid.IntRange(0, 39).Draw(rt, "var"),
			Fix:    rapid.IntRange(0, 3).Draw(rt, "fix") != 0,
			Retime: rapid.IntRange(0, 3).Draw(rt, "retime") != 0,
			Resign: rapid.IntRange(0, 3).Draw(rt, "resign") != 0,
		})
	}
	ne := rapid.IntRange(0, 6).Draw(rt, "nedits")
	for i := 0; i < ne; i++ {
		var l []c32Edit
		k := rapid.IntRange(1, 3).Draw(rt, "nedit")
		for j := 0; j < k; j++ {
			l = append(l, c32Edit{Op: rapid.SampledFrom([]int{0, 0, 1, 1, 2, 3, 4}).Draw(rt, "op"), Pos: rapid.IntRange(0, 1<<20).Draw(rt, "pos"), Val: rapid.IntRange(0, 255).Draw(rt, "val")})
		}
		c.Edits = append(c.Edits, l)
	}
	return c
}

func TestC32_Validation(t *testing.T) {
	vk.Run(t, vk.Spec[c32Case]{
		ID: "C32", Name: "TestC32_Validation",
		Rule: "rapid: a valid chain of 3-6 blocks (1-7 ed25519 validators, real VoteSet.MakeCommit commits with absent/nil/stray precommits and rounds > 0, validator and parameter updates, initial height 1 or > 1) built through State.MakeBlock/ApplyBlock; every honest block (as built and as decoded) and, for one drawn block, 4-16 single-field mutations (36 kinds over header, data and last commit; optionally with the derived hashes recomputed, the time re-derived as the commit's weighted median, the precommit re-signed) plus 0-6 byte-edited encodings are judged by a reference validator of the listed conditions and by State.ValidateBlock: verdicts must agree, no panic; non-trivial = at least one mutant passes Block.ValidateBasic (so a stateful check decides)",
		Draw: c32Draw, Exec: c32Exec,
	})
}
