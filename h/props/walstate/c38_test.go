package walstate

import (
	"bytes"
	"errors"
	"fmt"
	"io"
	"os"
	"path/filepath"
	"reflect"
	"sort"
	"strings"
	"testing"
	"time"

	"github.com/gnolang/gno/tm2/pkg/amino"
	auto "github.com/gnolang/gno/tm2/pkg/autofile"
	cs "github.com/gnolang/gno/tm2/pkg/bft/consensus"
	cstypes "github.com/gnolang/gno/tm2/pkg/bft/consensus/types"
	"github.com/gnolang/gno/tm2/pkg/bft/types"
	walm "github.com/gnolang/gno/tm2/pkg/bft/wal"
	"github.com/gnolang/gno/tm2/pkg/crypto"
	"pgregory.net/rapid"
	"verif/vk"
)

// C38 — the consensus write-ahead log preserves what was written.
//
// A case is a sequence of WAL operations (messages of every kind the consensus
// writes plus a harness-defined kind, end-height markers with strictly
// increasing heights, explicit rotations, restarts) executed against a real
// baseWAL in a scratch directory, with an optional head-size limit so that the
// group also rotates on its own. The oracle is a list model of what was
// written.

// c38Msg is a harness-defined WAL message kind.
type c38Msg struct {
	Height int64
	Round  int64
	Data   []byte
	Note   string
}

func (c38Msg) AssertWALMessage() {}

var _ = amino.RegisterPackage(amino.NewPackage(
	"verif/props/walstate",
	"walstate",
	amino.GetCallersDirname(),
).WithDependencies(cs.Package).WithTypes(
	c38Msg{},
))

type c38Op struct {
	K    string `json:"k"`              // msg | meta | rotate | restart
	Kind int    `json:"kind,omitempty"` // msg: 0 own, 1 timeout, 2 roundstep, 3 vote, 4 blockpart, 5 proposal
	H    int64  `json:"h,omitempty"`    // msg: height field; meta: height increment (>=1)
	R    int    `json:"r,omitempty"`
	N    int    `json:"n,omitempty"`    // payload size
	Fill int    `json:"fill,omitempty"` // payload filler
	Sync bool   `json:"sync,omitempty"` // api mode: WriteSync instead of Write
	Sec  int64  `json:"sec,omitempty"`  // writer mode: timestamp
	Ns   int64  `json:"ns,omitempty"`
}

type c38Fault struct {
	Kind string `json:"kind"` // trunc | subst
	Line int    `json:"line"`
	Pos  int    `json:"pos"`
	Val  int    `json:"val"`
}

type c38Case struct {
	Api     bool       `json:"api"`   // messages through baseWAL.Write/WriteSync (wall-clock time field) instead of a WALWriter on the group with case-given times
	Limit   int64      `json:"limit"` // head size limit (0 = never rotate on its own)
	MaxSize int64      `json:"max_size"`
	Ops     []c38Op    `json:"ops"`
	Faults  []c38Fault `json:"faults"`
	Mode    int        `json:"mode"` // search options: 0 nil, 1 backwards, 2 binary
	Ignore  bool       `json:"ignore"`
}

// c38RealKinds maps the unexported consensus WAL message types by name.
var c38RealKinds = func() map[string]reflect.Type {
	m := map[string]reflect.Type{}
	for _, rt := range cs.Package.ReflectTypes() {
		for rt.Kind() == reflect.Ptr {
			rt = rt.Elem()
		}
		m[rt.Name()] = rt
	}
	return m
}()

func c38Payload(n, fill int) []byte {
	if n == 0 {
		return nil
	}
	b := make([]byte, n)
	x := uint32(fill)*2654435761 + 12345
	for i := range b {
		x = x*1664525 + 1013904223
		b[i] = byte(x >> 24)
	}
	return b
}

// c38Build constructs the WAL message described by op.
func c38Build(op c38Op) walm.WALMessage {
	mk := func(name string, set func(v reflect.Value)) walm.WALMessage {
		rt, ok := c38RealKinds[name]
		if !ok {
			panic("consensus WAL message type not registered: " + name)
		}
		v := reflect.New(rt).Elem()
		set(v)
		return v.Interface().(walm.WALMessage)
	}
	blockID := types.BlockID{Hash: c38Payload(32, op.Fill), PartsHeader: types.PartSetHeader{Total: 1 + op.R, Hash: c38Payload(32, op.Fill+1)}}
	ts := time.Unix(1600000000+int64(op.Fill), int64(op.N)).UTC()
	switch op.Kind {
	case 1:
		return mk("timeoutInfo", func(v reflect.Value) {
			v.FieldByName("Duration").SetInt(int64(op.N) * int64(time.Millisecond))
			v.FieldByName("Height").SetInt(op.H)
			v.FieldByName("Round").SetInt(int64(op.R))
			v.FieldByName("Step").SetUint(uint64(1 + op.Fill%8))
		})
	case 2:
		return mk("newRoundStepInfo", func(v reflect.Value) {
			v.FieldByName("HRS").Set(reflect.ValueOf(cstypes.HRS{Height: op.H, Round: op.R, Step: cstypes.RoundStepType(1 + op.Fill%8)}))
		})
	case 3:
		vote := &types.Vote{Type: types.PrecommitType, Height: op.H, Round: op.R, BlockID: blockID, Timestamp: ts,
			ValidatorAddress: c38Addr(op.Fill + 2), ValidatorIndex: op.Fill % 7, Signature: c38Payload(64, op.Fill+3)}
		return mk("msgInfo", func(v reflect.Value) {
			v.FieldByName("Msg").Set(reflect.ValueOf(&cs.VoteMessage{Vote: vote}))
			v.FieldByName("PeerID").SetString(fmt.Sprintf("peer%d", op.Fill%5))
		})
	case 4:
		n := op.N
		if n == 0 {
			n = 1
		}
		ps := types.NewPartSetFromData(c38Payload(n, op.Fill), types.BlockPartSizeBytes)
		return mk("msgInfo", func(v reflect.Value) {
			v.FieldByName("Msg").Set(reflect.ValueOf(&cs.BlockPartMessage{Height: op.H, Round: op.R, Part: ps.GetPart(0)}))
			v.FieldByName("PeerID").SetString("")
		})
	case 5:
		p := &types.Proposal{Type: types.ProposalType, Height: op.H, Round: op.R, POLRound: -1, BlockID: blockID, Timestamp: ts, Signature: c38Payload(64, op.Fill+4)}
		return mk("msgInfo", func(v reflect.Value) {
			v.FieldByName("Msg").Set(reflect.ValueOf(&cs.ProposalMessage{Proposal: p}))
			v.FieldByName("PeerID").SetString("")
		})
	}
	return c38Msg{Height: op.H, Round: int64(op.R), Data: c38Payload(op.N, op.Fill), Note: strings.Repeat("#", op.Fill%4)}
}

// c38Item is one line of the model log.
type c38Item struct {
	meta bool
	h    int64
	msg  walm.WALMessage
	enc  []byte // amino Any encoding of msg at write time
	t    time.Time
	tset bool
}

func (it c38Item) String() string {
	if it.meta {
		return fmt.Sprintf("#ENDHEIGHT %d", it.h)
	}
	s := fmt.Sprintf("%T%+v", it.msg, it.msg)
	if len(s) > 160 {
		s = s[:160] + "…"
	}
	return s
}

// c38Same compares what a reader returned with a model item.
func c38Same(it c38Item, twm *walm.TimedWALMessage, meta *walm.MetaMessage) error {
	if it.meta {
		if meta == nil || twm != nil {
			return fmt.Errorf("want %v, got a message line", it)
		}
		if meta.Height != it.h {
			return fmt.Errorf("want %v, got marker %d", it, meta.Height)
		}
		return nil
	}
	if twm == nil || meta != nil {
		return fmt.Errorf("want %v, got a marker line %+v", it, meta)
	}
	if twm.Msg == nil {
		return fmt.Errorf("want %v, got nil Msg", it)
	}
	got, err := amino.MarshalAny(twm.Msg)
	if err != nil {
		return fmt.Errorf("want %v, got unencodable %T: %v", it, twm.Msg, err)
	}
	if !bytes.Equal(got, it.enc) {
		return fmt.Errorf("altered message: want %v, got %T%+v", it, twm.Msg, twm.Msg)
	}
	if m, ok := it.msg.(c38Msg); ok {
		g, ok := twm.Msg.(c38Msg)
		if !ok || g.Height != m.Height || g.Round != m.Round || !bytes.Equal(g.Data, m.Data) || g.Note != m.Note {
			return fmt.Errorf("altered message: want %v, got %T%+v", it, twm.Msg, twm.Msg)
		}
	}
	if it.tset && !twm.Time.Equal(it.t) {
		return fmt.Errorf("altered time: want %v, got %v", it.t, twm.Time)
	}
	return nil
}

// c38ReadAll reads from dec until the first error and compares with want.
// It returns the number of items read and the terminating error.
func c38ReadAll(dec *walm.WALReader, want []c38Item) (int, error, error) {
	n := 0
	for {
		twm, meta, err := dec.ReadMessage()
		if err != nil {
			return n, err, nil
		}
		if n >= len(want) {
			return n, nil, fmt.Errorf("reader returned an item that was never written after %d items: %+v %+v", n, twm, meta)
		}
		if e := c38Same(want[n], twm, meta); e != nil {
			return n, nil, fmt.Errorf("item %d: %w", n, e)
		}
		n++
	}
}

type c38File struct {
	name string
	data []byte
}

// c38Image reads the files of the group in index order (rotated files, then head).
func c38Image(dir string) ([]c38File, error) {
	ents, err := os.ReadDir(dir)
	if err != nil {
		return nil, err
	}
	var names []string
	head := false
	for _, e := range ents {
		switch {
		case e.Name() == "wal":
			head = true
		case strings.HasPrefix(e.Name(), "wal."):
			names = append(names, e.Name())
		}
	}
	sort.Slice(names, func(i, j int) bool {
		var a, b int
		fmt.Sscanf(names[i], "wal.%d", &a)
		fmt.Sscanf(names[j], "wal.%d", &b)
		return a < b
	})
	for i, n := range names {
		if n != fmt.Sprintf("wal.%03d", i) {
			return nil, fmt.Errorf("rotated files are not contiguous: %v", names)
		}
	}
	if head {
		names = append(names, "wal")
	}
	var out []c38File
	for _, n := range names {
		b, err := os.ReadFile(filepath.Join(dir, n))
		if err != nil {
			return nil, err
		}
		out = append(out, c38File{n, b})
	}
	if !head { // the head is created lazily after a rotation
		out = append(out, c38File{"wal", nil})
	}
	return out, nil
}

func c38TmpDir() (string, error) {
	base := os.Getenv("VERIF_TMP")
	if base == "" {
		base = "/var/tmp"
	}
	return os.MkdirTemp(base, "c38-")
}

func c38Open(dir string, c c38Case) (*walmWAL, error) {
	w, err := walm.NewWAL(filepath.Join(dir, "wal"), c.MaxSize, auto.GroupHeadSizeLimit(c.Limit))
	if err != nil {
		return nil, err
	}
	if err := w.Start(); err != nil {
		return nil, err
	}
	return &walmWAL{w}, nil
}

// walmWAL narrows the concrete (unexported) WAL type to what the harness uses.
type walmWAL struct {
	w interface {
		walm.WAL
		Group() *auto.Group
	}
}

func (w *walmWAL) stop() {
	w.w.Stop()
	w.w.Wait()
}

func c38SearchOpts(c c38Case) *walm.WALSearchOptions {
	if c.Mode == 0 && !c.Ignore {
		return nil
	}
	return &walm.WALSearchOptions{Mode: walm.WALSearchMode(c.Mode), IgnoreDataCorruptionErrors: c.Ignore}
}

// c38CheckSearch verifies SearchForHeight for every candidate height against
// the model. lineFile[i] is the index of the file holding model line i.
func c38CheckSearch(ctx *vk.Ctx, w *walmWAL, c c38Case, model []c38Item, lineFile []int, phase string) error {
	marks := map[int64]int{}
	var maxH int64
	for i, it := range model {
		if it.meta {
			marks[it.h] = i
			if it.h > maxH {
				maxH = it.h
			}
		}
	}
	for h := int64(0); h <= maxH+2; h++ {
		var rd io.ReadCloser
		var found bool
		var err error
		var pv any
		func() {
			defer func() { pv = recover() }()
			rd, found, err = w.w.SearchForHeight(h, c38SearchOpts(c))
		}()
		pos, written := marks[h]
		if pv != nil {
			if s, ok := pv.(string); ok && s == "should not happen" && c.Mode != int(walm.WALSearchModeBinary) {
				ctx.Class("search-panicked-should-not-happen")
				if ctx.Known("search-backwards-index-below-min-panic") {
					continue
				}
			}
			return fmt.Errorf("%s: SearchForHeight(%d) panicked on an intact log: %v (marker written=%v)", phase, h, pv, written)
		}
		if err != nil {
			return fmt.Errorf("%s: SearchForHeight(%d) on an intact log: %v", phase, h, err)
		}
		if found != written {
			if rd != nil {
				rd.Close()
			}
			return fmt.Errorf("%s: SearchForHeight(%d) found=%v but marker written=%v (line %d)", phase, h, found, written, pos)
		}
		if !found {
			if rd != nil {
				rd.Close()
				return fmt.Errorf("%s: SearchForHeight(%d) not found but reader non-nil", phase, h)
			}
			continue
		}
		// exactly as the consensus replay consumes it
		dec := walm.NewWALReader(rd, c.MaxSize)
		want := model[pos+1:]
		n, rerr, bad := c38ReadAll(dec, want)
		rd.Close()
		if bad != nil {
			return fmt.Errorf("%s: after SearchForHeight(%d): %w", phase, h, bad)
		}
		if !errors.Is(rerr, io.EOF) {
			return fmt.Errorf("%s: after SearchForHeight(%d): read error on an intact log after %d items: %v", phase, h, n, rerr)
		}
		if n < len(want) {
			// the reader ended early; is it exactly at the end of the file holding the marker?
			inFile := 0
			for j := pos + 1; j < len(model) && lineFile[j] == lineFile[pos]; j++ {
				inFile++
			}
			if n == inFile {
				ctx.Class("search-reader-ended-at-file-end")
				if n == 0 {
					ctx.Class("search-marker-last-line-next-item-missed")
				}
				if ctx.Known("search-reader-stops-at-file-end") {
					continue
				}
				return fmt.Errorf("%s: SearchForHeight(%d): the returned reader yields %d item(s) then EOF at the end of file #%d, but %d more item(s) were written after the marker in later files (first missed: %v)",
					phase, h, n, lineFile[pos], len(want)-n, want[n])
			}
			return fmt.Errorf("%s: SearchForHeight(%d): the returned reader yields %d of the %d items written after the marker (first missed: %v)", phase, h, n, len(want), want[n])
		}
	}
	return nil
}

// c38Lines splits the concatenated image into lines (without terminators) and
// returns their start offsets; a trailing unterminated fragment is an error on
// an intact log.
func c38Lines(all []byte) (lines [][]byte, starts []int, err error) {
	off := 0
	for off < len(all) {
		i := bytes.IndexByte(all[off:], '\n')
		if i < 0 {
			return nil, nil, fmt.Errorf("intact log does not end with a newline")
		}
		lines = append(lines, all[off:off+i])
		starts = append(starts, off)
		off += i + 1
	}
	return lines, starts, nil
}

// c38Trunc checks the log truncated at byte offset x, reading in memory from
// the start of line `from`: the reader must return exactly the lines that are
// complete before the cut and then fail (EOF or corruption), never anything else.
func c38Trunc(c c38Case, all []byte, lines [][]byte, starts []int, model []c38Item, from, x int) error {
	dec := walm.NewWALReader(bytes.NewReader(all[starts[from]:x]), c.MaxSize)
	// lines whose terminator lies before the cut
	complete := sort.Search(len(starts), func(j int) bool { return starts[j]+len(lines[j])+1 > x })
	if complete < from {
		complete = from
	}
	n, rerr, bad := c38ReadAll(dec, model[from:])
	if bad != nil {
		return fmt.Errorf("truncated at byte %d: %w", x, bad)
	}
	if rerr == nil {
		return fmt.Errorf("truncated at byte %d: reader neither failed nor hit EOF", x)
	}
	if n != complete-from {
		return fmt.Errorf("truncated at byte %d: %d complete lines precede the cut (from line %d) but the reader returned %d items, then %v", x, complete-from, from, n, rerr)
	}
	return nil
}

// c38Subst checks the log with byte at absolute offset x replaced by v; x lies
// in message line li or is its terminator.
func c38Subst(ctx *vk.Ctx, c c38Case, all []byte, lines [][]byte, starts []int, model []c38Item, li, x int, v byte) error {
	if all[x] == v {
		return nil
	}
	from := li
	if from > 0 {
		from--
	}
	end := len(all)
	if li+4 < len(starts) {
		end = starts[li+4]
	}
	buf := append([]byte{}, all[starts[from]:end]...)
	buf[x-starts[from]] = v
	dec := walm.NewWALReader(bytes.NewReader(buf), c.MaxSize)
	lastLine := sort.SearchInts(starts, end) // exclusive
	term := x == starts[li]+len(lines[li])
	where := fmt.Sprintf("line %d (%v) byte %d of %d: %q -> %q", li, model[li], x-starts[li], len(lines[li]), all[x], v)
	// lines before li are intact
	for j := from; j < li; j++ {
		twm, meta, err := dec.ReadMessage()
		if err != nil {
			return fmt.Errorf("substitution in %s: intact line %d before it failed: %v", where, j, err)
		}
		if e := c38Same(model[j], twm, meta); e != nil {
			return fmt.Errorf("substitution in %s: intact line %d before it: %w", where, j, e)
		}
	}
	// number of reads that cover the damaged region, and the first intact line after it
	reads, next := 1, li+1
	switch {
	case term && v != '\n':
		next = li + 2 // lines li and li+1 are merged
	case !term && v == '\n':
		reads = 2 // line li is split in two fragments
	}
	for r := 0; r < reads; r++ {
		twm, meta, err := dec.ReadMessage()
		if err != nil {
			continue // reported (corruption error, or EOF for an unterminated tail)
		}
		// not reported
		if twm != nil && c38Same(model[li], twm, nil) == nil && !term {
			ctx.Class("subst-undetected-same-message")
			if ctx.Known("corrupted-line-accepted-unaltered") {
				continue
			}
			return fmt.Errorf("substitution in %s: the corrupted line was accepted without any error (the decoded message equals the original)", where)
		}
		return fmt.Errorf("substitution in %s: read %d of the damaged region returned no error: msg=%+v meta=%+v", where, r, twm, meta)
	}
	// the reader must resynchronise on the following intact lines
	for j := next; j < lastLine; j++ {
		twm, meta, err := dec.ReadMessage()
		if err != nil {
			return fmt.Errorf("substitution in %s: intact line %d after it failed: %v", where, j, err)
		}
		if e := c38Same(model[j], twm, meta); e != nil {
			return fmt.Errorf("substitution in %s: intact line %d after it: %w", where, j, e)
		}
	}
	return nil
}

// c38OnDisk writes a (faulted) image into a fresh directory and reads it back
// through a real autofile group.
func c38OnDisk(c c38Case, files []c38File, model []c38Item, wantItems int, what string) error {
	dir, err := c38TmpDir()
	if err != nil {
		return nil
	}
	defer os.RemoveAll(dir)
	for _, f := range files {
		if err := os.WriteFile(filepath.Join(dir, f.name), f.data, 0o600); err != nil {
			return nil
		}
	}
	g, err := auto.OpenGroup(filepath.Join(dir, "wal"))
	if err != nil {
		return fmt.Errorf("%s: OpenGroup: %v", what, err)
	}
	defer g.Close()
	gr, err := g.NewReader(g.MinIndex(), 0)
	if err != nil {
		return fmt.Errorf("%s: NewReader: %v", what, err)
	}
	defer gr.Close()
	n, rerr, bad := c38ReadAll(walm.NewWALReader(gr, c.MaxSize), model)
	if bad != nil {
		return fmt.Errorf("%s (group reader): %w", what, bad)
	}
	if rerr == nil {
		return fmt.Errorf("%s (group reader): no terminating error", what)
	}
	if n != wantItems {
		return fmt.Errorf("%s (group reader): read %d items then %v, want %d items", what, n, rerr, wantItems)
	}
	if wantItems == len(model) && !errors.Is(rerr, io.EOF) {
		return fmt.Errorf("%s (group reader): intact log ended with %v", what, rerr)
	}
	return nil
}

func c38Exec(ctx *vk.Ctx, c c38Case) error {
	dir, err := c38TmpDir()
	if err != nil {
		return nil
	}
	defer os.RemoveAll(dir)
	w, err := c38Open(dir, c)
	if err != nil {
		return fmt.Errorf("open: %v", err)
	}
	stopped := false
	defer func() {
		if !stopped {
			w.stop()
		}
	}()
	ctx.ClassIf(c.Api, "api-writes")
	ctx.ClassIf(!c.Api, "writer-writes")
	model := []c38Item{{meta: true, h: 0}} // OnStart of an empty WAL writes #ENDHEIGHT 0
	var height int64
	enc := walm.NewWALWriter(w.w.Group(), c.MaxSize)
	rejected, restarts, rotations := 0, 0, 0
	for i, op := range c.Ops {
		switch op.K {
		case "meta":
			height += op.H
			if err := w.w.WriteMetaSync(walm.MetaMessage{Height: height}); err != nil {
				return fmt.Errorf("op %d WriteMetaSync(%d): %v", i, height, err)
			}
			model = append(model, c38Item{meta: true, h: height})
		case "rotate":
			if w.w.Group().HeadSize() == 0 {
				ctx.Class("rotate-skipped-empty-head")
				continue
			}
			w.w.Group().RotateFile()
			rotations++
		case "restart":
			w.stop()
			w, err = c38Open(dir, c)
			if err != nil {
				stopped = true
				return fmt.Errorf("op %d reopen: %v", i, err)
			}
			enc = walm.NewWALWriter(w.w.Group(), c.MaxSize)
			restarts++
		case "msg":
			msg := c38Build(op)
			it := c38Item{msg: msg, enc: amino.MustMarshalAny(msg)}
			ts := c38Time(op)
			size := c38Size(op)
			var werr error
			if c.Api {
				if op.Sync {
					werr = w.w.WriteSync(msg)
				} else {
					werr = w.w.Write(msg)
				}
				if d := size - c.MaxSize; d >= -16 && d <= 16 { // wall-clock time field: size known only approximately
					if werr == nil {
						model = append(model, it)
					} else {
						rejected++
					}
					continue
				}
			} else {
				it.t, it.tset = ts, true
				werr = enc.Write(walm.TimedWALMessage{Time: ts, Msg: msg})
			}
			tooBig := size > c.MaxSize
			if tooBig != (werr != nil) {
				return fmt.Errorf("op %d write of %v (%d sized amino bytes, max %d): err=%v", i, it, size, c.MaxSize, werr)
			}
			if tooBig {
				rejected++
				continue
			}
			ctx.ClassIf(size == c.MaxSize, "msg-exactly-max-size")
			model = append(model, it)
		}
	}
	ctx.ClassIf(rejected > 0, "too-big-rejected")
	ctx.ClassIf(restarts > 0, "restarted")
	if err := w.w.FlushAndSync(); err != nil {
		return fmt.Errorf("FlushAndSync: %v", err)
	}

	// ---- intact log: layout and full read
	files, err := c38Image(dir)
	if err != nil {
		return fmt.Errorf("layout: %v", err)
	}
	var all []byte
	var lineFile []int
	firstMark, lastMark, noMark := false, false, false
	for fi, f := range files {
		if len(f.data) > 0 && f.data[len(f.data)-1] != '\n' {
			return fmt.Errorf("file %s does not end with a newline: a line spans files", f.name)
		}
		nl := bytes.Count(f.data, []byte{'\n'})
		base := len(lineFile)
		for j := 0; j < nl; j++ {
			lineFile = append(lineFile, fi)
		}
		if nl > 0 && base+nl <= len(model) {
			has := false
			for j := base; j < base+nl; j++ {
				has = has || model[j].meta
			}
			firstMark = firstMark || (model[base].meta && fi > 0)
			lastMark = lastMark || (model[base+nl-1].meta && fi < len(files)-1)
			noMark = noMark || !has
		}
		all = append(all, f.data...)
	}
	if g := w.w.Group(); g.MaxIndex() != len(files)-1 || g.MinIndex() != 0 {
		return fmt.Errorf("group index range [%d,%d] but %d files on disk", g.MinIndex(), g.MaxIndex(), len(files))
	}
	lines, starts, err := c38Lines(all)
	if err != nil {
		return err
	}
	if len(lines) != len(model) {
		return fmt.Errorf("log has %d lines, %d items were written", len(lines), len(model))
	}
	switch {
	case len(files) == 1:
		ctx.Class("files=1")
	case len(files) <= 3:
		ctx.Class("files=2-3")
	default:
		ctx.Class("files>=4")
	}
	ctx.ClassIf(firstMark, "marker-first-line-of-file")
	ctx.ClassIf(lastMark, "marker-last-line-of-file")
	ctx.ClassIf(noMark, "file-without-marker")
	ctx.ClassIf(len(files[len(files)-1].data) == 0, "empty-head")
	ctx.NTIf(len(files) >= 2 && (firstMark || lastMark))
	ctx.Note("files", len(files))
	ctx.Note("lines", len(lines))

	{ // through the live group
		gr, err := w.w.Group().NewReader(0, 0)
		if err != nil {
			return fmt.Errorf("NewReader: %v", err)
		}
		n, rerr, bad := c38ReadAll(walm.NewWALReader(gr, c.MaxSize), model)
		gr.Close()
		if bad != nil {
			return fmt.Errorf("intact log: %w", bad)
		}
		if n != len(model) || !errors.Is(rerr, io.EOF) {
			return fmt.Errorf("intact log: read %d of %d items, then %v", n, len(model), rerr)
		}
	}
	if err := c38CheckSearch(ctx, w, c, model, lineFile, "live"); err != nil {
		return err
	}
	// after a restart (fresh group info from the directory)
	w.stop()
	w, err = c38Open(dir, c)
	if err != nil {
		stopped = true
		return fmt.Errorf("reopen: %v", err)
	}
	if err := c38CheckSearch(ctx, w, c, model, lineFile, "reopened"); err != nil {
		return err
	}
	w.stop()
	stopped = true
	if again, err := c38Image(dir); err != nil || len(again) != len(files) {
		return fmt.Errorf("reopening changed the file layout: %d -> %d files (%v)", len(files), len(again), err)
	} else {
		for i := range again {
			if !bytes.Equal(again[i].data, files[i].data) {
				return fmt.Errorf("reopening changed the content of %s", files[i].name)
			}
		}
	}

	// ---- faults, in memory (reader over the byte stream)
	fileStart := make([]int, len(files)+1)
	for i, f := range files {
		fileStart[i+1] = fileStart[i] + len(f.data)
	}
	thorough := ctx.Tier() == "thorough"
	var msgLines []int
	for i, it := range model {
		if !it.meta {
			msgLines = append(msgLines, i)
		}
	}
	trunc := func(x int) error {
		k := sort.SearchInts(starts, x+1) - 1 // line containing x (or the last one)
		if k < 0 {
			k = 0
		}
		from := k - 2
		if from < 0 {
			from = 0
		}
		return c38Trunc(c, all, lines, starts, model, from, x)
	}
	// systematic: around every line boundary of the last two files; every byte when small
	lo := fileStart[len(files)-1]
	if len(files) >= 2 {
		lo = fileStart[len(files)-2]
	}
	nTrunc := 0
	budget := 3000
	if thorough {
		budget = 40000
	}
	if len(all)-lo <= budget {
		for x := lo; x <= len(all); x++ {
			if err := trunc(x); err != nil {
				return err
			}
			nTrunc++
		}
		ctx.Class("trunc-every-byte-of-last-two-files")
	} else {
		for k := sort.SearchInts(starts, lo); k < len(starts); k++ {
			e := starts[k] + len(lines[k])
			for _, x := range []int{starts[k], starts[k] + 1, (starts[k] + e) / 2, e - 1, e, e + 1} {
				if x >= starts[k] && x <= len(all) {
					if err := trunc(x); err != nil {
						return err
					}
					nTrunc++
				}
			}
		}
		ctx.Class("trunc-stratified")
	}
	// systematic substitutions: last character and terminator of the last message lines
	vals := []byte{'\n', '\r', '#', '=', 'A', 'B', '/', 0, 0xff}
	nSub := 0
	// (not in api mode: there the line bytes depend on the wall clock, and a
	// substitution outcome could not be replayed)
	for j := len(msgLines) - 1; !c.Api && j >= 0 && j >= len(msgLines)-3; j-- {
		li := msgLines[j]
		if len(lines[li]) > 4096 && !thorough {
			continue
		}
		last := starts[li] + len(lines[li]) - 1
		for _, x := range []int{starts[li], last, last + 1} {
			for _, v := range vals {
				if err := c38Subst(ctx, c, all, lines, starts, model, li, x, v); err != nil {
					return err
				}
				nSub++
			}
			if thorough && len(lines[li]) <= 4096 {
				for v := 0; v < 256; v++ {
					if err := c38Subst(ctx, c, all, lines, starts, model, li, x, byte(v)); err != nil {
						return err
					}
					nSub++
				}
			}
		}
	}
	// drawn faults
	for _, f := range c.Faults {
		switch f.Kind {
		case "trunc":
			li := f.Line % len(lines)
			x := starts[li] + f.Pos%(len(lines[li])+1)
			if err := trunc(x); err != nil {
				return err
			}
			nTrunc++
			// on disk, through the group reader: cut the byte stream at x
			var cut []c38File
			for i, fl := range files {
				switch {
				case fileStart[i+1] <= x && i < len(files)-1:
					cut = append(cut, fl)
				case fileStart[i] <= x && i < len(files)-1 && x < fileStart[i+1]:
					cut = append(cut, c38File{fl.name, fl.data[:x-fileStart[i]]})
				case i == len(files)-1 && fileStart[i] <= x:
					cut = append(cut, c38File{fl.name, fl.data[:x-fileStart[i]]})
				case i == len(files)-1:
					cut = append(cut, c38File{fl.name, nil}) // the head always exists
				}
			}
			complete := li
			if err := c38OnDisk(c, cut, model, complete, fmt.Sprintf("truncated at byte %d", x)); err != nil {
				return err
			}
		case "subst":
			if len(msgLines) == 0 || c.Api {
				continue
			}
			li := msgLines[f.Line%len(msgLines)]
			var x int
			switch f.Pos % 8 {
			case 0:
				x = starts[li]
			case 1:
				x = starts[li] + len(lines[li]) - 1
			case 2:
				x = starts[li] + len(lines[li]) // terminator
			default:
				x = starts[li] + (f.Pos/8)%len(lines[li])
			}
			v := byte(f.Val)
			if f.Val >= 256 { // a different base64 character
				const alpha = "ABCDEFGHIJKLMNOPQRSTUVWXYZabcdefghijklmnopqrstuvwxyz0123456789+/"
				v = alpha[f.Val%64]
			}
			if err := c38Subst(ctx, c, all, lines, starts, model, li, x, v); err != nil {
				return err
			}
			nSub++
		}
	}
	ctx.Note("truncations", nTrunc)
	ctx.Note("substitutions", nSub)
	// intact image through a fresh group
	return c38OnDisk(c, files, model, len(model), "intact copy")
}

func c38Draw(rt *rapid.T) c38Case {
	c := c38Case{
		Api:     rapid.IntRange(0, 3).Draw(rt, "api") == 0,
		Limit:   rapid.SampledFrom([]int64{0, 0, 1, 150, 400, 1200, 5000, 100000}).Draw(rt, "limit"),
		MaxSize: rapid.SampledFrom([]int64{1 << 20, 1 << 20, 1 << 20, 4096, 300}).Draw(rt, "maxsize"),
		Mode:    rapid.IntRange(0, 2).Draw(rt, "mode"),
		Ignore:  rapid.Bool().Draw(rt, "ignore"),
	}
	nops := rapid.IntRange(1, 40).Draw(rt, "nops")
	for i := 0; i < nops; i++ {
		var op c38Op
		switch k := rapid.IntRange(0, 19).Draw(rt, "k"); {
		case k < 11:
			op.K = "msg"
			op.Kind = rapid.IntRange(0, 5).Draw(rt, "kind")
			op.H = int64(rapid.IntRange(0, 1000000).Draw(rt, "mh"))
			op.R = rapid.IntRange(0, 5).Draw(rt, "mr")
			op.Fill = rapid.IntRange(0, 1000).Draw(rt, "fill")
			switch rapid.IntRange(0, 19).Draw(rt, "nclass") {
			case 0:
				op.N = rapid.IntRange(200, 5000).Draw(rt, "nbig")
			case 1:
				op.N = rapid.SampledFrom([]int{65536, 65535, 70000, 20000}).Draw(rt, "nhuge")
			case 2, 3: // sized amino length within +-2 of the maximum message size
				op.Kind = 0
				op.N = rapid.IntRange(0, 120).Draw(rt, "n")
				if c.MaxSize <= 4096 {
					target := c.MaxSize + int64(rapid.IntRange(-2, 2).Draw(rt, "edge"))
					op.Sec = int64(rapid.IntRange(0, 100000).Draw(rt, "sec"))
					op.Ns = int64(rapid.SampledFrom([]int{0, 1, 999999999}).Draw(rt, "ns"))
					op.N = sort.Search(int(c.MaxSize)+8, func(n int) bool { o := op; o.N = n; return c38Size(o) >= target })
					c.Ops = append(c.Ops, op)
					continue
				}
			default:
				op.N = rapid.IntRange(0, 120).Draw(rt, "n")
			}
			op.Sync = rapid.Bool().Draw(rt, "sync")
			op.Sec = int64(rapid.IntRange(0, 100000).Draw(rt, "sec"))
			op.Ns = int64(rapid.SampledFrom([]int{0, 1, 127, 128, 999, 16384, 2097151, 2097152, 268435456, 999999999}).Draw(rt, "ns"))
		case k < 16:
			op.K = "meta"
			op.H = int64(rapid.SampledFrom([]int{1, 1, 1, 1, 2, 3, 10}).Draw(rt, "dh"))
		case k < 19:
			op.K = "rotate"
		default:
			op.K = "restart"
		}
		c.Ops = append(c.Ops, op)
	}
	nf := rapid.IntRange(0, 6).Draw(rt, "nfaults")
	for i := 0; i < nf; i++ {
		c.Faults = append(c.Faults, c38Fault{
			Kind: rapid.SampledFrom([]string{"trunc", "subst", "subst"}).Draw(rt, "fk"),
			Line: rapid.IntRange(0, 1<<16).Draw(rt, "fl"),
			Pos:  rapid.IntRange(0, 1<<20).Draw(rt, "fp"),
			Val:  rapid.IntRange(0, 511).Draw(rt, "fv"),
		})
	}
	return c
}

const c38Rule = "rapid: 1-40 WAL operations (6 message kinds incl. the consensus' own msgInfo/timeoutInfo/newRoundStepInfo and 64 kB block parts, end-height markers with increasing heights, explicit RotateFile, restarts) on a real WAL with head-size limit in {off,1,150,...} and max message size in {1 MiB,4096,300}; then intact read-back (live group, reopened, copied), SearchForHeight for every height 0..max+2 in a drawn mode, truncation at every byte (or around every line boundary) of the last two files, byte substitutions in message lines (first/last character, terminator, drawn offsets; quick: special values, thorough: all 256); non-trivial = the log spans >= 2 files and an end-height marker is the first or last line of a file"

func TestC38_Log(t *testing.T) {
	vk.Run(t, vk.Spec[c38Case]{ID: "C38", Name: "TestC38_Log", Rule: c38Rule, Draw: c38Draw, Exec: c38Exec})
}

func c38Addr(fill int) (a crypto.Address) {
	copy(a[:], c38Payload(len(a), fill))
	return a
}

func c38Time(op c38Op) time.Time { return time.Unix(1700000000+op.Sec, op.Ns).UTC() }

// c38Size is the sized amino length of the timed message of op (what maxSize bounds).
func c38Size(op c38Op) int64 {
	return int64(len(amino.MustMarshalSized(walm.TimedWALMessage{Time: c38Time(op), Msg: c38Build(op)})))
}
