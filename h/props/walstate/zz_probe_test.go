package walstate

import (
	"encoding/json"
	"os"
	"testing"

	sm "github.com/gnolang/gno/tm2/pkg/bft/state"
)

func TestZZProbe(t *testing.T) {
	b, err := os.ReadFile(os.Getenv("PROBE_FILE"))
	if err != nil {
		t.Skip()
	}
	var rf struct {
		Case c41Case `json:"case"`
	}
	json.Unmarshal(b, &rf)
	ch, err := chBuild(rf.Case.Spec, nil)
	if err != nil {
		t.Fatal(err)
	}
	for _, st := range ch.Steps {
		if st.Height < 21 || st.Height > 27 {
			continue
		}
		got, _ := sm.LoadValidators(ch.StateDB, st.Height)
		t.Logf("h=%d lastChanged(pre)=%d\n  mem  %v\n  load %v", st.Height, st.Pre.LastHeightValidatorsChanged, st.Pre.Validators, got)
	}
}
