package gnogo

import (
	"fmt"
	"sort"
	"strconv"
	"strings"

	"pgregory.net/rapid"
)

// Typed grammar of the program layer of C04. Everything rendered here is
// valid in Go and in Gno; the exclusions of DESIGN §4 C04 are enforced by
// construction:
//   - no map iteration order (maps are ranged only for commutative sums, and
//     printed key-sorted), no cap() after string->slice conversion, no pointers
//     to zero-size variables, no goroutines/channels/complex/generics/unsafe,
//     floats printed as bit patterns, all output through emit(string);
//   - capacity after a growing append is never observed (every append that
//     may grow is followed by a clamp to cap == len), so aliasing is determined;
//   - at most one operation that may panic per statement, functions called
//     inside expressions are pure and total, so evaluation order (which Go
//     leaves partly unspecified) cannot be observed;
//   - no constant sub-expression that Go would fold (and reject on overflow):
//     every operator has a non-constant operand, literals are in range;
//   - every loop is bounded by construction.

type pvar struct {
	name string
	typ  string
	ro   bool // must not be assigned (loop counters)
	pure bool // func values: callable inside expressions
}

type pgen struct {
	rt      *rapid.T
	id      string
	decl    strings.Builder
	vars    []pvar
	marks   []int
	nname   int
	cats    map[string]bool
	pb      int // remaining may-panic operations in the current statement
	loops   []string
	inLoop  int
	budget  int
	hasS    bool // struct/interface declarations emitted
	hasVec  bool // array-range family declarations emitted
	nfun    int
	lbl     int
	inDefer int
}

var pIntTypes = []string{"int", "int8", "int16", "int32", "int64", "uint", "uint8", "uint16", "uint32", "uint64"}

func isIntT(t string) bool {
	for _, x := range pIntTypes {
		if x == t {
			return true
		}
	}
	return false
}

func (g *pgen) n(lo, hi int, label string) int { return rapid.IntRange(lo, hi).Draw(g.rt, label) }
func (g *pgen) chance(pct int) bool            { return g.n(0, 99, "pct") < pct }
func (g *pgen) cat(c string)                   { g.cats[c] = true }

func (g *pgen) fresh() string {
	g.nname++
	return "v" + strconv.Itoa(g.nname)
}

func (g *pgen) push() { g.marks = append(g.marks, len(g.vars)) }
func (g *pgen) pop() {
	g.vars = g.vars[:g.marks[len(g.marks)-1]]
	g.marks = g.marks[:len(g.marks)-1]
}

// visible variables of type t (innermost declaration of a name wins)
func (g *pgen) varsOf(pred func(pvar) bool) []pvar {
	seen := map[string]bool{}
	var out []pvar
	for i := len(g.vars) - 1; i >= 0; i-- {
		v := g.vars[i]
		if seen[v.name] {
			continue
		}
		seen[v.name] = true
		if pred(v) {
			out = append(out, v)
		}
	}
	sort.Slice(out, func(i, j int) bool { return out[i].name < out[j].name })
	return out
}

func (g *pgen) pickVar(pred func(pvar) bool, label string) (pvar, bool) {
	vs := g.varsOf(pred)
	if len(vs) == 0 {
		return pvar{}, false
	}
	return vs[g.n(0, len(vs)-1, label)], true
}

func (g *pgen) typed(t string) func(pvar) bool { return func(v pvar) bool { return v.typ == t } }
func (g *pgen) writable(t string) func(pvar) bool {
	return func(v pvar) bool { return v.typ == t && !v.ro }
}

// ---------- literals

func intRange(t string) (lo, hi int64, unsigned bool, bits int) {
	switch t {
	case "int8":
		return -128, 127, false, 8
	case "int16":
		return -32768, 32767, false, 16
	case "int32":
		return -2147483648, 2147483647, false, 32
	case "int64", "int":
		return -9223372036854775808, 9223372036854775807, false, 64
	case "uint8":
		return 0, 255, true, 8
	case "uint16":
		return 0, 65535, true, 16
	case "uint32":
		return 0, 4294967295, true, 32
	}
	return 0, 0, true, 64 // uint64, uint: hi handled separately
}

func (g *pgen) intLit(t string) string {
	lo, hi, uns, bits := intRange(t)
	k := g.n(0, 9, "litk")
	if uns && bits == 64 {
		switch k {
		case 0:
			return "18446744073709551615"
		case 1:
			return "9223372036854775808"
		case 2:
			return "0"
		default:
			return strconv.Itoa(g.n(0, 300, "lit"))
		}
	}
	var v int64
	switch k {
	case 0:
		v = lo
	case 1:
		v = hi
	case 2:
		v = 0
	case 3:
		v = hi - int64(g.n(0, 2, "d"))
	case 4:
		v = lo + int64(g.n(0, 2, "d"))
	case 5:
		v = int64(1) << uint(g.n(0, bits-2, "p"))
	default:
		v = int64(g.n(-20, 40, "lit"))
	}
	if v < lo {
		v = lo
	}
	if v > hi {
		v = hi
	}
	if v < 0 {
		return "(" + strconv.FormatInt(v, 10) + ")"
	}
	return strconv.FormatInt(v, 10)
}

var pStrLits = []string{`""`, `"a"`, `"b"`, `"ab"`, `"hello"`, `"\xff"`, `"é"`, `"世界"`, `"a\x00b"`, `"\xe4\xb8"`, `"zz"`, `"A"`, `"k1"`, `"\U0001F600"`}
var pFloatLits = []string{"0.5", "1.5", "(-2.25)", "1e10", "0.1", "3.0", "1e-3", "(-0.75)", "1e300", "2.5e-310", "7.0"}
var pMapKeys = []string{`"a"`, `"b"`, `"k1"`, `""`, `"é"`, `"zz"`}

// ---------- expressions

type pexpr struct {
	s     string
	konst bool
}

func (g *pgen) anyIntVar() (pvar, bool) {
	return g.pickVar(func(v pvar) bool { return isIntT(v.typ) }, "anyint")
}

// nonConstInt returns a non-constant expression of integer type t.
func (g *pgen) nonConstInt(t string, depth int) string {
	for i := 0; i < 4; i++ {
		e := g.intExpr(t, depth)
		if !e.konst {
			return e.s
		}
	}
	if v, ok := g.pickVar(g.typed(t), "ncv"); ok {
		return v.name
	}
	if v, ok := g.anyIntVar(); ok {
		return t + "(" + v.name + ")"
	}
	// no integer variable in scope at all: len of a fresh slice is not constant
	return t + "(len([]int{}))"
}

func (g *pgen) shiftCount() string {
	switch g.n(0, 5, "sck") {
	case 0:
		return strconv.Itoa(g.n(0, 66, "sc"))
	case 1, 2:
		if v, ok := g.pickVar(func(v pvar) bool { return isIntT(v.typ) && strings.HasPrefix(v.typ, "u") }, "scu"); ok {
			return "(" + v.name + " & " + strconv.Itoa(g.n(1, 127, "scm")) + ")"
		}
		return strconv.Itoa(g.n(0, 9, "sc"))
	case 3:
		if v, ok := g.pickVar(func(v pvar) bool { return isIntT(v.typ) && !strings.HasPrefix(v.typ, "u") }, "scs"); ok {
			if g.pb > 0 && g.chance(50) {
				g.pb--
				g.cat("panic-site")
				return v.name // may be negative: run-time panic
			}
			return "(" + v.name + " & 31)"
		}
		return strconv.Itoa(g.n(0, 9, "sc"))
	default:
		if v, ok := g.pickVar(func(v pvar) bool { return isIntT(v.typ) && strings.HasPrefix(v.typ, "u") }, "scu2"); ok {
			return v.name
		}
		return strconv.Itoa(g.n(0, 33, "sc"))
	}
}

func (g *pgen) intExpr(t string, depth int) pexpr {
	k := g.n(0, 19, "iek")
	if depth <= 0 && k >= 6 {
		k = k % 6
	}
	switch k {
	case 0, 1, 2:
		if v, ok := g.pickVar(g.typed(t), "iv"); ok {
			return pexpr{v.name, false}
		}
		if v, ok := g.anyIntVar(); ok {
			g.cat("conversion")
			return pexpr{t + "(" + v.name + ")", false}
		}
		return pexpr{g.intLit(t), true}
	case 3:
		return pexpr{g.intLit(t), true}
	case 4:
		// conversion from another integer type
		t2 := pIntTypes[g.n(0, len(pIntTypes)-1, "ct")]
		if t2 != t {
			g.cat("conversion")
			return pexpr{t + "(" + g.nonConstInt(t2, depth-1) + ")", false}
		}
		return pexpr{g.intLit(t), true}
	case 5:
		// len / cap of something
		if v, ok := g.pickVar(func(v pvar) bool {
			// (len of an array is a constant: not used here)
			return v.typ == "[]int" || v.typ == "string" || v.typ == "map[string]int" || v.typ == "[]byte"
		}, "lenv"); ok {
			fn := "len"
			if (v.typ == "[]int" || v.typ == "[]byte") && g.chance(30) {
				fn = "cap"
				g.cat("cap")
			}
			return pexpr{t + "(" + fn + "(" + v.name + "))", false}
		}
		return pexpr{g.intLit(t), true}
	case 6, 7, 8, 9:
		op := []string{"+", "-", "*", "&", "|", "^", "&^"}[g.n(0, 6, "bop")]
		l := g.nonConstInt(t, depth-1)
		r := g.intExpr(t, depth-1)
		g.cat("int-arith")
		return pexpr{"(" + l + " " + op + " " + r.s + ")", false}
	case 10, 11:
		op := []string{"/", "%"}[g.n(0, 1, "dop")]
		l := g.nonConstInt(t, depth-1)
		g.cat("int-div")
		switch g.n(0, 3, "divk") {
		case 0:
			lit := g.intLit(t)
			if lit == "0" {
				lit = "3"
			}
			return pexpr{"(" + l + " " + op + " " + lit + ")", false}
		case 1:
			if g.pb > 0 {
				g.pb--
				g.cat("panic-site")
				return pexpr{"(" + l + " " + op + " " + g.nonConstInt(t, depth-1) + ")", false}
			}
			fallthrough
		default:
			return pexpr{"(" + l + " " + op + " (" + g.nonConstInt(t, depth-1) + " | 1))", false}
		}
	case 12, 13:
		op := []string{"<<", ">>"}[g.n(0, 1, "sop")]
		g.cat("shift")
		return pexpr{"(" + g.nonConstInt(t, depth-1) + " " + op + " " + g.shiftCount() + ")", false}
	case 14:
		op := []string{"-", "^"}[g.n(0, 1, "uop")]
		g.cat("int-arith")
		return pexpr{"(" + op + g.nonConstInt(t, depth-1) + ")", false}
	case 15:
		// container reads (int-typed), converted to t
		return pexpr{g.containerRead(t, depth), false}
	case 16:
		// call of a pure function
		if v, ok := g.pickVar(func(v pvar) bool { return v.typ == "func(int) int" && v.pure }, "pf"); ok {
			g.cat("call")
			return pexpr{t + "(" + v.name + "(" + g.nonConstInt("int", depth-1) + "))", false}
		}
		return pexpr{g.nonConstInt(t, depth-1), false}
	case 17:
		// bool -> int through a tiny pure helper is not available in both; use len of a sliced string
		if v, ok := g.pickVar(g.typed("string"), "sv"); ok {
			return pexpr{t + "(len(" + v.name + "))", false}
		}
		return pexpr{g.intLit(t), true}
	default:
		return pexpr{g.nonConstInt(t, depth-1), false}
	}
}

// containerRead yields a non-constant expression of type t read out of a
// container variable; falls back to a plain variable expression.
func (g *pgen) containerRead(t string, depth int) string {
	conv := func(s string) string {
		if t == "int" {
			return s
		}
		g.cat("conversion")
		return t + "(" + s + ")"
	}
	cands := g.varsOf(func(v pvar) bool {
		switch v.typ {
		case "[4]int", "map[string]int", "*int", "S", "*S", "[]int", "string", "[]byte":
			return true
		}
		return false
	})
	if len(cands) == 0 {
		return g.nonConstInt(t, depth-1)
	}
	v := cands[g.n(0, len(cands)-1, "crv")]
	switch v.typ {
	case "[4]int":
		g.cat("array")
		return conv(v.name + "[" + g.nonConstInt("int", depth-1) + " & 3]")
	case "map[string]int":
		g.cat("map")
		return conv(v.name + "[" + pMapKeys[g.n(0, len(pMapKeys)-1, "mk")] + "]")
	case "*int":
		g.cat("pointer")
		return conv("*" + v.name)
	case "S":
		g.cat("struct")
		switch g.n(0, 2, "sf") {
		case 0:
			return conv(v.name + ".A")
		case 1:
			return conv("int(" + v.name + ".C[" + strconv.Itoa(g.n(0, 1, "ci")) + "])")
		default:
			g.cat("method")
			return conv(v.name + ".Sum()")
		}
	case "*S":
		g.cat("struct")
		g.cat("pointer")
		if g.chance(50) {
			return conv(v.name + ".A")
		}
		g.cat("method")
		return conv(v.name + ".Sum()")
	case "[]int", "string", "[]byte":
		if g.pb > 0 {
			g.pb--
			g.cat("panic-site")
			g.cat("index")
			idx := strconv.Itoa(g.n(0, 5, "ix"))
			if g.chance(40) {
				idx = g.nonConstInt("int", depth-1)
			}
			if v.typ == "[]int" {
				return conv(v.name + "[" + idx + "]")
			}
			return conv("int(" + v.name + "[" + idx + "])")
		}
	}
	return g.nonConstInt(t, depth-1)
}

func (g *pgen) floatExpr(depth int) pexpr {
	k := g.n(0, 9, "fek")
	if depth <= 0 && k >= 4 {
		k = k % 4
	}
	switch k {
	case 0, 1:
		if v, ok := g.pickVar(g.typed("float64"), "fv"); ok {
			return pexpr{v.name, false}
		}
		return pexpr{pFloatLits[g.n(0, len(pFloatLits)-1, "fl")], true}
	case 2:
		return pexpr{pFloatLits[g.n(0, len(pFloatLits)-1, "fl")], true}
	case 3:
		g.cat("conversion")
		return pexpr{"float64(" + g.nonConstInt(pIntTypes[g.n(0, len(pIntTypes)-1, "fit")], depth-1) + ")", false}
	case 4, 5, 6, 7:
		op := []string{"+", "-", "*", "/"}[g.n(0, 3, "fop")]
		l := g.nonConstFloat(depth - 1)
		r := g.floatExpr(depth - 1)
		if op == "/" && r.konst {
			r = pexpr{"4.0", true}
		}
		g.cat("float")
		return pexpr{"(" + l + " " + op + " " + r.s + ")", false}
	default:
		g.cat("float")
		return pexpr{"(-" + g.nonConstFloat(depth-1) + ")", false}
	}
}

func (g *pgen) nonConstFloat(depth int) string {
	if v, ok := g.pickVar(g.typed("float64"), "ncf"); ok && g.chance(60) {
		return v.name
	}
	e := g.floatExpr(depth)
	if !e.konst {
		return e.s
	}
	if v, ok := g.pickVar(g.typed("float64"), "ncf2"); ok {
		return v.name
	}
	return "float64(" + g.nonConstInt("int", 0) + ")"
}

func (g *pgen) strExpr(depth int) pexpr {
	k := g.n(0, 9, "sek")
	if depth <= 0 && k >= 4 {
		k = k % 4
	}
	switch k {
	case 0, 1:
		if v, ok := g.pickVar(g.typed("string"), "sv"); ok {
			return pexpr{v.name, false}
		}
		return pexpr{pStrLits[g.n(0, len(pStrLits)-1, "sl")], true}
	case 2:
		return pexpr{pStrLits[g.n(0, len(pStrLits)-1, "sl")], true}
	case 3:
		g.cat("conversion")
		return pexpr{"itoa(int64(" + g.nonConstInt(pIntTypes[g.n(0, 4, "sit")], depth-1) + "))", false}
	case 4, 5, 6:
		g.cat("string")
		return pexpr{"(" + g.nonConstStr(depth-1) + " + " + g.strExpr(depth-1).s + ")", false}
	case 7:
		g.cat("string")
		g.cat("conversion")
		return pexpr{"string(rune(" + strconv.Itoa(g.n(33, 0x4e20, "rb")) + " + (" + g.nonConstInt("int32", depth-1) + " & 15)))", false}
	case 8:
		if v, ok := g.pickVar(g.typed("[]byte"), "bsv"); ok {
			g.cat("conversion")
			return pexpr{"string(" + v.name + ")", false}
		}
		return pexpr{g.nonConstStr(depth - 1), false}
	default:
		if g.pb > 0 {
			if v, ok := g.pickVar(g.typed("string"), "ssv"); ok {
				g.pb--
				g.cat("panic-site")
				g.cat("string")
				a, b := g.n(0, 3, "sa"), g.n(0, 6, "sb")
				if g.chance(50) {
					return pexpr{v.name + "[" + strconv.Itoa(a) + ":]", false}
				}
				if b < a {
					a, b = b, a
				}
				return pexpr{v.name + "[" + strconv.Itoa(a) + ":" + strconv.Itoa(b) + "]", false}
			}
		}
		return pexpr{g.nonConstStr(depth - 1), false}
	}
}

func (g *pgen) nonConstStr(depth int) string {
	if v, ok := g.pickVar(g.typed("string"), "ncs"); ok && g.chance(60) {
		return v.name
	}
	e := g.strExpr(depth)
	if !e.konst {
		return e.s
	}
	if v, ok := g.pickVar(g.typed("string"), "ncs2"); ok {
		return v.name
	}
	return "itoa(int64(" + g.nonConstInt("int", 0) + "))"
}

func (g *pgen) boolExpr(depth int) string {
	k := g.n(0, 9, "bek")
	if depth <= 0 && k >= 6 {
		k = k % 6
	}
	cmp := []string{"==", "!=", "<", "<=", ">", ">="}[g.n(0, 5, "cmp")]
	switch k {
	case 0, 1, 2:
		t := pIntTypes[g.n(0, len(pIntTypes)-1, "bt")]
		if v, ok := g.anyIntVar(); ok && g.chance(70) {
			t = v.typ
		}
		g.cat("compare")
		return "(" + g.nonConstInt(t, depth-1) + " " + cmp + " " + g.intExpr(t, depth-1).s + ")"
	case 3:
		g.cat("compare")
		g.cat("string")
		return "(" + g.nonConstStr(depth-1) + " " + cmp + " " + g.strExpr(depth-1).s + ")"
	case 4:
		g.cat("compare")
		g.cat("float")
		return "(" + g.nonConstFloat(depth-1) + " " + cmp + " " + g.floatExpr(depth-1).s + ")"
	case 5:
		if v, ok := g.pickVar(g.typed("bool"), "bv"); ok {
			return v.name
		}
		return "(" + g.nonConstInt("int", depth-1) + " " + cmp + " 3)"
	case 6, 7:
		op := []string{"&&", "||"}[g.n(0, 1, "lop")]
		g.cat("logic")
		return "(" + g.boolExpr(depth-1) + " " + op + " " + g.boolExpr(depth-1) + ")"
	case 8:
		g.cat("logic")
		return "(!" + g.boolExpr(depth-1) + ")"
	default:
		// comma-ok free membership test through len of map lookup is not expressible; compare arrays/structs
		if v, ok := g.pickVar(g.typed("[4]int"), "av"); ok {
			if w, ok2 := g.pickVar(g.typed("[4]int"), "aw"); ok2 {
				g.cat("array")
				g.cat("compare")
				return "(" + v.name + " == " + w.name + ")"
			}
		}
		if v, ok := g.pickVar(g.typed("S"), "stv"); ok {
			if w, ok2 := g.pickVar(g.typed("S"), "stw"); ok2 {
				g.cat("struct")
				g.cat("compare")
				return "(" + v.name + " != " + w.name + ")"
			}
		}
		return "(" + g.nonConstInt("int", depth-1) + " " + cmp + " 0)"
	}
}

// exprOf renders an expression of a scalar type.
func (g *pgen) exprOf(t string, depth int) string {
	switch t {
	case "bool":
		return g.boolExpr(depth)
	case "string":
		return g.strExpr(depth).s
	case "float64":
		return g.floatExpr(depth).s
	}
	return g.intExpr(t, depth).s
}

// show renders the emit-able string form of variable v ("" when it has none).
func (g *pgen) show(v pvar) string {
	switch v.typ {
	case "bool":
		return "btoa(" + v.name + ")"
	case "string":
		return "hexs(" + v.name + ")"
	case "float64":
		return "fbits(" + v.name + ")"
	case "[]int":
		return "ints(" + v.name + ")"
	case "[]byte":
		return "bytesS(" + v.name + ")"
	case "[4]int":
		return "ints(" + v.name + "[:])"
	case "map[string]int":
		return "mapSI(" + v.name + ")"
	case "*int":
		return "itoa(int64(*" + v.name + "))"
	case "S":
		return "showS" + g.id + "(" + v.name + ")"
	case "*S":
		return "showS" + g.id + "(*" + v.name + ")"
	case "any":
		return "anyS(" + v.name + ")"
	}
	if isIntT(v.typ) {
		if strings.HasPrefix(v.typ, "u") {
			return "utoa(uint64(" + v.name + "))"
		}
		return "itoa(int64(" + v.name + "))"
	}
	return ""
}

func goType(t, id string) string {
	switch t {
	case "S":
		return "S" + id
	case "*S":
		return "*S" + id
	case "any":
		return "interface{}"
	}
	return t
}

// ---------- statements

type pout struct {
	sb  *strings.Builder
	ind int
}

func (o *pout) line(format string, a ...any) {
	o.sb.WriteString(strings.Repeat("\t", o.ind))
	fmt.Fprintf(o.sb, format, a...)
	o.sb.WriteByte('\n')
}

func (g *pgen) declare(o *pout, name, typ string) {
	g.vars = append(g.vars, pvar{name: name, typ: typ})
	o.line("_ = %s", name)
}

func (g *pgen) emitVar(o *pout, v pvar) {
	if s := g.show(v); s != "" {
		o.line("emit(%q + %s)", v.name+"=", s)
	}
}

func (g *pgen) needStruct() {
	if g.hasS {
		return
	}
	g.hasS = true
	id := g.id
	fmt.Fprintf(&g.decl, `
type S%[1]s struct {
	A int
	B string
	C [2]int8
	F float64
}

func (s S%[1]s) Sum() int { return s.A + int(s.C[0]) + len(s.B) }

func (s *S%[1]s) Inc(d int) {
	s.A += d
	s.C[1]++
}

func showS%[1]s(s S%[1]s) string {
	return "{" + itoa(int64(s.A)) + " " + hexs(s.B) + " " + itoa(int64(s.C[0])) + "," + itoa(int64(s.C[1])) + " " + fbits(s.F) + "}"
}

type I%[1]s interface{ Sum() int }

type T%[1]s int

func (t T%[1]s) Sum() int { return int(t) * 2 }

type Q%[1]s struct{ n int }

func (q *Q%[1]s) Sum() int { q.n++; return q.n }

type E%[1]s struct {
	S%[1]s
	N int
}
`, id)
}

// newVarStmt declares a new variable of a random type with an initializer.
func (g *pgen) newVarStmt(o *pout) {
	name := g.fresh()
	if g.chance(6) {
		// shadow an existing scalar name in an inner block
		if len(g.marks) > 1 {
			// only names declared in an enclosing block (same-block redeclaration is an error)
			outer := map[string]bool{}
			for _, v := range g.vars[:g.marks[len(g.marks)-1]] {
				outer[v.name] = true
			}
			for _, v := range g.vars[g.marks[len(g.marks)-1]:] {
				delete(outer, v.name)
			}
			if v, ok := g.pickVar(func(v pvar) bool { return isIntT(v.typ) && !v.ro && outer[v.name] }, "shadow"); ok {
				name = v.name
				g.cat("shadowing")
				// the initializer may mention the outer variable of the same name: legal in both
			}
		}
	}
	switch g.n(0, 13, "nvk") {
	case 0, 1, 2, 3, 4:
		t := pIntTypes[g.n(0, len(pIntTypes)-1, "nvt")]
		o.line("var %s %s = %s", name, t, g.intExpr(t, 2).s)
		g.declare(o, name, t)
	case 5:
		o.line("var %s float64 = %s", name, g.floatExpr(2).s)
		g.declare(o, name, "float64")
	case 6:
		o.line("var %s string = %s", name, g.strExpr(2).s)
		g.declare(o, name, "string")
	case 7:
		o.line("%s := %s", name, g.boolExpr(2))
		g.declare(o, name, "bool")
	case 8:
		g.cat("slice")
		switch g.n(0, 3, "slk") {
		case 0:
			o.line("%s := []int{%s, %s, %s}", name, g.intExpr("int", 1).s, g.intExpr("int", 1).s, g.intExpr("int", 1).s)
		case 1:
			o.line("%s := make([]int, %d, %d)", name, g.n(0, 3, "ml"), g.n(3, 8, "mc"))
		case 2:
			o.line("var %s []int", name)
		default:
			if v, ok := g.pickVar(g.typed("[4]int"), "arrsl"); ok {
				g.cat("array")
				a := g.n(0, 2, "a")
				o.line("%s := %s[%d:%d]", name, v.name, a, g.n(a, 4, "b"))
			} else {
				o.line("%s := []int{7, 8}", name)
			}
		}
		g.declare(o, name, "[]int")
	case 9:
		g.cat("array")
		o.line("%s := [4]int{%s, %s}", name, g.intExpr("int", 1).s, g.intExpr("int", 1).s)
		g.declare(o, name, "[4]int")
	case 10:
		g.cat("map")
		if g.chance(15) {
			o.line("var %s map[string]int", name)
		} else {
			o.line("%s := map[string]int{\"a\": %s, \"k1\": %s}", name, g.intExpr("int", 1).s, g.intExpr("int", 1).s)
		}
		g.declare(o, name, "map[string]int")
	case 11:
		g.cat("pointer")
		if v, ok := g.pickVar(g.writable("int"), "ptrto"); ok {
			o.line("%s := &%s", name, v.name)
		} else {
			o.line("%s := new(int)", name)
		}
		g.declare(o, name, "*int")
	case 12:
		g.needStruct()
		g.cat("struct")
		if v, ok := g.pickVar(g.writable("S"), "sptr"); ok && g.chance(50) {
			g.cat("pointer")
			o.line("%s := &%s", name, v.name)
			g.declare(o, name, "*S")
		} else {
			o.line("%s := S%s{A: %s, B: %s, C: [2]int8{%s, 1}}", name, g.id, g.intExpr("int", 1).s, g.strExpr(1).s, g.intExpr("int8", 0).s)
			g.declare(o, name, "S")
		}
	default:
		g.cat("string")
		g.cat("conversion")
		// string -> []byte: capacity is normalised before it can be observed
		o.line("%s := []byte(%s)", name, g.strExpr(1).s)
		o.line("%s = %s[:len(%s):len(%s)]", name, name, name, name)
		g.declare(o, name, "[]byte")
	}
}

func (g *pgen) assignStmt(o *pout) {
	v, ok := g.pickVar(func(v pvar) bool {
		// strings are not grown inside loops (s += s doubles per iteration)
		return !v.ro && (isIntT(v.typ) || (v.typ == "string" && g.inLoop == 0) || v.typ == "float64" || v.typ == "bool")
	}, "asv")
	if !ok {
		g.newVarStmt(o)
		return
	}
	g.cat("assign")
	switch {
	case isIntT(v.typ):
		switch g.n(0, 5, "ak") {
		case 0, 1:
			o.line("%s = %s", v.name, g.intExpr(v.typ, 3).s)
		case 2:
			op := []string{"+=", "-=", "*=", "&=", "|=", "^=", "&^="}[g.n(0, 6, "aop")]
			o.line("%s %s %s", v.name, op, g.intExpr(v.typ, 2).s)
		case 3:
			op := []string{"<<=", ">>="}[g.n(0, 1, "sop")]
			g.cat("shift")
			o.line("%s %s %s", v.name, op, g.shiftCount())
		case 4:
			o.line("%s%s", v.name, []string{"++", "--"}[g.n(0, 1, "inc")])
		default:
			g.cat("int-div")
			o.line("%s %s (%s | 1)", v.name, []string{"/=", "%="}[g.n(0, 1, "dop")], g.nonConstInt(v.typ, 1))
		}
	case v.typ == "string":
		if g.chance(50) {
			o.line("%s += %s", v.name, g.strExpr(2).s)
		} else {
			o.line("%s = %s", v.name, g.strExpr(3).s)
		}
	case v.typ == "float64":
		if g.chance(50) {
			o.line("%s %s %s", v.name, []string{"+=", "-=", "*="}[g.n(0, 2, "fop")], g.floatExpr(2).s)
		} else {
			o.line("%s = %s", v.name, g.floatExpr(3).s)
		}
	default:
		o.line("%s = %s", v.name, g.boolExpr(2))
	}
	// swap of two same-typed variables (assignment order is specified)
	if g.chance(10) {
		if a, ok := g.pickVar(g.writable(v.typ), "swa"); ok && a.name != v.name && !v.ro {
			o.line("%s, %s = %s, %s", v.name, a.name, a.name, v.name)
		}
	}
}

func (g *pgen) emitStmt(o *pout) {
	t := []string{"int", "int8", "int16", "int32", "int64", "uint", "uint8", "uint16", "uint32", "uint64", "string", "float64", "bool"}[g.n(0, 12, "et")]
	if v, ok := g.pickVar(func(v pvar) bool { return g.show(v) != "" }, "ev"); ok && g.chance(35) {
		g.emitVar(o, v)
		return
	}
	e := g.exprOf(t, 3)
	switch {
	case t == "bool":
		o.line("emit(btoa(%s))", e)
	case t == "string":
		o.line("emit(hexs(%s))", e)
	case t == "float64":
		o.line("emit(fbits(%s))", e)
	case strings.HasPrefix(t, "u"):
		o.line("emit(utoa(uint64(%s)))", e)
	default:
		o.line("emit(itoa(int64(%s)))", e)
	}
}

// block renders n statements in a new scope.
func (g *pgen) block(o *pout, n, depth int) { g.blockWith(o, n, depth, nil, nil) }

// blockWith also runs pre/post inside the same scope (and the same braces).
func (g *pgen) blockWith(o *pout, n, depth int, pre, post func()) {
	g.push()
	start := len(g.vars)
	o.ind++
	if pre != nil {
		pre()
	}
	for i := 0; i < n && g.budget > 0; i++ {
		g.stmt(o, depth)
	}
	if g.inLoop == 0 && g.chance(60) {
		for _, v := range g.vars[start:] {
			if g.chance(50) {
				g.emitVar(o, v)
			}
		}
	}
	if post != nil {
		post()
	}
	o.ind--
	g.pop()
}

func (g *pgen) ifStmt(o *pout, depth int) {
	g.cat("if")
	o.line("if %s {", g.boolExpr(2))
	g.block(o, g.n(1, 3, "ifn"), depth-1)
	for g.chance(25) {
		o.line("} else if %s {", g.boolExpr(2))
		g.block(o, g.n(1, 2, "ifn"), depth-1)
	}
	if g.chance(50) {
		o.line("} else {")
		g.block(o, g.n(1, 3, "ifn"), depth-1)
	}
	o.line("}")
}

func (g *pgen) loopCtl(o *pout) {
	// conditional break/continue, possibly labelled to an outer loop
	if len(g.loops) == 0 || !g.chance(45) {
		return
	}
	kw := []string{"break", "continue"}[g.n(0, 1, "kw")]
	target := ""
	if g.chance(50) {
		l := g.loops[g.n(0, len(g.loops)-1, "lt")]
		if l != "" {
			target = " " + l
			g.cat("labelled-" + kw)
		}
	}
	g.cat(kw)
	o.line("if %s {", g.boolExpr(1))
	o.ind++
	o.line("emit(%q)", kw+target)
	o.line("%s%s", kw, target)
	o.ind--
	o.line("}")
}

func (g *pgen) forStmt(o *pout, depth int) {
	if g.inLoop >= 2 {
		g.emitStmt(o)
		return
	}
	g.cat("for")
	label := ""
	if g.chance(50) {
		g.lbl++
		label = "L" + strconv.Itoa(g.lbl)
	}
	i := g.fresh()
	n := g.n(1, 5, "forn")
	var hdr string
	switch g.n(0, 3, "fork") {
	case 0:
		hdr = fmt.Sprintf("for %s := 0; %s < %d; %s++ {", i, i, n, i)
	case 1:
		hdr = fmt.Sprintf("for %s := %d; %s > 0; %s-- {", i, n, i, i)
	case 2:
		hdr = fmt.Sprintf("for %s := 0; %s < %d; %s += 2 {", i, i, 2*n, i)
	default:
		hdr = fmt.Sprintf("for %s := 1; %s < %d; %s *= 3 {", i, i, 100*n, i)
	}
	// a label must be used: decide now whether the body will reference it
	g.loops = append(g.loops, label)
	g.inLoop++
	g.push()
	g.vars = append(g.vars, pvar{name: i, typ: "int", ro: true})
	var body strings.Builder
	bo := &pout{&body, o.ind}
	g.blockWith(bo, g.n(1, 3, "forb"), depth-1, func() {
		if g.chance(50) {
			g.loopCtl(bo)
		}
	}, func() { g.loopCtl(bo) })
	g.pop()
	g.inLoop--
	g.loops = g.loops[:len(g.loops)-1]
	used := label != "" && (strings.Contains(body.String(), "break "+label+"\n") || strings.Contains(body.String(), "continue "+label+"\n"))
	if label != "" && used {
		o.line("%s:", label)
	}
	// an unused label would not compile: it is simply not written
	o.line("%s", hdr)
	o.sb.WriteString(body.String())
	o.line("}")
}

func (g *pgen) rangeStmt(o *pout, depth int) {
	if g.inLoop >= 2 {
		g.emitStmt(o)
		return
	}
	v, ok := g.pickVar(func(v pvar) bool {
		return v.typ == "[]int" || v.typ == "[4]int" || v.typ == "string" || v.typ == "map[string]int" || v.typ == "[]byte"
	}, "rv")
	if !ok {
		g.newVarStmt(o)
		return
	}
	g.cat("range")
	if v.typ == "map[string]int" {
		// only order-independent accumulation over a map
		g.cat("map")
		acc, cnt := g.fresh(), g.fresh()
		o.line("%s, %s := 0, 0", acc, cnt)
		k, x := g.fresh(), g.fresh()
		o.line("for %s, %s := range %s {", k, x, v.name)
		o.line("\t%s += %s ^ len(%s)", acc, x, k)
		o.line("\t%s++", cnt)
		o.line("}")
		o.line("emit(%q + itoa(int64(%s)) + \"/\" + itoa(int64(%s)))", "mapsum=", acc, cnt)
		return
	}
	k, x := g.fresh(), g.fresh()
	elemT := "int"
	switch v.typ {
	case "string":
		elemT = "int32"
		g.cat("string")
	case "[]byte":
		elemT = "uint8"
	case "[4]int":
		g.cat("array")
	default:
		g.cat("slice")
	}
	g.loops = append(g.loops, "")
	g.inLoop++
	g.push()
	switch g.n(0, 2, "rk") {
	case 0:
		o.line("for %s, %s := range %s {", k, x, v.name)
		g.vars = append(g.vars, pvar{name: k, typ: "int", ro: true}, pvar{name: x, typ: elemT, ro: true})
		o.line("\t_, _ = %s, %s", k, x)
	case 1:
		o.line("for _, %s := range %s {", x, v.name)
		g.vars = append(g.vars, pvar{name: x, typ: elemT, ro: true})
		o.line("\t_ = %s", x)
	default:
		o.line("for %s := range %s {", k, v.name)
		g.vars = append(g.vars, pvar{name: k, typ: "int", ro: true})
		o.line("\t_ = %s", k)
	}
	// the range expression is evaluated once: the body may change the container
	g.blockWith(o, g.n(1, 3, "rb"), depth-1, nil, func() { g.loopCtl(o) })
	g.pop()
	g.inLoop--
	g.loops = g.loops[:len(g.loops)-1]
	o.line("}")
}

func (g *pgen) switchStmt(o *pout, depth int) {
	g.cat("switch")
	ncase := g.n(1, 4, "ncase")
	defAt := -1
	if g.chance(70) {
		defAt = g.n(0, ncase, "defat")
	}
	kind := g.n(0, 2, "swk")
	used := map[string]bool{}
	caseExpr := func() string {
		switch kind {
		case 0:
			for {
				c := strconv.Itoa(g.n(-3, 8, "cv"))
				if !used[c] {
					used[c] = true
					return c
				}
			}
		case 1:
			for {
				c := pStrLits[g.n(0, len(pStrLits)-1, "cs")]
				if !used[c] {
					used[c] = true
					return c
				}
			}
		}
		return g.boolExpr(1)
	}
	switch kind {
	case 0:
		o.line("switch %s %% 5 {", g.nonConstInt("int", 2))
	case 1:
		g.cat("string")
		o.line("switch %s {", g.nonConstStr(1))
	default:
		o.line("switch {")
	}
	total := ncase
	if defAt >= 0 {
		total++
	}
	ci := 0
	for idx := 0; idx < total; idx++ {
		if idx == defAt {
			o.line("default:")
		} else {
			if kind != 2 && g.chance(25) && ci+1 < ncase {
				o.line("case %s, %s:", caseExpr(), caseExpr())
			} else {
				o.line("case %s:", caseExpr())
			}
			ci++
		}
		last := idx == total-1
		g.blockWith(o, g.n(0, 2, "cb"), depth-1, func() {
			o.line("emit(%q)", "case"+strconv.Itoa(idx))
		}, func() {
			if g.chance(15) {
				// break leaves the switch only (also inside a loop)
				g.cat("switch-break")
				o.line("if %s {", g.boolExpr(1))
				o.line("\tbreak")
				o.line("}")
				o.line("emit(%q)", "nobreak")
			}
			if !last && g.chance(30) {
				g.cat("fallthrough")
				o.line("fallthrough")
			}
		})
	}
	o.line("}")
}

func (g *pgen) sliceStmt(o *pout) {
	v, ok := g.pickVar(g.writable("[]int"), "slv")
	if !ok {
		name := g.fresh()
		g.cat("slice")
		o.line("%s := make([]int, %d, %d)", name, g.n(0, 3, "ml"), g.n(3, 8, "mc"))
		g.declare(o, name, "[]int")
		return
	}
	g.cat("slice")
	switch g.n(0, 12, "slk") {
	case 11, 12:
		// overlapping copy inside one backing array, both directions (memmove semantics),
		// also through two different slices of the same array
		g.cat("copy")
		a := g.fresh()
		o.line("%s := []int{%s, 2, 3, 4, %s, 6}", a, g.intExpr("int", 0).s, g.intExpr("int", 0).s)
		g.declare(o, a, "[]int")
		k := g.n(1, 3, "ok")
		switch g.n(0, 2, "od") {
		case 0:
			o.line("emit(%q + itoa(int64(copy(%s[%d:], %s))) + ints(%s))", "overlap-fwd=", a, k, a, a)
		case 1:
			o.line("emit(%q + itoa(int64(copy(%s, %s[%d:]))) + ints(%s))", "overlap-back=", a, a, k, a)
		default:
			b := g.fresh()
			o.line("%s := %s[%d:5]", b, a, k)
			o.line("emit(%q + itoa(int64(copy(%s, %s[:4]))) + ints(%s))", "overlap-two=", b, a, a)
		}
	case 9, 10:
		// append around the capacity boundary of a fresh slice: one short of, exactly at, one
		// past the capacity; observed through aliasing with the original and cap equality
		g.cat("append")
		l, c := g.n(0, 3, "fl"), g.n(3, 6, "fc")
		a, b := g.fresh(), g.fresh()
		o.line("%s := make([]int, %d, %d)", a, l, c)
		g.declare(o, a, "[]int")
		k := c - l + g.n(-1, 1, "fd")
		if k < 1 {
			k = 1
		}
		var args []string
		for i := 0; i < k; i++ {
			args = append(args, g.intExpr("int", 0).s)
		}
		o.line("%s := append(%s, %s)", b, a, strings.Join(args, ", "))
		o.line("if cap(%s) != cap(%s) {", b, a)
		o.line("\t%s = %s[:len(%s):len(%s)]", b, b, b, b)
		o.line("}")
		g.declare(o, b, "[]int")
		o.line("if len(%s) > 0 {", b)
		o.line("\t%s[0] = 99", b)
		o.line("}")
		o.line("emit(%q + ints(%s[:cap(%s)]) + ints(%s) + btoa(cap(%s) == cap(%s)))", "boundary=", a, a, b, a, b)
	case 0, 1, 2:
		// append in place or growing; capacity after growth is clamped so that it is never observed
		g.cat("append")
		dst := v.name
		if g.chance(35) {
			dst = g.fresh()
			o.line("var %s []int", dst)
			g.declare(o, dst, "[]int")
		}
		before := g.fresh()
		o.line("%s := cap(%s)", before, v.name)
		args := g.intExpr("int", 1).s
		for g.chance(40) {
			args += ", " + g.intExpr("int", 1).s
		}
		if w, ok := g.pickVar(g.typed("[]int"), "spread"); ok && g.inLoop == 0 && g.chance(25) {
			args = w.name + "..."
		}
		o.line("%s = append(%s, %s)", dst, v.name, args)
		o.line("if cap(%s) != %s {", dst, before)
		o.line("\t%s = %s[:len(%s):len(%s)]", dst, dst, dst, dst)
		o.line("}")
	case 3:
		// re-slice within bounds known at run time
		g.cat("reslice")
		dst := g.fresh()
		switch g.n(0, 3, "rsk") {
		case 0:
			o.line("%s := %s[len(%s)/2:]", dst, v.name, v.name)
		case 1:
			o.line("%s := %s[:len(%s)/2]", dst, v.name, v.name)
		case 2:
			o.line("%s := %s[:cap(%s)]", dst, v.name, v.name)
		default:
			o.line("%s := %s[len(%s)/3 : len(%s) : len(%s)]", dst, v.name, v.name, v.name, v.name)
		}
		g.declare(o, dst, "[]int")
	case 4:
		if w, ok := g.pickVar(g.typed("[]int"), "cpw"); ok {
			g.cat("copy")
			o.line("emit(%q + itoa(int64(copy(%s, %s))))", "copied=", v.name, w.name)
		} else {
			o.line("emit(%q + itoa(int64(copy(%s, []int{9, 8, 7}))))", "copied=", v.name)
		}
	case 5:
		// overlapping copy inside one slice
		g.cat("copy")
		o.line("if len(%s) > 1 {", v.name)
		if g.chance(50) {
			o.line("\tcopy(%s[1:], %s)", v.name, v.name)
		} else {
			o.line("\tcopy(%s, %s[1:])", v.name, v.name)
		}
		o.line("}")
	case 6:
		g.cat("index")
		o.line("if len(%s) > 0 {", v.name)
		i := g.fresh()
		o.line("\t%s := int(uint(%s) %% uint(len(%s)))", i, g.nonConstInt("int", 1), v.name)
		o.line("\t%s[%s] = %s", v.name, i, g.intExpr("int", 2).s)
		o.line("\temit(itoa(int64(%s[%s])))", v.name, i)
		o.line("}")
	case 7:
		if g.pb > 0 {
			g.pb--
			g.cat("panic-site")
			g.cat("index")
			if g.chance(50) {
				o.line("%s[%d] = %s", v.name, g.n(0, 6, "ui"), g.intExpr("int", 1).s)
			} else {
				a := g.n(0, 4, "ua")
				o.line("%s = %s[%d:%d]", v.name, v.name, a, g.n(a, 7, "ub"))
			}
		} else {
			o.line("%s = %s[:0]", v.name, v.name)
		}
	default:
		o.line("emit(%q + ints(%s) + \" \" + itoa(int64(len(%s))) + \"/\" + itoa(int64(cap(%s))))", v.name+"=", v.name, v.name, v.name)
	}
}

func (g *pgen) arrayStmt(o *pout) {
	v, ok := g.pickVar(g.writable("[4]int"), "arv")
	if !ok {
		g.newVarStmt(o)
		return
	}
	g.cat("array")
	switch g.n(0, 3, "ark") {
	case 0:
		o.line("%s[%s & 3] = %s", v.name, g.nonConstInt("int", 1), g.intExpr("int", 2).s)
	case 1:
		// arrays are values: the copy does not follow later writes
		c := g.fresh()
		o.line("%s := %s", c, v.name)
		g.declare(o, c, "[4]int")
		o.line("%s[1] = %s", v.name, g.intExpr("int", 1).s)
		o.line("emit(%q + ints(%s[:]) + ints(%s[:]))", "arrcopy=", c, v.name)
	case 2:
		// range over an array evaluates a copy
		x := g.fresh()
		o.line("for _, %s := range %s {", x, v.name)
		o.line("\t%s[3] = %s + 1", v.name, x)
		o.line("}")
	default:
		if g.pb > 0 {
			g.pb--
			g.cat("panic-site")
			g.cat("index")
			o.line("%s[%s] = 1", v.name, g.nonConstInt("int", 1))
		} else {
			g.emitVar(o, v)
		}
	}
}

func (g *pgen) mapStmt(o *pout) {
	v, ok := g.pickVar(g.typed("map[string]int"), "mpv")
	if !ok {
		name := g.fresh()
		g.cat("map")
		o.line("%s := map[string]int{}", name)
		g.declare(o, name, "map[string]int")
		return
	}
	g.cat("map")
	key := pMapKeys[g.n(0, len(pMapKeys)-1, "mk")]
	if g.chance(25) {
		key = g.strExpr(1).s
	}
	switch g.n(0, 5, "mpk") {
	case 0, 1:
		// writing to a nil map panics: that is the one allowed panic of the statement
		o.line("if %s != nil {", v.name)
		o.line("\t%s[%s] = %s", v.name, key, g.intExpr("int", 2).s)
		o.line("}")
	case 2:
		o.line("delete(%s, %s)", v.name, key)
	case 3:
		x, okv := g.fresh(), g.fresh()
		o.line("%s, %s := %s[%s]", x, okv, v.name, key)
		g.declare(o, x, "int")
		g.declare(o, okv, "bool")
		o.line("emit(%q + itoa(int64(%s)) + btoa(%s))", "lookup=", x, okv)
	case 4:
		if g.pb > 0 {
			g.pb--
			g.cat("panic-site")
			o.line("%s[%s] += %s", v.name, key, g.intExpr("int", 1).s)
		} else {
			o.line("emit(%q + itoa(int64(len(%s))))", "maplen=", v.name)
		}
	default:
		g.emitVar(o, v)
	}
}

func (g *pgen) structStmt(o *pout) {
	g.needStruct()
	g.cat("struct")
	v, ok := g.pickVar(func(v pvar) bool { return (v.typ == "S" || v.typ == "*S") && !v.ro }, "stv")
	if !ok {
		name := g.fresh()
		o.line("%s := S%s{A: %s, B: %s}", name, g.id, g.intExpr("int", 1).s, g.strExpr(1).s)
		g.declare(o, name, "S")
		return
	}
	switch g.n(0, 7, "stk") {
	case 0:
		o.line("%s.A = %s", v.name, g.intExpr("int", 2).s)
	case 1:
		o.line("%s.C[%d] += %s", v.name, g.n(0, 1, "ci"), g.intExpr("int8", 1).s)
	case 2:
		g.cat("method")
		// pointer-receiver method on an addressable value or a pointer
		o.line("%s.Inc(%s)", v.name, g.intExpr("int", 1).s)
	case 3:
		// struct copy is a value copy
		c := g.fresh()
		if v.typ == "S" {
			o.line("%s := %s", c, v.name)
		} else {
			o.line("%s := *%s", c, v.name)
			g.cat("pointer")
		}
		g.declare(o, c, "S")
		o.line("%s.B += \"!\"", c)
	case 4:
		g.cat("method")
		// method value binds a copy of a value receiver
		f := g.fresh()
		o.line("%s := %s.Sum", f, v.name)
		o.line("%s.A += 100", v.name)
		o.line("emit(%q + itoa(int64(%s())) + \" \" + itoa(int64(%s.Sum())))", "methodvalue=", f, v.name)
	case 5:
		g.cat("method")
		g.cat("interface")
		iv := g.fresh()
		if v.typ == "S" {
			o.line("var %s I%s = %s", iv, g.id, v.name)
		} else {
			o.line("var %s I%s = %s", iv, g.id, v.name)
		}
		o.line("emit(%q + itoa(int64(%s.Sum())))", "iface=", iv)
	case 6:
		g.cat("embedding")
		e := g.fresh()
		if v.typ == "S" {
			o.line("%s := E%s{S%s: %s, N: 2}", e, g.id, g.id, v.name)
		} else {
			o.line("%s := E%s{S%s: *%s, N: 2}", e, g.id, g.id, v.name)
		}
		o.line("%s.Inc(3)", e)
		o.line("%s.A++", e)
		o.line("emit(%q + itoa(int64(%s.Sum())) + showS%s(%s.S%s))", "embedded=", e, g.id, e, g.id)
	default:
		g.emitVar(o, v)
	}
}

// needVec declares the array types of the array-range family: declared array
// types next to the unnamed ones, a named matrix, a matrix of named rows and
// a struct with array fields of both kinds.
func (g *pgen) needVec() {
	if g.hasVec {
		return
	}
	g.hasVec = true
	fmt.Fprintf(&g.decl, `
type Vec%[1]s [5]int

type Dig%[1]s [4]byte

type Grid%[1]s [3][3]int

type Row%[1]s [3]int

type GridN%[1]s [3]Row%[1]s

type Box%[1]s struct {
	V   Vec%[1]s
	U   [5]int
	D   Dig%[1]s
	Tag string
}
`, g.id)
}

// arrRangeStmt: `for i, v := range x` over an ARRAY VALUE evaluates (copies) x
// once, so writes to x inside the body - ahead of or behind the loop index -
// are not seen through v; ranging over a slice of the same array, over a
// pointer to it, or with the key only, does see them. Operands: variables of
// declared and unnamed array types (int and byte elements), struct fields,
// parameters, rows of matrices.
func (g *pgen) arrRangeStmt(o *pout) {
	g.needVec()
	g.cat("array")
	g.cat("range")
	g.cat("array-range")
	id := g.id
	small := func(label string) string { return strconv.Itoa(g.n(-9, 40, label)) }
	if g.n(0, 4, "arm") == 0 {
		// matrices: the whole matrix is copied, rows written ahead are not seen
		g.cat("array-range-matrix")
		typ := []string{"Grid" + id, "GridN" + id, "[3][3]int", "[3]Row" + id}[g.n(0, 3, "mt")]
		m, i, row := g.fresh(), g.fresh(), g.fresh()
		o.line("%s := %s{{%s, 2, 3}, {4, %s, 6}, {7, 8, %s}}", m, typ, small("m0"), small("m1"), small("m2"))
		operand := []string{m, m, m + "[:]", "&" + m}[g.n(0, 3, "mop")]
		g.cat("array-range-" + map[bool]string{true: "snapshot", false: "live"}[operand == m])
		o.line("for %s, %s := range %s {", i, row, operand)
		o.line("\tif %s+1 < 3 {", i)
		o.line("\t\t%s[%s+1][0] += %s[0] + 10", m, i, row)
		o.line("\t\t%s[%s+1][2] = %s[1]", m, i, row)
		o.line("\t}")
		o.line("\tif %s > 0 {", i)
		o.line("\t\t%s[%s-1][1] = %s[2] * 2", m, i, row)
		o.line("\t}")
		o.line("\temit(%q + itoa(int64(%s)) + ints(%s[:]))", "row ", i, row)
		o.line("}")
		o.line("emit(%q + ints(%s[0][:]) + ints(%s[1][:]) + ints(%s[2][:]))", "matrix=", m, m, m)
		return
	}
	// one-dimensional arrays
	type opnd struct {
		decl  []string // statements before the loop
		x     string   // the array lvalue the body writes to
		n     int
		byteE bool
		named bool
	}
	a := g.fresh()
	var op opnd
	switch g.n(0, 6, "aro") {
	case 0:
		op = opnd{[]string{fmt.Sprintf("%s := Vec%s{%s, 2, 3, %s, 5}", a, id, small("a0"), small("a1"))}, a, 5, false, true}
	case 1:
		op = opnd{[]string{fmt.Sprintf("%s := [5]int{%s, 2, 3, %s, 5}", a, small("a0"), small("a1"))}, a, 5, false, false}
	case 2:
		op = opnd{[]string{fmt.Sprintf("%s := Dig%s{%d, 2, 3, %d}", a, id, g.n(0, 255, "d0"), g.n(0, 255, "d1"))}, a, 4, true, true}
	case 3:
		op = opnd{[]string{fmt.Sprintf("%s := [4]byte{%d, 2, 3, %d}", a, g.n(0, 255, "d0"), g.n(0, 255, "d1"))}, a, 4, true, false}
	case 4:
		op = opnd{[]string{fmt.Sprintf("%s := Box%s{V: Vec%s{%s, 2, 3, %s, 5}, Tag: \"t\"}", a, id, id, small("a0"), small("a1"))}, a + ".V", 5, false, true}
	case 5:
		op = opnd{[]string{fmt.Sprintf("%s := &Box%s{U: [5]int{%s, 2, 3, %s, 5}}", a, id, small("a0"), small("a1"))}, a + ".U", 5, false, false}
	default:
		op = opnd{[]string{fmt.Sprintf("%s := Box%s{D: Dig%s{%d, 2, 3, %d}}", a, id, id, g.n(0, 255, "d0"), g.n(0, 255, "d1"))}, a + ".D", 4, true, true}
	}
	g.cat("array-range-" + map[bool]string{true: "declared", false: "unnamed"}[op.named])
	i, v := g.fresh(), g.fresh()
	n := strconv.Itoa(op.n)
	x := op.x
	body := func(x string) []string {
		switch g.n(0, 4, "arb") {
		case 0: // rotate in place: writes ahead, the last iteration writes behind
			return []string{fmt.Sprintf("%s[(%s+1)%%%s] = %s", x, i, n, v)}
		case 1: // reverse in place
			return []string{fmt.Sprintf("%s[%s-1-%s] = %s", x, n, i, v)}
		case 2: // prefix sums written ahead
			return []string{fmt.Sprintf("if %s+1 < %s {", i, n), fmt.Sprintf("\t%s[%s+1] += %s", x, i, v), "}"}
		case 3: // write behind and two ahead
			return []string{fmt.Sprintf("if %s > 0 {", i), fmt.Sprintf("\t%s[%s-1] = %s * 2", x, i, v), "}",
				fmt.Sprintf("if %s+2 < %s {", i, n), fmt.Sprintf("\t%s[%s+2] -= %s", x, i, v), "}"}
		default: // everything at once
			j := g.fresh()
			return []string{fmt.Sprintf("for %s := range %s {", j, x), fmt.Sprintf("\t%s[%s] += %s + 1", x, j, v), "}"}
		}
	}
	show := func(x string) string { return "ints(" + x + "[:])" }
	if op.byteE {
		show = func(x string) string { return "bytesS(" + x + "[:])" }
	}
	form := g.n(0, 6, "arf")
	if form == 6 {
		// the operand is a parameter of (declared or unnamed) array type
		g.cat("array-range-param")
		g.cat("array-range-snapshot")
		g.nfun++
		fn := "arp" + id + "_" + strconv.Itoa(g.nfun)
		ptype := map[string]string{a: "", a + ".V": "Vec" + id, a + ".U": "[5]int", a + ".D": "Dig" + id}[op.x]
		if ptype == "" {
			switch {
			case op.named && op.byteE:
				ptype = "Dig" + id
			case op.named:
				ptype = "Vec" + id
			case op.byteE:
				ptype = "[4]byte"
			default:
				ptype = "[5]int"
			}
		}
		var fb strings.Builder
		fmt.Fprintf(&fb, "\nfunc %s(x %s) string {\n\ts := \"\"\n\tfor %s, %s := range x {\n", fn, ptype, i, v)
		fmt.Fprintf(&fb, "\t\t_ = %s\n", i)
		for _, l := range body("x") {
			fmt.Fprintf(&fb, "\t\t%s\n", l)
		}
		fmt.Fprintf(&fb, "\t\ts += itoa(int64(%s)) + \" \"\n\t}\n\treturn s + %s\n}\n", v, show("x"))
		g.decl.WriteString(fb.String())
		for _, d := range op.decl {
			o.line("%s", d)
		}
		o.line("emit(%q + %s(%s) + %s)", "param=", fn, x, show(x))
		return
	}
	for _, d := range op.decl {
		o.line("%s", d)
	}
	acc := g.fresh()
	o.line("%s := \"\"", acc)
	snapshot := true
	switch form {
	case 0, 1:
		o.line("for %s, %s := range %s {", i, v, x)
	case 2:
		// assignment form with variables declared before
		et := "int"
		if op.byteE {
			et = "byte"
		}
		o.line("var %s int", i)
		o.line("var %s %s", v, et)
		o.line("for %s, %s = range %s {", i, v, x)
	case 3:
		// contrast: a slice of the same array is not copied
		snapshot = false
		o.line("for %s, %s := range %s[:] {", i, v, x)
	case 4:
		// contrast: a pointer to the array is not copied
		snapshot = false
		o.line("for %s, %s := range &%s {", i, v, x)
	default:
		// contrast: key-only range reads the element itself
		snapshot = false
		o.line("for %s := range %s {", i, x)
		o.line("\t%s := %s[%s]", v, x, i)
	}
	g.cat("array-range-" + map[bool]string{true: "snapshot", false: "live"}[snapshot])
	o.ind++
	o.line("_ = %s", i)
	for _, l := range body(x) {
		o.line("%s", l)
	}
	o.line("%s += itoa(int64(%s)) + \" \"", acc, v)
	o.ind--
	o.line("}")
	o.line("emit(%q + %s + %s)", "arrange=", acc, show(x))
	if form == 2 {
		o.line("emit(%q + itoa(int64(%s)) + itoa(int64(%s)))", "after=", i, v)
	}
}

// pureFunc declares a total pure top-level function of one int parameter.
func (g *pgen) pureFunc() string {
	g.nfun++
	name := "pf" + g.id + "_" + strconv.Itoa(g.nfun)
	// body generated by a sub-generator that only sees the parameter
	sub := &pgen{rt: g.rt, id: g.id, cats: g.cats}
	sub.vars = []pvar{{name: "a", typ: "int"}}
	e := sub.nonConstInt("int", 3)
	switch g.n(0, 2, "pfk") {
	case 0:
		fmt.Fprintf(&g.decl, "\nfunc %s(a int) int { return %s }\n", name, e)
	case 1:
		fmt.Fprintf(&g.decl, "\nfunc %s(a int) int {\n\tif a %% 2 == 0 {\n\t\treturn %s\n\t}\n\treturn a - 1\n}\n", name, e)
	default:
		g.cat("recursion")
		fmt.Fprintf(&g.decl, "\nfunc %s(a int) int {\n\tif a&7 == 0 {\n\t\treturn %d\n\t}\n\treturn %s((a&7)-1)*3 + (a & 7)\n}\n", name, g.n(0, 9, "base"), name)
	}
	return name
}

func (g *pgen) closureStmt(o *pout) {
	g.cat("closure")
	switch g.n(0, 5, "clk") {
	case 0:
		// pure closure reading a captured variable; callable inside expressions
		name := g.fresh()
		capt := "3"
		if v, ok := g.pickVar(g.typed("int"), "cap"); ok {
			capt = v.name
		}
		o.line("%s := func(x int) int { return x*%d + %s }", name, g.n(1, 5, "mul"), capt)
		g.vars = append(g.vars, pvar{name: name, typ: "func(int) int", pure: true})
		o.line("_ = %s", name)
	case 1:
		// counter closure: called only as a statement
		name, cnt := g.fresh(), g.fresh()
		o.line("%s := %s", cnt, g.intExpr("int", 1).s)
		g.declare(o, cnt, "int")
		o.line("%s := func() int { %s += 2; return %s }", name, cnt, cnt)
		x := g.fresh()
		o.line("%s := %s()", x, name)
		g.declare(o, x, "int")
		o.line("%s()", name)
		o.line("emit(%q + itoa(int64(%s)) + \" \" + itoa(int64(%s)))", "counter=", x, cnt)
	case 2:
		// closures capturing the loop variable: one variable per iteration
		g.cat("loopvar")
		fs, i := g.fresh(), g.fresh()
		o.line("var %s []func() int", fs)
		switch g.n(0, 2, "lvk") {
		case 0:
			o.line("for %s := 0; %s < 3; %s++ {", i, i, i)
			o.line("\t%s = append(%s, func() int { return %s * 10 })", fs, fs, i)
			o.line("}")
		case 1:
			o.line("for %s := 0; %s < 3; %s++ {", i, i, i)
			o.line("\t%s = append(%s, func() int { %s += 5; return %s })", fs, fs, i, i)
			o.line("}")
		default:
			o.line("for _, %s := range []int{4, 5, 6} {", i)
			o.line("\t%s = append(%s, func() int { return %s })", fs, fs, i)
			o.line("}")
		}
		f := g.fresh()
		o.line("for _, %s := range %s {", f, fs)
		o.line("\temit(%q + itoa(int64(%s())))", "loopvar=", f)
		o.line("}")
	case 3:
		// top-level pure function, used as a value
		name := g.fresh()
		o.line("%s := %s", name, g.pureFunc())
		g.vars = append(g.vars, pvar{name: name, typ: "func(int) int", pure: true})
		o.line("_ = %s", name)
		g.cat("call")
	case 4:
		// closure modifying a captured variable through a pointer it took
		if v, ok := g.pickVar(g.writable("int"), "cpv"); ok {
			g.cat("pointer")
			p, f := g.fresh(), g.fresh()
			o.line("%s := &%s", p, v.name)
			o.line("%s := func() { *%s = *%s*2 + 1 }", f, p, p)
			o.line("%s()", f)
			o.line("%s()", f)
			o.line("emit(%q + itoa(int64(%s)))", "viaptr=", v.name)
		} else {
			g.newVarStmt(o)
		}
	default:
		// variadic + multiple results
		g.cat("call")
		g.nfun++
		name := "va" + g.id + "_" + strconv.Itoa(g.nfun)
		fmt.Fprintf(&g.decl, "\nfunc %s(k int, xs ...int) (int, string) {\n\ts := k\n\tfor _, x := range xs {\n\t\ts += x\n\t}\n\treturn s, itoa(int64(len(xs)))\n}\n", name)
		a, b := g.fresh(), g.fresh()
		if v, ok := g.pickVar(g.typed("[]int"), "vas"); ok && g.chance(50) {
			o.line("%s, %s := %s(%s, %s...)", a, b, name, g.intExpr("int", 1).s, v.name)
		} else if g.chance(50) {
			o.line("%s, %s := %s(%s)", a, b, name, g.intExpr("int", 1).s)
		} else {
			o.line("%s, %s := %s(%s, %s, %s)", a, b, name, g.intExpr("int", 1).s, g.intExpr("int", 1).s, g.intExpr("int", 1).s)
		}
		g.declare(o, a, "int")
		g.declare(o, b, "string")
	}
}

func (g *pgen) panicValue() string {
	switch g.n(0, 3, "pvk") {
	case 0:
		return strconv.Itoa(g.n(0, 99, "pvi"))
	case 1:
		return pStrLits[g.n(1, 4, "pvs")]
	case 2:
		return "VErr{" + strconv.Itoa(g.n(0, 9, "pve")) + "}"
	default:
		return "&VErr{" + strconv.Itoa(g.n(0, 9, "pve")) + "}"
	}
}

func (g *pgen) deferStmt(o *pout, depth int) {
	if g.inDefer >= 2 || g.inLoop > 0 {
		g.emitStmt(o)
		return
	}
	g.cat("defer")
	g.inDefer++
	defer func() { g.inDefer-- }()
	savedLoops, savedIn := g.loops, g.inLoop
	g.loops, g.inLoop = nil, 0 // break/continue cannot cross a function literal
	defer func() { g.loops, g.inLoop = savedLoops, savedIn }()
	switch g.n(0, 5, "dfk") {
	case 0, 1, 2:
		g.cat("recover")
		o.line("func() {")
		o.ind++
		o.line("defer func() {")
		o.line("\tif r := recover(); r != nil {")
		o.line("\t\temit(\"recovered \" + classify(r))")
		o.line("\t} else {")
		o.line("\t\temit(\"recovered nothing\")")
		o.line("\t}")
		o.line("}()")
		if v, ok := g.pickVar(func(v pvar) bool { return isIntT(v.typ) && !strings.HasPrefix(v.typ, "u") }, "dfa"); ok {
			// arguments of a deferred call are evaluated at the defer statement
			o.line("defer emit(\"deferred arg \" + itoa(int64(%s)))", v.name)
		}
		o.ind--
		n := g.n(1, 4, "dfn")
		g.push()
		o.ind++
		for i := 0; i < n && g.budget > 0; i++ {
			// statements inside may panic
			g.stmtWithPanic(o, depth-1, 60)
		}
		if g.chance(40) {
			g.cat("panic")
			o.line("if %s {", g.boolExpr(1))
			o.line("\tpanic(%s)", g.panicValue())
			o.line("}")
		}
		o.line("emit(\"body done\")")
		o.ind--
		g.pop()
		o.line("}()")
	case 3:
		// LIFO order of defers registered in a loop, arguments bound per iteration
		i := g.fresh()
		o.line("func() {")
		o.line("\tfor %s := 0; %s < 3; %s++ {", i, i, i)
		o.line("\t\tdefer func(n int) { emit(\"deferred \" + itoa(int64(n)) + \" \" + itoa(int64(%s))) }(%s * 2)", i, i)
		o.line("\t}")
		o.line("\temit(\"loop done\")")
		o.line("}()")
	case 4:
		// a deferred closure changes the named result; recover turns a panic into a result
		g.cat("recover")
		g.cat("named-result")
		g.nfun++
		name := "nr" + g.id + "_" + strconv.Itoa(g.nfun)
		fmt.Fprintf(&g.decl, `
func %s(a int) (r int, s string) {
	defer func() {
		if x := recover(); x != nil {
			r, s = -1, classify(x)
			return
		}
		r *= 2
	}()
	defer func() { r += 10 }()
	if a %% 3 == 0 {
		panic(%s)
	}
	if a %% 3 == 1 {
		var m map[string]int
		m["x"] = a
	}
	return a + 1, "ok"
}
`, name, g.panicValue())
		a, b := g.fresh(), g.fresh()
		o.line("%s, %s := %s(%s)", a, b, name, g.nonConstInt("int", 1))
		g.declare(o, a, "int")
		g.declare(o, b, "string")
		o.line("emit(%q + itoa(int64(%s)) + \" \" + %s)", "named=", a, b)
	default:
		// re-panic from a deferred function replaces the panic value; the outer recover sees the last one
		g.cat("recover")
		g.cat("panic")
		o.line("func() {")
		o.line("\tdefer func() { emit(\"outer \" + classify(recover())) }()")
		o.line("\tdefer func() {")
		o.line("\t\tr := recover()")
		o.line("\t\temit(\"inner \" + classify(r))")
		o.line("\t\tpanic(%s)", g.panicValue())
		o.line("\t}()")
		o.line("\tpanic(%s)", g.panicValue())
		o.line("}()")
	}
}

func (g *pgen) ifaceStmt(o *pout) {
	g.needStruct()
	g.cat("interface")
	id := g.id
	xs := g.fresh()
	// a mixed bag of dynamic types
	elems := []string{"nil", "2.5", "\"s\"", "true", "[]int{1, 2}", "VErr{4}", "T" + id + "(21)", "&Q" + id + "{n: 5}", "S" + id + "{A: 3}", "int8(-3)", "uint16(9)"}
	if v, ok := g.anyIntVar(); ok {
		elems = append(elems, v.name)
	}
	if v, ok := g.pickVar(g.typed("string"), "ifs"); ok {
		elems = append(elems, v.name)
	}
	if v, ok := g.pickVar(g.typed("*S"), "ifp"); ok {
		elems = append(elems, v.name)
	}
	n := g.n(2, 6, "ifn")
	var picked []string
	for i := 0; i < n; i++ {
		picked = append(picked, elems[g.n(0, len(elems)-1, "ife")])
	}
	o.line("%s := []interface{}{%s}", xs, strings.Join(picked, ", "))
	x := g.fresh()
	switch g.n(0, 2, "ifk") {
	case 0:
		g.cat("type-switch")
		o.line("for _, %s := range %s {", x, xs)
		o.line("\tswitch y := %s.(type) {", x)
		// case order matters (first match wins): drawn as a permutation of a fixed set
		cases := []string{
			"case nil:\n\t\temit(\"nil\")",
			"case int:\n\t\temit(\"int \" + itoa(int64(y)))",
			"case string:\n\t\temit(\"string \" + hexs(y))",
			"case I" + id + ":\n\t\temit(\"I \" + itoa(int64(y.Sum())))",
			"case error:\n\t\temit(\"error \" + y.Error())",
			"case int8, uint16:\n\t\temit(\"small \" + anyS(y))",
			"case S" + id + ":\n\t\temit(\"S \" + itoa(int64(y.A)))",
			"case float64, bool:\n\t\temit(\"fb \" + anyS(y))",
			"case []int:\n\t\temit(\"ints \" + ints(y))",
		}
		perm := rapid.Permutation(cases).Draw(g.rt, "perm")
		k := g.n(3, len(perm), "nc")
		for _, c := range perm[:k] {
			o.line("\t%s", strings.ReplaceAll(c, "\n", "\n"+strings.Repeat("\t", o.ind+1)))
		}
		if g.chance(70) {
			o.line("\tdefault:")
			o.line("\t\t_ = y")
			o.line("\t\temit(\"other\")")
		}
		o.line("\t}")
		o.line("}")
	case 1:
		g.cat("type-assert")
		tt := []string{"int", "string", "I" + id, "S" + id, "*S" + id, "error", "T" + id, "float64"}[g.n(0, 7, "tat")]
		o.line("for _, %s := range %s {", x, xs)
		o.line("\t_, ok := %s.(%s)", x, tt)
		o.line("\temit(%q + btoa(ok))", "is "+tt+" ")
		o.line("}")
	default:
		g.cat("type-assert")
		tt := []string{"int", "string", "I" + id, "S" + id, "error"}[g.n(0, 4, "tat")]
		if g.pb > 0 {
			g.pb--
			g.cat("panic-site")
			o.line("%s := %s[%d].(%s)", x, xs, g.n(0, n-1, "tai"), tt)
			o.line("_ = %s", x)
			o.line("emit(\"assert ok\")")
		} else {
			o.line("%s, ok := %s[%d].(%s)", x, xs, g.n(0, n-1, "tai"), tt)
			o.line("_ = %s", x)
			o.line("emit(\"assert \" + btoa(ok))")
		}
	}
	// nil pointer in an interface is not a nil interface
	if g.chance(20) {
		p, iv := g.fresh(), g.fresh()
		o.line("var %s *Q%s", p, id)
		o.line("var %s I%s = %s", iv, id, p)
		o.line("emit(%q + btoa(%s == nil) + btoa(%s == nil))", "nilness=", p, iv)
	}
}

func (g *pgen) gotoStmt(o *pout) {
	if g.inLoop > 0 || g.inDefer > 0 {
		g.emitStmt(o)
		return
	}
	g.cat("goto")
	g.lbl++
	l := "G" + strconv.Itoa(g.lbl)
	i, acc := g.fresh(), g.fresh()
	// all variables are declared before the label; the jump is backward
	o.line("%s, %s := 0, %s", i, acc, g.intExpr("int", 1).s)
	g.declare(o, i, "int")
	g.vars[len(g.vars)-1].ro = true
	g.declare(o, acc, "int")
	o.line("%s:", l)
	o.line("if %s < %d {", i, g.n(1, 4, "gn"))
	o.line("\t%s = %s", acc, g.intExpr("int", 2).s)
	o.line("\temit(%q + itoa(int64(%s)) + \" \" + itoa(int64(%s)))", "goto=", i, acc)
	o.line("\t%s++", i)
	o.line("\tgoto %s", l)
	o.line("}")
}

func (g *pgen) stringStmt(o *pout) {
	g.cat("string")
	switch g.n(0, 3, "strk") {
	case 0:
		if v, ok := g.pickVar(g.writable("[]byte"), "bsv"); ok {
			o.line("if len(%s) > 0 {", v.name)
			o.line("\t%s[len(%s)-1] ^= 0x20", v.name, v.name)
			o.line("}")
			o.line("emit(%q + hexs(string(%s)))", "bytes=", v.name)
			return
		}
		fallthrough
	case 1:
		s := g.strExpr(2).s
		i, r := g.fresh(), g.fresh()
		g.cat("range")
		o.line("for %s, %s := range %s {", i, r, s)
		o.line("\temit(%q + itoa(int64(%s)) + \":\" + itoa(int64(%s)))", "rune ", i, r)
		o.line("}")
	case 2:
		g.cat("conversion")
		rs := g.fresh()
		o.line("%s := []rune(%s)", rs, g.strExpr(2).s)
		o.line("emit(%q + itoa(int64(len(%s))) + \" \" + hexs(string(%s)))", "runes=", rs, rs)
	default:
		if v, ok := g.pickVar(g.typed("string"), "sv"); ok {
			o.line("if len(%s) > 1 {", v.name)
			o.line("\temit(%q + itoa(int64(%s[1])) + hexs(%s[1:]) + hexs(%s[:1]))", "strparts=", v.name, v.name, v.name)
			o.line("}")
		} else {
			g.emitStmt(o)
		}
	}
}

func (g *pgen) ptrStmt(o *pout) {
	v, ok := g.pickVar(g.typed("*int"), "pv")
	if !ok {
		g.newVarStmt(o)
		return
	}
	g.cat("pointer")
	switch g.n(0, 2, "ptk") {
	case 0:
		o.line("*%s = %s", v.name, g.intExpr("int", 2).s)
	case 1:
		o.line("*%s += %s", v.name, g.intExpr("int", 1).s)
	default:
		if w, ok := g.pickVar(g.typed("*int"), "pw"); ok {
			o.line("emit(%q + btoa(%s == %s))", "sameptr=", v.name, w.name)
		} else {
			g.emitVar(o, v)
		}
	}
}

// extraStmt: further constructs, each a small template over the variables in scope.
func (g *pgen) extraStmt(o *pout, depth int) {
	id := g.id
	intv := func(label string) string {
		if v, ok := g.pickVar(g.typed("int"), label); ok {
			return v.name
		}
		return g.nonConstInt("int", 1)
	}
	switch g.n(0, 25, "exk") {
	case 0:
		// if with init statement and comma-ok
		g.cat("if")
		g.cat("map")
		if m, ok := g.pickVar(g.typed("map[string]int"), "exm"); ok {
			x := g.fresh()
			o.line("if %s, ok := %s[%s]; ok {", x, m.name, pMapKeys[g.n(0, len(pMapKeys)-1, "mk")])
			o.line("\temit(\"found \" + itoa(int64(%s)))", x)
			o.line("} else if %s == 0 {", x)
			o.line("\temit(\"absent\")")
			o.line("}")
		} else {
			g.mapStmt(o)
		}
	case 1:
		// switch with init statement, tagless
		g.cat("switch")
		x := g.fresh()
		o.line("switch %s := %s; {", x, g.nonConstInt("int", 2))
		o.line("case %s > %s:", x, g.intLit("int8"))
		o.line("\temit(\"gt\")")
		o.line("case %s < 0, %s == 7:", x, x)
		o.line("\temit(\"neg or 7\")")
		o.line("default:")
		o.line("\temit(\"dflt \" + itoa(int64(%s %% 3)))", x)
		o.line("}")
	case 2:
		// maps keyed by arrays and structs
		g.cat("map")
		g.cat("array")
		g.needStruct()
		m, k := g.fresh(), g.fresh()
		o.line("%s := map[[2]int8]int{}", m)
		o.line("%s := [2]int8{%s, 2}", k, g.intExpr("int8", 1).s)
		o.line("%s[%s] += 5", m, k)
		o.line("%s[1]++", k)
		o.line("%s[%s] += 7", m, k)
		o.line("%s[1]--", k)
		o.line("%s[%s] *= 3", m, k)
		o.line("emit(%q + itoa(int64(len(%s))) + \" \" + itoa(int64(%s[%s])))", "arrkey=", m, m, k)
		ms, ks := g.fresh(), g.fresh()
		o.line("%s := map[S%s]string{}", ms, id)
		o.line("%s := S%s{A: %s, B: \"k\"}", ks, id, intv("exa"))
		o.line("%s[%s] = \"one\"", ms, ks)
		o.line("%s.C[0] = 1", ks)
		o.line("%s[%s] += \"two\"", ms, ks)
		o.line("%s.C[0] = 0", ks)
		o.line("emit(%q + itoa(int64(len(%s))) + \" \" + %s[%s])", "structkey=", ms, ms, ks)
	case 3:
		// equality of interface values
		g.cat("interface")
		g.cat("compare")
		g.needStruct()
		a, b := g.fresh(), g.fresh()
		pool := []string{"1", "int8(1)", "int64(1)", "\"1\"", "1.0", "true", "nil", "S" + id + "{A: 1}", "T" + id + "(1)", "[2]int8{1, 0}", "VErr{1}", "uint8(1)", intv("exi")}
		o.line("var %s, %s interface{} = %s, %s", a, b, pool[g.n(0, len(pool)-1, "ia")], pool[g.n(0, len(pool)-1, "ib")])
		o.line("emit(%q + btoa(%s == %s) + btoa(%s != nil))", "ifaceeq=", a, b, a)
	case 4:
		// slices of slices share the inner backing arrays
		g.cat("slice")
		if v, ok := g.pickVar(g.typed("[]int"), "exs"); ok {
			ss := g.fresh()
			o.line("%s := [][]int{%s, %s[:len(%s)/2], nil}", ss, v.name, v.name, v.name)
			o.line("if len(%s[0]) > 0 {", ss)
			o.line("\t%s[0][0] = %s", ss, g.intExpr("int", 1).s)
			o.line("}")
			o.line("%s[2] = append(%s[2], len(%s[1]))", ss, ss, ss)
			o.line("emit(%q + ints(%s) + ints(%s[1]) + ints(%s[2]))", "nested=", v.name, ss, ss)
		} else {
			g.sliceStmt(o)
		}
	case 5:
		// method expressions
		g.cat("method")
		g.needStruct()
		if v, ok := g.pickVar(g.writable("S"), "exst"); ok {
			f, h := g.fresh(), g.fresh()
			o.line("%s := S%s.Sum", f, id)
			o.line("%s := (*S%s).Inc", h, id)
			o.line("%s(&%s, %s)", h, v.name, g.intExpr("int", 1).s)
			o.line("emit(%q + itoa(int64(%s(%s))))", "methodexpr=", f, v.name)
		} else {
			g.structStmt(o)
		}
	case 6:
		// labelled switch inside a loop: break label leaves the switch, continue goes on with the loop
		if g.inLoop >= 2 {
			g.emitStmt(o)
			return
		}
		g.cat("switch")
		g.cat("for")
		g.cat("labelled-break")
		g.lbl++
		l := "W" + strconv.Itoa(g.lbl)
		i := g.fresh()
		o.line("for %s := 0; %s < 4; %s++ {", i, i, i)
		o.line("%s:", l)
		o.line("\tswitch {")
		o.line("\tcase %s == 1:", i)
		o.line("\t\tcontinue")
		o.line("\tcase %s == 2:", i)
		o.line("\t\tif %s {", g.boolExpr(1))
		o.line("\t\t\tbreak %s", l)
		o.line("\t\t}")
		o.line("\t\temit(\"two\")")
		o.line("\tdefault:")
		o.line("\t\temit(\"other \" + itoa(int64(%s)))", i)
		o.line("\t}")
		o.line("\temit(\"after switch \" + itoa(int64(%s)))", i)
		o.line("}")
	case 7:
		// copy and append between strings and byte slices
		g.cat("string")
		g.cat("copy")
		b := g.fresh()
		o.line("%s := make([]byte, %d)", b, g.n(0, 5, "bl"))
		o.line("emit(%q + itoa(int64(copy(%s, %s))) + bytesS(%s))", "copystr=", b, g.strExpr(1).s, b)
		o.line("%s = append(%s[:0:0], %s...)", b, b, g.strExpr(1).s)
		o.line("emit(%q + bytesS(%s))", "appendstr=", b)
	case 8:
		// recursive closure through a variable
		g.cat("closure")
		g.cat("recursion")
		f := g.fresh()
		o.line("var %s func(int) int", f)
		o.line("%s = func(n int) int {", f)
		o.line("\tif n < 2 {")
		o.line("\t\treturn n")
		o.line("\t}")
		o.line("\treturn %s(n-1) + %s(n-2)", f, f)
		o.line("}")
		o.line("emit(%q + itoa(int64(%s(%s & 7))))", "fib=", f, intv("exn"))
	case 9:
		// arrays of arrays are values
		g.cat("array")
		aa, bb := g.fresh(), g.fresh()
		o.line("%s := [2][2]int{{1, 2}, {3, %s}}", aa, g.intExpr("int", 1).s)
		o.line("%s := %s", bb, aa)
		o.line("%s[0][1] = %s", bb, g.intExpr("int", 1).s)
		o.line("%s[1] = %s[0]", aa, bb)
		o.line("emit(%q + ints(%s[0][:]) + ints(%s[1][:]) + ints(%s[1][:]) + btoa(%s == %s))", "arr2=", aa, aa, bb, aa, bb)
	case 10:
		// pointers to elements and fields
		g.cat("pointer")
		if v, ok := g.pickVar(g.writable("[4]int"), "exarr"); ok {
			p := g.fresh()
			o.line("%s := &%s[%d]", p, v.name, g.n(0, 3, "pi"))
			o.line("*%s += %s", p, g.intExpr("int", 1).s)
			o.line("emit(%q + ints(%s[:]))", "elemptr=", v.name)
		} else if v, ok := g.pickVar(g.writable("[]int"), "exsl"); ok {
			p := g.fresh()
			o.line("if len(%s) > 0 {", v.name)
			o.line("\t%s := &%s[0]", p, v.name)
			o.line("\t%s = append(%s[:0:0], %s...)", v.name, v.name, v.name)
			o.line("\t%s = %s[:len(%s):len(%s)]", v.name, v.name, v.name, v.name)
			o.line("\t*%s = 77", p)
			o.line("\temit(%q + ints(%s) + itoa(int64(*%s)))", "oldelem=", v.name, p)
			o.line("}")
		} else {
			g.ptrStmt(o)
		}
	case 11:
		// receiver and arguments of a deferred method call are evaluated at the defer statement
		if g.inLoop > 0 || g.inDefer > 0 {
			g.emitStmt(o)
			return
		}
		g.cat("defer")
		g.cat("method")
		g.needStruct()
		s, k := g.fresh(), g.fresh()
		o.line("%s, %s := S%s{A: 1}, %s", s, k, id, intv("exd"))
		o.line("func() {")
		o.line("\tdefer %s.Inc(%s)", s, k)
		o.line("\tdefer func(v S%s) { emit(\"deferred copy \" + showS%s(v)) }(%s)", id, id, s)
		o.line("\t%s = 1000", k)
		o.line("\t%s.A = 50", s)
		o.line("}()")
		o.line("emit(%q + showS%s(%s))", "afterdefer=", id, s)
	case 12:
		// named types: arithmetic, methods on slice and func types
		g.cat("named-type")
		g.cat("method")
		g.nfun++
		n := id + "_" + strconv.Itoa(g.nfun)
		fmt.Fprintf(&g.decl, "\ntype MI%[1]s int16\n\nfunc (m MI%[1]s) Twice() MI%[1]s { return m * 2 }\n\ntype SL%[1]s []int\n\nfunc (s SL%[1]s) Total() (t int) {\n\tfor _, x := range s {\n\t\tt += x\n\t}\n\treturn\n}\n\ntype FN%[1]s func(int) int\n\nfunc (f FN%[1]s) Apply2(x int) int { return f(f(x)) }\n", n)
		a := g.fresh()
		o.line("%s := MI%s(%s)", a, n, g.nonConstInt("int16", 1))
		o.line("%s = %s.Twice() + 3", a, a)
		o.line("emit(%q + itoa(int64(%s)) + \" \" + itoa(int64(SL%s{1, 2, %s}.Total())) + \" \" + itoa(int64(FN%s(func(x int) int { return x*3 + 1 }).Apply2(%s))))", "named=", a, n, intv("exq"), n, intv("exr"))
	case 13:
		// forward goto out of a loop, inside its own block (no declaration is jumped over)
		if g.inLoop > 0 || g.inDefer > 0 {
			g.emitStmt(o)
			return
		}
		g.cat("goto")
		g.cat("for")
		g.lbl++
		l := "F" + strconv.Itoa(g.lbl)
		i, lim := g.fresh(), g.n(0, 4, "glim")
		o.line("{")
		o.line("\tfor %s := 0; %s < 3; %s++ {", i, i, i)
		o.line("\t\tif %s == %d {", i, lim)
		o.line("\t\t\tgoto %s", l)
		o.line("\t\t}")
		o.line("\t\temit(\"iter \" + itoa(int64(%s)))", i)
		o.line("\t}")
		o.line("\temit(\"loop finished\")")
		o.line("%s:", l)
		o.line("\temit(\"at label\")")
		o.line("}")
	case 14:
		// constants and iota
		g.cat("const")
		g.nfun++
		n := id + "_" + strconv.Itoa(g.nfun)
		fmt.Fprintf(&g.decl, "\nconst (\n\tKA%[1]s = iota * %[2]d\n\tKB%[1]s\n\tKC%[1]s\n\t_\n\tKE%[1]s\n)\n\nconst KS%[1]s, KT%[1]s = \"c\" + \"d\", 1 << %[3]d\n\nconst KU%[1]s uint8 = 200 + KC%[1]s%%50\n", n, g.n(1, 9, "im"), g.n(0, 40, "ks"))
		o.line("emit(%q + itoa(int64(KA%s+KB%s+KC%s+KE%s)) + KS%s + itoa(int64(KT%s)) + utoa(uint64(KU%s+%s)))", "consts=", n, n, n, n, n, n, n, g.nonConstInt("uint8", 1))
	case 15:
		// multiple results forwarded to a call; blank identifiers
		g.cat("call")
		g.nfun++
		n := id + "_" + strconv.Itoa(g.nfun)
		fmt.Fprintf(&g.decl, "\nfunc two%[1]s(a int) (int, int) { return a / 3, a %% 3 }\n\nfunc sum%[1]s(a, b int) int { return a*10 + b }\n", n)
		x := g.fresh()
		o.line("_, %s := two%s(%s)", x, n, intv("ext"))
		o.line("emit(%q + itoa(int64(sum%s(two%s(%s)))) + itoa(int64(%s)))", "forward=", n, n, intv("exu"), x)
	case 16:
		// struct values in maps and slices are copies; anonymous structs
		g.cat("struct")
		g.cat("map")
		g.needStruct()
		m, v := g.fresh(), g.fresh()
		o.line("%s := map[string]S%s{\"a\": {A: 1}}", m, id)
		o.line("%s := %s[\"a\"]", v, m)
		o.line("%s.A = %s", v, g.intExpr("int", 1).s)
		o.line("emit(%q + itoa(int64(%s[\"a\"].A)) + itoa(int64(%s[\"zz\"].A)))", "mapcopy=", m, m)
		o.line("%s[\"a\"] = %s", m, v)
		an := g.fresh()
		o.line("%s := struct {", an)
		o.line("\tX int")
		o.line("\tY []string")
		o.line("}{X: %s[\"a\"].A}", m)
		o.line("%s.Y = append(%s.Y, \"q\")", an, an)
		o.line("emit(%q + itoa(int64(%s.X)) + itoa(int64(len(%s.Y))))", "anon=", an, an)
	case 18:
		// closures capturing variables of every block kind: if-init, switch-init, type-switch
		// binding, range key/value, parameters
		g.cat("closure")
		g.cat("type-switch")
		fs := g.fresh()
		o.line("var %s []func() int", fs)
		a, b, c, d := g.fresh(), g.fresh(), g.fresh(), g.fresh()
		o.line("if %s := %s; %s %% 2 == 0 {", a, g.nonConstInt("int", 1), a)
		o.line("\t%s = append(%s, func() int { %s++; return %s })", fs, fs, a, a)
		o.line("} else {")
		o.line("\t%s = append(%s, func() int { %s--; return %s })", fs, fs, a, a)
		o.line("}")
		o.line("switch %s := %s; {", b, intv("exb"))
		o.line("case %s > 0:", b)
		o.line("\t%s = append(%s, func() int { %s *= 2; return %s })", fs, fs, b, b)
		o.line("default:")
		o.line("\t%s = append(%s, func() int { return %s - 1 })", fs, fs, b)
		o.line("}")
		o.line("var %s interface{} = %s", c, intv("exc"))
		o.line("switch %s := %s.(type) {", d, c)
		o.line("case int:")
		o.line("\t%s = append(%s, func() int { %s += 3; return %s })", fs, fs, d, d)
		o.line("case string:")
		o.line("\t%s = append(%s, func() int { return len(%s) })", fs, fs, d)
		o.line("}")
		o.line("func(p int) {")
		o.line("\t%s = append(%s, func() int { p += 100; return p })", fs, fs)
		o.line("\tp = 7")
		o.line("}(%s)", intv("exp"))
		f := g.fresh()
		o.line("for _, %s := range %s {", f, fs)
		o.line("\temit(%q + itoa(int64(%s())) + \" \" + itoa(int64(%s())))", "captured=", f, f)
		o.line("}")
	case 19:
		// short variable declarations that redeclare some of their variables
		g.cat("redeclare")
		g.nfun++
		n := id + "_" + strconv.Itoa(g.nfun)
		fmt.Fprintf(&g.decl, "\nfunc pair%[1]s(a int) (int, string) { return a + 1, itoa(int64(a)) }\n", n)
		x, e1, y := g.fresh(), g.fresh(), g.fresh()
		o.line("%s, %s := pair%s(%s)", x, e1, n, intv("exx"))
		o.line("%s, %s := pair%s(%s)", y, e1, n, x)
		o.line("emit(%q + itoa(int64(%s)) + itoa(int64(%s)) + %s)", "redecl=", x, y, e1)
		o.line("if %s > 0 {", y)
		o.line("\t%s, %s := pair%s(%s)", x, e1, n, y)
		o.line("\temit(%q + itoa(int64(%s)) + %s)", "inner=", x, e1)
		o.line("}")
		o.line("emit(%q + itoa(int64(%s)) + %s)", "outer=", x, e1)
	case 20:
		// scopes of if / else-if init statements
		g.cat("if")
		g.cat("shadowing")
		a, b := g.fresh(), g.fresh()
		o.line("if %s := %s; %s > 100 {", a, intv("exa"), a)
		o.line("\temit(\"big\")")
		o.line("} else if %s := %s %% 7; %s < 0 {", b, a, b)
		o.line("\temit(\"negmod \" + itoa(int64(%s)))", b)
		o.line("} else if %s := %s + 1; %s > 0 {", a, b, a)
		o.line("\temit(\"shadowed \" + itoa(int64(%s)) + \" \" + itoa(int64(%s)))", a, b)
		o.line("} else {")
		o.line("\temit(\"else \" + itoa(int64(%s+%s)))", a, b)
		o.line("}")
	case 21:
		// closure factories: every call owns its variable
		g.cat("closure")
		g.nfun++
		n := id + "_" + strconv.Itoa(g.nfun)
		fmt.Fprintf(&g.decl, "\nfunc mk%[1]s(start int) (func() int, func()) {\n\tc := start\n\treturn func() int { c++; return c }, func() { c = 0 }\n}\n", n)
		i1, r1, i2, r2 := g.fresh(), g.fresh(), g.fresh(), g.fresh()
		o.line("%s, %s := mk%s(%s)", i1, r1, n, intv("exs"))
		o.line("%s, %s := mk%s(10)", i2, r2, n)
		o.line("%s()", i1)
		o.line("%s()", i2)
		o.line("%s()", r1)
		o.line("_ = %s", r2)
		o.line("emit(%q + itoa(int64(%s())) + \" \" + itoa(int64(%s())))", "factory=", i1, i2)
	case 22:
		// arrays and structs are copied when passed; slices and pointers are not
		g.cat("call")
		g.cat("array")
		g.needStruct()
		g.nfun++
		n := id + "_" + strconv.Itoa(g.nfun)
		fmt.Fprintf(&g.decl, "\nfunc mut%[1]s(a [3]int, s []int, st S%[2]s, p *S%[2]s) int {\n\ta[0], s[0], st.A, p.A = 9, 9, 9, 9\n\treturn a[0] + s[0] + st.A + p.A\n}\n", n, id)
		a, sl, st, pt := g.fresh(), g.fresh(), g.fresh(), g.fresh()
		o.line("%s, %s, %s, %s := [3]int{1}, []int{1}, S%s{A: 1}, &S%s{A: 1}", a, sl, st, pt, id, id)
		o.line("emit(%q + itoa(int64(mut%s(%s, %s, %s, %s))) + ints(%s[:]) + ints(%s) + itoa(int64(%s.A)) + itoa(int64(%s.A)))", "passing=", n, a, sl, st, pt, a, sl, st, pt)
	case 23:
		// a copied struct shares the backing array of its slice field
		g.cat("struct")
		g.cat("slice")
		a, b := g.fresh(), g.fresh()
		o.line("%s := struct {", a)
		o.line("\tL []int")
		o.line("\tM map[string]int")
		o.line("\tA [2]int")
		o.line("}{L: make([]int, 1, 4), M: map[string]int{}}")
		o.line("%s := %s", b, a)
		o.line("%s.L[0], %s.M[\"k\"], %s.A[0] = 5, 6, 7", b, b, b)
		o.line("%s.L = append(%s.L, 8)", b, b)
		o.line("%s.L = append(%s.L, 9)", a, a)
		o.line("emit(%q + ints(%s.L) + ints(%s.L) + mapSI(%s.M) + ints(%s.A[:]) + ints(%s.A[:]))", "sharing=", a, b, a, a, b)
	case 24:
		// interface embedding, pointer embedding, method promotion through a pointer
		g.cat("embedding")
		g.cat("interface")
		g.needStruct()
		g.nfun++
		n := id + "_" + strconv.Itoa(g.nfun)
		fmt.Fprintf(&g.decl, "\ntype N%[1]s interface {\n\tI%[2]s\n\tName() string\n}\n\ntype P%[1]s struct {\n\t*S%[2]s\n\tTag string\n}\n\nfunc (p P%[1]s) Name() string { return p.Tag + p.B }\n", n, id)
		base, w, iv := g.fresh(), g.fresh(), g.fresh()
		o.line("%s := S%s{A: %s, B: \"b\"}", base, id, intv("exe"))
		o.line("%s := P%s{S%s: &%s, Tag: \"t\"}", w, n, id, base)
		o.line("%s.Inc(2)", w)
		o.line("var %s N%s = %s", iv, n, w)
		o.line("%s.A++", base)
		o.line("emit(%q + itoa(int64(%s.Sum())) + %s.Name() + itoa(int64(%s.A)))", "embedptr=", iv, iv, w)
	case 25:
		// building strings in loops; byte/rune arithmetic
		g.cat("string")
		g.cat("for")
		sv, i := g.fresh(), g.fresh()
		o.line("%s := \"\"", sv)
		o.line("for %s := 0; %s < %d; %s++ {", i, i, g.n(1, 6, "sn"), i)
		o.line("\t%s += string(rune('a'+%s)) + string(byte('0'+%s%%10))", sv, i, i)
		o.line("}")
		o.line("emit(%q + %s + itoa(int64(len(%s))) + itoa(int64(%s[len(%s)-1]-'0')))", "built=", sv, sv, sv, sv)
	default:
		// integer <-> string/byte/rune conversions and comparisons of named string types
		g.cat("conversion")
		g.cat("string")
		r := g.fresh()
		o.line("%s := rune(%s)", r, g.nonConstInt("int32", 1))
		o.line("emit(%q + hexs(string(%s)) + hexs(string([]rune{%s, 'x'})) + hexs(string([]byte{byte(%s), 'y'})))", "runeconv=", r, r, r)
	}
}

// stmtWithPanic generates one statement that may contain one panicking operation with probability pct.
func (g *pgen) stmtWithPanic(o *pout, depth, pct int) {
	g.pb = 0
	if g.chance(pct) {
		g.pb = 1
	}
	g.stmtInner(o, depth)
	g.pb = 0
}

func (g *pgen) stmt(o *pout, depth int) { g.stmtWithPanic(o, depth, 8) }

func (g *pgen) stmtInner(o *pout, depth int) {
	g.budget--
	k := g.n(0, 99, "stk")
	if depth <= 0 && k >= 40 && k < 64 {
		k = k % 40
	}
	switch {
	case k < 11:
		g.newVarStmt(o)
	case k < 23:
		g.assignStmt(o)
	case k < 33:
		g.emitStmt(o)
	case k < 40:
		g.extraStmt(o, depth)
	case k < 47:
		g.ifStmt(o, depth)
	case k < 53:
		g.forStmt(o, depth)
	case k < 58:
		g.rangeStmt(o, depth)
	case k < 64:
		g.switchStmt(o, depth)
	case k < 71:
		g.sliceStmt(o)
	case k < 74:
		g.arrayStmt(o)
	case k < 78:
		g.mapStmt(o)
	case k < 83:
		g.structStmt(o)
	case k < 87:
		g.closureStmt(o)
	case k < 91:
		g.deferStmt(o, depth)
	case k < 93:
		g.ifaceStmt(o)
	case k < 94:
		g.ptrStmt(o)
	case k < 95:
		g.gotoStmt(o)
	case k < 96:
		g.stringStmt(o)
	case k < 98:
		g.arrRangeStmt(o)
	default:
		g.extraStmt(o, depth)
	}
}

// focusKinds are the statement families a fragment can be centred on: the
// fragments of a batch take them in turn (stratified generation), so that a
// batch of >= len(focusKinds) fragments exercises every family at least twice.
var focusKinds = []string{"slice", "switch", "arrrange", "defer", "for", "range", "struct", "closure", "iface", "map", "array", "string", "goto", "ptr", "extra", "assign", "extra"}

func (g *pgen) focusStmt(o *pout, kind string) {
	g.pb = 0
	if g.chance(10) {
		g.pb = 1
	}
	switch kind {
	case "slice":
		g.sliceStmt(o)
	case "arrrange":
		g.arrRangeStmt(o)
	case "switch":
		g.switchStmt(o, 2)
	case "defer":
		g.deferStmt(o, 2)
	case "for":
		g.forStmt(o, 2)
	case "range":
		g.rangeStmt(o, 2)
	case "struct":
		g.structStmt(o)
	case "closure":
		g.closureStmt(o)
	case "iface":
		g.ifaceStmt(o)
	case "map":
		g.mapStmt(o)
	case "array":
		g.arrayStmt(o)
	case "string":
		g.stringStmt(o)
	case "goto":
		g.gotoStmt(o)
	case "ptr":
		g.ptrStmt(o)
	case "extra":
		g.extraStmt(o, 2)
	default:
		g.assignStmt(o)
	}
	g.pb = 0
}

// drawFrag generates one fragment.
func drawFrag(rt *rapid.T, idx int) Frag {
	g := &pgen{rt: rt, id: strconv.Itoa(idx), cats: map[string]bool{}}
	focus := focusKinds[idx%len(focusKinds)]
	var body strings.Builder
	o := &pout{&body, 1}
	g.push()
	// a few scalar variables with boundary-biased initial values
	nv := g.n(2, 5, "nv")
	for i := 0; i < nv; i++ {
		t := pIntTypes[g.n(0, len(pIntTypes)-1, "vt")]
		name := g.fresh()
		o.line("var %s %s = %s", name, t, g.intLit(t))
		g.declare(o, name, t)
	}
	if g.chance(60) {
		name := g.fresh()
		o.line("var %s int = %s", name, g.intLit("int"))
		g.declare(o, name, "int")
	}
	if g.chance(50) {
		name := g.fresh()
		o.line("%s := %s", name, pStrLits[g.n(0, len(pStrLits)-1, "s0")])
		g.declare(o, name, "string")
	}
	if g.chance(35) {
		name := g.fresh()
		o.line("var %s float64 = %s", name, pFloatLits[g.n(0, len(pFloatLits)-1, "f0")])
		g.declare(o, name, "float64")
	}
	g.budget = g.n(4, 22, "budget")
	for g.budget > 0 {
		if g.chance(25) {
			g.focusStmt(o, focus)
		}
		g.stmt(o, 3)
	}
	g.budget = 4
	g.focusStmt(o, focus)
	// final values of everything still in scope
	for _, v := range g.varsOf(func(pvar) bool { return true }) {
		g.emitVar(o, v)
	}
	g.pop()
	var cats []string
	for c := range g.cats {
		cats = append(cats, c)
	}
	sort.Strings(cats)
	return Frag{Decl: g.decl.String(), Body: strings.TrimRight(body.String(), "\n"), Cats: cats}
}
