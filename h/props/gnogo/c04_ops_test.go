package gnogo

import (
	"fmt"
	"math"
	"math/big"
	"strconv"
	"strings"
	"testing"
	"unicode/utf8"

	"pgregory.net/rapid"
	"verif/vk"
)

// C04, operator layer. A case is a list of operator items (type, operator,
// operand values, evaluation mode). The expected line of every item is
// computed by this file's own Go code (generic functions instantiated at
// every integer width, Go's float arithmetic, Go's string operations) - that
// is Go's semantics, not a model. The Gno side evaluates the same expression
// through function parameters (mode var), as a compound assignment (assign),
// with a literal right operand (mixed) or as a constant expression (const,
// only when Go accepts the expression as a constant).

type opItem struct {
	Kind string `json:"kind"`
	T    string `json:"t,omitempty"`  // operand type
	T2   string `json:"t2,omitempty"` // shift count type / conversion target
	Op   string `json:"op,omitempty"`
	A    string `json:"a,omitempty"` // ints: decimal; floats: hex bits; strings: hex bytes; literals: text
	B    string `json:"b,omitempty"`
	I    int    `json:"i,omitempty"`
	J    int    `json:"j,omitempty"`
	Mode string `json:"mode,omitempty"` // var | assign | mixed | const
}

type opCase struct {
	Items []opItem `json:"items"`
}

// ---------- integer semantics through generics

type integer interface {
	~int | ~int8 | ~int16 | ~int32 | ~int64 | ~uint | ~uint8 | ~uint16 | ~uint32 | ~uint64
}

type intOps interface {
	name() string
	bits() int
	signed() bool
	min() *big.Int
	max() *big.Int
	bin(op, a, b string) (res string, pan string)
	cmp(op, a, b string) bool
	un(op, a string) string
	shift(op, a string, neg bool, cnt uint64) (res string, pan string)
	toBits(a string) uint64     // two's complement, sign-extended to 64 bits
	fromBits(b uint64) string   // truncating conversion
	toF64(a string) float64     // Go conversion float64(x)
	toF32(a string) float32     // Go conversion float32(x)
	fromF64(f float64) string   // Go conversion T(f) (caller guarantees in range)
	fromF32(f float32) string   // Go conversion T(f)
	lit(a string) string        // typed literal T(a)
	emit(expr string) string    // decimal rendering call
	toRuneString(a string) string // string(rune(x)) is only used for int32
}

type intT[T integer] struct {
	n  string
	b  int
	sg bool
}

func (t intT[T]) name() string { return t.n }
func (t intT[T]) bits() int    { return t.b }
func (t intT[T]) signed() bool { return t.sg }

func (t intT[T]) min() *big.Int {
	if !t.sg {
		return big.NewInt(0)
	}
	return new(big.Int).Neg(new(big.Int).Lsh(big.NewInt(1), uint(t.b-1)))
}

func (t intT[T]) max() *big.Int {
	n := t.b
	if t.sg {
		n--
	}
	return new(big.Int).Sub(new(big.Int).Lsh(big.NewInt(1), uint(n)), big.NewInt(1))
}

func (t intT[T]) parse(s string) T {
	if t.sg {
		v, err := strconv.ParseInt(s, 10, t.b)
		if err != nil {
			panic(fmt.Sprintf("bad %s operand %q", t.n, s))
		}
		return T(v)
	}
	v, err := strconv.ParseUint(s, 10, t.b)
	if err != nil {
		panic(fmt.Sprintf("bad %s operand %q", t.n, s))
	}
	return T(v)
}

func (t intT[T]) str(v T) string {
	if t.sg {
		return strconv.FormatInt(int64(v), 10)
	}
	return strconv.FormatUint(uint64(v), 10)
}

func (t intT[T]) bin(op, as, bs string) (string, string) {
	a, b := t.parse(as), t.parse(bs)
	var r T
	switch op {
	case "+":
		r = a + b
	case "-":
		r = a - b
	case "*":
		r = a * b
	case "/":
		if b == 0 {
			return "", "div"
		}
		r = a / b
	case "%":
		if b == 0 {
			return "", "div"
		}
		r = a % b
	case "&":
		r = a & b
	case "|":
		r = a | b
	case "^":
		r = a ^ b
	case "&^":
		r = a &^ b
	default:
		panic("bad op " + op)
	}
	return t.str(r), ""
}

func (t intT[T]) cmp(op, as, bs string) bool {
	a, b := t.parse(as), t.parse(bs)
	switch op {
	case "==":
		return a == b
	case "!=":
		return a != b
	case "<":
		return a < b
	case "<=":
		return a <= b
	case ">":
		return a > b
	case ">=":
		return a >= b
	}
	panic("bad op " + op)
}

func (t intT[T]) un(op, as string) string {
	a := t.parse(as)
	switch op {
	case "-":
		return t.str(-a)
	case "^":
		return t.str(^a)
	case "+":
		return t.str(+a)
	}
	panic("bad op " + op)
}

func (t intT[T]) shift(op, as string, neg bool, cnt uint64) (string, string) {
	if neg {
		return "", "shift"
	}
	a := t.parse(as)
	if op == "<<" {
		return t.str(a << cnt), ""
	}
	return t.str(a >> cnt), ""
}

func (t intT[T]) toBits(as string) uint64 {
	a := t.parse(as)
	if t.sg {
		return uint64(int64(a))
	}
	return uint64(a)
}

func (t intT[T]) fromBits(b uint64) string { return t.str(T(b)) }
func (t intT[T]) toF64(as string) float64  { return float64(t.parse(as)) }
func (t intT[T]) toF32(as string) float32  { return float32(t.parse(as)) }
func (t intT[T]) fromF64(f float64) string { return t.str(T(f)) }
func (t intT[T]) fromF32(f float32) string { return t.str(T(f)) }
func (t intT[T]) lit(a string) string      { return t.n + "(" + a + ")" }

func (t intT[T]) emit(expr string) string {
	if t.sg {
		return "emit(itoa(int64(" + expr + ")))"
	}
	return "emit(utoa(uint64(" + expr + ")))"
}

func (t intT[T]) toRuneString(as string) string { return string(rune(t.parse(as))) }

var intTypes = []intOps{
	intT[int8]{"int8", 8, true}, intT[int16]{"int16", 16, true}, intT[int32]{"int32", 32, true}, intT[int64]{"int64", 64, true}, intT[int]{"int", 64, true},
	intT[uint8]{"uint8", 8, false}, intT[uint16]{"uint16", 16, false}, intT[uint32]{"uint32", 32, false}, intT[uint64]{"uint64", 64, false}, intT[uint]{"uint", 64, false},
}

func intType(name string) intOps {
	for _, t := range intTypes {
		if t.name() == name {
			return t
		}
	}
	panic("unknown int type " + name)
}

// ---------- drawing operands

func drawIntType(rt *rapid.T, label string) intOps {
	return intTypes[rapid.IntRange(0, len(intTypes)-1).Draw(rt, label)]
}

// drawInt draws a value of type t: boundary set (0, ±1, min, max, 2^k, 2^k±1) mixed with random.
func drawInt(rt *rapid.T, t intOps, label string) string {
	lo, hi := t.min(), t.max()
	var v *big.Int
	switch rapid.IntRange(0, 9).Draw(rt, label+"k") {
	case 0:
		v = big.NewInt(0)
	case 1:
		v = big.NewInt(1)
	case 2:
		v = big.NewInt(-1)
	case 3:
		v = new(big.Int).Add(lo, big.NewInt(int64(rapid.IntRange(0, 2).Draw(rt, label+"d"))))
	case 4:
		v = new(big.Int).Sub(hi, big.NewInt(int64(rapid.IntRange(0, 2).Draw(rt, label+"d"))))
	case 5, 6:
		k := rapid.IntRange(0, t.bits()).Draw(rt, label+"p")
		v = new(big.Int).Lsh(big.NewInt(1), uint(k))
		v.Add(v, big.NewInt(int64(rapid.IntRange(-1, 1).Draw(rt, label+"d"))))
		if rapid.Bool().Draw(rt, label+"neg") {
			v.Neg(v)
		}
	case 7:
		v = big.NewInt(int64(rapid.IntRange(-130, 260).Draw(rt, label+"s")))
	default:
		u := rapid.Uint64().Draw(rt, label+"r")
		v = new(big.Int).SetUint64(u)
		if t.signed() {
			v = big.NewInt(int64(u))
		}
		if t.bits() < 64 {
			// keep the low bits, sign-extended for signed types
			m := new(big.Int).Lsh(big.NewInt(1), uint(t.bits()))
			v.Mod(v, m)
			if t.signed() && v.Cmp(hi) > 0 {
				v.Sub(v, m)
			}
		}
	}
	// fold out-of-range boundary picks back into range (e.g. -1 for unsigned types)
	if v.Cmp(lo) < 0 || v.Cmp(hi) > 0 {
		m := new(big.Int).Lsh(big.NewInt(1), uint(t.bits()))
		v.Mod(v, m)
		if t.signed() && v.Cmp(hi) > 0 {
			v.Sub(v, m)
		}
	}
	return v.String()
}

var f64Specials = []uint64{
	0, 0x8000000000000000, 0x3ff0000000000000, 0xbff0000000000000, 0x7ff0000000000000, 0xfff0000000000000, 0x7ff8000000000001,
	1, 0x000fffffffffffff, 0x0010000000000000, 0x7fefffffffffffff, 0x3fb999999999999a, 0x3fd3333333333333, 0x4340000000000000, 0x433fffffffffffff,
	0x43e0000000000000, 0xc3e0000000000000, 0x41dfffffffc00000, 0x3ff0000000000001, 0x3fefffffffffffff, 0x4000000000000000, 0x3fe0000000000000, 0x4008000000000000,
}

var f32Specials = []uint32{
	0, 0x80000000, 0x3f800000, 0xbf800000, 0x7f800000, 0xff800000, 0x7fc00001, 1, 0x007fffff, 0x00800000, 0x7f7fffff,
	0x3dcccccd, 0x4b800000, 0x4b7fffff, 0x5f000000, 0x3f800001, 0x3f7fffff, 0x40000000, 0x3f000000, 0x40400000,
}

func drawF64(rt *rapid.T, label string) string {
	var b uint64
	switch rapid.IntRange(0, 3).Draw(rt, label+"k") {
	case 0:
		b = rapid.SampledFrom(f64Specials).Draw(rt, label+"sp")
	case 1:
		b = math.Float64bits(float64(rapid.IntRange(-1000, 1000).Draw(rt, label+"n")) / float64(rapid.SampledFrom([]int{1, 2, 3, 7, 10, 1000}).Draw(rt, label+"d")))
	case 2:
		// random mantissa, exponent near 0 (so that sums and products stay interesting)
		b = rapid.Uint64().Draw(rt, label+"m")&0x800fffffffffffff | uint64(rapid.IntRange(1023-60, 1023+60).Draw(rt, label+"e"))<<52
	default:
		b = rapid.Uint64().Draw(rt, label+"r")
	}
	return strconv.FormatUint(b, 16)
}

func drawF32(rt *rapid.T, label string) string {
	var b uint32
	switch rapid.IntRange(0, 3).Draw(rt, label+"k") {
	case 0:
		b = rapid.SampledFrom(f32Specials).Draw(rt, label+"sp")
	case 1:
		b = math.Float32bits(float32(rapid.IntRange(-1000, 1000).Draw(rt, label+"n")) / float32(rapid.SampledFrom([]int{1, 2, 3, 7, 10, 1000}).Draw(rt, label+"d")))
	case 2:
		b = rapid.Uint32().Draw(rt, label+"m")&0x807fffff | uint32(rapid.IntRange(127-30, 127+30).Draw(rt, label+"e"))<<23
	default:
		b = rapid.Uint32().Draw(rt, label+"r")
	}
	return strconv.FormatUint(uint64(b), 16)
}

var strPieces = []string{"", "a", "b", "ab", "abc", "\x00", "\xff", "\xc3", "é", "世", "\xe4\xb8", "\U0001F600", "\xf0\x9f", "\xed\xa0\x80", "z", "A", " ", "\n", "\"", "\\", "\x7f", "\xc0\x80", "�"}

func drawStr(rt *rapid.T, label string) string {
	n := rapid.IntRange(0, 4).Draw(rt, label+"n")
	var sb strings.Builder
	for i := 0; i < n; i++ {
		sb.WriteString(rapid.SampledFrom(strPieces).Draw(rt, label+"p"))
	}
	return fmt.Sprintf("%x", sb.String())
}

func unhex(s string) string {
	b := make([]byte, len(s)/2)
	for i := range b {
		v, err := strconv.ParseUint(s[2*i:2*i+2], 16, 8)
		if err != nil {
			panic("bad hex " + s)
		}
		b[i] = byte(v)
	}
	return string(b)
}

// strLit renders bytes as an ASCII-only Go/Gno interpreted string literal.
func strLit(s string) string {
	var sb strings.Builder
	sb.WriteByte('"')
	for i := 0; i < len(s); i++ {
		c := s[i]
		if c >= 0x20 && c < 0x7f && c != '"' && c != '\\' {
			sb.WriteByte(c)
		} else {
			fmt.Fprintf(&sb, "\\x%02x", c)
		}
	}
	sb.WriteByte('"')
	return sb.String()
}

var (
	intBinOps = []string{"+", "-", "*", "/", "%", "&", "|", "^", "&^"}
	cmpOps    = []string{"==", "!=", "<", "<=", ">", ">="}
)

var floatLits = []string{"0.1", "0.2", "0.3", "1e-320", "4.9e-324", "2.4e-324", "1.7976931348623157e308", "3.4028235e38", "3.4028236e38", "1e-45", "7e-46", "16777217", "16777216.000001",
	"9007199254740993", "0.5", "1.0000000000000002", "1.00000000000000011102230246251565404236316680908203125", "1.00000000000000011102230246251565404236316680908203126", "123456789.123456789", "0x1p-1074", "0x1.fffffffffffffp1023", "0x1.000002p0", "1e22", "1e23", "8.41e21", "2.2250738585072011e-308", "5e-324", "1_000.5"}

var kindSlots = func() []int {
	s := make([]int, 100)
	for i := range s {
		s[i] = (i * 37) % 100 // a permutation: rapid favours the first slots
	}
	return s
}()

func drawItem(rt *rapid.T) opItem {
	// weighted choice (a sampled slot, not a raw integer: rapid biases integer draws towards the bounds)
	k := rapid.SampledFrom(kindSlots).Draw(rt, "kind")
	switch {
	case k < 18:
		t := drawIntType(rt, "t")
		it := opItem{Kind: "ibin", T: t.name(), Op: rapid.SampledFrom(intBinOps).Draw(rt, "op"), A: drawInt(rt, t, "a"), B: drawInt(rt, t, "b")}
		it.Mode = rapid.SampledFrom([]string{"var", "dirty", "assign", "dirtyassign", "mixed", "const"}).Draw(rt, "mode")
		return it
	case k < 24:
		t := drawIntType(rt, "t")
		return opItem{Kind: "icmp", T: t.name(), Op: rapid.SampledFrom(cmpOps).Draw(rt, "op"), A: drawInt(rt, t, "a"), B: drawInt(rt, t, "b"),
			Mode: rapid.SampledFrom([]string{"var", "dirty", "mixed", "const"}).Draw(rt, "mode")}
	case k < 38:
		t, ct := drawIntType(rt, "t"), drawIntType(rt, "ct")
		it := opItem{Kind: "shift", T: t.name(), T2: ct.name(), Op: rapid.SampledFrom([]string{"<<", ">>"}).Draw(rt, "op"), A: drawInt(rt, t, "a")}
		// counts: 0, 1, width-1, width, width+1, 63, 64, 65, large, negative
		w := t.bits()
		c := rapid.SampledFrom([]int64{0, 1, 2, 7, 8, 15, 16, 31, 32, 33, 63, 64, 65, int64(w - 1), int64(w), int64(w + 1), 100, 127, 255, 1 << 20, math.MaxInt64, -1, -64, math.MinInt64}).Draw(rt, "c")
		cv := big.NewInt(c)
		if cv.Cmp(ct.min()) < 0 || cv.Cmp(ct.max()) > 0 {
			if rapid.Bool().Draw(rt, "cedge") {
				cv = ct.max()
			} else {
				cv = big.NewInt(int64(rapid.IntRange(0, 70).Draw(rt, "csmall")))
			}
		}
		it.B = cv.String()
		it.Mode = rapid.SampledFrom([]string{"var", "dirty", "assign", "dirtyassign", "mixed", "const"}).Draw(rt, "mode")
		return it
	case k < 44:
		t := drawIntType(rt, "t")
		return opItem{Kind: "iun", T: t.name(), Op: rapid.SampledFrom([]string{"-", "^", "+"}).Draw(rt, "op"), A: drawInt(rt, t, "a"),
			Mode: rapid.SampledFrom([]string{"var", "dirty", "const"}).Draw(rt, "mode")}
	case k < 52:
		t, t2 := drawIntType(rt, "t"), drawIntType(rt, "t2")
		return opItem{Kind: "iconv", T: t.name(), T2: t2.name(), A: drawInt(rt, t, "a"), Mode: rapid.SampledFrom([]string{"var", "dirty", "const"}).Draw(rt, "mode")}
	case k < 57:
		t := drawIntType(rt, "t")
		return opItem{Kind: "i2f", T: t.name(), T2: rapid.SampledFrom([]string{"float64", "float32"}).Draw(rt, "ft"), A: drawInt(rt, t, "a")}
	case k < 62:
		t := drawIntType(rt, "t")
		if rapid.Bool().Draw(rt, "f32") {
			return opItem{Kind: "f2i", T: "float32", T2: t.name(), A: drawF32(rt, "a")}
		}
		return opItem{Kind: "f2i", T: "float64", T2: t.name(), A: drawF64(rt, "a")}
	case k < 72:
		op := rapid.SampledFrom([]string{"+", "-", "*", "/", "==", "!=", "<", "<=", ">", ">=", "neg", "to32", "to64"}).Draw(rt, "op")
		if rapid.IntRange(0, 2).Draw(rt, "f32") == 0 {
			return opItem{Kind: "float", T: "float32", Op: op, A: drawF32(rt, "a"), B: drawF32(rt, "b")}
		}
		return opItem{Kind: "float", T: "float64", Op: op, A: drawF64(rt, "a"), B: drawF64(rt, "b")}
	case k < 76:
		lit := rapid.SampledFrom(floatLits).Draw(rt, "lit")
		if rapid.IntRange(0, 2).Draw(rt, "gen") == 0 {
			lit = fmt.Sprintf("%d.%de%d", rapid.IntRange(0, 99999).Draw(rt, "ip"), rapid.IntRange(0, 999999999).Draw(rt, "fp"), rapid.IntRange(-330, 300).Draw(rt, "ex"))
		}
		return opItem{Kind: "flit", T: rapid.SampledFrom([]string{"float64", "float32"}).Draw(rt, "ft"), A: lit}
	case k < 93:
		op := rapid.SampledFrom([]string{"+", "==", "<", "<=", ">", "!=", ">=", "len", "index", "slice", "range", "bytes", "runes", "runecount"}).Draw(rt, "op")
		it := opItem{Kind: "str", Op: op, A: drawStr(rt, "a"), B: drawStr(rt, "b"), I: rapid.IntRange(-1, 9).Draw(rt, "i"), J: rapid.IntRange(-1, 9).Draw(rt, "j")}
		it.Mode = "var"
		if (op == "+" || op == "len" || len(op) <= 2) && rapid.IntRange(0, 3).Draw(rt, "const") == 0 {
			it.Mode = "const"
		}
		return it
	case k < 95:
		return opItem{Kind: "runestr", T: "int32", A: drawInt(rt, intType("int32"), "a")}
	case k < 98:
		return drawUntyped(rt)
	default:
		return drawUntypedFloat(rt)
	}
}

// ---------- untyped floating-point constant expressions. Go evaluates them
// exactly (arbitrary precision) and rounds once when the constant is converted
// to float64/float32; the expected value is computed with math/big.Rat.

func drawUntypedFloat(rt *rapid.T) opItem {
	lits := []string{"0.1", "0.2", "0.3", "1.5", "2.0", "3.0", "7.0", "10.0", "0.25", "1e3", "1e-3", "2.5e2", "9.75", "1.1", "3", "4", "10", "7", "100", "0.7"}
	var gen func(depth int) (string, *big.Rat, bool)
	gen = func(depth int) (string, *big.Rat, bool) {
		if depth <= 0 || rapid.IntRange(0, 3).Draw(rt, "leaf") == 0 {
			l := rapid.SampledFrom(lits).Draw(rt, "flit")
			r, ok := new(big.Rat).SetString(l)
			if !ok {
				panic("bad literal " + l)
			}
			return l, r, !strings.ContainsAny(l, ".e")
		}
		op := rapid.SampledFrom([]string{"+", "-", "*", "/", "/"}).Draw(rt, "fop")
		ls, lv, li := gen(depth - 1)
		rs, rv, ri := gen(depth - 1)
		res := new(big.Rat)
		switch op {
		case "+":
			res.Add(lv, rv)
		case "-":
			res.Sub(lv, rv)
		case "*":
			res.Mul(lv, rv)
		case "/":
			if rv.Sign() == 0 {
				return ls, lv, li
			}
			if li && ri {
				// both operands untyped integer constants: truncated integer division
				q := new(big.Int).Quo(new(big.Int).Quo(lv.Num(), lv.Denom()), new(big.Int).Quo(rv.Num(), rv.Denom()))
				return "(" + ls + " / " + rs + ")", new(big.Rat).SetInt(q), true
			}
			res.Quo(lv, rv)
		}
		return "(" + ls + " " + op + " " + rs + ")", res, li && ri
	}
	s, v, _ := gen(3)
	t := rapid.SampledFrom([]string{"float64", "float64", "float32"}).Draw(rt, "ft")
	return opItem{Kind: "ufloat", T: t, A: s, B: v.String()}
}

// ---------- untyped constant expressions (arbitrary precision in both languages)

func drawUntyped(rt *rapid.T) opItem {
	var gen func(depth int) (string, *big.Int)
	lim := new(big.Int).Lsh(big.NewInt(1), 200)
	gen = func(depth int) (string, *big.Int) {
		if depth <= 0 || rapid.IntRange(0, 3).Draw(rt, "leaf") == 0 {
			var v *big.Int
			switch rapid.IntRange(0, 3).Draw(rt, "lk") {
			case 0:
				v = big.NewInt(int64(rapid.IntRange(0, 9).Draw(rt, "small")))
			case 1:
				v = new(big.Int).Lsh(big.NewInt(1), uint(rapid.IntRange(0, 70).Draw(rt, "p")))
			case 2:
				v = new(big.Int).SetUint64(rapid.Uint64().Draw(rt, "u"))
			default:
				v = big.NewInt(int64(rapid.IntRange(0, 100000).Draw(rt, "m")))
			}
			return v.String(), v
		}
		op := rapid.SampledFrom([]string{"+", "-", "*", "/", "%", "<<", ">>", "&", "|", "^", "&^", "neg", "not"}).Draw(rt, "uop")
		ls, lv := gen(depth - 1)
		switch op {
		case "neg":
			return "(-" + ls + ")", new(big.Int).Neg(lv)
		case "not":
			return "(^" + ls + ")", new(big.Int).Not(lv)
		case "<<", ">>":
			c := rapid.IntRange(0, 70).Draw(rt, "cnt")
			r := new(big.Int)
			if op == "<<" {
				r.Lsh(lv, uint(c))
			} else {
				r.Rsh(lv, uint(c))
			}
			if r.CmpAbs(lim) > 0 {
				return ls, lv
			}
			return "(" + ls + " " + op + " " + strconv.Itoa(c) + ")", r
		}
		rs, rv := gen(depth - 1)
		r := new(big.Int)
		switch op {
		case "+":
			r.Add(lv, rv)
		case "-":
			r.Sub(lv, rv)
		case "*":
			r.Mul(lv, rv)
		case "/", "%":
			if rv.Sign() == 0 {
				return ls, lv
			}
			if op == "/" {
				r.Quo(lv, rv) // truncated, as Go's constant integer division
			} else {
				r.Rem(lv, rv)
			}
		case "&":
			r.And(lv, rv)
		case "|":
			r.Or(lv, rv)
		case "^":
			r.Xor(lv, rv)
		case "&^":
			r.AndNot(lv, rv)
		}
		if r.CmpAbs(lim) > 0 {
			return ls, lv
		}
		return "(" + ls + " " + op + " " + rs + ")", r
	}
	s, v := gen(3)
	// bring the result into int64 range with a final modulus
	if !v.IsInt64() {
		s = "(" + s + " % 9223372036854775807)"
		v = new(big.Int).Rem(v, big.NewInt(math.MaxInt64))
	}
	return opItem{Kind: "untyped", A: s, B: v.String()}
}

// ---------- expected value + Gno source of one item

func bigOf(s string) *big.Int {
	v, ok := new(big.Int).SetString(s, 10)
	if !ok {
		panic("bad int " + s)
	}
	return v
}

func inRange(v *big.Int, t intOps) bool { return v.Cmp(t.min()) >= 0 && v.Cmp(t.max()) <= 0 }

// constOK reports whether Go accepts `T(a) op T(b)` as a constant expression.
func constBinOK(t intOps, op string, a, b *big.Int) bool {
	r := new(big.Int)
	switch op {
	case "+":
		r.Add(a, b)
	case "-":
		r.Sub(a, b)
	case "*":
		r.Mul(a, b)
	case "/", "%":
		if b.Sign() == 0 {
			return false
		}
		if op == "/" {
			r.Quo(a, b)
		} else {
			r.Rem(a, b)
		}
	default:
		return true // bitwise operators of in-range operands stay in range
	}
	return inRange(r, t)
}

func fmtF64(f float64) string {
	if f != f {
		return "NaN"
	}
	return strconv.FormatUint(math.Float64bits(f), 16)
}

func fmtF32(f float32) string {
	if f != f {
		return "NaN"
	}
	return strconv.FormatUint(uint64(math.Float32bits(f)), 16)
}

func parseBits(s string, bits int) uint64 {
	v, err := strconv.ParseUint(s, 16, bits)
	if err != nil {
		panic("bad float bits " + s)
	}
	return v
}

func f64Arg(bits string) string { return "math.Float64frombits(0x" + bits + ")" }
func f32Arg(bits string) string { return "math.Float32frombits(0x" + bits + ")" }

// dirty returns an int64 literal w such that T(w) == a although the bits of w
// above T's width are the complement of a's sign/zero extension: the value
// reaches the operator through a narrowing conversion (mode "dirty").
func dirty(t intOps, a string) string {
	b := t.toBits(a)
	if t.bits() < 64 {
		b ^= ^uint64(0) << uint(t.bits())
	}
	return "int64(" + strconv.FormatInt(int64(b), 10) + ")"
}

// build returns the expected output of the item (lines, each ending in \n) and
// its Gno fragment. id makes top-level names unique.
func (it opItem) build(id int) (want string, fr Frag, boundary bool) {
	fn := "op" + strconv.Itoa(id)
	panicLine := func(class string) string { return "!panic " + class + "\n" }
	switch it.Kind {
	case "ibin", "icmp":
		t := intType(it.T)
		a, b := bigOf(it.A), bigOf(it.B)
		boundary = a.Cmp(t.min()) == 0 || a.Cmp(t.max()) == 0 || b.Cmp(t.min()) == 0 || b.Cmp(t.max()) == 0 || b.Sign() == 0
		mode := it.Mode
		resT, emitExpr := it.T, t.emit
		if it.Kind == "icmp" {
			resT = "bool"
			emitExpr = func(e string) string { return "emit(btoa(" + e + "))" }
		}
		if mode == "const" && it.Kind == "ibin" && !constBinOK(t, it.Op, a, b) {
			mode = "var"
		}
		if mode == "mixed" && (it.Op == "/" || it.Op == "%") && b.Sign() == 0 {
			mode = "var" // a constant zero divisor is a compile error in Go
		}
		if mode == "assign" && it.Kind == "icmp" {
			mode = "var"
		}
		if it.Kind == "ibin" {
			r, pan := t.bin(it.Op, it.A, it.B)
			want = r + "\n"
			if pan != "" {
				want = panicLine(pan)
			}
		} else {
			want = strconv.FormatBool(t.cmp(it.Op, it.A, it.B)) + "\n"
		}
		if mode == "dirtyassign" && it.Kind == "icmp" {
			mode = "dirty"
		}
		switch mode {
		case "dirty":
			fr.Decl = fmt.Sprintf("func %s(aw, bw int64) %s { a, b := %s(aw), %s(bw); return a %s b }\n", fn, resT, it.T, it.T, it.Op)
			fr.Body = "\t" + emitExpr(fmt.Sprintf("%s(%s, %s)", fn, dirty(t, it.A), dirty(t, it.B)))
		case "dirtyassign":
			fr.Decl = fmt.Sprintf("func %s(aw, bw int64) %s { a, b := %s(aw), %s(bw); a %s= b; return a }\n", fn, resT, it.T, it.T, it.Op)
			fr.Body = "\t" + emitExpr(fmt.Sprintf("%s(%s, %s)", fn, dirty(t, it.A), dirty(t, it.B)))
		case "var":
			fr.Decl = fmt.Sprintf("func %s(a, b %s) %s { return a %s b }\n", fn, it.T, resT, it.Op)
			fr.Body = "\t" + emitExpr(fmt.Sprintf("%s(%s, %s)", fn, t.lit(it.A), t.lit(it.B)))
		case "assign":
			fr.Decl = fmt.Sprintf("func %s(a, b %s) %s { a %s= b; return a }\n", fn, it.T, resT, it.Op)
			fr.Body = "\t" + emitExpr(fmt.Sprintf("%s(%s, %s)", fn, t.lit(it.A), t.lit(it.B)))
		case "mixed":
			fr.Decl = fmt.Sprintf("func %s(a %s) %s { return a %s (%s) }\n", fn, it.T, resT, it.Op, it.B)
			fr.Body = "\t" + emitExpr(fmt.Sprintf("%s(%s)", fn, t.lit(it.A)))
		case "const":
			fr.Decl = fmt.Sprintf("const k%s = %s %s %s\n", fn, t.lit(it.A), it.Op, t.lit(it.B))
			fr.Body = "\t" + emitExpr("k"+fn)
		}
		fr.Cats = []string{it.Kind + ":" + mode}
	case "shift":
		t, ct := intType(it.T), intType(it.T2)
		c := bigOf(it.B)
		neg := c.Sign() < 0
		var cnt uint64
		if !neg {
			cnt = c.Uint64()
		}
		boundary = true
		mode := it.Mode
		r, pan := t.shift(it.Op, it.A, neg, cnt)
		want = r + "\n"
		if pan != "" {
			want = panicLine(pan)
		}
		if mode == "const" || mode == "mixed" {
			// a constant count must be non-negative and small; a constant result must fit
			if neg || cnt > 100 {
				mode = "var"
			} else if mode == "const" {
				v := bigOf(it.A)
				if it.Op == "<<" {
					v = new(big.Int).Lsh(v, uint(cnt))
				}
				if !inRange(v, t) {
					mode = "var"
				}
			}
		}
		switch mode {
		case "dirty":
			fr.Decl = fmt.Sprintf("func %s(aw, cw int64) %s { a, c := %s(aw), %s(cw); return a %s c }\n", fn, it.T, it.T, it.T2, it.Op)
			fr.Body = "\t" + t.emit(fmt.Sprintf("%s(%s, %s)", fn, dirty(t, it.A), dirty(ct, it.B)))
		case "dirtyassign":
			fr.Decl = fmt.Sprintf("func %s(aw, cw int64) %s { a, c := %s(aw), %s(cw); a %s= c; return a }\n", fn, it.T, it.T, it.T2, it.Op)
			fr.Body = "\t" + t.emit(fmt.Sprintf("%s(%s, %s)", fn, dirty(t, it.A), dirty(ct, it.B)))
		case "var":
			fr.Decl = fmt.Sprintf("func %s(a %s, c %s) %s { return a %s c }\n", fn, it.T, it.T2, it.T, it.Op)
			fr.Body = "\t" + t.emit(fmt.Sprintf("%s(%s, %s)", fn, t.lit(it.A), ct.lit(it.B)))
		case "assign":
			fr.Decl = fmt.Sprintf("func %s(a %s, c %s) %s { a %s= c; return a }\n", fn, it.T, it.T2, it.T, it.Op)
			fr.Body = "\t" + t.emit(fmt.Sprintf("%s(%s, %s)", fn, t.lit(it.A), ct.lit(it.B)))
		case "mixed":
			fr.Decl = fmt.Sprintf("func %s(a %s) %s { return a %s %s }\n", fn, it.T, it.T, it.Op, it.B)
			fr.Body = "\t" + t.emit(fmt.Sprintf("%s(%s)", fn, t.lit(it.A)))
		case "const":
			fr.Decl = fmt.Sprintf("const k%s = %s %s %s\n", fn, t.lit(it.A), it.Op, it.B)
			fr.Body = "\t" + t.emit("k"+fn)
		}
		fr.Cats = []string{"shift:" + mode}
	case "iun":
		t := intType(it.T)
		a := bigOf(it.A)
		boundary = a.Cmp(t.min()) == 0 || a.Cmp(t.max()) == 0 || a.Sign() == 0
		want = t.un(it.Op, it.A) + "\n"
		mode := it.Mode
		if mode == "const" {
			// -x must be representable; ^x always is; -x of unsigned only for 0
			if it.Op == "-" && !inRange(new(big.Int).Neg(a), t) {
				mode = "var"
			}
		}
		if mode == "const" {
			fr.Decl = fmt.Sprintf("const k%s = %s%s\n", fn, it.Op, t.lit(it.A))
			fr.Body = "\t" + t.emit("k"+fn)
		} else if mode == "dirty" {
			fr.Decl = fmt.Sprintf("func %s(aw int64) %s { a := %s(aw); return %sa }\n", fn, it.T, it.T, it.Op)
			fr.Body = "\t" + t.emit(fmt.Sprintf("%s(%s)", fn, dirty(t, it.A)))
		} else {
			fr.Decl = fmt.Sprintf("func %s(a %s) %s { return %sa }\n", fn, it.T, it.T, it.Op)
			fr.Body = "\t" + t.emit(fmt.Sprintf("%s(%s)", fn, t.lit(it.A)))
		}
		fr.Cats = []string{"iun:" + mode}
	case "iconv":
		t, t2 := intType(it.T), intType(it.T2)
		a := bigOf(it.A)
		boundary = !inRange(a, t2) || a.Cmp(t.min()) == 0 || a.Cmp(t.max()) == 0
		want = t2.fromBits(t.toBits(it.A)) + "\n"
		mode := it.Mode
		if mode == "const" && !inRange(a, t2) {
			mode = "var" // constant conversion must be representable
		}
		if mode == "const" {
			fr.Decl = fmt.Sprintf("const k%s = %s(%s)\n", fn, it.T2, t.lit(it.A))
			fr.Body = "\t" + t2.emit("k"+fn)
		} else if mode == "dirty" {
			fr.Decl = fmt.Sprintf("func %s(aw int64) %s { a := %s(aw); return %s(a) }\n", fn, it.T2, it.T, it.T2)
			fr.Body = "\t" + t2.emit(fmt.Sprintf("%s(%s)", fn, dirty(t, it.A)))
		} else {
			fr.Decl = fmt.Sprintf("func %s(a %s) %s { return %s(a) }\n", fn, it.T, it.T2, it.T2)
			fr.Body = "\t" + t2.emit(fmt.Sprintf("%s(%s)", fn, t.lit(it.A)))
		}
		fr.Cats = []string{"iconv:" + mode}
	case "i2f":
		t := intType(it.T)
		boundary = true
		fr.Decl = fmt.Sprintf("func %s(a %s) %s { return %s(a) }\n", fn, it.T, it.T2, it.T2)
		if it.T2 == "float64" {
			want = fmtF64(t.toF64(it.A)) + "\n"
			fr.Body = fmt.Sprintf("\temit(fbits(%s(%s)))", fn, t.lit(it.A))
		} else {
			want = fmtF32(t.toF32(it.A)) + "\n"
			fr.Body = fmt.Sprintf("\temit(f32bits(%s(%s)))", fn, t.lit(it.A))
		}
		fr.Cats = []string{"i2f"}
	case "f2i":
		t2 := intType(it.T2)
		var f float64
		var arg string
		if it.T == "float32" {
			f = float64(math.Float32frombits(uint32(parseBits(it.A, 32))))
			arg = f32Arg(it.A)
		} else {
			f = math.Float64frombits(parseBits(it.A, 64))
			arg = f64Arg(it.A)
		}
		// Go leaves the conversion of an out-of-range (or NaN) float to an integer
		// implementation-defined: those operands are replaced by an in-range one.
		ok := f == f && !math.IsInf(f, 0)
		if ok {
			tr, _ := new(big.Float).SetFloat64(math.Trunc(f)).Int(nil)
			ok = inRange(tr, t2)
		}
		if !ok {
			f = 41.75
			if it.T == "float32" {
				arg = f32Arg(strconv.FormatUint(uint64(math.Float32bits(41.75)), 16))
			} else {
				arg = f64Arg(strconv.FormatUint(math.Float64bits(41.75), 16))
			}
		}
		boundary = ok
		if it.T == "float32" {
			want = t2.fromF32(float32(f)) + "\n"
		} else {
			want = t2.fromF64(f) + "\n"
		}
		fr.Decl = fmt.Sprintf("func %s(a %s) %s { return %s(a) }\n", fn, it.T, it.T2, it.T2)
		fr.Body = "\t" + t2.emit(fmt.Sprintf("%s(%s)", fn, arg))
		fr.Cats = []string{"f2i"}
	case "float":
		boundary = true
		is32 := it.T == "float32"
		argA, argB := f64Arg(it.A), f64Arg(it.B)
		if is32 {
			argA, argB = f32Arg(it.A), f32Arg(it.B)
		}
		var a64, b64 float64
		var a32, b32 float32
		if is32 {
			a32, b32 = math.Float32frombits(uint32(parseBits(it.A, 32))), math.Float32frombits(uint32(parseBits(it.B, 32)))
		} else {
			a64, b64 = math.Float64frombits(parseBits(it.A, 64)), math.Float64frombits(parseBits(it.B, 64))
		}
		fb := "fbits"
		if is32 {
			fb = "f32bits"
		}
		switch it.Op {
		case "+", "-", "*", "/":
			if is32 {
				var r float32
				switch it.Op {
				case "+":
					r = a32 + b32
				case "-":
					r = a32 - b32
				case "*":
					r = a32 * b32
				case "/":
					r = a32 / b32
				}
				want = fmtF32(r) + "\n"
			} else {
				var r float64
				switch it.Op {
				case "+":
					r = a64 + b64
				case "-":
					r = a64 - b64
				case "*":
					r = a64 * b64
				case "/":
					r = a64 / b64
				}
				want = fmtF64(r) + "\n"
			}
			fr.Decl = fmt.Sprintf("func %s(a, b %s) %s { return a %s b }\n", fn, it.T, it.T, it.Op)
			fr.Body = fmt.Sprintf("\temit(%s(%s(%s, %s)))", fb, fn, argA, argB)
		case "neg":
			if is32 {
				want = fmtF32(-a32) + "\n"
			} else {
				want = fmtF64(-a64) + "\n"
			}
			fr.Decl = fmt.Sprintf("func %s(a %s) %s { return -a }\n", fn, it.T, it.T)
			fr.Body = fmt.Sprintf("\temit(%s(%s(%s)))", fb, fn, argA)
		case "to32":
			if is32 {
				want = fmtF32(float32(a32)) + "\n"
			} else {
				want = fmtF32(float32(a64)) + "\n"
			}
			fr.Decl = fmt.Sprintf("func %s(a %s) float32 { return float32(a) }\n", fn, it.T)
			fr.Body = fmt.Sprintf("\temit(f32bits(%s(%s)))", fn, argA)
		case "to64":
			if is32 {
				want = fmtF64(float64(a32)) + "\n"
			} else {
				want = fmtF64(float64(a64)) + "\n"
			}
			fr.Decl = fmt.Sprintf("func %s(a %s) float64 { return float64(a) }\n", fn, it.T)
			fr.Body = fmt.Sprintf("\temit(fbits(%s(%s)))", fn, argA)
		default:
			var r bool
			if is32 {
				switch it.Op {
				case "==":
					r = a32 == b32
				case "!=":
					r = a32 != b32
				case "<":
					r = a32 < b32
				case "<=":
					r = a32 <= b32
				case ">":
					r = a32 > b32
				case ">=":
					r = a32 >= b32
				}
			} else {
				switch it.Op {
				case "==":
					r = a64 == b64
				case "!=":
					r = a64 != b64
				case "<":
					r = a64 < b64
				case "<=":
					r = a64 <= b64
				case ">":
					r = a64 > b64
				case ">=":
					r = a64 >= b64
				}
			}
			want = strconv.FormatBool(r) + "\n"
			fr.Decl = fmt.Sprintf("func %s(a, b %s) bool { return a %s b }\n", fn, it.T, it.Op)
			fr.Body = fmt.Sprintf("\temit(btoa(%s(%s, %s)))", fn, argA, argB)
		}
		fr.Cats = []string{"float:" + it.T}
	case "flit":
		boundary = true
		if it.T == "float32" {
			f, _ := strconv.ParseFloat(strings.ReplaceAll(it.A, "_", ""), 32)
			if math.IsInf(f, 0) {
				// a literal that overflows the type is a compile error: use a fixed one
				it.A, f = "0.1", float64(float32(0.1))
			}
			want = fmtF32(float32(f)) + "\n"
			fr.Decl = fmt.Sprintf("var v%s float32 = %s\n", fn, it.A)
			fr.Body = fmt.Sprintf("\temit(f32bits(v%s))", fn)
		} else {
			f, _ := strconv.ParseFloat(strings.ReplaceAll(it.A, "_", ""), 64)
			if math.IsInf(f, 0) {
				it.A, f = "0.1", 0.1
			}
			want = fmtF64(f) + "\n"
			fr.Decl = fmt.Sprintf("var v%s float64 = %s\n", fn, it.A)
			fr.Body = fmt.Sprintf("\temit(fbits(v%s))", fn)
		}
		fr.Cats = []string{"flit"}
	case "str":
		a, b := unhex(it.A), unhex(it.B)
		la, lb := strLit(a), strLit(b)
		boundary = !utf8.ValidString(a) || a == "" || it.I < 0 || it.I >= len(a)
		hexOf := func(s string) string { return fmt.Sprintf("%x", s) }
		switch it.Op {
		case "+":
			want = hexOf(a+b) + "\n"
			if it.Mode == "const" {
				fr.Decl = fmt.Sprintf("const k%s = %s + %s\n", fn, la, lb)
				fr.Body = fmt.Sprintf("\temit(hexs(k%s))", fn)
			} else {
				fr.Decl = fmt.Sprintf("func %s(a, b string) string { return a + b }\n", fn)
				fr.Body = fmt.Sprintf("\temit(hexs(%s(%s, %s)))", fn, la, lb)
			}
		case "==", "!=", "<", "<=", ">", ">=":
			var r bool
			switch it.Op {
			case "==":
				r = a == b
			case "!=":
				r = a != b
			case "<":
				r = a < b
			case "<=":
				r = a <= b
			case ">":
				r = a > b
			case ">=":
				r = a >= b
			}
			want = strconv.FormatBool(r) + "\n"
			if it.Mode == "const" {
				fr.Decl = fmt.Sprintf("const k%s = %s %s %s\n", fn, la, it.Op, lb)
				fr.Body = fmt.Sprintf("\temit(btoa(k%s))", fn)
			} else {
				fr.Decl = fmt.Sprintf("func %s(a, b string) bool { return a %s b }\n", fn, it.Op)
				fr.Body = fmt.Sprintf("\temit(btoa(%s(%s, %s)))", fn, la, lb)
			}
		case "len":
			want = strconv.Itoa(len(a)) + "\n"
			if it.Mode == "const" {
				fr.Decl = fmt.Sprintf("const k%s = len(%s)\n", fn, la)
				fr.Body = fmt.Sprintf("\temit(itoa(int64(k%s)))", fn)
			} else {
				fr.Decl = fmt.Sprintf("func %s(a string) int { return len(a) }\n", fn)
				fr.Body = fmt.Sprintf("\temit(itoa(int64(%s(%s))))", fn, la)
			}
		case "index":
			if it.I < 0 || it.I >= len(a) {
				want = panicLine("bounds")
			} else {
				want = strconv.Itoa(int(a[it.I])) + "\n"
			}
			fr.Decl = fmt.Sprintf("func %s(a string, i int) byte { return a[i] }\n", fn)
			fr.Body = fmt.Sprintf("\temit(itoa(int64(%s(%s, %d))))", fn, la, it.I)
		case "slice":
			if it.I < 0 || it.J < it.I || it.J > len(a) {
				want = panicLine("bounds")
			} else {
				want = hexOf(a[it.I:it.J]) + "\n"
			}
			fr.Decl = fmt.Sprintf("func %s(a string, i, j int) string { return a[i:j] }\n", fn)
			fr.Body = fmt.Sprintf("\temit(hexs(%s(%s, %d, %d)))", fn, la, it.I, it.J)
		case "range":
			var sb strings.Builder
			for i, r := range a {
				sb.WriteString(strconv.Itoa(i) + ":" + strconv.Itoa(int(r)) + "\n")
			}
			want = sb.String()
			fr.Decl = fmt.Sprintf("func %s(a string) { for i, r := range a { emit(itoa(int64(i)) + \":\" + itoa(int64(r))) } }\n", fn)
			fr.Body = fmt.Sprintf("\t%s(%s)", fn, la)
		case "bytes":
			want = hexOf(string([]byte(a))) + ":" + strconv.Itoa(len([]byte(a))) + "\n"
			fr.Decl = fmt.Sprintf("func %s(a string) string { b := []byte(a); return hexs(string(b)) + \":\" + itoa(int64(len(b))) }\n", fn)
			fr.Body = fmt.Sprintf("\temit(%s(%s))", fn, la)
		case "runes":
			want = hexOf(string([]rune(a))) + "\n"
			fr.Decl = fmt.Sprintf("func %s(a string) string { return string([]rune(a)) }\n", fn)
			fr.Body = fmt.Sprintf("\temit(hexs(%s(%s)))", fn, la)
		case "runecount":
			rs := []rune(a)
			var sb strings.Builder
			sb.WriteString(strconv.Itoa(len(rs)))
			for _, r := range rs {
				sb.WriteString("," + strconv.Itoa(int(r)))
			}
			want = sb.String() + "\n"
			fr.Decl = fmt.Sprintf("func %s(a string) string { rs := []rune(a); s := itoa(int64(len(rs))); for _, r := range rs { s += \",\" + itoa(int64(r)) }; return s }\n", fn)
			fr.Body = fmt.Sprintf("\temit(%s(%s))", fn, la)
		}
		fr.Cats = []string{"str:" + it.Op}
	case "runestr":
		t := intType("int32")
		boundary = true
		want = fmt.Sprintf("%x\n", t.toRuneString(it.A))
		fr.Decl = fmt.Sprintf("func %s(a int32) string { return string(rune(a)) }\n", fn)
		fr.Body = fmt.Sprintf("\temit(hexs(%s(%s)))", fn, t.lit(it.A))
		fr.Cats = []string{"runestr"}
	case "ufloat":
		boundary = true
		r, ok := new(big.Rat).SetString(it.B)
		if !ok {
			panic("bad rational " + it.B)
		}
		if it.T == "float32" {
			f, _ := r.Float32()
			want = fmtF32(f) + "\n"
			fr.Decl = fmt.Sprintf("const k%s = %s\n\nvar v%s float32 = k%s\n", fn, it.A, fn, fn)
			fr.Body = fmt.Sprintf("\temit(f32bits(v%s))", fn)
		} else {
			f, _ := r.Float64()
			want = fmtF64(f) + "\n"
			fr.Decl = fmt.Sprintf("const k%s = %s\n\nvar v%s float64 = k%s\n", fn, it.A, fn, fn)
			fr.Body = fmt.Sprintf("\temit(fbits(v%s))", fn)
		}
		fr.Cats = []string{"untyped-float-const"}
	case "untyped":
		boundary = true
		want = it.B + "\n"
		fr.Decl = fmt.Sprintf("const k%s = %s\n", fn, it.A)
		fr.Body = fmt.Sprintf("\temit(itoa(int64(k%s)))", fn)
		fr.Cats = []string{"untyped-const"}
	default:
		panic("bad item kind " + it.Kind)
	}
	return
}

func opExec(ctx *vk.Ctx, c opCase) error {
	if len(c.Items) == 0 {
		return nil
	}
	frags := make([]Frag, len(c.Items))
	wants := make([]string, len(c.Items))
	nb := 0
	for i, it := range c.Items {
		var b bool
		wants[i], frags[i], b = it.build(i)
		if b {
			nb++
		}
		for _, cat := range frags[i].Cats {
			ctx.Class(cat)
		}
	}
	_, gnoSrc := render(frags)
	res := runGno(gnoSrc)
	if res.Crash != "" {
		return fmt.Errorf("GnoVM crashed with a Go panic: %s\n--- source\n%s", res.Crash, gnoSrc)
	}
	if res.Rejected != "" {
		return fmt.Errorf("GnoVM rejects a program of operator expressions that are valid Go: %s\n--- source\n%s", res.Rejected, gnoSrc)
	}
	if res.Panic != "" {
		return fmt.Errorf("GnoVM run ended with an unhandled panic: %s\n--- source\n%s", res.Panic, gnoSrc)
	}
	got, err := split(res.Out, len(frags))
	if err != nil {
		return fmt.Errorf("gno output malformed: %v\n%s", err, res.Out)
	}
	for i := range frags {
		if got[i] != wants[i] {
			// exactly the recorded divergence: compound shift assignment whose count has a type
			// other than uint and reached it through a narrowing conversion
			if it := c.Items[i]; it.Kind == "shift" && it.Mode == "dirtyassign" && it.T2 != "uint" && it.T2 != "uint64" && it.T2 != "int64" && it.T2 != "int" &&
				ctx.Known("shift-assign-count-not-converted-to-uint") {
				continue
			}
			return fmt.Errorf("item %d %+v: Gno printed %q, Go computes %q\n--- gno source of the item\n%s%s", i, c.Items[i], got[i], wants[i], frags[i].Decl, frags[i].Body)
		}
	}
	ctx.NTIf(nb > 0)
	return nil
}

func TestC04_Operators(t *testing.T) {
	vk.Run(t, vk.Spec[opCase]{
		ID: "C04", Name: "TestC04_Operators",
		Rule: "rapid: 1..16 operator items per program: integer + - * / % & | ^ &^, comparisons, shifts (count of any integer type: 0, width-1, width, large, negative), unary - ^, conversions between all 10 integer types, int<->float, float32/64 arithmetic, comparisons and literals, string concat/compare/len/index/slice/range/[]byte/[]rune/string(rune), untyped big integer constants and untyped floating-point constant expressions (exact evaluation, one rounding); operands from boundary sets (0, ±1, min, max, 2^k±1) mixed with random; evaluated through parameters, through parameters narrowed from int64 words with complemented high bits, compound assignment, literal right operand, or as a constant expression when Go accepts it; expected values computed by the harness's own Go code; non-trivial = at least one item has a boundary operand; distinct by case hash",
		Draw: func(rt *rapid.T) opCase {
			n := rapid.IntRange(1, 16).Draw(rt, "n")
			c := opCase{}
			for i := 0; i < n; i++ {
				c.Items = append(c.Items, drawItem(rt))
			}
			return c
		},
		Exec: opExec,
	})
}
