package gnogo

import (
	"strings"
	"encoding/json"
	"fmt"
	"os"
	"testing"
)

// development aid: run the file named by GNOSRC on GnoVM and (GOSRC) with Go
func TestDevRun(t *testing.T) {
	if p := os.Getenv("GNOSRC"); p != "" {
		b, _ := os.ReadFile(p)
		r := runGno(string(b))
		fmt.Printf("GNO out:\n%s\nrejected: %q\npanic: %q\ncrash: %.300q\n", r.Out, r.Rejected, r.Panic, r.Crash)
	}
	if p := os.Getenv("GOSRC"); p != "" {
		b, _ := os.ReadFile(p)
		r := runGo(string(b))
		fmt.Printf("GO out:\n%s\ncompile: %q\nrun: %q\n", r.Out, r.CompileErr, r.RunErr)
	}
}

// development aid: run every fragment of a replay file alone on GnoVM (and Go) and report
func TestDevBisect(t *testing.T) {
	p := os.Getenv("REPLAY")
	if p == "" {
		t.Skip()
	}
	b, _ := os.ReadFile(p)
	var rf struct {
		Case progCase `json:"case"`
	}
	if err := json.Unmarshal(b, &rf); err != nil {
		t.Fatal(err)
	}
	for i, f := range rf.Case.Frags {
		goSrc, gnoSrc := render([]Frag{f})
		func() {
			defer func() {
				if r := recover(); r != nil {
					fmt.Printf("FRAG %d: VM GO-PANIC: %v\n", i, r)
					os.WriteFile(fmt.Sprintf("/var/tmp/gnogo-tmp/bisect-%d.gno", i), []byte(gnoSrc), 0o644)
				}
			}()
			r := runGno(gnoSrc)
			g := runGo(goSrc)
			fmt.Printf("FRAG %d GOOUT %q\n", i, strings.TrimPrefix(g.Out, "#0\n"))
			if r.Crash != "" || r.Rejected != "" || r.Panic != "" || r.Out != g.Out {
				fmt.Printf("FRAG %d: differs: crash=%.80q rejected=%q panic=%q diff=%s\n", i, r.Crash, r.Rejected, r.Panic, firstDiff(g.Out, r.Out))
				os.WriteFile(fmt.Sprintf("/var/tmp/gnogo-tmp/bisect-%d.gno", i), []byte(gnoSrc), 0o644)
			} else {
				fmt.Printf("FRAG %d: same\n", i)
			}
		}()
	}
}
