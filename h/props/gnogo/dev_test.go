package gnogo

import (
	"fmt"
	"os"
	"testing"
)

// development aid: run the file named by GNOSRC on GnoVM and (GOSRC) with Go
func TestDevRun(t *testing.T) {
	if p := os.Getenv("GNOSRC"); p != "" {
		b, _ := os.ReadFile(p)
		r := runGno(string(b))
		fmt.Printf("GNO out:\n%s\nrejected: %q\npanic: %q\n", r.Out, r.Rejected, r.Panic)
	}
	if p := os.Getenv("GOSRC"); p != "" {
		b, _ := os.ReadFile(p)
		r := runGo(string(b))
		fmt.Printf("GO out:\n%s\ncompile: %q\nrun: %q\n", r.Out, r.CompileErr, r.RunErr)
	}
}
