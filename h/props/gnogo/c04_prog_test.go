package gnogo

import (
	"crypto/sha256"
	"fmt"
	"os"
	"regexp"
	"sort"
	"strings"
	"sync"
	"testing"
	"time"

	"pgregory.net/rapid"
	"verif/vk"
)

// C04, program layer: a batch of generated fragments from the typed grammar
// (c04_gen.go) is rendered once as a Go file - compiled and run with the Go
// toolchain - and once as a Gno file run by GnoVM; outputs are compared
// fragment by fragment, line by line. A panic escaping a fragment is printed
// by class by the shared run() wrapper of both preludes.

type progCase struct {
	Frags []Frag `json:"frags"`
}

func progExec(ctx *vk.Ctx, c progCase) error {
	if len(c.Frags) == 0 {
		return nil
	}
	_, gnoSrc := render(c.Frags)
	t0 := time.Now()
	want := goReference(c.Frags)
	goDur := time.Since(t0)
	t0 = time.Now()
	res := runGno(gnoSrc)
	gnoDur := time.Since(t0)
	if os.Getenv("C04_TIMING") != "" {
		fmt.Printf("C04 timing: %d fragments, go build+run %.1fs, gno %.1fs\n", len(c.Frags), goDur.Seconds(), gnoDur.Seconds())
	}
	if res.Crash != "" {
		if rest, ok := knownCrash(ctx, res.Crash, c.Frags); ok {
			return progExec(ctx, progCase{Frags: rest})
		}
		return fmt.Errorf("GnoVM crashed with a Go panic on a program that Go compiles and runs: %s\n--- gno source\n%s", res.Crash, numbered(gnoSrc))
	}
	if res.Rejected != "" {
		if rest, ok := knownRejection(ctx, res.Rejected, c.Frags); ok {
			return progExec(ctx, progCase{Frags: rest})
		}
		return fmt.Errorf("GnoVM rejects a program that Go compiles and runs: %s\n--- gno source\n%s", res.Rejected, numbered(gnoSrc))
	}
	got, serr := split(res.Out, len(c.Frags))
	nt := 0
	for i, f := range c.Frags {
		if len(f.Cats) >= 2 {
			nt++
		}
		if got != nil && i < len(got) && got[i] == want[i] {
			continue
		}
		g := ""
		if got != nil && i < len(got) {
			g = got[i]
		}
		if serr != nil && g == "" && res.Panic == "" {
			continue // reported below
		}
		if knownMismatch(ctx, f, want[i]) {
			continue
		}
		return fmt.Errorf("fragment %d: outputs differ\n--- go\n%s--- gno\n%s--- gno unhandled panic: %q\n--- first differing line: %s\n--- fragment source\n%s\nfunc frag() {\n%s\n}",
			i, want[i], g, res.Panic, firstDiff(want[i], g), f.Decl, f.Body)
	}
	if res.Panic != "" {
		return fmt.Errorf("GnoVM run ended with an unhandled panic although every panic is recovered by run(): %s\n--- gno output\n%s", res.Panic, res.Out)
	}
	if serr != nil {
		return fmt.Errorf("gno output malformed: %v\n%s", serr, res.Out)
	}
	cats := map[string]bool{}
	for _, f := range c.Frags {
		for _, k := range f.Cats {
			cats[k] = true
		}
	}
	var keys []string
	for k := range cats {
		keys = append(keys, k)
	}
	sort.Strings(keys)
	for _, k := range keys {
		ctx.Class("cat:" + k)
	}
	for _, w := range want {
		if strings.Contains(w, "!panic ") {
			ctx.Class("fragment-ended-in-panic")
			break
		}
	}
	ctx.Note("fragments", len(c.Frags))
	ctx.Note("nontrivial_fragments", nt)
	ctx.NTIf(nt > 0)
	return nil
}

// knownRejection handles preprocess rejections recorded as known findings: it
// is consulted at exactly that divergence (the message of the rejection), and
// returns the batch without the fragments that contain the construct, so that
// the rest is still compared. Any other rejection stays a violation.
func knownRejection(ctx *vk.Ctx, msg string, frags []Frag) ([]Frag, bool) {
	type known struct {
		key       string
		msg       string
		construct func(Frag) bool
	}
	for _, k := range []known{
		{
			// v := !(a != b): checkOrConvertType converts the operand of the unary
			// expression but leaves the unary expression's own cached type untyped
			key: "negated-comparison-define-stays-untyped-bool",
			msg: "(of type <untyped> bool) to type bool",
			construct: func(f Frag) bool { return strings.Contains(f.Body, ":= (!") || strings.Contains(f.Decl, ":= (!") },
		},
	} {
		if !strings.Contains(msg, k.msg) {
			continue
		}
		var rest []Frag
		for _, f := range frags {
			if !k.construct(f) {
				rest = append(rest, f)
			}
		}
		if len(rest) == len(frags) || !ctx.Known(k.key) {
			return nil, false
		}
		return rest, true
	}
	return nil, false
}

// goReference returns Go's output of every fragment. Fragments are
// independent functions, so their Go output does not depend on the batch:
// outputs are cached per fragment source, and only the fragments not seen
// before are compiled (one go build for all of them). This makes shrinking
// steps that merely drop fragments free of toolchain runs.
var (
	goRefMu    sync.Mutex
	goRefCache = map[[32]byte]string{}
)

func goReference(frags []Frag) []string {
	goRefMu.Lock()
	defer goRefMu.Unlock()
	key := func(f Frag) [32]byte { return sha256.Sum256([]byte(f.Decl + "\x00" + f.Body)) }
	var missing []Frag
	seen := map[[32]byte]bool{}
	for _, f := range frags {
		k := key(f)
		if f.GoOut != "" {
			goRefCache[k] = f.GoOut
		}
		if _, ok := goRefCache[k]; !ok && !seen[k] {
			seen[k] = true
			missing = append(missing, f)
		}
	}
	if len(missing) > 0 {
		goSrc, _ := render(missing)
		gr := runGo(goSrc)
		if gr.CompileErr != "" {
			infra("the Go toolchain rejects a generated program (generator defect):\n%s\n--- source\n%s", gr.CompileErr, numbered(goSrc))
		}
		if gr.RunErr != "" {
			infra("the Go reference program crashed (generator defect):\n%s\n--- source\n%s", gr.RunErr, numbered(goSrc))
		}
		outs, err := split(gr.Out, len(missing))
		if err != nil {
			infra("Go reference output malformed: %v\n%s", err, gr.Out)
		}
		if len(goRefCache) > 20000 {
			goRefCache = map[[32]byte]string{}
		}
		for i, f := range missing {
			goRefCache[key(f)] = outs[i]
		}
	}
	want := make([]string, len(frags))
	for i, f := range frags {
		want[i] = goRefCache[key(f)]
	}
	return want
}

// knownCrash handles VM crashes recorded as known findings, consulted only
// when the crash text is exactly the recorded one: the fragments that
// individually crash with it are dropped, the rest is still compared.
func knownCrash(ctx *vk.Ctx, crash string, frags []Frag) ([]Frag, bool) {
	// both recorded crashes come from FALLTHROUGH re-using the clause block of the
	// clause it leaves (op_exec.go): the next clause has fewer locals, or its
	// local is captured by a closure and must live in a heap item.
	for _, k := range []struct{ key, msg string }{
		{"fallthrough-after-clause-local-crashes-vm", "unexpected block size shrinkage"},
		{"fallthrough-into-clause-with-captured-local-crashes-vm", "should not happen, should be heapItemType"},
	} {
		if !strings.HasPrefix(crash, k.msg) {
			continue
		}
		var rest []Frag
		for _, f := range frags {
			if strings.Contains(f.Body, "fallthrough") {
				_, src := render([]Frag{f})
				if r := runGno(src); strings.HasPrefix(r.Crash, k.msg) {
					continue
				}
			}
			rest = append(rest, f)
		}
		if len(rest) == len(frags) || !ctx.Known(k.key) {
			return nil, false
		}
		return rest, true
	}
	return nil, false
}

var shiftAssignRE = regexp.MustCompile(`(?m)^(\s*)(\w+) (<<|>>)= (.*)$`)

// knownMismatch handles output divergences recorded as known findings. It is
// consulted at exactly that divergence: the fragment is rewritten so that it
// avoids the construct (keeping its Go meaning), re-run alone on GnoVM, and
// only when the rewritten fragment then prints what Go printed is the
// mismatch attributed to the finding.
func knownMismatch(ctx *vk.Ctx, f Frag, want string) bool {
	// x <<= c with a count of a type other than uint reads stale high bytes of c
	if shiftAssignRE.MatchString(f.Body) {
		g := f
		g.Body = shiftAssignRE.ReplaceAllString(f.Body, "$1$2 = $2 $3 $4")
		_, gnoSrc := render([]Frag{g})
		res := runGno(gnoSrc)
		if res.Rejected == "" && res.Panic == "" && res.Crash == "" {
			if got, err := split(res.Out, 1); err == nil && got[0] == want {
				return ctx.Known("shift-assign-count-not-converted-to-uint")
			}
		}
	}
	return false
}

func firstDiff(a, b string) string {
	la, lb := strings.Split(a, "\n"), strings.Split(b, "\n")
	for i := 0; i < len(la) || i < len(lb); i++ {
		x, y := "<none>", "<none>"
		if i < len(la) {
			x = la[i]
		}
		if i < len(lb) {
			y = lb[i]
		}
		if x != y {
			return fmt.Sprintf("line %d: go %q, gno %q", i, x, y)
		}
	}
	return "none"
}

func numbered(src string) string {
	var sb strings.Builder
	for i, l := range strings.Split(src, "\n") {
		fmt.Fprintf(&sb, "%4d  %s\n", i+1, l)
	}
	return sb.String()
}

func TestC04_Programs(t *testing.T) {
	vk.Run(t, vk.Spec[progCase]{
		ID: "C04", Name: "TestC04_Programs",
		Rule: "rapid: batch of 8..48 fragments (statement families taken in turn) from a typed grammar (integer arithmetic at every width, shifts, conversions, floats, strings/runes/bytes, slices with append/copy/reslice aliasing, arrays, maps, structs, pointers, methods and method values, embedding, interfaces, type switches and assertions, closures and per-iteration loop variables, defer/panic/recover, named results, labelled break/continue, goto, switch fallthrough, shadowing), rendered as one Go program (go build + run, go1.25) and one Gno program (GnoVM), compared fragment by fragment incl. panic class; non-trivial = some fragment exercises >=2 grammar categories; distinct by source hash",
		Draw: func(rt *rapid.T) progCase {
			n := rapid.IntRange(8, 48).Draw(rt, "nfrag")
			var c progCase
			for i := 0; i < n; i++ {
				c.Frags = append(c.Frags, drawFrag(rt, i))
			}
			return c
		},
		Exec: progExec,
	})
}

// TestC04_GenSelfCheck is a development aid (not registered): generated
// programs must always be accepted by the Go toolchain.
func TestC04_GenSelfCheck(t *testing.T) {
	if os.Getenv("C04_SELFCHECK") == "" {
		t.Skip("set C04_SELFCHECK=1 to run the generator self-check")
	}
	rapid.Check(t, func(rt *rapid.T) {
		n := rapid.IntRange(20, 60).Draw(rt, "nfrag")
		var fr []Frag
		for i := 0; i < n; i++ {
			fr = append(fr, drawFrag(rt, i))
		}
		goSrc, _ := render(fr)
		gr := runGo(goSrc)
		if gr.CompileErr != "" {
			lines := strings.Split(gr.CompileErr, "\n")
			if len(lines) > 12 {
				lines = lines[:12]
			}
			rt.Fatalf("compile: %s\n%s", strings.Join(lines, "\n"), numbered(goSrc))
		}
		if gr.RunErr != "" {
			rt.Fatalf("run: %s", gr.RunErr)
		}
		if _, err := split(gr.Out, n); err != nil {
			rt.Fatalf("split: %v", err)
		}
	})
}
