// Package gnogo holds check C04 (Gno programs compute what the same Go program
// computes) and its engine E7: a program is a list of fragments (top-level
// declarations + a body) rendered once as a Go file and once as a Gno file
// with the same bodies and preludes that differ only in how output is written
// and how a recovered panic value is classified.
package gnogo

import (
	"bytes"
	"context"
	"fmt"
	"os"
	"os/exec"
	"path/filepath"
	"runtime/debug"
	"strconv"
	"strings"
	"sync"
	"sync/atomic"
	"time"

	"github.com/gnolang/gno/gnovm/pkg/gnoenv"
	gno "github.com/gnolang/gno/gnovm/pkg/gnolang"
	"github.com/gnolang/gno/gnovm/pkg/test"
)

// Frag is one generated program fragment.
type Frag struct {
	Decl string   `json:"decl,omitempty"` // top-level declarations (names suffixed with the fragment id)
	Body string   `json:"body"`           // statements of func frag<i>()
	Cats []string `json:"cats,omitempty"` // grammar categories exercised (statistics)
	// GoOut, when set, is the recorded output of the Go side for this fragment.
	// Only hand-written regression replay files carry it (so that replaying them
	// in every shard needs no toolchain run); generated cases never do.
	GoOut string `json:"go_out,omitempty"`
}

// ---- preludes

// shared by both sides (identical text)
const preludeShared = `
func hexs(s string) string {
	const d = "0123456789abcdef"
	b := make([]byte, 0, 2*len(s))
	for i := 0; i < len(s); i++ {
		b = append(b, d[s[i]>>4], d[s[i]&15])
	}
	return string(b)
}

func itoa(i int64) string  { return strconv.FormatInt(i, 10) }
func utoa(u uint64) string { return strconv.FormatUint(u, 10) }

func btoa(b bool) string {
	if b {
		return "true"
	}
	return "false"
}

// floats are only ever printed as bit patterns; every NaN prints as "NaN"
func fbits(f float64) string {
	if f != f {
		return "NaN"
	}
	return strconv.FormatUint(math.Float64bits(f), 16)
}

func f32bits(f float32) string {
	if f != f {
		return "NaN"
	}
	return strconv.FormatUint(uint64(math.Float32bits(f)), 16)
}

func has(s, sub string) bool {
	for i := 0; i+len(sub) <= len(s); i++ {
		if s[i:i+len(sub)] == sub {
			return true
		}
	}
	return false
}

func ints(s []int) string {
	r := "["
	for i, v := range s {
		if i > 0 {
			r += " "
		}
		r += itoa(int64(v))
	}
	return r + "]"
}

func bytesS(s []byte) string { return hexs(string(s)) }

// key-sorted rendering of maps (map iteration order is never observed)
func mapSI(m map[string]int) string {
	keys := []string{}
	for k := range m {
		keys = append(keys, k)
	}
	for i := 1; i < len(keys); i++ {
		for j := i; j > 0 && keys[j] < keys[j-1]; j-- {
			keys[j], keys[j-1] = keys[j-1], keys[j]
		}
	}
	r := "{"
	for _, k := range keys {
		r += hexs(k) + ":" + itoa(int64(m[k])) + " "
	}
	return r + "}"
}

func mapIS(m map[int]string) string {
	keys := []int{}
	for k := range m {
		keys = append(keys, k)
	}
	for i := 1; i < len(keys); i++ {
		for j := i; j > 0 && keys[j] < keys[j-1]; j-- {
			keys[j], keys[j-1] = keys[j-1], keys[j]
		}
	}
	r := "{"
	for _, k := range keys {
		r += itoa(int64(k)) + ":" + hexs(m[k]) + " "
	}
	return r + "}"
}

func anyS(x interface{}) string {
	switch v := x.(type) {
	case nil:
		return "nil"
	case int:
		return "int " + itoa(int64(v))
	case int8:
		return "int8 " + itoa(int64(v))
	case int16:
		return "int16 " + itoa(int64(v))
	case int32:
		return "int32 " + itoa(int64(v))
	case int64:
		return "int64 " + itoa(v)
	case uint:
		return "uint " + utoa(uint64(v))
	case uint8:
		return "uint8 " + utoa(uint64(v))
	case uint16:
		return "uint16 " + utoa(uint64(v))
	case uint32:
		return "uint32 " + utoa(uint64(v))
	case uint64:
		return "uint64 " + utoa(v)
	case string:
		return "string " + hexs(v)
	case bool:
		return "bool " + btoa(v)
	case float64:
		return "float64 " + fbits(v)
	case []int:
		return "[]int " + ints(v)
	}
	return "other"
}

// VErr is the custom error type fragments may panic with.
type VErr struct{ Code int }

func (e VErr) Error() string { return "verr" + itoa(int64(e.Code)) }

func custom(r interface{}) (string, bool) {
	switch v := r.(type) {
	case int:
		return "int:" + itoa(int64(v)), true
	case string:
		return "str:" + hexs(v), true
	case VErr:
		return "verr:" + itoa(int64(v.Code)), true
	case *VErr:
		return "pverr:" + itoa(int64(v.Code)), true
	}
	return "", false
}

func run(i int, f func()) {
	emit("#" + itoa(int64(i)))
	defer func() {
		if r := recover(); r != nil {
			emit("!panic " + classify(r))
		}
	}()
	f()
}
`

const preludeGo = `package main

import (
	"math"
	"os"
	"runtime"
	"strconv"
)

var outbuf []byte

func emit(s string) {
	outbuf = append(outbuf, s...)
	outbuf = append(outbuf, '\n')
}

func flush() { os.Stdout.Write(outbuf) }

// classify names the class of a recovered panic value; texts are never compared.
func classify(r interface{}) string {
	if c, ok := custom(r); ok {
		return c
	}
	e, ok := r.(runtime.Error)
	if !ok {
		return "other"
	}
	m := e.Error()
	switch {
	case has(m, "index out of range"), has(m, "slice bounds out of range"):
		return "bounds"
	case has(m, "integer divide by zero"):
		return "div"
	case has(m, "nil pointer dereference"):
		return "nil"
	case has(m, "assignment to entry in nil map"):
		return "nilmap"
	case has(m, "interface conversion"):
		return "assert"
	case has(m, "negative shift amount"):
		return "shift"
	case has(m, "makeslice"):
		return "makeslice"
	case has(m, "comparing uncomparable"), has(m, "hash of unhashable"):
		return "uncomparable"
	}
	return "runtime:" + m
}
`

const preludeGno = `package main

import (
	"math"
	"strconv"
)

func emit(s string) { println(s) }

func flush() {}

// classify names the class of a recovered panic value; texts are never compared.
func classify(r interface{}) string {
	if c, ok := custom(r); ok {
		return c
	}
	e, ok := r.(error)
	if !ok {
		return "other"
	}
	m := e.Error()
	switch {
	case has(m, "index out of range"), has(m, "nil slice index"), has(m, "slice index out of bounds"),
		has(m, "invalid slice index"), has(m, "slice bounds out of range"):
		return "bounds"
	case has(m, "division by zero"), has(m, "divide by zero"):
		return "div"
	case has(m, "nil pointer dereference"), has(m, "method selector on nil interface"), has(m, "call of nil function"):
		return "nil"
	case has(m, "uninitialized map index"), has(m, "assignment to entry in nil map"):
		return "nilmap"
	case has(m, "is not of type"), has(m, "doesn't implement"), has(m, "does not implement"), has(m, "interface conversion"):
		return "assert"
	case has(m, "negative shift amount"):
		return "shift"
	case has(m, "makeslice"):
		return "makeslice"
	case has(m, "uncomparable"), has(m, "unhashable"):
		return "uncomparable"
	}
	return "runtime:" + m
}
`

// render builds the two source files of a batch.
func render(frags []Frag) (goSrc, gnoSrc string) {
	var b strings.Builder
	for i, f := range frags {
		b.WriteString(f.Decl)
		fmt.Fprintf(&b, "\nfunc frag%d() {\n%s\n}\n", i, f.Body)
	}
	b.WriteString("\nfunc main() {\n")
	for i := range frags {
		fmt.Fprintf(&b, "\trun(%d, frag%d)\n", i, i)
	}
	b.WriteString("\tflush()\n}\n")
	return preludeGo + preludeShared + b.String(), preludeGno + preludeShared + b.String()
}

// split cuts program output into per-fragment chunks at the "#<i>" markers.
func split(out string, n int) ([]string, error) {
	res := make([]string, n)
	cur := -1
	out = strings.TrimSuffix(out, "\n") // every emitted line ends in exactly one newline
	for _, line := range strings.Split(out, "\n") {
		if strings.HasPrefix(line, "#") {
			i, err := strconv.Atoi(line[1:])
			if err != nil || i != cur+1 || i >= n {
				return nil, fmt.Errorf("unexpected marker %q after fragment %d", line, cur)
			}
			cur = i
			continue
		}
		if cur < 0 {
			return nil, fmt.Errorf("output before the first marker: %q", line)
		}
		res[cur] += line + "\n"
	}
	if cur != n-1 {
		return res, fmt.Errorf("output ends after fragment %d of %d", cur, n)
	}
	return res, nil
}

// ---- Gno side: warm store, one machine per program

var (
	gnoOnce  sync.Once
	gnoStore gno.Store
	gnoMu    sync.Mutex
)

func gnoWarm() {
	gnoOnce.Do(func() {
		var sink bytes.Buffer
		_, gnoStore = test.ProdStore(gnoenv.RootDir(), &sink, nil)
		// stdlibs used by the preludes are imported once on the root store
		for _, p := range []string{"math", "strconv"} {
			if gnoStore.GetPackage(p, true) == nil {
				panic("cannot load gno stdlib " + p)
			}
		}
	})
}

// GnoResult is the outcome of running a program on GnoVM.
type GnoResult struct {
	Out      string
	Rejected string // preprocess / parse error (program not accepted)
	Panic    string // unhandled Gno panic
	Crash    string // Go-level panic inside the VM (not one of its reporting types)
}

// runGno parses, preprocesses and runs src (package main) on a fresh machine
// over a dropped transaction fork. A Go panic of the VM that is not one of
// its reporting types is returned as Crash (with the stack).
func runGno(src string) (res GnoResult) {
	gnoWarm()
	gnoMu.Lock()
	defer gnoMu.Unlock()
	var out bytes.Buffer
	txs := gnoStore.BeginTransaction(nil, nil, nil, nil)
	m := gno.NewMachineWithOptions(gno.MachineOptions{
		Output: &out, Store: txs, Context: test.Context(test.DefaultCaller, "main", nil), ReviveEnabled: true,
	})
	defer m.Release()
	defer func() {
		res.Out = out.String()
		if r := recover(); r != nil {
			switch v := r.(type) {
			case gno.UnhandledPanicError:
				res.Panic = v.Error()
			case *gno.PreprocessError:
				res.Rejected = v.Unwrap().Error()
			case *gno.TypedValue:
				res.Panic = v.Sprint(m)
			default:
				res.Crash = fmt.Sprintf("%v\n%s", r, debug.Stack())
			}
		}
	}()
	fn, err := m.ParseFile("main.gno", src)
	if err != nil {
		res.Rejected = "parse: " + err.Error()
		return
	}
	pn := gno.NewPackageNode("main", "main", &gno.FileSet{})
	pv := pn.NewPackage(m.Alloc)
	m.Store.SetBlockNode(pn)
	m.Store.SetCachePackage(pv)
	m.SetActivePackage(pv)
	m.RunFiles(fn)
	m.RunMain()
	return
}

// ---- Go side: go build + run in a scratch dir, standard library only, offline

var goSeq atomic.Int64

func scratchRoot() string {
	if d := os.Getenv("VERIF_TMP"); d != "" {
		return d
	}
	d, err := os.MkdirTemp("/var/tmp", "verif-c04-")
	if err != nil {
		panic(err)
	}
	scratchOwned = true
	return d
}

var (
	scratchOnce  sync.Once
	scratchDir   string
	scratchOwned bool // created by this process (no VERIF_TMP): removed by TestMain
)

// cleanupScratch removes the fallback scratch directory.
func cleanupScratch() {
	if scratchOwned && scratchDir != "" {
		os.RemoveAll(scratchDir)
	}
}

// goTool is the go1.25.9 toolchain the harness itself is built with (the
// driver puts it first on PATH; the explicit path makes direct runs of the
// test binary behave the same).
func goTool() string {
	const tc = "/root/go/pkg/mod/golang.org/toolchain@v0.0.1-go1.25.9.linux-amd64/bin/go"
	if _, err := os.Stat(tc); err == nil {
		return tc
	}
	return "go"
}

// GoResult is the outcome of compiling and running a program with the Go toolchain.
type GoResult struct {
	Out        string
	CompileErr string
	RunErr     string
}

func runGo(src string) GoResult {
	scratchOnce.Do(func() { scratchDir = scratchRoot() })
	dir := filepath.Join(scratchDir, fmt.Sprintf("c04-%d-%d", os.Getpid(), goSeq.Add(1)))
	if err := os.MkdirAll(dir, 0o755); err != nil {
		panic(err)
	}
	defer os.RemoveAll(dir)
	must := func(err error) {
		if err != nil {
			panic(err)
		}
	}
	must(os.WriteFile(filepath.Join(dir, "go.mod"), []byte("module frag\n\ngo 1.25\n"), 0o644))
	must(os.WriteFile(filepath.Join(dir, "main.go"), []byte(src), 0o644))
	env := append(os.Environ(), "GOFLAGS=-mod=mod", "GOPROXY=off", "GOSUMDB=off", "GOTOOLCHAIN=local", "CGO_ENABLED=0", "GOWORK=off")
	ctx, cancel := context.WithTimeout(context.Background(), 10*time.Minute)
	defer cancel()
	bin := filepath.Join(dir, "prog")
	cmd := exec.CommandContext(ctx, goTool(), "build", "-o", bin, ".")
	cmd.Dir, cmd.Env = dir, env
	if b, err := cmd.CombinedOutput(); err != nil {
		return GoResult{CompileErr: fmt.Sprintf("%v\n%s", err, b)}
	}
	var stdout, stderr bytes.Buffer
	run := exec.CommandContext(ctx, bin)
	run.Dir, run.Stdout, run.Stderr = dir, &stdout, &stderr
	if err := run.Run(); err != nil {
		return GoResult{Out: stdout.String(), RunErr: fmt.Sprintf("%v\n%s", err, stderr.String())}
	}
	return GoResult{Out: stdout.String()}
}

// infra reports a harness-side failure (the generator produced something the
// Go toolchain rejects, the toolchain is missing, ...). That is never a
// property violation: the process exits with a status the driver maps to
// INCONCLUSIVE.
func infra(format string, a ...any) {
	fmt.Printf("INFRASTRUCTURE FAILURE (not a violation): "+format+"\n", a...)
	os.Exit(3)
}
