package gnogo

import (
	"os"
	"testing"
)

func TestMain(m *testing.M) {
	code := m.Run()
	cleanupScratch()
	os.Exit(code)
}
