package bptree

// Shared machinery of C23 / C24 / C26 (and the tree builder of C25): one
// generator of versioned operation histories over tm2/pkg/bptree, one
// versioned ordered-map reference model, and one executor that drives a real
// MutableTree (over a harness-owned dbm.DB) next to the model.
//
// Contracts honoured by construction (tm2/pkg/bptree docs):
//   - MutableTree is single-goroutine; everything here is sequential.
//   - keys are non-empty, values non-nil; iterator bounds are nil or start<end.
//   - PruneVersionsTo needs a clean session; errors are predicted by the model.
//   - After LoadVersion(non-latest) no SaveVersion is attempted (the documented
//     LoadVersion(non-latest)+Set hazard: it can only fail or be idempotent).
//   - a handle with the fast index enabled is always opened through Load()
//     (ensureFastIndex) before its working tree is read; read-only handles use
//     LoadReadonly + GetImmutable*/ImmutableTree reads only (fast_index.go trust
//     contract).
//   - registered snapshots are closed; a "process restart" (reopen) drops
//     every snapshot and reader handle of the old process.

import (
	"bytes"
	"errors"
	"fmt"
	"os"
	"sort"

	bp "github.com/gnolang/gno/tm2/pkg/bptree"
	dbm "github.com/gnolang/gno/tm2/pkg/db"
	"github.com/gnolang/gno/tm2/pkg/db/memdb"
	"pgregory.net/rapid"
	"verif/vk"
)

// ---------------------------------------------------------------- case data

type hCfg struct {
	Cache int  `json:"cache"` // node cache size
	Fast  bool `json:"fast"`  // fast index option
	Flush int  `json:"flush"` // FlushThreshold (bytes); governs intermediate prune commits
}

type hOp struct {
	T   string    `json:"t"`
	K   string    `json:"k,omitempty"`   // key (set/del)
	V   string    `json:"v,omitempty"`   // value (set) / value seed (setrun)
	A   int       `json:"a,omitempty"`   // start id (runs) / version selector / slot
	N   int       `json:"n,omitempty"`   // count (runs) / auxiliary selector
	S   int       `json:"s,omitempty"`   // step (runs)
	Cfg *hCfg     `json:"cfg,omitempty"` // reopen / ropen
	P   []string  `json:"p,omitempty"`   // probe keys (check)
	R   [][]string `json:"r,omitempty"`  // ranges: [start,end], "" = unbounded
	I   []int     `json:"i,omitempty"`   // index selectors (check)
}

type hCase struct {
	Init int    `json:"init"` // InitialVersion option (0 = default)
	Cfg  hCfg   `json:"cfg"`
	Ops  []hOp  `json:"ops"`
}

func hKey(id int) string { return fmt.Sprintf("k%05d", id) }

var hCaches = []int{0, 1, 8, 10000}
var hFlushes = []int{1, 64, 100 * 1024}

func hDrawCfg(rt *rapid.T, label string, fastBias int) hCfg {
	fast := rapid.IntRange(0, 9).Draw(rt, label+"fast") < fastBias
	return hCfg{
		Cache: rapid.SampledFrom(hCaches).Draw(rt, label+"cache"),
		Fast:  fast,
		Flush: rapid.SampledFrom(hFlushes).Draw(rt, label+"flush"),
	}
}

// hDrawID draws a key id: mostly from a hot window so that updates, removals
// and re-insertions of the same keys happen; sometimes anywhere.
func hDrawID(rt *rapid.T, label string, span int) int {
	switch rapid.IntRange(0, 5).Draw(rt, label+"w") {
	case 0:
		return rapid.IntRange(0, span-1).Draw(rt, label+"any")
	case 1:
		return 32 * rapid.IntRange(0, span/32).Draw(rt, label+"m32")
	default:
		return rapid.IntRange(0, 80).Draw(rt, label+"hot")
	}
}

var hSuffixes = []string{"", "", "", "", "\x00", "a", "~", "/x"}

func hDrawKey(rt *rapid.T, label string, span int) string {
	id := hDrawID(rt, label, span)
	k := hKey(id) + rapid.SampledFrom(hSuffixes).Draw(rt, label+"sfx")
	if rapid.IntRange(0, 15).Draw(rt, label+"trunc") == 0 {
		k = k[:rapid.IntRange(1, 5).Draw(rt, label+"tl")]
	}
	return k
}

var hValues = []string{"", "v", "w", "xx", "value-with-some-length-0123456789", "\x00", "a"}

type hGenOpts struct {
	Span      int // key id space
	MaxOps    int
	MaxRun    int
	FastBias  int  // 0..10: probability*10 that a drawn config enables the fast index
	Readers   bool // generate read-only loader ops (ropen/rsnap/rread/rclose)
	Detached  bool // generate loadver/loadlatest
	NoEmptyV  bool // never generate empty values (C25: ics23 cannot prove them)
	InitVer   bool
	Checks    bool // generate explicit check ops
	ManySaves bool
	Restarts  bool // more reopen / prune ops (C26)
	Deep      int  // 0..10: probability*10 of a "deep" history (bulk fills/deletes, saves and prunes dominate: height>=2, inner splits/merges across versions)
}

func hDrawRun(rt *rapid.T, o hGenOpts, label string, del bool) (a, n, s int) {
	shape := rapid.IntRange(0, 5).Draw(rt, label+"shape")
	if shape == 5 {
		if del { // wide range delete: merges, inner merges, root collapse
			a = rapid.IntRange(0, o.Span/4).Draw(rt, label+"a")
			n = rapid.IntRange(o.MaxRun/2, 3*o.MaxRun).Draw(rt, label+"n")
			return a, n, 1
		}
		shape = 0
	}
	switch shape {
	case 0: // long sequential append: 90/10 splits, inner splits
		a = rapid.IntRange(0, o.Span/2).Draw(rt, label+"a")
		n = rapid.IntRange(o.MaxRun/4+1, o.MaxRun).Draw(rt, label+"n")
		s = 1
	case 1: // descending
		a = rapid.IntRange(o.Span/4, o.Span-1).Draw(rt, label+"a")
		n = rapid.IntRange(20, o.MaxRun/2+20).Draw(rt, label+"n")
		s = -1
	case 2: // around node-capacity boundaries
		a = 32 * rapid.IntRange(0, o.Span/32-2).Draw(rt, label+"a")
		n = rapid.SampledFrom([]int{15, 16, 17, 31, 32, 33, 34, 48, 64, 65}).Draw(rt, label+"n")
		s = 1
	case 3: // strided
		a = rapid.IntRange(0, o.Span/2).Draw(rt, label+"a")
		n = rapid.IntRange(5, o.MaxRun/3+5).Draw(rt, label+"n")
		s = rapid.SampledFrom([]int{2, 3, 7, -2}).Draw(rt, label+"s")
	default: // short
		a = hDrawID(rt, label+"id", o.Span)
		n = rapid.IntRange(1, 12).Draw(rt, label+"n")
		s = 1
	}
	return
}

func hDrawCheck(rt *rapid.T, o hGenOpts, label string) hOp {
	op := hOp{T: "check", A: rapid.IntRange(0, 63).Draw(rt, label+"ver")}
	np := rapid.IntRange(1, 5).Draw(rt, label+"np")
	for i := 0; i < np; i++ {
		op.P = append(op.P, hDrawKey(rt, fmt.Sprintf("%sp%d", label, i), o.Span))
	}
	nr := rapid.IntRange(1, 3).Draw(rt, label+"nr")
	for i := 0; i < nr; i++ {
		l := fmt.Sprintf("%sr%d", label, i)
		var s, e string
		if rapid.IntRange(0, 3).Draw(rt, l+"hs") > 0 {
			s = hDrawKey(rt, l+"s", o.Span)
		}
		if rapid.IntRange(0, 3).Draw(rt, l+"he") > 0 {
			e = hDrawKey(rt, l+"e", o.Span)
		}
		if s != "" && e != "" {
			if s > e {
				s, e = e, s
			}
			if s == e {
				e = "" // db contract: start must be less than end
			}
		}
		op.R = append(op.R, []string{s, e})
	}
	ni := rapid.IntRange(2, 6).Draw(rt, label+"ni")
	for i := 0; i < ni; i++ {
		op.I = append(op.I, rapid.IntRange(0, 1<<20).Draw(rt, fmt.Sprintf("%si%d", label, i)))
	}
	return op
}

func hDrawHistory(rt *rapid.T, o hGenOpts) hCase {
	c := hCase{Cfg: hDrawCfg(rt, "cfg", o.FastBias)}
	if o.InitVer {
		c.Init = rapid.SampledFrom([]int{0, 0, 0, 0, 1, 5}).Draw(rt, "init")
	}
	nops := rapid.IntRange(6, o.MaxOps).Draw(rt, "nops")
	type wop struct {
		t string
		w int
	}
	table := []wop{{"set", 20}, {"del", 10}, {"setrun", 8}, {"fill", 3}, {"delrun", 7}, {"save", 18}, {"rollback", 2},
		{"reopen", 5}, {"prune", 7}, {"iopen", 3}, {"iclose", 2}}
	if o.ManySaves {
		table = append(table, wop{"save", 10})
	}
	if o.Restarts {
		table = append(table, wop{"reopen", 7}, wop{"prune", 5})
	}
	deep := o.Deep > 0 && rapid.IntRange(0, 9).Draw(rt, "deep") < o.Deep
	if deep {
		table = append(table, wop{"fill", 14}, wop{"delrun", 12}, wop{"setrun", 8}, wop{"save", 16}, wop{"prune", 12})
		if nops > 24 {
			nops = 24
		}
	}
	if o.Checks {
		table = append(table, wop{"check", 7})
	}
	if o.Detached {
		table = append(table, wop{"loadver", 3})
	}
	if o.Readers {
		table = append(table, wop{"ropen", 4}, wop{"rsnap", 4}, wop{"rread", 5}, wop{"rclose", 1})
	}
	var kinds []string
	for _, w := range table {
		for i := 0; i < w.w; i++ {
			kinds = append(kinds, w.t)
		}
	}
	for i := 0; i < nops; i++ {
		l := fmt.Sprintf("o%d", i)
		t := rapid.SampledFrom(kinds).Draw(rt, l+"t")
		if i == 0 && deep {
			t = "fill"
		} else if i == 0 {
			switch rapid.IntRange(0, 4).Draw(rt, l+"first") {
			case 0, 1:
				t = "setrun"
			case 2:
				t = "fill"
			}
		}
		op := hOp{T: t}
		switch t {
		case "set":
			op.K = hDrawKey(rt, l+"k", o.Span)
			vals := hValues
			if o.NoEmptyV {
				vals = hValues[1:]
			}
			op.V = rapid.SampledFrom(vals).Draw(rt, l+"v")
			if rapid.IntRange(0, 3).Draw(rt, l+"vu") == 0 {
				op.V += fmt.Sprintf("#%d", i)
			}
		case "del":
			op.K = hDrawKey(rt, l+"k", o.Span)
		case "setrun":
			op.A, op.N, op.S = hDrawRun(rt, o, l, false)
			op.V = rapid.SampledFrom([]string{"r", "s", "t"}).Draw(rt, l+"v") + fmt.Sprint(i)
		case "fill":
			// two interleaved passes (even ids, then odd ids): the second pass
			// splits every leaf of the first 50/50, which splits inner nodes too.
			op.A = rapid.IntRange(0, o.Span/4).Draw(rt, l+"a")
			op.N = rapid.IntRange(o.MaxRun/2, o.MaxRun).Draw(rt, l+"n")
			if deep {
				op.N += o.MaxRun / 2
			}
			op.V = "f" + fmt.Sprint(i)
		case "delrun":
			op.A, op.N, op.S = hDrawRun(rt, o, l, true)
		case "reopen":
			cfg := hDrawCfg(rt, l+"cfg", o.FastBias)
			op.Cfg = &cfg
		case "ropen":
			cfg := hDrawCfg(rt, l+"cfg", 8)
			op.Cfg = &cfg
			op.A = rapid.IntRange(0, 1).Draw(rt, l+"slot")
		case "rsnap", "rread", "rclose":
			op.A = rapid.IntRange(0, 1).Draw(rt, l+"slot")
			op.N = rapid.IntRange(0, 63).Draw(rt, l+"ver")
		case "prune":
			op.A = rapid.IntRange(0, 63).Draw(rt, l+"to")
			op.N = rapid.IntRange(0, 9).Draw(rt, l+"mode")
			if rapid.IntRange(0, 9).Draw(rt, l+"savefirst") < 7 {
				op.S = 1 // commit first, then prune (what the store's Commit does)
			}
		case "iopen":
			op.A = rapid.IntRange(0, 2).Draw(rt, l+"slot")
			op.N = rapid.IntRange(0, 63).Draw(rt, l+"ver")
		case "iclose":
			op.A = rapid.IntRange(0, 2).Draw(rt, l+"slot")
		case "loadver":
			op.A = rapid.IntRange(0, 63).Draw(rt, l+"ver")
		case "check":
			op = hDrawCheck(rt, o, l)
		}
		c.Ops = append(c.Ops, op)
		if t == "loadver" {
			// a detached episode: a few writes and reads on the old version, then
			// back to the latest (no save in between, see header).
			k := rapid.IntRange(0, 3).Draw(rt, l+"dn")
			for j := 0; j < k; j++ {
				lj := fmt.Sprintf("%sd%d", l, j)
				if rapid.Bool().Draw(rt, lj+"set") {
					c.Ops = append(c.Ops, hOp{T: "set", K: hDrawKey(rt, lj+"k", o.Span), V: "d" + fmt.Sprint(i)})
				} else {
					c.Ops = append(c.Ops, hOp{T: "del", K: hDrawKey(rt, lj+"k", o.Span)})
				}
			}
			c.Ops = append(c.Ops, hDrawCheck(rt, o, l+"dc"))
			c.Ops = append(c.Ops, hOp{T: "loadlatest", A: rapid.IntRange(0, 1).Draw(rt, l+"how")})
		}
	}
	return c
}

// ---------------------------------------------------------------- model

type hSnap struct {
	keys []string
	vals map[string]string
	hash []byte
}

func hMakeSnap(m map[string]string) *hSnap {
	s := &hSnap{vals: make(map[string]string, len(m)), keys: make([]string, 0, len(m))}
	for k, v := range m {
		s.vals[k] = v
		s.keys = append(s.keys, k)
	}
	sort.Strings(s.keys)
	return s
}

func (s *hSnap) rank(k string) int { return sort.SearchStrings(s.keys, k) }

// rangeKeys returns the keys of [start,end) ("" = unbounded), ascending.
func (s *hSnap) rangeKeys(start, end string) []string {
	lo, hi := 0, len(s.keys)
	if start != "" {
		lo = s.rank(start)
	}
	if end != "" {
		hi = s.rank(end)
	}
	if lo > hi {
		return nil
	}
	return s.keys[lo:hi]
}

type hModel struct {
	work    map[string]string
	dirty   bool  // a Set, or a Remove that found its key, since the session started
	loaded  int64 // version the working tree is based on (t.version)
	latest  int64
	vers    map[int64]*hSnap // retained versions
	recent  []string         // recently modified keys (most recent last, distinct-ish)
	recentM map[string]bool
	init    int64
}

func hNewModel(init int) *hModel {
	return &hModel{work: map[string]string{}, vers: map[int64]*hSnap{}, recentM: map[string]bool{}, init: int64(init)}
}

func (m *hModel) retained() []int64 {
	out := make([]int64, 0, len(m.vers))
	for v := range m.vers {
		out = append(out, v)
	}
	sort.Slice(out, func(i, j int) bool { return out[i] < out[j] })
	return out
}

func (m *hModel) first() int64 {
	r := m.retained()
	if len(r) == 0 {
		return 0
	}
	return r[0]
}

func (m *hModel) touch(k string) {
	if m.recentM[k] {
		return
	}
	m.recentM[k] = true
	m.recent = append(m.recent, k)
	if len(m.recent) > 400 {
		delete(m.recentM, m.recent[0])
		m.recent = m.recent[1:]
	}
}

func (m *hModel) workingVersion() int64 {
	if m.loaded == 0 && m.init > 0 {
		return m.init
	}
	return m.loaded + 1
}

func (m *hModel) resetWorkTo(v int64) {
	m.work = map[string]string{}
	if s := m.vers[v]; s != nil {
		for k, val := range s.vals {
			m.work[k] = val
		}
	}
	m.loaded = v
	m.dirty = false
}

// ---------------------------------------------------------------- crash DB

type hCrashSentinel struct{}

// hCrashDB counts physical writes (direct Set/Delete and each non-empty
// Batch.Write[Sync] as one atomic unit) over an inner DB. With limit >= 0 the
// (limit+1)-th physical write is not applied: the "process" dies there (a
// sentinel panic unwinds the caller) and nothing later reaches the DB.
type hCrashDB struct {
	dbm.DB
	writes int
	limit  int // -1: never crash
	dead   bool
	hook   func(n int) // called after the n-th physical write was applied
}

func hNewCrashDB(inner dbm.DB) *hCrashDB { return &hCrashDB{DB: inner, limit: -1} }

func (d *hCrashDB) phys(apply func() error) error {
	if d.dead {
		panic(hCrashSentinel{})
	}
	if d.limit >= 0 && d.writes >= d.limit {
		d.dead = true
		panic(hCrashSentinel{})
	}
	if err := apply(); err != nil {
		return err
	}
	d.writes++
	if d.hook != nil {
		d.hook(d.writes)
	}
	return nil
}

func (d *hCrashDB) Set(k, v []byte) error     { return d.phys(func() error { return d.DB.Set(k, v) }) }
func (d *hCrashDB) SetSync(k, v []byte) error { return d.phys(func() error { return d.DB.SetSync(k, v) }) }
func (d *hCrashDB) Delete(k []byte) error     { return d.phys(func() error { return d.DB.Delete(k) }) }
func (d *hCrashDB) DeleteSync(k []byte) error { return d.phys(func() error { return d.DB.DeleteSync(k) }) }
func (d *hCrashDB) NewBatch() dbm.Batch       { return &hCrashBatch{Batch: d.DB.NewBatch(), d: d} }
func (d *hCrashDB) NewBatchWithSize(n int) dbm.Batch {
	return &hCrashBatch{Batch: d.DB.NewBatchWithSize(n), d: d}
}

type hCrashBatch struct {
	dbm.Batch
	d   *hCrashDB
	ops int
}

func (b *hCrashBatch) Set(k, v []byte) error { b.ops++; return b.Batch.Set(k, v) }
func (b *hCrashBatch) Delete(k []byte) error { b.ops++; return b.Batch.Delete(k) }
func (b *hCrashBatch) Write() error {
	if b.ops == 0 {
		return b.Batch.Write()
	}
	return b.d.phys(b.Batch.Write)
}
func (b *hCrashBatch) WriteSync() error {
	if b.ops == 0 {
		return b.Batch.WriteSync()
	}
	return b.d.phys(b.Batch.WriteSync)
}

// ---------------------------------------------------------------- executor

type treeReader interface {
	Get([]byte) ([]byte, error)
	Has([]byte) (bool, error)
	Size() int64
	Height() int8
	GetByIndex(int64) ([]byte, []byte, error)
	GetWithIndex([]byte) (int64, []byte, error)
	Iterate(func(k, v []byte) bool) (bool, error)
	Iterator(start, end []byte, ascending bool) (*bp.Iterator, error)
	IterateRange(start, end []byte, ascending bool, fn func(k, v []byte) bool) (bool, error)
}

type hHeld struct {
	imm *bp.ImmutableTree
	ver int64
}

type hReader struct {
	tree   *bp.MutableTree
	cfg    hCfg
	loaded int64 // what LoadReadonly reported
	imm    *bp.ImmutableTree
	ver    int64
}

type hPending struct {
	ver  int64
	snap *hSnap
}

type hRun struct {
	ctx   *vk.Ctx
	inner dbm.DB    // the persistent store
	db    *hCrashDB // what tree handles are built on
	tree  *bp.MutableTree
	cfg   hCfg
	init  int
	m     *hModel
	held  [3]*hHeld
	rd    [2]*hReader
	hashes map[int64][]byte

	// behaviour switches
	lightOnly bool // skip explicit full batteries (used by the differential B run)
	everFast  bool // some writer process of this history had the fast index on
	hookErr   error // first failure of a write-boundary reader
	boundaryReads int

	// observations
	maxHeight   int8
	heightDrops int
	saves       int
	prunesOK    int
	reopens     int
	fastToggles int
	staleReads  int // reads of a key modified after the version being read, with the fast index on
	fastReads   int
	rebuilds    int
	pendingSave *hPending // set while SaveVersion is in flight (for write-boundary hooks)
	pruneTo     int64     // >0 while a prune is in flight
	opIndex     int
}

func hOptions(cfg hCfg, init int) []bp.Option {
	o := []bp.Option{bp.FastIndexOption(cfg.Fast), bp.FlushThresholdOption(cfg.Flush)}
	if init > 0 {
		o = append(o, bp.InitialVersionOption(uint64(init)))
	}
	return o
}

func hNewRun(ctx *vk.Ctx, c hCase) (*hRun, error) {
	r := &hRun{ctx: ctx, inner: memdb.NewMemDB(), cfg: c.Cfg, init: c.Init, m: hNewModel(c.Init), hashes: map[int64][]byte{}}
	r.db = hNewCrashDB(r.inner)
	if err := r.open(c.Cfg); err != nil {
		return nil, err
	}
	return r, nil
}

// open creates a fresh writer handle (a process start) and loads the latest
// version through Load(), which performs fast-index maintenance.
func (r *hRun) open(cfg hCfg) error {
	r.cfg = cfg
	r.everFast = r.everFast || cfg.Fast
	r.tree = bp.NewMutableTreeWithDB(r.db, cfg.Cache, nil, hOptions(cfg, r.init)...)
	v, err := r.tree.Load()
	if err != nil {
		return fmt.Errorf("Load() after open with %+v: %v", cfg, err)
	}
	if v != r.m.latest {
		return fmt.Errorf("Load() = %d, model latest %d", v, r.m.latest)
	}
	if r.tree.Version() != r.m.latest {
		return fmt.Errorf("Version() after Load = %d, model latest %d", r.tree.Version(), r.m.latest)
	}
	r.m.resetWorkTo(r.m.latest)
	return nil
}

func (r *hRun) dropHandles() {
	for i, h := range r.held {
		if h != nil {
			h.imm.Close()
			r.held[i] = nil
		}
	}
	for i := range r.rd {
		r.rd[i] = nil
	}
}

func (r *hRun) close() {
	r.dropHandles()
	if r.tree != nil {
		r.tree.Close()
	}
}

func hB(s string) []byte { return []byte(s) }

func hBound(s string) []byte {
	if s == "" {
		return nil
	}
	return []byte(s)
}

func (r *hRun) noteHeight() {
	h := r.tree.Height()
	if h > r.maxHeight {
		r.maxHeight = h
	}
}

func (r *hRun) set(k, v string) error {
	_, existed := r.m.work[k]
	upd, err := r.tree.Set(hB(k), hB(v))
	if err != nil {
		return fmt.Errorf("Set(%q,%q): %v", k, v, err)
	}
	if upd != existed {
		return fmt.Errorf("Set(%q) reported updated=%v, model says key existed=%v", k, upd, existed)
	}
	r.m.work[k] = v
	r.m.dirty = true
	r.m.touch(k)
	return nil
}

func (r *hRun) del(k string) error {
	old, existed := r.m.work[k]
	val, found, err := r.tree.Remove(hB(k))
	if err != nil {
		return fmt.Errorf("Remove(%q): %v", k, err)
	}
	if found != existed {
		return fmt.Errorf("Remove(%q) found=%v, model says %v", k, found, existed)
	}
	if existed {
		if val == nil || string(val) != old {
			return fmt.Errorf("Remove(%q) returned value %q (nil=%v), model %q", k, val, val == nil, old)
		}
		delete(r.m.work, k)
		r.m.dirty = true
		r.m.touch(k)
	} else if val != nil {
		return fmt.Errorf("Remove(%q) of an absent key returned value %q", k, val)
	}
	return nil
}

// pickVersion resolves a drawn selector against the retained versions.
func (r *hRun) pickVersion(sel int) (int64, bool) {
	ret := r.m.retained()
	if len(ret) == 0 {
		return 0, false
	}
	// bias towards old and new ends
	return ret[sel%len(ret)], true
}

// probesFor builds the probe key list for a battery: the drawn probes, the
// recently modified keys, and a stride sample of the snapshot.
func (r *hRun) probesFor(s *hSnap, drawn []string, full bool) []string {
	seen := map[string]bool{}
	var out []string
	add := func(k string) {
		if k != "" && !seen[k] {
			seen[k] = true
			out = append(out, k)
		}
	}
	for _, k := range drawn {
		add(k)
	}
	rec := r.m.recent
	lim := 24
	if full {
		lim = 200
	}
	if len(rec) > lim {
		rec = rec[len(rec)-lim:]
	}
	for _, k := range rec {
		add(k)
	}
	n := len(s.keys)
	if n > 0 {
		step := 1
		cnt := 24
		if full {
			cnt = 96
		}
		if n > cnt {
			step = n / cnt
		}
		for i := 0; i < n; i += step {
			add(s.keys[i])
		}
		add(s.keys[n-1])
		add(s.keys[n-1] + "\x00")
		add(s.keys[0][:len(s.keys[0])-1])
	}
	return out
}

// hIterCollect drains an iterator; it gives up (an error) once more than max
// entries were produced, so a non-terminating iteration is reported instead
// of hanging the check.
func hIterCollect(itr *bp.Iterator, max int) (keys, vals []string, err error) {
	defer itr.Close()
	for itr.Valid() {
		if len(keys) > max {
			return keys, vals, fmt.Errorf("iterator produced more than %d entries (model size); last key %q", max, keys[len(keys)-1])
		}
		k := itr.Key()
		v := itr.Value()
		if e := itr.Error(); e != nil {
			return keys, vals, e
		}
		if v == nil {
			return keys, vals, fmt.Errorf("iterator returned nil value for key %q", k)
		}
		keys = append(keys, string(k))
		vals = append(vals, string(v))
		itr.Next()
	}
	return keys, vals, itr.Error()
}

func hCmpSeq(what string, gotK, gotV []string, s *hSnap, want []string, asc bool) error {
	if len(gotK) != len(want) {
		return fmt.Errorf("%s: got %d entries, model %d (got first %v, model first %v)", what, len(gotK), len(want), hHead(gotK), hHead(hOrder(want, asc)))
	}
	for i := range gotK {
		w := want[i]
		if !asc {
			w = want[len(want)-1-i]
		}
		if gotK[i] != w {
			return fmt.Errorf("%s: entry %d key %q, model %q", what, i, gotK[i], w)
		}
		if gotV[i] != s.vals[w] {
			return fmt.Errorf("%s: entry %d key %q value %q, model %q", what, i, w, gotV[i], s.vals[w])
		}
	}
	return nil
}

func hOrder(a []string, asc bool) []string {
	if asc {
		return a
	}
	out := make([]string, len(a))
	for i := range a {
		out[i] = a[len(a)-1-i]
	}
	return out
}

func hHead(a []string) []string {
	if len(a) > 3 {
		return a[:3]
	}
	return a
}

// verify compares every read API of t with the ordered map s.
// fastOn: the handle serving t consults the fast index; ver: version being
// read (for the stale-read statistics of C26); newer: the snapshot of a later
// state (nil if none) used to classify reads of keys that changed afterwards.
func (r *hRun) verify(what string, t treeReader, s *hSnap, op *hOp, full bool, fastOn bool, newer *hSnap) error {
	if got := t.Size(); got != int64(len(s.keys)) {
		return fmt.Errorf("%s: Size() = %d, model %d", what, got, len(s.keys))
	}
	var drawn []string
	var ranges [][]string
	var idx []int
	if op != nil {
		drawn, ranges, idx = op.P, op.R, op.I
	}
	for _, k := range r.probesFor(s, drawn, full) {
		want, present := s.vals[k]
		got, err := t.Get(hB(k))
		if err != nil {
			return fmt.Errorf("%s: Get(%q): %v", what, k, err)
		}
		if fastOn {
			r.fastReads++
			if newer != nil {
				nv, np := newer.vals[k]
				if np != present || nv != want {
					r.staleReads++
				}
			}
		}
		if present {
			if got == nil || string(got) != want {
				return fmt.Errorf("%s: Get(%q) = %q (nil=%v), model %q [fast=%v]", what, k, got, got == nil, want, fastOn)
			}
		} else if got != nil {
			return fmt.Errorf("%s: Get(%q) = %q for a key absent in the model [fast=%v]", what, k, got, fastOn)
		}
		has, err := t.Has(hB(k))
		if err != nil {
			return fmt.Errorf("%s: Has(%q): %v", what, k, err)
		}
		if has != present {
			return fmt.Errorf("%s: Has(%q) = %v, model %v", what, k, has, present)
		}
		gi, gv, err := t.GetWithIndex(hB(k))
		if err != nil {
			return fmt.Errorf("%s: GetWithIndex(%q): %v", what, k, err)
		}
		if gi != int64(s.rank(k)) {
			return fmt.Errorf("%s: GetWithIndex(%q) index %d, model rank %d (present=%v)", what, k, gi, s.rank(k), present)
		}
		if present && (gv == nil || string(gv) != want) || !present && gv != nil {
			return fmt.Errorf("%s: GetWithIndex(%q) value %q, model %q present=%v", what, k, gv, want, present)
		}
	}
	n := len(s.keys)
	for _, sel := range idx {
		i := int64(sel%(n+3)) - 1 // -1 .. n+1
		k, v, err := t.GetByIndex(i)
		if i < 0 || i >= int64(n) {
			if err == nil {
				return fmt.Errorf("%s: GetByIndex(%d) with size %d returned (%q,%q) without error", what, i, n, k, v)
			}
			continue
		}
		if err != nil {
			return fmt.Errorf("%s: GetByIndex(%d): %v", what, i, err)
		}
		if string(k) != s.keys[i] || v == nil || string(v) != s.vals[s.keys[i]] {
			return fmt.Errorf("%s: GetByIndex(%d) = (%q,%q), model (%q,%q)", what, i, k, v, s.keys[i], s.vals[s.keys[i]])
		}
	}
	// index-derived ranges: bounds exactly at existing keys (leaf boundaries)
	if n > 1 && len(idx) >= 2 {
		a, b := idx[0]%n, idx[1]%n
		if a > b {
			a, b = b, a
		}
		if a != b {
			ranges = append(ranges[:len(ranges):len(ranges)], []string{s.keys[a], s.keys[b]})
		}
		if full {
			ranges = append(ranges, []string{"", s.keys[b]}, []string{s.keys[a], ""})
		}
	}
	for _, rg := range ranges {
		want := s.rangeKeys(rg[0], rg[1])
		for _, asc := range []bool{true, false} {
			itr, err := t.Iterator(hBound(rg[0]), hBound(rg[1]), asc)
			if err != nil {
				return fmt.Errorf("%s: Iterator(%q,%q,%v): %v", what, rg[0], rg[1], asc, err)
			}
			gk, gv, err := hIterCollect(itr, n+4)
			if err != nil {
				return fmt.Errorf("%s: Iterator(%q,%q,%v): %v", what, rg[0], rg[1], asc, err)
			}
			if err := hCmpSeq(fmt.Sprintf("%s: Iterator(%q,%q,asc=%v)", what, rg[0], rg[1], asc), gk, gv, s, want, asc); err != nil {
				return err
			}
		}
		// IterateRange with an early stop after the 2nd entry
		cnt := 0
		stopped, err := t.IterateRange(hBound(rg[0]), hBound(rg[1]), true, func(k, v []byte) bool {
			cnt++
			return cnt == 2
		})
		if err != nil {
			return fmt.Errorf("%s: IterateRange(%q,%q): %v", what, rg[0], rg[1], err)
		}
		wantCnt := len(want)
		if wantCnt > 2 {
			wantCnt = 2
		}
		if cnt != wantCnt || stopped != (len(want) >= 2) {
			return fmt.Errorf("%s: IterateRange(%q,%q) visited %d stopped=%v, model has %d entries", what, rg[0], rg[1], cnt, stopped, len(want))
		}
	}
	if full {
		var gk, gv []string
		var nilVal bool
		if _, err := t.Iterate(func(k, v []byte) bool {
			if v == nil {
				nilVal = true
			}
			gk = append(gk, string(k))
			gv = append(gv, string(v))
			return len(gk) > n+4 // never loop forever
		}); err != nil {
			return fmt.Errorf("%s: Iterate: %v", what, err)
		}
		if nilVal {
			return fmt.Errorf("%s: Iterate passed a nil value", what)
		}
		if err := hCmpSeq(what+": Iterate", gk, gv, s, s.keys, true); err != nil {
			return err
		}
		for _, asc := range []bool{true, false} {
			itr, err := t.Iterator(nil, nil, asc)
			if err != nil {
				return err
			}
			gk, gv, err := hIterCollect(itr, n+4)
			if err != nil {
				return fmt.Errorf("%s: Iterator(nil,nil,%v): %v", what, asc, err)
			}
			if err := hCmpSeq(fmt.Sprintf("%s: Iterator(nil,nil,asc=%v)", what, asc), gk, gv, s, s.keys, asc); err != nil {
				return err
			}
		}
	}
	return nil
}

// verifyWorking checks the writer's working tree against the model.
func (r *hRun) verifyWorking(op *hOp, full bool) error {
	s := hMakeSnap(r.m.work)
	r.noteHeight()
	// The working tree consults the fast index only while clean; then it reads
	// committed state of version `loaded`.
	var newer *hSnap
	if r.cfg.Fast && !r.m.dirty && r.m.loaded != r.m.latest {
		newer = r.m.vers[r.m.latest]
	}
	if err := r.verify(fmt.Sprintf("op#%d working tree (based on v%d, dirty=%v)", r.opIndex, r.m.loaded, r.m.dirty), r.tree, s, op, full, r.cfg.Fast && !r.m.dirty, newer); err != nil {
		return err
	}
	if got, want := r.tree.Version(), r.m.loaded; got != want {
		return fmt.Errorf("op#%d: Version() = %d, model %d", r.opIndex, got, want)
	}
	if got, want := r.tree.WorkingVersion(), r.m.workingVersion(); got != want {
		return fmt.Errorf("op#%d: WorkingVersion() = %d, model %d", r.opIndex, got, want)
	}
	if got := r.tree.IsEmpty(); got != (len(r.m.work) == 0) {
		return fmt.Errorf("op#%d: IsEmpty() = %v, model size %d", r.opIndex, got, len(r.m.work))
	}
	if sv := r.m.vers[r.m.loaded]; sv != nil && !bytes.Equal(r.tree.Hash(), sv.hash) {
		return fmt.Errorf("op#%d: Hash() = %x differs from the hash SaveVersion returned for v%d (%x)", r.opIndex, r.tree.Hash(), r.m.loaded, sv.hash)
	}
	return nil
}

// newerThan returns the model state that follows version v (next retained
// version, or the latest) for stale-read classification.
func (r *hRun) newerThan(v int64) *hSnap {
	if v < r.m.latest {
		return r.m.vers[r.m.latest]
	}
	return nil
}

// verifyVersion opens a registered snapshot of v on the writer handle and
// checks it.
func (r *hRun) verifyVersion(v int64, op *hOp, full bool) error {
	s := r.m.vers[v]
	imm, err := r.tree.GetImmutable(v)
	if err != nil {
		return fmt.Errorf("op#%d: GetImmutable(%d) of a retained version: %v", r.opIndex, v, err)
	}
	defer imm.Close()
	return r.verifyImm(fmt.Sprintf("op#%d snapshot v%d", r.opIndex, v), imm, v, s, op, full, r.cfg.Fast)
}

func (r *hRun) verifyImm(what string, imm *bp.ImmutableTree, v int64, s *hSnap, op *hOp, full bool, fast bool) error {
	if err := r.verify(what, imm, s, op, full, fast, r.newerThan(v)); err != nil {
		return err
	}
	if imm.Version() != v {
		return fmt.Errorf("%s: Version() = %d", what, imm.Version())
	}
	if !bytes.Equal(imm.Hash(), s.hash) {
		return fmt.Errorf("%s: Hash() = %x, SaveVersion returned %x", what, imm.Hash(), s.hash)
	}
	if imm.IsEmpty() != (len(s.keys) == 0) {
		return fmt.Errorf("%s: IsEmpty() = %v, model size %d", what, imm.IsEmpty(), len(s.keys))
	}
	return nil
}

// verifyAll: every retained version is intact, every other version is gone.
func (r *hRun) verifyAll(full bool) error {
	ret := r.m.retained()
	for _, v := range ret {
		if err := r.verifyVersion(v, nil, full); err != nil {
			return err
		}
		if !r.tree.VersionExists(v) {
			return fmt.Errorf("op#%d: VersionExists(%d) = false for a retained version", r.opIndex, v)
		}
	}
	av := r.tree.AvailableVersions()
	if len(av) != len(ret) {
		return fmt.Errorf("op#%d: AvailableVersions() = %v, model retained %v", r.opIndex, av, ret)
	}
	for i := range av {
		if int64(av[i]) != ret[i] {
			return fmt.Errorf("op#%d: AvailableVersions() = %v, model retained %v", r.opIndex, av, ret)
		}
	}
	// versions outside the retained set must be reported absent
	lo, hi := int64(1), r.m.latest+2
	for v := lo; v <= hi; v++ {
		if r.m.vers[v] != nil {
			continue
		}
		if r.tree.VersionExists(v) {
			return fmt.Errorf("op#%d: VersionExists(%d) = true for a pruned/never-saved version", r.opIndex, v)
		}
		imm, err := r.tree.GetImmutable(v)
		if err == nil {
			imm.Close()
			return fmt.Errorf("op#%d: GetImmutable(%d) succeeded for a pruned/never-saved version", r.opIndex, v)
		}
		if !errors.Is(err, bp.ErrVersionDoesNotExist) {
			return fmt.Errorf("op#%d: GetImmutable(%d) of an absent version: want ErrVersionDoesNotExist, got %v", r.opIndex, v, err)
		}
	}
	return nil
}

func (r *hRun) detached() bool { return r.m.loaded != r.m.latest }

var errHCrashed = errors.New("crashed")

// guard runs f, translating the crash sentinel into errHCrashed.
func (r *hRun) guard(f func() error) (err error) {
	defer func() {
		if p := recover(); p != nil {
			if _, ok := p.(hCrashSentinel); ok {
				err = errHCrashed
				return
			}
			panic(p)
		}
	}()
	return f()
}

// step executes one op on tree and model. It returns errHCrashed when the
// crash DB killed the process inside the op.
func (r *hRun) step(i int, op *hOp) error {
	r.opIndex = i
	switch op.T {
	case "set":
		return r.set(op.K, op.V)
	case "del":
		return r.del(op.K)
	case "setrun":
		for j := 0; j < op.N; j++ {
			id := op.A + j*op.S
			if id < 0 {
				break
			}
			if err := r.set(hKey(id), fmt.Sprintf("%s.%d", op.V, id)); err != nil {
				return err
			}
		}
		r.noteHeight()
		return nil
	case "fill":
		for pass := 0; pass < 2; pass++ {
			for j := 0; j < op.N; j++ {
				id := op.A + 2*j + pass
				if err := r.set(hKey(id), fmt.Sprintf("%s.%d", op.V, id)); err != nil {
					return err
				}
			}
		}
		r.noteHeight()
		return nil
	case "delrun":
		h0 := r.tree.Height()
		for j := 0; j < op.N; j++ {
			id := op.A + j*op.S
			if id < 0 {
				break
			}
			if err := r.del(hKey(id)); err != nil {
				return err
			}
		}
		if r.tree.Height() < h0 {
			r.heightDrops++
		}
		return nil
	case "save":
		if r.detached() {
			r.ctx.Class("save-skipped-detached")
			return nil
		}
		return r.save()
	case "rollback":
		r.tree.Rollback()
		r.m.resetWorkTo(r.m.loaded)
		return r.verifyWorking(nil, false)
	case "reopen":
		return r.reopen(*op.Cfg)
	case "prune":
		return r.prune(op)
	case "iopen":
		v, ok := r.pickVersion(op.N)
		if !ok {
			return nil
		}
		if h := r.held[op.A]; h != nil {
			h.imm.Close()
		}
		imm, err := r.tree.GetImmutable(v)
		if err != nil {
			return fmt.Errorf("op#%d: GetImmutable(%d): %v", i, v, err)
		}
		r.held[op.A] = &hHeld{imm: imm, ver: v}
		return r.verifyImm(fmt.Sprintf("op#%d held snapshot v%d (fresh)", i, v), imm, v, r.m.vers[v], nil, false, r.cfg.Fast)
	case "iclose":
		if h := r.held[op.A]; h != nil {
			// last look before release: the snapshot must still be what was saved
			if err := r.verifyImm(fmt.Sprintf("op#%d held snapshot v%d (before close)", i, h.ver), h.imm, h.ver, r.m.vers[h.ver], nil, true, r.cfg.Fast); err != nil {
				return err
			}
			h.imm.Close()
			r.held[op.A] = nil
		}
		return nil
	case "loadver":
		return r.loadVersion(op)
	case "loadlatest":
		var v int64
		var err error
		if op.A == 0 {
			v, err = r.tree.Load()
		} else {
			v, err = r.tree.LoadVersion(r.m.latest)
		}
		if r.m.latest == 0 {
			// nothing saved yet: Load reports 0 and leaves the session alone;
			// LoadVersion(0) means "latest" as well.
			if err != nil || v != 0 {
				return fmt.Errorf("op#%d: load latest on an empty DB = (%d,%v)", i, v, err)
			}
			r.tree.Rollback()
			r.m.resetWorkTo(0)
			return nil
		}
		if err != nil {
			return fmt.Errorf("op#%d: load latest: %v", i, err)
		}
		if v != r.m.latest {
			return fmt.Errorf("op#%d: load latest returned %d, model %d", i, v, r.m.latest)
		}
		r.m.resetWorkTo(r.m.latest)
		return r.verifyWorking(nil, false)
	case "check":
		if r.lightOnly {
			return nil
		}
		if err := r.verifyWorking(op, true); err != nil {
			return err
		}
		if v, ok := r.pickVersion(op.A); ok {
			if err := r.verifyVersion(v, op, true); err != nil {
				return err
			}
		}
		for _, h := range r.held {
			if h != nil {
				if err := r.verifyImm(fmt.Sprintf("op#%d held snapshot v%d", i, h.ver), h.imm, h.ver, r.m.vers[h.ver], op, false, r.cfg.Fast); err != nil {
					return err
				}
			}
		}
		return nil
	case "ropen", "rsnap", "rread", "rclose":
		return r.readerOp(op)
	}
	return fmt.Errorf("unknown op %q", op.T)
}

func (r *hRun) save() error {
	wv := r.m.workingVersion()
	wh := r.tree.WorkingHash()
	snap := hMakeSnap(r.m.work)
	r.pendingSave = &hPending{ver: wv, snap: snap}
	var hash []byte
	var ver int64
	err := r.guard(func() error {
		var e error
		hash, ver, e = r.tree.SaveVersion()
		return e
	})
	r.pendingSave = nil
	if err == errHCrashed {
		return err
	}
	if err != nil {
		return fmt.Errorf("op#%d: SaveVersion (working version %d): %v", r.opIndex, wv, err)
	}
	if ver != wv {
		return fmt.Errorf("op#%d: SaveVersion saved version %d, expected %d", r.opIndex, ver, wv)
	}
	if !bytes.Equal(hash, wh) {
		return fmt.Errorf("op#%d: SaveVersion hash %x differs from WorkingHash() just before (%x)", r.opIndex, hash, wh)
	}
	if !bytes.Equal(r.tree.Hash(), hash) || !bytes.Equal(r.tree.WorkingHash(), hash) {
		return fmt.Errorf("op#%d: after SaveVersion Hash()=%x WorkingHash()=%x, returned %x", r.opIndex, r.tree.Hash(), r.tree.WorkingHash(), hash)
	}
	snap.hash = append([]byte(nil), hash...)
	r.m.vers[ver] = snap
	r.m.latest = ver
	r.m.loaded = ver
	r.m.dirty = false
	r.hashes[ver] = snap.hash
	r.saves++
	if err := r.verifyWorking(nil, false); err != nil {
		return err
	}
	if r.everFast && !r.cfg.Fast && !r.lightOnly {
		// The index (maintained by an earlier fast-index-enabled process) is now
		// behind this commit: a read-only loader with the option on must not
		// trust it for the new version (stamp gating in getImmutable).
		r.ctx.Class("reader-over-index-behind-commit")
		return r.atomicReader(r.m.latest, r.m.vers, 0)
	}
	return nil
}

func (r *hRun) reopen(cfg hCfg) error {
	r.dropHandles()
	r.tree.Close()
	if cfg.Fast != r.cfg.Fast {
		r.fastToggles++
	}
	r.reopens++
	w0 := r.db.writes
	err := r.guard(func() error { return r.open(cfg) })
	if err != nil {
		return err
	}
	if r.db.writes > w0 {
		r.rebuilds++
	}
	return r.verifyWorking(nil, false)
}

func (r *hRun) loadVersion(op *hOp) error {
	// a pruned / never saved version must be refused and leave the session alone
	if r.m.latest > 0 {
		bad := r.m.first() - 1
		if bad >= 1 && op.A%4 == 0 {
			if _, err := r.tree.LoadVersion(bad); err == nil {
				return fmt.Errorf("op#%d: LoadVersion(%d) of a pruned version succeeded", r.opIndex, bad)
			}
			if err := r.verifyWorking(nil, false); err != nil {
				return fmt.Errorf("after refused LoadVersion(%d): %v", bad, err)
			}
		}
	}
	v, ok := r.pickVersion(op.A)
	if !ok {
		return nil
	}
	lv, err := r.tree.LoadVersion(v)
	if err != nil {
		return fmt.Errorf("op#%d: LoadVersion(%d): %v", r.opIndex, v, err)
	}
	if lv != r.m.latest {
		return fmt.Errorf("op#%d: LoadVersion(%d) returned %d, documented to return the latest version %d", r.opIndex, v, lv, r.m.latest)
	}
	r.m.resetWorkTo(v)
	r.ctx.ClassIf(v != r.m.latest, "loadversion-old")
	return r.verifyWorking(nil, false)
}

func (r *hRun) prune(op *hOp) error {
	if op.S == 1 && !r.detached() {
		if err := r.save(); err != nil {
			return err
		}
	}
	ret := r.m.retained()
	if len(ret) == 0 {
		return nil
	}
	var to int64
	switch {
	case op.N == 0:
		to = r.m.latest // must be refused
	case op.N == 1:
		to = ret[0] - 1 // already pruned: no-op
	default:
		to = ret[op.A%len(ret)]
	}
	first := ret[0]
	// predict
	var wantErr error
	refuse := false
	switch {
	case to >= r.m.latest:
		refuse = true
	case to < first:
		// nil, nothing happens
	case r.m.dirty:
		wantErr = bp.ErrUncommittedChanges
	case r.m.loaded <= to:
		wantErr = bp.ErrActiveReaders
	default:
		for _, h := range r.held {
			if h != nil && h.ver <= to {
				wantErr = bp.ErrActiveReaders
			}
		}
	}
	r.pruneTo = to
	err := r.guard(func() error { return r.tree.PruneVersionsTo(to) })
	if err == errHCrashed {
		return err // pruneTo stays set: afterCrash reconciles the pruned prefix
	}
	r.pruneTo = 0
	switch {
	case refuse:
		if err == nil {
			return fmt.Errorf("op#%d: PruneVersionsTo(%d) with latest %d succeeded", r.opIndex, to, r.m.latest)
		}
		r.ctx.Class("prune-refused-latest")
	case wantErr != nil:
		if !errors.Is(err, wantErr) {
			return fmt.Errorf("op#%d: PruneVersionsTo(%d): want %v, got %v (dirty=%v loaded=%d)", r.opIndex, to, wantErr, err, r.m.dirty, r.m.loaded)
		}
		r.ctx.Class("prune-refused-" + map[error]string{bp.ErrUncommittedChanges: "dirty", bp.ErrActiveReaders: "readers"}[wantErr])
	default:
		if err != nil {
			return fmt.Errorf("op#%d: PruneVersionsTo(%d) (first=%d latest=%d): %v", r.opIndex, to, first, r.m.latest, err)
		}
		n := 0
		for _, v := range ret {
			if v <= to {
				delete(r.m.vers, v)
				n++
			}
		}
		if n > 0 {
			r.prunesOK++
		}
	}
	if err := r.verifyWorking(nil, false); err != nil {
		return err
	}
	if r.lightOnly {
		return nil
	}
	return r.verifyAll(false)
}

// ---- read-only loaders (a second handle over the same DB)

func (r *hRun) readerOp(op *hOp) error {
	i := r.opIndex
	switch op.T {
	case "ropen":
		t := bp.NewMutableTreeWithDB(r.inner, op.Cfg.Cache, nil, hOptions(*op.Cfg, r.init)...)
		v, err := t.LoadReadonly()
		if err != nil {
			return fmt.Errorf("op#%d: LoadReadonly: %v", i, err)
		}
		if v != r.m.latest {
			return fmt.Errorf("op#%d: LoadReadonly() = %d, model latest %d", i, v, r.m.latest)
		}
		r.rd[op.A] = &hReader{tree: t, cfg: *op.Cfg, loaded: v}
		r.ctx.Class("reader-open")
		return nil
	case "rsnap":
		rd := r.rd[op.A]
		if rd == nil {
			return nil
		}
		v, ok := r.pickVersion(op.N)
		if !ok {
			return nil
		}
		var imm *bp.ImmutableTree
		var err error
		imm, err = rd.tree.GetImmutableUnregistered(v)
		if err != nil {
			return fmt.Errorf("op#%d: reader GetImmutableUnregistered(%d) of a retained version: %v", i, v, err)
		}
		rd.imm, rd.ver = imm, v
		r.ctx.ClassIf(v > rd.loaded, "reader-snapshot-newer-than-its-load")
		return nil
	case "rread":
		rd := r.rd[op.A]
		if rd == nil {
			// no loader in this slot yet: start one now (fast index on, unless
			// the selector says otherwise)
			cfg := hCfg{Cache: hCaches[op.N%len(hCaches)], Fast: op.N%5 != 0, Flush: 100 * 1024}
			if err := r.readerOp(&hOp{T: "ropen", A: op.A, Cfg: &cfg}); err != nil {
				return err
			}
			rd = r.rd[op.A]
		}
		if rd.imm == nil {
			if err := r.readerOp(&hOp{T: "rsnap", A: op.A, N: op.N}); err != nil {
				return err
			}
			if rd.imm == nil {
				return nil // nothing saved yet
			}
		}
		s := r.m.vers[rd.ver]
		if s == nil {
			// The reader's version was pruned under it. Unregistered views are
			// documented to fail loudly then; drop the view.
			rd.imm = nil
			r.ctx.Class("reader-version-pruned")
			return nil
		}
		r.ctx.Class("reader-read")
		r.ctx.ClassIf(rd.cfg.Fast && !r.cfg.Fast, "reader-fast-writer-not")
		return r.verifyImm(fmt.Sprintf("op#%d reader(fast=%v) view v%d", i, rd.cfg.Fast, rd.ver), rd.imm, rd.ver, s, nil, false, rd.cfg.Fast)
	case "rclose":
		r.rd[op.A] = nil
		return nil
	}
	return nil
}

// atomicReader opens a fresh read-only handle (fast index on) right now and
// checks the given versions. Used at physical-write boundaries.
func (r *hRun) atomicReader(latest int64, vers map[int64]*hSnap, minVer int64) error {
	t := bp.NewMutableTreeWithDB(r.inner, 64, nil, bp.FastIndexOption(true))
	v, err := t.LoadReadonly()
	if err != nil {
		return fmt.Errorf("write-boundary reader: LoadReadonly: %v", err)
	}
	if v != latest {
		return fmt.Errorf("write-boundary reader: LoadReadonly() = %d, durable latest per model %d", v, latest)
	}
	vs := make([]int64, 0, len(vers))
	for ver := range vers {
		if ver > minVer {
			vs = append(vs, ver)
		}
	}
	sort.Slice(vs, func(i, j int) bool { return vs[i] > vs[j] })
	if len(vs) > 2 {
		vs = []int64{vs[0], vs[len(vs)/2]}
	}
	for _, ver := range vs {
		imm, err := t.GetImmutableUnregistered(ver)
		if err != nil {
			return fmt.Errorf("write-boundary reader: GetImmutableUnregistered(%d): %v", ver, err)
		}
		var newer *hSnap
		if ver < latest {
			newer = vers[latest]
		}
		// Only Get consults the fast index; keep this reader cheap (it runs
		// after every physical write).
		what := fmt.Sprintf("write-boundary reader (op#%d, write %d) view v%d", r.opIndex, r.db.writes, ver)
		sn := vers[ver]
		if imm.Size() != int64(len(sn.keys)) {
			return fmt.Errorf("%s: Size() = %d, model %d", what, imm.Size(), len(sn.keys))
		}
		for _, k := range r.probesFor(sn, nil, false) {
			want, present := sn.vals[k]
			got, err := imm.Get(hB(k))
			if err != nil {
				return fmt.Errorf("%s: Get(%q): %v", what, k, err)
			}
			r.fastReads++
			if newer != nil {
				if nv, np := newer.vals[k]; np != present || nv != want {
					r.staleReads++
				}
			}
			if present && (got == nil || string(got) != want) || !present && got != nil {
				return fmt.Errorf("%s: Get(%q) = %q (nil=%v), model %q present=%v [fast=true]", what, k, got, got == nil, want, present)
			}
		}
	}
	return nil
}

// probeEveryWrite installs a read-only loader (fast index on) that runs right
// after EVERY physical write, i.e. in the middle of whatever operation
// performs it (save, intermediate prune flush, index clear/rebuild).
func (r *hRun) probeEveryWrite() {
	r.db.hook = func(n int) {
		if r.hookErr == nil {
			r.boundaryReads++
			r.hookErr = r.boundaryCheck()
		}
	}
}

// runHistory executes all ops; a final sweep checks every retained version.
func (r *hRun) runHistory(c hCase) error {
	for i := range c.Ops {
		err := r.step(i, &c.Ops[i])
		if r.hookErr != nil {
			return r.hookErr
		}
		if err != nil {
			return err
		}
	}
	return r.finish()
}

func (r *hRun) finish() error {
	r.opIndex = 1 << 20
	if err := r.verifyWorking(nil, true); err != nil {
		return err
	}
	for _, h := range r.held {
		if h != nil {
			if err := r.verifyImm(fmt.Sprintf("final held snapshot v%d", h.ver), h.imm, h.ver, r.m.vers[h.ver], nil, true, r.cfg.Fast); err != nil {
				return err
			}
		}
	}
	for _, rd := range r.rd {
		if rd != nil && rd.imm != nil && r.m.vers[rd.ver] != nil {
			if err := r.verifyImm(fmt.Sprintf("final reader view v%d", rd.ver), rd.imm, rd.ver, r.m.vers[rd.ver], nil, true, rd.cfg.Fast); err != nil {
				return err
			}
		}
	}
	if err := r.verifyAll(true); err != nil {
		return err
	}
	if r.m.latest > 0 && !r.lightOnly {
		return r.atomicReader(r.m.latest, r.m.vers, 0)
	}
	return nil
}

func (r *hRun) classes() {
	c := r.ctx
	c.ClassIf(r.saves >= 2, "versions>=2")
	c.ClassIf(r.saves >= 5, "versions>=5")
	c.ClassIf(r.maxHeight >= 1, "height>=1")
	c.ClassIf(r.maxHeight >= 2, "height>=2")
	c.ClassIf(r.heightDrops > 0, "height-dropped")
	c.ClassIf(r.prunesOK > 0, "pruned")
	c.ClassIf(r.reopens > 0, "reopened")
	c.ClassIf(r.fastToggles > 0, "fast-toggled")
	c.ClassIf(r.rebuilds > 0, "reopen-wrote(index rebuild)")
	c.ClassIf(r.staleReads > 0, "fast-read-of-key-changed-later")
	c.ClassIf(r.fastReads > 0, "fast-reads")
}

func hScratch() string {
	if d := os.Getenv("VERIF_TMP"); d != "" {
		return d
	}
	d, _ := os.MkdirTemp("/var/tmp", "verif-bptree-")
	return d
}
