package bptree

import (
	"bytes"
	"crypto/sha256"
	"encoding/binary"
	"fmt"
	"sort"
	"testing"

	ics23 "github.com/cosmos/ics23/go"
	abci "github.com/gnolang/gno/tm2/pkg/bft/abci/types"
	bp "github.com/gnolang/gno/tm2/pkg/bptree"
	"github.com/gnolang/gno/tm2/pkg/crypto/merkle"
	"github.com/gnolang/gno/tm2/pkg/db/memdb"
	storebp "github.com/gnolang/gno/tm2/pkg/store/bptree"
	"github.com/gnolang/gno/tm2/pkg/store/rootmulti"
	storetypes "github.com/gnolang/gno/tm2/pkg/store/types"
	"pgregory.net/rapid"
	"verif/vk"
)

// C25 — Merkle proofs are sound and complete.
//
//   TestC25_BptreeProofs  ics23 proofs of tm2/pkg/bptree + the store's CommitmentOp
//   TestC25_StoreProofs   rootmulti Query(Prove) chains verified by DefaultProofRuntime
//   TestC25_SimpleMerkle  simple merkle list / map proofs vs an independent RFC-6962 style reference
//
// Values are never empty here: ics23's LeafOp rejects empty values, which the
// bptree docs state (GetMembershipProof doc; IAVL behaves identically).

// c25GapKey is the known-finding key for the one literal clause ics23 does not
// provide: a non-existence proof is bound to the empty gap between its two
// neighbours, not to the queried key (NonExistenceProof.Key is not consulted by
// ics23.VerifyNonMembership), so it also verifies for any OTHER ABSENT key in
// the same gap. It never verifies for a present key or a key outside the gap;
// those stay hard violations.
const c25GapKey = "nonexist-proof-bound-to-gap-not-key"

// c25Known consults the known-findings list for the gap clause.
func c25Known(ctx *vk.Ctx) bool { return ctx.Known(c25GapKey) }

type c25Mut struct {
	F string `json:"f"` // field / structural mutation
	I int    `json:"i"` // element selector
	B int    `json:"b"` // bit selector
	L bool   `json:"l"` // non-existence proofs: mutate the left (else right) neighbour proof
}

type c25Query struct {
	Ver   int      `json:"ver"`  // selector of the retained version to prove against
	Kind  string   `json:"kind"` // present | succ | prefix | before | after | between | boundary | drawn
	Sel   int      `json:"sel"`  // index selector into the version's sorted keys
	K     string   `json:"k,omitempty"`
	Other []int    `json:"other"`  // selectors of transplant target keys (present keys)
	OtherK []string `json:"otherK"` // drawn transplant target keys
	Muts  []c25Mut `json:"muts"`
}

type c25Case struct {
	H hCase      `json:"h"`
	Q []c25Query `json:"q"`
}

func c25Clone(p *ics23.CommitmentProof) *ics23.CommitmentProof {
	bz, err := p.Marshal()
	if err != nil {
		panic(err)
	}
	q := &ics23.CommitmentProof{}
	if err := q.Unmarshal(bz); err != nil {
		panic(err)
	}
	return q
}

func c25Same(a, b *ics23.CommitmentProof) bool {
	x, _ := a.Marshal()
	y, _ := b.Marshal()
	return bytes.Equal(x, y)
}

func c25Flip(b []byte, sel int) []byte {
	out := append([]byte(nil), b...)
	if len(out) == 0 {
		return []byte{byte(1 + sel%255)}
	}
	bit := sel % (8 * len(out))
	out[bit/8] ^= 1 << uint(bit%8)
	return out
}

var c25ExistFields = []string{"key", "value", "leaf.prefix", "leaf.hash", "leaf.prehashkey", "leaf.prehashvalue", "leaf.length",
	"path.prefix", "path.prefix", "path.suffix", "path.suffix", "path.hash", "path.drop", "path.dup", "path.swap", "path.side", "path.side", "leaf.nil"}

// c25MutExist applies m to ep in place. It reports false when the mutation is
// not applicable.
func c25MutExist(ep *ics23.ExistenceProof, m c25Mut) bool {
	n := len(ep.Path)
	switch m.F {
	case "key":
		ep.Key = c25Flip(ep.Key, m.B)
	case "value":
		ep.Value = c25Flip(ep.Value, m.B)
	case "leaf.prefix":
		leaf := *ep.Leaf
		if m.I%2 == 0 {
			leaf.Prefix = c25Flip(leaf.Prefix, m.B)
		} else {
			leaf.Prefix = append(append([]byte(nil), leaf.Prefix...), byte(m.B))
		}
		ep.Leaf = &leaf
	case "leaf.hash":
		leaf := *ep.Leaf
		leaf.Hash = ics23.HashOp((int(leaf.Hash) + 1 + m.I%5) % 7)
		ep.Leaf = &leaf
	case "leaf.prehashkey":
		leaf := *ep.Leaf
		leaf.PrehashKey = ics23.HashOp((int(leaf.PrehashKey) + 1 + m.I%5) % 7)
		ep.Leaf = &leaf
	case "leaf.prehashvalue":
		leaf := *ep.Leaf
		leaf.PrehashValue = ics23.HashOp((int(leaf.PrehashValue) + 1 + m.I%5) % 7)
		ep.Leaf = &leaf
	case "leaf.length":
		leaf := *ep.Leaf
		leaf.Length = ics23.LengthOp((int(leaf.Length) + 1 + m.I%7) % 9)
		ep.Leaf = &leaf
	case "leaf.nil":
		ep.Leaf = nil
	case "path.prefix":
		if n == 0 {
			return false
		}
		op := *ep.Path[m.I%n]
		op.Prefix = c25Flip(op.Prefix, m.B)
		ep.Path[m.I%n] = &op
	case "path.suffix":
		if n == 0 {
			return false
		}
		op := *ep.Path[m.I%n]
		op.Suffix = c25Flip(op.Suffix, m.B)
		ep.Path[m.I%n] = &op
	case "path.hash":
		if n == 0 {
			return false
		}
		op := *ep.Path[m.I%n]
		op.Hash = ics23.HashOp((int(op.Hash) + 1 + m.B%5) % 7)
		ep.Path[m.I%n] = &op
	case "path.drop":
		if n == 0 {
			return false
		}
		i := m.I % n
		ep.Path = append(append([]*ics23.InnerOp(nil), ep.Path[:i]...), ep.Path[i+1:]...)
	case "path.dup":
		if n == 0 {
			return false
		}
		i := m.I % n
		p := append([]*ics23.InnerOp(nil), ep.Path[:i+1]...)
		p = append(p, ep.Path[i])
		ep.Path = append(p, ep.Path[i+1:]...)
	case "path.swap":
		if n < 2 {
			return false
		}
		i := m.I % (n - 1)
		p := append([]*ics23.InnerOp(nil), ep.Path...)
		p[i], p[i+1] = p[i+1], p[i]
		ep.Path = p
	case "path.side":
		// claim the sibling sits on the other side
		if n == 0 {
			return false
		}
		op := *ep.Path[m.I%n]
		if len(op.Suffix) > 0 {
			op.Prefix = append(append([]byte(nil), op.Prefix...), op.Suffix...)
			op.Suffix = nil
		} else if len(op.Prefix) > 1 {
			op.Suffix = append([]byte(nil), op.Prefix[1:]...)
			op.Prefix = op.Prefix[:1]
		} else {
			return false
		}
		ep.Path[m.I%n] = &op
	default:
		return false
	}
	return true
}

func c25KeyPath(parts ...[]byte) string {
	var kp merkle.KeyPath
	for _, p := range parts {
		kp = kp.AppendKey(p, merkle.KeyEncodingHex)
	}
	return kp.String()
}

// c25OpRun wraps the store-level operator: encode to the wire ProofOp, decode
// with the registered decoder, Run.
func c25OpRun(key []byte, proof *ics23.CommitmentProof, args [][]byte) ([][]byte, error) {
	pop := storebp.NewBptreeCommitmentOp(key, proof).ProofOp()
	dec, err := storebp.BptreeCommitmentOpDecoder(pop)
	if err != nil {
		return nil, fmt.Errorf("decoding the ProofOp just encoded: %v", err)
	}
	return dec.Run(args)
}

type c25Ver struct {
	v   int64
	s   *hSnap
	imm *bp.ImmutableTree
}

func c25QueryKey(q c25Query, s *hSnap) string {
	n := len(s.keys)
	if n == 0 {
		if q.K != "" {
			return q.K
		}
		return "k"
	}
	k := s.keys[q.Sel%n]
	switch q.Kind {
	case "present":
		return k
	case "succ":
		return k + "\x00"
	case "prefix":
		if len(k) > 1 {
			return k[:len(k)-1]
		}
		return k + "0"
	case "before":
		f := s.keys[0]
		if len(f) > 1 {
			return f[:len(f)-1]
		}
		return "\x01"
	case "after":
		return s.keys[n-1] + "~"
	case "between":
		return k + "5"
	}
	if q.K != "" {
		return q.K
	}
	return k
}

// c25ResolveKey is c25QueryKey plus the "boundary" kind: the absent key right
// after the last key of a leaf (its two neighbours live in different leaves).
// The leaf boundary is found through the proofs themselves: two keys share a
// leaf iff their existence proofs agree beyond the first 5 (mini-merkle) ops.
func c25ResolveKey(q c25Query, s *hSnap, imm *bp.ImmutableTree) string {
	n := len(s.keys)
	if q.Kind != "boundary" || n < 2 {
		return c25QueryKey(q, s)
	}
	tail := func(k string) []byte {
		p, err := imm.GetMembershipProof(hB(k))
		if err != nil || len(p.GetExist().Path) <= 5 {
			return nil
		}
		b, _ := (&ics23.ExistenceProof{Path: p.GetExist().Path[5:]}).Marshal()
		return b
	}
	start := q.Sel % n
	prev := tail(s.keys[start])
	for d := 1; d <= 40 && prev != nil; d++ {
		i := (start + d) % n
		if i == 0 {
			break
		}
		cur := tail(s.keys[i])
		if !bytes.Equal(cur, prev) {
			return s.keys[i-1] + "\x00"
		}
		prev = cur
	}
	return s.keys[start] + "\x00"
}

func c25CheckQuery(ctx *vk.Ctx, r *hRun, tv *c25Ver, q c25Query) error {
	s, imm, root := tv.s, tv.imm, tv.s.hash
	key := c25ResolveKey(q, s, imm)
	val, present := s.vals[key]
	n := len(s.keys)
	what := fmt.Sprintf("v%d key %q", tv.v, key)
	spec := bp.BptreeSpec

	// transplant targets
	var others []string
	for _, o := range q.Other {
		if n > 0 {
			others = append(others, s.keys[o%n])
		}
	}
	others = append(others, q.OtherK...)
	if n > 0 {
		i := s.rank(key)
		for _, j := range []int{i - 2, i - 1, i, i + 1, i + 2} {
			if j >= 0 && j < n {
				others = append(others, s.keys[j], s.keys[j]+"\x00")
			}
		}
	}

	if n == 0 {
		if _, err := imm.GetMembershipProof(hB(key)); err == nil {
			return fmt.Errorf("%s: membership proof produced on an empty tree", what)
		}
		if _, err := imm.GetNonMembershipProof(hB(key)); err == nil {
			return fmt.Errorf("%s: non-membership proof produced on an empty tree (documented: ErrEmptyTree)", what)
		}
		ctx.Class("empty-tree")
		return nil
	}

	if present {
		ctx.Class("membership")
		proof, err := imm.GetMembershipProof(hB(key))
		if err != nil {
			return fmt.Errorf("%s: GetMembershipProof of a present key: %v", what, err)
		}
		if _, err := imm.GetNonMembershipProof(hB(key)); err == nil {
			return fmt.Errorf("%s: GetNonMembershipProof succeeded for a present key", what)
		}
		if !ics23.VerifyMembership(spec, root, proof, hB(key), hB(val)) {
			return fmt.Errorf("%s: honest membership proof does not verify against the version's root hash", what)
		}
		if ok, err := imm.VerifyMembership(proof, hB(key)); err != nil || !ok {
			return fmt.Errorf("%s: ImmutableTree.VerifyMembership(honest proof) = (%v,%v)", what, ok, err)
		}
		out, err := c25OpRun(hB(key), proof, [][]byte{hB(val)})
		if err != nil || len(out) != 1 || !bytes.Equal(out[0], root) {
			return fmt.Errorf("%s: store CommitmentOp.Run(honest) = (%x,%v), want root %x", what, out, err, root)
		}
		prt := rootmulti.DefaultProofRuntime()
		pf := &merkle.Proof{Ops: []merkle.ProofOp{storebp.NewBptreeCommitmentOp(hB(key), proof).ProofOp()}}
		if err := prt.VerifyValue(pf, root, c25KeyPath(hB(key)), hB(val)); err != nil {
			return fmt.Errorf("%s: ProofRuntime.VerifyValue(honest): %v", what, err)
		}
		// --- soundness
		if ics23.VerifyNonMembership(spec, root, proof, hB(key)) {
			return fmt.Errorf("%s: an existence proof verified as NON-membership", what)
		}
		if _, err := c25OpRun(hB(key), proof, nil); err == nil {
			return fmt.Errorf("%s: CommitmentOp.Run(no args = absence) accepted an existence proof", what)
		}
		if err := prt.VerifyAbsence(pf, root, c25KeyPath(hB(key))); err == nil {
			return fmt.Errorf("%s: ProofRuntime.VerifyAbsence accepted an existence proof", what)
		}
		for _, v2 := range []string{val + "x", string(c25Flip(hB(val), q.Sel)), "", val[:len(val)-1]} {
			if v2 == val {
				continue
			}
			if ics23.VerifyMembership(spec, root, proof, hB(key), hB(v2)) {
				return fmt.Errorf("%s: membership proof verified with another value %q (real %q)", what, v2, val)
			}
			if _, err := c25OpRun(hB(key), proof, [][]byte{hB(v2)}); err == nil {
				return fmt.Errorf("%s: CommitmentOp.Run accepted another value %q", what, v2)
			}
			if err := prt.VerifyValue(pf, root, c25KeyPath(hB(key)), hB(v2)); err == nil {
				return fmt.Errorf("%s: ProofRuntime.VerifyValue accepted another value %q", what, v2)
			}
		}
		for _, k2 := range others {
			if k2 == key {
				continue
			}
			if ics23.VerifyMembership(spec, root, proof, hB(k2), hB(val)) {
				return fmt.Errorf("%s: membership proof verified for another key %q", what, k2)
			}
			if v2, ok := s.vals[k2]; ok && ics23.VerifyMembership(spec, root, proof, hB(k2), hB(v2)) {
				return fmt.Errorf("%s: membership proof verified for another key %q with that key's value", what, k2)
			}
			// the store op keyed with another key
			if _, err := c25OpRun(hB(k2), proof, [][]byte{hB(val)}); err == nil {
				return fmt.Errorf("%s: CommitmentOp{Key:%q}.Run accepted a proof for another key", what, k2)
			}
			if err := prt.VerifyValue(pf, root, c25KeyPath(hB(k2)), hB(val)); err == nil {
				return fmt.Errorf("%s: ProofRuntime.VerifyValue accepted key path of another key %q", what, k2)
			}
		}
		badRoot := c25Flip(root, q.Sel)
		if ics23.VerifyMembership(spec, badRoot, proof, hB(key), hB(val)) {
			return fmt.Errorf("%s: membership proof verified against an altered root", what)
		}
		if err := prt.VerifyValue(pf, badRoot, c25KeyPath(hB(key)), hB(val)); err == nil {
			return fmt.Errorf("%s: ProofRuntime.VerifyValue accepted an altered root", what)
		}
		// other versions' roots
		for _, ov := range r.m.retained() {
			oh := r.m.vers[ov].hash
			if !bytes.Equal(oh, root) && ics23.VerifyMembership(spec, oh, proof, hB(key), hB(val)) {
				return fmt.Errorf("%s: membership proof verified against the different root of v%d", what, ov)
			}
		}
		for _, m := range q.Muts {
			mp := c25Clone(proof)
			if !c25MutExist(mp.GetExist(), m) || c25Same(mp, proof) {
				ctx.Class("mutation-not-applicable")
				continue
			}
			ctx.Class("mutated-existence-proof")
			for _, kv := range [][2][]byte{{hB(key), hB(val)}, {mp.GetExist().Key, mp.GetExist().Value}} {
				if ics23.VerifyMembership(spec, root, mp, kv[0], kv[1]) {
					return fmt.Errorf("%s: membership proof still verifies (key %q value %q) after mutation %+v", what, kv[0], kv[1], m)
				}
				if out, err := c25OpRun(kv[0], mp, [][]byte{kv[1]}); err == nil && bytes.Equal(out[0], root) {
					return fmt.Errorf("%s: CommitmentOp.Run still yields the root after mutation %+v", what, m)
				}
			}
		}
		// forged non-membership for this PRESENT key from its two neighbours
		i := s.rank(key)
		forged := &ics23.NonExistenceProof{Key: hB(key)}
		if i > 0 {
			lp, err := imm.GetMembershipProof(hB(s.keys[i-1]))
			if err != nil {
				return fmt.Errorf("%s: proof of left neighbour: %v", what, err)
			}
			forged.Left = lp.GetExist()
		}
		if i < n-1 {
			rp, err := imm.GetMembershipProof(hB(s.keys[i+1]))
			if err != nil {
				return fmt.Errorf("%s: proof of right neighbour: %v", what, err)
			}
			forged.Right = rp.GetExist()
		}
		if forged.Left != nil || forged.Right != nil {
			fp := &ics23.CommitmentProof{Proof: &ics23.CommitmentProof_Nonexist{Nonexist: forged}}
			ctx.Class("forged-nonmembership-of-present-key")
			if ics23.VerifyNonMembership(spec, root, fp, hB(key)) {
				return fmt.Errorf("%s: forged non-membership proof (neighbours %q,%q that are not adjacent) verified for a PRESENT key", what, s.keys[max(i-1, 0)], s.keys[min(i+1, n-1)])
			}
			if _, err := c25OpRun(hB(key), fp, nil); err == nil {
				return fmt.Errorf("%s: CommitmentOp.Run accepted a forged non-membership proof of a present key", what)
			}
		}
		ctx.NTIf(len(q.Muts) > 0)
		return nil
	}

	// ---- absent key
	ctx.Class("non-membership")
	if _, err := imm.GetMembershipProof(hB(key)); err == nil {
		return fmt.Errorf("%s: GetMembershipProof succeeded for an absent key", what)
	}
	proof, err := imm.GetNonMembershipProof(hB(key))
	if err != nil {
		return fmt.Errorf("%s: GetNonMembershipProof of an absent key: %v", what, err)
	}
	ne := proof.GetNonexist()
	if ne == nil {
		return fmt.Errorf("%s: GetNonMembershipProof returned no NonExistenceProof", what)
	}
	i := s.rank(key) // number of keys < key
	atEdge := i == 0 || i == n
	ctx.ClassIf(i == 0, "absent-before-first")
	ctx.ClassIf(i == n, "absent-after-last")
	crossLeaf := false
	if !atEdge {
		if ne.Left == nil || ne.Right == nil {
			return fmt.Errorf("%s: interior non-membership proof lacks a neighbour (left nil=%v right nil=%v)", what, ne.Left == nil, ne.Right == nil)
		}
		if string(ne.Left.Key) != s.keys[i-1] || string(ne.Right.Key) != s.keys[i] {
			return fmt.Errorf("%s: neighbours in proof are (%q,%q), model (%q,%q)", what, ne.Left.Key, ne.Right.Key, s.keys[i-1], s.keys[i])
		}
		if len(ne.Left.Path) > 5 && len(ne.Right.Path) > 5 {
			l := &ics23.ExistenceProof{Path: ne.Left.Path[5:]}
			rr := &ics23.ExistenceProof{Path: ne.Right.Path[5:]}
			lb, _ := l.Marshal()
			rb, _ := rr.Marshal()
			crossLeaf = !bytes.Equal(lb, rb)
		}
	}
	ctx.ClassIf(crossLeaf, "absent-between-leaves")
	if !ics23.VerifyNonMembership(spec, root, proof, hB(key)) {
		return fmt.Errorf("%s: honest non-membership proof does not verify (rank %d of %d)", what, i, n)
	}
	if ok, err := imm.VerifyNonMembership(proof, hB(key)); err != nil || !ok {
		return fmt.Errorf("%s: ImmutableTree.VerifyNonMembership(honest) = (%v,%v)", what, ok, err)
	}
	out, err := c25OpRun(hB(key), proof, nil)
	if err != nil || len(out) != 1 || !bytes.Equal(out[0], root) {
		return fmt.Errorf("%s: store CommitmentOp.Run(honest absence) = (%x,%v), want root %x", what, out, err, root)
	}
	prt := rootmulti.DefaultProofRuntime()
	pf := &merkle.Proof{Ops: []merkle.ProofOp{storebp.NewBptreeCommitmentOp(hB(key), proof).ProofOp()}}
	if err := prt.VerifyAbsence(pf, root, c25KeyPath(hB(key))); err != nil {
		return fmt.Errorf("%s: ProofRuntime.VerifyAbsence(honest): %v", what, err)
	}
	// --- soundness
	for _, v2 := range []string{"v", "", "x"} {
		if ics23.VerifyMembership(spec, root, proof, hB(key), hB(v2)) {
			return fmt.Errorf("%s: a non-existence proof verified as membership with value %q", what, v2)
		}
		if _, err := c25OpRun(hB(key), proof, [][]byte{hB(v2)}); err == nil {
			return fmt.Errorf("%s: CommitmentOp.Run(value) accepted a non-existence proof", what)
		}
	}
	badRoot := c25Flip(root, q.Sel)
	if ics23.VerifyNonMembership(spec, badRoot, proof, hB(key)) {
		return fmt.Errorf("%s: non-membership proof verified against an altered root", what)
	}
	if err := prt.VerifyAbsence(pf, badRoot, c25KeyPath(hB(key))); err == nil {
		return fmt.Errorf("%s: ProofRuntime.VerifyAbsence accepted an altered root", what)
	}
	for _, ov := range r.m.retained() {
		oh := r.m.vers[ov].hash
		if !bytes.Equal(oh, root) && ics23.VerifyNonMembership(spec, oh, proof, hB(key)) {
			return fmt.Errorf("%s: non-membership proof verified against the different root of v%d", what, ov)
		}
	}
	lo, hi := "", ""
	if i > 0 {
		lo = s.keys[i-1]
	}
	if i < n {
		hi = s.keys[i]
	}
	for _, k2 := range others {
		if k2 == key || k2 == "" {
			continue
		}
		ok := ics23.VerifyNonMembership(spec, root, proof, hB(k2))
		_, oerr := c25OpRun(hB(k2), proof, nil)
		if !ok && oerr != nil {
			continue
		}
		_, p2 := s.vals[k2]
		inGap := !p2 && (lo == "" || k2 > lo) && (hi == "" || k2 < hi)
		if inGap {
			if c25Known(ctx) {
				continue
			}
			return fmt.Errorf("%s: non-membership proof for %q also verifies for the other absent key %q of the same gap (%q,%q) [literal clause; ics23 binds a NonExistenceProof to the gap, not the key]", what, key, k2, lo, hi)
		}
		return fmt.Errorf("%s: non-membership proof verified (ics23=%v, op err=%v) for key %q which is present=%v / outside the gap (%q,%q)", what, ok, oerr, k2, p2, lo, hi)
	}
	for _, m := range q.Muts {
		mp := c25Clone(proof)
		mne := mp.GetNonexist()
		applied := false
		switch m.F {
		case "key": // the NonExistenceProof's own Key field
			mne.Key = c25Flip(mne.Key, m.B)
			if !c25Same(mp, proof) && ics23.VerifyNonMembership(spec, root, mp, hB(key)) {
				if c25Known(ctx) {
					continue
				}
				return fmt.Errorf("%s: non-membership proof still verifies after its Key field was altered to %q [literal clause; ics23 does not consult NonExistenceProof.Key]", what, mne.Key)
			}
			continue
		case "leaf.nil": // reuse the selector for structural mutations of the pair
			switch m.I % 3 {
			case 0:
				if mne.Left != nil && mne.Right != nil {
					mne.Left, applied = nil, true
				}
			case 1:
				if mne.Left != nil && mne.Right != nil {
					mne.Right, applied = nil, true
				}
			default:
				mne.Left, mne.Right = mne.Right, mne.Left
				applied = true
			}
		default:
			side := mne.Left
			if !m.L || side == nil {
				side = mne.Right
			}
			if side == nil {
				side = mne.Left
			}
			applied = c25MutExist(side, m)
		}
		if !applied || c25Same(mp, proof) {
			ctx.Class("mutation-not-applicable")
			continue
		}
		ctx.Class("mutated-nonexistence-proof")
		if ics23.VerifyNonMembership(spec, root, mp, hB(key)) {
			return fmt.Errorf("%s: non-membership proof still verifies after mutation %+v", what, m)
		}
		if out, err := c25OpRun(hB(key), mp, nil); err == nil && bytes.Equal(out[0], root) {
			return fmt.Errorf("%s: CommitmentOp.Run(absence) still yields the root after mutation %+v", what, m)
		}
	}
	// forged wider gap: replace a neighbour by the next key further away; the
	// pair is then not adjacent and must be rejected even for this absent key.
	if i >= 2 {
		fp := c25Clone(proof)
		lp, err := imm.GetMembershipProof(hB(s.keys[i-2]))
		if err != nil {
			return fmt.Errorf("%s: proof of far-left key: %v", what, err)
		}
		fp.GetNonexist().Left = lp.GetExist()
		ctx.Class("forged-nonadjacent-neighbours")
		if ics23.VerifyNonMembership(spec, root, fp, hB(key)) {
			return fmt.Errorf("%s: non-membership proof with NON-adjacent neighbours (%q, %q; %q lies between) verified", what, s.keys[i-2], hi, s.keys[i-1])
		}
	}
	if i+1 < n {
		fp := c25Clone(proof)
		rp, err := imm.GetMembershipProof(hB(s.keys[i+1]))
		if err != nil {
			return fmt.Errorf("%s: proof of far-right key: %v", what, err)
		}
		fp.GetNonexist().Right = rp.GetExist()
		ctx.Class("forged-nonadjacent-neighbours")
		if ics23.VerifyNonMembership(spec, root, fp, hB(key)) {
			return fmt.Errorf("%s: non-membership proof with NON-adjacent neighbours (%q, %q; %q lies between) verified", what, lo, s.keys[i+1], s.keys[i])
		}
	}
	ctx.NTIf(atEdge || crossLeaf)
	return nil
}

func c25Exec(ctx *vk.Ctx, c c25Case) error {
	r, err := hNewRun(ctx, c.H)
	if err != nil {
		return err
	}
	defer r.close()
	r.lightOnly = true
	for i := range c.H.Ops {
		if err := r.step(i, &c.H.Ops[i]); err != nil {
			return fmt.Errorf("building the tree: %v", err)
		}
	}
	if r.detached() || r.m.dirty || r.m.latest == 0 {
		// make sure there is a committed latest version holding the working set
		if r.detached() {
			if _, err := r.tree.Load(); err != nil {
				return err
			}
			r.m.resetWorkTo(r.m.latest)
		}
		if err := r.save(); err != nil {
			return err
		}
	}
	ctx.ClassIf(r.maxHeight >= 1, "height>=1")
	ctx.ClassIf(r.maxHeight >= 2, "height>=2")
	ret := r.m.retained()
	for _, q := range c.Q {
		v := ret[q.Ver%len(ret)]
		if q.Ver%3 == 0 {
			v = r.m.latest
		}
		imm, err := r.tree.GetImmutable(v)
		if err != nil {
			return fmt.Errorf("GetImmutable(%d): %v", v, err)
		}
		tv := &c25Ver{v: v, s: r.m.vers[v], imm: imm}
		err = c25CheckQuery(ctx, r, tv, q)
		imm.Close()
		if err != nil {
			return err
		}
		// the MutableTree wrappers prove against the last committed version
		if v == r.m.latest && len(tv.s.keys) > 0 {
			key := c25QueryKey(q, tv.s)
			if q.Kind == "boundary" {
				key = tv.s.keys[q.Sel%len(tv.s.keys)] + "\x00"
			}
			if val, ok := tv.s.vals[key]; ok {
				p, err := r.tree.GetMembershipProof(hB(key))
				if err != nil || !ics23.VerifyMembership(bp.BptreeSpec, r.tree.Hash(), p, hB(key), hB(val)) {
					return fmt.Errorf("MutableTree.GetMembershipProof(%q) err=%v or does not verify against Hash()", key, err)
				}
			} else {
				p, err := r.tree.GetNonMembershipProof(hB(key))
				if err != nil || !ics23.VerifyNonMembership(bp.BptreeSpec, r.tree.Hash(), p, hB(key)) {
					return fmt.Errorf("MutableTree.GetNonMembershipProof(%q) err=%v or does not verify against Hash()", key, err)
				}
			}
		}
	}
	return nil
}

func c25DrawQuery(rt *rapid.T, l string, span int) c25Query {
	q := c25Query{
		Ver:  rapid.IntRange(0, 63).Draw(rt, l+"ver"),
		Kind: rapid.SampledFrom([]string{"present", "present", "succ", "prefix", "before", "after", "between", "drawn", "boundary", "boundary"}).Draw(rt, l+"kind"),
		Sel:  rapid.IntRange(0, 1<<20).Draw(rt, l+"sel"),
	}
	if q.Kind == "drawn" {
		q.K = hDrawKey(rt, l+"k", span)
	}
	for i := 0; i < 2; i++ {
		q.Other = append(q.Other, rapid.IntRange(0, 1<<20).Draw(rt, fmt.Sprintf("%so%d", l, i)))
	}
	q.OtherK = append(q.OtherK, hDrawKey(rt, l+"ok", span))
	nm := rapid.IntRange(1, 4).Draw(rt, l+"nm")
	for i := 0; i < nm; i++ {
		lm := fmt.Sprintf("%sm%d", l, i)
		q.Muts = append(q.Muts, c25Mut{
			F: rapid.SampledFrom(c25ExistFields).Draw(rt, lm+"f"),
			I: rapid.IntRange(0, 255).Draw(rt, lm+"i"),
			B: rapid.IntRange(0, 1<<16).Draw(rt, lm+"b"),
			L: rapid.Bool().Draw(rt, lm+"l"),
		})
	}
	return q
}

func TestC25_BptreeProofs(t *testing.T) {
	var th bool
	vk.Run(t, vk.Spec[c25Case]{
		ID: "C25", Name: "TestC25_BptreeProofs",
		Rule: "rapid: a tree built by a C23-style history (non-empty values, several versions, splits) and queries: present key, immediate successor, prefix of a key, before first, after last, between, drawn; for each: honest proof verifies through ics23+BptreeSpec, ImmutableTree.Verify*, the store CommitmentOp (wire round trip) and rootmulti.DefaultProofRuntime; it fails for other keys/values/roots/other versions' roots, for 1..4 structural or single-bit mutations of every proof field, and forged non-membership proofs built from non-adjacent neighbours fail; non-trivial = non-membership at a tree edge or between keys of different leaves, or a mutated membership proof",
		Setup: func(r *vk.Rec) { th = r.Thorough() },
		Draw: func(rt *rapid.T) c25Case {
			o := hGenOpts{Span: 1600, MaxOps: 16, MaxRun: 300, FastBias: 3, NoEmptyV: true, ManySaves: true}
			if th {
				o.MaxOps = 30
				o.MaxRun = 700
			}
			c := c25Case{H: hDrawHistory(rt, o)}
			nq := rapid.IntRange(1, 6).Draw(rt, "nq")
			for i := 0; i < nq; i++ {
				c.Q = append(c.Q, c25DrawQuery(rt, fmt.Sprintf("q%d", i), o.Span))
			}
			return c
		},
		Exec: c25Exec,
	})
}

// ------------------------------------------------------------ store level

type c25KV struct {
	S int    `json:"s"` // store selector
	K string `json:"k"`
	V string `json:"v"` // "" = delete
}

type c25StoreCase struct {
	Stores  int       `json:"stores"` // 1..3 bptree stores (+ optionally a non-proving one)
	Fast    bool      `json:"fast"`
	Keep    int       `json:"keep"` // KeepRecent (0 = keep everything: KeepEvery=1)
	Blocks  [][]c25KV `json:"blocks"`
	Q       []c25SQ   `json:"q"`
}

type c25SQ struct {
	H     int    `json:"h"` // height selector
	S     int    `json:"s"` // store selector
	Sel   int    `json:"sel"`
	Kind  string `json:"kind"` // present | succ | after | before | drawn
	K     string `json:"k,omitempty"`
	Flip  int    `json:"flip"` // bit selector for data mutations
}

var c25StoreNames = []string{"main", "aux", "zeta"}

func c25StoreExec(ctx *vk.Ctx, c c25StoreCase) error {
	db := memdb.NewMemDB()
	ms := rootmulti.NewMultiStore(db)
	keys := make([]storetypes.StoreKey, c.Stores)
	for i := 0; i < c.Stores; i++ {
		keys[i] = storetypes.NewStoreKey(c25StoreNames[i])
		cons := storebp.StoreConstructor
		if c.Fast {
			cons = storebp.FastStoreConstructor
		}
		ms.MountStoreWithDB(keys[i], cons, nil)
	}
	opts := storetypes.StoreOptions{}
	if c.Keep == 0 {
		opts.PruningOptions = storetypes.NewPruningOptions(0, 1)
	} else {
		opts.PruningOptions = storetypes.NewPruningOptions(int64(c.Keep), 0)
	}
	ms.SetStoreOptions(opts)
	if err := ms.LoadLatestVersion(); err != nil {
		return fmt.Errorf("LoadLatestVersion: %v", err)
	}
	defer ms.Close()
	model := make([]map[string]string, c.Stores)
	for i := range model {
		model[i] = map[string]string{}
	}
	type hstate struct {
		root  []byte
		snaps []*hSnap
	}
	hist := map[int64]*hstate{}
	var latest int64
	for bi, blk := range c.Blocks {
		// every store always holds at least one key (an empty tree cannot
		// produce absence proofs; documented ErrEmptyTree)
		for i := 0; i < c.Stores; i++ {
			ms.GetStore(keys[i]).Set(nil, hB("~anchor"), hB(fmt.Sprintf("a%d", bi)))
			model[i]["~anchor"] = fmt.Sprintf("a%d", bi)
		}
		for _, kv := range blk {
			si := kv.S % c.Stores
			st := ms.GetStore(keys[si])
			if kv.V == "" {
				st.Delete(nil, hB(kv.K))
				delete(model[si], kv.K)
			} else {
				st.Set(nil, hB(kv.K), hB(kv.V))
				model[si][kv.K] = kv.V
			}
		}
		cid := ms.Commit()
		latest = cid.Version
		hs := &hstate{root: cid.Hash}
		for i := 0; i < c.Stores; i++ {
			hs.snaps = append(hs.snaps, hMakeSnap(model[i]))
		}
		hist[latest] = hs
	}
	// retained heights per the configured strategy
	var heights []int64
	for h := int64(1); h <= latest; h++ {
		if c.Keep == 0 || h >= latest-int64(c.Keep) {
			heights = append(heights, h)
		}
	}
	prt := rootmulti.DefaultProofRuntime()
	for _, q := range c.Q {
		h := heights[q.H%len(heights)]
		si := q.S % c.Stores
		s := hist[h].snaps[si]
		root := hist[h].root
		key := c25QueryKey(c25Query{Kind: q.Kind, Sel: q.Sel, K: q.K}, s)
		val, present := s.vals[key]
		name := c25StoreNames[si]
		what := fmt.Sprintf("height %d store %s key %q", h, name, key)
		res := ms.Query(abci.RequestQuery{Path: "/" + name + "/key", Data: hB(key), Height: h, Prove: true})
		if res.Error != nil {
			return fmt.Errorf("%s: Query error %v (log %q)", what, res.Error, res.Log)
		}
		if res.Height != h {
			return fmt.Errorf("%s: response height %d", what, res.Height)
		}
		if present != (res.Value != nil) || string(res.Value) != val {
			return fmt.Errorf("%s: Query value %q, model %q present=%v", what, res.Value, val, present)
		}
		if res.Proof == nil || len(res.Proof.Ops) != 2 {
			return fmt.Errorf("%s: expected a 2-op proof, got %+v (log %q)", what, res.Proof, res.Log)
		}
		kp := c25KeyPath(hB(name), hB(key))
		verify := func(pf *merkle.Proof, root []byte, kp string, isPresent bool, val string) error {
			if isPresent {
				return prt.VerifyValue(pf, root, kp, hB(val))
			}
			return prt.VerifyAbsence(pf, root, kp)
		}
		if err := verify(res.Proof, root, kp, present, val); err != nil {
			return fmt.Errorf("%s: honest proof chain does not verify against the app hash: %v", what, err)
		}
		ctx.ClassIf(present, "store-membership")
		ctx.ClassIf(!present, "store-non-membership")
		ctx.ClassIf(h != latest, "historic-height")
		// the immutable (snapshot) query path must agree
		if res2, err := ms.QueryImmutable(abci.RequestQuery{Path: "/" + name + "/key", Data: hB(key), Height: h, Prove: true}); err == nil {
			if res2.Error != nil || !bytes.Equal(res2.Value, res.Value) || res2.Proof == nil {
				return fmt.Errorf("%s: QueryImmutable disagrees: value %q err %v", what, res2.Value, res2.Error)
			}
			if err := verify(res2.Proof, root, kp, present, val); err != nil {
				return fmt.Errorf("%s: QueryImmutable proof chain does not verify: %v", what, err)
			}
			ctx.Class("immutable-query")
		}
		// --- soundness
		if err := verify(res.Proof, root, kp, !present, "v"); err == nil {
			return fmt.Errorf("%s: proof chain verified for the opposite claim (present=%v)", what, !present)
		}
		if present {
			if err := prt.VerifyValue(res.Proof, root, kp, hB(val+"x")); err == nil {
				return fmt.Errorf("%s: proof chain verified another value", what)
			}
		}
		if err := verify(res.Proof, c25Flip(root, q.Flip), kp, present, val); err == nil {
			return fmt.Errorf("%s: proof chain verified against an altered app hash", what)
		}
		for oh, st := range hist {
			if !bytes.Equal(st.root, root) {
				if err := verify(res.Proof, st.root, kp, present, val); err == nil {
					return fmt.Errorf("%s: proof chain verified against the app hash of height %d", what, oh)
				}
			}
		}
		// another store name / another key in the key path
		for _, on := range append([]string{"nosuch"}, c25StoreNames[:c.Stores]...) {
			if on != name {
				if err := verify(res.Proof, root, c25KeyPath(hB(on), hB(key)), present, val); err == nil {
					return fmt.Errorf("%s: proof chain verified under store name %q", what, on)
				}
			}
		}
		i := s.rank(key)
		for _, j := range []int{i - 1, i, i + 1} {
			if j < 0 || j >= len(s.keys) || s.keys[j] == key {
				continue
			}
			k2 := s.keys[j]
			if err := verify(res.Proof, root, c25KeyPath(hB(name), hB(k2)), present, val); err == nil {
				return fmt.Errorf("%s: proof chain verified under the key path of present key %q", what, k2)
			}
		}
		if err := verify(res.Proof, root, c25KeyPath(hB(key)), present, val); err == nil {
			return fmt.Errorf("%s: proof chain verified with the store name missing from the key path", what)
		}
		// drop / swap ops
		if err := verify(&merkle.Proof{Ops: res.Proof.Ops[:1]}, root, kp, present, val); err == nil {
			return fmt.Errorf("%s: proof chain verified without the multistore op", what)
		}
		if err := verify(&merkle.Proof{Ops: []merkle.ProofOp{res.Proof.Ops[1], res.Proof.Ops[0]}}, root, kp, present, val); err == nil {
			return fmt.Errorf("%s: proof chain verified with swapped ops", what)
		}
		// bit flips in the wire data of each op; a mutant that decodes to the
		// very same proof (protobuf ignores some bits) is not a different proof.
		for oi := 0; oi < 2; oi++ {
			orig := res.Proof.Ops[oi]
			mut := orig
			mut.Data = c25Flip(orig.Data, q.Flip+oi*7919)
			op0 := &ics23.CommitmentProof{}
			op1 := &ics23.CommitmentProof{}
			if op0.Unmarshal(orig.Data) == nil && op1.Unmarshal(mut.Data) == nil && c25Same(op0, op1) {
				ctx.Class("wire-mutant-equivalent")
				continue
			}
			ops := []merkle.ProofOp{res.Proof.Ops[0], res.Proof.Ops[1]}
			ops[oi] = mut
			if err := verify(&merkle.Proof{Ops: ops}, root, kp, present, val); err == nil {
				// The non-existence proof's own Key field is not consulted by ics23.
				ne0, ne1 := op0.GetNonexist(), op1.GetNonexist()
				if ne0 != nil && ne1 != nil && !bytes.Equal(ne0.Key, ne1.Key) {
					ne1.Key = ne0.Key
					if c25Same(op0, op1) {
						if c25Known(ctx) {
							continue
						}
						return fmt.Errorf("%s: absence proof chain still verifies after its NonExistenceProof.Key field was altered (bit %d of op %d data) [literal clause; ics23 does not consult that field]", what, q.Flip+oi*7919, oi)
					}
				}
				return fmt.Errorf("%s: proof chain still verifies after flipping bit %d of op %d data", what, q.Flip+oi*7919, oi)
			}
			ctx.Class("wire-mutant-rejected")
			mut = orig
			mut.Key = c25Flip(orig.Key, q.Flip)
			ops[oi] = mut
			if err := verify(&merkle.Proof{Ops: ops}, root, kp, present, val); err == nil {
				return fmt.Errorf("%s: proof chain still verifies after altering op %d key", what, oi)
			}
		}
		ctx.NTIf(true)
	}
	return nil
}

func TestC25_StoreProofs(t *testing.T) {
	vk.Run(t, vk.Spec[c25StoreCase]{
		ID: "C25", Name: "TestC25_StoreProofs",
		Rule: "rapid: a rootmulti store with 1..3 mounted bptree stores (fast index on/off, keep-all or KeepRecent pruning), 1..6 committed blocks of sets/deletes, then Query(Prove) at retained heights for present and absent keys: the 2-op chain (bptree ics23 op + simple-merkle multistore op) verifies with rootmulti.DefaultProofRuntime against the app hash of that height, agrees with QueryImmutable, and fails for the opposite claim, other value, altered/other-height app hash, other store name, other key, dropped/swapped ops and single-bit flips of the ops' wire data; every query is non-trivial",
		Draw: func(rt *rapid.T) c25StoreCase {
			c := c25StoreCase{
				Stores: rapid.IntRange(1, 3).Draw(rt, "stores"),
				Fast:   rapid.Bool().Draw(rt, "fast"),
				Keep:   rapid.SampledFrom([]int{0, 0, 1, 2}).Draw(rt, "keep"),
			}
			nb := rapid.IntRange(1, 6).Draw(rt, "nb")
			for b := 0; b < nb; b++ {
				var blk []c25KV
				n := rapid.IntRange(0, 40).Draw(rt, fmt.Sprintf("b%dn", b))
				for i := 0; i < n; i++ {
					l := fmt.Sprintf("b%dk%d", b, i)
					kv := c25KV{S: rapid.IntRange(0, 2).Draw(rt, l+"s"), K: hDrawKey(rt, l, 400)}
					if rapid.IntRange(0, 4).Draw(rt, l+"del") > 0 {
						kv.V = rapid.SampledFrom(hValues[1:]).Draw(rt, l+"v")
					}
					blk = append(blk, kv)
				}
				c.Blocks = append(c.Blocks, blk)
			}
			nq := rapid.IntRange(1, 5).Draw(rt, "nq")
			for i := 0; i < nq; i++ {
				l := fmt.Sprintf("q%d", i)
				q := c25SQ{H: rapid.IntRange(0, 63).Draw(rt, l+"h"), S: rapid.IntRange(0, 2).Draw(rt, l+"s"),
					Sel:  rapid.IntRange(0, 1<<16).Draw(rt, l+"sel"),
					Kind: rapid.SampledFrom([]string{"present", "present", "succ", "after", "before", "drawn"}).Draw(rt, l+"kind"),
					Flip: rapid.IntRange(0, 1<<16).Draw(rt, l+"flip")}
				if q.Kind == "drawn" {
					q.K = hDrawKey(rt, l+"k", 400)
				}
				c.Q = append(c.Q, q)
			}
			return c
		},
		Exec: c25StoreExec,
	})
}

// ------------------------------------------------------------ simple merkle

type c25SimpleCase struct {
	Items []string `json:"items"`
	Map   bool     `json:"map"` // also treat Items as the values of a map keyed "k<i>" / duplicates collapse
	Idx   []int    `json:"idx"` // indices to scrutinise (all are verified; these get the mutations)
	Bit   int      `json:"bit"`
	DI    int      `json:"di"` // index delta for the Index/Total mutation
	DT    int      `json:"dt"`
}

func c25Leaf(b []byte) []byte {
	h := sha256.Sum256(append([]byte{0}, b...))
	return h[:]
}

func c25Inner(l, r []byte) []byte {
	h := sha256.New()
	h.Write([]byte{1})
	h.Write(l)
	h.Write(r)
	return h.Sum(nil)
}

func c25Split(n int) int { // largest power of two strictly less than n
	k := 1
	for k*2 < n {
		k *= 2
	}
	return k
}

// c25Ref returns the reference root and, for every leaf, its audit path
// (sibling hashes from the leaf upwards).
func c25Ref(leaves [][]byte) ([]byte, [][][]byte) {
	n := len(leaves)
	if n == 0 {
		return nil, nil
	}
	if n == 1 {
		return leaves[0], [][][]byte{nil}
	}
	k := c25Split(n)
	lr, lp := c25Ref(leaves[:k])
	rr, rp := c25Ref(leaves[k:])
	paths := make([][][]byte, 0, n)
	for _, p := range lp {
		paths = append(paths, append(append([][]byte(nil), p...), rr))
	}
	for _, p := range rp {
		paths = append(paths, append(append([][]byte(nil), p...), lr))
	}
	return c25Inner(lr, rr), paths
}

// c25Shape is the sequence of left/right turns (leaf upwards) of (index,total),
// or nil,false when the position does not exist.
func c25Shape(index, total int) ([]bool, bool) {
	if total <= 0 || index < 0 || index >= total {
		return nil, false
	}
	if total == 1 {
		return []bool{}, true
	}
	k := c25Split(total)
	if index < k {
		s, _ := c25Shape(index, k)
		return append(s, true), true
	}
	s, _ := c25Shape(index-k, total-k)
	return append(s, false), true
}

func c25AminoBytes(b []byte) []byte {
	var buf [binary.MaxVarintLen64]byte
	n := binary.PutUvarint(buf[:], uint64(len(b)))
	return append(append([]byte(nil), buf[:n]...), b...)
}

func c25SimpleExec(ctx *vk.Ctx, c c25SimpleCase) error {
	items := make([][]byte, len(c.Items))
	leaves := make([][]byte, len(c.Items))
	for i, it := range c.Items {
		items[i] = hB(it)
		leaves[i] = c25Leaf(items[i])
	}
	n := len(items)
	refRoot, refPaths := c25Ref(leaves)
	root := merkle.SimpleHashFromByteSlices(items)
	if !bytes.Equal(root, refRoot) {
		return fmt.Errorf("SimpleHashFromByteSlices(%d items) = %x, reference %x", n, root, refRoot)
	}
	if it := merkle.SimpleHashFromByteSlicesIterative(items); !bytes.Equal(it, refRoot) {
		return fmt.Errorf("SimpleHashFromByteSlicesIterative(%d items) = %x, reference %x", n, it, refRoot)
	}
	if n == 0 {
		// No index exists to prove; every caller asks for proofs[i] of an
		// existing i (SimpleProofsFromByteSlices(nil) dereferences a nil root).
		ctx.Class("empty-list")
		return nil
	}
	proot, proofs := merkle.SimpleProofsFromByteSlices(items)
	if !bytes.Equal(proot, refRoot) || len(proofs) != n {
		return fmt.Errorf("SimpleProofsFromByteSlices root %x (%d proofs), reference %x (%d)", proot, len(proofs), refRoot, n)
	}
	ctx.ClassIf(n == 0, "empty-list")
	ctx.ClassIf(n == 1, "single")
	ctx.ClassIf(n > 1 && n&(n-1) != 0, "non-power-of-two")
	for i, p := range proofs {
		what := fmt.Sprintf("list of %d, proof %d", n, i)
		if p.Total != n || p.Index != i {
			return fmt.Errorf("%s: Total/Index = %d/%d", what, p.Total, p.Index)
		}
		if !bytes.Equal(p.LeafHash, leaves[i]) {
			return fmt.Errorf("%s: LeafHash differs from reference", what)
		}
		if len(p.Aunts) != len(refPaths[i]) {
			return fmt.Errorf("%s: %d aunts, reference %d", what, len(p.Aunts), len(refPaths[i]))
		}
		for j := range p.Aunts {
			if !bytes.Equal(p.Aunts[j], refPaths[i][j]) {
				return fmt.Errorf("%s: aunt %d differs from reference audit path", what, j)
			}
		}
		if err := p.Verify(root, items[i]); err != nil {
			return fmt.Errorf("%s: honest proof does not verify: %v", what, err)
		}
		if err := p.ValidateBasic(); err != nil {
			return fmt.Errorf("%s: ValidateBasic: %v", what, err)
		}
		if !bytes.Equal(p.ComputeRootHash(), root) {
			return fmt.Errorf("%s: ComputeRootHash differs", what)
		}
	}
	for _, sel := range c.Idx {
		if n == 0 {
			break
		}
		i := sel % n
		p := proofs[i]
		what := fmt.Sprintf("list of %d, proof %d", n, i)
		cp := func() *merkle.SimpleProof {
			q := *p
			q.LeafHash = append([]byte(nil), p.LeafHash...)
			q.Aunts = nil
			for _, a := range p.Aunts {
				q.Aunts = append(q.Aunts, append([]byte(nil), a...))
			}
			return &q
		}
		// other leaves
		for j := range items {
			if !bytes.Equal(items[j], items[i]) {
				if p.Verify(root, items[j]) == nil {
					return fmt.Errorf("%s: verified item %d (different content)", what, j)
				}
			}
		}
		if p.Verify(root, append(append([]byte(nil), items[i]...), 0)) == nil || p.Verify(root, c25Flip(items[i], c.Bit)) == nil {
			return fmt.Errorf("%s: verified an altered leaf", what)
		}
		if p.Verify(c25Flip(root, c.Bit), items[i]) == nil {
			return fmt.Errorf("%s: verified against an altered root", what)
		}
		q := cp()
		q.LeafHash = c25Flip(q.LeafHash, c.Bit)
		if q.Verify(root, items[i]) == nil {
			return fmt.Errorf("%s: verified with an altered LeafHash", what)
		}
		if len(p.Aunts) > 0 {
			q = cp()
			a := c.Bit % len(q.Aunts)
			q.Aunts[a] = c25Flip(q.Aunts[a], c.Bit/7)
			if q.Verify(root, items[i]) == nil {
				return fmt.Errorf("%s: verified with aunt %d altered", what, a)
			}
			q = cp()
			q.Aunts = q.Aunts[:len(q.Aunts)-1]
			if q.Verify(root, items[i]) == nil {
				return fmt.Errorf("%s: verified with the last aunt dropped", what)
			}
			q = cp()
			q.Aunts = q.Aunts[1:]
			if q.Verify(root, items[i]) == nil {
				return fmt.Errorf("%s: verified with the first aunt dropped", what)
			}
			if len(p.Aunts) > 1 && !bytes.Equal(p.Aunts[0], p.Aunts[1]) {
				q = cp()
				q.Aunts[0], q.Aunts[1] = q.Aunts[1], q.Aunts[0]
				if q.Verify(root, items[i]) == nil {
					return fmt.Errorf("%s: verified with aunts 0 and 1 swapped", what)
				}
			}
		}
		q = cp()
		q.Aunts = append(q.Aunts, c25Leaf([]byte("extra")))
		if q.Verify(root, items[i]) == nil {
			return fmt.Errorf("%s: verified with an extra aunt", what)
		}
		// Index / Total: the root does not commit to them (doc: "Check
		// sp.Index/sp.Total manually if needed"), so the exact oracle is the
		// path shape: the altered position verifies iff it describes the same
		// sequence of left/right turns.
		q = cp()
		q.Index = p.Index + c.DI
		q.Total = p.Total + c.DT
		if q.Index != p.Index || q.Total != p.Total {
			// reference: fold the audit path along the turns of the altered
			// position (duplicate items can make different shapes hash alike, so
			// the comparison is on the recomputed root, not on the shape).
			same := false
			if s1, ok := c25Shape(q.Index, q.Total); ok && len(s1) == len(q.Aunts) {
				h := q.LeafHash
				for j, left := range s1 {
					if left {
						h = c25Inner(h, q.Aunts[j])
					} else {
						h = c25Inner(q.Aunts[j], h)
					}
				}
				same = bytes.Equal(h, root)
			}
			err := q.Verify(root, items[i])
			if (err == nil) != same {
				return fmt.Errorf("%s: with Index/Total altered to %d/%d Verify err=%v, but the reference recomputation says root matches=%v", what, q.Index, q.Total, err, same)
			}
			ctx.ClassIf(same, "index-total-alias-same-shape")
			ctx.ClassIf(!same, "index-total-altered-rejected")
		}
	}
	if c.Map && n > 0 {
		m := map[string][]byte{}
		for i, it := range c.Items {
			m[fmt.Sprintf("k%d", i%7)+it] = hB(it + "v")
		}
		var ks []string
		for k := range m {
			ks = append(ks, k)
		}
		sort.Strings(ks)
		kvLeaves := make([][]byte, len(ks))
		kvBytes := make([][]byte, len(ks))
		for i, k := range ks {
			vh := sha256.Sum256(m[k])
			kvBytes[i] = append(c25AminoBytes(hB(k)), c25AminoBytes(vh[:])...)
			kvLeaves[i] = c25Leaf(kvBytes[i])
		}
		mRef, _ := c25Ref(kvLeaves)
		if got := merkle.SimpleHashFromMap(m); !bytes.Equal(got, mRef) {
			return fmt.Errorf("SimpleHashFromMap(%d keys) = %x, reference %x", len(ks), got, mRef)
		}
		mroot, mproofs, mkeys := merkle.SimpleProofsFromMap(m)
		if !bytes.Equal(mroot, mRef) || len(mproofs) != len(ks) || len(mkeys) != len(ks) {
			return fmt.Errorf("SimpleProofsFromMap root %x / %d proofs, reference %x / %d", mroot, len(mproofs), mRef, len(ks))
		}
		prt := merkle.DefaultProofRuntime()
		for i, k := range ks {
			if mkeys[i] != k {
				return fmt.Errorf("SimpleProofsFromMap keys[%d] = %q, sorted reference %q", i, mkeys[i], k)
			}
			p := mproofs[k]
			if p == nil {
				return fmt.Errorf("SimpleProofsFromMap: no proof for key %q", k)
			}
			if err := p.Verify(mroot, kvBytes[i]); err != nil {
				return fmt.Errorf("map proof for %q does not verify its KV leaf: %v", k, err)
			}
			op := merkle.NewSimpleValueOp(hB(k), p)
			pf := &merkle.Proof{Ops: []merkle.ProofOp{op.ProofOp()}}
			if err := prt.VerifyValue(pf, mroot, c25KeyPath(hB(k)), m[k]); err != nil {
				return fmt.Errorf("SimpleValueOp chain for %q: %v", k, err)
			}
			if err := prt.VerifyValue(pf, mroot, c25KeyPath(hB(k)), append(append([]byte(nil), m[k]...), 1)); err == nil {
				return fmt.Errorf("SimpleValueOp chain for %q verified another value", k)
			}
			if err := prt.VerifyValue(pf, mroot, c25KeyPath(hB(k+"x")), m[k]); err == nil {
				return fmt.Errorf("SimpleValueOp chain for %q verified another key path", k)
			}
			if err := prt.VerifyValue(pf, c25Flip(mroot, c.Bit), c25KeyPath(hB(k)), m[k]); err == nil {
				return fmt.Errorf("SimpleValueOp chain for %q verified an altered root", k)
			}
			// ics23 conversion used by the multistore (store/types.ProofOpFromMap)
			ep, err := merkle.ConvertExistenceProof(p, hB(k), m[k])
			if err != nil {
				return fmt.Errorf("ConvertExistenceProof(%q): %v", k, err)
			}
			cpf := &ics23.CommitmentProof{Proof: &ics23.CommitmentProof_Exist{Exist: ep}}
			if !ics23.VerifyMembership(ics23.TendermintSpec, mroot, cpf, hB(k), m[k]) {
				return fmt.Errorf("converted ics23 proof for map key %q does not verify", k)
			}
			if ics23.VerifyMembership(ics23.TendermintSpec, mroot, cpf, hB(k), append(append([]byte(nil), m[k]...), 1)) {
				return fmt.Errorf("converted ics23 proof for map key %q verified another value", k)
			}
			for j, k2 := range ks {
				if j != i && ics23.VerifyMembership(ics23.TendermintSpec, mroot, cpf, hB(k2), m[k]) {
					return fmt.Errorf("converted ics23 proof for map key %q verified for key %q", k, k2)
				}
			}
		}
		ctx.Class("map")
	}
	ctx.NTIf(n >= 2 && len(c.Idx) > 0)
	return nil
}

func TestC25_SimpleMerkle(t *testing.T) {
	vk.Run(t, vk.Spec[c25SimpleCase]{
		ID: "C25", Name: "TestC25_SimpleMerkle",
		Rule: "rapid: lists of 0..70 byte strings (duplicates allowed): root and every proof's leaf hash and aunts equal an independent RFC-6962-style reference; every proof verifies its own item only; altered leaf/root/LeafHash/aunts (flip, drop, swap, extra) fail; altered Index/Total verify iff an independent fold of the audit path along the altered position reproduces the root (the root does not commit to them, as documented); maps: SimpleHashFromMap/SimpleProofsFromMap vs reference over sorted amino KV leaves, SimpleValueOp through merkle.DefaultProofRuntime, and ConvertExistenceProof through ics23.TendermintSpec; non-trivial = >=2 items with mutations applied",
		Draw: func(rt *rapid.T) c25SimpleCase {
			n := rapid.IntRange(0, 70).Draw(rt, "n")
			c := c25SimpleCase{Map: rapid.Bool().Draw(rt, "map"), Bit: rapid.IntRange(0, 1<<12).Draw(rt, "bit"),
				DI: rapid.IntRange(-3, 3).Draw(rt, "di"), DT: rapid.IntRange(-3, 3).Draw(rt, "dt")}
			for i := 0; i < n; i++ {
				c.Items = append(c.Items, rapid.SampledFrom([]string{"", "a", "b", "item", "tx-payload-0123456789", "\x00", "\x01"}).Draw(rt, fmt.Sprintf("it%d", i))+
					rapid.SampledFrom([]string{"", "", fmt.Sprint(i), fmt.Sprint(i % 5)}).Draw(rt, fmt.Sprintf("sx%d", i)))
			}
			k := rapid.IntRange(1, 4).Draw(rt, "nidx")
			for i := 0; i < k; i++ {
				c.Idx = append(c.Idx, rapid.IntRange(0, 1<<12).Draw(rt, fmt.Sprintf("idx%d", i)))
			}
			return c
		},
		Exec: c25SimpleExec,
	})
}
