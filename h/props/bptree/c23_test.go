package bptree

import (
	"testing"

	"pgregory.net/rapid"
	"verif/vk"
)

// C23 — the B+ tree is a correct versioned ordered map.
// Oracle: versioned ordered-map reference model (hModel) run next to the tree.

func c23Opts(thorough bool) hGenOpts {
	o := hGenOpts{Span: 1600, MaxOps: 45, MaxRun: 420, FastBias: 3, Readers: false, Detached: true, InitVer: true, Checks: true, Deep: 3}
	if thorough {
		o.MaxOps = 90
		o.MaxRun = 900
		o.Span = 4000
	}
	return o
}

func c23Exec(ctx *vk.Ctx, c hCase) error {
	r, err := hNewRun(ctx, c)
	if err != nil {
		return err
	}
	defer r.close()
	if err := r.runHistory(c); err != nil {
		return err
	}
	r.classes()
	ctx.ClassIf(c.Init > 0, "initial-version")
	ctx.Note("saves", r.saves)
	ctx.Note("maxHeight", r.maxHeight)
	// non-trivial: several saved versions and a structural change (the root
	// split at least once, i.e. height >= 1).
	ctx.NTIf(r.saves >= 2 && r.maxHeight >= 1)
	return nil
}

func TestC23_History(t *testing.T) {
	var th bool
	vk.Run(t, vk.Spec[hCase]{
		ID: "C23", Name: "TestC23_History",
		Rule: "rapid: histories of set/del/sequential+descending+strided runs sized around node capacities (15..65, up to 420/900 keys)/save/rollback/reopen(cache,fast,flush)/prune/held snapshots/LoadVersion(old) episodes/explicit checks over a hot key window with prefix/suffix key variants; every op is mirrored on a versioned ordered-map model, working tree checked after each state change and every retained version at the end (Get/Has/Size/GetByIndex/GetWithIndex/Iterate/range iterators both directions); non-trivial = >=2 saved versions and the root split (height>=1)",
		Setup: func(r *vk.Rec) { th = r.Thorough() },
		Draw:  func(rt *rapid.T) hCase { return hDrawHistory(rt, c23Opts(th)) },
		Exec:  c23Exec,
	})
}
