package bptree

import (
	"bytes"
	"fmt"
	"sort"
	"testing"

	abci "github.com/gnolang/gno/tm2/pkg/bft/abci/types"
	dbm "github.com/gnolang/gno/tm2/pkg/db"
	"github.com/gnolang/gno/tm2/pkg/db/memdb"
	"github.com/gnolang/gno/tm2/pkg/store"
	storebp "github.com/gnolang/gno/tm2/pkg/store/bptree"
	"github.com/gnolang/gno/tm2/pkg/store/dbadapter"
	storetypes "github.com/gnolang/gno/tm2/pkg/store/types"
	"pgregory.net/rapid"
	"verif/vk"
)

// C26 at the production wiring: store.NewCommitMultiStore (rootmulti) over a
// memdb, the B+ tree mounted the way gno.land/pkg/gnoland/app.go does it
// (MountStoreWithDB(main, storebptree.FastStoreConstructor | StoreConstructor,
// db) next to a dbadapter store). A history is a list of phases; every phase
// is a fresh CommitMultiStore over the same DB (a node restart) with the fast
// index option of that phase, committing a few blocks that overwrite, delete
// and insert keys. After every restart and every commit EVERY key ever touched
// is read through the live store, a cache-wrapped view, immutable query views
// (MultiImmutableCacheWrapWithVersion) and the Query / QueryImmutable paths at
// the latest and at older retained heights, and compared with the versioned
// model.

type c26SOp struct {
	K string `json:"k,omitempty"`
	V string `json:"v,omitempty"` // "" = delete
	A int    `json:"a,omitempty"` // run start id (N>0)
	N int    `json:"n,omitempty"` // run length: sets ids A..A+N-1 (V = value seed) or deletes them (V == "")
}

type c26SPhase struct {
	Fast   bool       `json:"fast"`
	Blocks [][]c26SOp `json:"blocks"`
}

type c26StoreCase struct {
	Keep    int         `json:"keep"`    // 0: keep every version; else KeepRecent
	MountDB bool        `json:"mountDB"` // pass the root DB to MountStoreWithDB (as gnoland does) instead of nil
	Phases  []c26SPhase `json:"phases"`
}

type c26SRun struct {
	ctx     *vk.Ctx
	c       c26StoreCase
	db      dbm.DB
	ms      storetypes.CommitMultiStore
	mainKey storetypes.StoreKey
	baseKey storetypes.StoreKey
	fast    bool
	work    map[string]string
	vers    map[int64]*hSnap
	roots   map[int64][]byte
	latest  int64
	uni     map[string]bool // every key ever touched
	onKeys  map[string]bool // keys whose current index entry was written by an ON phase
	stale   map[string]bool // such keys overwritten/deleted while the index was OFF
	staleReadAfterOn int
	reads   int
}

func (r *c26SRun) open(fast bool) error {
	r.fast = fast
	r.ms = store.NewCommitMultiStore(r.db)
	r.mainKey = storetypes.NewStoreKey("main")
	r.baseKey = storetypes.NewStoreKey("base")
	cons := storebp.StoreConstructor
	if fast {
		cons = storebp.FastStoreConstructor
	}
	var mdb dbm.DB
	if r.c.MountDB {
		mdb = r.db
	}
	r.ms.MountStoreWithDB(r.mainKey, cons, mdb)
	r.ms.MountStoreWithDB(r.baseKey, dbadapter.StoreConstructor, mdb)
	opts := storetypes.StoreOptions{}
	if r.c.Keep == 0 {
		opts.PruningOptions = storetypes.NewPruningOptions(0, 1)
	} else {
		opts.PruningOptions = storetypes.NewPruningOptions(int64(r.c.Keep), 0)
	}
	r.ms.SetStoreOptions(opts)
	if err := r.ms.LoadLatestVersion(); err != nil {
		return fmt.Errorf("LoadLatestVersion (fast=%v): %v", fast, err)
	}
	cid := r.ms.LastCommitID()
	if cid.Version != r.latest {
		return fmt.Errorf("after restart LastCommitID().Version = %d, model %d", cid.Version, r.latest)
	}
	if r.latest > 0 && !bytes.Equal(cid.Hash, r.roots[r.latest]) {
		return fmt.Errorf("after restart app hash %x differs from the one Commit returned (%x)", cid.Hash, r.roots[r.latest])
	}
	return nil
}

func (r *c26SRun) closeMS() {
	if c, ok := r.ms.(interface{ Close() error }); ok {
		c.Close()
	}
}

func (r *c26SRun) retained() []int64 {
	var out []int64
	for v := int64(1); v <= r.latest; v++ {
		if r.c.Keep == 0 || v >= r.latest-int64(r.c.Keep) {
			out = append(out, v)
		}
	}
	return out
}

func (r *c26SRun) universe() []string {
	ks := make([]string, 0, len(r.uni))
	for k := range r.uni {
		ks = append(ks, k)
	}
	sort.Strings(ks)
	return ks
}

func (r *c26SRun) cmpStore(what string, st storetypes.Store, want map[string]string, iterate bool) error {
	for _, k := range r.universe() {
		w, present := want[k]
		got := st.Get(nil, hB(k))
		r.reads++
		if r.fast && r.stale[k] {
			r.staleReadAfterOn++
		}
		if present && (got == nil || string(got) != w) || !present && got != nil {
			return fmt.Errorf("%s: Get(%q) = %q (nil=%v), model %q present=%v [phase fast=%v]", what, k, got, got == nil, w, present, r.fast)
		}
		if has := st.Has(nil, hB(k)); has != present {
			return fmt.Errorf("%s: Has(%q) = %v, model %v", what, k, has, present)
		}
	}
	if iterate {
		s := hMakeSnap(want)
		itr := st.Iterator(nil, nil, nil)
		i := 0
		for ; itr.Valid(); itr.Next() {
			if i >= len(s.keys) || string(itr.Key()) != s.keys[i] || string(itr.Value()) != s.vals[s.keys[i]] {
				itr.Close()
				return fmt.Errorf("%s: iterator entry %d is (%q,%q), model differs (size %d)", what, i, itr.Key(), itr.Value(), len(s.keys))
			}
			i++
		}
		itr.Close()
		if i != len(s.keys) {
			return fmt.Errorf("%s: iterator yielded %d entries, model %d", what, i, len(s.keys))
		}
	}
	return nil
}

// checkAll compares every view with the model. dirty: the live store holds
// uncommitted writes (then committed views are compared with the last commit).
func (r *c26SRun) checkAll(when string) error {
	// (a) live store, (b) cache-wrapped view
	if err := r.cmpStore(when+": live store", r.ms.GetStore(r.mainKey), r.work, true); err != nil {
		return err
	}
	if err := r.cmpStore(when+": cache-wrapped view", r.ms.MultiCacheWrap().GetStore(r.mainKey), r.work, false); err != nil {
		return err
	}
	// (c) immutable / query views at the latest and older retained heights
	ret := r.retained()
	pick := ret
	if len(pick) > 3 {
		pick = []int64{ret[0], ret[len(ret)/2], ret[len(ret)-1]}
	}
	q, _ := r.ms.(storetypes.Queryable)
	iq, _ := r.ms.(storetypes.ImmutableQueryer)
	for _, v := range pick {
		want := r.vers[v].vals
		ims, release, err := r.ms.MultiImmutableCacheWrapWithVersion(v)
		if err != nil {
			return fmt.Errorf("%s: MultiImmutableCacheWrapWithVersion(%d) of a retained height: %v", when, v, err)
		}
		err = r.cmpStore(fmt.Sprintf("%s: immutable view at height %d", when, v), ims.GetStore(r.mainKey), want, v == r.latest)
		release()
		if err != nil {
			return err
		}
		for _, k := range r.universe() {
			w, present := want[k]
			req := abci.RequestQuery{Path: "/main/key", Data: hB(k), Height: v}
			if q != nil {
				res := q.Query(req)
				if res.Error != nil || present != (res.Value != nil) || string(res.Value) != w {
					return fmt.Errorf("%s: Query(/main/key %q @%d) = %q err=%v, model %q present=%v [phase fast=%v]", when, k, v, res.Value, res.Error, w, present, r.fast)
				}
			}
			if iq != nil {
				res, err := iq.QueryImmutable(req)
				if err != nil || res.Error != nil || present != (res.Value != nil) || string(res.Value) != w {
					return fmt.Errorf("%s: QueryImmutable(/main/key %q @%d) = %q err=%v/%v, model %q present=%v [phase fast=%v]", when, k, v, res.Value, err, res.Error, w, present, r.fast)
				}
			}
		}
	}
	r.ctx.ClassIf(len(pick) > 1, "older-height-views")
	return nil
}

func (r *c26SRun) apply(st storetypes.Store, k, v string) {
	r.uni[k] = true
	if v == "" {
		st.Delete(nil, hB(k))
		delete(r.work, k)
	} else {
		st.Set(nil, hB(k), hB(v))
		r.work[k] = v
	}
	if r.fast {
		r.onKeys[k] = true // entry (or its removal) maintained by an ON phase
		delete(r.stale, k)
	} else if r.onKeys[k] {
		r.stale[k] = true // the index still holds what the ON phase left
	}
}

func c26StoreExec(ctx *vk.Ctx, c c26StoreCase) error {
	r := &c26SRun{ctx: ctx, c: c, db: memdb.NewMemDB(), work: map[string]string{}, vers: map[int64]*hSnap{}, roots: map[int64][]byte{},
		uni: map[string]bool{}, onKeys: map[string]bool{}, stale: map[string]bool{}}
	ntHit := false
	for pi, ph := range c.Phases {
		if err := r.open(ph.Fast); err != nil {
			return fmt.Errorf("phase %d: %v", pi, err)
		}
		staleAtOpen := 0
		if ph.Fast {
			staleAtOpen = len(r.stale)
		}
		if err := r.checkAll(fmt.Sprintf("phase %d (fast=%v) after restart", pi, ph.Fast)); err != nil {
			r.closeMS()
			return err
		}
		if ph.Fast && staleAtOpen > 0 {
			ntHit = true
			ctx.Class("on-restart-with-keys-changed-while-off")
			// the start-up check rebuilt the index: nothing is stale any more
			r.stale = map[string]bool{}
			for k := range r.uni {
				r.onKeys[k] = true
			}
		}
		for bi, blk := range ph.Blocks {
			viaCache := (pi+bi)%2 == 0
			var st storetypes.Store
			var cms storetypes.MultiStore
			if viaCache {
				cms = r.ms.MultiCacheWrap()
				st = cms.GetStore(r.mainKey)
			} else {
				st = r.ms.GetStore(r.mainKey)
			}
			for _, op := range blk {
				if op.N > 0 {
					for j := 0; j < op.N; j++ {
						v := ""
						if op.V != "" {
							v = fmt.Sprintf("%s.%d", op.V, op.A+j)
						}
						r.apply(st, hKey(op.A+j), v)
					}
				} else {
					r.apply(st, op.K, op.V)
				}
			}
			// the dbadapter store changes too (its commit hash is part of the app hash)
			r.ms.GetStore(r.baseKey).Set(nil, hB("height"), hB(fmt.Sprint(r.latest+1)))
			if viaCache {
				cms.MultiWrite()
			}
			cid := r.ms.Commit()
			if cid.Version != r.latest+1 {
				r.closeMS()
				return fmt.Errorf("phase %d block %d: Commit version %d, expected %d", pi, bi, cid.Version, r.latest+1)
			}
			r.latest = cid.Version
			r.vers[r.latest] = hMakeSnap(r.work)
			r.roots[r.latest] = cid.Hash
			if err := r.checkAll(fmt.Sprintf("phase %d (fast=%v) after commit %d", pi, ph.Fast, r.latest)); err != nil {
				r.closeMS()
				return err
			}
		}
		r.closeMS()
	}
	ctx.ClassIf(r.c.Keep > 0, "pruning")
	ctx.Note("reads", r.reads)
	ctx.NTIf(ntHit)
	return nil
}

func c26DrawSOps(rt *rapid.T, l string, first bool) []c26SOp {
	var ops []c26SOp
	if first || rapid.IntRange(0, 5).Draw(rt, l+"bulk") == 0 {
		// enough keys for a tree of height >= 1
		ops = append(ops, c26SOp{A: rapid.IntRange(0, 20).Draw(rt, l+"ba"), N: rapid.IntRange(20, 90).Draw(rt, l+"bn"), V: "b" + l})
	}
	n := rapid.IntRange(1, 12).Draw(rt, l+"n")
	for i := 0; i < n; i++ {
		li := fmt.Sprintf("%s.%d", l, i)
		switch rapid.IntRange(0, 9).Draw(rt, li+"kind") {
		case 0: // delete a small run
			ops = append(ops, c26SOp{A: rapid.IntRange(0, 60).Draw(rt, li+"a"), N: rapid.IntRange(1, 25).Draw(rt, li+"n")})
		case 1, 2, 3: // delete one
			ops = append(ops, c26SOp{K: hKey(rapid.IntRange(0, 60).Draw(rt, li+"k"))})
		default: // set / overwrite one (hot window, a few suffixed variants)
			k := hKey(rapid.IntRange(0, 60).Draw(rt, li+"k")) + rapid.SampledFrom([]string{"", "", "", "a", "\x00"}).Draw(rt, li+"s")
			ops = append(ops, c26SOp{K: k, V: rapid.SampledFrom([]string{"v", "w", "xx", "\x00"}).Draw(rt, li+"v") + "#" + li})
		}
	}
	return ops
}

func TestC26_Store(t *testing.T) {
	vk.Run(t, vk.Spec[c26StoreCase]{
		ID: "C26", Name: "TestC26_Store",
		Rule: "rapid: production wiring (store.NewCommitMultiStore over memdb, bptree mounted with FastStoreConstructor or StoreConstructor next to a dbadapter store, root DB passed to MountStoreWithDB or nil, keep-all or KeepRecent pruning); 2..5 phases, each a fresh multistore over the same DB with the fast index toggled (mostly on->off->on), 1..4 committed blocks per phase overwriting/deleting/inserting keys of a hot window (writes through a cache-wrap + MultiWrite or directly); after every restart and every commit every key ever touched is read through the live store, a cache-wrapped view, MultiImmutableCacheWrapWithVersion views and Query/QueryImmutable at the latest and older retained heights and compared with the versioned model; non-trivial = a key indexed in an ON phase was overwritten or deleted in an OFF phase and read after the next ON restart",
		Draw: func(rt *rapid.T) c26StoreCase {
			c := c26StoreCase{Keep: rapid.SampledFrom([]int{0, 0, 1, 3}).Draw(rt, "keep"), MountDB: rapid.Bool().Draw(rt, "mountDB")}
			np := rapid.IntRange(2, 5).Draw(rt, "phases")
			fast := rapid.IntRange(0, 4).Draw(rt, "startFast") > 0
			for p := 0; p < np; p++ {
				ph := c26SPhase{Fast: fast}
				nb := rapid.IntRange(1, 4).Draw(rt, fmt.Sprintf("p%dnb", p))
				for b := 0; b < nb; b++ {
					ph.Blocks = append(ph.Blocks, c26DrawSOps(rt, fmt.Sprintf("p%db%d", p, b), p == 0 && b == 0))
				}
				c.Phases = append(c.Phases, ph)
				if rapid.IntRange(0, 5).Draw(rt, fmt.Sprintf("p%dtoggle", p)) > 0 {
					fast = !fast
				}
			}
			return c
		},
		Exec: c26StoreExec,
	})
}
