package bptree

import (
	"bytes"
	"errors"
	"fmt"
	"sort"
	"testing"

	bp "github.com/gnolang/gno/tm2/pkg/bptree"
	"github.com/gnolang/gno/tm2/pkg/db/memdb"
	"pgregory.net/rapid"
	"verif/vk"
)

// C24 — B+ tree hashes depend only on the operation history.
// Oracle: differential. The logical history (sets, removes, saves, rollbacks)
// of run A is replayed as run B under another configuration vector: other
// node-cache size, fast index on/off per reopen, other flush threshold, its
// own reopen pattern (a reopen after save #i when ReopenB[i%len]), and no
// pruning / no snapshots / no LoadVersion(old) episodes. Every version must
// get the same root hash in A and B. In addition every version still retained
// at the end of A is exported and imported into an empty DB, which must
// reproduce hash and contents.

type c24Case struct {
	H       hCase  `json:"h"`
	CfgB    []hCfg `json:"cfgB"`    // configurations B cycles through at its reopens (first = initial)
	ReopenB []bool `json:"reopenB"` // B reopens after its i-th save when ReopenB[i%len]
	KeepPruneB bool `json:"keepPruneB"` // B also executes A's prune ops
	ImpCfg  hCfg   `json:"impCfg"`  // configuration of the import target
}

// c24RunB replays A's logical history on b under B's configuration schedule.
func c24RunB(b *hRun, c c24Case) error {
	saves, cfgI := 0, 0
	detached := false
	n := 0
	do := func(op hOp) error {
		n++
		return b.step(n, &op)
	}
	saveB := func() error {
		if err := do(hOp{T: "save"}); err != nil {
			return err
		}
		if len(c.ReopenB) > 0 && c.ReopenB[saves%len(c.ReopenB)] {
			cfgI++
			cfg := c.CfgB[cfgI%len(c.CfgB)]
			if err := do(hOp{T: "reopen", Cfg: &cfg}); err != nil {
				return err
			}
		}
		saves++
		return nil
	}
	for _, op := range c.H.Ops {
		var err error
		switch op.T {
		case "set", "del", "setrun", "delrun", "fill":
			if !detached {
				err = do(op)
			}
		case "save":
			if !detached {
				err = saveB()
			}
		case "prune":
			if detached {
				continue
			}
			if op.S == 1 { // A commits before pruning
				if err = saveB(); err != nil {
					return err
				}
			}
			if c.KeepPruneB {
				p := op
				p.S = 0
				err = do(p)
			}
		case "rollback":
			if !detached {
				err = do(op)
			}
		case "reopen", "loadlatest":
			// logical effect in A: uncommitted changes are lost, latest loaded
			err = do(hOp{T: "rollback"})
			detached = false
		case "loadver":
			// A abandons its session iff a version exists to load
			if b.m.latest > 0 {
				err = do(hOp{T: "rollback"})
				detached = true
			}
		}
		if err != nil {
			return err
		}
	}
	return nil
}

func c24ExportImport(ctx *vk.Ctx, r *hRun, v int64, cfg hCfg) error {
	s := r.m.vers[v]
	imm, err := r.tree.GetImmutable(v)
	if err != nil {
		return fmt.Errorf("export: GetImmutable(%d): %v", v, err)
	}
	defer imm.Close()
	// An external package cannot name *nodeDB; the untyped nil makes the
	// exporter use the snapshot's own (DB-only) value resolver.
	ex, err := imm.Export(nil)
	if len(s.keys) == 0 {
		if err == nil {
			ex.Close()
			return fmt.Errorf("export of empty version %d succeeded; documented to fail with ErrNotInitializedTree", v)
		}
		ctx.Class("export-empty-refused")
		return nil
	}
	if err != nil {
		return fmt.Errorf("Export of v%d: %v", v, err)
	}
	var nodes []*bp.ExportNode
	for {
		n, err := ex.Next()
		if errors.Is(err, bp.ErrExportDone) {
			break
		}
		if err != nil {
			ex.Close()
			return fmt.Errorf("Exporter.Next v%d: %v", v, err)
		}
		nodes = append(nodes, n)
	}
	ex.Close()
	// the exported leaf entries are exactly the version's contents, in order
	i := 0
	for _, n := range nodes {
		if n.Height == 0 {
			if i >= len(s.keys) || string(n.Key) != s.keys[i] || string(n.Value) != s.vals[s.keys[i]] {
				return fmt.Errorf("export v%d: leaf entry %d is (%q,%q), model differs", v, i, n.Key, n.Value)
			}
			i++
		}
	}
	if i != len(s.keys) {
		return fmt.Errorf("export v%d: %d leaf entries, model has %d", v, i, len(s.keys))
	}
	dst := memdb.NewMemDB()
	t2 := bp.NewMutableTreeWithDB(dst, cfg.Cache, nil, hOptions(cfg, 0)...)
	if lv, err := t2.Load(); err != nil || lv != 0 {
		return fmt.Errorf("Load on empty import target = (%d,%v)", lv, err)
	}
	imp, err := t2.Import(v)
	if err != nil {
		return fmt.Errorf("Import(%d) into an empty DB: %v", v, err)
	}
	for j, n := range nodes {
		if err := imp.Add(n); err != nil {
			imp.Close()
			return fmt.Errorf("Importer.Add(node %d of v%d export): %v", j, v, err)
		}
	}
	if err := imp.Commit(); err != nil {
		imp.Close()
		return fmt.Errorf("Importer.Commit v%d: %v", v, err)
	}
	imp.Close()
	if t2.Version() != v {
		return fmt.Errorf("imported tree Version() = %d, want %d", t2.Version(), v)
	}
	if !bytes.Equal(t2.Hash(), s.hash) {
		return fmt.Errorf("imported v%d hash %x, original %x", v, t2.Hash(), s.hash)
	}
	// contents through the importing handle, then through a fresh handle
	// (Load; rebuilds the fast index when enabled), then a snapshot.
	sub := &hRun{ctx: ctx, m: hNewModel(0)}
	sub.m.recent = r.m.recent
	if err := sub.verify(fmt.Sprintf("import of v%d (importing handle)", v), t2, s, nil, true, cfg.Fast, nil); err != nil {
		return err
	}
	t2.Close()
	t3 := bp.NewMutableTreeWithDB(dst, cfg.Cache, nil, hOptions(cfg, 0)...)
	lv, err := t3.Load()
	if err != nil || lv != v {
		return fmt.Errorf("Load after import of v%d = (%d,%v)", v, lv, err)
	}
	if !bytes.Equal(t3.Hash(), s.hash) {
		return fmt.Errorf("reloaded import v%d hash %x, original %x", v, t3.Hash(), s.hash)
	}
	if err := sub.verify(fmt.Sprintf("import of v%d (reloaded)", v), t3, s, nil, true, cfg.Fast, nil); err != nil {
		return err
	}
	im3, err := t3.GetImmutable(v)
	if err != nil {
		return fmt.Errorf("GetImmutable(%d) on import target: %v", v, err)
	}
	if !bytes.Equal(im3.Hash(), s.hash) {
		im3.Close()
		return fmt.Errorf("import target snapshot v%d hash differs", v)
	}
	if err := sub.verify(fmt.Sprintf("import of v%d (snapshot)", v), im3, s, nil, false, cfg.Fast, nil); err != nil {
		im3.Close()
		return err
	}
	im3.Close()
	t3.Close()
	ctx.Class("export-import")
	return nil
}

func c24Exec(ctx *vk.Ctx, c c24Case) error {
	a, err := hNewRun(ctx, c.H)
	if err != nil {
		return err
	}
	defer a.close()
	if err := a.runHistory(c.H); err != nil {
		return fmt.Errorf("run A: %v", err)
	}
	a.classes()
	// run B
	b, err := hNewRun(ctx, hCase{Init: c.H.Init, Cfg: c.CfgB[0]})
	if err != nil {
		return fmt.Errorf("run B: %v", err)
	}
	defer b.close()
	b.lightOnly = true
	if err := c24RunB(b, c); err != nil {
		return fmt.Errorf("run B (config %+v): %v", b.cfg, err)
	}
	if len(a.hashes) != len(b.hashes) {
		return fmt.Errorf("run A saved %d versions, run B %d (harness transform bug?)", len(a.hashes), len(b.hashes))
	}
	diffCfg := false
	var saved []int64
	for v := range a.hashes {
		saved = append(saved, v)
	}
	sort.Slice(saved, func(i, j int) bool { return saved[i] < saved[j] })
	for _, v := range saved {
		ha := a.hashes[v]
		hb, ok := b.hashes[v]
		if !ok {
			return fmt.Errorf("version %d saved in A but not in B", v)
		}
		if !bytes.Equal(ha, hb) {
			return fmt.Errorf("root hash of version %d differs between configurations: A=%x (cfg %+v, with prunes/reopens as in the case) B=%x (cfg cycle %+v reopen mask %v)", v, ha, c.H.Cfg, hb, c.CfgB, c.ReopenB)
		}
	}
	if err := b.verifyWorking(nil, true); err != nil {
		return fmt.Errorf("run B: %v", err)
	}
	if c.CfgB[0] != c.H.Cfg || b.reopens != a.reopens || a.prunesOK > 0 {
		diffCfg = true
	}
	ctx.ClassIf(b.reopens > 0, "B-reopened")
	ctx.ClassIf(a.prunesOK > 0 && !c.KeepPruneB, "A-pruned-B-not")
	ctx.ClassIf(c.CfgB[0].Cache != c.H.Cfg.Cache, "cache-differs")
	ctx.ClassIf(c.CfgB[0].Fast != c.H.Cfg.Fast, "fast-differs")
	// export / import of every retained version (newest 4)
	ret := a.m.retained()
	if len(ret) > 4 {
		ret = ret[len(ret)-4:]
	}
	for _, v := range ret {
		if err := c24ExportImport(ctx, a, v, c.ImpCfg); err != nil {
			return err
		}
	}
	ctx.Note("versions", len(a.hashes))
	ctx.NTIf(a.saves >= 2 && a.maxHeight >= 1 && diffCfg)
	return nil
}

func TestC24_Differential(t *testing.T) {
	var th bool
	vk.Run(t, vk.Spec[c24Case]{
		ID: "C24", Name: "TestC24_Differential",
		Rule: "rapid: a C23-style history (run A: drawn cache/fast/flush, reopens, prunes, snapshots) and a second configuration vector (run B: cycle of configs, own reopen-after-save mask, prunes dropped or kept); same logical history => same root hash for every version; then Export(nil)/Import of the newest <=4 retained versions into an empty DB must reproduce hash and contents (importing handle, reloaded handle, snapshot); non-trivial = >=2 versions, root split, and the two runs differ in config, reopen pattern or pruning",
		Setup: func(r *vk.Rec) { th = r.Thorough() },
		Draw: func(rt *rapid.T) c24Case {
			o := c23Opts(th)
			o.Checks = false
			o.MaxOps = 35
			if th {
				o.MaxOps = 70
			}
			c := c24Case{H: hDrawHistory(rt, o)}
			n := rapid.IntRange(1, 3).Draw(rt, "ncfgB")
			for i := 0; i < n; i++ {
				c.CfgB = append(c.CfgB, hDrawCfg(rt, fmt.Sprintf("cfgB%d", i), 5))
			}
			m := rapid.IntRange(1, 4).Draw(rt, "nmask")
			for i := 0; i < m; i++ {
				c.ReopenB = append(c.ReopenB, rapid.IntRange(0, 2).Draw(rt, fmt.Sprintf("mask%d", i)) > 0)
			}
			c.KeepPruneB = rapid.IntRange(0, 3).Draw(rt, "keepPrune") == 0
			c.ImpCfg = hDrawCfg(rt, "imp", 5)
			return c
		},
		Exec: c24Exec,
	})
}
