package bptree

import (
	"bytes"
	"errors"
	"fmt"
	"sort"
	"testing"

	bp "github.com/gnolang/gno/tm2/pkg/bptree"
	"github.com/gnolang/gno/tm2/pkg/db/memdb"
	"pgregory.net/rapid"
	"verif/vk"
)

// C24 — B+ tree hashes depend only on the operation history.
// Oracle: differential. The logical history (sets, removes, saves, rollbacks)
// of run A is replayed as run B under another configuration vector: other
// node-cache size, fast index on/off per reopen, other flush threshold, its
// own reopen pattern (a reopen after save #i when ReopenB[i%len]), and no
// pruning / no snapshots / no LoadVersion(old) episodes. Every version must
// get the same root hash in A and B. In addition every version still retained
// at the end of A is exported and imported into an empty DB, which must
// reproduce hash and contents.
//
// Continued histories over an import ("replicas"): at the saves of run B
// selected by ForkMask the version just saved is exported and imported into an
// empty DB, and from then on the replica receives every further logical
// operation of the history next to B (its own configuration, its own reopens,
// optionally a reload right after the import). The logical history of the
// replica is "history up to v (delivered through export/import), then the same
// operations"; the statement makes the root hash a function of the operation
// history alone, so every version the replica saves must have the root hash
// run A got for that version, and the same contents (model).

type c24Case struct {
	H       hCase  `json:"h"`
	CfgB    []hCfg `json:"cfgB"`    // configurations B cycles through at its reopens (first = initial)
	ReopenB []bool `json:"reopenB"` // B reopens after its i-th save when ReopenB[i%len]
	KeepPruneB bool `json:"keepPruneB"` // B also executes A's prune ops
	ImpCfg  hCfg   `json:"impCfg"`  // configuration of the import target
	ForkMask   []bool `json:"forkMask,omitempty"`   // a replica is forked (export/import into an empty DB) at B's i-th save when ForkMask[i%len]
	ForkReload []bool `json:"forkReload,omitempty"` // the j-th replica continues on a reloaded handle (else on the importing handle)
	Echo       int    `json:"echo,omitempty"`       // number of echo ops Draw inserted into H.Ops (statistics only)
}

// c24DrawEchoes inserts "echo" operations into a drawn history: for an
// earlier write op chosen by a drawn selector, a later op that undoes it on
// (a sub-range of / a neighbour of) the same keys: del -> set, delrun ->
// setrun, set -> del, setrun/fill -> delrun, usually with a save in between,
// possibly chained (insert, remove part of it, put part of that back).
// Independent draws rarely come back to the very keys whose removal or
// insertion shaped a node earlier (keys right at a leaf boundary, keys between
// a separator and the subtree's current minimum); echoes make such revisits
// common, in particular after a reopen or an export/import in between. The
// echoes are ordinary history ops, executed by every run alike.
func c24DrawEchoes(rt *rapid.T, ops []hOp) ([]hOp, int) {
	isDel := func(t string) bool { return t == "del" || t == "delrun" }
	isSet := func(t string) bool { return t == "set" || t == "setrun" || t == "fill" }
	// scan: top[i] = ops[i] is outside a detached episode (loadver .. loadlatest)
	scan := func() (top []bool, dels, sets []int) {
		top = make([]bool, len(ops)+1)
		in := false
		for i, op := range ops {
			top[i] = !in
			if op.T == "loadver" {
				in = true
			} else if op.T == "loadlatest" {
				in = false
			}
			if top[i] && isDel(op.T) {
				dels = append(dels, i)
			} else if top[i] && isSet(op.T) {
				sets = append(sets, i)
			}
		}
		top[len(ops)] = true
		return
	}
	ne := rapid.IntRange(0, 3).Draw(rt, "nEcho")
	done := 0
	for e := 0; e < ne; e++ {
		_, dels, sets := scan()
		src := dels
		if len(src) == 0 || (len(sets) > 0 && rapid.IntRange(0, 2).Draw(rt, fmt.Sprintf("echo%dkind", e)) == 0) {
			src = sets
		}
		if len(src) == 0 {
			break
		}
		i := src[rapid.IntRange(0, len(src)-1).Draw(rt, fmt.Sprintf("echo%dsrc", e))]
		// a chain: each link undoes (part of) the previous link
		links := rapid.IntRange(1, 3).Draw(rt, fmt.Sprintf("echo%dlinks", e))
		for k := 0; k < links; k++ {
			l := fmt.Sprintf("echo%d.%d", e, k)
			o := ops[i]
			var echo hOp
			sub := func(n int) (off, cnt int) {
				if n < 1 {
					n = 1
				}
				if rapid.IntRange(0, 2).Draw(rt, l+"whole") == 0 {
					return 0, n
				}
				off = rapid.IntRange(0, n-1).Draw(rt, l+"off")
				cnt = rapid.IntRange(1, n-off).Draw(rt, l+"cnt")
				return
			}
			val := fmt.Sprintf("e%d.%d", e, k)
			switch o.T {
			case "del":
				key := o.K
				switch rapid.IntRange(0, 5).Draw(rt, l+"var") {
				case 0:
					key += rapid.SampledFrom(hSuffixes[4:]).Draw(rt, l+"sfx")
				case 1:
					if len(key) > 6 {
						key = key[:6]
					}
				}
				echo = hOp{T: "set", K: key, V: val}
			case "delrun":
				off, cnt := sub(o.N)
				echo = hOp{T: "setrun", A: o.A + off*o.S, N: cnt, S: o.S, V: val}
			case "set":
				echo = hOp{T: "del", K: o.K}
			case "setrun":
				off, cnt := sub(o.N)
				echo = hOp{T: "delrun", A: o.A + off*o.S, N: cnt, S: o.S}
			case "fill":
				off, cnt := sub(2 * o.N)
				echo = hOp{T: "delrun", A: o.A + off, N: cnt, S: 1}
				if rapid.IntRange(0, 2).Draw(rt, l+"stride") == 0 {
					echo.S = 2
					echo.N = (cnt + 1) / 2
				}
			}
			top, _, _ := scan()
			var pos []int
			for j := i + 1; j <= len(ops); j++ {
				if top[j] {
					pos = append(pos, j)
				}
			}
			if len(pos) == 0 {
				break
			}
			// mostly soon after the op it undoes, sometimes anywhere later
			p := pos[0]
			if n := len(pos); n > 1 {
				if rapid.Bool().Draw(rt, l+"near") {
					if n > 4 {
						n = 4
					}
				}
				p = pos[rapid.IntRange(0, n-1).Draw(rt, l+"pos")]
			}
			var ins []hOp
			if rapid.IntRange(0, 3).Draw(rt, l+"saveBefore") > 0 {
				ins = append(ins, hOp{T: "save"})
			}
			i = p + len(ins)
			ins = append(ins, echo)
			if rapid.Bool().Draw(rt, l+"saveAfter") {
				ins = append(ins, hOp{T: "save"})
			}
			ops = append(ops[:p:p], append(ins, ops[p:]...)...)
			done++
		}
	}
	return ops, done
}

// c24MaxReplicas bounds the replicas that follow the history at the same
// time; the oldest one is checked and retired when a new one is forked.
const c24MaxReplicas = 3

type c24Replica struct {
	r      *hRun
	at     int64 // version it was imported at
	idx    int   // ordinal of the fork
	writes  int  // write ops received since the fork that left the session dirty
	saves   int  // versions saved since the fork that contain such writes
	pending bool // a write since the last save
}

// c24RunB replays A's logical history on b under B's configuration schedule.
// ref holds the root hashes run A obtained (version -> hash); replicas forked
// from b are compared with it at every save they make.
func c24RunB(b *hRun, c c24Case, ref map[int64][]byte) error {
	saves, cfgI, forks := 0, 0, 0
	detached := false
	n := 0
	var reps []*c24Replica
	retire := func(rp *c24Replica) error {
		defer rp.r.close()
		rp.r.opIndex = n
		if err := rp.r.verifyWorking(nil, true); err != nil {
			return fmt.Errorf("replica imported at v%d (cfg %+v), after following %d writes / %d saves: %v", rp.at, rp.r.cfg, rp.writes, rp.saves, err)
		}
		b.ctx.ClassIf(rp.saves > 0, "replica-followed-saves")
		b.ctx.ClassIf(rp.saves >= 3, "replica-followed>=3-saves")
		b.ctx.ClassIf(rp.r.reopens > 0, "replica-reopened")
		b.ctx.ClassIf(rp.r.prunesOK > 0, "replica-pruned")
		b.ctx.ClassIf(rp.r.heightDrops > 0, "replica-height-dropped")
		return nil
	}
	defer func() {
		for _, rp := range reps {
			rp.r.close()
		}
	}()
	follow := func(rp *c24Replica, op hOp) error {
		lat0 := rp.r.m.latest
		if err := rp.r.step(n, &op); err != nil {
			return fmt.Errorf("replica imported at v%d (cfg %+v) following the history: %v", rp.at, rp.r.cfg, err)
		}
		switch op.T {
		case "set", "del", "setrun", "delrun", "fill":
			if rp.r.m.dirty {
				rp.writes++
				rp.pending = true
			}
		case "rollback":
			rp.pending = false
		}
		if v := rp.r.m.latest; v != lat0 {
			if rp.pending {
				rp.saves++
			}
			rp.pending = false
			want, ok := ref[v]
			if !ok {
				return fmt.Errorf("replica imported at v%d saved version %d, which run A never saved (harness transform bug?)", rp.at, v)
			}
			if got := rp.r.hashes[v]; !bytes.Equal(got, want) {
				return fmt.Errorf("root hash of version %d differs between the origin and a replica that imported the export of v%d into an empty DB and then received the same %d writes / %d saves: origin=%x replica=%x (replica cfg %+v)", v, rp.at, rp.writes, rp.saves, want, got, rp.r.cfg)
			}
			if rp.r.m.latest != b.m.latest {
				return fmt.Errorf("replica imported at v%d is at version %d, origin at %d", rp.at, rp.r.m.latest, b.m.latest)
			}
		}
		return nil
	}
	do := func(op hOp) error {
		n++
		if err := b.step(n, &op); err != nil {
			return err
		}
		for j, rp := range reps {
			o := op
			if op.T == "reopen" {
				// a replica process restarts on its own schedule
				if len(c.ReopenB) == 0 || !c.ReopenB[(saves+rp.idx+1)%len(c.ReopenB)] {
					continue
				}
				cfg := c.CfgB[(cfgI+rp.idx+1)%len(c.CfgB)]
				if j%2 == 1 {
					cfg = c.ImpCfg
				}
				o.Cfg = &cfg
			}
			if err := follow(rp, o); err != nil {
				return err
			}
		}
		return nil
	}
	fork := func() error {
		v := b.m.latest
		if len(c.ForkMask) == 0 || !c.ForkMask[saves%len(c.ForkMask)] {
			return nil
		}
		if len(b.m.work) == 0 || b.m.vers[v] == nil {
			return nil // an empty version cannot be exported (ErrNotInitializedTree)
		}
		cfg := c.ImpCfg
		if forks%2 == 1 {
			cfg = c.CfgB[forks%len(c.CfgB)]
		}
		reload := len(c.ForkReload) > 0 && c.ForkReload[forks%len(c.ForkReload)]
		rr, err := c24Fork(b, v, cfg, reload)
		if err != nil {
			return err
		}
		if len(reps) == c24MaxReplicas {
			if err := retire(reps[0]); err != nil {
				return err
			}
			reps = append(reps[:0:0], reps[1:]...)
		}
		reps = append(reps, &c24Replica{r: rr, at: v, idx: forks})
		forks++
		b.ctx.Class("replica-forked")
		return nil
	}
	saveB := func() error {
		lat0 := b.m.latest
		if err := do(hOp{T: "save"}); err != nil {
			return err
		}
		if b.m.latest != lat0 {
			if err := fork(); err != nil {
				return err
			}
		}
		if len(c.ReopenB) > 0 && c.ReopenB[saves%len(c.ReopenB)] {
			cfgI++
			cfg := c.CfgB[cfgI%len(c.CfgB)]
			if err := do(hOp{T: "reopen", Cfg: &cfg}); err != nil {
				return err
			}
		}
		saves++
		return nil
	}
	for _, op := range c.H.Ops {
		var err error
		switch op.T {
		case "set", "del", "setrun", "delrun", "fill":
			if !detached {
				err = do(op)
			}
		case "save":
			if !detached {
				err = saveB()
			}
		case "prune":
			if detached {
				continue
			}
			if op.S == 1 { // A commits before pruning
				if err = saveB(); err != nil {
					return err
				}
			}
			if c.KeepPruneB {
				p := op
				p.S = 0
				err = do(p)
			}
		case "rollback":
			if !detached {
				err = do(op)
			}
		case "reopen", "loadlatest":
			// logical effect in A: uncommitted changes are lost, latest loaded
			err = do(hOp{T: "rollback"})
			detached = false
		case "loadver":
			// A abandons its session iff a version exists to load
			if b.m.latest > 0 {
				err = do(hOp{T: "rollback"})
				detached = true
			}
		}
		if err != nil {
			return err
		}
	}
	for _, rp := range reps {
		if err := retire(rp); err != nil {
			return err
		}
	}
	reps = nil
	return nil
}

// c24Export drains Export(nil) of version v and checks that the exported leaf
// entries are exactly the version's contents, in order.
func c24Export(tree *bp.MutableTree, v int64, s *hSnap) ([]*bp.ExportNode, error) {
	imm, err := tree.GetImmutable(v)
	if err != nil {
		return nil, fmt.Errorf("export: GetImmutable(%d): %v", v, err)
	}
	defer imm.Close()
	// An external package cannot name *nodeDB; the untyped nil makes the
	// exporter use the snapshot's own (DB-only) value resolver.
	ex, err := imm.Export(nil)
	if err != nil {
		return nil, fmt.Errorf("Export of v%d: %v", v, err)
	}
	var nodes []*bp.ExportNode
	for {
		n, err := ex.Next()
		if errors.Is(err, bp.ErrExportDone) {
			break
		}
		if err != nil {
			ex.Close()
			return nil, fmt.Errorf("Exporter.Next v%d: %v", v, err)
		}
		nodes = append(nodes, n)
	}
	ex.Close()
	i := 0
	for _, n := range nodes {
		if n.Height == 0 {
			if i >= len(s.keys) || string(n.Key) != s.keys[i] || string(n.Value) != s.vals[s.keys[i]] {
				return nil, fmt.Errorf("export v%d: leaf entry %d is (%q,%q), model differs", v, i, n.Key, n.Value)
			}
			i++
		}
	}
	if i != len(s.keys) {
		return nil, fmt.Errorf("export v%d: %d leaf entries, model has %d", v, i, len(s.keys))
	}
	return nodes, nil
}

// c24Import feeds an export stream of version v into t (a handle over an
// empty DB) and commits it.
func c24Import(t *bp.MutableTree, v int64, nodes []*bp.ExportNode, want []byte) error {
	if lv, err := t.Load(); err != nil || lv != 0 {
		return fmt.Errorf("Load on empty import target = (%d,%v)", lv, err)
	}
	imp, err := t.Import(v)
	if err != nil {
		return fmt.Errorf("Import(%d) into an empty DB: %v", v, err)
	}
	for j, n := range nodes {
		if err := imp.Add(n); err != nil {
			imp.Close()
			return fmt.Errorf("Importer.Add(node %d of v%d export): %v", j, v, err)
		}
	}
	if err := imp.Commit(); err != nil {
		imp.Close()
		return fmt.Errorf("Importer.Commit v%d: %v", v, err)
	}
	imp.Close()
	if t.Version() != v {
		return fmt.Errorf("imported tree Version() = %d, want %d", t.Version(), v)
	}
	if !bytes.Equal(t.Hash(), want) {
		return fmt.Errorf("imported v%d hash %x, original %x", v, t.Hash(), want)
	}
	return nil
}

// c24Fork exports the latest version v of src, imports it into an empty DB
// and returns a run (tree + model) over that DB which can follow the rest of
// the history. With reload (always when the fast index is on: a handle with
// the index enabled goes through Load() before its working tree is used) the
// replica continues on a fresh handle, otherwise on the importing handle.
func c24Fork(src *hRun, v int64, cfg hCfg, reload bool) (*hRun, error) {
	s := src.m.vers[v]
	nodes, err := c24Export(src.tree, v, s)
	if err != nil {
		return nil, err
	}
	rp := &hRun{ctx: src.ctx, inner: memdb.NewMemDB(), cfg: cfg, m: hNewModel(0), hashes: map[int64][]byte{}, lightOnly: true}
	rp.db = hNewCrashDB(rp.inner)
	rp.everFast = cfg.Fast
	rp.tree = bp.NewMutableTreeWithDB(rp.db, cfg.Cache, nil, hOptions(cfg, 0)...)
	if err := c24Import(rp.tree, v, nodes, s.hash); err != nil {
		rp.tree.Close()
		return nil, fmt.Errorf("fork a replica: %v", err)
	}
	rp.m.vers[v] = s
	rp.m.latest = v
	rp.m.resetWorkTo(v)
	for _, k := range src.m.recent {
		rp.m.touch(k)
	}
	rp.opIndex = src.opIndex
	if reload || cfg.Fast {
		src.ctx.Class("replica-on-reloaded-handle")
		if err := rp.reopen(cfg); err != nil {
			rp.close()
			return nil, fmt.Errorf("replica of v%d, reload after import: %v", v, err)
		}
		rp.reopens = 0
	} else {
		src.ctx.Class("replica-on-importing-handle")
		if err := rp.verifyWorking(nil, false); err != nil {
			rp.close()
			return nil, fmt.Errorf("replica of v%d, importing handle: %v", v, err)
		}
	}
	return rp, nil
}

func c24ExportImport(ctx *vk.Ctx, r *hRun, v int64, cfg hCfg) error {
	s := r.m.vers[v]
	if len(s.keys) == 0 {
		imm, err := r.tree.GetImmutable(v)
		if err != nil {
			return fmt.Errorf("export: GetImmutable(%d): %v", v, err)
		}
		defer imm.Close()
		ex, err := imm.Export(nil)
		if err == nil {
			ex.Close()
			return fmt.Errorf("export of empty version %d succeeded; documented to fail with ErrNotInitializedTree", v)
		}
		ctx.Class("export-empty-refused")
		return nil
	}
	nodes, err := c24Export(r.tree, v, s)
	if err != nil {
		return err
	}
	dst := memdb.NewMemDB()
	t2 := bp.NewMutableTreeWithDB(dst, cfg.Cache, nil, hOptions(cfg, 0)...)
	if err := c24Import(t2, v, nodes, s.hash); err != nil {
		t2.Close()
		return err
	}
	// contents through the importing handle, then through a fresh handle
	// (Load; rebuilds the fast index when enabled), then a snapshot.
	sub := &hRun{ctx: ctx, m: hNewModel(0)}
	sub.m.recent = r.m.recent
	if err := sub.verify(fmt.Sprintf("import of v%d (importing handle)", v), t2, s, nil, true, cfg.Fast, nil); err != nil {
		return err
	}
	t2.Close()
	t3 := bp.NewMutableTreeWithDB(dst, cfg.Cache, nil, hOptions(cfg, 0)...)
	lv, err := t3.Load()
	if err != nil || lv != v {
		return fmt.Errorf("Load after import of v%d = (%d,%v)", v, lv, err)
	}
	if !bytes.Equal(t3.Hash(), s.hash) {
		return fmt.Errorf("reloaded import v%d hash %x, original %x", v, t3.Hash(), s.hash)
	}
	if err := sub.verify(fmt.Sprintf("import of v%d (reloaded)", v), t3, s, nil, true, cfg.Fast, nil); err != nil {
		return err
	}
	im3, err := t3.GetImmutable(v)
	if err != nil {
		return fmt.Errorf("GetImmutable(%d) on import target: %v", v, err)
	}
	if !bytes.Equal(im3.Hash(), s.hash) {
		im3.Close()
		return fmt.Errorf("import target snapshot v%d hash differs", v)
	}
	if err := sub.verify(fmt.Sprintf("import of v%d (snapshot)", v), im3, s, nil, false, cfg.Fast, nil); err != nil {
		im3.Close()
		return err
	}
	im3.Close()
	t3.Close()
	ctx.Class("export-import")
	return nil
}

func c24Exec(ctx *vk.Ctx, c c24Case) error {
	a, err := hNewRun(ctx, c.H)
	if err != nil {
		return err
	}
	defer a.close()
	if err := a.runHistory(c.H); err != nil {
		return fmt.Errorf("run A: %v", err)
	}
	a.classes()
	// run B
	b, err := hNewRun(ctx, hCase{Init: c.H.Init, Cfg: c.CfgB[0]})
	if err != nil {
		return fmt.Errorf("run B: %v", err)
	}
	defer b.close()
	b.lightOnly = true
	if err := c24RunB(b, c, a.hashes); err != nil {
		return fmt.Errorf("run B (config %+v): %v", b.cfg, err)
	}
	if len(a.hashes) != len(b.hashes) {
		return fmt.Errorf("run A saved %d versions, run B %d (harness transform bug?)", len(a.hashes), len(b.hashes))
	}
	diffCfg := false
	var saved []int64
	for v := range a.hashes {
		saved = append(saved, v)
	}
	sort.Slice(saved, func(i, j int) bool { return saved[i] < saved[j] })
	for _, v := range saved {
		ha := a.hashes[v]
		hb, ok := b.hashes[v]
		if !ok {
			return fmt.Errorf("version %d saved in A but not in B", v)
		}
		if !bytes.Equal(ha, hb) {
			return fmt.Errorf("root hash of version %d differs between configurations: A=%x (cfg %+v, with prunes/reopens as in the case) B=%x (cfg cycle %+v reopen mask %v)", v, ha, c.H.Cfg, hb, c.CfgB, c.ReopenB)
		}
	}
	if err := b.verifyWorking(nil, true); err != nil {
		return fmt.Errorf("run B: %v", err)
	}
	if c.CfgB[0] != c.H.Cfg || b.reopens != a.reopens || a.prunesOK > 0 {
		diffCfg = true
	}
	ctx.ClassIf(b.reopens > 0, "B-reopened")
	ctx.ClassIf(a.prunesOK > 0 && !c.KeepPruneB, "A-pruned-B-not")
	ctx.ClassIf(c.CfgB[0].Cache != c.H.Cfg.Cache, "cache-differs")
	ctx.ClassIf(c.CfgB[0].Fast != c.H.Cfg.Fast, "fast-differs")
	// export / import of every retained version (newest 4)
	ret := a.m.retained()
	if len(ret) > 4 {
		ret = ret[len(ret)-4:]
	}
	for _, v := range ret {
		if err := c24ExportImport(ctx, a, v, c.ImpCfg); err != nil {
			return err
		}
	}
	ctx.ClassIf(c.Echo > 0, "echo-ops")
	ctx.Note("versions", len(a.hashes))
	ctx.NTIf(a.saves >= 2 && a.maxHeight >= 1 && diffCfg)
	return nil
}

func TestC24_Differential(t *testing.T) {
	var th bool
	vk.Run(t, vk.Spec[c24Case]{
		ID: "C24", Name: "TestC24_Differential",
		Rule: "rapid: a C23-style history (run A: drawn cache/fast/flush, reopens, prunes, snapshots) and a second configuration vector (run B: cycle of configs, own reopen-after-save mask, prunes dropped or kept); same logical history => same root hash for every version; then Export(nil)/Import of the newest <=4 retained versions into an empty DB must reproduce hash and contents (importing handle, reloaded handle, snapshot); continued histories: at the saves of B selected by a drawn mask the saved version is exported and imported into an empty DB and that replica (<=3 alive, own config/reopens, importing or reloaded handle) receives all further ops: every version it saves must have the root hash of run A and the model contents; the history generator adds echo ops (a later op that undoes part of an earlier one on the same keys, chained, with saves in between) and usually a final save; non-trivial = >=2 versions, root split, and the two runs differ in config, reopen pattern or pruning",
		Setup: func(r *vk.Rec) { th = r.Thorough() },
		Draw: func(rt *rapid.T) c24Case {
			o := c23Opts(th)
			o.Checks = false
			o.MaxOps = 35
			if th {
				o.MaxOps = 70
			}
			c := c24Case{H: hDrawHistory(rt, o)}
			c.H.Ops, c.Echo = c24DrawEchoes(rt, c.H.Ops)
			if rapid.IntRange(0, 3).Draw(rt, "finalSave") > 0 {
				// hash the tail of the history too
				c.H.Ops = append(c.H.Ops, hOp{T: "save"})
			}
			n := rapid.IntRange(1, 3).Draw(rt, "ncfgB")
			for i := 0; i < n; i++ {
				c.CfgB = append(c.CfgB, hDrawCfg(rt, fmt.Sprintf("cfgB%d", i), 5))
			}
			m := rapid.IntRange(1, 4).Draw(rt, "nmask")
			for i := 0; i < m; i++ {
				c.ReopenB = append(c.ReopenB, rapid.IntRange(0, 2).Draw(rt, fmt.Sprintf("mask%d", i)) > 0)
			}
			c.KeepPruneB = rapid.IntRange(0, 3).Draw(rt, "keepPrune") == 0
			c.ImpCfg = hDrawCfg(rt, "imp", 5)
			nf := rapid.IntRange(1, 3).Draw(rt, "nfork")
			for i := 0; i < nf; i++ {
				c.ForkMask = append(c.ForkMask, rapid.IntRange(0, 3).Draw(rt, fmt.Sprintf("fork%d", i)) > 0)
			}
			nr := rapid.IntRange(1, 2).Draw(rt, "nforkReload")
			for i := 0; i < nr; i++ {
				c.ForkReload = append(c.ForkReload, rapid.Bool().Draw(rt, fmt.Sprintf("forkReload%d", i)))
			}
			return c
		},
		Exec: c24Exec,
	})
}
