package bptree

import (
	"fmt"
	"testing"

	"pgregory.net/rapid"
	"verif/vk"
)

// C26 — the B+ tree fast index never serves a stale value.
//
// Oracle: the versioned ordered-map model. Every Get issued through a handle
// whose fast index is enabled (clean working tree at its loaded version,
// registered snapshots of the writer, unregistered views of independent
// read-only loaders over the same DB) must return the model's value FOR THE
// VERSION BEING READ. Histories toggle the option at restarts (so versions get
// committed without index maintenance and the index must be rebuilt), prune,
// roll back, read old versions after the keys changed, and (TestC26_Crash*)
// lose the process at a physical write boundary chosen among ALL physical
// writes of the history (saves, intermediate prune flushes, index
// clears/rebuilds), restart with a drawn option vector and re-check everything;
// a read-only loader is also run atomically after every physical write, in the
// middle of whatever operation performs that write.

func c26Opts(thorough bool) hGenOpts {
	o := hGenOpts{Span: 1200, MaxOps: 40, MaxRun: 200, FastBias: 6, Readers: true, Detached: true, Checks: true, ManySaves: true, Restarts: true}
	if thorough {
		o.MaxOps = 80
		o.MaxRun = 500
	}
	return o
}

func c26Exec(ctx *vk.Ctx, c hCase) error {
	r, err := hNewRun(ctx, c)
	if err != nil {
		return err
	}
	defer r.close()
	r.probeEveryWrite()
	if err := r.runHistory(c); err != nil {
		return err
	}
	r.classes()
	ctx.ClassIf(r.boundaryReads > 0, "write-boundary-readers")
	ctx.Note("fastReads", r.fastReads)
	ctx.Note("staleCandidates", r.staleReads)
	// non-trivial: >=2 versions and at least one fast-index-enabled read of a
	// key that changed after the version being read.
	ctx.NTIf(r.saves >= 2 && r.staleReads > 0)
	return nil
}

func TestC26_History(t *testing.T) {
	var th bool
	vk.Run(t, vk.Spec[hCase]{
		ID: "C26", Name: "TestC26_History",
		Rule: "rapid: C23-style histories biased to the fast index (on in ~60% of configs, toggled at reopens so that versions are committed without index maintenance and rebuilt later), plus read-only loader handles (LoadReadonly, own fast option, GetImmutableUnregistered at any retained version, reads interleaved with later commits/prunes), held registered snapshots, LoadVersion(old) episodes, and a fresh read-only loader (fast on) run after every physical write of the history; every Get/Has/iteration equals the model for the version read; non-trivial = >=2 versions and a fast-index-enabled read of a key whose value changed after the version being read",
		Setup: func(r *vk.Rec) { th = r.Thorough() },
		Draw:  func(rt *rapid.T) hCase { return hDrawHistory(rt, c26Opts(th)) },
		Exec:  c26Exec,
	})
}

// ---------------------------------------------------------------- crashes

type c26Case struct {
	H       hCase `json:"h"`
	K       int   `json:"k"`       // crash after K%W physical writes (W = writes of the uncrashed run)
	Restart hCfg  `json:"restart"` // configuration of the process started after the crash
}

// c26DryRun executes the history without faults and returns its number of
// physical writes.
func c26DryRun(ctx *vk.Ctx, c hCase) (int, error) {
	r, err := hNewRun(&vk.Ctx{}, c)
	if err != nil {
		return 0, err
	}
	defer r.close()
	for i := range c.Ops {
		if err := r.step(i, &c.Ops[i]); err != nil {
			return 0, fmt.Errorf("uncrashed run: %v", err)
		}
	}
	return r.db.writes, nil
}

// boundaryCheck runs a read-only loader at the current physical write
// boundary. The durable state per the model: everything committed so far, plus
// the version whose SaveVersion is in flight (its single batch was just
// applied); versions being pruned right now are not read.
func (r *hRun) boundaryCheck() error {
	vers := map[int64]*hSnap{}
	for v, s := range r.m.vers {
		vers[v] = s
	}
	latest := r.m.latest
	if p := r.pendingSave; p != nil {
		vers[p.ver] = p.snap
		latest = p.ver
	}
	if latest == 0 {
		return nil
	}
	return r.atomicReader(latest, vers, r.pruneTo)
}

func (r *hRun) afterCrash(ctx *vk.Ctx, restart hCfg, op *hOp) error {
	r.dropHandles()
	r.tree = nil
	r.pendingSave = nil
	pruneTo := r.pruneTo // stays set until the pruned prefix is reconciled below
	r.db.limit = -1
	r.db.dead = false
	if restart.Fast != r.cfg.Fast {
		r.fastToggles++
	}
	w0 := r.db.writes
	// Restart. open() checks Load() == model latest: a crashed save must not be
	// visible, a crashed prune never touches the latest version.
	r.cfg = restart
	if err := r.open(restart); err != nil {
		return fmt.Errorf("restart after crash in op %q: %v", op.T, err)
	}
	if r.db.writes > w0 {
		r.rebuilds++
	}
	if pruneTo > 0 {
		// A prune may have committed whole-version prefixes before dying.
		av := r.tree.AvailableVersions()
		ret := r.m.retained()
		if len(av) > len(ret) {
			return fmt.Errorf("after crash in prune(to=%d): versions %v, model retained %v", pruneTo, av, ret)
		}
		drop := len(ret) - len(av)
		for i, v := range av {
			if int64(v) != ret[drop+i] {
				return fmt.Errorf("after crash in prune(to=%d): versions %v are not a suffix of %v", pruneTo, av, ret)
			}
		}
		for _, v := range ret[:drop] {
			if v > pruneTo {
				return fmt.Errorf("after crash in prune(to=%d): version %d disappeared", pruneTo, v)
			}
			delete(r.m.vers, v)
		}
		ctx.ClassIf(drop > 0, "crash-in-prune-partial")
	}
	r.pruneTo = 0
	if err := r.verifyWorking(nil, true); err != nil {
		return fmt.Errorf("after restart: %v", err)
	}
	if err := r.verifyAll(true); err != nil {
		return fmt.Errorf("after restart: %v", err)
	}
	if r.m.latest > 0 {
		if err := r.atomicReader(r.m.latest, r.m.vers, 0); err != nil {
			return fmt.Errorf("after restart: %v", err)
		}
	}
	return nil
}

func c26CrashExec(ctx *vk.Ctx, c c26Case) error {
	w, err := c26DryRun(ctx, c.H)
	if err != nil {
		return err
	}
	r, err := hNewRun(ctx, c.H)
	if err != nil {
		return err
	}
	defer func() {
		if r.tree != nil {
			r.close()
		}
	}()
	crashAt := -1
	if w > 0 {
		crashAt = c.K % w
		r.db.limit = crashAt
		r.probeEveryWrite()
		crashed := false
		for i := range c.H.Ops {
			op := &c.H.Ops[i]
			err := r.guard(func() error { return r.step(i, op) })
			if r.hookErr != nil {
				return r.hookErr
			}
			if err == errHCrashed {
				if crashed {
					return fmt.Errorf("harness: second crash")
				}
				crashed = true
				ctx.Class("crash-in-" + op.T)
				ctx.ClassIf(c.Restart.Fast != r.cfg.Fast, "restart-toggles-fast")
				if err := r.afterCrash(ctx, c.Restart, op); err != nil {
					return err
				}
				continue
			}
			if err != nil {
				return err
			}
		}
		if !crashed {
			// the crash point lies in writes the crashed run no longer performs
			// (cannot happen: the prefix before the crash is identical)
			return fmt.Errorf("harness: crash point %d of %d never reached", crashAt, w)
		}
	} else {
		ctx.Class("history-without-writes")
		for i := range c.H.Ops {
			if err := r.step(i, &c.H.Ops[i]); err != nil {
				return err
			}
		}
	}
	if err := r.finish(); err != nil {
		return err
	}
	if r.hookErr != nil {
		return r.hookErr
	}
	r.classes()
	ctx.ClassIf(r.boundaryReads > 0, "write-boundary-readers")
	ctx.Note("writes", w)
	ctx.Note("crashAt", crashAt)
	ctx.NTIf(w > 0 && r.saves >= 1 && r.fastReads > 0)
	return nil
}

func c26DrawCrash(rt *rapid.T, th bool) c26Case {
	o := c26Opts(th)
	o.MaxOps = 30
	o.Checks = false
	if th {
		o.MaxOps = 50
	}
	return c26Case{
		H:       hDrawHistory(rt, o),
		K:       rapid.IntRange(0, 1<<16).Draw(rt, "k"),
		Restart: hDrawCfg(rt, "restart", 7),
	}
}

const c26CrashRule = "a fast-index-biased history run over a harness-owned dbm.DB that counts physical writes (direct writes and each non-empty Batch.Write as one atomic unit) and kills the process at write K (nothing later reaches the DB); the model rolls the interrupted op back (save: not saved; prune: a whole-version prefix may be gone; rebuild: no logical change), a new process starts with a drawn option vector (fast toggled or not), every retained version and the working tree are re-read through writer, snapshots and a read-only loader, and the rest of the history continues; a read-only loader (fast index on) also runs atomically after EVERY physical write, inside the operation performing it; non-trivial = the history writes, saved >=1 version and performed fast-index-enabled reads"

func TestC26_Crash(t *testing.T) {
	var th bool
	vk.Run(t, vk.Spec[c26Case]{
		ID: "C26", Name: "TestC26_Crash",
		Rule:  "rapid (crash point drawn): " + c26CrashRule,
		Setup: func(r *vk.Rec) { th = r.Thorough() },
		Draw:  func(rt *rapid.T) c26Case { return c26DrawCrash(rt, th) },
		Exec:  c26CrashExec,
	})
}

// TestC26_CrashSweep enumerates EVERY physical write of each generated history
// as the crash point (histories themselves are sampled).
func TestC26_CrashSweep(t *testing.T) {
	r := vk.Open(t, "C26", "TestC26_CrashSweep", "enumeration over all crash points k in [0,W) of each sampled history: "+c26CrashRule)
	defer r.Close()
	if vk.Replaying() {
		t.Skip()
	}
	r.ReplayAs = "TestC26_Crash"
	th := r.Thorough()
	n := vk.Pick(r, 10, 150)
	gen := rapid.Custom(func(rt *rapid.T) c26Case { return c26DrawCrash(rt, th) })
	points := 0
	for i := 0; i < n; i++ {
		c := gen.Example(int(r.Seed)*100003 + r.Shard*1009 + i)
		w, err := c26DryRun(nil, c.H)
		if err != nil {
			r.Fail(c, err)
			return
		}
		for k := 0; k < w; k++ {
			ck := c
			ck.K = k
			points++
			if r.Do(ck, func(ctx *vk.Ctx) error { return c26CrashExec(ctx, ck) }) != nil {
				return
			}
		}
	}
	r.Extra("exhaustive_in_crash_point_per_history", true)
	r.Extra("histories", n)
	r.Extra("crash_points", points)
}
