package gasprice

import (
	"fmt"
	"math"
	"math/big"
	"testing"

	abci "github.com/gnolang/gno/tm2/pkg/bft/abci/types"
	bft "github.com/gnolang/gno/tm2/pkg/bft/types"
	"github.com/gnolang/gno/tm2/pkg/db/memdb"
	"github.com/gnolang/gno/tm2/pkg/log"
	"github.com/gnolang/gno/tm2/pkg/sdk"
	"github.com/gnolang/gno/tm2/pkg/sdk/auth"
	"github.com/gnolang/gno/tm2/pkg/std"
	"github.com/gnolang/gno/tm2/pkg/store"
	"github.com/gnolang/gno/tm2/pkg/store/dbadapter"
	"pgregory.net/rapid"
	"verif/vk"
)

// C17 — the block gas price follows its adjustment rule.
//
// A case is a chain configuration (Block.MaxGas, target ratio, compressor,
// initial price, stored price) and a sequence of per-block gas usages. Every
// block is pushed through the exported path the node uses: a block gas meter
// built as BaseApp.BeginBlock builds it, then auth.EndBlocker ->
// GasPriceKeeper.UpdateGasPrice, then GasPriceKeeper.LastGasPrice. The oracle
// is an independent math/big model of the documented rule.

type c17Case struct {
	MaxGas   int64   `json:"max_gas"`
	Ratio    int64   `json:"ratio"`
	Comp     int64   `json:"compressor"`
	GasUnit  int64   `json:"gas_unit"`
	Init     int64   `json:"initial_price"`
	Start    int64   `json:"start_price"`
	StartSet bool    `json:"start_set"`
	Blocks   []int64 `json:"blocks"` // gas used by each block
}

const c17Denom = "ugnot"

type c17Env struct {
	ctx sdk.Context
	gk  auth.GasPriceKeeper
}

func c17NewEnv(c c17Case) (c17Env, auth.Params, abci.ConsensusParams, error) {
	db := memdb.NewMemDB()
	key := store.NewStoreKey("c17main")
	ms := store.NewCommitMultiStore(db)
	ms.MountStoreWithDB(key, dbadapter.StoreConstructor, db)
	if err := ms.LoadLatestVersion(); err != nil {
		return c17Env{}, auth.Params{}, abci.ConsensusParams{}, err
	}
	params := auth.DefaultParams()
	params.TargetGasRatio = c.Ratio
	params.GasPricesChangeCompressor = c.Comp
	params.InitialGasPrice = std.GasPrice{Gas: c.GasUnit, Price: std.Coin{Denom: c17Denom, Amount: c.Init}}
	cp := bft.DefaultConsensusParams()
	cp.Block.MaxGas = c.MaxGas
	ctx := sdk.NewContext(sdk.RunTxModeDeliver, ms, &bft.Header{Height: 1, ChainID: "c17-chain"}, log.NewNoopLogger())
	ctx = ctx.WithValue(auth.AuthParamsContextKey{}, params).WithConsensusParams(&cp)
	return c17Env{ctx: ctx, gk: auth.NewGasPriceKeeper(key)}, params, cp, nil
}

// blockMeter mirrors BaseApp.BeginBlock: a limited meter for MaxGas > 0, an
// infinite one for 0 and -1. Consumption past the limit panics but is recorded,
// as for the transaction that overflows a block.
func c17BlockMeter(maxGas, used int64) store.GasMeter {
	var m store.GasMeter
	if maxGas > 0 {
		m = store.NewGasMeter(maxGas)
	} else {
		m = store.NewInfiniteGasMeter()
	}
	func() {
		defer func() { recover() }()
		m.ConsumeGas(used, "c17 block")
	}()
	return m
}

type c17Verdict struct {
	kind     string   // unchanged | up | down | floor-reset | zero-target | unlimited
	exact    *big.Int // expected amount (nil when the rule gives no exact value)
	overflow bool     // the expected amount does not fit int64
	floorHit bool     // the computed move rounded to 0 and the at-least-one rule applies
	clamped  bool     // the decrease was limited by the initial price
	wide     bool     // |used-target|*price does not fit int64
}

// c17Model is the reference: target = floor(MaxGas*ratio/100);
// move = max(1, floor(|used-target|*price / (target*compressor))).
func c17Model(c c17Case, price, used int64) c17Verdict {
	if price == 0 || c.Ratio == 0 {
		return c17Verdict{kind: "unchanged", exact: big.NewInt(price)}
	}
	P := big.NewInt(price)
	one := big.NewInt(1)
	if c.MaxGas < 0 { // unlimited block: every usage is above any target derived from it
		return c17Verdict{kind: "unlimited", exact: new(big.Int).Add(P, one), overflow: price == math.MaxInt64}
	}
	target := new(big.Int).Mul(big.NewInt(c.MaxGas), big.NewInt(c.Ratio))
	target.Quo(target, big.NewInt(100)) // both non-negative
	U := big.NewInt(used)
	cmp := U.Cmp(target)
	if cmp == 0 {
		return c17Verdict{kind: "unchanged", exact: P}
	}
	if target.Sign() == 0 { // used > 0 = target: the relative excess is unbounded
		return c17Verdict{kind: "zero-target", overflow: price == math.MaxInt64}
	}
	diff := new(big.Int).Sub(U, target)
	diff.Abs(diff)
	prod := new(big.Int).Mul(diff, P)
	den := new(big.Int).Mul(target, big.NewInt(c.Comp))
	move := new(big.Rat).SetFrac(prod, den)
	fl := new(big.Int).Quo(move.Num(), move.Denom()) // floor of a non-negative rational
	v := c17Verdict{wide: !prod.IsInt64()}
	if fl.Sign() == 0 {
		fl = one
		v.floorHit = true
	}
	if cmp > 0 {
		v.kind = "up"
		v.exact = new(big.Int).Add(P, fl)
		v.overflow = !v.exact.IsInt64()
		return v
	}
	I := big.NewInt(c.Init)
	if P.Cmp(I) < 0 {
		v.kind = "floor-reset"
		v.exact = I
		return v
	}
	v.kind = "down"
	v.exact = new(big.Int).Sub(P, fl)
	if v.exact.Cmp(I) < 0 {
		v.exact = I
		v.clamped = true
	}
	return v
}

// c17SameUnit: the gas unit and the denomination are untouched. (A coin whose amount became 0 loses its
// denomination in the store encoding; that is outside this property.)
func c17SameUnit(got, cur std.GasPrice) bool {
	return got.Gas == cur.Gas && (got.Price.Denom == cur.Price.Denom || got.Price.Amount == 0)
}

func c17Exec(ctx *vk.Ctx, c c17Case) error {
	env, params, cp, err := c17NewEnv(c)
	if err != nil {
		return fmt.Errorf("harness: %v", err)
	}
	// the generator must stay inside what the node's own validators accept
	if err := params.Validate(); err != nil {
		ctx.Class("skipped-invalid-auth-params")
		return nil
	}
	if err := bft.ValidateConsensusParams(cp); err != nil {
		ctx.Class("skipped-invalid-consensus-params")
		return nil
	}
	cur := std.GasPrice{}
	if c.StartSet {
		cur = std.GasPrice{Gas: c.GasUnit, Price: std.Coin{Denom: c17Denom, Amount: c.Start}}
		env.gk.SetGasPrice(env.ctx, cur)
		got := env.gk.LastGasPrice(env.ctx)
		if got.Gas != cur.Gas || got.Price.Amount != cur.Price.Amount {
			return fmt.Errorf("harness: SetGasPrice(%+v) then LastGasPrice = %+v", cur, got)
		}
		cur = got // (a zero-amount coin loses its denom in the store encoding; not this property's concern)
	} else {
		ctx.Class("no-price-stored")
	}
	for i, used := range c.Blocks {
		if c.MaxGas > 0 && used > c.MaxGas {
			ctx.Class("block-past-limit")
		}
		v := c17Model(c, cur.Price.Amount, used)
		ctx.Class("rule=" + v.kind)
		ctx.ClassIf(v.floorHit, "move-rounds-to-zero")
		ctx.ClassIf(v.clamped, "clamped-at-initial")
		ctx.ClassIf(v.wide, "product-exceeds-int64")
		ctx.ClassIf(v.overflow, "result-exceeds-int64")
		ctx.NTIf(v.floorHit || v.clamped || v.wide || v.overflow || v.kind == "zero-target" || v.kind == "floor-reset")
		bctx := env.ctx.WithBlockGasMeter(c17BlockMeter(c.MaxGas, used))
		var pv any
		func() {
			defer func() { pv = recover() }()
			auth.EndBlocker(bctx, env.gk)
		}()
		got := env.gk.LastGasPrice(env.ctx)
		where := fmt.Sprintf("block %d: price %d/%dgas, used %d, MaxGas %d, ratio %d, compressor %d, initial %d", i, cur.Price.Amount, cur.Gas, used, c.MaxGas, c.Ratio, c.Comp, c.Init)
		if pv != nil {
			// the property: "the computation never overflows or panics"
			if got != cur {
				return fmt.Errorf("%s: UpdateGasPrice panicked (%v) and left price %+v behind", where, pv, got)
			}
			// known finding (deliberate, asserted by the repo's own unit test): explicit panic when the raised
			// price does not fit int64. Nothing else is excused; the store is unchanged, so the model resumes.
			if v.overflow && ctx.Known("increase-overflow-panic") {
				continue
			}
			return fmt.Errorf("%s: UpdateGasPrice panicked: %v (model: %s)", where, pv, v.kind)
		}
		old, now := cur.Price.Amount, got.Price.Amount
		switch v.kind {
		case "unchanged":
			if got != cur {
				return fmt.Errorf("%s: price must stay put, got %+v", where, got)
			}
		case "zero-target":
			// used > target = 0: must move up by at least one unit
			if !c17SameUnit(got, cur) || (now < old+1 && old != math.MaxInt64) {
				return fmt.Errorf("%s: usage above a zero target must raise the price, got %+v", where, got)
			}
		case "up", "unlimited":
			if !c17SameUnit(got, cur) {
				return fmt.Errorf("%s: gas unit/denom changed: %+v", where, got)
			}
			if v.overflow {
				// no exact int64 answer exists; anything from old+1 up to MaxInt64 (old itself only at MaxInt64) is a rise
				if now < old || (now == old && old != math.MaxInt64) {
					return fmt.Errorf("%s: usage above target must raise the price, got %d", where, now)
				}
			} else {
				if now < old+1 {
					return fmt.Errorf("%s: usage above target must raise the price by at least 1, got %d", where, now)
				}
				if now != v.exact.Int64() {
					return fmt.Errorf("%s: new price %d, rule gives %v", where, now, v.exact)
				}
			}
		case "floor-reset":
			want := params.InitialGasPrice
			if got.Gas != want.Gas || got.Price.Amount != want.Price.Amount || (want.Price.Amount != 0 && got.Price.Denom != want.Price.Denom) {
				return fmt.Errorf("%s: price below the initial price with usage under target must return to the initial price %+v, got %+v", where, want, got)
			}
		case "down":
			if !c17SameUnit(got, cur) {
				return fmt.Errorf("%s: gas unit/denom changed: %+v", where, got)
			}
			lim := old - 1
			if lim < c.Init {
				lim = c.Init
			}
			if now > lim {
				return fmt.Errorf("%s: usage under target must lower the price by at least 1 (down to the initial price), got %d", where, now)
			}
			if now < c.Init {
				return fmt.Errorf("%s: price %d fell below the initial price", where, now)
			}
			if now != v.exact.Int64() {
				return fmt.Errorf("%s: new price %d, rule gives %v", where, now, v.exact)
			}
		}
		cur = got
	}
	return nil
}

func c17Big(rt *rapid.T, label string, lo int64) int64 {
	switch rapid.IntRange(0, 9).Draw(rt, label+"k") {
	case 0:
		return lo
	case 1:
		return lo + int64(rapid.IntRange(1, 3).Draw(rt, label+"s"))
	case 2:
		return math.MaxInt64 - int64(rapid.IntRange(0, 3).Draw(rt, label+"m"))
	case 3:
		return 1 << uint(rapid.IntRange(31, 62).Draw(rt, label+"p"))
	case 4:
		v := rapid.Int64Range(lo, math.MaxInt64).Draw(rt, label+"u")
		return v
	case 5:
		return lo + int64(rapid.IntRange(0, 1000000).Draw(rt, label+"mid"))
	default:
		return lo + int64(rapid.IntRange(0, 200).Draw(rt, label+"small"))
	}
}

func c17Draw(rt *rapid.T) c17Case {
	c := c17Case{}
	switch rapid.IntRange(0, 11).Draw(rt, "maxgas") {
	case 0:
		c.MaxGas = -1
	case 1:
		c.MaxGas = 0
	case 2:
		c.MaxGas = int64(rapid.IntRange(1, 300).Draw(rt, "mgsmall"))
	case 3:
		c.MaxGas = 3_000_000_000
	case 4:
		c.MaxGas = c17Big(rt, "mg", 1)
	default:
		c.MaxGas = int64(rapid.IntRange(100, 100_000_000).Draw(rt, "mgmid"))
	}
	switch rapid.IntRange(0, 11).Draw(rt, "ratiok") {
	case 0:
		c.Ratio = 0
	case 1:
		c.Ratio = rapid.SampledFrom([]int64{1, 50, 70, 99, 100}).Draw(rt, "ratiob")
	default:
		c.Ratio = int64(rapid.IntRange(1, 100).Draw(rt, "ratio"))
	}
	switch rapid.IntRange(0, 5).Draw(rt, "compk") {
	case 0:
		c.Comp = 1
	case 1:
		c.Comp = 10
	case 2:
		c.Comp = c17Big(rt, "comp", 1)
	default:
		c.Comp = int64(rapid.IntRange(1, 1000).Draw(rt, "comp"))
	}
	c.GasUnit = rapid.SampledFrom([]int64{1, 1000, 1000, 1_000_000}).Draw(rt, "gasunit")
	switch rapid.IntRange(0, 7).Draw(rt, "initk") {
	case 0:
		c.Init = 0
	case 1:
		c.Init = c17Big(rt, "init", 0)
	default:
		c.Init = int64(rapid.IntRange(1, 1000).Draw(rt, "init"))
	}
	c.StartSet = rapid.IntRange(0, 19).Draw(rt, "set") != 0
	switch rapid.IntRange(0, 14).Draw(rt, "startk") {
	case 0:
		c.Start = c.Init
	case 1:
		c.Start = 0
	case 2: // below the initial price (the parameter was raised by governance)
		if c.Init > 0 {
			c.Start = rapid.Int64Range(1, c.Init).Draw(rt, "below")
		}
	case 3:
		c.Start = c17Big(rt, "start", 1)
	default:
		d := int64(rapid.IntRange(0, 5000).Draw(rt, "above"))
		if c.Init <= math.MaxInt64-d {
			c.Start = c.Init + d
		} else {
			c.Start = c.Init
		}
	}
	target := new(big.Int).Mul(big.NewInt(c.MaxGas), big.NewInt(c.Ratio))
	target.Quo(target, big.NewInt(100))
	tg := int64(0)
	if c.MaxGas > 0 {
		tg = target.Int64()
	}
	n := rapid.IntRange(1, 8).Draw(rt, "nblocks")
	for i := 0; i < n; i++ {
		l := fmt.Sprintf("b%d", i)
		var u int64
		lim := c.MaxGas
		if lim <= 0 {
			lim = math.MaxInt64
		}
		switch rapid.IntRange(0, 9).Draw(rt, l+"k") {
		case 0:
			u = 0
		case 1:
			u = tg
		case 2:
			u = tg - int64(rapid.IntRange(1, 3).Draw(rt, l+"d"))
		case 3:
			u = tg + int64(rapid.IntRange(1, 3).Draw(rt, l+"d"))
		case 4:
			u = lim - int64(rapid.IntRange(0, 2).Draw(rt, l+"d"))
		case 5: // the transaction that overflowed the block meter is still recorded
			if c.MaxGas > 0 && c.MaxGas < math.MaxInt64/2 {
				u = c.MaxGas + rapid.Int64Range(1, c.MaxGas).Draw(rt, l+"past")
			} else {
				u = int64(rapid.IntRange(1, 1000).Draw(rt, l+"tiny"))
			}
		case 6:
			u = int64(rapid.IntRange(1, 1000).Draw(rt, l+"tiny"))
		default:
			u = rapid.Int64Range(0, lim).Draw(rt, l+"u")
		}
		if u < 0 {
			u = 0
		}
		c.Blocks = append(c.Blocks, u)
	}
	return c
}

func TestC17_GasPrice(t *testing.T) {
	vk.Run(t, vk.Spec[c17Case]{
		ID: "C17", Name: "TestC17_GasPrice",
		Rule: "rapid: chain configuration inside the ranges the node validates (Block.MaxGas >= -1 with -1/0/tiny/3e9/2^k/MaxInt64 bias, TargetGasRatio 0..100, GasPricesChangeCompressor >= 1, initial and stored price amounts >= 0 up to MaxInt64, stored price absent / equal / above / below the initial price) and 1-8 blocks whose gas usage is 0, target, target+-k, the limit, past the limit or uniform; each block goes through BeginBlock's meter construction, auth.EndBlocker and LastGasPrice and is compared with a math/big model (direction, at-least-one-unit, floor at the initial price, exact amount). Non-trivial = the computed move rounds to 0, or is clamped at the initial price, or |used-target|*price or the result exceeds int64, or the target is 0 with gas used, or the stored price is below the initial price.",
		Draw: c17Draw,
		Exec: c17Exec,
	})
}
