package amino

// C20 — nesting-depth family. amino bounds the nesting of interface (Any)
// values while decoding (binary_decode.go: "maxAnyDepth is the maximum nesting
// depth for interface/Any decoding. Each interface field traversal increments
// depth; exceeding this limit returns an error"). The limit is a property of
// both decoders, so values / byte strings whose interface nesting lies just
// below, at and above it (and around its half, where a double count would
// surface) are an input class of their own: E6's depth bound (5) never gets
// near it. This file finds, by reflection over the registered types, every
// interface that can contain itself through registered implementers
// ("recursive" interfaces: GnoVM Type / Value, crypto.PubKey via the multisig
// key, ...), and builds values with a forced spine of exactly D nested non-nil
// interfaces; everything off the spine is a small E6 value.

import (
	"fmt"
	"reflect"
	"sort"
	"strings"
	"sync"
	"testing"

	"github.com/gnolang/gno/gnovm/pkg/gnolang"
	"github.com/gnolang/gno/tm2/pkg/amino"
	"pgregory.net/rapid"
	"verif/vk"
)

// c20MaxAnyDepth mirrors the documented (unexported) limit in
// tm2/pkg/amino/binary_decode.go. It is used only to pick depths and to
// decide which clauses apply: a value nested deeper than the limit is outside
// the decoders' documented domain (the round-trip clauses do not apply), but
// its encoding is still a byte string on which both decoders must agree.
const c20MaxAnyDepth = 64

type c20Deep struct {
	// reach[rt]: rt (not an interface) contains, without crossing an
	// interface, a slot of a recursive interface type.
	reach map[reflect.Type]bool
	// rec[it]: interface it has an implementer (decodable form) that reaches a
	// recursive interface again, i.e. it can be nested without bound.
	rec map[reflect.Type]bool
	// roots: registered types with reach (sorted by key).
	roots []*c20Type
}

var (
	c20DeepOnce sync.Once
	c20DeepW    *c20Deep
)

// c20Children lists the amino-visible component types of a non-interface type
// (struct fields, pointer / list elements). Types with a domain generator
// (AminoMarshaler types, time) are leaves: E6 never fills them generically.
func c20Children(w *c20World, rt reflect.Type) []reflect.Type {
	switch rt {
	case c20TimeT, c20DurT, c20CoinT, c20CoinsT, c20AddrT, c20NetAddrT, c20ParamT, c20BalanceT,
		c20VHashT, c20PkgIDT, c20ObjectIDT, c20BigintT, c20BigdecT, c20MapListT:
		return nil
	}
	switch rt.Kind() {
	case reflect.Pointer:
		if rt.Elem().Kind() == reflect.Pointer {
			return nil
		}
		return []reflect.Type{rt.Elem()}
	case reflect.Slice, reflect.Array:
		if rt.Elem().Kind() == reflect.Uint8 {
			return nil
		}
		return []reflect.Type{rt.Elem()}
	case reflect.Struct:
		info, err := w.cdc.GetTypeInfo(rt)
		if err != nil || info.IsAminoMarshaler {
			return nil
		}
		var out []reflect.Type
		for _, f := range info.Fields {
			out = append(out, f.Type)
		}
		return out
	}
	return nil
}

func c20GetDeep(w *c20World) *c20Deep {
	c20DeepOnce.Do(func() {
		d := &c20Deep{}
		// all non-interface types reachable from registered types
		nodes := map[reflect.Type]bool{}
		var visit func(rt reflect.Type)
		visit = func(rt reflect.Type) {
			if rt.Kind() == reflect.Interface || nodes[rt] {
				return
			}
			nodes[rt] = true
			for _, c := range c20Children(w, rt) {
				visit(c)
			}
		}
		for _, t := range w.types {
			visit(t.RT)
		}
		// greatest fixpoint for rec, least fixpoint for reach given rec
		rec := map[reflect.Type]bool{}
		for _, it := range w.ifaces {
			if len(w.impls[it]) > 0 {
				rec[it] = true
			}
		}
		for {
			reach := map[reflect.Type]bool{}
			for changed := true; changed; {
				changed = false
				for rt := range nodes {
					if reach[rt] {
						continue
					}
					for _, c := range c20Children(w, rt) {
						if c.Kind() == reflect.Interface && rec[c] || reach[c] {
							reach[rt], changed = true, true
							break
						}
					}
				}
			}
			shrunk := false
			for it := range rec {
				ok := false
				for _, t := range w.impls[it] {
					if reach[t.RT] {
						ok = true
						break
					}
				}
				if !ok {
					delete(rec, it)
					shrunk = true
				}
			}
			if !shrunk {
				d.reach, d.rec = reach, rec
				break
			}
		}
		for _, t := range w.types {
			if d.reach[t.RT] {
				d.roots = append(d.roots, t)
			}
		}
		sort.Slice(d.roots, func(i, j int) bool { return d.roots[i].Key < d.roots[j].Key })
		c20DeepW = d
	})
	return c20DeepW
}

// leads: a slot of type rt can carry the spine further.
func (d *c20Deep) leads(rt reflect.Type) bool {
	if rt.Kind() == reflect.Interface {
		return d.rec[rt]
	}
	return d.reach[rt]
}

// c20OffSpineDepth: E6 depth at which everything off the spine is filled: one
// level of structure, at most one more interface level.
const c20OffSpineDepth = c20MaxDepth - 1

// fillSpine fills rv (addressable; d.leads(rv.Type()) holds) so that exactly
// `left` further non-nil interface values are nested along one path; the tape
// chooses the path (which field, which list element, which implementer).
func (g *c20Gen) fillSpine(rv reflect.Value, left int, fopts amino.FieldOptions) {
	d := c20GetDeep(g.w)
	g.nodes++
	rt := rv.Type()
	switch rt.Kind() {
	case reflect.Interface:
		// left >= 1 here
		var cands []*c20Type
		for _, t := range g.w.impls[rt] {
			if left == 1 || d.reach[t.RT] {
				cands = append(cands, t)
			}
		}
		t := cands[g.n(len(cands))]
		p := reflect.New(t.RT)
		g.enterIface()
		if left == 1 {
			// leaf of the spine: no further interfaces below it
			g.fill(p.Elem(), c20MaxDepth, amino.FieldOptions{})
		} else {
			g.fillSpine(p.Elem(), left-1, amino.FieldOptions{})
		}
		g.leaveIface()
		if t.PtrPref {
			rv.Set(p)
		} else {
			rv.Set(p.Elem())
		}
		g.ifaceNonNil = true
	case reflect.Pointer:
		p := reflect.New(rt.Elem())
		g.fillSpine(p.Elem(), left, fopts)
		rv.Set(p)
	case reflect.Array:
		k := g.n(rt.Len())
		for i := 0; i < rt.Len(); i++ {
			if i == k {
				g.fillSpine(rv.Index(i), left, fopts)
			} else {
				g.fillElem(rv.Index(i), c20OffSpineDepth, fopts)
			}
		}
	case reflect.Slice:
		n := 1 + g.n(3)
		k := g.n(n)
		s := reflect.MakeSlice(rt, n, n)
		for i := 0; i < n; i++ {
			if i == k {
				g.fillSpine(s.Index(i), left, fopts)
			} else {
				g.fillElem(s.Index(i), c20OffSpineDepth, fopts)
			}
		}
		rv.Set(s)
		g.nestedRepeated = true
	case reflect.Struct:
		info, err := g.w.cdc.GetTypeInfo(rt)
		if err != nil {
			panic(err)
		}
		var cands []int
		for i, f := range info.Fields {
			if d.leads(f.Type) {
				cands = append(cands, i)
			}
		}
		k := cands[g.n(len(cands))]
		for i, f := range info.Fields {
			if i == k {
				g.fillSpine(rv.Field(f.Index), left, f.FieldOptions)
			} else {
				g.fill(rv.Field(f.Index), c20OffSpineDepth, f.FieldOptions)
			}
		}
	default:
		panic(fmt.Sprintf("c20: fillSpine on %v", rt))
	}
}

// c20DepthFamily: nesting depths around the limit and around its half, plus
// small and mid values.
var c20DepthFamily = []int{
	c20MaxAnyDepth/2 - 1, c20MaxAnyDepth / 2, c20MaxAnyDepth/2 + 1, c20MaxAnyDepth/2 + 2,
	c20MaxAnyDepth - 2, c20MaxAnyDepth - 1, c20MaxAnyDepth, c20MaxAnyDepth + 1, c20MaxAnyDepth + 2,
	c20MaxAnyDepth/2 - 2, 48, 16, 8, 2, 1, c20MaxAnyDepth + 6,
}

func c20DrawDepth(rt *rapid.T) int {
	if rapid.IntRange(0, 3).Draw(rt, "depthkind") == 0 {
		return rapid.IntRange(1, c20MaxAnyDepth+8).Draw(rt, "depth")
	}
	return c20DepthFamily[rapid.IntRange(0, len(c20DepthFamily)-1).Draw(rt, "depthidx")]
}

// c20DrawDeepRoot picks a registered type that can host a spine.
func c20DrawDeepRoot(rt *rapid.T, roots []*c20Type) *c20Type {
	return roots[rapid.IntRange(0, len(roots)-1).Draw(rt, "deeproot")]
}

func c20DeepByteRoots(w *c20World) []*c20Type {
	var out []*c20Type
	for _, t := range c20GetDeep(w).roots {
		if !t.NetAddr {
			out = append(out, t)
		}
	}
	return out
}

// c20DepthClass buckets a nesting level relative to the limit.
func c20DepthClass(lvl int) string {
	switch {
	case lvl > c20MaxAnyDepth:
		return "any-depth>limit"
	case lvl == c20MaxAnyDepth:
		return "any-depth=limit"
	case lvl > c20MaxAnyDepth/2:
		return "any-depth-in(limit/2,limit)"
	case lvl > c20MaxDepth+1:
		return "any-depth-in(6,limit/2]"
	}
	return ""
}

// c20IsDepthErr: the documented rejection.
func c20IsDepthErr(err error) bool {
	return err != nil && strings.Contains(err.Error(), "exceeded max Any nesting depth")
}

// c20SweepDepths: the depths visited by the deterministic sweeps.
func c20SweepDepths(thorough bool) []int {
	if !thorough {
		return []int{c20MaxAnyDepth/2 - 1, c20MaxAnyDepth / 2, c20MaxAnyDepth/2 + 1, c20MaxAnyDepth - 1, c20MaxAnyDepth, c20MaxAnyDepth + 1}
	}
	var out []int
	for d := 1; d <= c20MaxAnyDepth+6; d++ {
		out = append(out, d)
	}
	return out
}

// TestC20_DepthSweep visits every registered type that can host a spine of
// nested interfaces at every depth of the family (quick: the six depths next
// to limit/2 and the limit; thorough: every depth 1..limit+6), with k tapes
// each (the zero tape = first field / first implementer everywhere, then
// seeded pseudo-random ones that vary the route).
func TestC20_DepthSweep(t *testing.T) {
	if vk.Replaying() {
		t.Skip()
	}
	w := c20GetWorld()
	d := c20GetDeep(w)
	r := vk.Open(t, "C20", "TestC20_DepthSweep", "every registered type that reaches a recursive interface x nesting depth D (quick: limit/2-1..limit/2+1, limit-1..limit+1; thorough: 1..limit+6; limit = maxAnyDepth = 64) x k tapes choosing the route of the spine (field, list element, implementer at every level); off-spine content is a small E6 value; "+c20ValRule)
	defer r.Close()
	r.ReplayAs = "TestC20_Values"
	per := vk.Pick(r, 2, 6)
	rng := c20Rng(r.Seed*1000033 + 29)
	var keys, recs []string
	for _, ty := range d.roots {
		keys = append(keys, ty.Key)
		for _, depth := range c20SweepDepths(r.Thorough()) {
			for k := 0; k < per; k++ {
				var tape []byte
				if k > 0 {
					tape = rng.tape(8 + int(rng.next()%(uint64(depth)*6+8)))
				}
				c := c20ValCase{T: ty.Key, Tape: tape, Deep: depth}
				if r.Do(c, func(ctx *vk.Ctx) error { return c20Trim(c20ExecValue(ctx, c)) }) != nil {
					return
				}
			}
		}
	}
	for it := range d.rec {
		recs = append(recs, it.String())
	}
	sort.Strings(recs)
	r.Extra("recursive_interfaces", recs)
	r.Extra("types_hosting_a_spine", keys)
	r.Extra("depths", c20SweepDepths(r.Thorough()))
}

// TestC20_DepthBytesSweep: encodings (plain and Any-wrapped) of deep values of
// every spine-hosting type, damaged by every mutation operator at the top, in
// the middle and at the bottom of the nest.
func TestC20_DepthBytesSweep(t *testing.T) {
	if vk.Replaying() {
		t.Skip()
	}
	w := c20GetWorld()
	r := vk.Open(t, "C20", "TestC20_DepthBytesSweep", "every eligible registered type that reaches a recursive interface x nesting depth D in {limit/2, limit/2+1, limit, limit+1} (thorough: the quick value-sweep depths +-1) x every mutation operator applied after descending 0, D and 2D length-delimited levels along the heaviest field, on the plain encoding and on the Any envelope; "+c20BytRule)
	defer r.Close()
	r.ReplayAs = "TestC20_Bytes"
	depths := []int{c20MaxAnyDepth / 2, c20MaxAnyDepth/2 + 1, c20MaxAnyDepth, c20MaxAnyDepth + 1}
	if r.Thorough() {
		depths = []int{c20MaxAnyDepth/2 - 1, c20MaxAnyDepth / 2, c20MaxAnyDepth/2 + 1, c20MaxAnyDepth/2 + 2, c20MaxAnyDepth - 1, c20MaxAnyDepth, c20MaxAnyDepth + 1, c20MaxAnyDepth + 2}
	}
	rng := c20Rng(r.Seed*7927 + 5)
	roots := c20DeepByteRoots(w)
	for _, ty := range roots {
		for _, depth := range depths {
			tape := rng.tape(16 + depth)
			for op := 0; op < c20NumOps; op++ {
				for lvl := 0; lvl < 3; lvl++ {
					m := c20Mut{Op: op, A: int(rng.next() % 1024), B: int(rng.next() % 256), Heavy: lvl * depth}
					mode := "mut"
					if (op+lvl+depth)%4 == 0 {
						mode = "any"
					}
					c := c20BytCase{T: ty.Key, Tape: tape, Deep: depth, Mode: mode, Any: op, Muts: []c20Mut{m}}
					if r.Do(c, func(ctx *vk.Ctx) error { return c20Trim(c20ExecBytes(ctx, c)) }) != nil {
						return
					}
				}
			}
			// and the undamaged encodings
			for _, mode := range []string{"mut", "any"} {
				c := c20BytCase{T: ty.Key, Tape: tape, Deep: depth, Mode: mode}
				if r.Do(c, func(ctx *vk.Ctx) error { return c20Trim(c20ExecBytes(ctx, c)) }) != nil {
					return
				}
			}
		}
	}
	r.Extra("types_swept", len(roots))
	r.Extra("depths", depths)
}

// ---------------------------------------------------------------------------
// divergences at the nesting limit found on the unchanged tree

// c20TopAnyReflectOnly (a class, not a finding): when the concrete type in the
// outermost envelope has no generated code, Codec.UnmarshalAny falls back to
// decodeReflectBinaryInterface(..., anyDepth 0) and so does not count the
// outermost envelope, while UnmarshalReflect / Unmarshal into an interface
// variable (decodeReflectBinary passes anyDepth+1) and UnmarshalAny's own
// fast path for generated types (UnmarshalBinary2(cdc, value, 1)) do. An
// envelope of a reflect-only type around a value nesting exactly maxAnyDepth
// interfaces is therefore accepted by UnmarshalAny and rejected by
// UnmarshalReflect. Both are the reflection decoder (no generated decoder is
// involved), so the property's generated-vs-reflection clause does not speak
// about it; the check tolerates exactly this case and counts it.
const c20TopAnyReflectOnly = "top-any-of-reflect-only-type-accepts-limit+1"

// c20IsReflectOnly: iv (an interface value) holds a registered type without
// generated code.
func c20IsReflectOnly(w *c20World, iv reflect.Value) bool {
	if iv.Kind() != reflect.Interface || iv.IsNil() {
		return false
	}
	rt := iv.Elem().Type()
	if rt.Kind() == reflect.Pointer {
		rt = rt.Elem()
	}
	t := w.byRT[rt]
	return t != nil && !t.Gen2
}

// c20KnownEmptyIfaceAtLimit: an interface field / element that is present
// with an empty payload (an explicitly encoded nil interface) at nesting level
// maxAnyDepth+1 is rejected by the reflection decoder, which checks the depth
// before looking at the payload (decodeReflectBinaryInterface), and accepted
// by the generated decoders, which skip UnmarshalAnyBinary2 (and its depth
// check) when the payload is empty (pb3_gen.go: `if len(fbz) > 0 {`).
const c20KnownEmptyIfaceAtLimit = "reflect-rejects-empty-interface-payload-just-beyond-any-depth-limit"

// c20IfaceDepth measures the deepest nesting of non-nil interface values in a
// decoded value (amino-visible fields only).
func c20IfaceDepth(w *c20World, rv reflect.Value) int {
	switch rv.Kind() {
	case reflect.Interface:
		if rv.IsNil() {
			return 0
		}
		return 1 + c20IfaceDepth(w, rv.Elem())
	case reflect.Pointer:
		if rv.IsNil() {
			return 0
		}
		return c20IfaceDepth(w, rv.Elem())
	case reflect.Slice, reflect.Array:
		if rv.Type().Elem().Kind() == reflect.Uint8 {
			return 0
		}
		m := 0
		for i := 0; i < rv.Len(); i++ {
			m = max(m, c20IfaceDepth(w, rv.Index(i)))
		}
		return m
	case reflect.Struct:
		if rv.Type() == c20MapListT {
			m := 0
			ml := rv.Interface().(gnolang.MapList)
			for it := ml.Head; it != nil; it = it.Next {
				m = max(m, c20IfaceDepth(w, reflect.ValueOf(&it.Key).Elem()), c20IfaceDepth(w, reflect.ValueOf(&it.Value).Elem()))
			}
			return m
		}
		info, err := w.cdc.GetTypeInfo(rv.Type())
		if err != nil || info.IsAminoMarshaler {
			return 0
		}
		m := 0
		for _, f := range info.Fields {
			m = max(m, c20IfaceDepth(w, rv.Field(f.Index)))
		}
		return m
	}
	return 0
}

// c20EmptyPayloadDepth: the deepest wire nesting (0 = top level) at which bz
// has a length-delimited field with an empty payload, -1 if none.
func c20EmptyPayloadDepth(bz []byte) int {
	best := -1
	fs, _ := c20Parse(bz)
	for _, f := range fs {
		if f.typ != 2 {
			continue
		}
		if f.ve == f.ps {
			best = max(best, 0)
		} else if d := c20EmptyPayloadDepth(bz[f.ps:f.ve]); d >= 0 {
			best = max(best, d+1)
		}
	}
	return best
}

// c20IsEmptyIfaceAtLimit: the input carries an empty length-delimited payload
// at least maxAnyDepth interface levels down (two wire levels per interface
// level: the field holding the envelope, and the envelope's value), and the
// value the generated decoder built from it nests exactly maxAnyDepth
// interfaces, i.e. the empty one would have been level maxAnyDepth+1.
func c20IsEmptyIfaceAtLimit(w *c20World, in []byte, gen reflect.Value) bool {
	return c20EmptyPayloadDepth(in) >= 2*c20MaxAnyDepth && c20IfaceDepth(w, gen) == c20MaxAnyDepth
}
