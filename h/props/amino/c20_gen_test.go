package amino

// E6 — reflective amino value generator. A value of any registered type is
// built deterministically from a byte tape (drawn by rapid, or derived by an
// enumerator): every decision (nil/non-nil, lengths, which implementer, which
// edge value) consumes tape bytes; an exhausted tape yields zero decisions, so
// shorter / smaller tapes give structurally simpler values (shrinks well).
//
// Domain rules (preconditions of the codec, taken from binary_encode.go docs):
//   - interface fields hold nil or a *registered* implementer in the form the
//     registration prefers (pointer iff PointerPreferred); never a nil pointer;
//   - struct-pointer elements of lists are non-nil unless the field carries
//     amino:"nil_elements";
//   - unexported and json:"-" fields stay zero;
//   - time.Time in [0001-01-01, 9999-12-31], any time.Duration;
//   - strings are valid UTF-8 (JSON round trip requires it);
//   - AminoMarshaler types (Coin, Coins, Address, NetAddress, Param, Balance,
//     ValueHash, PkgID, ObjectID, BigintValue, BigdecValue, MapList) get
//     values from their own documented domain (valid denoms, positive
//     amounts, bech32-able addresses, literal IPs, ...), because their repr is
//     produced/parsed by domain code, not by the codec;
//   - depth and total node count are bounded.

import (
	"fmt"
	"math"
	"math/big"
	"net"
	"reflect"
	"sort"
	"strings"
	"sync"
	"time"

	"github.com/gnolang/gno/gno.land/pkg/gnoland"
	"github.com/gnolang/gno/gnovm/pkg/gnolang"
	"github.com/gnolang/gno/tm2/pkg/amino"
	"github.com/gnolang/gno/tm2/pkg/crypto"
	p2ptypes "github.com/gnolang/gno/tm2/pkg/p2p/types"
	"github.com/gnolang/gno/tm2/pkg/sdk/params"
	"github.com/gnolang/gno/tm2/pkg/std"
)

const c20RepoPrefix = "github.com/gnolang/gno/"

type c20Type struct {
	Key     string // pkgpath (without repo prefix) + "." + name
	RT      reflect.Type
	Info    *amino.TypeInfo
	PtrPref bool
	Gen2    bool // has native genproto2 methods
	NetAddr bool // reaches p2p NetAddress (its UnmarshalAmino may do DNS lookups on mutated input)
}

type c20World struct {
	cdc    *amino.Codec
	types  []*c20Type
	byKey  map[string]*c20Type
	byRT   map[reflect.Type]*c20Type
	impls  map[reflect.Type][]*c20Type // interface type -> usable implementers (sorted by key)
	// ptrOnly: registered by value although only *T implements the interface
	// (the GnoVM AST nodes): such values can be encoded, but the decoders hand
	// back a T, which is not assignable, so they can never be decoded.
	ptrOnly map[reflect.Type][]*c20Type
	ifaces []reflect.Type              // interface types reachable from registered types (sorted)
}

var (
	c20Once sync.Once
	c20W    *c20World
)

var (
	c20TimeT     = reflect.TypeFor[time.Time]()
	c20DurT      = reflect.TypeFor[time.Duration]()
	c20CoinT     = reflect.TypeFor[std.Coin]()
	c20CoinsT    = reflect.TypeFor[std.Coins]()
	c20AddrT     = reflect.TypeFor[crypto.Address]()
	c20NetAddrT  = reflect.TypeFor[p2ptypes.NetAddress]()
	c20ParamT    = reflect.TypeFor[params.Param]()
	c20BalanceT  = reflect.TypeFor[gnoland.Balance]()
	c20VHashT    = reflect.TypeFor[gnolang.ValueHash]()
	c20PkgIDT    = reflect.TypeFor[gnolang.PkgID]()
	c20ObjectIDT = reflect.TypeFor[gnolang.ObjectID]()
	c20BigintT   = reflect.TypeFor[gnolang.BigintValue]()
	c20BigdecT   = reflect.TypeFor[gnolang.BigdecValue]()
	c20MapListT  = reflect.TypeFor[gnolang.MapList]()
)

func c20Key(rt reflect.Type) string {
	return strings.TrimPrefix(rt.PkgPath(), c20RepoPrefix) + "." + rt.Name()
}

func c20GetWorld() *c20World {
	c20Once.Do(func() {
		w := &c20World{byKey: map[string]*c20Type{}, byRT: map[reflect.Type]*c20Type{}, impls: map[reflect.Type][]*c20Type{}, ptrOnly: map[reflect.Type][]*c20Type{}}
		w.cdc = amino.NewCodec()
		for _, p := range c20Packages {
			w.cdc.RegisterPackage(p)
		}
		w.cdc.Seal()
		for _, p := range c20Packages {
			for _, ty := range p.Types {
				info, err := w.cdc.GetTypeInfo(ty.Type)
				if err != nil {
					panic(err)
				}
				t := &c20Type{Key: c20Key(ty.Type), RT: ty.Type, Info: info, PtrPref: ty.PointerPreferred, Gen2: amino.HasNativeGenproto2(ty.Type)}
				if _, dup := w.byKey[t.Key]; dup {
					panic("duplicate type key " + t.Key)
				}
				w.byKey[t.Key] = t
				w.byRT[t.RT] = t
				w.types = append(w.types, t)
			}
		}
		sort.Slice(w.types, func(i, j int) bool { return w.types[i].Key < w.types[j].Key })
		// reachable interface types and NetAddress reachability
		ifset := map[reflect.Type]bool{}
		var walk func(rt reflect.Type, seen map[reflect.Type]bool) bool
		walk = func(rt reflect.Type, seen map[reflect.Type]bool) (net bool) {
			if rt == c20NetAddrT {
				return true
			}
			if seen[rt] {
				return false
			}
			seen[rt] = true
			switch rt.Kind() {
			case reflect.Pointer, reflect.Slice, reflect.Array:
				return walk(rt.Elem(), seen)
			case reflect.Interface:
				ifset[rt] = true
			case reflect.Struct:
				info, err := w.cdc.GetTypeInfo(rt)
				if err != nil || info.IsAminoMarshaler {
					return false
				}
				for _, f := range info.Fields {
					if walk(f.Type, seen) {
						net = true
					}
				}
			}
			return net
		}
		for _, t := range w.types {
			t.NetAddr = walk(t.RT, map[reflect.Type]bool{})
		}
		for it := range ifset {
			w.ifaces = append(w.ifaces, it)
		}
		sort.Slice(w.ifaces, func(i, j int) bool { return w.ifaces[i].String() < w.ifaces[j].String() })
		for _, it := range w.ifaces {
			for _, t := range w.types {
				form := t.RT
				if t.PtrPref {
					form = reflect.PointerTo(t.RT)
				}
				// the decoder hands back exactly this form; it must be assignable.
				if form.Implements(it) {
					w.impls[it] = append(w.impls[it], t)
				} else if !t.PtrPref && reflect.PointerTo(t.RT).Implements(it) {
					w.ptrOnly[it] = append(w.ptrOnly[it], t)
				}
			}
		}
		c20W = w
	})
	return c20W
}

// ---------------------------------------------------------------------------

type c20Gen struct {
	w     *c20World
	tape  []byte
	pos   int
	nodes int
	// observations for the non-trivial rule
	ifaceNonNil    bool
	nestedRepeated bool
	encodeOnly     bool // holds a pointer-only implementer: encodable, not decodable
	// interface (Any) nesting: current level while filling, and the deepest
	// level reached by any non-nil interface of the value (see c20_deep_test.go)
	ifLevel, maxIface int
}

// enterIface / leaveIface bracket the filling of a non-nil interface value.
func (g *c20Gen) enterIface() {
	g.ifLevel++
	if g.ifLevel > g.maxIface {
		g.maxIface = g.ifLevel
	}
}

func (g *c20Gen) leaveIface() { g.ifLevel-- }

const (
	c20MaxDepth = 5
	c20MaxNodes = 400
)

func (g *c20Gen) b() byte {
	if g.pos >= len(g.tape) {
		return 0
	}
	v := g.tape[g.pos]
	g.pos++
	return v
}

func (g *c20Gen) n(k int) int { // in [0,k)
	if k <= 1 {
		return 0
	}
	if k <= 256 {
		return int(g.b()) % k
	}
	return (int(g.b())<<8 | int(g.b())) % k
}

func (g *c20Gen) u64() uint64 {
	switch g.n(10) {
	case 0:
		return 0
	case 1:
		return 1
	case 2:
		return uint64(g.b())
	case 3:
		return 127 + uint64(g.n(3)) // varint length boundary
	case 4:
		return 1<<14 - 1 + uint64(g.n(3))
	case 5:
		return math.MaxUint32 - 1 + uint64(g.n(3))
	case 6:
		return math.MaxInt64 - 1 + uint64(g.n(3))
	case 7:
		return math.MaxUint64 - uint64(g.n(2))
	case 8:
		return uint64(g.b())<<8 | uint64(g.b())
	default:
		var v uint64
		for i := 0; i < 8; i++ {
			v = v<<8 | uint64(g.b())
		}
		return v
	}
}

func (g *c20Gen) i64() int64 {
	switch g.n(8) {
	case 0:
		return 0
	case 1:
		return -1
	case 2:
		return math.MinInt64 + int64(g.n(2))
	case 3:
		return math.MaxInt64 - int64(g.n(2))
	case 4:
		return int64(g.b()) - 128
	case 5:
		return math.MinInt32 - 1 + int64(g.n(3))
	default:
		return int64(g.u64())
	}
}

var c20Words = []string{"", "a", "gno.land/r/demo/users", "ugnot", "héllo wörld ✓", "x\x00y", "\"quoted\"\n", "0", "main.gno", strings.Repeat("z", 130), strings.Repeat("package main\n", 20)}

func (g *c20Gen) str() string {
	k := g.n(len(c20Words) + 3)
	if k < len(c20Words) {
		return c20Words[k]
	}
	n := g.n(12)
	var sb strings.Builder
	for i := 0; i < n; i++ {
		sb.WriteByte("abcXYZ019_-/.: "[g.n(15)])
	}
	return sb.String()
}

func (g *c20Gen) bytesN(n int) []byte {
	out := make([]byte, n)
	for i := range out {
		out[i] = g.b()
	}
	return out
}

var c20Denoms = []string{"/gno.land/r/demo/foo:bar", "atom", "foo", "ugnot"} // ascending

func (g *c20Gen) coin() std.Coin {
	if g.n(6) == 0 {
		return std.Coin{}
	}
	amt := []int64{1, 2, 1000, 1 << 40, math.MaxInt64, 77}[g.n(6)]
	return std.Coin{Denom: c20Denoms[g.n(len(c20Denoms))], Amount: amt}
}

func (g *c20Gen) coins() std.Coins {
	mask := g.n(16)
	if mask == 0 {
		if g.n(2) == 0 {
			return nil
		}
		return std.Coins{}
	}
	var out std.Coins
	for i, d := range c20Denoms {
		if mask&(1<<i) != 0 {
			out = append(out, std.Coin{Denom: d, Amount: []int64{1, 5, 1 << 33, math.MaxInt64}[g.n(4)]})
		}
	}
	return out
}

func (g *c20Gen) address() crypto.Address {
	var a crypto.Address
	switch g.n(4) {
	case 0: // zero
	case 1:
		for i := range a {
			a[i] = 0xFF
		}
	default:
		copy(a[:], g.bytesN(len(a)))
	}
	return a
}

func (g *c20Gen) hashlet() gnolang.Hashlet {
	var h gnolang.Hashlet
	if g.n(3) != 0 {
		copy(h[:], g.bytesN(len(h)))
	}
	return h
}

// custom fills rv (addressable, non-pointer) when its type needs a domain
// generator; reports whether it did.
func (g *c20Gen) custom(rv reflect.Value, depth int) bool {
	switch rv.Type() {
	case c20TimeT:
		var t time.Time
		switch g.n(6) {
		case 0: // Go zero time (year 1) – encodes as a negative second count
		case 1:
			t = time.Unix(0, 0).UTC() // amino's "empty" time
		case 2:
			t = time.Unix(253402300799, 999999999).UTC() // last valid instant
		case 3:
			t = time.Unix(-62135596800, 1).UTC()
		default:
			sec := int64(g.u64()%(253402300800+62135596800)) - 62135596800
			t = time.Unix(sec, int64(g.u64()%1e9)).UTC()
		}
		rv.Set(reflect.ValueOf(t))
	case c20DurT:
		rv.SetInt(g.i64())
	case c20CoinT:
		rv.Set(reflect.ValueOf(g.coin()))
	case c20CoinsT:
		rv.Set(reflect.ValueOf(g.coins()))
	case c20AddrT:
		rv.Set(reflect.ValueOf(g.address()))
	case c20NetAddrT:
		var ip net.IP
		switch g.n(3) {
		case 0:
			ip = net.ParseIP(fmt.Sprintf("10.%d.%d.%d", g.b(), g.b(), g.b()))
		case 1:
			ip = net.ParseIP("127.0.0.1")
		default:
			ip = net.ParseIP(fmt.Sprintf("2001:db8::%x", 1+g.n(65000)))
		}
		a := g.address()
		rv.Set(reflect.ValueOf(p2ptypes.NetAddress{ID: a.ID(), IP: ip, Port: uint16(g.u64())}))
	case c20ParamT:
		key := []string{"k", "vm.p.sysnames_pkgpath", "a.b", "bank:p:restricted_denoms"}[g.n(4)]
		var p params.Param
		switch g.n(6) {
		case 0:
			p = params.NewParam(key, []string{"v", "gno.land/r/sys/names", "a b", ""}[g.n(4)])
		case 1:
			p = params.NewParam(key, g.i64())
		case 2:
			p = params.NewParam(key, g.u64())
		case 3:
			p = params.NewParam(key, g.n(2) == 1)
		case 4:
			p = params.NewParam(key, g.bytesN(g.n(5)))
		default:
			ss := []string{"x"}
			for i := g.n(3); i > 0; i-- {
				ss = append(ss, []string{"ugnot", "y z", "q"}[g.n(3)])
			}
			p = params.NewParam(key, ss)
		}
		rv.Set(reflect.ValueOf(p))
	case c20BalanceT:
		b := gnoland.Balance{Address: g.address(), Amount: g.coins()}
		if g.n(3) == 0 {
			vs := &std.VestingSchedule{OriginalVesting: g.coins(), StartTime: int64(g.n(1000)), EndTime: 1000 + int64(g.n(1000))}
			if len(vs.OriginalVesting) == 0 {
				vs.OriginalVesting = std.Coins{{Denom: "ugnot", Amount: 3}}
			}
			if g.n(2) == 0 {
				vs.Type = std.VestingDelayed
			}
			b.Vesting = vs
		}
		rv.Set(reflect.ValueOf(b))
	case c20VHashT:
		rv.Set(reflect.ValueOf(gnolang.ValueHash{Hashlet: g.hashlet()}))
	case c20PkgIDT:
		rv.Set(reflect.ValueOf(gnolang.PkgID{Hashlet: g.hashlet()}))
	case c20ObjectIDT:
		rv.Set(reflect.ValueOf(gnolang.ObjectID{PkgID: gnolang.PkgID{Hashlet: g.hashlet()}, NewTime: g.u64()}))
	case c20BigintT:
		v := new(big.Int).SetInt64(g.i64())
		if g.n(3) == 0 {
			v.Lsh(v, uint(g.n(200)))
		}
		rv.Set(reflect.ValueOf(gnolang.BigintValue{V: v}))
	case c20BigdecT:
		var bd gnolang.BigdecValue
		switch g.n(4) {
		case 0:
			bd.V = new(big.Rat)
		case 1:
			f := new(big.Float).SetPrec(gnolang.BigdecFloatPrec).SetInt64(g.i64())
			f.Quo(f, new(big.Float).SetPrec(gnolang.BigdecFloatPrec).SetInt64(3))
			bd.F = f
		default:
			den := g.i64()
			if den == 0 {
				den = 7
			}
			bd.V = big.NewRat(g.i64(), den)
		}
		rv.Set(reflect.ValueOf(bd))
	case c20MapListT:
		var ml gnolang.MapList
		n := 0
		if depth < c20MaxDepth {
			n = g.n(3)
		}
		for i := 0; i < n; i++ {
			it := &gnolang.MapListItem{}
			g.fill(reflect.ValueOf(&it.Key).Elem(), depth+1, amino.FieldOptions{})
			g.fill(reflect.ValueOf(&it.Value).Elem(), depth+1, amino.FieldOptions{})
			if ml.Head == nil {
				ml.Head, ml.Tail, ml.Size = it, it, 1
			} else {
				it.Prev = ml.Tail
				ml.Tail.Next = it
				ml.Tail = it
				ml.Size++
			}
		}
		rv.Set(reflect.ValueOf(ml))
	default:
		return false
	}
	return true
}

// fill sets rv (addressable) to a generated value.
func (g *c20Gen) fill(rv reflect.Value, depth int, fopts amino.FieldOptions) {
	g.nodes++
	rt := rv.Type()
	if rt.Kind() != reflect.Pointer && g.custom(rv, depth) {
		return
	}
	exhausted := depth >= c20MaxDepth || g.nodes > c20MaxNodes
	switch rt.Kind() {
	case reflect.Bool:
		rv.SetBool(g.n(2) == 1)
	case reflect.Int, reflect.Int64:
		rv.SetInt(g.i64())
	case reflect.Int32:
		rv.SetInt(int64(int32(g.i64())))
	case reflect.Int16:
		rv.SetInt(int64(int16(g.i64())))
	case reflect.Int8:
		rv.SetInt(int64(int8(g.i64())))
	case reflect.Uint, reflect.Uint64:
		rv.SetUint(g.u64())
	case reflect.Uint32:
		rv.SetUint(uint64(uint32(g.u64())))
	case reflect.Uint16:
		rv.SetUint(uint64(uint16(g.u64())))
	case reflect.Uint8:
		rv.SetUint(uint64(g.b()))
	case reflect.Float64, reflect.Float32:
		if fopts.Unsafe {
			rv.SetFloat(float64(g.i64()) / 8)
		}
	case reflect.String:
		rv.SetString(g.str())
	case reflect.Pointer:
		if rt.Elem().Kind() == reflect.Pointer {
			return // nested pointers are not supported by amino
		}
		if exhausted || g.n(4) == 0 {
			return // nil
		}
		p := reflect.New(rt.Elem())
		g.fill(p.Elem(), depth, fopts)
		rv.Set(p)
	case reflect.Interface:
		impls, ponly := g.w.impls[rt], g.w.ptrOnly[rt]
		if exhausted || len(impls)+len(ponly) == 0 || g.n(5) == 0 {
			return // nil interface
		}
		if len(ponly) > 0 && (len(impls) == 0 || g.n(4) == 0) {
			t := ponly[g.n(len(ponly))]
			p := reflect.New(t.RT)
			g.enterIface()
			g.fill(p.Elem(), depth, amino.FieldOptions{})
			g.leaveIface()
			rv.Set(p)
			g.ifaceNonNil, g.encodeOnly = true, true
			return
		}
		t := impls[g.n(len(impls))]
		p := reflect.New(t.RT)
		g.enterIface()
		g.fill(p.Elem(), depth, amino.FieldOptions{})
		g.leaveIface()
		if t.PtrPref {
			rv.Set(p)
		} else {
			rv.Set(p.Elem())
		}
		g.ifaceNonNil = true
	case reflect.Array:
		if rt.Elem().Kind() == reflect.Uint8 {
			if g.n(4) != 0 {
				reflect.Copy(rv, reflect.ValueOf(g.bytesN(rt.Len())))
			}
			return
		}
		for i := 0; i < rt.Len(); i++ {
			g.fillElem(rv.Index(i), depth, fopts)
		}
	case reflect.Slice:
		if rt.Elem().Kind() == reflect.Uint8 {
			switch g.n(5) {
			case 0: // nil
			case 1:
				rv.Set(reflect.MakeSlice(rt, 0, 0))
			default:
				rv.SetBytes(g.bytesN(1 + g.n(9)))
			}
			return
		}
		n := 0
		if !exhausted {
			n = g.n(4)
		}
		if n == 0 {
			if g.n(2) == 1 {
				rv.Set(reflect.MakeSlice(rt, 0, 0))
			}
			return
		}
		s := reflect.MakeSlice(rt, n, n)
		for i := 0; i < n; i++ {
			g.fillElem(s.Index(i), depth, fopts)
		}
		rv.Set(s)
		if depth > 0 {
			g.nestedRepeated = true
		}
	case reflect.Struct:
		info, err := g.w.cdc.GetTypeInfo(rt)
		if err != nil {
			panic(err)
		}
		if info.IsAminoMarshaler {
			panic(fmt.Sprintf("c20: AminoMarshaler %v has no domain generator", rt))
		}
		for _, f := range info.Fields {
			g.fill(rv.Field(f.Index), depth+1, f.FieldOptions)
		}
	default:
		panic(fmt.Sprintf("c20: unsupported kind %v (%v)", rt.Kind(), rt))
	}
}

// fillElem fills a list element: struct-pointer elements must be non-nil
// unless nil_elements is set on the field.
func (g *c20Gen) fillElem(ev reflect.Value, depth int, fopts amino.FieldOptions) {
	et := ev.Type()
	if et.Kind() == reflect.Pointer {
		if et.Elem().Kind() == reflect.Pointer {
			return
		}
		if fopts.NilElements && g.n(3) == 0 {
			return // nil element, allowed by the tag
		}
		isStruct := et.Elem().Kind() == reflect.Struct && et.Elem() != c20TimeT
		if !isStruct && !fopts.NilElements && g.n(4) == 0 {
			return // nil pointer to non-struct: encoded as the zero value
		}
		p := reflect.New(et.Elem())
		g.fill(p.Elem(), depth, fopts)
		ev.Set(p)
		return
	}
	g.fill(ev, depth, fopts)
}

// c20Build makes a *T for the given registered type from the tape.
func c20Build(w *c20World, t *c20Type, tape []byte) (ptr reflect.Value, g *c20Gen) {
	return c20BuildDeep(w, t, tape, 0)
}

// c20BuildDeep is c20Build with a forced spine of `deep` nested non-nil
// interface values (deep == 0: the plain E6 value). Types that cannot host
// such a spine (no recursive interface reachable) get the plain value.
func c20BuildDeep(w *c20World, t *c20Type, tape []byte, deep int) (ptr reflect.Value, g *c20Gen) {
	g = &c20Gen{w: w, tape: tape}
	ptr = reflect.New(t.RT)
	if deep > 0 && c20GetDeep(w).reach[t.RT] {
		g.fillSpine(ptr.Elem(), deep, amino.FieldOptions{})
	} else {
		g.fill(ptr.Elem(), 0, amino.FieldOptions{})
	}
	return ptr, g
}
