package amino

import (
	"bytes"
	"fmt"
	"os"
	"reflect"
	"runtime/debug"
	"sort"
	"strings"
	"testing"

	"github.com/gnolang/gno/tm2/pkg/amino"
	"pgregory.net/rapid"
	"verif/vk"
)

// C20 — amino: reflect codec ≡ genproto2 fast path, round trips, bad input is
// rejected safely and consistently.

// ---------------------------------------------------------------------------
// shared helpers

// c20Safe runs f and converts a panic into an error string.
func c20Safe(f func() error) (err error, panicked string) {
	defer func() {
		if p := recover(); p != nil {
			panicked = fmt.Sprintf("%v\n%s", p, debug.Stack())
		}
	}()
	return f(), ""
}

// c20Trim shortens the text of a violation (deeply nested inputs are several
// KB of hex, amino wraps its error once per level); the case itself is in the
// replay file.
func c20Trim(err error) error {
	if err == nil {
		return nil
	}
	m := err.Error()
	if len(m) <= 1800 {
		return err
	}
	return fmt.Errorf("%s ...[%d bytes cut]... %s", m[:1000], len(m)-1600, m[len(m)-600:])
}

// c20Short renders a decoder error in at most ~360 characters (amino repeats
// the input in its messages).
func c20Short(err error) string {
	if err == nil {
		return "<nil>"
	}
	m := err.Error()
	if len(m) > 360 {
		m = m[:240] + " ... " + m[len(m)-100:]
	}
	return m
}

type c20Codec struct {
	w *c20World
	t *c20Type
}

func (c c20Codec) encReflect(ptr reflect.Value) ([]byte, error) {
	return c.w.cdc.MarshalReflect(ptr.Interface())
}

func (c c20Codec) encGen(ptr reflect.Value) ([]byte, error) {
	return c.w.cdc.MarshalBinary2(ptr.Interface().(amino.PBMarshaler2))
}

func (c c20Codec) decReflect(bz []byte) (reflect.Value, error) {
	p := reflect.New(c.t.RT)
	return p, c.w.cdc.UnmarshalReflect(bz, p.Interface())
}

func (c c20Codec) decGen(bz []byte) (reflect.Value, error) {
	p := reflect.New(c.t.RT)
	return p, p.Interface().(amino.PBMessager2).UnmarshalBinary2(c.w.cdc, bz, 0)
}

// c20AnyEnvelope builds google.protobuf.Any{type_url, value} by hand: field 1
// (bytes) the URL, field 2 (bytes) the value, omitted when the value is empty.
func c20AnyEnvelope(url string, value []byte) []byte {
	out := c20Cat([]byte{1<<3 | 2}, c20Uvarint(uint64(len(url))), []byte(url))
	if len(value) > 0 {
		out = c20Cat(out, []byte{2<<3 | 2}, c20Uvarint(uint64(len(value))), value)
	}
	return out
}

func c20TypeByKey(w *c20World, key string) (*c20Type, error) {
	t := w.byKey[key]
	if t == nil {
		return nil, fmt.Errorf("unknown type key %q (case from another tree?)", key)
	}
	return t, nil
}

// ---------------------------------------------------------------------------
// value level

type c20ValCase struct {
	T    string `json:"t"`
	Tape []byte `json:"tape"`
	// Deep > 0: the value has a forced spine of Deep nested non-nil interface
	// values (c20_deep_test.go); T then is a type reaching a recursive interface.
	Deep int `json:"deep,omitempty"`
}

func c20ExecValue(ctx *vk.Ctx, c c20ValCase) error {
	w := c20GetWorld()
	t, err := c20TypeByKey(w, c.T)
	if err != nil {
		return err
	}
	ptr, g := c20BuildDeep(w, t, c.Tape, c.Deep)
	cd := c20Codec{w, t}
	lenient := &c20Cmp{w: w}
	strict := &c20Cmp{w: w, strict: true}
	lvl := g.maxIface // deepest interface (Any) nesting of the value
	ctx.ClassIf(c.Deep > 0, "deep-spine")
	if dc := c20DepthClass(lvl); dc != "" {
		ctx.Class(dc)
	}
	ctx.NTIf(g.ifaceNonNil || g.nestedRepeated)
	ctx.ClassIf(g.ifaceNonNil, "iface-nonnil")
	ctx.ClassIf(g.nestedRepeated, "nested-repeated")
	ctx.ClassIf(!t.Gen2, "reflect-only-type")
	ctx.ClassIf(g.nodes > c20MaxNodes, "node-budget-hit")

	// (1) encoders
	bzR, errR := cd.encReflect(ptr)
	if !t.Gen2 {
		if errR != nil {
			ctx.Class("encode-rejected")
			return nil
		}
	} else {
		bzG, errG := cd.encGen(ptr)
		if (errR != nil) != (errG != nil) {
			return fmt.Errorf("%s: encoders disagree on acceptance: reflect err=%v, genproto2 err=%v", c.T, errR, errG)
		}
		if errR != nil {
			ctx.Class("encode-rejected")
			return nil
		}
		if !bytes.Equal(bzR, bzG) {
			return fmt.Errorf("%s: MarshalReflect != MarshalBinary2\n reflect   %x\n genproto2 %x\n value %+v", c.T, bzR, bzG, ptr.Elem().Interface())
		}
		sz, err := ptr.Interface().(amino.PBMarshaler2).SizeBinary2(w.cdc)
		if err != nil {
			return fmt.Errorf("%s: SizeBinary2: %v", c.T, err)
		}
		if sz != len(bzG) {
			return fmt.Errorf("%s: SizeBinary2 = %d, encoded length = %d", c.T, sz, len(bzG))
		}
		// the public entry point must take the same bytes
		bzM, err := w.cdc.Marshal(ptr.Interface())
		if err != nil || !bytes.Equal(bzM, bzR) {
			return fmt.Errorf("%s: Codec.Marshal = %x (err %v), MarshalReflect = %x", c.T, bzM, err, bzR)
		}
	}
	ctx.ClassIf(len(bzR) == 0, "empty-encoding")
	v, f8, bt, f4 := c20WireClasses(bzR)
	ctx.ClassIf(v, "wt-varint")
	ctx.ClassIf(f8, "wt-8byte")
	ctx.ClassIf(bt, "wt-bytes")
	ctx.ClassIf(f4, "wt-4byte")

	if g.encodeOnly {
		// The value holds an implementer that is registered by value although
		// only its pointer implements the interface (GnoVM AST nodes): it can
		// be encoded but, by registration, never decoded. Only the encoder
		// clauses above apply; the decoders must still agree with each other.
		ctx.Class("encode-only-value")
		_, e1 := cd.decReflect(bzR)
		if t.Gen2 {
			_, e2 := cd.decGen(bzR)
			if (e1 == nil) != (e2 == nil) {
				return fmt.Errorf("%s: decoders disagree on the encoding %x of an encode-only value: reflect err=%v ; genproto2 err=%v", c.T, bzR, e1, e2)
			}
		}
		return nil
	}

	if lvl > c20MaxAnyDepth {
		// Nested deeper than the decoders' documented limit: the round-trip
		// clauses do not apply, but the encoding is a byte string like any
		// other: both decoders accept it with equal values or both reject it.
		d1, e1 := cd.decReflect(bzR)
		if t.Gen2 {
			d2, e2 := cd.decGen(bzR)
			if (e1 == nil) != (e2 == nil) {
				return fmt.Errorf("%s: decoders disagree on the encoding (%d bytes) of a value with %d nested interfaces (limit %d): reflect err=%s ; genproto2 err=%s", c.T, len(bzR), lvl, c20MaxAnyDepth, c20Short(e1), c20Short(e2))
			}
			if e1 == nil {
				if err := strict.eq(d1.Elem(), d2.Elem(), c.T); err != nil {
					return fmt.Errorf("the two decoders returned different values for a value with %d nested interfaces: %v", lvl, err)
				}
			}
		}
		if e1 == nil {
			ctx.Class("beyond-limit-accepted")
			if err := lenient.eq(ptr.Elem(), d1.Elem(), c.T); err != nil {
				return fmt.Errorf("reflect round trip changed a value with %d nested interfaces: %v", lvl, err)
			}
		} else {
			ctx.Class("beyond-limit-rejected")
			ctx.ClassIf(c20IsDepthErr(e1), "beyond-limit-rejected-with-depth-error")
		}
		return nil
	}

	// (2) decoders
	d1, err := cd.decReflect(bzR)
	if err != nil {
		return fmt.Errorf("%s: UnmarshalReflect of own encoding %x: %v", c.T, bzR, err)
	}
	if err := lenient.eq(ptr.Elem(), d1.Elem(), c.T); err != nil {
		if c20IsEpochVsZero(err) && ctx.Known(c20KnownAnyEpoch) {
			return nil
		}
		return fmt.Errorf("reflect round trip changed the value: %v (bytes %x)", err, bzR)
	}
	decoded := []reflect.Value{d1}
	if t.Gen2 {
		d2, err := cd.decGen(bzR)
		if err != nil {
			return fmt.Errorf("%s: UnmarshalBinary2 of own encoding %x: %v", c.T, bzR, err)
		}
		if err := lenient.eq(ptr.Elem(), d2.Elem(), c.T); err != nil {
			if c20IsEpochVsZero(err) && ctx.Known(c20KnownAnyEpoch) {
			return nil
		}
		return fmt.Errorf("genproto2 round trip changed the value: %v (bytes %x)", err, bzR)
		}
		if err := strict.eq(d1.Elem(), d2.Elem(), c.T); err != nil {
			return fmt.Errorf("the two decoders returned different values for %x: %v", bzR, err)
		}
		// the public entry point
		d3 := reflect.New(t.RT)
		if err := w.cdc.Unmarshal(bzR, d3.Interface()); err != nil {
			return fmt.Errorf("%s: Codec.Unmarshal of own encoding: %v", c.T, err)
		}
		if err := strict.eq(d1.Elem(), d3.Elem(), c.T); err != nil {
			return fmt.Errorf("Codec.Unmarshal differs from UnmarshalReflect: %v", err)
		}
		decoded = append(decoded, d2)
	}
	// (3) re-encode is byte-identical, whichever decoder / encoder pair
	for i, d := range decoded {
		b1, err := cd.encReflect(d)
		if err != nil || !bytes.Equal(b1, bzR) {
			return fmt.Errorf("%s: re-encode (reflect) of decoded#%d = %x (err %v), want %x", c.T, i, b1, err, bzR)
		}
		if t.Gen2 {
			b2, err := cd.encGen(d)
			if err != nil || !bytes.Equal(b2, bzR) {
				return fmt.Errorf("%s: re-encode (genproto2) of decoded#%d = %x (err %v), want %x", c.T, i, b2, err, bzR)
			}
		}
	}

	// (4) Any envelope: MarshalAny must be {type_url, value=plain encoding}
	anyBz, err := w.cdc.MarshalAny(ptr.Interface())
	if err != nil {
		return fmt.Errorf("%s: MarshalAny: %v", c.T, err)
	}
	inner := bzR
	if len(inner) == 1 && inner[0] == 0 {
		inner = nil
	}
	if want := c20AnyEnvelope(t.Info.TypeURL, inner); !bytes.Equal(anyBz, want) {
		return fmt.Errorf("%s: MarshalAny = %x, want envelope %x", c.T, anyBz, want)
	}
	var iv, iv2 any
	errA := w.cdc.UnmarshalAny(anyBz, &iv)
	errB := w.cdc.UnmarshalReflect(anyBz, &iv2)
	if lvl+1 > c20MaxAnyDepth && (errA != nil || errB != nil) {
		// The envelope adds one interface level to a value that is exactly at
		// the limit: rejecting it is within the documented behaviour, but the
		// two entry points must still agree.
		if (errA == nil) != (errB == nil) {
			if c20IsDepthErr(errB) && errA == nil && !t.Gen2 {
				// not a generated-vs-reflection divergence: see c20TopAnyReflectOnly
				ctx.Class(c20TopAnyReflectOnly)
				return nil
			}
			return fmt.Errorf("%s: Any decoders disagree on the envelope of a value with %d nested interfaces (limit %d): UnmarshalAny err=%s ; UnmarshalReflect err=%s", c.T, lvl, c20MaxAnyDepth, c20Short(errA), c20Short(errB))
		}
		ctx.Class("any-envelope-beyond-limit-rejected")
		errA, errB = nil, nil
		iv, iv2 = nil, nil
	}
	if errA != nil {
		return fmt.Errorf("%s: UnmarshalAny of own envelope: %v", c.T, errA)
	}
	if errB != nil {
		return fmt.Errorf("%s: UnmarshalReflect(Any) of own envelope: %v", c.T, errB)
	}
	for _, got := range []any{iv, iv2} {
		if got == nil {
			continue // envelope beyond the nesting limit, rejected by both (above)
		}
		gv := reflect.ValueOf(got)
		if t.PtrPref {
			if gv.Kind() != reflect.Pointer || gv.Type().Elem() != t.RT {
				return fmt.Errorf("%s: UnmarshalAny returned %T, want *%v", c.T, got, t.RT)
			}
			gv = gv.Elem()
		} else if gv.Type() != t.RT {
			return fmt.Errorf("%s: UnmarshalAny returned %T, want %v", c.T, got, t.RT)
		}
		if !gv.CanAddr() {
			cp := reflect.New(t.RT).Elem()
			cp.Set(gv)
			gv = cp
		}
		if err := lenient.eq(ptr.Elem(), gv, c.T); err != nil {
			if c20IsEpochVsZero(err) && ctx.Known(c20KnownAnyEpoch) {
			return nil
		}
		return fmt.Errorf("Any round trip changed the value: %v", err)
		}
	}

	// (5) JSON: encode -> decode -> encode is a fixed point and keeps the value
	js1, err := w.cdc.JSONMarshal(ptr.Interface())
	if err != nil {
		return fmt.Errorf("%s: JSONMarshal: %v", c.T, err)
	}
	dj := reflect.New(t.RT)
	if err := w.cdc.JSONUnmarshal(js1, dj.Interface()); err != nil {
		return fmt.Errorf("%s: JSONUnmarshal of own JSON %s: %v", c.T, js1, err)
	}
	// the first pass may normalise (empty list -> null); after that the text must be stable
	js2, err := w.cdc.JSONMarshal(dj.Interface())
	if err != nil {
		return fmt.Errorf("%s: JSONMarshal of JSON-decoded value: %v", c.T, err)
	}
	ctx.ClassIf(!bytes.Equal(js1, js2), "json-normalised-on-first-pass")
	dj2 := reflect.New(t.RT)
	if err := w.cdc.JSONUnmarshal(js2, dj2.Interface()); err != nil {
		return fmt.Errorf("%s: JSONUnmarshal of re-encoded JSON %s: %v", c.T, js2, err)
	}
	js3, err := w.cdc.JSONMarshal(dj2.Interface())
	if err != nil || !bytes.Equal(js2, js3) {
		return fmt.Errorf("%s: JSON not a fixed point:\n second %s\n third  %s (err %v)", c.T, js2, js3, err)
	}
	if err := lenient.eq(ptr.Elem(), dj.Elem(), c.T); err != nil {
		if c20IsEpochVsZero(err) && ctx.Known(c20KnownAnyEpoch) {
			return nil
		}
		return fmt.Errorf("JSON round trip changed the value: %v (json %s)", err, js1)
	}
	return nil
}

const c20ValRule = "a registered type (uniform over all 305 of tm2/gnovm/gno.land) and a byte tape from which E6 builds a value by reflection (interfaces filled with registered implementers - those registered by value whose pointer alone implements the interface, i.e. the GnoVM AST nodes, make the value encode-only: encoder clauses and decoder agreement only -, domain generators for AminoMarshaler types, depth<=5, <=400 nodes); non-trivial = the value holds a non-nil interface or a non-empty nested list; distinct by (type,tape)"

func c20DrawTape(rt *rapid.T) []byte {
	switch rapid.IntRange(0, 9).Draw(rt, "tapekind") {
	case 0:
		return rapid.SliceOfN(rapid.Byte(), 0, 16).Draw(rt, "tape")
	case 1: // dense: high bytes make most optional things present
		return rapid.SliceOfN(rapid.ByteRange(128, 255), 32, 400).Draw(rt, "tape")
	case 2: // sparse: mostly-zero values with the first non-default choice here and there
		return rapid.SliceOfN(rapid.SampledFrom([]byte{0, 0, 0, 0, 1, 1, 2, 3}), 0, 200).Draw(rt, "tape")
	default:
		return rapid.SliceOfN(rapid.Byte(), 0, 400).Draw(rt, "tape")
	}
}

func TestC20_Values(t *testing.T) {
	w := c20GetWorld()
	deep := c20GetDeep(w)
	vk.Run(t, vk.Spec[c20ValCase]{
		ID: "C20", Name: "TestC20_Values", Rule: c20ValRule,
		Draw: func(rt *rapid.T) c20ValCase {
			if rapid.IntRange(0, 31).Draw(rt, "family") == 31 { // nesting-depth family (a deep case costs ~20 plain ones)
				ty := c20DrawDeepRoot(rt, deep.roots)
				return c20ValCase{T: ty.Key, Deep: c20DrawDepth(rt), Tape: rapid.SliceOfN(rapid.Byte(), 0, 200).Draw(rt, "tape")}
			}
			ty := w.types[rapid.IntRange(0, len(w.types)-1).Draw(rt, "type")]
			return c20ValCase{T: ty.Key, Tape: c20DrawTape(rt)}
		},
		Exec: func(ctx *vk.Ctx, c c20ValCase) error {
			err := c20ExecValue(ctx, c)
			if err != nil && os.Getenv("C20_COLLECT") != "" {
				msg := err.Error()
				if len(msg) > 700 {
					msg = msg[:700]
				}
				fmt.Printf("COLLECT|%s|%s\n", c.T, strings.ReplaceAll(msg, "\n", " "))
				return nil
			}
			return c20Trim(err)
		},
	})
}

// splitmix64, for enumerator tapes (the tape itself is the recorded case).
type c20Rng uint64

func (r *c20Rng) next() uint64 {
	*r += 0x9E3779B97F4A7C15
	z := uint64(*r)
	z = (z ^ (z >> 30)) * 0xBF58476D1CE4E5B9
	z = (z ^ (z >> 27)) * 0x94D049BB133111EB
	return z ^ (z >> 31)
}

func (r *c20Rng) tape(n int) []byte {
	out := make([]byte, n)
	for i := range out {
		out[i] = byte(r.next() >> 24)
	}
	return out
}

// TestC20_Sweep visits every registered type with the same number of tapes
// (zero tape, all-ones tape, then pseudo-random ones seeded by VERIF_SEED), so
// that no type depends on the luck of the uniform draw, and records which
// types never produced a non-trivial value.
func TestC20_Sweep(t *testing.T) {
	if vk.Replaying() {
		t.Skip()
	}
	w := c20GetWorld()
	r := vk.Open(t, "C20", "TestC20_Sweep", "every registered type x k tapes (zero, 0xFF.., seeded pseudo-random of length 8..400); "+c20ValRule)
	defer r.Close()
	r.ReplayAs = "TestC20_Values"
	per := vk.Pick(r, 12, 600)
	rng := c20Rng(r.Seed*1000003 + 17)
	var noNT []string
	for _, ty := range w.types {
		nt := 0
		for k := 0; k < per; k++ {
			var tape []byte
			switch k {
			case 0:
			case 1:
				tape = bytes.Repeat([]byte{0xFF}, 300)
			case 2:
				tape = bytes.Repeat([]byte{0x01}, 300)
			default:
				tape = rng.tape(8 + int(rng.next()%393))
			}
			c := c20ValCase{T: ty.Key, Tape: tape}
			var wasNT bool
			if r.Do(c, func(ctx *vk.Ctx) error {
				_, g := c20Build(w, ty, tape)
				wasNT = g.ifaceNonNil || g.nestedRepeated
				return c20ExecValue(ctx, c)
			}) != nil {
				return
			}
			if wasNT {
				nt++
			}
		}
		if nt == 0 {
			noNT = append(noNT, ty.Key)
		}
	}
	sort.Strings(noNT)
	r.Extra("types_total", len(w.types))
	r.Extra("types_without_nontrivial_value", noNT)
	r.Extra("tapes_per_type", per)
}

// ---------------------------------------------------------------------------
// byte level

type c20BytCase struct {
	T    string   `json:"t"`
	Tape []byte   `json:"tape"`          // value whose encoding is the mutation base
	Raw  []byte   `json:"raw,omitempty"` // if Mode=="raw": the input itself
	Mode string   `json:"mode"`          // "mut" | "raw" | "any"
	Deep int      `json:"deep,omitempty"` // base value has a forced spine of Deep nested interfaces
	Any  int      `json:"any"`           // any-mode: which interface (mod count) to decode into
	Muts []c20Mut `json:"muts"`
}

func c20ExecBytes(ctx *vk.Ctx, c c20BytCase) error {
	w := c20GetWorld()
	t, err := c20TypeByKey(w, c.T)
	if err != nil {
		return err
	}
	cd := c20Codec{w, t}
	lenient := &c20Cmp{w: w}
	strict := &c20Cmp{w: w, strict: true}
	ctx.Class("mode=" + c.Mode)

	var in []byte
	var valid []byte
	if c.Mode == "raw" {
		in = c.Raw
	} else {
		ptr, g := c20BuildDeep(w, t, c.Tape, c.Deep)
		ctx.ClassIf(c.Deep > 0, "deep-spine")
		if dc := c20DepthClass(g.maxIface); dc != "" {
			ctx.Class("base-" + dc)
		}
		if c.Mode == "any" {
			valid, err = w.cdc.MarshalAny(ptr.Interface())
		} else {
			valid, err = cd.encReflect(ptr)
		}
		if err != nil {
			ctx.Class("encode-rejected")
			return nil
		}
		in = valid
		for _, m := range c.Muts {
			in = c20Mutate(in, m, 0)
			ctx.Class("op=" + c20OpNames[c20Abs(m.Op)%c20NumOps])
			ctx.ClassIf(m.Heavy > 0, "mut-deep-in-nest")
		}
	}
	ctx.ClassIf(valid != nil && bytes.Equal(in, valid), "mutation-was-identity")
	ctx.Note("input", fmt.Sprintf("%x", in))

	if c.Mode == "any" {
		return c20ExecAnyBytes(ctx, w, t, c, in)
	}

	// both decoders on the same bytes, fresh receivers
	var d1, d2 reflect.Value
	err1, p1 := c20Safe(func() (e error) { d1, e = cd.decReflect(in); return })
	if p1 != "" {
		if c20IsHexOverflow(p1) && ctx.Known(c20KnownHexPanic) {
			return nil
		}
		return fmt.Errorf("%s: UnmarshalReflect panicked on %x: %s", c.T, in, p1)
	}
	if t.Gen2 {
		err2, p2 := c20Safe(func() (e error) { d2, e = cd.decGen(in); return })
		if p2 != "" {
			if c20IsHexOverflow(p2) && ctx.Known(c20KnownHexPanic) {
				return nil
			}
			return fmt.Errorf("%s: UnmarshalBinary2 panicked on %x: %s", c.T, in, p2)
		}
		if (err1 == nil) != (err2 == nil) {
			if c20HasOverlongLen(in, 0) && ctx.Known(c20KnownOverlong) {
				return nil
			}
			if err1 == nil && c20IsEmptyReprErr(err2) && (len(in) == 0 && t.Info.IsAminoMarshaler || c20HasEmptyPayload(in, 0)) && ctx.Known(c20KnownEmptyRepr) {
				return nil
			}
			if err1 == nil && c20IsTooSmallErr(err2) && c20EndsWithBareBytesKey(in, 0) && ctx.Known(c20KnownBareKey) {
				return nil
			}
			if c20IsDepthErr(err1) && err2 == nil && c20IsEmptyIfaceAtLimit(w, in, d2.Elem()) && ctx.Known(c20KnownEmptyIfaceAtLimit) {
				return nil
			}
			return fmt.Errorf("%s: decoders disagree: reflect err=%s ; genproto2 err=%s ; input %x", c.T, c20Short(err1), c20Short(err2), in)
		}
		if err1 == nil {
			if err := strict.eq(d1.Elem(), d2.Elem(), c.T); err != nil {
				if c20HasOverlongLen(in, 0) && ctx.Known(c20KnownOverlong) {
					return nil
				}
				if c20HasOverlongLen(in, 0) && strings.Contains(err.Error(), "nil vs non-nil pointer") && ctx.Known(c20KnownOverlongNil) {
					return nil
				}
				return fmt.Errorf("both decoders accept %x but return different values: %v", in, err)
			}
		}
	}
	ctx.NTIf(err1 == nil)
	if err1 != nil {
		ctx.Class("rejected")
		return nil
	}
	ctx.Class("accepted")
	// re-encoding the accepted value must decode back to the same value
	var re []byte
	errE, pE := c20Safe(func() (e error) { re, e = cd.encReflect(d1); return })
	if pE != "" || errE != nil {
		if (c20IsZeroReprMsg(pE) || c20IsZeroRepr(errE)) && ctx.Known(c20KnownZeroRepr) {
			return nil
		}
		return fmt.Errorf("%s: value decoded from %x cannot be re-encoded: err=%v panic=%s", c.T, in, errE, pE)
	}
	ctx.ClassIf(!bytes.Equal(re, in), "accepted-noncanonical")
	if t.Gen2 {
		var re2 []byte
		errE2, pE2 := c20Safe(func() (e error) { re2, e = cd.encGen(d2); return })
		if pE2 != "" || errE2 != nil {
			if (c20IsZeroReprMsg(pE2) || c20IsZeroRepr(errE2)) && ctx.Known(c20KnownZeroRepr) {
			return nil
		}
		return fmt.Errorf("%s: value decoded (genproto2) from %x cannot be re-encoded: err=%v panic=%s", c.T, in, errE2, pE2)
		}
		if !bytes.Equal(re, re2) {
			return fmt.Errorf("%s: re-encodings of the value decoded from %x differ: reflect %x genproto2 %x", c.T, in, re, re2)
		}
	}
	b1, err := cd.decReflect(re)
	if err != nil {
		if c20IsZeroRepr(err) && ctx.Known(c20KnownZeroRepr) || c20IsAtoiRange(err) && ctx.Known(c20KnownObjectIDAtoi) {
			return nil
		}
		return fmt.Errorf("%s: accepted %x, re-encoded to %x, which UnmarshalReflect rejects: %v", c.T, in, re, err)
	}
	if err := lenient.eq(d1.Elem(), b1.Elem(), c.T); err != nil {
		if c20IsEpochVsZero(err) && ctx.Known(c20KnownAnyEpoch) {
			return nil
		}
		return fmt.Errorf("%s: accepted %x; decode(encode(v)) != v: %v", c.T, in, err)
	}
	if t.Gen2 {
		b2, err := cd.decGen(re)
		if err != nil {
			if c20IsZeroRepr(err) && ctx.Known(c20KnownZeroRepr) || c20IsAtoiRange(err) && ctx.Known(c20KnownObjectIDAtoi) {
			return nil
		}
		return fmt.Errorf("%s: accepted %x, re-encoded to %x, which UnmarshalBinary2 rejects: %v", c.T, in, re, err)
		}
		if err := lenient.eq(d1.Elem(), b2.Elem(), c.T); err != nil {
			if c20IsEpochVsZero(err) && ctx.Known(c20KnownAnyEpoch) {
			return nil
		}
		return fmt.Errorf("%s: accepted %x; decodeGen(encode(v)) != v: %v", c.T, in, err)
		}
	}
	return nil
}

// c20ExecAnyBytes: the input is a (damaged) Any envelope; it is decoded into an
// interface variable through Codec.UnmarshalAny (genproto2 dispatch) and
// through UnmarshalReflect (pure reflection).
func c20ExecAnyBytes(ctx *vk.Ctx, w *c20World, t *c20Type, c c20BytCase, in []byte) error {
	var targets []reflect.Type
	form := t.RT
	if t.PtrPref {
		form = reflect.PointerTo(t.RT)
	}
	for _, it := range w.ifaces {
		if form.Implements(it) {
			targets = append(targets, it)
		}
	}
	it := reflect.TypeFor[any]()
	if len(targets) > 0 {
		it = targets[c20Abs(c.Any)%len(targets)]
	}
	ctx.Class("any-target=" + it.String())
	strict := &c20Cmp{w: w, strict: true}
	lenient := &c20Cmp{w: w}
	v1, v2 := reflect.New(it), reflect.New(it)
	err1, p1 := c20Safe(func() error { return w.cdc.UnmarshalReflect(in, v1.Interface()) })
	err2, p2 := c20Safe(func() error { return w.cdc.UnmarshalAny(in, v2.Interface()) })
	if p1 != "" || p2 != "" {
		if (p1 == "" || c20IsHexOverflow(p1)) && (p2 == "" || c20IsHexOverflow(p2)) && ctx.Known(c20KnownHexPanic) {
			return nil
		}
		return fmt.Errorf("Any decode into %v panicked on %x: reflect=%s any=%s", it, in, p1, p2)
	}
	if (err1 == nil) != (err2 == nil) {
		if c20HasOverlongLen(in, 0) && ctx.Known(c20KnownOverlong) {
			return nil
		}
		if err1 == nil && c20IsEmptyReprErr(err2) && c20HasEmptyPayload(in, 0) && ctx.Known(c20KnownEmptyRepr) {
			return nil
		}
		if err1 == nil && c20IsTooSmallErr(err2) && c20EndsWithBareBytesKey(in, 0) && ctx.Known(c20KnownBareKey) {
			return nil
		}
		if c20IsDepthErr(err1) && err2 == nil {
			// v2 holds what UnmarshalAny built; the reflection decoder counted
			// the outermost envelope as one more level.
			if c20IfaceDepth(w, v2.Elem())-1 == c20MaxAnyDepth && c20IsReflectOnly(w, v2.Elem()) {
				ctx.Class(c20TopAnyReflectOnly)
				return nil
			}
			if c20EmptyPayloadDepth(in) >= 2*c20MaxAnyDepth-1 && c20IfaceDepth(w, v2.Elem())-1 == c20MaxAnyDepth-1 && ctx.Known(c20KnownEmptyIfaceAtLimit) {
				return nil
			}
		}
		return fmt.Errorf("Any decoders disagree (into %v): UnmarshalReflect err=%s ; UnmarshalAny err=%s ; input %x", it, c20Short(err1), c20Short(err2), in)
	}
	ctx.NTIf(err1 == nil)
	if err1 != nil {
		ctx.Class("rejected")
		return nil
	}
	ctx.Class("accepted")
	if err := strict.eq(v1.Elem(), v2.Elem(), "any"); err != nil {
		if c20HasOverlongLen(in, 0) && ctx.Known(c20KnownOverlong) {
			return nil
		}
		if c20HasOverlongLen(in, 0) && strings.Contains(err.Error(), "nil vs non-nil pointer") && ctx.Known(c20KnownOverlongNil) {
			return nil
		}
		return fmt.Errorf("both Any decoders accept %x but return different values: %v", in, err)
	}
	if v1.Elem().IsNil() {
		ctx.Class("accepted-nil-interface")
		return nil
	}
	var re []byte
	errE, pE := c20Safe(func() (e error) { re, e = w.cdc.MarshalAny(v1.Elem().Interface()); return })
	if errE != nil || pE != "" {
		if (c20IsZeroReprMsg(pE) || c20IsZeroRepr(errE)) && ctx.Known(c20KnownZeroRepr) {
			return nil
		}
		return fmt.Errorf("value decoded from Any %x cannot be re-encoded: err=%v panic=%s", in, errE, pE)
	}
	b1 := reflect.New(it)
	if err := w.cdc.UnmarshalAny(re, b1.Interface()); err != nil {
		if c20IsZeroRepr(err) && ctx.Known(c20KnownZeroRepr) || c20IsAtoiRange(err) && ctx.Known(c20KnownObjectIDAtoi) {
			return nil
		}
		return fmt.Errorf("accepted Any %x, re-encoded to %x, which is rejected: %v", in, re, err)
	}
	if err := lenient.eq(v1.Elem(), b1.Elem(), "any"); err != nil {
		if c20IsEpochVsZero(err) && ctx.Known(c20KnownAnyEpoch) {
			return nil
		}
		return fmt.Errorf("accepted Any %x; decode(encode(v)) != v: %v", in, err)
	}
	return nil
}

// c20KnownOverlong: the reflect decoder advances by UvarintSize(len) instead of
// the bytes actually consumed when a nested message has a non-minimal length
// prefix (binary_decode.go decodeMaybeBare), so it desynchronises where the
// generated decoder does not.
const c20KnownOverlong = "reflect-desync-on-overlong-length-prefix"

// c20KnownEmptyRepr: for an AminoMarshaler type (top level, list element or
// field) an empty input / zero-length payload is mapped by the reflect decoder
// to the zero value without calling UnmarshalAmino, while the generated
// decoder calls UnmarshalAmino("") which several types reject (BigintValue,
// BigdecValue, ObjectID, Param, Balance).
const c20KnownEmptyRepr = "empty-input-aminomarshaler-reflect-accepts-gen-rejects"

// c20KnownHexPanic: PkgID/ValueHash/ObjectID.UnmarshalAmino hex-decode the repr
// string straight into the 20-byte Hashlet; a repr longer than 40 hex digits
// makes encoding/hex.Decode index past the array (gnolang/realm.go,
// hash_image.go, ownership.go).
const c20KnownHexPanic = "hashlet-hex-repr-overflow-panics"

func c20IsHexOverflow(p string) bool {
	return strings.Contains(p, "index out of range") && strings.Contains(p, "encoding/hex.Decode")
}

// c20KnownBareKey: decodeReflectBinaryByteSlice returns (zero, nil) when no
// bytes are left, so input that ends right after the key of a []byte field is
// accepted by the reflect decoder; the generated decoder reports "buffer too
// small".
// c20KnownOverlongNil: in a list tagged amino:"nil_elements" (Commit.Precommits)
// the reflect decoder recognises a nil element only by the single byte 0x00
// (binary_decode.go: bz[0] == 0x00), so a zero length written non-minimally
// (80 00) yields a non-nil pointer to an empty struct, while the generated
// decoder yields nil.
const c20KnownOverlongNil = "reflect-overlong-zero-length-element-is-not-nil"

const c20KnownBareKey = "reflect-accepts-bytes-field-key-without-length"

// c20IsEmptyReprErr: the error some UnmarshalAmino returns for the empty repr.
func c20IsEmptyReprErr(err error) bool {
	if err == nil {
		return false
	}
	m := err.Error()
	return strings.Contains(m, `""`) || strings.Contains(m, "invalid ObjectID")
}

func c20IsTooSmallErr(err error) bool {
	return err != nil && strings.Contains(err.Error(), "buffer too small")
}

// c20KnownZeroRepr: an absent / empty payload for an AminoMarshaler type is
// accepted by both decoders as the Go zero value without UnmarshalAmino being
// called; for BigintValue that is {V: nil}, rendered "<nil>" by MarshalAmino
// and then rejected by UnmarshalAmino; for params.Param it is Param{}, on
// which MarshalAmino panics ("invalid param type:").
const c20KnownZeroRepr = "empty-payload-aminomarshaler-zero-value-not-reencodable"

// c20KnownObjectIDAtoi: ObjectID.UnmarshalAmino parses NewTime (a uint64) with
// strconv.Atoi (gnolang/ownership.go), so a repr "<hex>:-27" is accepted and
// becomes NewTime 2^64-27, whose own repr is then rejected (out of int range);
// more generally NewTime >= 2^63 cannot be decoded.
const c20KnownObjectIDAtoi = "objectid-newtime-parsed-with-atoi"

func c20IsAtoiRange(err error) bool {
	return err != nil && strings.Contains(err.Error(), "strconv.Atoi: parsing") && strings.Contains(err.Error(), "value out of range")
}

func c20IsZeroRepr(err error) bool {
	return err != nil && c20IsZeroReprMsg(err.Error())
}

func c20IsZeroReprMsg(m string) bool {
	return strings.Contains(m, `cannot unmarshal "<nil>" into a *big.Int`) || strings.Contains(m, "invalid param type:")
}

// c20KnownAnyEpoch: a value whose whole encoding is empty because its only
// non-zero content is a time.Time equal to the Unix epoch (amino's "empty
// time") comes back from an Any envelope / interface field with the Go zero
// time (year 1): decodeReflectBinaryAny and UnmarshalAnyBinary2 construct the
// concrete value with reflect.New when the Any value is absent instead of
// decoding empty bytes into it (which would apply amino's 1970 default).
const c20KnownAnyEpoch = "any-empty-value-loses-epoch-time-default"

func c20IsEpochVsZero(err error) bool {
	if err == nil {
		return false
	}
	m := err.Error()
	return strings.Contains(m, "time 1970-01-01 00:00:00 +0000 UTC vs 0001-01-01 00:00:00 +0000 UTC") ||
		strings.Contains(m, "time 0001-01-01 00:00:00 +0000 UTC vs 1970-01-01 00:00:00 +0000 UTC")
}

const c20BytRule = "a registered type, a base value from E6, and either 1-3 structure-aware wire mutations of its encoding (bit flip, truncate, byte set/insert/delete, field swap/duplicate/drop, wire-type and field-number edits, length-prefix edits, over-long varints, unknown fields; applied at a random nesting path with enclosing length prefixes repaired), or the same on its Any envelope decoded into an interface, or a raw byte string; types reaching p2p NetAddress are excluded (its UnmarshalAmino resolves host names); non-trivial = at least one decoder accepts the input"

func c20DrawMuts(rt *rapid.T) []c20Mut {
	n := rapid.IntRange(1, 3).Draw(rt, "nmut")
	out := make([]c20Mut, n)
	for i := range out {
		out[i] = c20Mut{
			Path: rapid.SliceOfN(rapid.IntRange(0, 7), 0, 4).Draw(rt, "path"),
			Op:   rapid.IntRange(0, c20NumOps-1).Draw(rt, "op"),
			A:    rapid.IntRange(0, 1023).Draw(rt, "a"),
			B:    rapid.IntRange(0, 255).Draw(rt, "b"),
		}
	}
	return out
}

func c20ByteTypes(w *c20World) []*c20Type {
	var out []*c20Type
	for _, t := range w.types {
		if !t.NetAddr {
			out = append(out, t)
		}
	}
	return out
}

func TestC20_Bytes(t *testing.T) {
	w := c20GetWorld()
	types := c20ByteTypes(w)
	deepRoots := c20DeepByteRoots(w)
	vk.Run(t, vk.Spec[c20BytCase]{
		ID: "C20", Name: "TestC20_Bytes", Rule: c20BytRule,
		Draw: func(rt *rapid.T) c20BytCase {
			if rapid.IntRange(0, 7).Draw(rt, "family") == 7 { // nesting-depth family
				ty := c20DrawDeepRoot(rt, deepRoots)
				c := c20BytCase{T: ty.Key, Mode: "mut", Deep: c20DrawDepth(rt)}
				if rapid.IntRange(0, 2).Draw(rt, "anymode") == 0 {
					c.Mode = "any"
					c.Any = rapid.IntRange(0, 15).Draw(rt, "any")
				}
				c.Tape = rapid.SliceOfN(rapid.Byte(), 0, 200).Draw(rt, "tape")
				if rapid.IntRange(0, 5).Draw(rt, "pristine") != 0 { // else: the undamaged deep encoding
					c.Muts = c20DrawMuts(rt)
					for i := range c.Muts {
						// reach into the nest: two length-delimited levels per interface level
						c.Muts[i].Heavy = rapid.IntRange(0, 2*c.Deep+2).Draw(rt, "heavy")
					}
				}
				return c
			}
			ty := types[rapid.IntRange(0, len(types)-1).Draw(rt, "type")]
			c := c20BytCase{T: ty.Key}
			switch rapid.IntRange(0, 9).Draw(rt, "mode") {
			case 0:
				c.Mode = "raw"
				c.Raw = rapid.SliceOfN(rapid.Byte(), 0, 24).Draw(rt, "raw")
			case 1, 2:
				c.Mode = "any"
				c.Any = rapid.IntRange(0, 15).Draw(rt, "any")
				c.Tape = c20DrawTape(rt)
				c.Muts = c20DrawMuts(rt)
			default:
				c.Mode = "mut"
				c.Tape = c20DrawTape(rt)
				c.Muts = c20DrawMuts(rt)
			}
			return c
		},
		Exec: func(ctx *vk.Ctx, c c20BytCase) error {
			err := c20ExecBytes(ctx, c)
			if err != nil && os.Getenv("C20_COLLECT") != "" { // calibration aid: list divergences instead of stopping at the first
				msg := err.Error()
				if len(msg) > 700 {
					msg = msg[:700]
				}
				fmt.Printf("COLLECT|%s|%s\n", c.T, strings.ReplaceAll(msg, "\n", " "))
				return nil
			}
			return c20Trim(err)
		},
	})
}

// TestC20_BytesSweep applies every mutation operator at the top level and one
// level down to a dense value of every (eligible) registered type.
func TestC20_BytesSweep(t *testing.T) {
	if vk.Replaying() {
		t.Skip()
	}
	w := c20GetWorld()
	r := vk.Open(t, "C20", "TestC20_BytesSweep", "every eligible registered type x every mutation operator x {top level, one level down} x k parameter pairs on a dense base value; "+c20BytRule)
	defer r.Close()
	r.ReplayAs = "TestC20_Bytes"
	per := vk.Pick(r, 1, 12)
	rng := c20Rng(r.Seed*7919 + 3)
	for _, ty := range c20ByteTypes(w) {
		for k := 0; k < per; k++ {
			tape := rng.tape(200)
			for i := range tape {
				tape[i] |= 0x80
			}
			for op := 0; op < c20NumOps; op++ {
				for lvl := 0; lvl < 2; lvl++ {
					m := c20Mut{Op: op, A: int(rng.next() % 1024), B: int(rng.next() % 256)}
					if lvl == 1 {
						m.Path = []int{int(rng.next() % 8)}
					}
					mode := "mut"
					if (op+lvl+k)%5 == 0 {
						mode = "any"
					}
					c := c20BytCase{T: ty.Key, Tape: tape, Mode: mode, Any: k, Muts: []c20Mut{m}}
					if r.Do(c, func(ctx *vk.Ctx) error { return c20ExecBytes(ctx, c) }) != nil {
						return
					}
				}
			}
		}
	}
	r.Extra("types_swept", len(c20ByteTypes(w)))
}
