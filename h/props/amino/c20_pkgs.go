// Package amino holds the C20 checks (amino reflect codec vs genproto2 fast
// paths). This file lists every amino.Package registered by tm2, gnovm and
// gno.land; importing them also runs the generated init() registrations.
package amino

import (
	"github.com/gnolang/gno/gno.land/pkg/gnoland"
	"github.com/gnolang/gno/gno.land/pkg/sdk/vm"
	"github.com/gnolang/gno/gnovm/pkg/gnolang"
	"github.com/gnolang/gno/gnovm/stdlibs/chain"
	"github.com/gnolang/gno/tm2/pkg/amino"
	abci "github.com/gnolang/gno/tm2/pkg/bft/abci/types"
	"github.com/gnolang/gno/tm2/pkg/bft/blockchain"
	"github.com/gnolang/gno/tm2/pkg/bft/consensus"
	cstypes "github.com/gnolang/gno/tm2/pkg/bft/consensus/types"
	"github.com/gnolang/gno/tm2/pkg/bft/mempool"
	"github.com/gnolang/gno/tm2/pkg/bft/privval/signer/remote"
	bft "github.com/gnolang/gno/tm2/pkg/bft/types"
	"github.com/gnolang/gno/tm2/pkg/bitarray"
	"github.com/gnolang/gno/tm2/pkg/crypto/ed25519"
	"github.com/gnolang/gno/tm2/pkg/crypto/hd"
	"github.com/gnolang/gno/tm2/pkg/crypto/keys"
	"github.com/gnolang/gno/tm2/pkg/crypto/merkle"
	"github.com/gnolang/gno/tm2/pkg/crypto/mock"
	"github.com/gnolang/gno/tm2/pkg/crypto/multisig"
	"github.com/gnolang/gno/tm2/pkg/crypto/secp256k1"
	"github.com/gnolang/gno/tm2/pkg/p2p/conn"
	"github.com/gnolang/gno/tm2/pkg/p2p/discovery"
	"github.com/gnolang/gno/tm2/pkg/sdk"
	"github.com/gnolang/gno/tm2/pkg/sdk/auth"
	"github.com/gnolang/gno/tm2/pkg/sdk/bank"
	"github.com/gnolang/gno/tm2/pkg/sdk/params"
	"github.com/gnolang/gno/tm2/pkg/sdk/testutils"
	"github.com/gnolang/gno/tm2/pkg/std"
)

// c20Packages is the closed list of registered packages (grep
// `amino.RegisterPackage(` over /repo, non-test, outside tm2/pkg/amino).
var c20Packages = []*amino.Package{
	gnoland.Package, vm.Package, gnolang.Package, chain.Package,
	abci.Package, blockchain.Package, consensus.Package, cstypes.Package,
	mempool.Package, remote.Package, bft.Package, bitarray.Package,
	ed25519.Package, hd.Package, keys.Package, merkle.Package, mock.Package,
	multisig.Package, secp256k1.Package, conn.Package, discovery.Package,
	sdk.Package, auth.Package, bank.Package, params.Package,
	testutils.Package, std.Package,
}
