package amino

// A small protobuf-wire parser and a structure-aware byte mutator, written
// from the proto3 wire spec (not from amino's decoder): fields are
// key=uvarint(num<<3|typ) followed by varint / 8 bytes / length-prefixed
// bytes / 4 bytes.

import "encoding/binary"

type c20Field struct {
	ks, vs, ps, ve int // key start, value start, payload start (after length prefix), value end
	num            uint64
	typ            byte
}

// c20Parse splits bz into fields as far as it is well-formed.
func c20Parse(bz []byte) (fs []c20Field, ok bool) {
	i := 0
	for i < len(bz) {
		k, n := binary.Uvarint(bz[i:])
		if n <= 0 {
			return fs, false
		}
		f := c20Field{ks: i, vs: i + n, ps: i + n, num: k >> 3, typ: byte(k & 7)}
		j := f.vs
		switch f.typ {
		case 0:
			_, m := binary.Uvarint(bz[j:])
			if m <= 0 {
				return fs, false
			}
			j += m
		case 1:
			j += 8
		case 5:
			j += 4
		case 2:
			l, m := binary.Uvarint(bz[j:])
			if m <= 0 || l > uint64(len(bz)-j-m) {
				return fs, false
			}
			f.ps = j + m
			j += m + int(l)
		default:
			return fs, false
		}
		if j > len(bz) {
			return fs, false
		}
		f.ve = j
		fs = append(fs, f)
		i = j
	}
	return fs, true
}

func c20Uvarint(v uint64) []byte {
	var b [10]byte
	return append([]byte(nil), b[:binary.PutUvarint(b[:], v)]...)
}

// c20Overlong re-encodes v with extra continuation bytes (non-minimal varint).
func c20Overlong(v uint64, extra int) []byte {
	out := c20Uvarint(v)
	out[len(out)-1] |= 0x80
	for i := 0; i < extra-1; i++ {
		out = append(out, 0x80)
	}
	return append(out, 0x00)
}

func c20Cat(parts ...[]byte) []byte {
	var out []byte
	for _, p := range parts {
		out = append(out, p...)
	}
	return out
}

type c20Mut struct {
	// Heavy: first descend this many levels into the largest non-empty
	// length-delimited field (the spine of a deeply nested encoding), then
	// follow Path.
	Heavy int   `json:"heavy,omitempty"`
	Path  []int `json:"path"` // descend into the (index mod n)-th field while it is length-delimited
	Op   int   `json:"op"`
	A    int   `json:"a"`
	B    int   `json:"b"`
}

const c20NumOps = 16

var c20OpNames = [c20NumOps]string{"bitflip", "truncate", "setbyte", "insert", "delete", "swap-fields", "dup-field", "drop-field", "wiretype", "fieldnum", "lenprefix", "overlong-key", "append-unknown", "varint-edge", "empty-payload", "overlong-len"}

func c20Abs(x int) int {
	if x < 0 {
		x = -x
	}
	if x < 0 {
		return 0
	}
	return x
}

// c20Mutate applies m to bz at nesting level `level`; the length prefixes of
// the enclosing fields are recomputed so that the damage stays local.
func c20Mutate(bz []byte, m c20Mut, level int) []byte {
	fs, _ := c20Parse(bz)
	if m.Heavy > 0 {
		best := -1
		for i, f := range fs {
			if f.typ == 2 && f.ve > f.ps && (best < 0 || f.ve-f.ps > fs[best].ve-fs[best].ps) {
				best = i
			}
		}
		if best >= 0 {
			f := fs[best]
			m2 := m
			m2.Heavy--
			np := c20Mutate(bz[f.ps:f.ve], m2, level)
			return c20Cat(bz[:f.vs], c20Uvarint(uint64(len(np))), np, bz[f.ve:])
		}
	}
	if level < len(m.Path) && len(fs) > 0 {
		f := fs[c20Abs(m.Path[level])%len(fs)]
		if f.typ == 2 && f.ve > f.ps {
			np := c20Mutate(bz[f.ps:f.ve], m, level+1)
			return c20Cat(bz[:f.vs], c20Uvarint(uint64(len(np))), np, bz[f.ve:])
		}
	}
	a, b := c20Abs(m.A), c20Abs(m.B)
	op := c20Abs(m.Op) % c20NumOps
	n := len(bz)
	switch op {
	case 0:
		if n > 0 {
			out := append([]byte(nil), bz...)
			out[a%n] ^= 1 << (b % 8)
			return out
		}
	case 1:
		return append([]byte(nil), bz[:a%(n+1)]...)
	case 2:
		if n > 0 {
			out := append([]byte(nil), bz...)
			out[a%n] = byte(b)
			return out
		}
	case 3:
		p := a % (n + 1)
		return c20Cat(bz[:p], []byte{byte(b)}, bz[p:])
	case 4:
		if n > 0 {
			p := a % n
			return c20Cat(bz[:p], bz[p+1:])
		}
	}
	if len(fs) == 0 {
		// nothing field-shaped here: fall back to appending a stray field
		return c20Cat(bz, []byte{byte(1<<3 | b%8), byte(a)})
	}
	i := a % len(fs)
	f := fs[i]
	switch op {
	case 5: // swap two fields
		if len(fs) >= 2 {
			j := b % len(fs)
			if i == j {
				j = (i + 1) % len(fs)
			}
			if i > j {
				i, j = j, i
			}
			fi, fj := fs[i], fs[j]
			return c20Cat(bz[:fi.ks], bz[fj.ks:fj.ve], bz[fi.ve:fj.ks], bz[fi.ks:fi.ve], bz[fj.ve:])
		}
	case 6: // duplicate a field (right after itself, or at the end)
		if b%2 == 0 {
			return c20Cat(bz[:f.ve], bz[f.ks:f.ve], bz[f.ve:])
		}
		return c20Cat(bz, bz[f.ks:f.ve])
	case 7:
		return c20Cat(bz[:f.ks], bz[f.ve:])
	case 8: // other wire type, same number, value bytes kept
		nt := byte(b % 8)
		if nt == f.typ {
			nt = (nt + 1) % 8
		}
		return c20Cat(bz[:f.ks], c20Uvarint(f.num<<3|uint64(nt)), bz[f.vs:])
	case 9: // other field number
		max := uint64(0)
		for _, x := range fs {
			if x.num > max {
				max = x.num
			}
		}
		nn := []uint64{0, f.num + 1, max + 1, 1<<29 - 1, 1 << 29, f.num - 1, 1 << 40}[b%7]
		return c20Cat(bz[:f.ks], c20Uvarint(nn<<3|uint64(f.typ)), bz[f.vs:])
	case 10: // length prefix edit (payload untouched)
		if f.typ == 2 {
			l := uint64(f.ve - f.ps)
			nl := []uint64{l - 1, l + 1, l + 127, 1 << 31, 1<<63 + 5, 0}[b%6]
			return c20Cat(bz[:f.vs], c20Uvarint(nl), bz[f.ps:])
		}
	case 11: // non-minimal key varint
		return c20Cat(bz[:f.ks], c20Overlong(f.num<<3|uint64(f.typ), 1+b%9), bz[f.vs:])
	case 12: // append a field the type does not know
		max := uint64(0)
		for _, x := range fs {
			if x.num > max {
				max = x.num
			}
		}
		num := max + 1 + uint64(b%3)
		switch b % 4 {
		case 0:
			return c20Cat(bz, c20Uvarint(num<<3|0), []byte{0x05})
		case 1:
			return c20Cat(bz, c20Uvarint(num<<3|2), []byte{0x02, 0x08, 0x01})
		case 2:
			return c20Cat(bz, c20Uvarint(num<<3|1), []byte{1, 2, 3, 4, 5, 6, 7, 8})
		default:
			return c20Cat(bz, c20Uvarint(num<<3|5), []byte{1, 2, 3, 4})
		}
	case 13: // varint value edge cases
		if f.typ == 0 {
			nv := [][]byte{
				{0x00}, {0x01},
				{0xFF, 0xFF, 0xFF, 0xFF, 0xFF, 0xFF, 0xFF, 0xFF, 0xFF, 0x01}, // MaxUint64
				{0xFF, 0xFF, 0xFF, 0xFF, 0xFF, 0xFF, 0xFF, 0xFF, 0xFF, 0x7F}, // overflows 64 bits
				{0x80, 0x80, 0x80, 0x80, 0x80, 0x80, 0x80, 0x80, 0x80, 0x80, 0x01}, // 11 bytes
				{0x80, 0x80, 0x80, 0x80, 0x10},                                     // 2^32
				{0x80, 0x00},                                                       // non-minimal zero
				{0x80},                                                             // unterminated
			}[b%8]
			return c20Cat(bz[:f.vs], nv, bz[f.ve:])
		}
	case 14: // length-delimited field with empty payload
		if f.typ == 2 {
			return c20Cat(bz[:f.vs], []byte{0x00}, bz[f.ve:])
		}
	case 15: // non-minimal length prefix
		if f.typ == 2 {
			return c20Cat(bz[:f.vs], c20Overlong(uint64(f.ve-f.ps), 1+b%9), bz[f.ps:])
		}
	}
	// op not applicable to the chosen field: flip a bit inside it instead
	out := append([]byte(nil), bz...)
	if f.ve > f.ks {
		out[f.ks+b%(f.ve-f.ks)] ^= 1 << (a % 8)
	}
	return out
}

// c20WireClasses reports which wire types occur (two levels deep).
func c20WireClasses(bz []byte) (varint, fixed8, bytesT, fixed4 bool) {
	var rec func(b []byte, d int)
	rec = func(b []byte, d int) {
		fs, ok := c20Parse(b)
		if !ok {
			return // a string / bytes payload, not a message
		}
		for _, f := range fs {
			switch f.typ {
			case 0:
				varint = true
			case 1:
				fixed8 = true
			case 5:
				fixed4 = true
			case 2:
				bytesT = true
				if d < 2 {
					rec(b[f.ps:f.ve], d+1)
				}
			}
		}
	}
	rec(bz, 0)
	return
}

// c20HasOverlongLen reports whether some length-delimited field of bz (at any
// nesting depth that still parses as a message) carries a non-minimal length
// prefix.
func c20HasOverlongLen(bz []byte, depth int) bool {
	fs, _ := c20Parse(bz)
	for _, f := range fs {
		if f.typ != 2 {
			continue
		}
		if f.ps-f.vs > len(c20Uvarint(uint64(f.ve-f.ps))) {
			return true
		}
		if depth < 8 && c20HasOverlongLen(bz[f.ps:f.ve], depth+1) {
			return true
		}
	}
	return false
}

// c20ParsedEnd returns the offset at which c20Parse stopped.
func c20ParsedEnd(fs []c20Field) int {
	if len(fs) == 0 {
		return 0
	}
	return fs[len(fs)-1].ve
}

// c20EndsWithBareBytesKey reports whether bz, or the payload of one of its
// length-delimited fields (recursively), ends with a lone field key of wire
// type "bytes" that has no length prefix after it.
func c20EndsWithBareBytesKey(bz []byte, depth int) bool {
	fs, ok := c20Parse(bz)
	if !ok {
		rest := bz[c20ParsedEnd(fs):]
		k, n := binary.Uvarint(rest)
		if n > 0 && n == len(rest) && k&7 == 2 {
			return true
		}
	}
	if depth < 8 {
		for _, f := range fs {
			if f.typ == 2 && f.ve > f.ps && c20EndsWithBareBytesKey(bz[f.ps:f.ve], depth+1) {
				return true
			}
		}
	}
	return false
}

// c20HasEmptyPayload reports whether bz contains (at any depth that parses) a
// length-delimited field with a zero-length payload.
func c20HasEmptyPayload(bz []byte, depth int) bool {
	fs, _ := c20Parse(bz)
	for _, f := range fs {
		if f.typ != 2 {
			continue
		}
		if f.ve == f.ps {
			return true
		}
		if depth < 8 && c20HasEmptyPayload(bz[f.ps:f.ve], depth+1) {
			return true
		}
	}
	return false
}
