package amino

// Structural equality over amino-visible state, written independently of the
// codec: it walks exactly the fields amino encodes (TypeInfo.Fields), compares
// AminoMarshaler types through their repr objects, times with Time.Equal, and
// — in lenient mode — identifies nil and empty lists. The only place where it
// consults the codec is the documented proto3 wart "a nil pointer and a
// pointer to an empty value are indistinguishable" (binary_encode.go doc
// comment of encodeReflectBinary / defaultValue in reflect.go).

import (
	"bytes"
	"fmt"
	"math"
	"reflect"
	"time"

	"github.com/gnolang/gno/tm2/pkg/amino"
)

type c20Cmp struct {
	w      *c20World
	strict bool // nil vs empty lists and nil vs pointer-to-empty are differences
}

func (c *c20Cmp) eq(a, b reflect.Value, path string) error {
	if a.Type() != b.Type() {
		return fmt.Errorf("%s: type %v vs %v", path, a.Type(), b.Type())
	}
	rt := a.Type()
	switch rt.Kind() {
	case reflect.Pointer:
		if a.IsNil() || b.IsNil() {
			if a.IsNil() && b.IsNil() {
				return nil
			}
			if c.strict {
				return fmt.Errorf("%s: nil vs non-nil pointer", path)
			}
			nn := a
			if a.IsNil() {
				nn = b
			}
			if bz, err := c.w.cdc.MarshalReflect(nn.Interface()); err == nil && len(bz) == 0 {
				return nil // pointer to an empty value ≡ nil on the wire
			}
			return fmt.Errorf("%s: nil vs pointer to non-empty value %+v", path, nn.Elem().Interface())
		}
		return c.eq(a.Elem(), b.Elem(), path)
	case reflect.Interface:
		if a.IsNil() || b.IsNil() {
			if a.IsNil() && b.IsNil() {
				return nil
			}
			return fmt.Errorf("%s: nil vs non-nil interface", path)
		}
		return c.eq(a.Elem(), b.Elem(), path+".("+a.Elem().Type().String()+")")
	}
	if rt == c20TimeT {
		ta, tb := a.Interface().(time.Time), b.Interface().(time.Time)
		if !ta.Equal(tb) {
			return fmt.Errorf("%s: time %v vs %v", path, ta, tb)
		}
		return nil
	}
	var info *amino.TypeInfo
	if k := rt.Kind(); k == reflect.Struct || k == reflect.Slice || k == reflect.Array {
		var err error
		info, err = c.w.cdc.GetTypeInfo(rt)
		if err != nil {
			return err
		}
		if info.IsAminoMarshaler {
			ra, erra := c20Repr(a)
			rb, errb := c20Repr(b)
			if erra != nil || errb != nil {
				// values outside the domain of MarshalAmino (e.g. the zero
				// Param): compare the Go values themselves.
				if (erra != nil) == (errb != nil) && reflect.DeepEqual(a.Interface(), b.Interface()) {
					return nil
				}
				return fmt.Errorf("%s: MarshalAmino failed (%v / %v) and the Go values differ: %+v vs %+v", path, erra, errb, a.Interface(), b.Interface())
			}
			return c.eq(ra, rb, path+".<repr>")
		}
	}
	switch rt.Kind() {
	case reflect.Struct:
		for _, f := range info.Fields {
			if err := c.eq(a.Field(f.Index), b.Field(f.Index), path+"."+f.Name); err != nil {
				return err
			}
		}
		return nil
	case reflect.Slice:
		if c.strict && a.IsNil() != b.IsNil() {
			return fmt.Errorf("%s: nil vs empty list", path)
		}
		if a.Len() != b.Len() {
			return fmt.Errorf("%s: len %d vs %d", path, a.Len(), b.Len())
		}
		if rt.Elem().Kind() == reflect.Uint8 {
			if !bytes.Equal(a.Bytes(), b.Bytes()) {
				return fmt.Errorf("%s: bytes %x vs %x", path, a.Bytes(), b.Bytes())
			}
			return nil
		}
		for i := 0; i < a.Len(); i++ {
			if err := c.eq(a.Index(i), b.Index(i), fmt.Sprintf("%s[%d]", path, i)); err != nil {
				return err
			}
		}
		return nil
	case reflect.Array:
		for i := 0; i < a.Len(); i++ {
			if err := c.eq(a.Index(i), b.Index(i), fmt.Sprintf("%s[%d]", path, i)); err != nil {
				return err
			}
		}
		return nil
	case reflect.Bool:
		if a.Bool() != b.Bool() {
			return fmt.Errorf("%s: %v vs %v", path, a.Bool(), b.Bool())
		}
	case reflect.Int, reflect.Int8, reflect.Int16, reflect.Int32, reflect.Int64:
		if a.Int() != b.Int() {
			return fmt.Errorf("%s: %d vs %d", path, a.Int(), b.Int())
		}
	case reflect.Uint, reflect.Uint8, reflect.Uint16, reflect.Uint32, reflect.Uint64:
		if a.Uint() != b.Uint() {
			return fmt.Errorf("%s: %d vs %d", path, a.Uint(), b.Uint())
		}
	case reflect.Float32, reflect.Float64:
		if math.Float64bits(a.Float()) != math.Float64bits(b.Float()) {
			return fmt.Errorf("%s: %v vs %v", path, a.Float(), b.Float())
		}
	case reflect.String:
		if a.String() != b.String() {
			return fmt.Errorf("%s: %q vs %q", path, a.String(), b.String())
		}
	default:
		return fmt.Errorf("%s: unsupported kind %v", path, rt.Kind())
	}
	return nil
}

// c20Repr calls v.MarshalAmino() by reflection (a panic becomes an error).
func c20Repr(v reflect.Value) (out reflect.Value, err error) {
	defer func() {
		if p := recover(); p != nil {
			err = fmt.Errorf("MarshalAmino panicked: %v", p)
		}
	}()
	return c20Repr0(v)
}

func c20Repr0(v reflect.Value) (reflect.Value, error) {
	var m reflect.Value
	if v.CanAddr() {
		m = v.Addr().MethodByName("MarshalAmino")
	} else {
		m = v.MethodByName("MarshalAmino")
	}
	if !m.IsValid() {
		return reflect.Value{}, fmt.Errorf("%v has no MarshalAmino", v.Type())
	}
	outs := m.Call(nil)
	if !outs[1].IsNil() {
		return reflect.Value{}, outs[1].Interface().(error)
	}
	return outs[0], nil
}
