package chain

import (
	"fmt"
	"os"
	"path/filepath"
	"runtime"
	"sync/atomic"
	"time"
	"testing"

	dbm "github.com/gnolang/gno/tm2/pkg/db"
	_ "github.com/gnolang/gno/tm2/pkg/db/boltdb"
	_ "github.com/gnolang/gno/tm2/pkg/db/goleveldb"
	"github.com/gnolang/gno/tm2/pkg/db/memdb"
	_ "github.com/gnolang/gno/tm2/pkg/db/pebbledb"
	"pgregory.net/rapid"
	ec "verif/eng/chain"
	"verif/vk"
)

// C01 — chain replay determinism: the same genesis and blocks give the same
// app hashes, tx results, gas and committed state under every configuration
// (restart pattern, DB backend, GOMAXPROCS, stdlib cache, repetition).

type c01Config struct {
	Backend  string `json:"backend"`
	Restarts []bool `json:"restarts"`
	NoCache  bool   `json:"nocache"`
	Procs    int    `json:"procs"`
}

type c01Case struct {
	H       ec.History  `json:"h"`
	Configs []c01Config `json:"configs"`
}

var c01dirCtr atomic.Int64

func scratchDir() string {
	base := os.Getenv("VERIF_TMP")
	if base == "" {
		base = "/var/tmp"
	}
	d := filepath.Join(base, fmt.Sprintf("db-%d-%d", os.Getpid(), c01dirCtr.Add(1)))
	os.MkdirAll(d, 0o755)
	return d
}

func newDBFactory(backend string) func() (dbm.DB, func()) {
	if backend == "" || backend == "memdb" {
		return func() (dbm.DB, func()) { return memdb.NewMemDB(), func() {} }
	}
	return func() (dbm.DB, func()) {
		dir := scratchDir()
		db, err := dbm.NewDB("app", dbm.BackendType(backend), dir)
		if err != nil {
			panic(err)
		}
		return db, func() { db.Close(); os.RemoveAll(dir) }
	}
}

func c01Run(h ec.History, cf c01Config) (*ec.Trace, error) {
	if cf.Procs > 0 {
		old := runtime.GOMAXPROCS(cf.Procs)
		defer runtime.GOMAXPROCS(old)
	}
	var cleanup func()
	factory := newDBFactory(cf.Backend)
	tr, c, err := ec.Run(h, ec.Config{NewDB: func() (dbm.DB, func()) {
		db, cl := factory()
		cleanup = cl
		return db, cl
	}, Restarts: cf.Restarts, NoCacheSL: cf.NoCache})
	_ = c
	if cleanup != nil {
		defer cleanup()
	}
	return tr, err
}

func c01Exec(ctx *vk.Ctx, c c01Case) error {
	ref, err := c01Run(c.H, c01Config{Backend: "memdb"})
	if err != nil {
		return fmt.Errorf("reference run: %v", err)
	}
	okVM, failed, oog := 0, 0, 0
	firstOKBlock := -1
	for bi, b := range ref.Blocks[1:] {
		for ti, r := range b.Txs {
			if r.OK() {
				for _, m := range c.H.Blocks[bi].Txs[ti].Msgs {
					if m.Kind != "send" {
						okVM++
						if firstOKBlock < 0 {
							firstOKBlock = bi
						}
					}
				}
			} else {
				failed++
				if len(r.Err) > 0 && (contains(r.Err, "OutOfGas")) {
					oog++
				}
			}
		}
	}
	ctx.ClassIf(okVM > 0, "has-ok-vm-tx")
	ctx.ClassIf(failed > 0, "has-failed-tx")
	ctx.ClassIf(oog > 0, "has-out-of-gas-tx")
	// hook operations: a MsgRun handed a script-made function/interface value
	// to the hk realm and a later block fires whatever is stored
	hkSet, hkFire, hkOK := ec.HookSpan(c.H)
	ctx.ClassIf(hkOK, "hook-set-by-run-then-fire-later")
	hkSetOK, hkFireOK := false, false
	for bi, b := range c.H.Blocks {
		for ti, tx := range b.Txs {
			for _, m := range tx.Msgs {
				if m.Pkg == ec.PathHk || (m.Kind == "run" && contains(m.Body, "hk.")) {
					ctx.Class("has-hook-op")
					if ref.Blocks[bi+1].Txs[ti].OK() {
						if m.Kind == "run" && m.Body != ec.HookFireBody {
							hkSetOK = true
						}
						if m.Fn == "Fire" || m.Body == ec.HookFireBody {
							hkFireOK = true
						}
					}
				}
			}
		}
	}
	ctx.ClassIf(hkSetOK, "hook-set-by-run-accepted")
	ctx.ClassIf(hkFireOK, "hook-fire-ok")
	restartAfter, hkCrossed := false, false
	for _, cf := range c.Configs {
		ctx.Class("backend=" + cf.Backend)
		for bi, r := range cf.Restarts {
			if r && firstOKBlock >= 0 && bi > firstOKBlock {
				restartAfter = true
			}
			if r && hkOK && bi > hkSet && bi <= hkFire {
				hkCrossed = true
			}
		}
		t0 := time.Now()
		tr, err := c01Run(c.H, cf)
		if os.Getenv("VERIF_TIMING") != "" {
			fmt.Printf("config %+v took %v\n", cf, time.Since(t0))
		}
		if err != nil {
			return fmt.Errorf("config %+v: %v", cf, err)
		}
		if d := ec.CompareTraces(ref, tr, false); d != "" {
			return fmt.Errorf("config %+v diverges from reference (memdb, no restart): %s", cf, d)
		}
		if d := ec.Diff(ref.Final, tr.Final, nil); d != "" {
			return fmt.Errorf("config %+v: final committed state differs:\n%s", cf, d)
		}
	}
	ctx.ClassIf(restartAfter, "restart-after-vm-write")
	ctx.ClassIf(hkCrossed, "restart-between-hook-set-and-fire")
	ctx.NTIf(okVM > 0 && restartAfter)
	return nil
}

func contains(s, sub string) bool {
	for i := 0; i+len(sub) <= len(s); i++ {
		if s[i:i+len(sub)] == sub {
			return true
		}
	}
	return false
}

var c01Backends = []string{"memdb", "memdb", "goleveldb", "pebbledb", "boltdb"}

func TestC01_Replay(t *testing.T) {
	vk.Run(t, vk.Spec[c01Case]{
		ID: "C01", Name: "TestC01_Replay",
		Rule: "rapid: history (2-5 accounts, library realms deployed in block 1, then 3-6 blocks of 0-5 txs of 1-3 msgs: sends, realm calls incl. multi-realm and panicking ones, package deployments incl. invalid ones, MsgRun scripts; gas ample/tight/tiny; ~70% of the histories also carry hook operations on the library realm hk: a MsgRun handing a script-made func literal / closure / top-level func / bound method / script-typed value (or another realm's func, or a plain value) to hk.Set/SetR/SetAny/Keep, 1-2 Fire txs (MsgCall or MsgRun) in later blocks, 0-3 further Set/SetOwn/Clear/Fire ops) executed under a reference configuration and 2 generated configurations (backend in memdb/goleveldb/pebbledb/boltdb, 0-2 restarts at drawn block boundaries plus, 2 times in 3, one between the hook hand-over and a later Fire, GOMAXPROCS 1|16, stdlib cache on/off, or an exact repeat); non-trivial = >=1 successful VM tx and a restart at a later block boundary in some configuration; distinct by (history, configs)",
		Draw: func(rt *rapid.T) c01Case {
			h := ec.DrawHistory(rt, 3, 6, 5)
			n := 2
			var cfs []c01Config
			for i := 0; i < n; i++ {
				cf := c01Config{Backend: rapid.SampledFrom(c01Backends).Draw(rt, "backend")}
				cf.Procs = rapid.SampledFrom([]int{0, 1, 16}).Draw(rt, "procs")
				cf.NoCache = rapid.IntRange(0, 4).Draw(rt, "nocache") == 0
				// 0-2 restarts at drawn block boundaries (a restart costs 1-5 s:
				// the VM re-loads and re-preprocesses every stdlib)
				cf.Restarts = make([]bool, len(h.Blocks))
				for k := rapid.IntRange(0, 2).Draw(rt, "nrestarts"); k > 0; k-- {
					cf.Restarts[rapid.IntRange(0, len(h.Blocks)-1).Draw(rt, "restartAt")] = true
				}
				// when a script handed a value to hk and a later block fires it,
				// usually restart somewhere in between
				if sb, fb, ok := ec.HookSpan(h); ok && rapid.IntRange(0, 2).Draw(rt, "hkrestart") > 0 {
					cf.Restarts[rapid.IntRange(sb+1, fb).Draw(rt, "hkrestartAt")] = true
				}
				cfs = append(cfs, cf)
			}
			return c01Case{H: h, Configs: cfs}
		},
		Exec: c01Exec,
	})
}
