package chain

import (
	"bytes"
	"fmt"
	"testing"

	"github.com/gnolang/gno/gno.land/pkg/gnoland"
	"github.com/gnolang/gno/tm2/pkg/amino"
	"github.com/gnolang/gno/tm2/pkg/crypto"
	"github.com/gnolang/gno/tm2/pkg/crypto/multisig"
	"github.com/gnolang/gno/tm2/pkg/sdk/bank"
	"github.com/gnolang/gno/tm2/pkg/std"
	"pgregory.net/rapid"
	ec "verif/eng/chain"
	"verif/vk"
)

// C15 — only correctly signed, fresh transactions take effect.
//
// A valid signed tx is built, then mutated; the mutated tx, its replay, the
// original tx and its replays are delivered one per block. Oracle: an
// independent recomputation of signature validity (sign bytes from the
// committed account number/sequence + VerifyBytes), a full dump comparison
// around every rejected tx, and exact sequence bookkeeping for accepted ones.

type c15Case struct {
	Signers  []int  `json:"signers"` // 1-2 account indexes; index 9 = the 2-of-3 multisig account
	Warm     int    `json:"warm"`    // number of warm-up txs by signer 0 (advances its sequence)
	Mut      string `json:"mut"`
	Arg      int    `json:"arg"`
	UseCall  bool   `json:"use_call"` // second kind of message: a realm call
	OmitPubK bool   `json:"omit_pubkey"`
	VestEnd  int64  `json:"vest_end"` // vesting of account 8 ends this many seconds after T0 (blocks run at 10, 15, 20, ...)
}

var c15Muts = []string{
	"none", "flip-sig-byte", "flip-body-amount", "wrong-chainid", "wrong-accnum", "seq-plus-1", "seq-minus-1",
	"swap-sigs", "drop-sig", "extra-sig", "other-key-sig", "other-key-pubkey", "empty-sig", "memo-after-sign",
	"fee-after-sign", "multisig-k-minus-1", "multisig-wrong-member", "multisig-dup-sig",
}

const c15Multi = 9
const c15Vest = 8 // a vesting account (genesis schedule ending at T0+VestEnd seconds)

type c15Env struct {
	c     *ec.Chain
	vest  ec.Key
	keys  []ec.Key
	sub   []ec.Key // multisig members
	mpk   crypto.PubKey
	maddr crypto.Address
}

func c15Setup(vestEnd int64) (*c15Env, error) {
	e := &c15Env{keys: ec.Keys(4), vest: ec.NewKey("vesting")}
	e.sub = []ec.Key{ec.NewKey("m0"), ec.NewKey("m1"), ec.NewKey("m2")}
	e.mpk = multisig.NewPubKeyMultisigThreshold(2, []crypto.PubKey{e.sub[0].Pub, e.sub[1].Pub, e.sub[2].Pub})
	e.maddr = e.mpk.Address()
	gen := ec.GenesisWithBalances(1e13, e.keys...)
	gen.Balances = append(gen.Balances, gen.Balances[0])
	gen.Balances[len(gen.Balances)-1].Address = e.maddr
	if vestEnd <= 1 {
		vestEnd = 2
	}
	gen.Balances = append(gen.Balances, gnoland.Balance{Address: e.vest.Addr, Amount: std.Coins{std.NewCoin("ugnot", 1e13)},
		Vesting: &std.VestingSchedule{OriginalVesting: std.Coins{std.NewCoin("ugnot", 4e12)}, StartTime: ec.T0.Unix() + 1, EndTime: ec.T0.Unix() + vestEnd}})
	c, _, err := ec.New(nil, gen, ec.Options{})
	if err != nil {
		return nil, err
	}
	e.c = c
	c.Begin(1)
	r, _, err := c.Send([]std.Msg{ec.AddPkg(e.keys[0].Addr, ec.PathCtr, map[string]string{"a.gno": ec.RealmCtr}, nil)}, 50_000_000, 1_000_000, e.keys[0])
	if err != nil || r.Error != nil {
		return nil, fmt.Errorf("deploy: %v %v", err, r.Error)
	}
	c.End()
	return e, nil
}

func (e *c15Env) keyOf(i int) ec.Key {
	if i == c15Vest {
		return e.vest
	}
	return e.keys[i%len(e.keys)]
}

func (e *c15Env) addrOf(i int) crypto.Address {
	if i == c15Multi {
		return e.maddr
	}
	if i == c15Vest {
		return e.vest.Addr
	}
	return e.keys[i%len(e.keys)].Addr
}

// sign produces the signature of signer i over tx with the given sign data.
// members selects the multisig members that sign (indexes into e.sub).
func (e *c15Env) sign(tx std.Tx, i int, chainID string, num, seq uint64, members []int, withPub bool) std.Signature {
	sb, err := tx.GetSignBytes(chainID, num, seq)
	if err != nil {
		panic(err)
	}
	if i == c15Multi {
		ms := multisig.NewMultisig(3)
		pks := []crypto.PubKey{e.sub[0].Pub, e.sub[1].Pub, e.sub[2].Pub}
		for _, m := range members {
			s, _ := e.sub[m].Priv.Sign(sb)
			ms.AddSignatureFromPubKey(s, e.sub[m].Pub, pks)
		}
		sig := std.Signature{Signature: ms.Marshal()}
		if withPub {
			sig.PubKey = e.mpk
		}
		return sig
	}
	k := e.keyOf(i)
	s, _ := k.Priv.Sign(sb)
	sig := std.Signature{Signature: s}
	if withPub {
		sig.PubKey = k.Pub
	}
	return sig
}

// oracleValid recomputes, independently of the ante handler, whether every
// required signer of tx provided a valid signature over (chain id, account
// number, current sequence), using committed account data.
func (e *c15Env) oracleValid(tx std.Tx) (bool, string) {
	signers := tx.GetSigners()
	if len(tx.Signatures) == 0 || len(tx.Signatures) != len(signers) {
		return false, "signature count"
	}
	for i, addr := range signers {
		ai, err := e.c.Account(addr)
		if err != nil || !ai.Exists {
			return false, "unknown account"
		}
		acc, err := e.storedPubKey(addr)
		if err != nil {
			return false, err.Error()
		}
		pk := tx.Signatures[i].PubKey
		if pk == nil {
			pk = acc
		} else if acc != nil && !bytes.Equal(pk.Bytes(), acc.Bytes()) {
			return false, "pubkey differs from stored"
		} else if acc == nil && pk.Address() != addr {
			return false, "pubkey does not match address"
		}
		if pk == nil {
			return false, "no pubkey"
		}
		sb, _ := tx.GetSignBytes(ec.ChainID, ai.Number, ai.Sequence)
		if !pk.VerifyBytes(sb, tx.Signatures[i].Signature) {
			return false, fmt.Sprintf("signature %d does not verify", i)
		}
	}
	return true, ""
}

func (e *c15Env) storedPubKey(addr crypto.Address) (crypto.PubKey, error) {
	rd, err := ec.OpenReader(e.c.DB)
	if err != nil {
		return nil, err
	}
	acc := rd.Acck.GetAccount(rd.Ctx, addr)
	if acc == nil {
		return nil, fmt.Errorf("no account")
	}
	return acc.GetPubKey(), nil
}

type c15Step struct {
	name   string
	tx     std.Tx
	expect string // "accept" | "reject" | "oracle"
}

func c15Exec(ctx *vk.Ctx, c c15Case) error {
	e, err := c15Setup(c.VestEnd)
	if err != nil {
		return err
	}
	ch := e.c
	ctx.Class("mut=" + c.Mut)
	for _, sg := range c.Signers {
		ctx.ClassIf(sg == c15Vest, "vesting-signer")
	}
	// warm-up: advance signer sequences and (unless OmitPubK needs a stored key) register pubkeys
	tsec := int64(10)
	for w := 0; w < c.Warm; w++ {
		ch.Begin(tsec)
		tsec += 5
		for _, s := range uniq(c.Signers) {
			if s == c15Multi {
				tx := e.build(c, []int{c15Multi}, false)
				e.fill(&tx, []int{c15Multi}, ec.ChainID, nil, nil, true)
				bz, _ := amino.Marshal(tx)
				if r := ch.Deliver(bz); r.Error != nil {
					return fmt.Errorf("harness: warm-up multisig tx rejected: %v", r.Error)
				}
			} else {
				k := e.keyOf(s)
				if r, _, err := ch.Send([]std.Msg{bank.MsgSend{FromAddress: k.Addr, ToAddress: e.keys[3].Addr, Amount: std.Coins{std.NewCoin("ugnot", 1)}}}, 10_000_000, 1_000_000, k); err != nil || r.Error != nil {
					return fmt.Errorf("harness: warm-up tx rejected: %v %v", err, r.Error)
				}
			}
		}
		ch.End()
	}
	if c.OmitPubK && c.Warm == 0 {
		c.OmitPubK = false // a first tx must carry its pubkey: not a mutation, a precondition
	}
	signers := uniq(c.Signers)
	good := e.build(c, signers, c.UseCall)
	e.fill(&good, signers, ec.ChainID, nil, nil, !c.OmitPubK)
	bad := e.build(c, signers, c.UseCall)
	e.fill(&bad, signers, ec.ChainID, nil, nil, !c.OmitPubK)
	applicable := e.mutate(&bad, c, signers)
	ctx.ClassIf(!applicable, "mutation-not-applicable")

	deliver := func(name string, tx std.Tx, expect string) error {
		bz, err := amino.Marshal(tx)
		if err != nil {
			return fmt.Errorf("harness: marshal: %v", err)
		}
		valid, why := e.oracleValid(tx)
		before, err := ch.Dump()
		if err != nil {
			return err
		}
		seqBefore := map[string]uint64{}
		for _, a := range tx.GetSigners() {
			ai, _ := ch.Account(a)
			seqBefore[a.String()] = ai.Sequence
		}
		feeBefore, _ := ch.Account(tx.GetSigners()[0])
		ch.Begin(tsec)
		tsec += 5
		r := ch.Deliver(bz)
		ch.End()
		after, err := ch.Dump()
		if err != nil {
			return err
		}
		antePassed := r.GasWanted > 0
		ctx.Note(name, fmt.Sprintf("oracleValid=%v(%s) antePassed=%v err=%v", valid, why, antePassed, r.Error))
		if antePassed && !valid {
			return fmt.Errorf("%s: tx took effect (ante passed, err=%v) although the independent check says: %s", name, r.Error, why)
		}
		if !antePassed {
			if r.Error == nil {
				return fmt.Errorf("%s: response OK but GasWanted=0", name)
			}
			if d := ec.Diff(before, after, nil); d != "" {
				return fmt.Errorf("%s: tx rejected by the ante (%v) but committed state changed:\n%s", name, r.Error, d)
			}
		} else {
			for _, a := range tx.GetSigners() {
				ai, _ := ch.Account(a)
				if ai.Sequence != seqBefore[a.String()]+1 {
					return fmt.Errorf("%s: accepted tx moved sequence of %s from %d to %d", name, a, seqBefore[a.String()], ai.Sequence)
				}
			}
			feeAfter, _ := ch.Account(tx.GetSigners()[0])
			if feeBefore.Coins.AmountOf("ugnot")-feeAfter.Coins.AmountOf("ugnot") < tx.Fee.GasFee.Amount {
				return fmt.Errorf("%s: accepted tx did not pay its fee", name)
			}
		}
		switch expect {
		case "accept":
			if !antePassed {
				return fmt.Errorf("%s: a correctly signed, fresh, funded tx was rejected: %v (oracle: valid=%v %s)", name, r.Error, valid, why)
			}
		case "reject":
			if antePassed {
				return fmt.Errorf("%s: tx took effect a second time (err=%v)", name, r.Error)
			}
		case "oracle":
			if valid && !antePassed {
				// valid per signatures; the only other ante conditions are fee/gas/memo, which the mutations may legitimately break
				if c.Mut != "fee-after-sign" {
					return fmt.Errorf("%s: independently valid tx rejected: %v", name, r.Error)
				}
			}
		}
		ctx.ClassIf(antePassed, "accepted:"+name)
		return nil
	}

	validBad, _ := e.oracleValid(bad)
	ctx.NTIf(c.Mut != "none" && applicable)
	if err := deliver("mutated", bad, "oracle"); err != nil {
		return err
	}
	if err := deliver("mutated-replay", bad, map[bool]string{true: "reject", false: "reject"}[validBad]); err != nil {
		return err
	}
	if !validBad {
		// the original must still be fresh: nothing above may have consumed its sequence
		if err := deliver("original", good, "accept"); err != nil {
			return err
		}
		if err := deliver("original-replay", good, "reject"); err != nil {
			return err
		}
	}
	return nil
}

func uniq(xs []int) []int {
	var out []int
	seen := map[int]bool{}
	for _, x := range xs {
		if !seen[x] {
			seen[x] = true
			out = append(out, x)
		}
	}
	return out
}

// build creates the unsigned tx: one message per signer (so the signer set is
// exactly signers, in order).
func (e *c15Env) build(c c15Case, signers []int, useCall bool) std.Tx {
	var msgs []std.Msg
	for j, s := range signers {
		from := e.addrOf(s)
		if useCall && j == 0 {
			msgs = append(msgs, ec.Call(from, ec.PathCtr, "Inc", []string{"1"}, nil))
		} else {
			msgs = append(msgs, bank.MsgSend{FromAddress: from, ToAddress: e.keys[3].Addr, Amount: std.Coins{std.NewCoin("ugnot", 1000)}})
		}
	}
	return std.Tx{Msgs: msgs, Fee: std.Fee{GasWanted: 20_000_000, GasFee: std.NewCoin("ugnot", 1_000_000)}}
}

// fill signs tx for every signer with committed numbers/sequences (optionally
// overridden per signer index through numOv/seqOv).
func (e *c15Env) fill(tx *std.Tx, signers []int, chainID string, numOv, seqOv map[int]uint64, withPub bool) {
	tx.Signatures = make([]std.Signature, len(signers))
	for j, s := range signers {
		ai, _ := e.c.Account(e.addrOf(s))
		num, seq := ai.Number, ai.Sequence
		if v, ok := numOv[j]; ok {
			num = v
		}
		if v, ok := seqOv[j]; ok {
			seq = v
		}
		tx.Signatures[j] = e.sign(*tx, s, chainID, num, seq, []int{0, 1}, withPub)
	}
}

// mutate applies the mutation; it reports whether it was applicable.
func (e *c15Env) mutate(tx *std.Tx, c c15Case, signers []int) bool {
	j := c.Arg % len(signers)
	withPub := !c.OmitPubK
	ai, _ := e.c.Account(e.addrOf(signers[j]))
	switch c.Mut {
	case "none":
		return true
	case "flip-sig-byte":
		s := append([]byte{}, tx.Signatures[j].Signature...)
		s[(c.Arg/7)%len(s)] ^= 1 << uint(c.Arg%8)
		tx.Signatures[j].Signature = s
	case "flip-body-amount":
		for i, m := range tx.Msgs {
			if ms, ok := m.(bank.MsgSend); ok {
				ms.Amount = std.Coins{std.NewCoin("ugnot", 1001)}
				tx.Msgs[i] = ms
				return true
			}
		}
		return false
	case "wrong-chainid":
		tx.Signatures[j] = e.sign(*tx, signers[j], "other-chain", ai.Number, ai.Sequence, []int{0, 1}, withPub)
	case "wrong-accnum":
		tx.Signatures[j] = e.sign(*tx, signers[j], ec.ChainID, ai.Number+1, ai.Sequence, []int{0, 1}, withPub)
	case "seq-plus-1":
		tx.Signatures[j] = e.sign(*tx, signers[j], ec.ChainID, ai.Number, ai.Sequence+1, []int{0, 1}, withPub)
	case "seq-minus-1":
		if ai.Sequence == 0 {
			return false
		}
		tx.Signatures[j] = e.sign(*tx, signers[j], ec.ChainID, ai.Number, ai.Sequence-1, []int{0, 1}, withPub)
	case "swap-sigs":
		if len(signers) < 2 {
			return false
		}
		tx.Signatures[0], tx.Signatures[1] = tx.Signatures[1], tx.Signatures[0]
	case "drop-sig":
		tx.Signatures = tx.Signatures[:len(tx.Signatures)-1]
		if len(tx.Signatures) == 0 {
			tx.Signatures = nil
		}
	case "extra-sig":
		tx.Signatures = append(tx.Signatures, tx.Signatures[0])
	case "other-key-sig":
		other := ec.NewKey("intruder")
		sb, _ := tx.GetSignBytes(ec.ChainID, ai.Number, ai.Sequence)
		s, _ := other.Priv.Sign(sb)
		tx.Signatures[j].Signature = s
	case "other-key-pubkey":
		other := ec.NewKey("intruder")
		sb, _ := tx.GetSignBytes(ec.ChainID, ai.Number, ai.Sequence)
		s, _ := other.Priv.Sign(sb)
		tx.Signatures[j] = std.Signature{PubKey: other.Pub, Signature: s}
	case "empty-sig":
		tx.Signatures[j].Signature = nil
	case "memo-after-sign":
		tx.Memo = "changed"
	case "fee-after-sign":
		tx.Fee.GasFee = std.NewCoin("ugnot", 999_999)
	case "multisig-k-minus-1", "multisig-wrong-member", "multisig-dup-sig":
		mi := -1
		for i, s := range signers {
			if s == c15Multi {
				mi = i
			}
		}
		if mi < 0 {
			return false
		}
		mai, _ := e.c.Account(e.maddr)
		switch c.Mut {
		case "multisig-k-minus-1":
			tx.Signatures[mi] = e.sign(*tx, c15Multi, ec.ChainID, mai.Number, mai.Sequence, []int{c.Arg % 3}, withPub)
		case "multisig-wrong-member":
			// one good member signature and one made by an outsider placed at a member's position
			sb, _ := tx.GetSignBytes(ec.ChainID, mai.Number, mai.Sequence)
			ms := multisig.NewMultisig(3)
			s0, _ := e.sub[0].Priv.Sign(sb)
			ms.AddSignature(s0, 0)
			so, _ := ec.NewKey("intruder").Priv.Sign(sb)
			ms.AddSignature(so, 1+c.Arg%2)
			tx.Signatures[mi].Signature = ms.Marshal()
		case "multisig-dup-sig":
			// the same member's signature placed at two positions
			sb, _ := tx.GetSignBytes(ec.ChainID, mai.Number, mai.Sequence)
			ms := multisig.NewMultisig(3)
			s0, _ := e.sub[0].Priv.Sign(sb)
			ms.AddSignature(s0, 0)
			ms.AddSignature(s0, 1)
			tx.Signatures[mi].Signature = ms.Marshal()
		}
	}
	return true
}

func TestC15_Signatures(t *testing.T) {
	vk.Run(t, vk.Spec[c15Case]{
		ID: "C15", Name: "TestC15_Signatures",
		Rule: "rapid: a valid signed tx (1-2 signers out of 3 secp256k1 accounts, a 2-of-3 multisig account and a vesting account whose schedule ends before, during or after the case; bank sends and a realm call; pubkey embedded or omitted; 0-2 warm-up rounds advancing sequences) plus one of 18 mutations (signature/body/memo/fee bytes, chain id, account number, sequence +-1, swapped/dropped/extra/empty/foreign signatures, foreign pubkey, multisig k-1 / outsider / duplicated member); the mutated tx, its replay, the original and its replay are each delivered in their own block; non-trivial = a real mutation that was applicable to the drawn signer set",
		Draw: func(rt *rapid.T) c15Case {
			c := c15Case{Mut: rapid.SampledFrom(c15Muts).Draw(rt, "mut"), Arg: rapid.IntRange(0, 1000).Draw(rt, "arg")}
			pool := []int{0, 1, 2, c15Multi, c15Multi, c15Vest, c15Vest}
			c.VestEnd = rapid.SampledFrom([]int64{12, 17, 22, 27, 100000}).Draw(rt, "vestend")
			n := rapid.IntRange(1, 2).Draw(rt, "nsigners")
			for i := 0; i < n; i++ {
				c.Signers = append(c.Signers, rapid.SampledFrom(pool).Draw(rt, "signer"))
			}
			c.Warm = rapid.IntRange(0, 2).Draw(rt, "warm")
			c.UseCall = rapid.Bool().Draw(rt, "call")
			c.OmitPubK = rapid.Bool().Draw(rt, "omitpk")
			return c
		},
		Exec: c15Exec,
	})
}
