package chain

import (
	"fmt"
	"strconv"
	"strings"
	"testing"

	abci "github.com/gnolang/gno/tm2/pkg/bft/abci/types"
	"pgregory.net/rapid"
	ec "verif/eng/chain"
	"verif/vk"
)

// C14 — supply conservation and record well-formedness after every commit.
// Two oracles: the repository's own invariants evaluated through an
// independent keeper stack, and a recomputation from the raw keys.

type c14Case struct {
	H ec.History `json:"h"`
}

const tokDenom = "/" + ec.PathBank + ":tok"

func c14DrawMsg(rt *rapid.T, nacc int) ec.HMsg {
	addr := func(l string) string { return "@" + strconv.Itoa(rapid.IntRange(-2, nacc-1).Draw(rt, l)) }
	switch rapid.IntRange(0, 11).Draw(rt, "k") {
	case 0, 1:
		return ec.HMsg{Kind: "send", To: rapid.IntRange(-3, nacc-1).Draw(rt, "to"), Amt: rapid.SampledFrom([]int64{1, 777, 1_000_000, 1 << 50}).Draw(rt, "amt"), Den: "ugnot"}
	case 2, 3:
		return ec.HMsg{Kind: "send", To: rapid.IntRange(-3, nacc-1).Draw(rt, "to"), Amt: rapid.SampledFrom([]int64{1, 3, 7, 1000}).Draw(rt, "amt"), Den: tokDenom}
	case 4, 5, 6:
		return ec.HMsg{Kind: "call", Pkg: ec.PathBank, Fn: "Mint", Args: []string{addr("to"), strconv.Itoa(rapid.SampledFrom([]int{1, 7, 1000}).Draw(rt, "amt"))}}
	case 7, 8:
		return ec.HMsg{Kind: "call", Pkg: ec.PathBank, Fn: "Burn", Args: []string{addr("from"), strconv.Itoa(rapid.SampledFrom([]int{1, 7, 5000}).Draw(rt, "amt"))}}
	case 9:
		return ec.HMsg{Kind: "call", Pkg: ec.PathBank, Fn: "Deposit", Send: rapid.SampledFrom([]int64{1, 5000, 1_000_000}).Draw(rt, "send")}
	case 10:
		return ec.HMsg{Kind: "call", Pkg: ec.PathBank, Fn: "Pay", Args: []string{addr("to"), strconv.Itoa(rapid.SampledFrom([]int{1, 50, 5000, 1 << 40}).Draw(rt, "amt"))}}
	default:
		return ec.DrawMsg(rt, nacc) // storage growth/shrink => deposits and refunds, failing txs
	}
}

func c14Draw(rt *rapid.T) c14Case {
	h := ec.History{NAcc: rapid.IntRange(2, 5).Draw(rt, "nacc")}
	nb := rapid.IntRange(8, 30).Draw(rt, "nblocks")
	for b := 0; b < nb; b++ {
		blk := ec.HBlock{DT: int64(rapid.IntRange(1, 50).Draw(rt, "dt"))}
		nt := rapid.IntRange(1, 2).Draw(rt, "ntx")
		for i := 0; i < nt; i++ {
			tx := ec.HTx{Signer: rapid.IntRange(0, h.NAcc-1).Draw(rt, "signer"), Fee: 1_000_000, Gas: 60_000_000}
			if rapid.IntRange(0, 9).Draw(rt, "tight") == 0 {
				tx.Gas = rapid.Int64Range(1_000_000, 3_000_000).Draw(rt, "gas")
			}
			nm := rapid.IntRange(1, 2).Draw(rt, "nm")
			for j := 0; j < nm; j++ {
				tx.Msgs = append(tx.Msgs, c14DrawMsg(rt, h.NAcc))
			}
			blk.Txs = append(blk.Txs, tx)
		}
		h.Blocks = append(h.Blocks, blk)
	}
	return c14Case{H: h}
}

func c14Exec(ctx *vk.Ctx, c c14Case) error {
	var prev *ec.Ledger
	var blockRes [][]abci.ResponseDeliverTx
	cur := []abci.ResponseDeliverTx{}
	mints, burns, failedBetween := 0, 0, false
	sawMint := false
	ntAll := false
	var firstErr error
	cfg := ec.Config{
		AfterTx: func(ch *ec.Chain, b, i int, r abci.ResponseDeliverTx) { cur = append(cur, r) },
		AfterBlk: func(ch *ec.Chain, b int) error {
			blockRes = append(blockRes, cur)
			res := cur
			cur = []abci.ResponseDeliverTx{}
			rd, err := ec.OpenReader(ch.DB)
			if err != nil {
				return err
			}
			if err := rd.RepoInvariants(); err != nil {
				return fmt.Errorf("after block %d: %v", b, err)
			}
			l := ec.LedgerOf(rd.MainDump())
			if len(l.Problems) > 0 {
				return fmt.Errorf("after block %d: malformed records: %s", b, strings.Join(l.Problems, "; "))
			}
			for _, den := range l.Denoms() {
				if l.Total(den) != l.Supply[den] {
					return fmt.Errorf("after block %d: denom %s: sum of balances %d != recorded supply %d", b, den, l.Total(den), l.Supply[den])
				}
			}
			// supply may change only by the explicit mints/burns of successful txs
			var wantDelta int64
			for ti, r := range res {
				if r.Error != nil {
					if sawMint {
						failedBetween = true
					}
					continue
				}
				for _, m := range c.H.Blocks[b].Txs[ti].Msgs {
					if m.Kind == "call" && m.Pkg == ec.PathBank && (m.Fn == "Mint" || m.Fn == "Burn") {
						amt, _ := strconv.ParseInt(m.Args[1], 10, 64)
						if m.Fn == "Mint" {
							wantDelta += amt
							mints++
							sawMint = true
						} else {
							wantDelta -= amt
							burns++
							if failedBetween {
								ntAll = true
							}
						}
					}
				}
			}
			if prev != nil {
				for _, den := range unionDenoms(prev, l) {
					delta := l.Supply[den] - prev.Supply[den]
					want := int64(0)
					if den == tokDenom {
						want = wantDelta
					}
					if delta != want {
						return fmt.Errorf("block %d: supply of %s changed by %d, explicit mint/burn in successful txs account for %d", b, den, delta, want)
					}
				}
			}
			prev = l
			return nil
		},
	}
	_, _, err := ec.Run(c.H, cfg)
	if err != nil {
		return err
	}
	_ = firstErr
	ctx.ClassIf(mints > 0, "has-mint")
	ctx.ClassIf(burns > 0, "has-burn")
	ctx.ClassIf(ntAll, "mint-failedtx-burn")
	ctx.NTIf(ntAll)
	ctx.Note("mints", mints)
	ctx.Note("burns", burns)
	return nil
}

func unionDenoms(a, b *ec.Ledger) []string {
	set := map[string]bool{}
	for _, d := range a.Denoms() {
		set[d] = true
	}
	for _, d := range b.Denoms() {
		set[d] = true
	}
	var out []string
	for d := range set {
		out = append(out, d)
	}
	// order irrelevant for a pure check, but keep deterministic error text
	for i := range out {
		for j := i + 1; j < len(out); j++ {
			if out[j] < out[i] {
				out[i], out[j] = out[j], out[i]
			}
		}
	}
	return out
}

func TestC14_Supply(t *testing.T) {
	vk.Run(t, vk.Spec[c14Case]{
		ID: "C14", Name: "TestC14_Supply",
		Rule: "rapid: histories of 8-30 blocks of 1-2 txs (1-2 msgs) biased to bank activity: ugnot and realm-denom sends (also to fresh addresses, also exceeding balances), realm Mint/Burn of /pkg:tok, OriginSend deposits, realm payouts, plus storage-changing VM txs (deposits/refunds) and failing/out-of-gas txs; after every commit the repo invariants run on an independent keeper stack and the ledger is recomputed from raw keys; non-trivial = a successful mint, then a failed tx, then a successful burn",
		Draw: c14Draw, Exec: c14Exec,
	})
}
