package realm

import (
	"fmt"
	"os"
	"strconv"
	"strings"
	"testing"
	"time"

	"pgregory.net/rapid"
	"verif/vk"
)

// C03 — realm behaviour is independent of persistence boundaries.
// Execution P: every call is its own MsgCall transaction in its own block
// (objects are re-loaded from the store by every transaction; in half of the
// cases the whole application is additionally rebuilt from the DB at 1-2 call
// boundaries). Execution M: the same package on a second fresh chain whose
// init() ends by performing the whole call sequence in memory, inside the
// deployment transaction, before any object has ever been persisted. The
// per-call return strings and the final Dump() must agree; M's Dump() read back
// after its single commit must agree as well.

const c03Pkg = "gno.land/r/cx/prog"

const c03KeyShallow = "value-copy-shares-unloaded-nested-aggregate"

type c03Call struct {
	Fn int    `json:"fn"`
	A  int    `json:"a"`
	S  string `json:"s"`
}

type c03Case struct {
	Prog     c03Prog   `json:"prog"`
	Calls    []c03Call `json:"calls"`
	Restarts []bool    `json:"restarts"` // restart the application before call i
}

func c03DrawCalls(rt *rapid.T, nf, lo, hi int) []c03Call {
	n := rapid.IntRange(lo, hi).Draw(rt, "ncalls")
	calls := make([]c03Call, n)
	for i := range calls {
		calls[i] = c03Call{
			Fn: rapid.IntRange(0, nf-1).Draw(rt, "fn"),
			A:  rapid.SampledFrom([]int{0, 1, 2, 3, 5, -1, 7}).Draw(rt, "a"),
			S:  rapid.SampledFrom([]string{"a", "b", "k", "z", ""}).Draw(rt, "s"),
		}
	}
	return calls
}

func c03Draw(rt *rapid.T) c03Case {
	p := c03DrawProg(rt, "prog", 3, 8)
	c := c03Case{Prog: p, Calls: c03DrawCalls(rt, len(p.Funcs), 3, 15)}
	c.Restarts = make([]bool, len(c.Calls))
	// half of the cases in the thorough tier, a quarter in the quick tier (the
	// quick budget cannot pay more rebuilds on the loaded machine)
	pr := 1
	if os.Getenv("VERIF_TIER") != "thorough" {
		pr = 3
	}
	if rapid.IntRange(0, pr).Draw(rt, "restarts") == 0 {
		// cold caches: a full application rebuild at a drawn call boundary (a
		// rebuild re-preprocesses every stdlib: 1-2 s idle, 10-40 s when the
		// machine is loaded), and a second one before the final Dump()
		c.Restarts[rapid.IntRange(0, len(c.Calls)-1).Draw(rt, "rpos")] = true
	}
	return c
}

// c03Full completes a generated program: atInit selects execution M, where
// init() ends by running the whole call sequence in memory (no object has been
// persisted yet) and keeps the concatenated per-call results in Result.
func c03Full(p c03Prog, calls []c03Call, atInit bool) string {
	var sb strings.Builder
	sb.WriteString(p.Src)
	fmt.Fprintf(&sb, "\nconst atInit = %v\n\nvar Result string\n\nfunc runAll() string {\n\tout := \"\"\n", atInit)
	for _, cl := range calls {
		fmt.Fprintf(&sb, "\tout += f%s(%d, %s) + \"~\"\n", strings.TrimPrefix(p.Funcs[cl.Fn].Name, "F"), cl.A, strconv.Quote(cl.S))
	}
	sb.WriteString("\tout += Dump()\n\treturn out\n}\n")
	return sb.String()
}

// c03Vars splits a Dump() rendering into its per-variable segments.
func c03Vars(d string) map[string]string {
	out := map[string]string{}
	for _, seg := range strings.Split(d, ";") {
		if i := strings.Index(seg, "="); i > 0 {
			out[seg[:i]] = seg[i+1:]
		}
	}
	return out
}

var c03Debug = os.Getenv("C03_DEBUG") != ""

// c03OOG: a Dump() too expensive for the query gas limit says nothing about
// persistence; such cases are discarded and counted.
func c03OOG(ctx *vk.Ctx, err error) bool {
	if err != nil && strings.Contains(err.Error(), "out of gas") {
		ctx.Class("discard:out-of-gas")
		return true
	}
	return false
}

func c03Exec(ctx *vk.Ctx, c c03Case) error {
	if c03Debug {
		t0 := time.Now()
		defer func() { fmt.Printf("C03 case: %d calls, %v\n", len(c.Calls), time.Since(t0)) }()
	}
	src := c03Full(c.Prog, c.Calls, false)
	srcM := c03Full(c.Prog, c.Calls, true)
	if os.Getenv("C03_SRC") != "" {
		fmt.Println(src)
		return nil
	}
	// ---- execution P
	p, err := rkNew()
	if err != nil {
		return fmt.Errorf("harness: %v", err)
	}
	dr, err := p.Deploy(c03Pkg, src)
	if err != nil {
		return fmt.Errorf("harness: %v", err)
	}
	if dr.Error != nil {
		if c03Debug {
			fmt.Printf("C03 deploy failed: %s\n%s\n", rkErr(dr), src)
		}
		ctx.Class("discard:deploy-failed")
		return nil
	}
	prev, err := p.QStr(c03Pkg, "Dump()")
	if c03OOG(ctx, err) {
		return nil
	}
	if err != nil {
		return fmt.Errorf("P: Dump() after deploy failed: %v", err)
	}
	prevVars := c03Vars(prev)
	var pRes []string
	pFailed := ""
	crossAlias := 0
	restarts := 0
	for i, cl := range c.Calls {
		if i < len(c.Restarts) && c.Restarts[i] {
			if err := p.C.Restart(); err != nil {
				return fmt.Errorf("P: restart before call %d: %v", i, err)
			}
			restarts++
		}
		r, err := p.Call(c03Pkg, c.Prog.Funcs[cl.Fn].Name, strconv.Itoa(cl.A), cl.S)
		if err != nil {
			return fmt.Errorf("harness: %v", err)
		}
		if r.Error != nil {
			if pFailed == "" {
				pFailed = fmt.Sprintf("call %d (%s): %s", i, c.Prog.Funcs[cl.Fn].Name, rkErr(r))
			}
			pRes = append(pRes, "<failed>")
			continue
		}
		s, err := rkRetString(r.Data)
		if err != nil {
			return fmt.Errorf("P: call %d: %v", i, err)
		}
		pRes = append(pRes, s)
		d, err := p.QStr(c03Pkg, "Dump()")
		if c03OOG(ctx, err) {
			return nil
		}
		if err != nil {
			return fmt.Errorf("P: Dump() after call %d failed: %v", i, err)
		}
		vars := c03Vars(d)
		wrote := map[string]bool{}
		for _, w := range c.Prog.Funcs[cl.Fn].Wrote {
			wrote[w] = true
		}
		for _, v := range c.Prog.Vars {
			if vars[v] != prevVars[v] && !wrote[v] {
				crossAlias++ // a write through other roots is visible through v
			}
		}
		prevVars = vars
	}
	pFinal, err := p.QStr(c03Pkg, "Dump()")
	if c03OOG(ctx, err) {
		return nil
	}
	if err != nil {
		return fmt.Errorf("P: final Dump() failed: %v", err)
	}
	if restarts > 0 && ctx.Tier() == "thorough" {
		// second rebuild before a last read (thorough tier only: a rebuild
		// costs 10-40 s on the loaded machine)
		if err := p.C.Restart(); err != nil {
			return fmt.Errorf("P: final restart: %v", err)
		}
		again, err := p.QStr(c03Pkg, "Dump()")
		if c03OOG(ctx, err) {
			return nil
		}
		if err != nil || again != pFinal {
			return fmt.Errorf("P: Dump() differs after a restart:\n before=%s\n after =%s (%v)", pFinal, again, err)
		}
	}
	// ---- execution M: everything inside the deployment transaction
	m, err := rkNew()
	if err != nil {
		return fmt.Errorf("harness: %v", err)
	}
	mr, err := m.Deploy(c03Pkg, srcM)
	if err != nil {
		return fmt.Errorf("harness: %v", err)
	}
	if mr.Error != nil || pFailed != "" {
		if strings.Contains(pFailed, "out of gas") || strings.Contains(rkErr(mr), "out of gas") {
			// M pays for the whole sequence with one gas budget: running out of
			// gas says nothing about persistence
			ctx.Class("discard:out-of-gas")
			return nil
		}
		if mr.Error != nil && pFailed != "" {
			if c03Debug {
				fmt.Printf("C03 both failed: P: %s\nM: %s\n%s\n", pFailed, rkErr(mr), src)
			}
			ctx.Class("discard:both-failed")
			return nil
		}
		return fmt.Errorf("only one execution failed: separate txs: %q  in memory: %q", pFailed, rkErr(mr))
	}
	all, err := m.QStr(c03Pkg, "Result")
	if c03OOG(ctx, err) {
		return nil
	}
	if err != nil {
		return fmt.Errorf("M: reading Result: %v", err)
	}
	parts := strings.Split(all, "~")
	if len(parts) != len(c.Calls)+1 {
		return fmt.Errorf("M: runAll returned %d parts for %d calls: %q", len(parts), len(c.Calls), all)
	}
	// Known divergence of the unchanged tree: copying a struct/array value that
	// was loaded from the store shares its nested, not yet loaded arrays/structs
	// with the source (StructValue.Copy / ArrayValue.Copy copy a RefValue field
	// shallowly), so later writes to one show through the other. Only programs
	// that copy such a value from a place can be affected.
	diverged := func(err error) error {
		if c.Prog.NestedCopy > 0 && ctx.Known(c03KeyShallow) {
			ctx.Class("known:" + c03KeyShallow)
			return nil
		}
		return err
	}
	for i := range c.Calls {
		if parts[i] != pRes[i] {
			return diverged(fmt.Errorf("call %d (%s(%d,%q)) returns differ:\n separate txs: %s\n in memory   : %s", i, c.Prog.Funcs[c.Calls[i].Fn].Name, c.Calls[i].A, c.Calls[i].S, pRes[i], parts[i]))
		}
	}
	if parts[len(c.Calls)] != pFinal {
		return diverged(fmt.Errorf("final Dump() differs:\n separate txs: %s\n in memory   : %s", pFinal, parts[len(c.Calls)]))
	}
	mFinal, err := m.QStr(c03Pkg, "Dump()")
	if c03OOG(ctx, err) {
		return nil
	}
	if err != nil || mFinal != pFinal {
		return diverged(fmt.Errorf("Dump() of the in-memory chain, read back after its only commit, differs:\n separate txs: %s\n in memory   : %s (%v)", pFinal, mFinal, err))
	}
	ctx.ClassIf(c.Prog.NestedCopy > 0, "copies-value-with-nested-aggregate")
	ctx.ClassIf(restarts > 0, "with-restart")
	ctx.ClassIf(c.Prog.Alias > 0, "has-alias-construct")
	ctx.ClassIf(crossAlias > 0, "write-seen-through-other-alias-in-later-tx")
	ctx.NTIf(c.Prog.Alias > 0 && crossAlias > 0)
	ctx.Note("cross_alias_observations", crossAlias)
	return nil
}

const c03Rule = "rapid: typed grammar of realm programs (1-3 declared structs with methods, 10-15 package variables incl. two maps with composite keys (pointer, [2]*S0, struct holding a pointer, interface, [2]int, [2]struct; rendered by pointee contents with len and explicit lookups) and three *S0 key variables, the others of nesting depth <= 3 over int/string/bool/uint8, arrays, slices incl. sub-slices of one backing array and spare capacity, maps, pointers incl. pointers into arrays/struct fields/slice elements, closures capturing variables, pointers and slices, an interface holding declared pointer/value types), init() with alias-making statements, 3-8 crossing functions of 2-5 guarded statements over generated places, 3-15 calls with arguments; P = one MsgCall tx per call (objects reloaded every tx; application rebuilt from the DB at one drawn call boundary (thorough tier: and again before the final Dump()) in half of the cases, a quarter in the quick tier), M = the whole sequence in memory at the end of init() of the same package deployed on a second chain (nothing persisted before or between the calls); non-trivial = the program text has an alias-making construct and some call changed the rendering of a variable that the called function does not write through (a write through one alias, made after a persistence boundary, read through another)"

func TestC03_Transparency(t *testing.T) {
	vk.Run(t, vk.Spec[c03Case]{ID: "C03", Name: "TestC03_Transparency", Rule: c03Rule, Draw: c03Draw, Exec: c03Exec})
}
