// Package realm holds the GnoVM realm-persistence checks C03, C06 and C07.
// This file is the shared kit: a thin driver over eng/chain (one tx per block)
// and an independent decoder of the persisted object graph (oid: entries of
// the base store, escaped-hash index of the main store).
package realm

import (
	"bytes"
	"encoding/hex"
	"encoding/json"
	"fmt"
	"reflect"
	"sort"
	"strconv"
	"strings"

	"github.com/gnolang/gno/gno.land/pkg/sdk/vm"
	"github.com/gnolang/gno/gnovm/pkg/gnolang"
	"github.com/gnolang/gno/tm2/pkg/amino"
	abci "github.com/gnolang/gno/tm2/pkg/bft/abci/types"
	dbm "github.com/gnolang/gno/tm2/pkg/db"
	"github.com/gnolang/gno/tm2/pkg/db/memdb"
	"github.com/gnolang/gno/tm2/pkg/std"
	"github.com/gnolang/gno/tm2/pkg/store"
	storebptree "github.com/gnolang/gno/tm2/pkg/store/bptree"
	"github.com/gnolang/gno/tm2/pkg/store/dbadapter"
	ec "verif/eng/chain"
)

const (
	rkGas = 300_000_000
	rkFee = 10_000_000
)

// rkChain drives one chain with a single funded account, one tx per block.
type rkChain struct {
	C  *ec.Chain
	DB dbm.DB
	K  ec.Key
	T  int64
}

func rkNew() (*rkChain, error) {
	k := ec.NewKey("acc0")
	db := memdb.NewMemDB()
	c, _, err := ec.New(db, ec.GenesisWithBalances(1e15, k), ec.Options{})
	if err != nil {
		return nil, err
	}
	return &rkChain{C: c, DB: db, K: k}, nil
}

func (r *rkChain) tx(msg std.Msg) (abci.ResponseDeliverTx, error) {
	r.T++
	r.C.Begin(r.T)
	res, _, err := r.C.Send([]std.Msg{msg}, rkGas, rkFee, r.K)
	r.C.End()
	return res, err
}

// Deploy adds a package in its own block.
func (r *rkChain) Deploy(path string, src string) (abci.ResponseDeliverTx, error) {
	return r.tx(ec.AddPkg(r.K.Addr, path, map[string]string{"a.gno": src}, nil))
}

// Call runs one MsgCall in its own block.
func (r *rkChain) Call(pkg, fn string, args ...string) (abci.ResponseDeliverTx, error) {
	return r.tx(ec.Call(r.K.Addr, pkg, fn, args, nil))
}

// Run runs one MsgRun script in its own block.
func (r *rkChain) Run(body string) (abci.ResponseDeliverTx, error) {
	return r.tx(vm.NewMsgRun(r.K.Addr, nil, []*std.MemFile{{Name: "main.gno", Body: body}}))
}

// QStr evaluates a string-valued expression against committed state.
func (r *rkChain) QStr(pkg, expr string) (string, error) {
	s, err := r.C.QEval(pkg, expr)
	if err != nil {
		return "", err
	}
	return rkRetString([]byte(s))
}

// rkRetString extracts the single string result of a MsgCall / qeval:
// `("..." string)`.
func rkRetString(data []byte) (string, error) {
	s := strings.TrimSpace(string(data))
	if !strings.HasPrefix(s, "(") || !strings.HasSuffix(s, " string)") {
		return "", fmt.Errorf("result is not a single string: %q", s)
	}
	q := strings.TrimSuffix(strings.TrimPrefix(s, "("), " string)")
	u, err := strconv.Unquote(q)
	if err != nil {
		return "", fmt.Errorf("cannot unquote %q: %v", q, err)
	}
	return u, nil
}

func rkErr(r abci.ResponseDeliverTx) string {
	if r.Error == nil {
		return ""
	}
	s := r.Error.Error() + " | " + r.Log
	if len(s) > 1500 {
		s = s[:1500]
	}
	return s
}

// ---------------------------------------------------------------------------
// Persisted object graph, decoded independently of the VM's store layer.

type rkObj struct {
	Key     string
	OID     gnolang.ObjectID
	Hash    []byte // first 20 bytes of the stored value
	Body    []byte // amino bytes after the hash
	Obj     gnolang.Object
	Refs    []gnolang.RefValue // RefValue occurrences with an ObjectID, in walk order
	Escaped []byte             // value under the escaped-hash key of the main store (nil if none)
}

type rkSnap struct {
	Objs    map[string]*rkObj // by ObjectID string; realm (non-immutable package) objects only
	AllKeys map[string]bool   // every oid:<id> key present (all packages), without the "oid:" prefix
	Order   []string
}

func rkIsImmutablePkgHex(oidstr string) bool {
	if len(oidstr) < 2 {
		return false
	}
	b, err := hex.DecodeString(oidstr[:2])
	if err != nil {
		return false
	}
	return b[0]&0x40 != 0
}

// rkSnapshot decodes every realm object of the committed state of db.
func rkSnapshot(db dbm.DB) (*rkSnap, error) {
	mainKey := store.NewStoreKey("main")
	baseKey := store.NewStoreKey("base")
	ms := store.NewCommitMultiStore(db)
	ms.MountStoreWithDB(mainKey, storebptree.FastStoreConstructor, db)
	ms.MountStoreWithDB(baseKey, dbadapter.StoreConstructor, db)
	if err := ms.LoadLatestVersion(); err != nil {
		return nil, err
	}
	base := ms.GetStore(baseKey)
	mainSt := ms.GetStore(mainKey)
	sn := &rkSnap{Objs: map[string]*rkObj{}, AllKeys: map[string]bool{}}
	it := base.Iterator(nil, []byte("oid:"), []byte("oid;"))
	defer it.Close()
	for ; it.Valid(); it.Next() {
		k := string(it.Key())
		id := strings.TrimPrefix(k, "oid:")
		if strings.HasSuffix(id, "#realm") {
			continue
		}
		sn.AllKeys[id] = true
		if rkIsImmutablePkgHex(id) {
			continue
		}
		v := append([]byte{}, it.Value()...)
		if len(v) < gnolang.HashSize {
			return nil, fmt.Errorf("object %s: value shorter than a hash (%d bytes)", id, len(v))
		}
		o := &rkObj{Key: id, Hash: v[:gnolang.HashSize], Body: v[gnolang.HashSize:]}
		if err := amino.Unmarshal(o.Body, &o.Obj); err != nil {
			return nil, fmt.Errorf("object %s does not decode: %v", id, err)
		}
		o.OID = o.Obj.GetObjectID()
		o.Refs = rkCollectRefs(o.Obj)
		o.Escaped = mainSt.Get(nil, []byte(id))
		sn.Objs[id] = o
		sn.Order = append(sn.Order, id)
	}
	sort.Strings(sn.Order)
	return sn, nil
}

var (
	rkRefValueT   = reflect.TypeOf(gnolang.RefValue{})
	rkObjectInfoT = reflect.TypeOf(gnolang.ObjectInfo{})
)

// rkCollectRefs walks a decoded object by reflection and returns every
// RefValue that names an object (ObjectID set), each occurrence once.
func rkCollectRefs(o gnolang.Object) []gnolang.RefValue {
	var out []gnolang.RefValue
	seen := map[uintptr]bool{}
	var walk func(v reflect.Value, depth int)
	walk = func(v reflect.Value, depth int) {
		if !v.IsValid() || depth > 200 {
			return
		}
		switch v.Kind() {
		case reflect.Interface:
			if !v.IsNil() {
				walk(v.Elem(), depth+1)
			}
		case reflect.Ptr:
			if v.IsNil() {
				return
			}
			p := v.Pointer()
			if seen[p] {
				return
			}
			seen[p] = true
			walk(v.Elem(), depth+1)
		case reflect.Struct:
			if v.Type() == rkRefValueT {
				rv := v.Interface().(gnolang.RefValue)
				if !rv.ObjectID.IsZero() {
					out = append(out, rv)
				}
				return
			}
			if v.Type() == rkObjectInfoT {
				return
			}
			for i := 0; i < v.NumField(); i++ {
				if v.Type().Field(i).PkgPath != "" { // unexported
					continue
				}
				walk(v.Field(i), depth+1)
			}
		case reflect.Slice, reflect.Array:
			if v.Kind() == reflect.Slice && v.Type().Elem().Kind() == reflect.Uint8 {
				return
			}
			for i := 0; i < v.Len(); i++ {
				walk(v.Index(i), depth+1)
			}
		}
	}
	walk(reflect.ValueOf(o), 0)
	return out
}

// rkPkgHex returns the hex PkgID of a package path.
func rkPkgHex(path string) string {
	pid := gnolang.PkgIDFromPkgPath(path)
	return hex.EncodeToString(pid.Hashlet[:])
}

// rkMasked returns a canonical JSON rendering of an object with the
// bookkeeping fields of ObjectInfo (everything but the ID) and the child
// hashes embedded in references removed: what remains is the object's value.
func rkMasked(o *rkObj) (string, error) {
	js, err := amino.MarshalJSON(o.Obj)
	if err != nil {
		return "", err
	}
	var tree any
	if err := json.Unmarshal(js, &tree); err != nil {
		return "", err
	}
	tree = rkMaskJSON(tree)
	out, err := json.Marshal(tree)
	return string(out), err
}

func rkMaskJSON(n any) any {
	switch v := n.(type) {
	case map[string]any:
		if t, ok := v["@type"].(string); ok && t == "/gno.RefValue" {
			delete(v, "Hash")
			delete(v, "Escaped")
		}
		if oi, ok := v["ObjectInfo"].(map[string]any); ok {
			v["ObjectInfo"] = map[string]any{"ID": oi["ID"]}
		}
		for k, c := range v {
			if k != "ObjectInfo" {
				v[k] = rkMaskJSON(c)
			}
		}
		return v
	case []any:
		for i, c := range v {
			v[i] = rkMaskJSON(c)
		}
		return v
	}
	return n
}

func rkHashOK(o *rkObj) bool {
	h := gnolang.HashBytes(o.Body)
	return bytes.Equal(h[:], o.Hash)
}
