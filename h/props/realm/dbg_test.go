package realm

import (
	"fmt"
	"os"
	"strings"
	"testing"

	"github.com/gnolang/gno/gnovm/pkg/gnolang"
	"github.com/gnolang/gno/tm2/pkg/amino"
)

// debugging aid: C06_HIST="A:N1;S10|B:G01" go test -run TestDbgC06
func TestDbgC06(t *testing.T) {
	h := os.Getenv("C06_HIST")
	if h == "" {
		t.Skip()
	}
	ch, _ := rkNew()
	ch.Deploy(c06PathA, fmt.Sprintf(c06SrcA))
	ch.Deploy(c06PathB, fmt.Sprintf(c06SrcB))
	show := os.Getenv("C06_SHOW")
	dump := func() {
		sn, err := rkSnapshot(ch.DB)
		if err != nil {
			fmt.Println("SNAP ERR", err)
			return
		}
		for _, p := range c06Check(sn) {
			fmt.Println("  PROBLEM", p.Kind, p.Msg)
		}
		for _, id := range sn.Order {
			for _, w := range strings.Split(show, ",") {
				if w != "" && strings.HasSuffix(id, ":"+w) && strings.HasPrefix(id, rkPkgHex(c06PathA)) {
					js, _ := amino.MarshalJSON(sn.Objs[id].Obj)
					fmt.Printf("  %s %T %s\n", id, sn.Objs[id].Obj, js)
				}
			}
		}
	}
	dump()
	for i, tx := range strings.Split(h, "|") {
		path := c06PathA
		if strings.HasPrefix(tx, "B:") {
			path = c06PathB
		}
		r, _ := ch.Call(path, "Exec", tx[2:])
		fmt.Printf("tx %d %s failed=%v %s\n", i, tx, r.Error != nil, strings.Split(rkErr(r), "\n")[0])
		dump()
	}
}

// DBG_SRC=file DBG_PKG=gno.land/r/x/y DBG_CALLS="F|G" DBG_SHOW=1
func TestDbgSrc(t *testing.T) {
	f := os.Getenv("DBG_SRC")
	if f == "" {
		t.Skip()
	}
	src, _ := os.ReadFile(f)
	ch, _ := rkNew()
	pkg := os.Getenv("DBG_PKG")
	r, _ := ch.Deploy(pkg, string(src))
	fmt.Println("deploy:", r.Error != nil, strings.Split(rkErr(r), "\n")[0])
	for _, c := range strings.Split(os.Getenv("DBG_CALLS"), "|") {
		parts := strings.Split(c, ":")
		if parts[0] == "RESTART" {
			ch.C.Restart()
			continue
		}
		r, _ := ch.Call(pkg, parts[0], parts[1:]...)
		if q := os.Getenv("DBG_Q"); q != "" {
			qs, qe := ch.QStr(pkg, q)
			fmt.Printf("   q %s = %s %v\n", q, qs, qe)
		}
		fmt.Printf("call %s: failed=%v data=%q %s\n", c, r.Error != nil, r.Data, strings.Split(rkErr(r), "\n")[0])
		if os.Getenv("DBG_SHOW") != "" {
			sn, err := rkSnapshot(ch.DB)
			if err != nil {
				fmt.Println("SNAP ERR", err)
				continue
			}
			for _, p := range c06Check(sn) {
				fmt.Println("  PROBLEM", p.Kind, p.Msg)
			}
			for _, id := range sn.Order {
				if strings.HasPrefix(id, rkPkgHex(pkg)) {
					js, _ := amino.MarshalJSON(sn.Objs[id].Obj)
					if _, isF := sn.Objs[id].Obj.(*gnolang.FuncValue); !isF {
						fmt.Printf("  %s %T %.600s\n", id, sn.Objs[id].Obj, js)
					}
				}
			}
		}
	}
}
