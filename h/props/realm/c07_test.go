package realm

import (
	"fmt"
	"os"
	"sort"
	"strings"
	"testing"

	"pgregory.net/rapid"
	"verif/vk"
)

// C07 — a realm's persisted state changes only under that realm's authority.
//
// Victim realm V: exported variables of every kind, getters returning
// pointers / sub-slices / maps / closures / interfaces, read-only methods,
// functions that invoke caller-supplied callbacks — and no code of V ever
// writes V's state. V uses no /p/ or stdlib types, so no library method can
// borrow V's authority (interrealm spec, borrow rule #2). Consequently the
// specification allows NO change of V's persisted values by any attacker;
// only ObjectInfo bookkeeping (RefCount, ModTime, IsEscaped, OwnerID, Hash,
// LastObjectSize) and the child hashes embedded in references may change,
// because foreign realms may legitimately retain references to V's objects.

const (
	c07Vic = "gno.land/r/vv/vic"
	c07Mid = "gno.land/r/vv/mid"
)

const c07VicSrc = `package vic

type T struct {
	A  int
	B  []int
	P  *T
	M  map[string]int
	Ar [2]int
}

type U struct {
	x int
	y []int
}

type W struct {
	Bz []byte
	Rn []rune
}

type L []int
type MM map[string]int
type N int

type I interface{ Get() int }

func (t *T) Get() int     { return t.A }
func (t *T) Self() *T     { return t }
func (t *T) Bs() []int    { return t.B }
func (t T) ValBs() []int  { return t.B }
func (t *T) Next() *T     { return t.P }
func (t *T) PA() *int     { return &t.A }
func (t *T) Ms() map[string]int { return t.M }
func (u *U) Get() int     { return u.x }
func (u *U) Ys() []int    { return u.y }
func (u *U) PX() *int     { return &u.x }
func (n N) Get() int      { return int(n) }

var (
	X    = %[1]d
	S    = "vs"
	Arr  = [3]int{1, 2, 3}
	Sl   = []int{10, 20, 30, %[2]d}
	Sl2  = make([]int, 2, 8)
	Mp   = map[string]int{"a": 1, "b": 2}
	St   = T{A: 1, B: []int{5, 6}, M: map[string]int{"z": 9}}
	Pt   = &T{A: 2, B: []int{7, 8, 9}, P: &T{A: 3, B: []int{1, 2}, M: map[string]int{"z": 2}}, M: map[string]int{"z": 1}}
	Pu   = &U{x: 4, y: []int{4, 5}}
	If   I = Pt
	Ifu  I = Pu
	Ls   = L{1, 2, 3}
	Ms   = MM{"a": 1}
	Nn   = N(5)
	SlT  = []*T{{A: 11, B: []int{1, 2}, M: map[string]int{"z": 3}}, {A: 12, B: []int{3, 4}, M: map[string]int{"z": 4}}}
	MpT  = map[string]*T{"k": {A: 21, B: []int{3, 4}, M: map[string]int{"z": 5}}}
	Nest = [][]int{{1, 2}, {3, %[3]d}}
	MpS  = map[string][]int{"s": {1, 2, 3}}
	PX   = &X
	Fn   func() []int
	FnT  func() *T
	FnM  func() map[string]int
	hid  = []int{100, 200}
	hidT = &T{A: 99, B: []int{9, 8}, M: map[string]int{"z": 6}}
	hidM = map[string]int{"a": 7}
	Bz    = []byte("original")
	Rn    = []rune("runes")
	Ss    = []string{"s0", "s1", "s2"}
	Pw    = &W{Bz: []byte("wbytes"), Rn: []rune("wrunes")}
	FnBz  func() []byte
	hidBz = []byte("hidden")
)

func init() {
	Fn = func() []int { return hid }
	FnT = func() *T { return hidT }
	FnM = func() map[string]int { return hidM }
	FnBz = func() []byte { return hidBz }
}

func GetBz() []byte    { return Bz }
func GetBzSub() []byte { return Bz[1:4] }
func GetRn() []rune    { return Rn }
func GetSs() []string  { return Ss }
func GetPw() *W        { return Pw }
func GetHidBz() []byte { return hidBz }

func GetSl() []int            { return Sl }
func GetSl2() []int           { return Sl2 }
func GetSub() []int           { return Sl[1:3] }
func GetPt() *T               { return Pt }
func GetSt() *T               { return &St }
func GetMp() map[string]int   { return Mp }
func GetIf() I                { return If }
func GetFn() func() []int     { return Fn }
func GetArrPtr() *[3]int      { return &Arr }
func GetElemPtr() *int        { return &Arr[1] }
func GetXPtr() *int           { return &X }
func GetHid() []int           { return hid }
func GetHidT() *T             { return hidT }
func GetHidM() map[string]int { return hidM }
func GetU() *U                { return Pu }
func GetNest() [][]int        { return Nest }
func GetMpT() map[string]*T   { return MpT }
func GetSlT() []*T            { return SlT }
func GetLs() L                { return Ls }
func GetMs() MM               { return Ms }

func CGetSl(cur realm) []int { return Sl }
func CGetPt(cur realm) *T    { return Pt }

func Apply(f func())                       { f() }
func CApply(cur realm, f func())           { f() }
func ApplySl(f func([]int))                { f(Sl) }
func ApplyT(f func(*T))                    { f(Pt) }
func ApplyM(f func(map[string]int))        { f(Mp) }
func CApplySl(cur realm, f func([]int))    { f(Sl) }
func CApplyT(cur realm, f func(*T))        { f(Pt) }
func CallGet(i I) int                      { return i.Get() }
func CCallGet(cur realm, i I) int          { return i.Get() }

func itoa(n int) string {
	if n == 0 {
		return "0"
	}
	neg := n < 0
	if neg {
		n = -n
	}
	s := ""
	for n > 0 {
		s = string(rune('0'+n%%10)) + s
		n /= 10
	}
	if neg {
		s = "-" + s
	}
	return s
}

func rs(s []int) string {
	if s == nil {
		return "nil"
	}
	o := itoa(len(s)) + "/" + itoa(cap(s)) + "["
	for _, v := range s {
		o += itoa(v) + ","
	}
	// also the spare capacity: an append through an alias writes there
	for _, v := range s[len(s):cap(s)] {
		o += "+" + itoa(v) + ","
	}
	return o + "]"
}

func rm(m map[string]int) string {
	if m == nil {
		return "nil"
	}
	ks := []string{}
	for k := range m {
		ks = append(ks, k)
	}
	for i := 1; i < len(ks); i++ {
		for j := i; j > 0 && ks[j] < ks[j-1]; j-- {
			ks[j], ks[j-1] = ks[j-1], ks[j]
		}
	}
	o := "{"
	for _, k := range ks {
		o += k + ":" + itoa(m[k]) + ","
	}
	return o + "}"
}

func rt(t *T, d int) string {
	if t == nil {
		return "nil"
	}
	if d == 0 {
		return "^"
	}
	return "T{" + itoa(t.A) + " " + rs(t.B) + " " + rt(t.P, d-1) + " " + rm(t.M) + " " + itoa(t.Ar[0]) + "," + itoa(t.Ar[1]) + "}"
}

func Dump() string {
	o := "X=" + itoa(X) + ";S=" + S + ";Arr=" + itoa(Arr[0]) + "," + itoa(Arr[1]) + "," + itoa(Arr[2])
	o += ";Sl=" + rs(Sl) + ";Sl2=" + rs(Sl2) + ";Mp=" + rm(Mp) + ";St=" + rt(&St, 3) + ";Pt=" + rt(Pt, 3)
	if Pu == nil {
		o += ";Pu=nil"
	} else {
		o += ";Pu=" + itoa(Pu.x) + rs(Pu.y)
	}
	if If == nil {
		o += ";If=nil"
	} else {
		o += ";If=" + itoa(If.Get())
	}
	if Ifu == nil {
		o += ";Ifu=nil"
	} else {
		o += ";Ifu=" + itoa(Ifu.Get())
	}
	o += ";Ls=" + rs([]int(Ls)) + ";Ms=" + rm(map[string]int(Ms)) + ";Nn=" + itoa(int(Nn))
	o += ";SlT=" + itoa(len(SlT))
	for _, t := range SlT {
		o += rt(t, 3)
	}
	o += ";MpT=" + itoa(len(MpT)) + rt(MpT["k"], 3)
	o += ";Nest=" + itoa(len(Nest))
	for _, s := range Nest {
		o += rs(s)
	}
	o += ";MpS=" + itoa(len(MpS)) + rs(MpS["s"])
	if PX == nil {
		o += ";PX=nil"
	} else {
		o += ";PX=" + itoa(*PX)
		if PX == &X {
			o += "same"
		}
	}
	if Fn == nil || FnT == nil || FnM == nil {
		o += ";Fn=nil"
	} else {
		o += ";Fn=" + rs(Fn()) + rt(FnT(), 3) + rm(FnM())
	}
	o += ";hid=" + rs(hid) + rt(hidT, 3) + rm(hidM)
	o += ";Bz=" + string(Bz[:cap(Bz)]) + "/" + itoa(len(Bz)) + ";Rn=" + string(Rn[:cap(Rn)]) + "/" + itoa(len(Rn))
	o += ";Ss=" + itoa(len(Ss))
	for _, x := range Ss {
		o += "," + x
	}
	if Pw == nil || FnBz == nil {
		o += ";Pw=nil"
	} else {
		o += ";Pw=" + string(Pw.Bz) + "," + string(Pw.Rn) + ";FnBz=" + string(FnBz())
	}
	o += ";hidBz=" + string(hidBz)
	return o
}
`

const c07MidSrc = `package mid

var Kept any
var N int

func Run(cur realm, f func())    { f() }
func RunNC(f func())             { f() }
func SaveAny(cur realm, x any)   { Kept = x; N++ }
func Render(path string) string  { return "" }
`

// c07PunSrc is the attacker's pure library: named types over the kinds the
// victim hands out, each with mutator methods, plus top-level helpers. A /p/
// method invoked on a receiver stored in the victim realm borrows the victim's
// authority (borrow rule #2), so the conversion guard of doOpConvert is the
// only gate against "type-pun by conversion".
const c07Pun = "gno.land/p/atk/pun"

const c07PunSrc = `package pun

const K = 0

type Bytes []byte

func (b Bytes) Fill(c byte) {
	for i := range b {
		b[i] = c
	}
}

type Runes []rune

func (r Runes) Fill(c rune) {
	for i := range r {
		r[i] = c
	}
}

type Ints []int

func (x Ints) Fill(c int) {
	for i := range x {
		x[i] = c
	}
}

type Strs []string

func (x Strs) Fill(c string) {
	for i := range x {
		x[i] = c
	}
}

type Map map[string]int

func (m Map) Put(k string, v int) { m[k] = v }
func (m Map) Del(k string)        { delete(m, k) }

type Arr3 [3]int

func (a *Arr3) Set(i, v int) { a[i] = v }

type Fn func() []int

func (f Fn) Call() []int { return f() }

func FillBytes(b []byte, c byte) {
	for i := range b {
		b[i] = c
	}
}

func FillRunes(b []rune, c rune) {
	for i := range b {
		b[i] = c
	}
}

func FillInts(b []int, c int) {
	for i := range b {
		b[i] = c
	}
}

func FillStrs(b []string, c string) {
	for i := range b {
		b[i] = c
	}
}

func PutMap(m map[string]int, k string, v int) { m[k] = v }
func SetArr(a *[3]int, i, v int)                 { a[i] = v }
`

// the same named types declared by the attacker program itself (in a MsgRun
// script they are /e/ types, in an attacker realm /r/ types)
const c07OwnTypes = `type OBytes []byte

func (b OBytes) Fill(c byte) {
	for i := range b {
		b[i] = c
	}
}

type ORunes []rune

func (r ORunes) Fill(c rune) {
	for i := range r {
		r[i] = c
	}
}

type OInts []int

func (x OInts) Fill(c int) {
	for i := range x {
		x[i] = c
	}
}

type OStrs []string

func (x OStrs) Fill(c string) {
	for i := range x {
		x[i] = c
	}
}

type OMap map[string]int

func (m OMap) Put(k string, v int) { m[k] = v }
func (m OMap) Del(k string)        { delete(m, k) }

type OArr3 [3]int

func (a *OArr3) Set(i, v int) { a[i] = v }

type OT struct {
	A  int
	B  []int
	P  *vic.T
	M  map[string]int
	Ar [2]int
}

func (t *OT) SetA(v int) { t.A = v }
func (t *OT) SetB(v int) { t.B[0] = v }
`

// sources of the type-pun family: a victim value reached through an access
// path, by kind.
type c07PunSource struct {
	Expr string
	Kind string // bytes runes ints strs map arrp ptT
	Key  string
}

var c07PunSources = []c07PunSource{
	{"vic.Bz", "bytes", ""}, {"vic.GetBz()", "bytes", ""}, {"vic.GetBzSub()", "bytes", ""}, {"vic.FnBz()", "bytes", ""},
	{"vic.Pw.Bz", "bytes", ""}, {"vic.GetPw().Bz", "bytes", ""}, {"vic.GetHidBz()", "bytes", ""},
	{"vic.Rn", "runes", ""}, {"vic.GetRn()", "runes", ""}, {"vic.GetPw().Rn", "runes", ""},
	{"vic.Sl", "ints", ""}, {"vic.GetSl()", "ints", ""}, {"vic.GetSub()", "ints", ""}, {"vic.Pt.B", "ints", ""}, {"vic.GetPt().Bs()", "ints", ""},
	{"vic.Fn()", "ints", ""}, {"vic.Ls", "ints", ""}, {"vic.GetLs()", "ints", ""}, {"vic.Nest[1]", "ints", ""},
	{"vic.Ss", "strs", ""}, {"vic.GetSs()", "strs", ""},
	{"vic.Mp", "map", "a"}, {"vic.GetMp()", "map", "a"}, {"vic.Ms", "map", "a"}, {"vic.GetMs()", "map", "a"}, {"vic.FnM()", "map", "a"}, {"vic.GetPt().Ms()", "map", "z"},
	{"vic.GetArrPtr()", "arrp", ""}, {"(&vic.Arr)", "arrp", ""},
	{"vic.GetPt()", "ptT", ""}, {"vic.Pt.P", "ptT", ""}, {"vic.FnT()", "ptT", ""},
}

// per kind: /p/ type, own type, element literal, /p/ helper call
var c07PunKinds = map[string]struct{ P, Own, Lit, Helper string }{
	"bytes": {"pun.Bytes", "OBytes", "'X'", "pun.FillBytes(%s, 'X')"},
	"runes": {"pun.Runes", "ORunes", "'X'", "pun.FillRunes(%s, 'X')"},
	"ints":  {"pun.Ints", "OInts", "1234", "pun.FillInts(%s, 1234)"},
	"strs":  {"pun.Strs", "OStrs", `"X"`, `pun.FillStrs(%s, "X")`},
	"map":   {"pun.Map", "OMap", "1234", `pun.PutMap(%s, "nw", 1)`},
	"arrp":  {"pun.Arr3", "OArr3", "1234", "pun.SetArr(%s, 1, 1234)"},
	"ptT":   {"", "OT", "1234", ""},
}

// mutations of the converted value c; %[1]s literal, %[2]s existing key,
// %[3]s the named type. Method-based forms come first.
var c07PunForms = map[string][]string{
	"slice": {"c.Fill(%[1]s)", "f := c.Fill\n\tf(%[1]s)", "c[0] = %[1]s", "copy(c, c[1:])", "_ = append(c[:1], %[1]s)", "for i := range c {\n\t\tc[i] = %[1]s\n\t}", "defer c.Fill(%[1]s)"},
	"map":   {`c.Put("%[2]s", 1234)`, "f := c.Del\n\tf(\"%[2]s\")", `c["%[2]s"] = 1234`, `delete(c, "%[2]s")`, `c.Put("nw", 1)`},
	"arrp":  {"c.Set(1, 1234)", "f := c.Set\n\tf(0, 1234)", "c[1] = 1234", "*c = %[3]s{9, 9, 9}"},
	"ptT":   {"c.SetA(1234)", "c.SetB(1234)", "c.A = 1234", "f := c.SetA\n\tf(1234)"},
}

// conversions that copy: the victim must stay unchanged, the tx may succeed
var c07PunCopies = []string{
	"b := []byte(string(vic.GetBz()))\n\tb[0] = 'X'\n\t_ = b",
	"r := []rune(string(vic.GetRn()))\n\tr[0] = 'X'\n\t_ = r",
	"c := pun.Bytes(string(vic.Bz))\n\tc.Fill('X')",
	"c := pun.Bytes([]byte(string(vic.GetHidBz())))\n\tc.Fill('X')",
	"c := OBytes(string(vic.GetPw().Bz))\n\tc.Fill('X')",
	"s := string(vic.GetBz()) + string(vic.Rn)\n\t_ = s",
	"c := pun.Ints(append([]int{}, vic.GetSl()...))\n\tc.Fill(9)",
	"c := pun.Map{}\n\tfor k, v := range vic.GetMp() {\n\t\tc[k] = v\n\t}\n\tc.Put(\"a\", 5)",
	"c := pun.Runes(string(vic.GetBz()))\n\tc.Fill('X')",
	"a := pun.Arr3(*vic.GetArrPtr())\n\ta.Set(1, 9)",
}

// c07PunBody renders one type-pun attacker. own selects the attacker's own
// named type instead of the /p/ one; form indexes the mutation (the last index
// of every kind is the /p/ top-level helper applied without any conversion).
func c07PunBody(a c07Atk) (decl, body, label string) {
	src := c07PunSources[a.Path%len(c07PunSources)]
	k := c07PunKinds[src.Kind]
	fk := src.Kind
	if fk == "bytes" || fk == "runes" || fk == "ints" || fk == "strs" {
		fk = "slice"
	}
	forms := c07PunForms[fk]
	n := len(forms)
	if k.Helper != "" {
		n++
	}
	fi := a.Form % n
	if fi == len(forms) {
		return "", fmt.Sprintf(k.Helper, src.Expr), "pun:" + src.Kind + ":helper-func"
	}
	typ, tgt := k.P, "p"
	if a.Alias || typ == "" {
		typ, tgt = k.Own, "own"
		decl = c07OwnTypes
	}
	conv := typ + "(" + src.Expr + ")"
	if src.Kind == "arrp" || src.Kind == "ptT" {
		conv = "(*" + typ + ")(" + src.Expr + ")"
	}
	body = "c := " + conv + "\n\t" + strings.NewReplacer("%[1]s", k.Lit, "%[2]s", src.Key, "%[3]s", typ).Replace(forms[fi])
	return decl, body, fmt.Sprintf("pun:%s:%s:%d", src.Kind, tgt, fi)
}

// ---------------------------------------------------------------------------
// attacker grammar

type c07Path struct {
	Expr  string
	Kind  string // int sl mp pt pi pa
	Cross bool   // needs cross(cur)
	Adr   bool   // (int kind) the expression is addressable
	Key   string // (mp kind) a key that exists
}

var c07Paths = []c07Path{
	// direct selectors / index chains
	{Expr: "vic.X", Kind: "int", Adr: true},
	{Expr: "vic.Arr[1]", Kind: "int", Adr: true},
	{Expr: "vic.Sl[0]", Kind: "int", Adr: true},
	{Expr: `vic.Mp["a"]`, Kind: "int"},
	{Expr: "vic.St.A", Kind: "int", Adr: true},
	{Expr: "vic.St.B[0]", Kind: "int", Adr: true},
	{Expr: `vic.St.M["z"]`, Kind: "int"},
	{Expr: "vic.St.Ar[1]", Kind: "int", Adr: true},
	{Expr: "vic.Pt.A", Kind: "int", Adr: true},
	{Expr: "vic.Pt.B[1]", Kind: "int", Adr: true},
	{Expr: "vic.Pt.P.A", Kind: "int", Adr: true},
	{Expr: "vic.Pt.P.B[0]", Kind: "int", Adr: true},
	{Expr: `vic.Pt.M["z"]`, Kind: "int"},
	{Expr: "vic.Pt.Ar[0]", Kind: "int", Adr: true},
	{Expr: "vic.SlT[0].A", Kind: "int", Adr: true},
	{Expr: "vic.SlT[1].B[1]", Kind: "int", Adr: true},
	{Expr: `vic.MpT["k"].A`, Kind: "int", Adr: true},
	{Expr: `vic.MpT["k"].B[0]`, Kind: "int", Adr: true},
	{Expr: "vic.Nest[1][0]", Kind: "int", Adr: true},
	{Expr: `vic.MpS["s"][2]`, Kind: "int", Adr: true},
	{Expr: "(*vic.PX)", Kind: "int", Adr: true},
	{Expr: "vic.Ls[0]", Kind: "int", Adr: true},
	{Expr: `vic.Ms["a"]`, Kind: "int"},
	{Expr: "vic.Sl2[1]", Kind: "int", Adr: true},
	// getters
	{Expr: "vic.GetSl()[0]", Kind: "int", Adr: true},
	{Expr: "vic.GetSub()[0]", Kind: "int", Adr: true},
	{Expr: "vic.GetPt().A", Kind: "int", Adr: true},
	{Expr: "vic.GetPt().B[0]", Kind: "int", Adr: true},
	{Expr: "vic.GetPt().P.A", Kind: "int", Adr: true},
	{Expr: "vic.GetSt().A", Kind: "int", Adr: true},
	{Expr: `vic.GetMp()["a"]`, Kind: "int"},
	{Expr: "(*vic.GetXPtr())", Kind: "int", Adr: true},
	{Expr: "(*vic.GetElemPtr())", Kind: "int", Adr: true},
	{Expr: "vic.GetArrPtr()[1]", Kind: "int", Adr: true},
	{Expr: "vic.GetHid()[0]", Kind: "int", Adr: true},
	{Expr: "vic.GetHidT().A", Kind: "int", Adr: true},
	{Expr: `vic.GetHidM()["a"]`, Kind: "int"},
	{Expr: "vic.GetU().Ys()[0]", Kind: "int", Adr: true},
	{Expr: "(*vic.GetU().PX())", Kind: "int", Adr: true},
	{Expr: "vic.GetPt().Bs()[0]", Kind: "int", Adr: true},
	{Expr: "vic.GetPt().ValBs()[1]", Kind: "int", Adr: true},
	{Expr: "vic.Pt.Self().A", Kind: "int", Adr: true},
	{Expr: "(*vic.Pt.PA())", Kind: "int", Adr: true},
	{Expr: "vic.Pt.Next().A", Kind: "int", Adr: true},
	{Expr: `vic.GetPt().Ms()["z"]`, Kind: "int"},
	{Expr: "vic.GetNest()[0][1]", Kind: "int", Adr: true},
	{Expr: `vic.GetMpT()["k"].A`, Kind: "int", Adr: true},
	{Expr: "vic.GetSlT()[1].A", Kind: "int", Adr: true},
	{Expr: "vic.GetLs()[1]", Kind: "int", Adr: true},
	{Expr: `vic.GetMs()["a"]`, Kind: "int"},
	// closures minted by V
	{Expr: "vic.Fn()[0]", Kind: "int", Adr: true},
	{Expr: "vic.FnT().A", Kind: "int", Adr: true},
	{Expr: "vic.GetFn()()[1]", Kind: "int", Adr: true},
	{Expr: `vic.FnM()["a"]`, Kind: "int"},
	// interface wrap + type assertion
	{Expr: "vic.If.(*vic.T).A", Kind: "int", Adr: true},
	{Expr: "vic.GetIf().(*vic.T).B[0]", Kind: "int", Adr: true},
	{Expr: "any(vic.GetPt()).(*vic.T).A", Kind: "int", Adr: true},
	// crossing getters
	{Expr: "vic.CGetSl(cross(cur))[0]", Kind: "int", Cross: true, Adr: true},
	{Expr: "vic.CGetPt(cross(cur)).A", Kind: "int", Cross: true, Adr: true},
	// slices
	{Expr: "vic.Sl", Kind: "sl"},
	{Expr: "vic.Sl2", Kind: "sl"},
	{Expr: "vic.GetSl()", Kind: "sl"},
	{Expr: "vic.GetSl2()", Kind: "sl"},
	{Expr: "vic.GetSub()", Kind: "sl"},
	{Expr: "vic.Pt.B", Kind: "sl"},
	{Expr: "vic.St.B", Kind: "sl"},
	{Expr: "vic.GetPt().Bs()", Kind: "sl"},
	{Expr: "vic.Fn()", Kind: "sl"},
	{Expr: "vic.GetHid()", Kind: "sl"},
	{Expr: "vic.Nest[0]", Kind: "sl"},
	{Expr: `vic.MpS["s"]`, Kind: "sl"},
	{Expr: "vic.GetU().Ys()", Kind: "sl"},
	{Expr: "[]int(vic.Ls)", Kind: "sl"},
	{Expr: "vic.Arr[:]", Kind: "sl"},
	{Expr: "vic.GetArrPtr()[:]", Kind: "sl"},
	{Expr: "vic.CGetSl(cross(cur))", Kind: "sl", Cross: true},
	// byte, rune and string slices (builtins have string-specific forms)
	{Expr: "vic.Bz", Kind: "bz"},
	{Expr: "vic.GetBz()", Kind: "bz"},
	{Expr: "vic.GetBzSub()", Kind: "bz"},
	{Expr: "vic.FnBz()", Kind: "bz"},
	{Expr: "vic.Pw.Bz", Kind: "bz"},
	{Expr: "vic.GetPw().Bz", Kind: "bz"},
	{Expr: "vic.GetHidBz()", Kind: "bz"},
	{Expr: "vic.Rn", Kind: "rn"},
	{Expr: "vic.GetRn()", Kind: "rn"},
	{Expr: "vic.GetPw().Rn", Kind: "rn"},
	{Expr: "vic.Ss", Kind: "ss"},
	{Expr: "vic.GetSs()", Kind: "ss"},
	// maps
	{Expr: "vic.Mp", Kind: "mp", Key: "a"},
	{Expr: "vic.GetMp()", Kind: "mp", Key: "a"},
	{Expr: "vic.Pt.M", Kind: "mp", Key: "z"},
	{Expr: "vic.St.M", Kind: "mp", Key: "z"},
	{Expr: "vic.GetPt().Ms()", Kind: "mp", Key: "z"},
	{Expr: "vic.FnM()", Kind: "mp", Key: "a"},
	{Expr: "vic.GetHidM()", Kind: "mp", Key: "a"},
	{Expr: "vic.Ms", Kind: "mp", Key: "a"},
	// pointers to T
	{Expr: "vic.Pt", Kind: "pt"},
	{Expr: "vic.GetPt()", Kind: "pt"},
	{Expr: "vic.GetSt()", Kind: "pt"},
	{Expr: "vic.Pt.P", Kind: "pt"},
	{Expr: "vic.Pt.Self()", Kind: "pt"},
	{Expr: "vic.Pt.Next()", Kind: "pt"},
	{Expr: "vic.SlT[0]", Kind: "pt"},
	{Expr: `vic.MpT["k"]`, Kind: "pt"},
	{Expr: "vic.FnT()", Kind: "pt"},
	{Expr: "vic.GetHidT()", Kind: "pt"},
	{Expr: "vic.If.(*vic.T)", Kind: "pt"},
	{Expr: "(&vic.St)", Kind: "pt"},
	{Expr: "vic.CGetPt(cross(cur))", Kind: "pt", Cross: true},
	// pointers to int / array
	{Expr: "vic.PX", Kind: "pi"},
	{Expr: "vic.GetXPtr()", Kind: "pi"},
	{Expr: "vic.GetElemPtr()", Kind: "pi"},
	{Expr: "vic.Pt.PA()", Kind: "pi"},
	{Expr: "vic.GetU().PX()", Kind: "pi"},
	{Expr: "(&vic.Arr[2])", Kind: "pi"},
	{Expr: "(&vic.Pt.A)", Kind: "pi"},
	{Expr: "(&vic.Sl[1])", Kind: "pi"},
	{Expr: "vic.GetArrPtr()", Kind: "pa"},
	{Expr: "(&vic.Arr)", Kind: "pa"},
}

// write forms per kind; %[1]s is the path (or its local alias), %[2]s a key.
var c07Writes = map[string][]string{
	"int": {"%[1]s = 1234", "%[1]s += 5", "%[1]s++", "%[1]s, _ = 1234, 0"},
	"sl":  {"%[1]s[0] = 1234", "copy(%[1]s, []int{77, 78})", "_ = append(%[1]s[:1], 1234)", "for i := range %[1]s {\n\t\t%[1]s[i] = 0\n\t}"},
	"mp":  {`%[1]s["%[2]s"] = 1234`, `%[1]s["nw"] = 1`, `delete(%[1]s, "%[2]s")`, `%[1]s["%[2]s"]++`},
	"pt":  {"%[1]s.A = 1234", "%[1]s.B = nil", "%[1]s.B[0] = 1234", "*%[1]s = *vic.GetHidT()", "%[1]s.Ar[1] = 1234", `%[1]s.M["z"] = 1234`, "%[1]s.P = %[1]s"},
	"pi":  {"*%[1]s = 1234", "*%[1]s += 1"},
	"bz":  {"%[1]s[0] = 'X'", `copy(%[1]s, "zz")`, "_ = append(%[1]s[:1], 'X')", `_ = append(%[1]s[:1], "yz"...)`, "copy(%[1]s, []byte{1, 2})", "%[1]s[1]++"},
	"rn":  {"%[1]s[0] = 'X'", `copy(%[1]s, []rune("zz"))`, "_ = append(%[1]s[:1], 'X')", "%[1]s[1] += 2"},
	"ss":  {`%[1]s[0] = "X"`, `copy(%[1]s, []string{"p", "q"})`, `_ = append(%[1]s[:1], "X")`, `%[1]s[1] += "x"`},
	"pa":  {"%[1]s[1] = 1234", "*%[1]s = [3]int{9, 9, 9}"},
}

// whole-variable assignments (always direct selectors on the package)
var c07VarWrites = []string{
	"vic.X = 1", "vic.S = \"x\"", "vic.Sl = nil", "vic.Sl = vic.Sl[:1]", "vic.Sl = append(vic.Sl, 1)", "vic.Pt = nil", "vic.Pt = vic.Pt.P",
	"vic.Mp = nil", "vic.Fn = nil", "vic.If = nil", "vic.St = *vic.Pt.P", "vic.Arr = [3]int{}", "vic.PX = nil", "vic.Nn = 3",
	"vic.Ls = nil", "vic.Ms = nil", "vic.SlT = nil", "vic.MpT = nil", "vic.Nest = nil", "vic.Pu = nil", "vic.Ifu = vic.If",
	"vic.Fn = func() []int { return nil }",
}

// argument-bound callbacks: V hands its own state to attacker code
var c07ArgCbs = []string{
	"vic.ApplySl(func(s []int) { s[0] = 1234 })",
	"vic.ApplyT(func(t *vic.T) { t.A = 1234 })",
	"vic.ApplyT(func(t *vic.T) { t.B[0] = 1234 })",
	"vic.ApplyM(func(m map[string]int) { m[\"a\"] = 1234 })",
	"vic.ApplyM(func(m map[string]int) { delete(m, \"a\") })",
	"vic.ApplySl(helperSl)",
	"vic.ApplyT(helperT)",
	"vic.CApplySl(cross(cur), func(s []int) { s[1] = 1234 })",
	"vic.CApplyT(cross(cur), func(t *vic.T) { t.P.A = 1234 })",
	"vic.CApplySl(cross(cur), helperSl)",
}

const c07ArgHelpers = "func helperSl(s []int) { s[0] = 1234 }\nfunc helperT(t *vic.T) { t.A = 1234 }\n"

// constructions of V-declared types outside V. Must[i] reports whether the
// interrealm spec (v2 §3.2: composite literals, new() and make() of a foreign
// /r/-declared type) requires the attempt to abort.
var c07Constructs = []struct {
	Stmt string
	Must bool
}{
	{"_ = vic.T{}", true},
	{"_ = vic.T{A: 1}", true},
	{"_ = &vic.T{A: 1, B: []int{1}}", true},
	{"_ = new(vic.T)", true},
	{"_ = vic.U{}", true},
	{"_ = &vic.U{}", true},
	{"_ = new(vic.U)", true},
	{"_ = vic.L{1, 2}", true},
	{"_ = make(vic.L, 2)", true},
	{"_ = vic.MM{\"a\": 1}", true},
	{"_ = make(vic.MM)", true},
	{"_ = new(vic.L)", true},
	{"_ = []*vic.T{{A: 1}}", true},
	{"_ = map[string]vic.T{\"a\": {A: 1}}", true},
	{"_ = make([]vic.T, 1)", false},
	{"var t vic.T\n\t_ = t", false},
	{"_ = [1]vic.T{}", false},
	{"_ = vic.N(3)", false},
	{"_ = vic.L(nil)", false},
}

// attempts to persist a realm value (attacker-realm bodies of Attack(cur realm))
var c07Persists = []struct{ Decl, Stmt string }{
	{"var saved realm", "saved = cur"},
	{"var saved realm", "saved = cur.Previous()"},
	{"var box struct{ R realm }", "box.R = cur"},
	{"var m = map[string]realm{}", "m[\"a\"] = cur"},
	{"var sl []realm", "sl = append(sl, cur)"},
	{"var arr [2]realm", "arr[1] = cur"},
	{"var anyv any", "anyv = cur"},
	{"var anyv any", "anyv = cur.Previous()"},
	{"var f func() string", "f = func() string { return cur.PkgPath() }"},
	{"var p *realm", "r := cur\n\tp = &r"},
	{"", "mid.SaveAny(cross(cur), cur)"},
	{"", "mid.SaveAny(cross(cur), []realm{cur})"},
}

// benign programs: reads, value copies, retaining references. V must not change.
var c07Benign = []struct{ Decl, Stmt string }{
	{"", "x := vic.X\n\tx++\n\t_ = x"},
	{"", "s := vic.St\n\ts.A = 5\n\t_ = s"},
	{"", "a := vic.Arr\n\ta[0] = 9\n\t_ = a"},
	{"", "b := append([]int{}, vic.Sl...)\n\tb[0] = 1"},
	{"", "n := make([]vic.T, 1)\n\t_ = n"},
	{"var keep *vic.T", "keep = vic.GetPt()"},
	{"var keep []int", "keep = vic.GetSl()"},
	{"var keep map[string]int", "keep = vic.GetMp()"},
	{"var keep func() []int", "keep = vic.GetFn()"},
	{"var keep vic.I", "keep = vic.GetIf()"},
	{"var keep *int", "keep = vic.GetElemPtr()"},
	{"var keep []*vic.T", "keep = append(keep, vic.GetHidT(), vic.Pt.P)"},
	{"var keep any", "keep = vic.GetSub()"},
	{"", "mid.SaveAny(cross(cur), vic.GetPt())"},
	{"", "mid.SaveAny(cross(cur), vic.GetNest())"},
	{"var keep *vic.T", "keep = vic.GetPt()\n\tkeep = nil"},
}

// contexts: where the attacking statement runs.
var c07Contexts = []string{
	"run", "run-fn", "run-closure", "run-defer", "run-cb-vic", "run-cb-vic-cross", "run-cb-vic-top", "run-cb-mid-cross", "run-cb-mid-nc", "run-method", "run-cb-method", "run-cb-method-cross",
	"realm", "realm-fn", "realm-closure", "realm-stored-closure", "realm-defer", "realm-init", "realm-method", "realm-cb-vic", "realm-cb-vic-cross", "realm-cb-vic-top", "realm-cb-mid-cross", "realm-cb-mid-nc", "realm-cb-method", "realm-cb-method-cross", "realm-nested-cross",
}

type c07Atk struct {
	Kind  string `json:"kind"` // write varwrite argcb construct persist benign
	Ctx   string `json:"ctx"`
	Path  int    `json:"path"`
	Form  int    `json:"form"`
	Alias bool   `json:"alias"` // go through a local alias of the path
}

type c07Case struct {
	Params     [3]int   `json:"params"`
	Atks       []c07Atk `json:"atks"`
}

// c07Body returns the attacking statements, whether they need `cur`, and
// whether the specification requires the transaction to abort.
func c07Body(a c07Atk) (decl, body string, needCur, must bool, label string) {
	switch a.Kind {
	case "write":
		p := c07Paths[a.Path]
		forms := c07Writes[p.Kind]
		f := forms[a.Form%len(forms)]
		target := p.Expr
		pre := ""
		if a.Alias {
			if p.Kind == "int" {
				if p.Adr {
					pre = "q := &" + p.Expr + "\n\t"
					target = "(*q)"
				}
			} else {
				pre = "q := " + p.Expr + "\n\t"
				target = "q"
			}
		}
		body = pre + fmt.Sprintf(f, target, p.Key)
		// a delete of an existing key, every store and every in-place append
		// targets an object of V: the spec requires the abort.
		return "", body, p.Cross, true, fmt.Sprintf("write:%s:%d", p.Kind, a.Form%len(forms))
	case "varwrite":
		return "", c07VarWrites[a.Form%len(c07VarWrites)], false, true, "varwrite"
	case "argcb":
		s := c07ArgCbs[a.Form%len(c07ArgCbs)]
		return c07ArgHelpers, s, strings.Contains(s, "cross(cur)"), true, "argcb"
	case "construct":
		c := c07Constructs[a.Form%len(c07Constructs)]
		return "", c.Stmt, false, c.Must, "construct"
	case "persist":
		c := c07Persists[a.Form%len(c07Persists)]
		return c.Decl, c.Stmt, true, true, "persist"
	case "benign":
		c := c07Benign[a.Form%len(c07Benign)]
		return c.Decl, c.Stmt, strings.Contains(c.Stmt, "cross(cur)"), false, "benign"
	case "pun":
		// convert a victim value to a named type and mutate through it: either
		// the conversion or the write has to be refused
		d, b, l := c07PunBody(a)
		return d, b, false, true, l
	case "puncopy":
		return c07OwnTypes, c07PunCopies[a.Form%len(c07PunCopies)], false, false, "puncopy"
	}
	panic("bad attacker kind " + a.Kind)
}

// c07Program renders the attacker: either a MsgRun script (run == true) or a
// realm source with an exported Attack(cur realm).
func c07Program(a c07Atk, pkg string) (src string, run bool, ok bool) {
	decl, body, needCur, _, _ := c07Body(a)
	ctx := a.Ctx
	if a.Kind == "persist" || (a.Kind == "benign" && decl != "") {
		ctx = "realm" // needs package state of the attacker
	}
	run = strings.HasPrefix(ctx, "run")
	shape := strings.TrimPrefix(strings.TrimPrefix(ctx, "run"), "realm")
	shape = strings.TrimPrefix(shape, "-")
	imports := "import (\n\t\"gno.land/p/atk/pun\"\n\t\"gno.land/r/vv/mid\"\n\t\"gno.land/r/vv/vic\"\n)\n\nconst _ = pun.K\n\nvar _ = mid.N\nvar _ = vic.X\n\n"
	var sb strings.Builder
	if run {
		sb.WriteString("package main\n\n")
	} else {
		sb.WriteString("package " + pkg + "\n\n")
	}
	sb.WriteString(imports)
	sb.WriteString(decl + "\n")
	entry := "func Attack(cur realm) {\n"
	if run {
		entry = "func main(cur realm) {\n"
	}
	ind := func(s string) string { return "\t" + s + "\n" }
	// shapes that move the body into a function without `cur`
	noCur := map[string]bool{"fn": true, "cb-vic-top": true, "init": true, "method": true, "cb-method": true, "cb-method-cross": true, "stored-closure": true}
	// inside a callback that runs below another crossing frame the outer cur
	// is stale ("cross: rlm is not the current cur"): the attack would be
	// stopped before reaching its write.
	stale := map[string]bool{"cb-vic-cross": true, "cb-mid-cross": true}
	if needCur && (noCur[shape] || stale[shape]) {
		return "", run, false
	}
	switch shape {
	case "":
		sb.WriteString(entry + ind(body) + "}\n")
	case "fn":
		sb.WriteString("func helper() {\n" + ind(body) + "}\n\n" + entry + "\thelper()\n}\n")
	case "closure":
		sb.WriteString(entry + "\tf := func() {\n\t" + ind(body) + "\t}\n\tf()\n}\n")
	case "stored-closure":
		sb.WriteString("var stored = func() {\n" + ind(body) + "}\n\n" + entry + "\tstored()\n}\n")
	case "defer":
		sb.WriteString(entry + "\tdefer func() {\n\t" + ind(body) + "\t}()\n}\n")
	case "init":
		sb.WriteString("func init() {\n" + ind(body) + "}\n\n" + entry + "}\n")
	case "method":
		sb.WriteString("type E struct{ n int }\n\nfunc (e *E) Do() {\n" + ind(body) + "}\n\nvar Obj = &E{}\n\n" + entry + "\tObj.Do()\n}\n")
	case "cb-vic":
		sb.WriteString(entry + "\tvic.Apply(func() {\n\t" + ind(body) + "\t})\n}\n")
	case "cb-vic-cross":
		sb.WriteString(entry + "\tvic.CApply(cross(cur), func() {\n\t" + ind(body) + "\t})\n}\n")
	case "cb-vic-top":
		sb.WriteString("func helper() {\n" + ind(body) + "}\n\n" + entry + "\tvic.Apply(helper)\n}\n")
	case "cb-mid-cross":
		sb.WriteString(entry + "\tmid.Run(cross(cur), func() {\n\t" + ind(body) + "\t})\n}\n")
	case "cb-mid-nc":
		sb.WriteString(entry + "\tmid.RunNC(func() {\n\t" + ind(body) + "\t})\n}\n")
	case "cb-method":
		sb.WriteString("type E struct{ n int }\n\nfunc (e *E) Get() int {\n" + ind(body) + "\treturn 0\n}\n\n" + entry + "\tvic.CallGet(&E{})\n}\n")
	case "cb-method-cross":
		sb.WriteString("type E struct{ n int }\n\nfunc (e *E) Get() int {\n" + ind(body) + "\treturn 0\n}\n\n" + entry + "\tvic.CCallGet(cross(cur), &E{})\n}\n")
	case "nested-cross":
		sb.WriteString("func Inner(cur realm) {\n" + ind(body) + "}\n\n" + entry + "\tInner(cross(cur))\n}\n")
	default:
		panic("bad context " + ctx)
	}
	return sb.String(), run, true
}

func c07DrawAtk(rt *rapid.T) c07Atk {
	a := c07Atk{Ctx: rapid.SampledFrom(c07Contexts).Draw(rt, "ctx")}
	switch k := rapid.IntRange(0, 25).Draw(rt, "kind"); {
	case k >= 20 && k <= 24:
		a.Kind = "pun"
		a.Path = rapid.IntRange(0, len(c07PunSources)-1).Draw(rt, "punsrc")
		a.Form = rapid.IntRange(0, 7).Draw(rt, "punform")
		a.Alias = rapid.IntRange(0, 2).Draw(rt, "own") == 0
	case k == 25:
		a.Kind = "puncopy"
		a.Form = rapid.IntRange(0, len(c07PunCopies)-1).Draw(rt, "form")
	case k <= 10:
		a.Kind = "write"
		a.Path = rapid.IntRange(0, len(c07Paths)-1).Draw(rt, "path")
		a.Form = rapid.IntRange(0, 6).Draw(rt, "form")
		a.Alias = rapid.IntRange(0, 2).Draw(rt, "alias") == 0
	case k <= 12:
		a.Kind = "varwrite"
		a.Form = rapid.IntRange(0, len(c07VarWrites)-1).Draw(rt, "form")
	case k <= 14:
		a.Kind = "argcb"
		a.Form = rapid.IntRange(0, len(c07ArgCbs)-1).Draw(rt, "form")
	case k <= 16:
		a.Kind = "construct"
		a.Form = rapid.IntRange(0, len(c07Constructs)-1).Draw(rt, "form")
	case k <= 17:
		a.Kind = "persist"
		a.Form = rapid.IntRange(0, len(c07Persists)-1).Draw(rt, "form")
	default:
		a.Kind = "benign"
		a.Form = rapid.IntRange(0, len(c07Benign)-1).Draw(rt, "form")
	}
	return a
}

func c07Draw(rt *rapid.T) c07Case {
	c := c07Case{}
	for i := range c.Params {
		c.Params[i] = rapid.IntRange(1, 99).Draw(rt, "param")
	}
	n := rapid.IntRange(4, 9).Draw(rt, "natk")
	for i := 0; i < n; i++ {
		c.Atks = append(c.Atks, c07DrawAtk(rt))
	}
	return c
}

var c07Debug = os.Getenv("C07_DEBUG") != ""

// c07FailClass names the defence that aborted a transaction.
func c07FailClass(msg string) string {
	for _, k := range []struct{ pat, name string }{
		{"readonly tainted", "readonly-taint"},
		{"cannot directly modify", "readonly-taint"},
		{"cannot directly mutate", "static-mutate-check"},
		{"DidUpdate called on external-realm", "didupdate-guard"},
		{"cannot allocate", "construction-check"},
		{"cannot persist realm value", "realm-value-persist"},
		{"unexpected unreal object", "realm-value-persist"},
		{"illegal conversion", "conversion-guard"},
		{"cannot cur-call", "crossing-rule"},
		{"cross: rlm is not the current cur", "crossing-rule"},
		{"out of gas", "out-of-gas"},
	} {
		if strings.Contains(msg, k.pat) {
			return k.name
		}
	}
	return "other"
}

// c07KeyTopLevel names a divergence found on the unchanged tree: a top-level
// function of a MsgRun (/e/) script that victim code invokes as a callback is
// neither /r/-declared (borrow rule #1), nor a method, nor a closure (rule #3),
// so it keeps running with the victim's storage authority.
const c07KeyTopLevel = "ephemeral-toplevel-callback-inherits-victim-authority"

// c07KeyOrigin: the realm value of the transaction's origin (cur.Previous() in
// a function called directly by a user) is accepted for persistence.
const c07KeyOrigin = "origin-realm-value-persisted"

// c07IsTopLevelCb reports whether the attacking statement executes inside a
// top-level function of a MsgRun script called back by victim code.
func c07IsTopLevelCb(a c07Atk, run bool) bool {
	if !run {
		return false
	}
	if a.Kind == "argcb" && strings.Contains(c07ArgCbs[a.Form%len(c07ArgCbs)], "helper") {
		return true
	}
	return a.Ctx == "run-cb-vic-top"
}

type c07Outcome struct {
	Failed bool
	Msg    string
}

func c07Exec(ctx *vk.Ctx, c c07Case) error {
	var ch *rkChain
	vicHex := rkPkgHex(c07Vic)
	var dump0 string
	var base map[string]string
	// setup (re)creates a chain with a pristine victim and takes the baseline.
	setup := func() error {
		var err error
		ch, err = rkNew()
		if err != nil {
			return fmt.Errorf("harness: %v", err)
		}
		r, err := ch.Deploy(c07Vic, fmt.Sprintf(c07VicSrc, c.Params[0], c.Params[1], c.Params[2]))
		if err != nil || r.Error != nil {
			return fmt.Errorf("harness: victim deployment failed: %v %s", err, rkErr(r))
		}
		r, err = ch.Deploy(c07Pun, c07PunSrc)
		if err != nil || r.Error != nil {
			return fmt.Errorf("harness: pun library deployment failed: %v %s", err, rkErr(r))
		}
		r, err = ch.Deploy(c07Mid, c07MidSrc)
		if err != nil || r.Error != nil {
			return fmt.Errorf("harness: mid deployment failed: %v %s", err, rkErr(r))
		}
		dump0, err = ch.QStr(c07Vic, "Dump()")
		if err != nil {
			return fmt.Errorf("harness: victim Dump(): %v", err)
		}
		snap0, err := rkSnapshot(ch.DB)
		if err != nil {
			return fmt.Errorf("harness: %v", err)
		}
		base = map[string]string{}
		for _, id := range snap0.Order {
			if strings.HasPrefix(id, vicHex+":") {
				m, err := rkMasked(snap0.Objs[id])
				if err != nil {
					return fmt.Errorf("harness: %v", err)
				}
				base[id] = m
			}
		}
		if len(base) < 40 {
			return fmt.Errorf("harness: only %d victim objects found", len(base))
		}
		return nil
	}
	if err := setup(); err != nil {
		return err
	}
	check := func(i int, a c07Atk, src string, out c07Outcome) error {
		d, err := ch.QStr(c07Vic, "Dump()")
		if err != nil {
			return fmt.Errorf("attacker %d %+v: victim Dump() fails afterwards: %v\n%s", i, a, err, src)
		}
		if d != dump0 {
			return fmt.Errorf("attacker %d %+v (tx failed=%v %s) changed the victim's Dump():\n before: %s\n after : %s\n%s", i, a, out.Failed, out.Msg, dump0, d, src)
		}
		sn, err := rkSnapshot(ch.DB)
		if err != nil {
			return fmt.Errorf("attacker %d %+v: persisted state no longer decodes: %v\n%s", i, a, err, src)
		}
		ids := make([]string, 0, len(base))
		for id := range base {
			ids = append(ids, id)
		}
		sort.Strings(ids)
		for _, id := range ids {
			o := sn.Objs[id]
			if o == nil {
				return fmt.Errorf("attacker %d %+v (tx failed=%v): victim object %s disappeared\n%s", i, a, out.Failed, id, src)
			}
			m, err := rkMasked(o)
			if err != nil {
				return err
			}
			if m != base[id] {
				return fmt.Errorf("attacker %d %+v (tx failed=%v %s): victim object %s changed:\n before: %s\n after : %s\n%s", i, a, out.Failed, out.Msg, id, base[id], m, src)
			}
		}
		return nil
	}
	nt := 0
	for i, a := range c.Atks {
		pkgName := fmt.Sprintf("atk%d", i)
		src, run, ok := c07Program(a, pkgName)
		if !ok {
			ctx.Class("skip:ctx-without-cur")
			continue
		}
		_, _, _, mustFail, label := c07Body(a)
		var out c07Outcome
		if run {
			r, err := ch.Run(src)
			if err != nil {
				return fmt.Errorf("harness: %v", err)
			}
			if r.Error != nil {
				out = c07Outcome{true, rkErr(r)}
			}
		} else {
			path := "gno.land/r/atk/" + pkgName
			r, err := ch.Deploy(path, src)
			if err != nil {
				return fmt.Errorf("harness: %v", err)
			}
			if r.Error != nil {
				out = c07Outcome{true, "deploy: " + rkErr(r)}
			} else {
				r, err := ch.Call(path, "Attack")
				if err != nil {
					return fmt.Errorf("harness: %v", err)
				}
				if r.Error != nil {
					out = c07Outcome{true, rkErr(r)}
				}
			}
		}
		if c07Debug {
			st := "ok"
			if out.Failed {
				st = "FAILED[" + c07FailClass(out.Msg) + "]"
			}
			msg := out.Msg
			if len(msg) > 220 {
				msg = msg[:220]
			}
			fmt.Printf("C07 %-9s %-22s must=%v %s :: %s :: %s\n", a.Kind, a.Ctx, mustFail, st, strings.ReplaceAll(c07OneLine(a), "\n", " "), strings.ReplaceAll(msg, "\n", " "))
		}
		if err := check(i, a, src, out); err != nil {
			if c07IsTopLevelCb(a, run) && !out.Failed && ctx.Known(c07KeyTopLevel) {
				ctx.Class("known:" + c07KeyTopLevel)
				if err := setup(); err != nil { // resynchronise: fresh chain, pristine victim
					return err
				}
				continue
			}
			return err
		}
		if mustFail && !out.Failed {
			if c07IsTopLevelCb(a, run) && ctx.Known(c07KeyTopLevel) {
				ctx.Class("known:" + c07KeyTopLevel)
				continue
			}
			if a.Kind == "persist" && strings.Contains(c07Persists[a.Form%len(c07Persists)].Stmt, "cur.Previous()") && ctx.Known(c07KeyOrigin) {
				ctx.Class("known:" + c07KeyOrigin)
				continue
			}
			return fmt.Errorf("attacker %d %+v: the transaction succeeded although the interrealm specification requires it to abort (victim state unchanged)\n%s", i, a, src)
		}
		if out.Failed {
			fc := c07FailClass(out.Msg)
			ctx.Class("abort:" + fc)
			if fc == "other" && a.Kind != "benign" && a.Kind != "puncopy" {
				// the attacker must be stopped by a VM defence, not by an
				// unrelated error of the generated program (a generator bug
				// would make the check vacuous)
				return fmt.Errorf("harness: attacker %d %+v failed for an unexpected reason: %s\n%s", i, a, out.Msg, src)
			}
		} else {
			ctx.Class("success:" + a.Kind)
		}
		ctx.Class("kind:" + label)
		ctx.Class("ctx:" + a.Ctx)
		if a.Kind == "pun" {
			ctx.Class("family:type-pun")
			nt++
		}
		if a.Kind == "write" && strings.Count(c07Paths[a.Path].Expr, ".")+strings.Count(c07Paths[a.Path].Expr, "[") >= 2 {
			nt++
		}
	}
	ctx.NTIf(nt > 0)
	ctx.Note("deep_path_attackers", nt)
	return nil
}

func c07OneLine(a c07Atk) string {
	_, body, _, _, _ := c07Body(a)
	return body
}

const c07Rule = "rapid: one victim realm instance (exported vars of every kind, getters/methods/closures returning pointers, sub-slices, maps, interfaces; callback-invoking functions; no code of V writes; 3 drawn value parameters) + mid realm, then 4-9 attackers on the same chain, each = kind (write through one of 124 access paths x 2-7 write forms x optional local alias | type-pun: convert a victim value (32 sources: []byte, []rune, []int, []string, maps, *[3]int, *T) to a /p/ library type or an own named type and mutate via method / method value / defer / index / copy / append / range, or pass it to a /p/ helper | copying conversions (benign) | whole-variable assignment | write to state V hands to a callback | construction of a V-declared type | persisting a realm value | benign read/copy/retain) x one of 27 contexts (MsgRun script or deployed attacker realm; inline, helper function, closure, stored closure, defer, init, method, callback run by V / by V after a cross / by a third realm, top-level function passed as callback, method invoked by V through an interface, nested cross); after every attacker tx, success or failure: V.Dump() by qeval unchanged, every pre-existing oid:<V> object unchanged once ObjectInfo bookkeeping and embedded child hashes are masked, none missing; writes that target a V object, spec-listed constructions and realm-value persistence must abort; non-trivial = some write attacker uses a path of >= 2 selector/index steps"

func TestC07_Authority(t *testing.T) {
	vk.Run(t, vk.Spec[c07Case]{ID: "C07", Name: "TestC07_Authority", Rule: c07Rule, Draw: c07Draw, Exec: c07Exec})
}

// TestC07_Enum sweeps a deterministic sub-grid of the attacker grammar:
// every context x every access path (write form and aliasing derived from the
// indices), plus every whole-variable write, argument callback, construction,
// realm-value persistence and benign program in several contexts.
func TestC07_Enum(t *testing.T) {
	r := vk.Open(t, "C07", "TestC07_Enum", "enumeration: every context x every access path (form = path index mod #forms, alias = parity) and every varwrite/argcb/construct/persist/benign program x 8 contexts, in batches of 12 attackers per victim instance; plus the type-pun family (every source x 8 mutation forms x /p/ or own named type, contexts rotating) and the copying conversions; quick tier takes every 41st attacker of the sweep (every 11th of the type-pun family) starting at VERIF_SEED mod 41 (mod 11)")
	defer r.Close()
	if vk.Replaying() {
		t.Skip()
	}
	r.ReplayAs = "TestC07_Authority"
	var all []c07Atk
	some := []string{"run", "realm", "run-cb-vic-top", "realm-cb-vic", "run-cb-vic", "realm-stored-closure", "run-cb-method", "realm-cb-mid-cross"}
	for _, cx := range some {
		for i := range c07VarWrites {
			all = append(all, c07Atk{Kind: "varwrite", Ctx: cx, Form: i})
		}
		for i := range c07ArgCbs {
			all = append(all, c07Atk{Kind: "argcb", Ctx: cx, Form: i})
		}
		for i := range c07Constructs {
			all = append(all, c07Atk{Kind: "construct", Ctx: cx, Form: i})
		}
		for i := range c07Persists {
			all = append(all, c07Atk{Kind: "persist", Ctx: cx, Form: i})
		}
		for i := range c07Benign {
			all = append(all, c07Atk{Kind: "benign", Ctx: cx, Form: i})
		}
	}
	for _, cx := range some {
		for i := range c07PunCopies {
			all = append(all, c07Atk{Kind: "puncopy", Ctx: cx, Form: i})
		}
	}
	// type-pun family: every source x every mutation form, own/p type and
	// context rotating
	for si := range c07PunSources {
		for f := 0; f < 8; f++ {
			all = append(all, c07Atk{Kind: "pun", Ctx: c07Contexts[(si*8+f)%len(c07Contexts)], Path: si, Form: f, Alias: (si+f)%3 == 0})
			all = append(all, c07Atk{Kind: "pun", Ctx: some[(si+f)%len(some)], Path: si, Form: f, Alias: (si+f)%3 == 1})
		}
	}
	for ci, cx := range c07Contexts {
		for pi := range c07Paths {
			all = append(all, c07Atk{Kind: "write", Ctx: cx, Path: pi, Form: pi + ci, Alias: (pi+ci)%2 == 1})
		}
	}
	// quick tier: every 41st attacker of the sweep, every 11th of the type-pun
	// family, both starting at an offset derived from VERIF_SEED
	var sel []c07Atk
	if only := os.Getenv("C07_ENUM_KINDS"); only != "" { // calibration aid
		for _, a := range all {
			if strings.Contains(only, a.Kind) {
				sel = append(sel, a)
			}
		}
	} else if r.Thorough() {
		sel = all
	} else {
		np, nr := 0, 0
		for _, a := range all {
			if a.Kind == "pun" {
				if np%11 == int(r.Seed%11) {
					sel = append(sel, a)
				}
				np++
			} else {
				if nr%41 == int(r.Seed%41) {
					sel = append(sel, a)
				}
				nr++
			}
		}
	}
	r.Extra("exhaustive", false)
	r.Extra("grid_size", len(all))
	r.Extra("swept", len(sel))
	for i := 0; i < len(sel); i += 12 {
		j := i + 12
		if j > len(sel) {
			j = len(sel)
		}
		c := c07Case{Params: [3]int{7, 40, 4}, Atks: sel[i:j]}
		if r.Do(c, func(ctx *vk.Ctx) error { return c07Exec(ctx, c) }) != nil {
			return
		}
	}
}
