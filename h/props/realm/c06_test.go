package realm

import (
	"bytes"
	"fmt"
	"os"
	"sort"
	"strconv"
	"strings"
	"testing"

	"github.com/gnolang/gno/gnovm/pkg/gnolang"
	"pgregory.net/rapid"
	"verif/vk"
)

// C06 — the persisted object graph stays consistent after every transaction.
// After each committed block (one tx per block) every oid: entry of every
// realm is decoded from the raw base store and the invariants of the
// statement are recomputed from scratch.

// ---------------------------------------------------------------------------
// the invariant checker

type c06Problem struct {
	Kind string
	Obj  string // the object the problem is about
	Msg  string
}

func c06IsPkg(o *rkObj) bool { return o.OID.NewTime == 1 }

// c06Check recomputes the graph invariants over a snapshot.
func c06Check(sn *rkSnap) []c06Problem {
	var out []c06Problem
	subject := ""
	add := func(kind, f string, a ...any) { out = append(out, c06Problem{kind, subject, fmt.Sprintf(f, a...)}) }
	incoming := map[string]int{}
	succ := map[string][]string{}
	for _, id := range sn.Order {
		o := sn.Objs[id]
		subject = id
		if !rkHashOK(o) {
			add("hash", "object %s (%T): stored hash %x is not the hash of the stored bytes", id, o.Obj, o.Hash)
		}
		if o.OID.String() != id {
			add("id", "object stored under %s carries ObjectID %s", id, o.OID)
		}
		for _, rv := range o.Refs {
			tid := rv.ObjectID.String()
			if !sn.AllKeys[tid] {
				add("dangling", "object %s (%T) references missing object %s", id, o.Obj, tid)
				continue
			}
			t := sn.Objs[tid]
			if t == nil {
				continue // object of an immutable package (stdlib, /p/): not ref-counted
			}
			incoming[tid]++
			succ[id] = append(succ[id], tid)
			subject = tid
			esc := t.Obj.GetObjectInfo().IsEscaped
			if rv.Hash.IsZero() {
				if !esc {
					// The hashes embedded in references are not part of the property
					// statement (it only asks that an object's stored hash is the
					// hash of its stored bytes), and the unchanged tree deviates in
					// three ways: a dirty parent saved before its dirty child is
					// stored without the child's hash (order of Realm.updated); a
					// re-parented child's new parent keeps an outdated hash; a
					// parent keeps the hash of a child that escaped through another
					// realm's finalization. All three are recorded as observations.
					add("obs:child-hash-omitted", "object %s references non-escaped %s without embedding its hash", id, tid)
				}
			} else {
				if esc {
					add("obs:child-hash-on-escaped", "object %s embeds a hash for escaped object %s", id, tid)
				} else if !bytes.Equal(rv.Hash.Bytes(), t.Hash) {
					add("obs:child-hash-stale", "object %s embeds hash %x for %s whose stored hash is %x", id, rv.Hash.Bytes(), tid, t.Hash)
				}
			}
		}
	}
	for _, id := range sn.Order {
		o := sn.Objs[id]
		oi := o.Obj.GetObjectInfo()
		subject = id
		if c06IsPkg(o) {
			if oi.RefCount != 1 || !oi.OwnerID.IsZero() {
				add("refcount", "package value %s has RefCount %d owner %s", id, oi.RefCount, oi.OwnerID)
			}
			continue
		}
		if oi.RefCount != incoming[id] {
			add("refcount", "object %s (%T): RefCount %d but %d persisted references point at it", id, o.Obj, oi.RefCount, incoming[id])
		}
		wantOwner := oi.RefCount == 1 && !oi.IsEscaped
		if wantOwner != !oi.OwnerID.IsZero() {
			kind := "owner"
			// Known divergence (escaped-object-records-owner): an object that
			// escaped in an earlier transaction loses all its references and is
			// picked up by freshly created objects in one transaction; the first
			// of them is recorded as owner (incRefCreatedDescendants, rc==1
			// branch, does not look at IsEscaped) and further references in the
			// same or later transactions do not clear it. Signature: escaped,
			// OwnerID set, and the owner is YOUNGER than the object (same realm,
			// larger NewTime). An owner that was merely not cleared when the
			// object escaped is older than (or as old as) the object and stays a
			// plain "owner" problem.
			if oi.IsEscaped && !oi.OwnerID.IsZero() && oi.RefCount >= 1 &&
				oi.OwnerID.PkgID == o.OID.PkgID && oi.OwnerID.NewTime > o.OID.NewTime {
				kind = "owner-on-escaped"
			}
			add(kind, "object %s (%T): RefCount %d IsEscaped %v but OwnerID %q", id, o.Obj, oi.RefCount, oi.IsEscaped, oi.OwnerID.String())
		}
		if !oi.OwnerID.IsZero() {
			ow := sn.Objs[oi.OwnerID.String()]
			if ow == nil {
				add("owner-stale", "object %s (%T): owner %s is not persisted", id, o.Obj, oi.OwnerID)
			} else {
				holds := false
				for _, rv := range ow.Refs {
					if rv.ObjectID == o.OID {
						holds = true
					}
				}
				if !holds {
					add("owner-stale", "object %s (%T): recorded owner %s (%T) holds no reference to it", id, o.Obj, oi.OwnerID, ow.Obj)
				}
			}
		}
		if oi.IsEscaped {
			if !bytes.Equal(o.Escaped, o.Hash) {
				add("escaped-index", "escaped object %s: escaped-hash index holds %x, stored hash is %x", id, o.Escaped, o.Hash)
			}
		}
	}
	// reachability from the package values
	reach := map[string]bool{}
	var stack []string
	for _, id := range sn.Order {
		if c06IsPkg(sn.Objs[id]) {
			reach[id] = true
			stack = append(stack, id)
		}
	}
	for len(stack) > 0 {
		id := stack[len(stack)-1]
		stack = stack[:len(stack)-1]
		for _, t := range succ[id] {
			if !reach[t] {
				reach[t] = true
				stack = append(stack, t)
			}
		}
	}
	var un []string
	for _, id := range sn.Order {
		if !reach[id] {
			un = append(un, id)
		}
	}
	if len(un) > 0 {
		// an unreachable object is excused when it lies on a reference cycle
		// or is kept alive by one (reachable from a cycle of unreachable
		// objects): reference counting cannot collect those.
		onCycle := c06CycleNodes(un, succ)
		excused := map[string]bool{}
		var st []string
		for id := range onCycle {
			excused[id] = true
			st = append(st, id)
		}
		sort.Strings(st)
		for len(st) > 0 {
			id := st[len(st)-1]
			st = st[:len(st)-1]
			for _, t := range succ[id] {
				if !reach[t] && !excused[t] {
					excused[t] = true
					st = append(st, t)
				}
			}
		}
		for _, id := range un {
			if !excused[id] {
				subject = id
				add("unreachable", "object %s (%T) is neither reachable from a package nor held by a reference cycle (RefCount %d)", id, sn.Objs[id].Obj, sn.Objs[id].Obj.GetObjectInfo().RefCount)
			}
		}
	}
	return out
}

// c06CycleNodes returns the nodes of `nodes` lying on a cycle of the sub-graph
// induced by `nodes` (Tarjan SCCs of size > 1, or self loops).
func c06CycleNodes(nodes []string, succ map[string][]string) map[string]bool {
	in := map[string]bool{}
	for _, n := range nodes {
		in[n] = true
	}
	index := map[string]int{}
	low := map[string]int{}
	onst := map[string]bool{}
	var st []string
	res := map[string]bool{}
	next := 0
	var strong func(v string)
	strong = func(v string) {
		index[v] = next
		low[v] = next
		next++
		st = append(st, v)
		onst[v] = true
		for _, w := range succ[v] {
			if !in[w] {
				continue
			}
			if _, seen := index[w]; !seen {
				strong(w)
				if low[w] < low[v] {
					low[v] = low[w]
				}
			} else if onst[w] && index[w] < low[v] {
				low[v] = index[w]
			}
		}
		if low[v] == index[v] {
			var comp []string
			for {
				w := st[len(st)-1]
				st = st[:len(st)-1]
				onst[w] = false
				comp = append(comp, w)
				if w == v {
					break
				}
			}
			if len(comp) > 1 {
				for _, w := range comp {
					res[w] = true
				}
			} else {
				for _, w := range succ[v] {
					if w == v {
						res[v] = true
					}
				}
			}
		}
	}
	for _, n := range nodes {
		if _, seen := index[n]; !seen {
			strong(n)
		}
	}
	return res
}

// c06Track accumulates the non-triviality evidence over the snapshots of one
// history: sharing then un-sharing, owner moves, cross-realm references.
type c06Track struct {
	maxRC   map[string]int
	owner   map[string]string
	Unshare int
	Moved   int
	Cross   int
	Cycles  int
	// ObjectIDs are never re-issued: per realm the largest NewTime ever seen
	// in a committed state, and the Go type of every object seen so far
	maxTime  map[string]uint64
	seenType map[string]string
	started  bool
	Replaced int // an object of one realm held only by another realm replaced by a fresh one
}

// reissue checks the fresh keys of a snapshot against the history: a key that
// was not there after the previous transaction must carry a NewTime above every
// NewTime its realm has ever used, and an oid: entry must never turn into an
// object of another type (an overwrite by a different fresh object).
func (t *c06Track) reissue(sn *rkSnap) []c06Problem {
	var out []c06Problem
	if t.maxTime == nil {
		t.maxTime = map[string]uint64{}
		t.seenType = map[string]string{}
	}
	newMax := map[string]uint64{}
	for _, id := range sn.Order {
		o := sn.Objs[id]
		pkg := id[:strings.Index(id, ":")]
		ty := fmt.Sprintf("%T", o.Obj)
		if prev, ok := t.seenType[id]; ok {
			if prev != ty {
				out = append(out, c06Problem{"id-reissued", id, fmt.Sprintf("object %s was a %s and is now a %s", id, prev, ty)})
			}
		} else if t.started && o.OID.NewTime <= t.maxTime[pkg] {
			out = append(out, c06Problem{"id-reissued", id, fmt.Sprintf("new object %s (%s) carries NewTime %d although realm %s had already issued %d", id, ty, o.OID.NewTime, pkg, t.maxTime[pkg])})
		}
		t.seenType[id] = ty
		if o.OID.NewTime > newMax[pkg] {
			newMax[pkg] = o.OID.NewTime
		}
	}
	for pkg, m := range newMax {
		if m > t.maxTime[pkg] {
			t.maxTime[pkg] = m
		}
	}
	t.started = true
	return out
}

func (t *c06Track) observe(sn *rkSnap) {
	if t.maxRC == nil {
		t.maxRC = map[string]int{}
		t.owner = map[string]string{}
	}
	// sole referrer of every singly referenced object
	refBy := map[string]string{}
	nref := map[string]int{}
	for _, id := range sn.Order {
		for _, rv := range sn.Objs[id].Refs {
			tid := rv.ObjectID.String()
			nref[tid]++
			refBy[tid] = id
		}
	}
	cross := 0
	for _, id := range sn.Order {
		o := sn.Objs[id]
		oi := o.Obj.GetObjectInfo()
		if c06IsPkg(o) {
			continue
		}
		if _, isBlock := o.Obj.(*gnolang.Block); isBlock {
			continue
		}
		if oi.RefCount >= 2 && oi.RefCount > t.maxRC[id] {
			t.maxRC[id] = oi.RefCount
		}
		if oi.RefCount == 1 && t.maxRC[id] >= 2 {
			t.Unshare++
			t.maxRC[id] = -1 << 30
		}
		// moved: singly referenced before and after, by a different referrer
		cur := ""
		if nref[id] == 1 {
			cur = refBy[id]
		}
		if prev, ok := t.owner[id]; ok && prev != "" && cur != "" && prev != cur {
			t.Moved++
		}
		t.owner[id] = cur
		for _, rv := range o.Refs {
			if rv.ObjectID.PkgID != o.OID.PkgID && !rv.ObjectID.PkgID.IsImmutablePkg() {
				cross++
			}
		}
	}
	if cross > t.Cross {
		t.Cross = cross
	}
}

var c06Debug = os.Getenv("C06_DEBUG") != ""

// c06KeyStaleOwner: a divergence of the unchanged tree. When the only
// referrer of a singly-owned object is replaced by another object in the same
// transaction (e.g. append re-allocates the backing array of a slice whose
// elements are objects), the object keeps the OwnerID of the old, deleted
// parent; the new parent may then embed an outdated hash of it.
const c06KeyStaleOwner = "owner-id-stale-after-reparenting"

// c06KeyEscapedOwner: second divergence of the unchanged tree. An object that
// escaped in an earlier transaction (IsEscaped is sticky) and whose reference
// count drops to zero and rises to one again inside one transaction gets the
// new referrer recorded as owner although escaped objects must not have one.
const c06KeyEscapedOwner = "escaped-object-records-owner"

// c06After runs the checker after one transaction.
func c06After(ctx *vk.Ctx, ch *rkChain, tr *c06Track, where string, tail ...string) error {
	sn, err := rkSnapshot(ch.DB)
	if err != nil {
		return fmt.Errorf("%s: persisted state does not decode: %v", where, err)
	}
	tr.observe(sn)
	probs := append(c06Check(sn), tr.reissue(sn)...)
	// objects whose recorded owner is gone or no longer refers to them
	stale := map[string]bool{}
	for _, p := range probs {
		if p.Kind == "owner-stale" {
			stale[p.Obj] = true
		}
	}
	var bad []string
	for _, p := range probs {
		if strings.HasPrefix(p.Kind, "obs:") {
			ctx.Class(p.Kind)
			continue
		}
		// The stale owner itself; and, for exactly such an object, an OwnerID
		// that should have been cleared when the object escaped: the clearing in
		// processNewEscapedMarks is skipped when the recorded owner cannot be
		// loaded any more (po == nil -> continue), a consequence of the same
		// defect.
		if (p.Kind == "owner-stale" || ((p.Kind == "owner" || p.Kind == "owner-on-escaped") && stale[p.Obj])) && ctx.Known(c06KeyStaleOwner) {
			ctx.Class("known:" + p.Kind)
			continue
		}
		if p.Kind == "owner-on-escaped" && ctx.Known(c06KeyEscapedOwner) {
			ctx.Class("known:" + p.Kind)
			continue
		}
		bad = append(bad, p.Kind+": "+p.Msg)
	}
	if len(bad) > 0 {
		if len(bad) > 6 {
			bad = append(bad[:6], fmt.Sprintf("... %d problems in total", len(bad)))
		}
		// the problem list first, long context (program text) last, so that a
		// truncated message keeps the problems
		return fmt.Errorf("%s: %s\n%s", where, strings.Join(bad, "\n  "), strings.Join(tail, "\n"))
	}
	return nil
}

// ---------------------------------------------------------------------------
// Part 1: two cooperating realms driven by generated op programs.

const (
	c06PathA = "gno.land/r/cz/ga"
	c06PathB = "gno.land/r/cz/gb"
)

const c06SrcA = `package ga

type Val struct {
	N int
	P *Node
}

type Node struct {
	ID   int
	L, R *Node
	Kids []*Node
	M    map[string]*Node
	Any  interface{}
	V    Val
	Arr  [2]*Node
}

var (
	Slots   [5]*Node
	Pool    = map[string]*Node{}
	Keep    []*Node
	Anys    [4]interface{}
	Fns     []func() int
	Ctr     int
)

func New() *Node {
	Ctr++
	return &Node{ID: Ctr}
}

func GetSlot(i int) *Node { return Slots[i%%5] }

func PutAny(cur realm, i int, x interface{}) { Anys[i%%4] = x }

func Attach(cur realm, i int, n *Node) { Slots[i%%5] = n }

func Drop(cur realm, i int) { Slots[i%%5] = nil }

func d(s string, i int) int {
	if i < len(s) && s[i] >= '0' && s[i] <= '9' {
		return int(s[i] - '0')
	}
	return 0
}

func k(s string, i int) string {
	if i < len(s) {
		return s[i : i+1]
	}
	return "a"
}

// Exec interprets prog: ops separated by ';', each a letter followed by
// single-character operands. Registers r0..r3 are transaction-local.
func Exec(cur realm, prog string) string {
	var r [4]*Node
	n := 0
	start := 0
	for start <= len(prog) {
		end := start
		for end < len(prog) && prog[end] != ';' {
			end++
		}
		op := prog[start:end]
		start = end + 1
		if len(op) == 0 {
			continue
		}
		n++
		a, b := d(op, 1)%%4, d(op, 2)%%4
		switch op[0] {
		case 'N':
			r[a] = New()
		case 'x':
			r[a] = nil
		case 'L':
			r[a] = Slots[d(op, 2)%%5]
		case 'S':
			Slots[d(op, 1)%%5] = r[b]
		case 'Z':
			Slots[d(op, 1)%%5] = nil
		case 'l':
			if r[a] != nil {
				r[a].L = r[b]
			}
		case 'r':
			if r[a] != nil {
				r[a].R = r[b]
			}
		case 'g':
			if r[b] != nil {
				r[a] = r[b].L
			}
		case 'h':
			if r[b] != nil {
				r[a] = r[b].R
			}
		case 'd':
			if r[a] != nil {
				r[a].L, r[a].R = nil, nil
			}
		case 'K':
			if r[a] != nil {
				r[a].Kids = append(r[a].Kids, r[b])
			}
		case 'k':
			if r[a] != nil && len(r[a].Kids) > 0 {
				r[a].Kids = r[a].Kids[:len(r[a].Kids)-1]
			}
		case 'c':
			if r[a] != nil {
				r[a].Kids = nil
			}
		case 'j':
			if r[b] != nil && len(r[b].Kids) > 0 {
				r[a] = r[b].Kids[len(r[b].Kids)-1]
			}
		case 'M':
			if r[a] != nil {
				if r[a].M == nil {
					r[a].M = map[string]*Node{}
				}
				r[a].M[k(op, 3)] = r[b]
			}
		case 'm':
			if r[a] != nil && r[a].M != nil {
				delete(r[a].M, k(op, 2))
			}
		case 'n':
			if r[b] != nil && r[b].M != nil {
				r[a] = r[b].M[k(op, 3)]
			}
		case 'A':
			if r[a] != nil {
				r[a].Any = r[b]
			}
		case 'C':
			if r[a] != nil && r[b] != nil {
				r[a].Any = *r[b]
			}
		case 'a':
			if r[a] != nil {
				r[a].Any = nil
			}
		case 'V':
			if r[a] != nil {
				r[a].V = Val{N: n, P: r[b]}
			}
		case 'T':
			if r[a] != nil {
				r[a].Arr[d(op, 3)%%2] = r[b]
			}
		case 'P':
			Pool[k(op, 2)] = r[a]
		case 'p':
			delete(Pool, k(op, 1))
		case 'q':
			r[a] = Pool[k(op, 2)]
		case 'E':
			Keep = append(Keep, r[a])
		case 'e':
			if len(Keep) > 0 {
				Keep = Keep[:len(Keep)-1]
			}
		case 'f':
			Keep = nil
		case 'R':
			Anys[d(op, 1)%%4] = r[b]
		case 'F':
			nd := r[a]
			Fns = append(Fns, func() int {
				if nd == nil {
					return -1
				}
				return nd.ID
			})
		case 'G':
			Fns = nil
		case 'X':
			panic("boom")
		}
	}
	out := ""
	for n > 0 {
		out = string(rune('0'+n%%10)) + out
		n /= 10
	}
	return out
}
`

const c06SrcB = `package gb

import "gno.land/r/cz/ga"

type Item struct {
	ID   int
	Next *Item
	N    *ga.Node
	Any  interface{}
}

var (
	Hold  [4]*ga.Node
	Items [4]*Item
	Ctr   int
)

func d(s string, i int) int {
	if i < len(s) && s[i] >= '0' && s[i] <= '9' {
		return int(s[i] - '0')
	}
	return 0
}

func Exec(cur realm, prog string) string {
	n := 0
	start := 0
	for start <= len(prog) {
		end := start
		for end < len(prog) && prog[end] != ';' {
			end++
		}
		op := prog[start:end]
		start = end + 1
		if len(op) == 0 {
			continue
		}
		n++
		a, b := d(op, 1)%%4, d(op, 2)%%4
		switch op[0] {
		case 'G': // retain a node living in realm ga
			Hold[a] = ga.GetSlot(d(op, 2))
		case 'g':
			Hold[a] = nil
		case 'w': // a node allocated by ga's code, first persisted here
			Hold[a] = ga.New()
		case 'W': // hand a retained node back to ga
			ga.Attach(cross(cur), d(op, 2), Hold[a])
		case 'u':
			ga.Drop(cross(cur), d(op, 1))
		case 'I':
			Ctr++
			Items[a] = &Item{ID: Ctr}
		case 'i':
			Items[a] = nil
		case 'n':
			if Items[a] != nil {
				Items[a].Next = Items[b]
			}
		case 'N':
			if Items[a] != nil {
				Items[a].N = Hold[b]
			}
		case 'v': // an item's reference replaced by a node freshly allocated by ga
			if Items[a] != nil {
				Items[a].N = ga.New()
			}
		case 'o':
			if Items[a] != nil && Hold[b] != nil {
				Items[a].Any = Hold[b].L
			}
		case 'y': // move one of this realm's objects into ga
			ga.PutAny(cross(cur), d(op, 2), Items[a])
		case 'Y':
			ga.PutAny(cross(cur), d(op, 1), nil)
		case 'z': // fresh object handed to ga without ever being attached here
			Ctr++
			ga.PutAny(cross(cur), d(op, 1), &Item{ID: Ctr, N: Hold[b]})
		case 'X':
			panic("boom")
		}
	}
	return ""
}
`

type c06Tx struct {
	B    bool   `json:"b"` // call realm gb (else ga)
	Prog string `json:"prog"`
}

type c06Case struct {
	Txs []c06Tx `json:"txs"`
}

var c06OpsA = []string{"N%d", "N%d", "x%d", "L%d%d", "L%d%d", "S%d%d", "S%d%d", "S%d%d", "Z%d", "Z%d", "l%d%d", "l%d%d", "r%d%d", "g%d%d", "h%d%d", "d%d", "K%d%d", "K%d%d", "k%d", "c%d", "j%d%d",
	"M%d%dk", "M%d%dq", "m%dk", "n%d%dk", "A%d%d", "C%d%d", "a%d", "V%d%d", "T%d%d1", "P%dk", "P%dq", "pk", "q%dk", "E%d", "e", "f", "R%d%d", "F%d", "G"}
// macro ops: {a},{b} registers, {s},{t} slots, drawn once per macro
var c06Macros = []string{
	"L{a}{s};S{t}{a}",            // share: a second root reference
	"L{a}{s};Z{s};S{t}{a}",       // move: detach and re-attach within one tx
	"L{a}{s};g{b}{a};d{a};S{t}{b}", // pull a child out of its parent and attach it to a root
	"L{a}{s};L{b}{t};l{a}{b};l{b}{a}", // cycle between two rooted nodes
	"N{a};N{b};l{a}{b};l{b}{a};S{s}{a}", // fresh cycle, rooted
	"Z{s};Z{t}",                  // drop roots (un-share / delete / leak a cycle)
	"L{a}{s};E{a};Z{s}",          // move from a slot into the Keep slice
	"N{a};E{a}",                  // append a fresh singly-owned element
	"e;e",                        // pop
}

var c06OpsB = []string{"v%d", "G%d%d", "G%d%d", "g%d", "w%d", "W%d%d", "u%d", "I%d", "I%d", "i%d", "n%d%d", "N%d%d", "o%d%d", "y%d%d", "y%d%d", "Y%d", "z%d%d"}

func c06DrawOp(rt *rapid.T, tbl []string, macros bool) string {
	if macros && rapid.IntRange(0, 3).Draw(rt, "macro") == 0 {
		m := rapid.SampledFrom(c06Macros).Draw(rt, "mop")
		for _, v := range []string{"{a}", "{b}", "{s}", "{t}"} {
			m = strings.ReplaceAll(m, v, strconv.Itoa(rapid.IntRange(0, 3).Draw(rt, "marg")))
		}
		return m
	}
	f := rapid.SampledFrom(tbl).Draw(rt, "op")
	n := strings.Count(f, "%d")
	args := make([]any, n)
	for i := range args {
		args[i] = rapid.IntRange(0, 3).Draw(rt, "arg")
	}
	return fmt.Sprintf(f, args...)
}

// directed sequences spliced (in order, at drawn positions) into a history:
// an object owned by one realm and held only by the other is replaced by a
// fresh, equally shaped one in later transactions, then the owning realm
// allocates. {a} {b} {s} are drawn once per chain.
var c06Chains = [][]c06Tx{
	{{B: true, Prog: "w{a}"}, {B: true, Prog: "w{a}"}, {B: true, Prog: "w{a}"}, {B: false, Prog: "N0;S{s}0"}},
	{{B: true, Prog: "w{a}"}, {B: true, Prog: "w{a}"}, {B: false, Prog: "N1;E1"}, {B: true, Prog: "w{b}"}},
	{{B: true, Prog: "z{s}{b}"}, {B: true, Prog: "z{s}{b}"}, {B: true, Prog: "I{a}"}, {B: true, Prog: "z{s}{b}"}},
	{{B: true, Prog: "I{a};v{a}"}, {B: true, Prog: "v{a}"}, {B: true, Prog: "v{a}"}, {B: false, Prog: "N0;P0k"}},
	{{B: true, Prog: "w{a};I{b};N{b}{a}"}, {B: true, Prog: "w{a}"}, {B: false, Prog: "N2;S{s}2;N3;K23"}, {B: true, Prog: "w{a}"}},
}

func c06Draw(rt *rapid.T) c06Case {
	c := c06DrawBase(rt)
	if rapid.IntRange(0, 2).Draw(rt, "chain") != 0 {
		ch := rapid.SampledFrom(c06Chains).Draw(rt, "which")
		rep := strings.NewReplacer("{a}", strconv.Itoa(rapid.IntRange(0, 3).Draw(rt, "ca")), "{b}", strconv.Itoa(rapid.IntRange(0, 3).Draw(rt, "cb")), "{s}", strconv.Itoa(rapid.IntRange(0, 3).Draw(rt, "cs")))
		pos := rapid.IntRange(0, len(c.Txs)).Draw(rt, "cpos")
		var out []c06Tx
		out = append(out, c.Txs[:pos]...)
		rest := c.Txs[pos:]
		for _, tx := range ch {
			out = append(out, c06Tx{B: tx.B, Prog: rep.Replace(tx.Prog)})
			// at most one unrelated transaction in between
			if len(rest) > 0 && rapid.IntRange(0, 2).Draw(rt, "gap") == 0 {
				out = append(out, rest[0])
				rest = rest[1:]
			}
		}
		c.Txs = append(out, rest...)
	}
	return c
}

func c06DrawBase(rt *rapid.T) c06Case {
	var c c06Case
	ntx := rapid.IntRange(5, 30).Draw(rt, "ntx")
	for i := 0; i < ntx; i++ {
		tx := c06Tx{B: rapid.IntRange(0, 3).Draw(rt, "realm") == 0}
		tbl := c06OpsA
		if tx.B {
			tbl = c06OpsB
		}
		nops := rapid.IntRange(1, 8).Draw(rt, "nops")
		var ops []string
		for j := 0; j < nops; j++ {
			ops = append(ops, c06DrawOp(rt, tbl, !tx.B))
		}
		if rapid.IntRange(0, 11).Draw(rt, "boom") == 0 {
			ops = append(ops, "X")
		}
		tx.Prog = strings.Join(ops, ";")
		c.Txs = append(c.Txs, tx)
	}
	return c
}

func c06Exec(ctx *vk.Ctx, c c06Case) error {
	ch, err := rkNew()
	if err != nil {
		return fmt.Errorf("harness: %v", err)
	}
	if r, err := ch.Deploy(c06PathA, fmt.Sprintf(c06SrcA)); err != nil || r.Error != nil {
		return fmt.Errorf("harness: deploying ga: %v %s", err, rkErr(r))
	}
	if r, err := ch.Deploy(c06PathB, fmt.Sprintf(c06SrcB)); err != nil || r.Error != nil {
		return fmt.Errorf("harness: deploying gb: %v %s", err, rkErr(r))
	}
	tr := &c06Track{}
	if err := c06After(ctx, ch, tr, "after deployment"); err != nil {
		return err
	}
	failed, sameTx := 0, 0
	seenRepl := map[string]bool{}
	for i, tx := range c.Txs {
		path := c06PathA
		if tx.B {
			path = c06PathB
		}
		r, err := ch.Call(path, "Exec", tx.Prog)
		if err != nil {
			return fmt.Errorf("harness: %v", err)
		}
		if r.Error != nil {
			failed++
			if !strings.Contains(rkErr(r), "boom") {
				if c06Debug {
					fmt.Printf("C06 tx %d %q failed: %s\n", i, tx.Prog, rkErr(r))
				}
				ctx.Class("tx-failed-not-by-design")
			}
		}
		if strings.Contains(tx.Prog, "Z") && strings.Contains(tx.Prog, "S") && strings.Contains(tx.Prog, "L") && r.Error == nil {
			sameTx++
		}
		if tx.B && r.Error == nil {
			for _, op := range strings.Split(tx.Prog, ";") {
				if len(op) > 1 && (op[0] == 'w' || op[0] == 'z' || op[0] == 'v') {
					if seenRepl[op] {
						tr.Replaced++
					}
					seenRepl[op] = true
				}
			}
		}
		if err := c06After(ctx, ch, tr, fmt.Sprintf("after tx %d (%s.Exec(%q), failed=%v)", i, path, tx.Prog, r.Error != nil)); err != nil {
			return err
		}
	}
	ctx.ClassIf(tr.Unshare > 0, "share-then-unshare")
	ctx.ClassIf(tr.Moved > 0, "owner-moved")
	ctx.ClassIf(tr.Cross > 0, "cross-realm-reference")
	ctx.ClassIf(tr.Replaced > 0, "foreign-held-object-replaced-by-fresh-one")
	ctx.ClassIf(failed > 0, "has-failing-tx")
	ctx.ClassIf(sameTx > 0, "load-detach-attach-in-one-tx")
	ctx.NTIf(tr.Unshare > 0 || tr.Moved > 0 || tr.Cross > 0)
	ctx.Note("unshare", tr.Unshare)
	ctx.Note("moved", tr.Moved)
	ctx.Note("cross", tr.Cross)
	return nil
}

const c06Rule = "rapid: histories of 5-30 transactions (one per block, ~8% ending in a panic) against two cooperating realms; each tx is a generated program of 1-8 ops over 4 transaction-local registers: allocate, load from / store to / clear root slots, link L/R, slices of children (append/pop/clear), maps (set/delete/get), interface fields holding pointers or struct copies, struct-valued fields, array fields, package map and slice roots, closures capturing nodes; realm gb retains nodes of ga, persists nodes allocated by ga's code, hands them back through a crossing call, moves its own objects into ga (also never attached at home) and drops them; 2/3 of the histories contain a directed chain in which a foreign-owned, foreign-held object is replaced by a fresh equally shaped one in consecutive transactions before the owner allocates; after every commit all oid: entries of all realms are decoded from the raw store and refcounts, owners, dangling references, hashes (own and embedded in parents), escaped-hash index, reachability and the never-re-issued rule for ObjectIDs are recomputed; non-trivial = some object was shared and later un-shared, or changed owner, or a cross-realm object reference was persisted"

func TestC06_Histories(t *testing.T) {
	vk.Run(t, vk.Spec[c06Case]{ID: "C06", Name: "TestC06_Histories", Rule: c06Rule, Draw: c06Draw, Exec: c06Exec})
}

// ---------------------------------------------------------------------------
// Part 2: the generated realm programs of C03 (all persistable kinds, aliasing)
// executed one call per transaction with the graph check after every commit.

type c06ProgCase struct {
	Prog  c03Prog   `json:"prog"`
	Calls []c03Call `json:"calls"`
}

func c06ProgExec(ctx *vk.Ctx, c c06ProgCase) error {
	ch, err := rkNew()
	if err != nil {
		return fmt.Errorf("harness: %v", err)
	}
	r, err := ch.Deploy(c03Pkg, c03Full(c.Prog, nil, false))
	if err != nil {
		return fmt.Errorf("harness: %v", err)
	}
	if r.Error != nil {
		if c06Debug {
			fmt.Printf("C06 deploy failed: %s\n%s\n", strings.Split(rkErr(r), "\n")[0], c.Prog.Src)
		}
		ctx.Class("discard:deploy-failed")
		return nil
	}
	tr := &c06Track{}
	if err := c06After(ctx, ch, tr, "after deployment", c.Prog.Src); err != nil {
		return err
	}
	for i, cl := range c.Calls {
		fn := c.Prog.Funcs[cl.Fn].Name
		r, err := ch.Call(c03Pkg, fn, strconv.Itoa(cl.A), cl.S)
		if err != nil {
			return fmt.Errorf("harness: %v", err)
		}
		ctx.ClassIf(r.Error != nil, "has-failing-tx")
		if err := c06After(ctx, ch, tr, fmt.Sprintf("after call %d %s(%d,%q) failed=%v", i, fn, cl.A, cl.S, r.Error != nil), c.Prog.Src); err != nil {
			return err
		}
	}
	ctx.ClassIf(tr.Unshare > 0, "share-then-unshare")
	ctx.ClassIf(tr.Moved > 0, "owner-moved")
	ctx.NTIf(tr.Unshare > 0 || tr.Moved > 0)
	return nil
}

func TestC06_Programs(t *testing.T) {
	vk.Run(t, vk.Spec[c06ProgCase]{ID: "C06", Name: "TestC06_Programs",
		Rule: "rapid: realm programs of the C03 grammar (structs, arrays incl. byte arrays, slices sharing backing arrays, maps, pointers into arrays/fields/slice elements, closures, interfaces) with 3-12 calls, one MsgCall per block; graph invariants recomputed from the raw store after every commit; non-trivial = some object was shared and later un-shared or changed owner",
		Draw: func(rt *rapid.T) c06ProgCase {
			p := c03DrawProg(rt, "prog", 3, 6)
			return c06ProgCase{Prog: p, Calls: c03DrawCalls(rt, len(p.Funcs), 3, 12)}
		},
		Exec: c06ProgExec})
}
