package realm

import (
	"fmt"
	"sort"
	"strconv"
	"strings"

	"pgregory.net/rapid"
)

// Generator of realm programs over the persistable value kinds (C03, reused
// by C06). It is a typed grammar: a small type universe (primitives, arrays,
// slices, maps, pointers, declared structs, an interface with declared
// implementers, closures), literals for every type, *places* (guarded
// selector/index/deref paths rooted at package variables or locals) and
// statements over places. Every statement is wrapped in the conjunction of the
// guards of the places it touches, so generated bodies never panic.

type c03Ty struct {
	K  string // int str bool u8 arr sl map ptr st if fn
	E  *c03Ty
	Ky *c03Ty
	N  int
	S  int
}

func (t *c03Ty) id() string {
	switch t.K {
	case "arr":
		return "a" + strconv.Itoa(t.N) + "_" + t.E.id()
	case "sl":
		return "s_" + t.E.id()
	case "map":
		return "m" + t.Ky.id() + "_" + t.E.id()
	case "ptr":
		return "p_" + t.E.id()
	case "st":
		return "st" + strconv.Itoa(t.S)
	}
	return t.K // prims, if, fn, ks
}

func (t *c03Ty) src() string {
	switch t.K {
	case "int":
		return "int"
	case "str":
		return "string"
	case "bool":
		return "bool"
	case "u8":
		return "uint8"
	case "arr":
		return "[" + strconv.Itoa(t.N) + "]" + t.E.src()
	case "sl":
		return "[]" + t.E.src()
	case "map":
		return "map[" + t.Ky.src() + "]" + t.E.src()
	case "ptr":
		return "*" + t.E.src()
	case "st":
		return "S" + strconv.Itoa(t.S)
	case "if":
		return "IF"
	case "fn":
		return "func(int) int"
	case "ks":
		return "KS"
	}
	panic("bad type " + t.K)
}

func (t *c03Ty) isRef() bool {
	switch t.K {
	case "sl", "map", "ptr", "if", "fn":
		return true
	}
	return false
}

var (
	c03Int = &c03Ty{K: "int"}
	c03Str = &c03Ty{K: "str"}
)

type c03Place struct {
	X     string
	T     *c03Ty
	Conds []string
	Asg   bool
	Adr   bool
	Root  string
	Steps int
}

type c03Var struct {
	Name string
	T    *c03Ty
}

type c03Gen struct {
	rt      *rapid.T
	structs [][]*c03Ty // field types; field 0 is always int (name N)
	vars    []c03Var
	types   map[string]*c03Ty
	nw      map[string]*c03Ty
	order   []string
	alias   int
	nested  int // copies of values whose type nests an aggregate by value
}

// nestsAgg reports whether a value of type t contains another array or struct
// by value (a separate persisted object inside the value).
func (g *c03Gen) nestsAgg(t *c03Ty) bool {
	switch t.K {
	case "arr":
		return t.E.K == "arr" || t.E.K == "st" || t.E.K == "ks"
	case "st":
		for _, f := range g.structs[t.S] {
			if f.K == "arr" || f.K == "st" {
				return true
			}
		}
	}
	return false
}

func (g *c03Gen) n(lo, hi int, l string) int { return rapid.IntRange(lo, hi).Draw(g.rt, l) }

func (g *c03Gen) reg(t *c03Ty) *c03Ty {
	if _, ok := g.types[t.id()]; ok {
		return t
	}
	g.types[t.id()] = t
	g.order = append(g.order, t.id())
	if t.E != nil {
		g.reg(t.E)
	}
	if t.Ky != nil {
		g.reg(t.Ky)
	}
	return t
}

// ty draws a type of nesting depth <= d. Structs with index < byVal may be
// used by value, index < byRef behind an indirection.
func (g *c03Gen) ty(d, byVal, byRef int) *c03Ty {
	if d <= 0 {
		switch g.n(0, 5, "prim") {
		case 0, 1, 2:
			return c03Int
		case 3:
			return c03Str
		case 4:
			return &c03Ty{K: "bool"}
		default:
			return &c03Ty{K: "u8"}
		}
	}
	switch g.n(0, 15, "kind") {
	case 0:
		return g.ty(0, 0, 0)
	case 1:
		return &c03Ty{K: "if"}
	case 2, 3:
		return &c03Ty{K: "arr", N: g.n(2, 4, "alen"), E: g.ty(d-1, byVal, byRef)}
	case 4, 5, 6:
		return &c03Ty{K: "sl", E: g.ty(d-1, byRef, byRef)}
	case 7, 8:
		ky := c03Str
		switch g.n(0, 4, "ikey") {
		case 0:
			ky = c03Int
		case 1:
			ky = c03CKeys[g.n(0, len(c03CKeys)-1, "ckey")]
		}
		// map values of declared / interface types are favoured: their types are
		// stored as references and must be re-resolved when the map is loaded
		switch g.n(0, 5, "melem") {
		case 0:
			return &c03Ty{K: "map", Ky: ky, E: &c03Ty{K: "if"}}
		case 1:
			if byRef > 0 {
				return &c03Ty{K: "map", Ky: ky, E: &c03Ty{K: "ptr", E: &c03Ty{K: "st", S: g.n(0, byRef-1, "msidx")}}}
			}
		case 2:
			if byRef > 0 {
				return &c03Ty{K: "map", Ky: ky, E: &c03Ty{K: "st", S: g.n(0, byRef-1, "msidx")}}
			}
		}
		return &c03Ty{K: "map", Ky: ky, E: g.ty(d-1, byRef, byRef)}
	case 9, 10, 11:
		return &c03Ty{K: "ptr", E: g.ty(d-1, byRef, byRef)}
	case 12, 13:
		if byVal > 0 {
			return &c03Ty{K: "st", S: g.n(0, byVal-1, "sidx")}
		}
		return c03Int
	case 14:
		return &c03Ty{K: "if"}
	default:
		return &c03Ty{K: "fn"}
	}
}

// ---------------------------------------------------------------------------
// literals

var c03StrKeys = []string{`"a"`, `"b"`, `"c"`, `"k"`}
var c03IntKeys = []string{"0", "1", "2", "7"}

// Composite map keys. KS is a declared comparable struct holding a pointer;
// K0..K2 are package variables of type *S0 (ordinary variables for the rest of
// the grammar: statements re-point them, alias them, mutate their pointees).
var (
	c03PS0   = &c03Ty{K: "ptr", E: &c03Ty{K: "st", S: 0}}
	c03KS    = &c03Ty{K: "ks"}
	c03CKeys = []*c03Ty{
		c03PS0,                            // pointer key
		{K: "arr", N: 2, E: c03PS0},       // array of pointers
		c03KS,                             // struct with a pointer
		{K: "if"},                         // interface holding pointers / declared values
		{K: "arr", N: 2, E: c03Int},       // array of primitives
		{K: "arr", N: 2, E: c03KS},        // array of structs with pointers
	}
)

func c03Composite(kt *c03Ty) bool { return kt.K != "int" && kt.K != "str" }

// keyExprs lists the key expressions used for a key type (literals, lookups,
// deletes, rendering); the arg-dependent ones come last.
func (g *c03Gen) keyExprs(kt *c03Ty, args bool) []string {
	var out []string
	switch kt.id() {
	case "int":
		out = append([]string{}, c03IntKeys...)
		if args {
			out = append(out, "a")
		}
	case "str":
		out = append([]string{}, c03StrKeys...)
		if args {
			out = append(out, "s")
		}
	case "p_st0":
		out = []string{"K0", "K1", "K2"}
	case "a2_p_st0":
		out = []string{"[2]*S0{K0, K1}", "[2]*S0{K1, K0}", "[2]*S0{K2, nil}"}
	case "ks":
		out = []string{"KS{P: K0, I: 1}", "KS{P: K1, I: 1}", "KS{P: K0, I: 2}"}
		if args {
			out = append(out, "KS{P: K2, I: a}")
		}
	case "if":
		out = []string{"IF(K0)", "IF(K1)", "IF(VI(3))", "IF(VI(4))"}
	case "a2_int":
		out = []string{"[2]int{1, 2}", "[2]int{2, 1}"}
		if args {
			out = append(out, "[2]int{a, 1}")
		}
	case "a2_ks":
		out = []string{"[2]KS{KS{P: K0, I: 1}, KS{P: K1, I: 2}}", "[2]KS{KS{P: K1, I: 1}, KS{P: nil, I: 0}}", "[2]KS{KS{P: K2, I: 1}, KS{P: K2, I: 1}}"}
	default:
		panic("no key expressions for " + kt.id())
	}
	return out
}

func (g *c03Gen) key(t *c03Ty, l string) string {
	ks := g.keyExprs(t, false)
	return ks[g.n(0, len(ks)-1, l)]
}

func (g *c03Gen) lit(t *c03Ty, b int) string {
	g.reg(t)
	switch t.K {
	case "int":
		return strconv.Itoa(g.n(-5, 99, "ilit"))
	case "str":
		return strconv.Quote(rapid.StringMatching("[a-z]{0,3}").Draw(g.rt, "slit"))
	case "bool":
		if g.n(0, 1, "blit") == 0 {
			return "false"
		}
		return "true"
	case "u8":
		return strconv.Itoa(g.n(0, 255, "u8lit"))
	case "arr":
		parts := make([]string, t.N)
		for i := range parts {
			parts[i] = g.lit(t.E, b-1)
		}
		return t.src() + "{" + strings.Join(parts, ", ") + "}"
	case "sl":
		if b <= 0 || g.n(0, 9, "slnil") == 0 {
			return "nil"
		}
		if g.n(0, 3, "slmake") == 0 {
			n := g.n(0, 3, "mklen")
			return fmt.Sprintf("make(%s, %d, %d)", t.src(), n, n+g.n(0, 2, "mkcap"))
		}
		n := g.n(0, 3, "sllen")
		parts := make([]string, n)
		for i := range parts {
			parts[i] = g.lit(t.E, b-1)
		}
		return t.src() + "{" + strings.Join(parts, ", ") + "}"
	case "map":
		if b <= 0 || g.n(0, 9, "mnil") == 0 {
			return "nil"
		}
		n := g.n(0, 3, "mlen")
		var parts []string
		used := map[string]bool{}
		for i := 0; i < n; i++ {
			k := g.key(t.Ky, "mkey")
			if used[k] {
				continue
			}
			used[k] = true
			parts = append(parts, k+": "+g.lit(t.E, b-1))
		}
		return t.src() + "{" + strings.Join(parts, ", ") + "}"
	case "ptr":
		if b <= 0 || g.n(0, 4, "pnil") == 0 {
			return "nil"
		}
		if t.E.K == "st" {
			return "&" + g.lit(t.E, b-1)
		}
		g.nw[t.E.id()] = t.E
		return "nw_" + t.E.id() + "(" + g.lit(t.E, b-1) + ")"
	case "st":
		fs := g.structs[t.S]
		parts := []string{"N: " + strconv.Itoa(g.n(-5, 99, "stn"))}
		for i := 1; i < len(fs); i++ {
			parts = append(parts, fmt.Sprintf("F%d: %s", i, g.lit(fs[i], b-1)))
		}
		return t.src() + "{" + strings.Join(parts, ", ") + "}"
	case "ks":
		return fmt.Sprintf("KS{P: K%d, I: %d}", g.n(0, 2, "ksp"), g.n(0, 2, "ksi"))
	case "if":
		if b <= 0 { // no further struct literals below the budget (they may nest interfaces again)
			if g.n(0, 1, "ifleaf") == 0 {
				return "nil"
			}
			return "IF(nwNI(" + strconv.Itoa(g.n(0, 50, "ni")) + "))"
		}
		switch g.n(0, 6, "iflit") {
		case 0:
			return "nil"
		case 1, 2:
			return "IF(nwNI(" + strconv.Itoa(g.n(0, 50, "ni")) + "))"
		case 3:
			return "IF(VI(" + strconv.Itoa(g.n(0, 50, "vi")) + "))"
		default:
			st := &c03Ty{K: "st", S: g.n(0, len(g.structs)-1, "ifst")}
			return "IF(&" + g.lit(st, b-1) + ")"
		}
	case "fn":
		switch g.n(0, 5, "fnlit") {
		case 0:
			return "nil"
		case 1, 2:
			return "mkMul(" + strconv.Itoa(g.n(1, 9, "mulc")) + ")"
		default:
			return "mkAdd(" + strconv.Itoa(g.n(-3, 20, "addc")) + ")"
		}
	}
	panic("lit: bad type")
}

// ---------------------------------------------------------------------------
// places

func c03Conds(cs ...[]string) []string {
	var out []string
	seen := map[string]bool{}
	for _, c := range cs {
		for _, s := range c {
			if !seen[s] {
				seen[s] = true
				out = append(out, s)
			}
		}
	}
	return out
}

func (g *c03Gen) children(p c03Place, args bool) []c03Place {
	var out []c03Place
	add := func(x string, t *c03Ty, asg, adr bool, conds ...string) {
		out = append(out, c03Place{X: x, T: t, Conds: c03Conds(p.Conds, conds), Asg: asg, Adr: adr, Root: p.Root, Steps: p.Steps + 1})
	}
	switch p.T.K {
	case "st":
		fs := g.structs[p.T.S]
		add(p.X+".N", c03Int, p.Adr, p.Adr)
		for i := 1; i < len(fs); i++ {
			add(fmt.Sprintf("%s.F%d", p.X, i), fs[i], p.Adr, p.Adr)
		}
	case "ptr":
		add("(*"+p.X+")", p.T.E, true, true, p.X+" != nil")
	case "arr":
		add(p.X+"[0]", p.T.E, p.Adr, p.Adr)
		add(fmt.Sprintf("%s[%d]", p.X, p.T.N-1), p.T.E, p.Adr, p.Adr)
		if args {
			add(p.X+"[a]", p.T.E, p.Adr, p.Adr, fmt.Sprintf("a >= 0 && a < %d", p.T.N))
		}
	case "sl":
		add(p.X+"[0]", p.T.E, true, true, "0 < len("+p.X+")")
		add(p.X+"[1]", p.T.E, true, true, "1 < len("+p.X+")")
		if args {
			add(p.X+"[a]", p.T.E, true, true, "a >= 0 && a < len("+p.X+")")
		}
	case "map":
		if c03Composite(p.T.Ky) {
			for _, k := range g.keyExprs(p.T.Ky, args) {
				add(p.X+"["+k+"]", p.T.E, true, false, p.X+" != nil")
			}
		} else {
			k := `"a"`
			if p.T.Ky.K == "int" {
				k = "1"
			}
			add(p.X+"["+k+"]", p.T.E, true, false, p.X+" != nil")
			if args {
				if p.T.Ky.K == "int" {
					add(p.X+"[a]", p.T.E, true, false, p.X+" != nil")
				} else {
					add(p.X+"[s]", p.T.E, true, false, p.X+" != nil")
				}
			}
		}
	}
	return out
}

func (g *c03Gen) enumerate(roots []c03Place, args bool) []c03Place {
	all := append([]c03Place{}, roots...)
	frontier := roots
	for step := 0; step < 4 && len(all) < 400; step++ {
		var next []c03Place
		for _, p := range frontier {
			next = append(next, g.children(p, args)...)
		}
		all = append(all, next...)
		frontier = next
	}
	if len(all) > 400 {
		all = all[:400]
	}
	return all
}

type c03Scope struct {
	places []c03Place
	byType map[string][]int
	args   bool
	wrote  map[string]bool
}

func (g *c03Gen) scope(locals []c03Place, args bool) *c03Scope {
	var roots []c03Place
	for _, v := range g.vars {
		roots = append(roots, c03Place{X: v.Name, T: v.T, Asg: true, Adr: true, Root: v.Name})
	}
	roots = append(roots, locals...)
	sc := &c03Scope{places: g.enumerate(roots, args), byType: map[string][]int{}, args: args, wrote: map[string]bool{}}
	for i, p := range sc.places {
		sc.byType[p.T.id()] = append(sc.byType[p.T.id()], i)
	}
	return sc
}

func (g *c03Gen) pick(sc *c03Scope, tid string, pred func(c03Place) bool) (c03Place, bool) {
	idx := sc.byType[tid]
	var ok []int
	for _, i := range idx {
		if pred == nil || pred(sc.places[i]) {
			ok = append(ok, i)
		}
	}
	if len(ok) == 0 {
		return c03Place{}, false
	}
	return sc.places[ok[g.n(0, len(ok)-1, "pick")]], true
}

// rv produces an rvalue of type t: (expression, guards, root of aliased state).
func (g *c03Gen) rv(sc *c03Scope, t *c03Ty, self string) (string, []string, string) {
	g.reg(t)
	notSelf := func(p c03Place) bool { return p.X != self }
	mode := g.n(0, 9, "rvmode")
	// alias-making forms first
	if mode <= 5 {
		switch t.K {
		case "ptr":
			if q, ok := g.pick(sc, t.E.id(), func(p c03Place) bool { return p.Adr }); ok && mode <= 3 {
				g.alias++
				return "&" + q.X, q.Conds, q.Root
			}
		case "sl":
			if mode <= 2 {
				if q, ok := g.pick(sc, t.id(), nil); ok {
					a := g.n(0, 2, "lo")
					b := a + g.n(0, 2, "hi")
					g.alias++
					return fmt.Sprintf("%s[%d:%d]", q.X, a, b), c03Conds(q.Conds, []string{fmt.Sprintf("%d <= cap(%s)", b, q.X)}), q.Root
				}
			} else if mode == 3 {
				for n := 2; n <= 4; n++ {
					at := &c03Ty{K: "arr", N: n, E: t.E}
					if q, ok := g.pick(sc, at.id(), func(p c03Place) bool { return p.Adr }); ok {
						a := g.n(0, n-1, "alo")
						b := g.n(a, n, "ahi")
						g.alias++
						return fmt.Sprintf("%s[%d:%d]", q.X, a, b), q.Conds, q.Root
					}
				}
			}
		case "fn":
			if mode <= 1 {
				if q, ok := g.pick(sc, "int", func(p c03Place) bool { return p.Adr }); ok {
					g.alias++
					return "mkPtr(&" + q.X + ")", q.Conds, q.Root
				}
			} else if mode == 2 {
				if q, ok := g.pick(sc, "s_int", nil); ok {
					g.alias++
					return "mkSl(" + q.X + ")", q.Conds, q.Root
				}
			}
		case "if":
			if mode <= 2 {
				si := g.n(0, len(g.structs)-1, "ifsrc")
				if q, ok := g.pick(sc, "st"+strconv.Itoa(si), func(p c03Place) bool { return p.Adr }); ok {
					g.alias++
					return "IF(&" + q.X + ")", q.Conds, q.Root
				}
			}
		case "int":
			switch mode {
			case 0:
				if q, ok := g.pick(sc, "if", nil); ok {
					return q.X + ".Get()", c03Conds(q.Conds, []string{q.X + " != nil"}), ""
				}
			case 1:
				if q, ok := g.pick(sc, "fn", nil); ok && sc.args {
					sc.wrote[q.Root] = true
					return q.X + "(a)", c03Conds(q.Conds, []string{q.X + " != nil"}), ""
				}
			}
		}
		// plain copy of another place of the same type (aliases for ref types)
		if q, ok := g.pick(sc, t.id(), notSelf); ok {
			if t.isRef() {
				g.alias++
			}
			if g.nestsAgg(t) {
				g.nested++
			}
			return q.X, q.Conds, q.Root
		}
	}
	return g.lit(t, 2), nil, ""
}

func c03Guard(conds []string, body string) string {
	if len(conds) == 0 {
		return "\t" + body + "\n"
	}
	return "\tif " + strings.Join(conds, " && ") + " {\n\t\t" + body + "\n\t}\n"
}

// stmt draws one guarded statement.
func (g *c03Gen) stmt(sc *c03Scope) string {
	for try := 0; try < 8; try++ {
		p := sc.places[g.n(0, len(sc.places)-1, "place")]
		wr := func() { sc.wrote[p.Root] = true }
		asgRV := func() string {
			e, c, _ := g.rv(sc, p.T, p.X)
			wr()
			return c03Guard(c03Conds(p.Conds, c), p.X+" = "+e)
		}
		switch p.T.K {
		case "int":
			if !p.Asg {
				continue
			}
			wr()
			switch g.n(0, 3, "iop") {
			case 0:
				return c03Guard(p.Conds, p.X+"++")
			case 1:
				if sc.args {
					return c03Guard(p.Conds, p.X+" += a")
				}
				return c03Guard(p.Conds, p.X+" += 3")
			case 2:
				return c03Guard(p.Conds, p.X+" = "+strconv.Itoa(g.n(-9, 99, "iv")))
			default:
				return asgRV()
			}
		case "str":
			if !p.Asg {
				continue
			}
			wr()
			if sc.args && g.n(0, 1, "sop") == 0 {
				return c03Guard(c03Conds(p.Conds, []string{"len(" + p.X + ") < 12"}), p.X+" += s")
			}
			return asgRV()
		case "bool":
			if !p.Asg {
				continue
			}
			wr()
			return c03Guard(p.Conds, p.X+" = !"+p.X)
		case "u8":
			if !p.Asg {
				continue
			}
			wr()
			if g.n(0, 1, "u8op") == 0 {
				return c03Guard(p.Conds, p.X+" += 77")
			}
			return asgRV()
		case "arr", "st", "ks":
			if !p.Asg {
				continue
			}
			return asgRV()
		case "sl":
			switch op := g.n(0, 7, "slop"); {
			case op <= 2 && p.Asg:
				e, c, _ := g.rv(sc, p.T.E, "")
				if e == "nil" && p.T.E.K == "ptr" && p.T.E.E.K == "arr" {
					// append(x, nil) with x of type []*[N]T makes the preprocessor
					// panic (constTypeExpr type assertion); not this property's
					// business, so the generator steps around it
					continue
				}
				wr()
				return c03Guard(c03Conds(p.Conds, c), p.X+" = append("+p.X+", "+e+")")
			case op == 3 && p.Asg:
				a := g.n(0, 2, "lo")
				b := a + g.n(0, 2, "hi")
				wr()
				return c03Guard(c03Conds(p.Conds, []string{fmt.Sprintf("%d <= cap(%s)", b, p.X)}), fmt.Sprintf("%s = %s[%d:%d]", p.X, p.X, a, b))
			case op == 4:
				e, c, _ := g.rv(sc, p.T, p.X)
				if e == "nil" {
					continue
				}
				wr()
				return c03Guard(c03Conds(p.Conds, c), "copy("+p.X+", "+e+")")
			case op == 5 && p.Asg:
				wr()
				return c03Guard(c03Conds(p.Conds, []string{"1 < len(" + p.X + ")"}), fmt.Sprintf("%s = append(%s[:1], %s[2:]...)", p.X, p.X, p.X))
			case p.Asg:
				return asgRV()
			}
		case "map":
			switch op := g.n(0, 6, "mop"); {
			case op <= 3:
				e, c, _ := g.rv(sc, p.T.E, "")
				kx := g.keyExprs(p.T.Ky, sc.args)
				k := kx[g.n(0, len(kx)-1, "mk")]
				if sc.args && !c03Composite(p.T.Ky) && g.n(0, 1, "argkey") == 0 {
					k = kx[len(kx)-1]
				}
				wr()
				return c03Guard(c03Conds(p.Conds, []string{p.X + " != nil"}, c), p.X+"["+k+"] = "+e)
			case op == 4:
				wr()
				return c03Guard(p.Conds, "delete("+p.X+", "+g.key(p.T.Ky, "dk")+")")
			case p.Asg:
				return asgRV()
			}
		case "ptr":
			if !p.Asg {
				continue
			}
			return asgRV()
		case "if":
			if g.n(0, 1, "ifop") == 0 {
				wr()
				arg := "2"
				if sc.args {
					arg = "a"
				}
				return c03Guard(c03Conds(p.Conds, []string{p.X + " != nil"}), p.X+".Bump("+arg+")")
			}
			if p.Asg {
				return asgRV()
			}
		case "fn":
			if sc.args && g.n(0, 1, "fnop") == 0 {
				wr()
				return c03Guard(c03Conds(p.Conds, []string{p.X + " != nil"}), "acc += "+p.X+"(a)")
			}
			if p.Asg {
				if g.n(0, 3, "pair") == 0 {
					if q, ok := g.pick(sc, "fn", func(o c03Place) bool { return o.Asg && o.X != p.X }); ok {
						wr()
						sc.wrote[q.Root] = true
						g.alias++
						return c03Guard(c03Conds(p.Conds, q.Conds), fmt.Sprintf("%s, %s = mkPair(%d)", p.X, q.X, g.n(0, 9, "pairc")))
					}
				}
				return asgRV()
			}
		}
	}
	return ""
}

// ---------------------------------------------------------------------------
// rendering code

func (g *c03Gen) renderFuncs() string {
	var sb strings.Builder
	// register everything reachable first (struct fields, implementers)
	for i := range g.structs {
		g.reg(&c03Ty{K: "st", S: i})
		for _, f := range g.structs[i] {
			g.reg(f)
		}
	}
	for i := 0; i < len(g.order); i++ { // g.order may grow
		t := g.types[g.order[i]]
		if t.E != nil {
			g.reg(t.E)
		}
		if t.Ky != nil {
			g.reg(t.Ky)
		}
	}
	ids := append([]string{}, g.order...)
	sort.Strings(ids)
	for _, id := range ids {
		t := g.types[id]
		fmt.Fprintf(&sb, "func r_%s(x %s, d int) string {\n", id, t.src())
		switch t.K {
		case "int":
			sb.WriteString("\treturn itoa(x)\n")
		case "str":
			sb.WriteString("\treturn \"'\" + x + \"'\"\n")
		case "bool":
			sb.WriteString("\tif x {\n\t\treturn \"t\"\n\t}\n\treturn \"f\"\n")
		case "u8":
			sb.WriteString("\treturn \"u\" + itoa(int(x))\n")
		case "arr":
			fmt.Fprintf(&sb, "\tout := \"[\"\n\tfor i := 0; i < %d; i++ {\n\t\tout += r_%s(x[i], d) + \",\"\n\t}\n\treturn out + \"]\"\n", t.N, t.E.id())
		case "sl":
			fmt.Fprintf(&sb, "\tif x == nil {\n\t\treturn \"nil\"\n\t}\n\tout := \"s\" + itoa(len(x)) + \"/\" + itoa(cap(x)) + \"[\"\n\tfor i := 0; i < len(x); i++ {\n\t\tout += r_%s(x[i], d) + \",\"\n\t}\n\treturn out + \"]\"\n", t.E.id())
		case "map":
			if c03Composite(t.Ky) {
				// entries sorted by their rendering (keys rendered by pointee
				// contents, never by address), then explicit lookups
				fmt.Fprintf(&sb, "\tif x == nil {\n\t\treturn \"nilm\"\n\t}\n\tif d <= 0 {\n\t\treturn \"m^\"\n\t}\n\tents := []string{}\n\tfor k, v := range x {\n\t\tents = append(ents, r_%s(k, d-1)+\":\"+r_%s(v, d-1))\n\t}\n\tsortStrs(ents)\n\tout := \"m\" + itoa(len(x)) + \"{\"\n\tfor _, e := range ents {\n\t\tout += e + \",\"\n\t}\n\tout += \"}has:\"\n", t.Ky.id(), t.E.id())
				for _, k := range g.keyExprs(t.Ky, false) {
					fmt.Fprintf(&sb, "\tif v, ok := x[%s]; ok {\n\t\tout += \"1\" + r_%s(v, d-1)\n\t} else {\n\t\tout += \"0\"\n\t}\n", k, t.E.id())
				}
				sb.WriteString("\treturn out\n")
				break
			}
			srt := "sortStrs"
			kt := "string"
			if t.Ky.K == "int" {
				srt, kt = "sortInts", "int"
			}
			fmt.Fprintf(&sb, "\tif x == nil {\n\t\treturn \"nilm\"\n\t}\n\tks := []%s{}\n\tfor k := range x {\n\t\tks = append(ks, k)\n\t}\n\t%s(ks)\n\tout := \"m\" + itoa(len(x)) + \"{\"\n\tfor _, k := range ks {\n\t\tout += r_%s(k, d) + \":\" + r_%s(x[k], d) + \",\"\n\t}\n\treturn out + \"}\"\n", kt, srt, t.Ky.id(), t.E.id())
		case "ks":
			sb.WriteString("\treturn \"k{\" + r_p_st0(x.P, d) + \" \" + itoa(x.I) + \"}\"\n")
		case "ptr":
			fmt.Fprintf(&sb, "\tif x == nil {\n\t\treturn \"nil\"\n\t}\n\tif d <= 0 {\n\t\treturn \"^\"\n\t}\n\treturn \"&\" + r_%s(*x, d-1)\n", t.E.id())
		case "st":
			fs := g.structs[t.S]
			sb.WriteString("\tout := \"{\" + itoa(x.N)\n")
			for i := 1; i < len(fs); i++ {
				fmt.Fprintf(&sb, "\tout += \" \" + r_%s(x.F%d, d)\n", fs[i].id(), i)
			}
			sb.WriteString("\treturn out + \"}\"\n")
		case "if":
			// nil-pointer safe: interface map keys may hold a nil *S0
			sb.WriteString("\tif x == nil {\n\t\treturn \"nili\"\n\t}\n\tswitch v := x.(type) {\n\tcase *NI:\n\t\tif v == nil {\n\t\t\treturn \"iNI(nilp)\"\n\t\t}\n\t\treturn \"iNI(\" + itoa(v.Get()) + \")\"\n\tcase VI:\n\t\treturn \"iVI(\" + itoa(v.Get()) + \")\"\n")
			for i := range g.structs {
				fmt.Fprintf(&sb, "\tcase *S%d:\n\t\tif v == nil {\n\t\t\treturn \"iS%d(nilp)\"\n\t\t}\n\t\treturn \"iS%d(\" + itoa(v.Get()) + \")\"\n", i, i, i)
			}
			sb.WriteString("\t}\n\treturn \"i?\"\n")
		case "fn":
			sb.WriteString("\tif x == nil {\n\t\treturn \"nilf\"\n\t}\n\treturn \"f(\" + itoa(x(0)) + \")\"\n")
		}
		sb.WriteString("}\n\n")
	}
	nws := make([]string, 0, len(g.nw))
	for id := range g.nw {
		nws = append(nws, id)
	}
	sort.Strings(nws)
	for _, id := range nws {
		fmt.Fprintf(&sb, "func nw_%s(v %s) *%s { return &v }\n\n", id, g.nw[id].src(), g.nw[id].src())
	}
	return sb.String()
}

const c03Prelude = `
type IF interface {
	Get() int
	Bump(d int)
}

type NI int

func (n *NI) Get() int   { return int(*n) }
func (n *NI) Bump(d int) { *n += NI(d) }

type VI int

func (v VI) Get() int   { return int(v) }
func (v VI) Bump(d int) {}

func nwNI(v int) *NI {
	x := NI(v)
	return &x
}

func mkAdd(c int) func(int) int {
	return func(d int) int {
		c += d
		return c
	}
}

func mkMul(c int) func(int) int {
	n := 1
	return func(d int) int {
		if d != 0 {
			n = n*c + d
		}
		return n
	}
}

func mkPair(c int) (func(int) int, func(int) int) {
	return func(d int) int {
			c += d
			return c
		}, func(d int) int {
			c -= 2 * d
			return c
		}
}

func mkPtr(p *int) func(int) int {
	return func(d int) int {
		if p == nil {
			return -1
		}
		*p += d
		return *p
	}
}

func mkSl(s []int) func(int) int {
	return func(d int) int {
		if len(s) == 0 {
			return -2
		}
		s[0] += d
		return s[0]
	}
}

func itoa(n int) string {
	if n == 0 {
		return "0"
	}
	neg := n < 0
	if neg {
		n = -n
	}
	if n < 0 {
		return "min"
	}
	s := ""
	for n > 0 {
		s = string(rune('0'+n%10)) + s
		n /= 10
	}
	if neg {
		s = "-" + s
	}
	return s
}

func b2s(b bool) string {
	if b {
		return "1"
	}
	return "0"
}

func sortStrs(a []string) {
	for i := 1; i < len(a); i++ {
		for j := i; j > 0 && a[j] < a[j-1]; j-- {
			a[j], a[j-1] = a[j-1], a[j]
		}
	}
}

func sortInts(a []int) {
	for i := 1; i < len(a); i++ {
		for j := i; j > 0 && a[j] < a[j-1]; j-- {
			a[j], a[j-1] = a[j-1], a[j]
		}
	}
}
`

// c03Func is the metadata of one generated crossing function.
type c03Func struct {
	Name  string   `json:"name"`
	Wrote []string `json:"wrote"` // package variables the body may write through (roots of written places)
}

type c03Prog struct {
	Pkg   string    `json:"pkg"`
	Src   string    `json:"src"` // without RunAll
	Vars  []string  `json:"vars"`
	Funcs []c03Func `json:"funcs"`
	Alias int       `json:"alias"` // number of alias-making constructs in the text
	// NestedCopy counts statements copying, from a place, a value whose type
	// nests an array or struct by value.
	NestedCopy int `json:"nested_copy"`
}

// c03DrawProg draws a realm program.
func c03DrawProg(rt *rapid.T, pkg string, minFn, maxFn int) c03Prog {
	g := &c03Gen{rt: rt, types: map[string]*c03Ty{}, nw: map[string]*c03Ty{}}
	g.reg(c03Int)
	g.reg(c03Str)
	g.reg(&c03Ty{K: "if"})
	g.reg(&c03Ty{K: "fn"})
	g.reg(&c03Ty{K: "sl", E: c03Int})
	nst := g.n(1, 3, "nstructs")
	for i := 0; i < nst; i++ {
		fs := []*c03Ty{c03Int}
		nf := g.n(1, 3, "nfields")
		g.structs = append(g.structs, fs) // visible for self reference by pointer
		for f := 0; f < nf; f++ {
			fs = append(fs, g.reg(g.ty(g.n(0, 2, "fdepth"), i, i+1)))
		}
		g.structs[i] = fs
	}
	// key material for composite map keys, then the drawn variables
	g.reg(c03PS0)
	g.reg(c03KS)
	for i := 0; i < 3; i++ {
		g.vars = append(g.vars, c03Var{Name: "K" + strconv.Itoa(i), T: c03PS0})
	}
	nv := g.n(3, 6, "nvars")
	for i := 0; i < nv; i++ {
		t := g.reg(g.ty(g.n(1, 3, "vdepth"), nst, nst))
		g.vars = append(g.vars, c03Var{Name: "V" + strconv.Itoa(i), T: t})
	}
	// make sure the interesting base material exists: an int slice with spare
	// capacity and an array of ints are always present.
	g.vars = append(g.vars, c03Var{Name: "V" + strconv.Itoa(nv), T: g.reg(&c03Ty{K: "sl", E: c03Int})})
	g.vars = append(g.vars, c03Var{Name: "V" + strconv.Itoa(nv+1), T: g.reg(&c03Ty{K: "arr", N: 4, E: c03Int})})
	// two maps with composite keys of different kinds (pointer, array of
	// pointers, struct with pointer, interface, array of ints, array of structs)
	{
		k1 := g.n(0, len(c03CKeys)-1, "ck1")
		k2 := (k1 + 1 + g.n(0, len(c03CKeys)-2, "ck2")) % len(c03CKeys)
		for j, ki := range []int{k1, k2} {
			var et *c03Ty
			switch g.n(0, 3, "cmelem") {
			case 0, 1:
				et = c03Int
			case 2:
				et = &c03Ty{K: "if"}
			default:
				et = c03PS0
			}
			g.vars = append(g.vars, c03Var{Name: "M" + strconv.Itoa(j), T: g.reg(&c03Ty{K: "map", Ky: c03CKeys[ki], E: et})})
		}
	}

	// alias variables: package variables initialised to share state with a
	// place of the base variables (pointer to it, sub-slice of it, copy of a
	// reference value, closure capturing a pointer to it).
	nbase := len(g.vars)
	var aliasInit []string
	{
		asc := g.scope(nil, false)
		for i, na := 0, g.n(2, 4, "nalias"); i < na; i++ {
			q := asc.places[g.n(0, len(asc.places)-1, "aplace")]
			if q.Steps == 0 && q.T.K != "arr" && q.T.K != "st" && !q.T.isRef() && g.n(0, 2, "skipprim") != 0 {
				q = asc.places[g.n(0, len(asc.places)-1, "aplace2")]
			}
			name := "V" + strconv.Itoa(len(g.vars))
			var t *c03Ty
			var init string
			mode := g.n(0, 3, "amode")
			switch {
			case q.T.K == "sl" && mode <= 1:
				a := g.n(0, 1, "alo")
				b := a + g.n(1, 2, "ahi")
				t = q.T
				init = c03Guard(c03Conds(q.Conds, []string{fmt.Sprintf("%d <= cap(%s)", b, q.X)}), fmt.Sprintf("%s = %s[%d:%d]", name, q.X, a, b))
			case q.T.K == "arr" && q.Adr && mode <= 1:
				a := g.n(0, q.T.N-1, "alo")
				b := g.n(a+1, q.T.N, "ahi")
				t = &c03Ty{K: "sl", E: q.T.E}
				init = c03Guard(q.Conds, fmt.Sprintf("%s = %s[%d:%d]", name, q.X, a, b))
			case q.T.K == "int" && q.Adr && mode == 0:
				t = &c03Ty{K: "fn"}
				init = c03Guard(q.Conds, fmt.Sprintf("%s = mkPtr(&%s)", name, q.X))
			case q.T.K == "st" && q.Adr && mode == 0:
				t = &c03Ty{K: "if"}
				init = c03Guard(q.Conds, fmt.Sprintf("%s = IF(&%s)", name, q.X))
			case q.T.isRef() && mode <= 2:
				t = q.T
				init = c03Guard(q.Conds, fmt.Sprintf("%s = %s", name, q.X))
			case q.Adr:
				t = &c03Ty{K: "ptr", E: q.T}
				init = c03Guard(q.Conds, fmt.Sprintf("%s = &%s", name, q.X))
			default:
				continue
			}
			g.alias++
			g.vars = append(g.vars, c03Var{Name: name, T: g.reg(t)})
			aliasInit = append(aliasInit, init)
		}
	}

	var sb strings.Builder
	sb.WriteString("package " + pkg + "\n")
	sb.WriteString(c03Prelude)
	sb.WriteString("\n")
	for i, fs := range g.structs {
		fmt.Fprintf(&sb, "type S%d struct {\n\tN int\n", i)
		for f := 1; f < len(fs); f++ {
			fmt.Fprintf(&sb, "\tF%d %s\n", f, fs[f].src())
		}
		sb.WriteString("}\n\n")
		fmt.Fprintf(&sb, "func (s *S%d) Get() int   { return s.N }\nfunc (s *S%d) Bump(d int) { s.N += d }\n\n", i, i)
	}
	sb.WriteString("type KS struct {\n\tP *S0\n\tI int\n}\n\n")
	for _, v := range g.vars {
		fmt.Fprintf(&sb, "var %s %s\n", v.Name, v.T.src())
	}
	// init: literals, then alias-making statements
	sb.WriteString("\nfunc init() {\n")
	for _, v := range g.vars[:nbase] {
		fmt.Fprintf(&sb, "\t%s = %s\n", v.Name, g.lit(v.T, 3))
	}
	for _, a := range aliasInit {
		sb.WriteString(a)
	}
	isc := g.scope(nil, false)
	for i, n := 0, g.n(0, 3, "ninit"); i < n; i++ {
		sb.WriteString(g.stmt(isc))
	}
	// execution M performs the whole call sequence here, in the deployment
	// transaction, before anything has been persisted (see c03Full)
	sb.WriteString("\tif atInit {\n\t\tResult = runAll()\n\t}\n")
	sb.WriteString("}\n\n")

	prog := c03Prog{Pkg: pkg}
	nf := g.n(minFn, maxFn, "nfuncs")
	for fi := 0; fi < nf; fi++ {
		name := "F" + strconv.Itoa(fi)
		fmt.Fprintf(&sb, "func %s(cur realm, a int, s string) string { return f%d(a, s) }\n\n", name, fi)
		fmt.Fprintf(&sb, "func f%d(a int, s string) string {\n\tacc := 0\n", fi)
		// locals
		var locals []c03Place
		sc0 := g.scope(nil, true)
		for li, nl := 0, g.n(0, 2, "nlocals"); li < nl; li++ {
			src := sc0.places[g.n(0, len(sc0.places)-1, "lsrc")]
			if !src.T.isRef() {
				src = sc0.places[g.n(0, len(sc0.places)-1, "lsrc2")]
			}
			lt := src.T
			e, c, root := g.rv(sc0, lt, "")
			ln := "l" + strconv.Itoa(li)
			fmt.Fprintf(&sb, "\tvar %s %s\n", ln, lt.src())
			sb.WriteString(c03Guard(c, ln+" = "+e))
			fmt.Fprintf(&sb, "\t_ = %s\n", ln)
			if root == "" {
				root = "~" + ln
			}
			locals = append(locals, c03Place{X: ln, T: lt, Asg: true, Adr: true, Root: root})
		}
		sc := g.scope(locals, true)
		for k := range sc0.wrote {
			sc.wrote[k] = true
		}
		for si, ns := 0, g.n(2, 5, "nstmts"); si < ns; si++ {
			sb.WriteString(g.stmt(sc))
		}
		// observation
		sb.WriteString("\treturn itoa(acc)")
		for oi, no := 0, g.n(1, 3, "nobs"); oi < no; oi++ {
			v := g.vars[g.n(0, len(g.vars)-1, "obs")]
			fmt.Fprintf(&sb, " + \"|\" + r_%s(%s, 4)", v.T.id(), v.Name)
		}
		sb.WriteString("\n}\n\n")
		f := c03Func{Name: name}
		for k := range sc.wrote {
			if !strings.HasPrefix(k, "~") && k != "" {
				f.Wrote = append(f.Wrote, k)
			}
		}
		sort.Strings(f.Wrote)
		prog.Funcs = append(prog.Funcs, f)
	}
	// Dump
	sb.WriteString("func Dump() string {\n\tout := \"\"\n")
	for _, v := range g.vars {
		fmt.Fprintf(&sb, "\tout += \"%s=\" + r_%s(%s, 4) + \";\"\n", v.Name, v.T.id(), v.Name)
		prog.Vars = append(prog.Vars, v.Name)
	}
	sb.WriteString("\tout += \"EQ=\"\n")
	for i := range g.vars {
		for j := i + 1; j < len(g.vars); j++ {
			a, b := g.vars[i], g.vars[j]
			if a.T.id() == b.T.id() && (a.T.K == "ptr" || a.T.K == "if") {
				fmt.Fprintf(&sb, "\tout += b2s(%s == %s)\n", a.Name, b.Name)
			}
		}
	}
	sb.WriteString("\treturn out\n}\n\n")
	sb.WriteString(g.renderFuncs())
	prog.Src = sb.String()
	prog.Alias = g.alias
	prog.NestedCopy = g.nested
	return prog
}
