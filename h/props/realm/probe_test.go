package realm

import (
	"fmt"
	"strings"
	"testing"
	"time"

	"github.com/gnolang/gno/gnovm/pkg/gnolang"
	"github.com/gnolang/gno/tm2/pkg/amino"
	"github.com/gnolang/gno/tm2/pkg/std"
	ec "verif/eng/chain"
)

const probeSrc = `package pp

type T struct{ A int; P *T }

var X = []int{1,2,3}
var Y = X[1:]
var M = map[string]*T{}
var Q *T
var F func() int

func init() {
	c := 5
	F = func() int { c++; return c }
}

func Put(cur realm, k string) string {
	t := &T{A: len(M)}
	M[k] = t
	Q = t
	X[1] = 9
	return Dump()
}

func Dump() string {
	s := ""
	for _, v := range Y { s += string(rune('0'+v)) }
	return s
}
`

func TestProbe(t *testing.T) {
	k := ec.NewKey("acc0")
	t0 := time.Now()
	c, _, err := ec.New(nil, ec.GenesisWithBalances(1e13, k), ec.Options{})
	if err != nil {
		t.Fatal(err)
	}
	fmt.Println("new", time.Since(t0))
	c.Begin(1)
	r, _, err := c.Send([]std.Msg{ec.AddPkg(k.Addr, "gno.land/r/pp/pp", map[string]string{"a.gno": probeSrc}, nil)}, 50_000_000, 1_000_000, k)
	fmt.Println("addpkg", r.Error, r.Log, r.GasUsed, err)
	c.End()
	c.Begin(2)
	r, _, err = c.Send([]std.Msg{ec.Call(k.Addr, "gno.land/r/pp/pp", "Put", []string{"a"}, nil)}, 50_000_000, 1_000_000, k)
	fmt.Printf("call err=%v data=%q gas=%d\n", r.Error, r.Data, r.GasUsed)
	c.End()
	s, err := c.QEval("gno.land/r/pp/pp", "Dump()")
	fmt.Printf("qeval %q %v\n", s, err)
	t1 := time.Now()
	d, _ := c.Dump()
	fmt.Println("dump", time.Since(t1), len(d["base"]), len(d["main"]))
	pid := gnolang.PkgIDFromPkgPath("gno.land/r/pp/pp")
	pre := "oid:" + fmt.Sprintf("%x", pid.Hashlet[:])
	for _, kv := range d["base"] {
		if strings.HasPrefix(string(kv[0]), pre) {
			if strings.HasSuffix(string(kv[0]), "#realm") {
				fmt.Printf("%s => %s\n", kv[0], kv[1])
				continue
			}
			var oo gnolang.Object
			err := amino.Unmarshal(kv[1][20:], &oo)
			if err != nil {
				fmt.Println("ERR", err)
				continue
			}
			js, _ := amino.MarshalJSON(oo)
			fmt.Printf("%s => %T %s\n", kv[0], oo, js)
		}
	}
	for _, kv := range d["main"] {
		if strings.Contains(string(kv[0]), fmt.Sprintf("%x", pid.Hashlet[:])) {
			fmt.Printf("MAIN %q => %x\n", kv[0], kv[1])
		}
	}
	t2 := time.Now()
	c.Restart()
	fmt.Println("restart", time.Since(t2))
}
