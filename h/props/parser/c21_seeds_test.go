package parser

// Seed inputs for C21: every .gno file under gnovm/tests/files and examples,
// the fork's own testdata, the string literals of the fork's copied Go tests
// (valid and deliberately invalid snippets), plus a hand-written list aimed at
// the places where go/parser changed between Go 1.23, 1.24 (the fork) and 1.25.

import (
	"fmt"
	goast "go/ast"
	goparser "go/parser"
	gotoken "go/token"
	"os"
	"path/filepath"
	"sort"
	"strconv"
	"strings"
	"sync"
)

type c21Seeds struct {
	root  string
	keys  []string          // sorted seed keys
	lits  map[string]string // "lit:<file>#<n>" -> text
	hand  map[string]string // "hand:<n>" -> text
	cache sync.Map          // key -> []byte
}

var (
	c21SeedOnce sync.Once
	c21SeedSet  *c21Seeds
)

// c21Hand: constructs around the 1.23→1.24→1.25 parser changes (parameter
// lists with missing names/types, "..." placement, type parameter lists with
// parenthesised constraints, goto/break/continue operands, //line directives
// next to comments), and a few classics.
var c21Hand = []string{
	"package p\nfunc f(a, b int, c) {}\n",
	"package p\nfunc f(int, b string) {}\n",
	"package p\nfunc f(a int, string) {}\n",
	"package p\nfunc f(a, b, c) {}\n",
	"package p\nfunc f(a ...int, b int) {}\n",
	"package p\nfunc f(...int, ...string) {}\n",
	"package p\nfunc f() (a ...int) { return }\n",
	"package p\nfunc f() ...int {}\n",
	"package p\ntype F func(a, b ...int, c)\n",
	"package p\nfunc f[T any, U](x T) {}\n",
	"package p\nfunc f[](x int) {}\n",
	"package p\nfunc f[T ...any](x T) {}\n",
	"package p\ntype T[P (E)] struct{}\n",
	"package p\ntype T[P *(E)] struct{}\n",
	"package p\ntype T[P (E), Q any] []P\n",
	"package p\ntype T [P(E)]int\n",
	"package p\ntype T[P (*E)] int\n",
	"package p\nvar _ = func[T any](x T) {}\n",
	"package p\nfunc (r R) m[T any]() {}\n",
	"package p\ntype A[T any] = []T\n",
	"package p\nfunc f() { goto }\n",
	"package p\nfunc f() { goto 1 }\n",
	"package p\nfunc f() { L: for { break L; continue L; goto L } }\n",
	"package p\nfunc f() { break 1; continue \"x\"; fallthrough L }\n",
	"package p\nfunc f() { for { break\n} }\n",
	"package p\n\n// doc\n//line foo.go:100\n// more doc\nfunc f() {}\n",
	"//line a.go:10\npackage p // trailing\n/*line b.go:5*/ var x int // lead\n\n//line c.go:1\n// detached\n\nvar y int\n",
	"package p\nvar x = 1 //line q.go:7\n// next\nvar y = 2\n",
	"package p\nimport (\n\t\"a\"\n\tb \"c\"\n\t. \"d\"\n\t_ \"e\"\n)\nimport \"f\"\nvar x = a.B\n",
	"package p\nimport \"a\"\nvar x int\nimport \"b\"\n",
	"package p\nfunc f() { x := []int{1, 2, 3}[1:2:3]; _ = x; var y [...]int = [...]int{1} }\n",
	"package p\nfunc f() { if x := f(); x {} else if y {} else {} ; switch x := y.(type) { case int, string: default: } }\n",
	"package p\nfunc f() { select { case x := <-c: case c <- 1: default: } ; for i := range 10 {} ; for range ch {} }\n",
	"package p\nfunc f() { for i, j := 0, 1; i < j; i, j = i+1, j-1 {} ; for ;; {} ; for x {} }\n",
	"package p\ntype I interface { m(); ~int | ~string; E; comparable; *T }\n",
	"package p\ntype S struct { a, b int `tag`; *E; p.Q; F func(int) (string, error) \"t\" }\n",
	"package p\nconst ( a = iota; b; c float64 = 1 << 3 )\nvar ( x, y = 1, 2; z int )\n",
	"package p\nfunc f() { defer g(); go func() {}(); x.y.z(1)(2)[3].(T) }\n",
	"package p\nfunc f() { a <- <-b; c = <-chan int(nil); var d chan<- <-chan int }\n",
	"package p\nfunc f() { x = T{a: 1, 2: {3}, {4}: 5}; y = struct{}{}; z = map[string][]int{\"a\": {1}} }\n",
	"package p\nfunc f() { if T{} == x {} }\n",
	"package p\nfunc f() { if (T{}) == x {} ; for x := range (T{}) {} }\n",
	"package p\nfunc f() { x := a[i, j]; y := g[int, string](1); var z m[k]v }\n",
	"package p\nfunc f() { label: ; label2: x++ ; { } ; ;; }\n",
	"package p;;var x int;;\n",
	"package p\nvar x = 0x1p-2 + 0b1_0 + 0o7 + 1_000 + 'a' + '\\n' + '\\u1234' + 1i + .5e+3\n",
	"package p\nvar s = \"\\x00\\377\\u00e9\" + `raw\nline` + \"unterminated\n",
	"package p\nvar s = `unterminated raw",
	"package p\n/* unterminated comment",
	"package p\nvar x = 'ab' + '' + '\\z'\n",
	"package p\nvar _ = 0x + 08 + 1e + 0b2\n",
	"package p\nfunc f() { x := 1 +\n}\n",
	"package p\nfunc f() { (((((((((( }\n",
	"package p\nfunc f() { ]]]]] }\n",
	"package p\nfunc f() {{{{{{{{{{\n",
	"package p\nfunc\n",
	"package\n",
	"package p; func f() { var }\n",
	"package p; type\n",
	"package p; type T\n",
	"package p; type T struct {\n",
	"package p; var x, = 1\n",
	"package p; func (T) () {}\n",
	"package p; func f(a.b int) {}\n",
	"package p; func f(x []) {}\n",
	"package p; func f() { x.(type) ; switch x.(type) {} ; switch a, b := x.(type) {} }\n",
	"package p; func f() { if x; y; z {} ; for a; b; c; d {} ; switch ; {} }\n",
	"package p; func f() { if x := 1 {} ; if {} ; for {} ; switch {} }\n",
	"package p; func f() { a, b := range x ; range y }\n",
	"package p; func f() { x := struct{ a int }{1}.a ; y := []T{}[0] ; z := func() {}() }\n",
	"package p; func f() { *p = 1; &x; !y; ^z; -w; +v; <-u; ~t }\n",
	"package p; func f() { a += 1; b -= 1; c *= 1; d /= 1; e %= 1; f &= 1; g |= 1; h ^= 1; i <<= 1; j >>= 1; k &^= 1; l++; m-- }\n",
	"package p; func f() { x = a && b || c == d != e < f <= g > h >= i + j - k | l ^ m * n / o % p << q >> r & s &^ t }\n",
	"package p\n\n//go:build linux && !cgo\n\nvar x int\n",
	"//go:build go1.21\n\npackage p\n",
	"// +build ignore\n\npackage p\n",
	"\ufeffpackage p\n",
	"package p\n\ufeffvar x int\n",
	"package p\nvar x = \x00\n",
	"package p\nvar \xff = 1\n",
	"package p\nvar é = 1; var 世界 = 2\n",
	"package p\nfunc init() {}\nfunc init() {}\nfunc main() {}\nfunc main() {}\nvar x int\nvar x int\ntype x int\n",
	"package p\nfunc f(x int) { var x int; { x := x; _ = x }; x, y := 1, 2; x, y := 3, 4 }\n",
	"package p\nfunc f() { L: L: goto L }\n",
	"package p\ntype T struct { a int; a string }\nfunc (T) m() {}\nfunc (T) m() {}\n",
	"package _\n",
	"package p\nimport _ \"\"\nimport \"a b\"\nimport `c`\nimport 'd'\nimport 1\n",
}

// c21Root returns the gno checkout the driver points at.
func c21Root() string {
	if r := os.Getenv("GNOROOT"); r != "" {
		return r
	}
	return "/repo"
}

func c21GetSeeds() *c21Seeds {
	c21SeedOnce.Do(func() {
		s := &c21Seeds{root: c21Root(), lits: map[string]string{}, hand: map[string]string{}}
		add := func(rel string) { s.keys = append(s.keys, "file:"+rel) }
		walk := func(rel string, exts ...string) {
			filepath.WalkDir(filepath.Join(s.root, rel), func(p string, d os.DirEntry, err error) error {
				if err != nil || d.IsDir() {
					return nil
				}
				for _, e := range exts {
					if strings.HasSuffix(p, e) {
						if fi, err := d.Info(); err == nil && fi.Size() <= 64<<10 {
							r, _ := filepath.Rel(s.root, p)
							add(r)
						}
						break
					}
				}
				return nil
			})
		}
		walk("gnovm/tests/files", ".gno")
		walk("examples", ".gno")
		walk("gnovm/pkg/parser/testdata", ".src", ".go2", ".go")
		// string literals of the fork's copied Go tests
		for _, tf := range []string{"short_test.go", "error_test.go", "parser_test.go", "resolver_test.go"} {
			fset := gotoken.NewFileSet()
			f, err := goparser.ParseFile(fset, filepath.Join(s.root, "gnovm/pkg/parser", tf), nil, 0)
			if err != nil {
				continue
			}
			n := 0
			goast.Inspect(f, func(nd goast.Node) bool {
				if bl, ok := nd.(*goast.BasicLit); ok && bl.Kind == gotoken.STRING {
					if v, err := strconv.Unquote(bl.Value); err == nil && len(v) >= 8 && (strings.Contains(v, "package") || strings.ContainsAny(v, "({[")) {
						k := fmt.Sprintf("lit:%s#%d", tf, n)
						s.lits[k] = v
						s.keys = append(s.keys, k)
						n++
					}
				}
				return true
			})
		}
		for i, h := range c21Hand {
			k := fmt.Sprintf("hand:%03d", i)
			s.hand[k] = h
			s.keys = append(s.keys, k)
		}
		sort.Strings(s.keys)
		c21SeedSet = s
	})
	return c21SeedSet
}

// text returns the seed's source text.
func (s *c21Seeds) text(key string) ([]byte, error) {
	if v, ok := s.cache.Load(key); ok {
		return v.([]byte), nil
	}
	var out []byte
	switch {
	case strings.HasPrefix(key, "file:"):
		b, err := os.ReadFile(filepath.Join(s.root, strings.TrimPrefix(key, "file:")))
		if err != nil {
			return nil, err
		}
		out = b
	case strings.HasPrefix(key, "lit:"):
		v, ok := s.lits[key]
		if !ok {
			return nil, fmt.Errorf("unknown seed %q", key)
		}
		out = []byte(v)
	case strings.HasPrefix(key, "hand:"):
		v, ok := s.hand[key]
		if !ok {
			return nil, fmt.Errorf("unknown seed %q", key)
		}
		out = []byte(v)
	default:
		return nil, fmt.Errorf("unknown seed %q", key)
	}
	s.cache.Store(key, out)
	return out, nil
}
