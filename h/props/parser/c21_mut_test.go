package parser

// Token-level view of a source text and the mutation operators of C21.

import (
	goscanner "go/scanner"
	gotoken "go/token"
	"strings"
)

type c21Tok struct {
	gap  string // bytes between the previous token and this one
	text string
	tok  gotoken.Token
}

// c21Lex splits src into tokens (comments included) and the gaps between them;
// concatenating gap+text of all tokens plus the tail reproduces src.
func c21Lex(src []byte) (toks []c21Tok, tail string) {
	fset := gotoken.NewFileSet()
	file := fset.AddFile("", -1, len(src))
	var sc goscanner.Scanner
	sc.Init(file, src, func(gotoken.Position, string) {}, goscanner.ScanComments)
	prevEnd := 0
	for {
		pos, tok, lit := sc.Scan()
		if tok == gotoken.EOF {
			break
		}
		if tok == gotoken.SEMICOLON && lit == "\n" {
			continue // automatically inserted
		}
		off := file.Offset(pos)
		if off < prevEnd {
			off = prevEnd
		}
		n := len(tok.String())
		if lit != "" {
			n = len(lit)
		}
		if tok == gotoken.SEMICOLON && lit == "" { // explicit ";" has lit ";" ; EOF-semicolon has none
			n = 0
		}
		end := off + n
		// literals whose text was normalised by the scanner (\r stripped): resync on the source
		if end > len(src) {
			end = len(src)
		}
		toks = append(toks, c21Tok{gap: string(src[prevEnd:off]), text: string(src[off:end]), tok: tok})
		prevEnd = end
	}
	if prevEnd < len(src) {
		tail = string(src[prevEnd:])
	}
	return toks, tail
}

func c21Render(toks []c21Tok, tail string) []byte {
	var sb strings.Builder
	for _, t := range toks {
		sb.WriteString(t.gap)
		sb.WriteString(t.text)
	}
	sb.WriteString(tail)
	return []byte(sb.String())
}

// c21DeclStarts returns the token indices at which a top-level declaration
// starts (keyword at bracket depth 0), plus len(toks) as a sentinel.
func c21DeclStarts(toks []c21Tok) []int {
	var out []int
	depth := 0
	for i, t := range toks {
		switch t.tok {
		case gotoken.LPAREN, gotoken.LBRACE, gotoken.LBRACK:
			depth++
		case gotoken.RPAREN, gotoken.RBRACE, gotoken.RBRACK:
			if depth > 0 {
				depth--
			}
		case gotoken.FUNC, gotoken.VAR, gotoken.CONST, gotoken.TYPE, gotoken.IMPORT:
			if depth == 0 && (i == 0 || strings.Contains(t.gap, "\n") || toks[i-1].tok == gotoken.SEMICOLON || toks[i-1].tok == gotoken.COMMENT) {
				out = append(out, i)
			}
		}
	}
	return append(out, len(toks))
}

var c21Vocab = []string{
	"(", ")", "{", "}", "[", "]", ",", ";", ".", "...", ":", ":=", "=", "+", "-", "*", "&", "<-", "!", "~", "|", "==", "&&",
	"func", "type", "struct", "interface", "map", "chan", "go", "defer", "return", "if", "else", "for", "range", "switch",
	"case", "default", "select", "break", "continue", "goto", "fallthrough", "var", "const", "import", "package",
	"x", "T", "_", "0", "1.5", "'a'", "\"s\"", "`r`", "any", "int", "L", "//c\n", "/*c*/", "\n", "//line f.go:9\n", "/*line g.go:3:4*/",
	"\x00", "\"", "`", "'", "\\", "#", "\ufeff", "0x", "1e", "é",
}

type c21Mut struct {
	Op int `json:"op"`
	I  int `json:"i"`
	J  int `json:"j"`
	K  int `json:"k"`
}

const c21NumOps = 11

var c21OpNames = [c21NumOps]string{"delete", "duplicate", "swap", "replace", "insert", "nest", "delete-range", "gap", "truncate", "corrupt", "nest-brackets"}

func c21Abs(x int) int {
	if x < 0 {
		x = -x
	}
	if x < 0 {
		return 0
	}
	return x
}

var c21NestCounts = []int{1, 3, 64, 1500}

func c21Apply(toks []c21Tok, tail string, m c21Mut) ([]c21Tok, string) {
	n := len(toks)
	i, j, k := c21Abs(m.I), c21Abs(m.J), c21Abs(m.K)
	op := c21Abs(m.Op) % c21NumOps
	cp := func() []c21Tok { return append([]c21Tok(nil), toks...) }
	mk := func(s string) c21Tok { return c21Tok{gap: " ", text: s} }
	if n == 0 {
		return []c21Tok{mk(c21Vocab[k%len(c21Vocab)])}, tail
	}
	i %= n
	j %= n
	switch op {
	case 0:
		return append(cp()[:i], toks[i+1:]...), tail
	case 1:
		out := append(cp()[:i+1], c21Tok{gap: " ", text: toks[i].text, tok: toks[i].tok})
		return append(out, toks[i+1:]...), tail
	case 2:
		out := cp()
		out[i].text, out[j].text = out[j].text, out[i].text
		out[i].tok, out[j].tok = out[j].tok, out[i].tok
		return out, tail
	case 3:
		out := cp()
		out[i].text = c21Vocab[k%len(c21Vocab)]
		return out, tail
	case 4:
		out := append(cp()[:i], mk(c21Vocab[k%len(c21Vocab)]))
		return append(out, toks[i:]...), tail
	case 5, 10: // wrap tokens i..j in N parens (5) or in a chosen bracket/unary pair (10)
		if i > j {
			i, j = j, i
		}
		cnt := c21NestCounts[k%len(c21NestCounts)]
		open, close := "(", ")"
		if op == 10 {
			pair := [][2]string{{"[", "]"}, {"{", "}"}, {"*", ""}, {"func() {", "}"}, {"[]", ""}, {"(", ""}, {"", ")"}, {"-", ""}}[(k/len(c21NestCounts))%8]
			open, close = pair[0], pair[1]
		}
		out := cp()[:i]
		if open != "" {
			out = append(out, mk(strings.Repeat(open, cnt)))
		}
		out = append(out, toks[i:j+1]...)
		if close != "" {
			out = append(out, mk(strings.Repeat(close, cnt)))
		}
		return append(out, toks[j+1:]...), tail
	case 6:
		e := i + 1 + k%8
		if e > n {
			e = n
		}
		return append(cp()[:i], toks[e:]...), tail
	case 7:
		out := cp()
		out[i].gap = []string{"\n", "", " ", " /*c*/ ", "\n//line x.go:10\n", "\n\n", "\t// c\n", "\r\n"}[k%8]
		return out, tail
	case 8:
		return cp()[:i], ""
	case 9:
		out := cp()
		t := out[i].text
		switch k % 4 {
		case 0:
			t = t[:len(t)/2]
		case 1:
			t = t + "\x00"
		case 2:
			t = t[:len(t)/2] + "\n" + t[len(t)/2:]
		default:
			t = t + t
		}
		out[i].text = t
		return out, tail
	}
	return toks, tail
}
