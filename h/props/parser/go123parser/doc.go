// Package parser in this directory is an unmodified copy of go/parser from
// Go 1.23.5 (/usr/lib/go-1.23/src/go/parser: interface.go, parser.go,
// resolver.go), used by the C21 check as the *older* of two reference parsers
// (the newer one is the toolchain's go/parser 1.25.9; Gno's fork is go/parser
// 1.24 + gno.patch). The only edit: go/internal/typeparams.PackIndexExpr is
// inlined at the end of parser.go. It is compiled against the toolchain's
// go/ast, go/token and go/scanner, exactly like the fork.
package parser
