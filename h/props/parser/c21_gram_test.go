package parser

// Grammar-directed inputs for C21.
//
// The corpus, the copied test literals and their token mutations only contain
// the nestings of constructs that somebody happened to write. go/parser is
// context sensitive in a few places (the expression level that decides whether
// "T {" starts a composite literal, statement vs. expression position of types,
// simple statements in control clause headers, ...), so the property "same
// tree and same errors for every source text" also has to be exercised on
// sources in which every construct appears inside every other construct.
// Two families do that:
//
//   - c21Gram: a recursive random generator of (mostly valid) Go files driven
//     by rapid draws: declarations, all statement forms, all expression forms
//     and all type forms nested in each other up to a node budget;
//   - TestC21_Compose: an exhaustive enumeration of small sources built as
//     statement-context ∘ expression-context(s) ∘ operand, over fixed tables of
//     contexts with one hole and of operands.
//
// Both only produce inputs; the oracle is c21Exec, unchanged.

import (
	"fmt"
	goast "go/ast"
	"os"
	"strconv"
	"strings"
	"testing"

	"pgregory.net/rapid"
	"verif/vk"
)

// ---------------------------------------------------------------------------
// random grammar-directed generator

type c21G struct {
	rt  *rapid.T
	sb  []byte
	bud int // remaining budget of composite nodes
}

func (g *c21G) w(s string)     { g.sb = append(g.sb, s...) }
func (g *c21G) pick(n int) int { return rapid.IntRange(0, n-1).Draw(g.rt, "g") }

// coin is true in about pct% of the draws (rapid favours small values, so the
// draw is scrambled before it is compared).
func (g *c21G) coin(pct int) bool { return (g.pick(100)*37+13)%100 < pct }

func (g *c21G) spend() bool { g.bud--; return g.bud >= 0 }
func (g *c21G) of(s ...string) string {
	return s[g.pick(len(s))]
}

func (g *c21G) ident() string { return g.of("x", "y", "z", "a", "b", "err", "ch", "fn", "s", "_") }
func (g *c21G) tname() string { return g.of("T", "E", "int", "string", "any", "error", "p.T", "bool") }

func (g *c21G) leaf() {
	switch g.pick(12) {
	case 0, 1, 2, 3, 4:
		g.w(g.of("x", "y", "z", "a", "b", "err", "ch", "fn", "s", "nil", "true"))
	case 5, 6:
		g.w(g.of("0", "1", "42", "0x1F", "1_000", "07"))
	case 7:
		g.w(g.of(`"s"`, "`r`", `"a\tb"`, `""`))
	case 8:
		g.w(g.of("'c'", `'\n'`, "1.5", "1e3", "2i", ".5"))
	case 9, 10:
		g.w(g.of("p.X", "x.f", "s.code", "q.T"))
	default:
		g.w(g.of("T", "E", "int", "string"))
	}
}

// typ writes a type.
func (g *c21G) typ(d int) {
	if d <= 0 || !g.spend() {
		g.w(g.tname())
		return
	}
	switch g.pick(16) {
	case 0, 1, 2:
		g.w(g.tname())
	case 3:
		g.w("*")
		g.typ(d - 1)
	case 4:
		g.w("[]")
		g.typ(d - 1)
	case 5:
		g.w("[")
		if g.coin(70) {
			g.w(g.of("2", "N", "1<<3", "len(x)"))
		} else {
			g.expr(d-1, false)
		}
		g.w("]")
		g.typ(d - 1)
	case 6:
		g.w("map[")
		g.typ(d - 1)
		g.w("]")
		g.typ(d - 1)
	case 7:
		g.w(g.of("chan ", "<-chan ", "chan<- "))
		g.typ(d - 1)
	case 8:
		g.w("func")
		g.signature(d - 1)
	case 9:
		g.structType(d - 1)
	case 10:
		g.ifaceType(d - 1)
	case 11, 12:
		g.w(g.of("G", "p.G", "Pair"))
		g.w("[")
		n := 1 + g.pick(2)
		for i := 0; i < n; i++ {
			if i > 0 {
				g.w(", ")
			}
			g.typ(d - 1)
		}
		g.w("]")
	case 13:
		g.w("(")
		g.typ(d - 1)
		g.w(")")
	default:
		g.w(g.tname())
	}
}

func (g *c21G) structType(d int) {
	g.w("struct{")
	n := g.pick(4)
	for i := 0; i < n; i++ {
		if i > 0 {
			g.w("; ")
		} else {
			g.w(" ")
		}
		switch g.pick(5) {
		case 0:
			g.w(g.of("T", "*E", "p.T", "G[int]"))
		case 1:
			g.w("a, b ")
			g.typ(d)
		default:
			g.w(g.of("f", "code", "next", "_") + " ")
			g.typ(d)
		}
		if g.coin(15) {
			g.w(" " + g.of("`json:\"f\"`", `"tag"`))
		}
	}
	if n > 0 {
		g.w(" ")
	}
	g.w("}")
}

func (g *c21G) ifaceType(d int) {
	g.w("interface{")
	n := g.pick(4)
	for i := 0; i < n; i++ {
		if i > 0 {
			g.w("; ")
		} else {
			g.w(" ")
		}
		switch g.pick(6) {
		case 0:
			g.w(g.of("E", "p.I", "comparable", "G[int]"))
		case 1:
			g.w(g.of("~int | ~string", "int | E", "~[]T", "*T | p.T"))
		default:
			g.w(g.of("m", "Error", "String"))
			g.signature(d)
		}
	}
	if n > 0 {
		g.w(" ")
	}
	g.w("}")
}

// signature writes "(params) results".
func (g *c21G) signature(d int) {
	g.w("(")
	n := g.pick(4)
	named := g.coin(70)
	grouped := false
	for i := 0; i < n; i++ {
		if i > 0 {
			g.w(", ")
		}
		if named {
			g.w(g.of("a", "b", "x", "_", "s") + " ")
			if g.coin(20) && i+1 < n {
				g.sb = g.sb[:len(g.sb)-1] // "a, b T"
				grouped = true
				continue
			}
		}
		if i == n-1 && g.coin(15) && (!grouped || g.coin(10)) {
			g.w("...")
		}
		grouped = false
		g.typ(d - 1)
	}
	g.w(")")
	switch g.pick(6) {
	case 0, 1:
		g.w(" ")
		g.typ(d - 1)
	case 2:
		g.w(" (")
		g.typ(d - 1)
		g.w(", error)")
	case 3:
		g.w(" (r ")
		g.typ(d - 1)
		g.w(")")
	}
}

// litType writes the type of a composite literal; it reports whether the type
// is a name (identifier, selector or instantiation): those need parentheses
// in a control clause header.
func (g *c21G) litType(d int) (named bool) {
	switch g.pick(14) {
	case 0, 1, 2:
		g.w(g.of("T", "E", "Point"))
		return true
	case 3:
		g.w(g.of("p.T", "q.E"))
		return true
	case 4:
		g.w(g.of("G[int]", "Pair[K, V]", "p.G[T]", "G[[]int]"))
		return true
	case 5, 6:
		g.w("[]")
		g.typ(d - 1)
	case 7:
		g.w(g.of("[2]", "[...]", "[N]"))
		g.typ(d - 1)
	case 8, 9:
		g.w("map[")
		g.typ(d - 1)
		g.w("]")
		g.typ(d - 1)
	case 10:
		g.structType(d - 1)
	case 11:
		g.w("[]*")
		g.w(g.of("T", "p.T"))
	default:
		g.w(g.of("T", "E"))
		return true
	}
	return false
}

func (g *c21G) litBody(d int) {
	g.w("{")
	n := g.pick(4)
	for i := 0; i < n; i++ {
		if i > 0 {
			g.w(", ")
		}
		switch g.pick(8) {
		case 0, 1:
			g.w(g.of("f", "code", `"k"`, "1", "x") + ": ")
			g.elem(d)
		case 2:
			g.elem(d)
			g.w(": ")
			g.elem(d)
		default:
			g.elem(d)
		}
	}
	if n > 0 && g.coin(10) {
		g.w(",")
	}
	g.w("}")
}

func (g *c21G) elem(d int) {
	if g.coin(15) && d > 0 && g.spend() {
		g.litBody(d - 1) // elided type
		return
	}
	g.expr(d-1, false)
}

func (g *c21G) compLit(d int, hdr bool) {
	start := len(g.sb)
	named := g.litType(d)
	g.litBody(d)
	if hdr && named && g.coin(88) {
		// a literal of a named type directly in a control clause header has
		// to be parenthesised (kept bare in 12% as an error-path input)
		s := "(" + string(g.sb[start:]) + ")"
		g.sb = append(g.sb[:start], s...)
	}
}

func (g *c21G) funcLit(d int) {
	g.w("func")
	g.signature(d - 1)
	g.w(" {")
	n := g.pick(4)
	for i := 0; i < n; i++ {
		g.w(g.of(" ", "\n\t"))
		if i == n-1 && g.coin(60) {
			g.w("return ")
			g.expr(d-1, false)
		} else {
			g.stmt(d - 1)
		}
		if i < n-1 {
			g.w(";")
		}
	}
	g.w(" }")
}

func (g *c21G) args(d int) {
	g.w("(")
	n := g.pick(4)
	for i := 0; i < n; i++ {
		if i > 0 {
			g.w(", ")
		}
		if i == 0 && g.coin(8) {
			g.typ(d - 1) // make([]T, n), new(T)
		} else {
			g.expr(d-1, false)
		}
	}
	if n > 0 && g.coin(10) {
		if g.afterNumber() {
			g.w(" ")
		}
		g.w("...")
	}
	g.w(")")
}

// expr writes an expression. hdr: the expression sits directly in a control
// clause header (go/parser's exprLev == -1); every bracketing construct and
// every function body resets it.
func (g *c21G) expr(d int, hdr bool) {
	if d <= 0 || !g.spend() {
		g.leaf()
		return
	}
	switch g.pick(30) {
	case 0, 1, 2:
		g.leaf()
	case 3, 4, 5:
		g.expr(d-1, hdr)
		g.w(" " + g.of("+", "-", "*", "/", "%", "&", "|", "^", "<<", ">>", "&^", "==", "!=", "<", "<=", ">", ">=", "&&", "||") + " ")
		g.expr(d-1, hdr)
	case 6:
		g.w(g.of("-", "+", "!", "^", "*", "&", "<-"))
		g.expr(d-1, hdr)
	case 7:
		g.w("(")
		g.expr(d-1, false)
		g.w(")")
	case 8, 9, 10:
		g.expr(d-1, hdr)
		g.args(d)
	case 11:
		g.expr(d-1, hdr)
		g.w("[")
		g.expr(d-1, false)
		g.w("]")
	case 12:
		g.expr(d-1, hdr)
		g.w("[")
		if g.coin(60) {
			g.expr(d-1, false)
		}
		g.w(":")
		three := g.coin(20)
		if g.coin(60) || three {
			g.expr(d-1, false)
		}
		if three {
			g.w(":")
			g.expr(d-1, false)
		}
		g.w("]")
	case 13, 14:
		g.operand(d-1, hdr)
		g.w("." + g.of("f", "code", "m", "X"))
	case 15:
		g.operand(d-1, hdr)
		g.w(".(")
		g.typ(d - 1)
		g.w(")")
	case 16, 17, 18, 19, 20:
		g.compLit(d, hdr)
	case 21:
		g.w("&")
		g.compLit(d, hdr)
	case 22, 23, 24, 25:
		g.funcLit(d)
		if g.coin(65) {
			g.args(d)
		}
	case 26:
		// conversion to a type that is not a plain name
		switch g.pick(5) {
		case 0:
			g.w("[]byte")
		case 1:
			g.w("(*T)")
		case 2:
			g.w("(func())")
		case 3:
			g.w("(<-chan int)")
		default:
			g.w("[]")
			g.typ(d - 1)
		}
		g.w("(")
		g.expr(d-1, false)
		g.w(")")
	case 27:
		g.w(g.of("G", "p.G", "f"))
		g.w("[")
		g.typ(d - 1)
		if g.coin(40) {
			g.w(", ")
			g.typ(d - 1)
		}
		g.w("]")
		if g.coin(70) {
			g.args(d)
		}
	case 28:
		g.w(g.of("(*T).m", "T.m", "p.T.m", "struct{}{}", "interface{}(x)", "[...]int{1, 2}[0]"))
	default:
		g.leaf()
	}
}

// afterNumber: the text ends in a number literal (none of the identifiers of
// the generator ends that way), so that a following '.' would be scanned as
// part of it.
func (g *c21G) afterNumber() bool {
	if len(g.sb) == 0 {
		return false
	}
	switch c := g.sb[len(g.sb)-1]; {
	case c >= '0' && c <= '9', c == 'F', c == 'i':
		return true
	}
	return false
}

// operand writes an expression that can be followed by a selector.
func (g *c21G) operand(d int, hdr bool) {
	start := len(g.sb)
	g.expr(d, hdr)
	if g.afterNumber() && g.coin(95) {
		s := "(" + string(g.sb[start:]) + ")"
		g.sb = append(g.sb[:start], s...)
	}
}

// primary writes a primary expression (what may precede ".(type)").
func (g *c21G) primary(d int, hdr bool) {
	switch g.pick(10) {
	case 0, 1, 2:
		g.w(g.of("x", "y", "err", "s.f", "p.X", "a[i]"))
	case 3, 4:
		g.w("(")
		g.expr(d, false)
		g.w(")")
	case 5, 6:
		g.w(g.of("f", "x.m", "fn"))
		g.args(d)
	case 7, 8:
		g.funcLit(d)
		g.args(d)
	default:
		g.operand(d, hdr) // anything, possibly not primary
	}
}

func (g *c21G) exprList(d int, hdr bool, max int) {
	n := 1 + g.pick(max)
	for i := 0; i < n; i++ {
		if i > 0 {
			g.w(", ")
		}
		g.expr(d, hdr)
	}
}

// simple writes a simple statement (also used for the init and post parts of
// control clause headers, where hdr is true).
func (g *c21G) simple(d int, hdr bool) {
	switch g.pick(10) {
	case 0, 1, 2:
		g.w(g.ident() + " := ")
		g.expr(d, hdr)
	case 3:
		g.w(g.ident() + ", " + g.ident() + " := ")
		g.expr(d, hdr)
		if g.coin(50) {
			g.w(", ")
			g.expr(d, hdr)
		}
	case 4:
		g.w(g.of("x", "x.f", "a[i]", "*p", "_") + " = ")
		g.expr(d, hdr)
	case 5:
		g.w(g.of("x", "x.f", "a[i]") + " " + g.of("+=", "-=", "*=", "|=", "<<=", "&^=") + " ")
		g.expr(d, hdr)
	case 6:
		g.w(g.of("x", "a[i]", "s.code") + g.of("++", "--"))
	case 7:
		g.w(g.of("ch", "s.ch", "out") + " <- ")
		g.expr(d, hdr)
	default:
		g.expr(d, hdr) // expression statement (any expression: errors are compared too)
	}
}

func (g *c21G) block(d int) {
	g.w("{")
	n := g.pick(4)
	for i := 0; i < n; i++ {
		g.w("\n\t")
		g.stmt(d - 1)
	}
	if n > 0 {
		g.w("\n")
	}
	g.w("}")
}

func (g *c21G) ifStmt(d int) {
	g.w("if ")
	if g.coin(35) {
		g.simple(d-1, true)
		g.w("; ")
	}
	g.expr(d-1, true)
	g.w(" ")
	g.block(d)
	switch g.pick(4) {
	case 0:
		g.w(" else ")
		g.block(d)
	case 1:
		if d > 1 && g.spend() {
			g.w(" else ")
			g.ifStmt(d - 1)
		}
	}
}

func (g *c21G) stmt(d int) {
	if d <= 0 || !g.spend() {
		switch g.pick(5) {
		case 0:
			g.w("return")
		case 1:
			g.w("x++")
		case 2:
			g.w("_ = x")
		case 3:
			g.w("f()")
		default:
			g.w("x := 1")
		}
		return
	}
	switch g.pick(32) {
	case 0, 1, 2, 3, 4:
		g.simple(d, false)
	case 5, 6:
		g.w("return")
		if g.coin(80) {
			g.w(" ")
			g.exprList(d-1, false, 2)
		}
	case 7, 8, 9, 10:
		g.ifStmt(d)
	case 11, 12, 13, 14, 15:
		g.w("for ")
		switch g.pick(9) {
		case 0:
		case 1, 2:
			g.expr(d-1, true)
			g.w(" ")
		case 3, 4:
			if g.coin(70) {
				g.simple(d-1, true)
			}
			g.w("; ")
			if g.coin(70) {
				g.expr(d-1, true)
			}
			g.w("; ")
			if g.coin(60) {
				g.simple(d-1, true)
				g.w(" ")
			}
		case 5, 6:
			g.w(g.of("k, v := ", "_, v := ", "i := ", "k, v = ", "x.f = ") + "range ")
			g.expr(d-1, true)
			g.w(" ")
		case 7:
			g.w("range ")
			g.expr(d-1, true)
			g.w(" ")
		default:
			g.w("i := range 10 ")
		}
		g.block(d)
	case 16, 17, 18:
		g.w("switch ")
		if g.coin(35) {
			g.simple(d-1, true)
			g.w("; ")
		}
		if g.coin(75) {
			g.expr(d-1, true)
			g.w(" ")
		}
		g.w("{")
		n := g.pick(3)
		for i := 0; i < n; i++ {
			g.w("\n\tcase ")
			g.exprList(d-1, false, 2)
			g.w(":")
			m := g.pick(3)
			for j := 0; j < m; j++ {
				g.w("\n\t\t")
				g.stmt(d - 1)
			}
			if g.coin(10) {
				g.w("\n\t\tfallthrough")
			}
		}
		if g.coin(40) {
			g.w("\n\tdefault:")
			if g.coin(50) {
				g.w("\n\t\t")
				g.stmt(d - 1)
			}
		}
		g.w("\n\t}")
	case 19, 20:
		g.w("switch ")
		if g.coin(25) {
			g.simple(d-1, true)
			g.w("; ")
		}
		if g.coin(60) {
			g.w(g.ident() + " := ")
		}
		g.primary(d-1, true)
		g.w(".(type) {")
		n := g.pick(3)
		for i := 0; i < n; i++ {
			g.w("\n\tcase ")
			g.typ(d - 1)
			if g.coin(30) {
				g.w(", ")
				g.typ(d - 1)
			}
			g.w(":")
			if g.coin(60) {
				g.w("\n\t\t")
				g.stmt(d - 1)
			}
		}
		if g.coin(30) {
			g.w("\n\tdefault:")
		}
		g.w("\n\t}")
	case 21:
		g.w("select {")
		n := g.pick(3)
		for i := 0; i < n; i++ {
			g.w("\n\tcase ")
			switch g.pick(4) {
			case 0:
				g.w(g.ident() + " := <-")
				g.expr(d-1, false)
			case 1:
				g.w(g.ident() + ", ok := <-")
				g.expr(d-1, false)
			case 2:
				g.expr(d-1, false)
				g.w(" <- ")
				g.expr(d-1, false)
			default:
				g.w("<-")
				g.expr(d-1, false)
			}
			g.w(":")
			if g.coin(60) {
				g.w("\n\t\t")
				g.stmt(d - 1)
			}
		}
		if g.coin(40) {
			g.w("\n\tdefault:")
		}
		g.w("\n\t}")
	case 22, 23:
		g.w(g.of("go ", "defer "))
		switch g.pick(5) {
		case 0, 1:
			g.funcLit(d)
		case 2:
			g.w("(")
			g.expr(d-1, false)
			g.w(")")
		case 3:
			g.w(g.of("f", "x.m", "p.F", "fn", "wg.Done"))
		default:
			g.expr(d-1, false) // may bind differently or be no call at all
		}
		g.args(d)
	case 24:
		g.block(d)
	case 25:
		g.w(g.of("L", "outer", "_") + ":\n\t")
		g.stmt(d - 1)
	case 26:
		g.w(g.of("break", "continue", "break L", "continue outer", "goto L", "fallthrough"))
	case 27, 28:
		g.w("var " + g.ident())
		switch g.pick(3) {
		case 0:
			g.w(" ")
			g.typ(d - 1)
		case 1:
			g.w(" = ")
			g.expr(d-1, false)
		default:
			g.w(" ")
			g.typ(d - 1)
			g.w(" = ")
			g.expr(d-1, false)
		}
	case 29:
		g.w("const " + g.of("c", "N", "_") + " = ")
		g.expr(d-1, false)
	case 30:
		g.w("type " + g.of("T", "local", "G[P any]", "A =") + " ")
		g.typ(d - 1)
	default:
		g.w(";")
	}
}

func (g *c21G) topDecl(d int) {
	if g.coin(12) {
		g.w(g.of("// doc\n", "/* doc */\n", "// a\n// b\n", "//go:noinline\n"))
	}
	switch g.pick(12) {
	case 0, 1, 2, 3, 4, 5, 6:
		g.w("func ")
		method := g.coin(30)
		if method {
			g.w(g.of("(r T) ", "(r *T) ", "(T) ", "(r G[K, V]) ", "(r *p.T) "))
		}
		g.w(g.of("f", "main", "init", "Render", "_"))
		if g.coin(15) && (!method || g.coin(10)) {
			g.w(g.of("[P any]", "[K comparable, V any]", "[P ~int | ~string]", "[P interface{ m() }]", "[P *T,]"))
		}
		g.signature(d - 1)
		if g.coin(92) {
			g.w(" ")
			g.block(d)
		}
	case 7, 8:
		g.w("var ")
		if g.coin(30) {
			g.w("(\n\t" + g.ident() + " = ")
			g.expr(d-1, false)
			g.w("\n\t" + g.ident() + " ")
			g.typ(d - 1)
			g.w("\n)")
		} else {
			g.w(g.ident())
			if g.coin(40) {
				g.w(" ")
				g.typ(d - 1)
			}
			g.w(" = ")
			g.expr(d-1, false)
		}
	case 9:
		g.w("const ")
		if g.coin(40) {
			g.w("(\n\tc0 = iota\n\tc1\n\tc2 ")
			g.typ(1)
			g.w(" = ")
			g.expr(d-1, false)
			g.w("\n)")
		} else {
			g.w("c = ")
			g.expr(d-1, false)
		}
	default:
		g.w("type ")
		g.w(g.of("T", "E", "G[K comparable, V any]", "Pair[K, V any]", "A =", "L[P any] =", "I"))
		g.w(" ")
		g.typ(d)
	}
	g.w("\n\n")
}

// c21Gram draws one source file.
func c21Gram(rt *rapid.T) []byte {
	g := &c21G{rt: rt}
	g.bud = rapid.SampledFrom([]int{20, 40, 60, 100, 160, 250}).Draw(rt, "budget")
	depth := rapid.IntRange(3, 7).Draw(rt, "depth")
	if g.coin(10) {
		g.w("// header\n\n")
	}
	g.w("package p\n\n")
	if g.coin(25) {
		g.w(g.of("import \"p\"\n\n", "import (\n\t\"p\"\n\tq \"q/v2\"\n)\n\n", "import . \"p\"\n\n"))
	}
	n := 1 + g.pick(3)
	for i := 0; i < n; i++ {
		g.topDecl(depth)
	}
	return g.sb
}

// ---------------------------------------------------------------------------
// evidence: which context-sensitive situations an input exercises (computed
// on the tree of the reference parser, for generated inputs only)

func c21ContextClasses(ctx *vk.Ctx, f *goast.File) {
	if f == nil {
		return
	}
	var hdrLit, hdrFunc, hdrFuncLit, funcInFunc, litInLit bool
	inspectHdr := func(n goast.Node) {
		if n == nil {
			return
		}
		goast.Inspect(n, func(m goast.Node) bool {
			switch v := m.(type) {
			case *goast.CompositeLit:
				hdrLit = true
			case *goast.FuncLit:
				hdrFunc = true
				goast.Inspect(v.Body, func(k goast.Node) bool {
					if _, ok := k.(*goast.CompositeLit); ok {
						hdrFuncLit = true
					}
					return !hdrFuncLit
				})
			}
			return true
		})
	}
	goast.Inspect(f, func(n goast.Node) bool {
		switch v := n.(type) {
		case *goast.IfStmt:
			if v.Init != nil {
				inspectHdr(v.Init)
			}
			inspectHdr(v.Cond)
		case *goast.ForStmt:
			if v.Init != nil {
				inspectHdr(v.Init)
			}
			if v.Cond != nil {
				inspectHdr(v.Cond)
			}
			if v.Post != nil {
				inspectHdr(v.Post)
			}
		case *goast.RangeStmt:
			inspectHdr(v.X)
		case *goast.SwitchStmt:
			if v.Init != nil {
				inspectHdr(v.Init)
			}
			if v.Tag != nil {
				inspectHdr(v.Tag)
			}
		case *goast.TypeSwitchStmt:
			if v.Init != nil {
				inspectHdr(v.Init)
			}
			inspectHdr(v.Assign)
		case *goast.FuncLit:
			goast.Inspect(v.Body, func(k goast.Node) bool {
				if _, ok := k.(*goast.FuncLit); ok {
					funcInFunc = true
				}
				return !funcInFunc
			})
		case *goast.CompositeLit:
			for _, e := range v.Elts {
				goast.Inspect(e, func(k goast.Node) bool {
					if _, ok := k.(*goast.CompositeLit); ok {
						litInLit = true
					}
					return !litInLit
				})
			}
		}
		return true
	})
	ctx.ClassIf(hdrLit, "ctx:composite-literal-in-control-header")
	ctx.ClassIf(hdrFunc, "ctx:func-literal-in-control-header")
	ctx.ClassIf(hdrFuncLit, "ctx:composite-literal-in-func-literal-in-control-header")
	ctx.ClassIf(funcInFunc, "ctx:func-literal-in-func-literal")
	ctx.ClassIf(litInLit, "ctx:composite-literal-in-composite-literal")
}

// ---------------------------------------------------------------------------
// exhaustive composition of contexts

const c21Hole = "@"

// statement contexts with one expression hole; "^" as first byte marks a
// top-level context (not wrapped in a function body).
var c21StmtCtx = []string{
	"_ = @",
	"x := @",
	"x, y := @, @",
	"x += @",
	"return @",
	"return x, @",
	"@",
	"@ = x",
	"@++",
	"ch <- @",
	"@ <- x",
	"go @()",
	"defer @",
	"var x = @",
	"var x T = @",
	"var x @",
	"const c = @",
	"type t @",
	"L: @",
	"{ @ }",
	"if @ {}",
	"if @ { x = @ }",
	"if x := @; x != nil {}",
	"if x := 1; @ {}",
	"if @; x {}",
	"if x {} else if @ {}",
	"if x {} else if y := @; y {}",
	"for @ {}",
	"for x := @; x < 1; x++ {}",
	"for ; @; {}",
	"for ; ; x = @ {}",
	"for x = @; ; {}",
	"for k, v := range @ {}",
	"for _, v = range @ {}",
	"for range @ {}",
	"for @ = range x {}",
	"switch @ {}",
	"switch x := @; x {}",
	"switch x := 1; @ {}",
	"switch @; {}",
	"switch x := @.(type) {}",
	"switch @.(type) {}",
	"switch x := @; y := x.(type) {}",
	"switch { case @: }",
	"switch x { case 1, @: x = @ }",
	"switch x.(type) { case @: }",
	"switch x.(type) { case int: _ = @ }",
	"select { case x := <-@: }",
	"select { case <-@: }",
	"select { case @ <- 1: }",
	"select { case ch <- @: }",
	"select { case x, ok = <-ch: _ = @ }",
	"select { default: @ }",
	"^var x = @",
	"^var x @",
	"^var x, y @ = @, @",
	"^const c = @",
	"^const ( a = @; b )",
	"^type t @",
	"^type t [@]int",
	"^type t[P @] struct{}",
	"^type t = @",
	"^func f(x @) {}",
	"^func f(x [@]int) {}",
	"^func f() @ { return @ }",
	"^func (r @) m() {}",
	"^func f[P @]() {}",
	"^type t struct { f @ }",
	"^type t interface { m(@); @ }",
}

// expression contexts with one hole
var c21ExprCtx = []string{
	"(@)",
	"f(@)",
	"f(x, @)",
	"f(@...)",
	"f(@)(x)",
	"a[@]",
	"a[@:]",
	"a[:@]",
	"a[1:@:3]",
	"a[@, int]",
	"@[1]",
	"@[:]",
	"@[int]",
	"@.f",
	"@.m()",
	"@.(T)",
	"x.(@)",
	"@()",
	"@(x)",
	"@{}",
	"@{1}",
	"T{@}",
	"T{f: @}",
	"T{@: 1}",
	"T{{@}}",
	"&T{@}",
	"p.T{@}",
	"G[int]{@}",
	"[]T{@}",
	"[]T{{@}}",
	"[...]T{1: @}",
	"[@]T{}",
	"[]@{}",
	"map[string]T{@: @}",
	"map[@]int{}",
	"struct{ f int }{@}",
	"struct{ f @ }{}",
	"-@",
	"!@",
	"*@",
	"&@",
	"<-@",
	"^@",
	"@ + 1",
	"1 + @",
	"@ == x",
	"x == @",
	"@ && y",
	"y || @",
	"@ < x > (y)",
	"func() T { return @ }()",
	"func() T { return @ }",
	"func() { _ = @ }",
	"func() { @ }()",
	"func() { if @ {} }",
	"func() { for range @ {} }()",
	"func() { switch @ {} }",
	"func(x @) {}",
	"func() @ { return nil }()",
	"func(x T) (y @) { y = @; return }(x)",
	"G[@]{}",
	"G[@](x)",
	"G[int, @]{1}",
	"[]int(@)",
	"(*T)(@)",
	"chan T(@)",
	"(func())(@)",
	"[]@",
	"*@",
	"chan @",
	"map[string]@",
	"func(@)",
	"func() @",
	"interface{ m(@) }",
}

// operands
var c21Operands = []string{
	"x", "_", "nil", "1", "\"s\"", "'c'", "1.5", "p.X", "x.f.g",
	"T{}", "T{1}", "T{f: 1}", "T{1, 2,}", "T{{1}, {2}}", "p.T{1}", "p.T{}", "G[int]{1}", "G[int, string]{}", "p.G[T]{x}",
	"&T{1}", "*T{}", "(T{1})", "(T){1}", "x{", "T{1}.f", "T{}.m()", "T{}[0]",
	"[]T{1}", "[]T{{1}}", "[2]T{}", "[...]T{1}", "map[K]V{}", "map[K]V{k: T{1}}", "struct{}{}", "struct{ f T }{T{1}}", "[]p.T{{}}",
	"func() {}", "func() {}()", "func(a, b int) (c T) { return }", "func() T { return T{1} }()", "func() { x := T{1}; _ = x }", "func(x T) bool { return x == T{1} }",
	"f()", "f(x...)", "f(T{1})", "f[int](x)", "a[1]", "a[T{1}.f]", "a[1:2]", "a[i, j]", "x.(T)", "x.(type)", "<-c", "-x", "a + b*c", "a < b", "a == T{1}", "(x)", "(a < b)",
	"int", "[]int", "[...]int", "[2]T", "chan int", "<-chan int", "chan<- int", "map[K]V", "func()", "func(int) string", "struct{ x int }", "interface{ m() }", "*T", "G[int]", "p.T", "interface{ ~int | T }",
	"x y", "", ")", "{", "}", "T{", "func() {", ",", ";", "...", ":=",
}

// c21ComposeSrc builds the source of one composition.
func c21ComposeSrc(sc string, ecs []string, op string) []byte {
	e := op
	for i := len(ecs) - 1; i >= 0; i-- {
		e = strings.ReplaceAll(ecs[i], c21Hole, e)
	}
	top := strings.HasPrefix(sc, "^")
	s := strings.ReplaceAll(strings.TrimPrefix(sc, "^"), c21Hole, e)
	if top {
		return []byte("package p\n\n" + s + "\n")
	}
	return []byte("package p\n\nfunc f() {\n\t" + s + "\n}\n")
}

const c21ComposeRule = "statement context (%d, one hole: every simple statement, every part of if/for/range/switch/type switch/select headers and clauses, declarations, top-level declarations, type positions) ∘ 0..2 expression contexts (%d, one hole: parentheses, call, index, slice, selector, assertion, composite literal type/key/element for named, generic, array, map and struct types, unary, binary, function literal body/header/result/parameter, conversions, instantiation, type constructors) ∘ operand (%d: names, literals, composite literals of every type form, function literals, calls, types, fragments that do not parse); thorough: all compositions with 0 and 1 expression contexts and a pseudo-random 1/%d of those with 2; quick: all with 0, a pseudo-random 1/%d of those with 1 and 1/%d of those with 2 (another sample for every seed); parser modes rotate over gno's mode, all-errors+comments+declaration-errors and skip-object-resolution; oracle as TestC21_Parser; non-trivial = the fork returns >=1 declaration or >=1 error"

func c21Shards() int {
	for _, a := range os.Args {
		if strings.HasPrefix(a, "-rapid.checks=") {
			if n, err := strconv.Atoi(strings.TrimPrefix(a, "-rapid.checks=")); err == nil && n >= 1 && n <= 64 {
				return n
			}
		}
	}
	return 1
}

// c21ComposeFrac[number of expression contexts][0 quick, 1 thorough]: the
// fraction 1/n of the compositions that is run.
var c21ComposeFrac = [3][2]uint64{{1, 1}, {32, 1}, {2400, 10}}

// TestC21_Compose: exhaustive composition of contexts (see c21ComposeRule).
// The registration passes the number of shards as rapid.checks (checks/C21.json:
// [P*P, P]); shard i takes the compositions whose index is i modulo P.
func TestC21_Compose(t *testing.T) {
	if vk.Replaying() {
		t.Skip()
	}
	r := vk.Open(t, "C21", "TestC21_Compose", fmt.Sprintf(c21ComposeRule, len(c21StmtCtx), len(c21ExprCtx), len(c21Operands), c21ComposeFrac[2][1], c21ComposeFrac[1][0], c21ComposeFrac[2][0]))
	defer r.Close()
	r.ReplayAs = "TestC21_Parser"
	tier := 0
	if r.Thorough() {
		tier = 1
	}
	shards := c21Shards()
	modes := []int{0, 4, 5}
	idx, n := 0, 0
	stop := false
	do := func(sc string, ecs []string, op string) {
		idx++
		if stop || idx%shards != r.Shard%shards {
			return
		}
		if frac := c21ComposeFrac[len(ecs)][tier]; frac > 1 {
			// a pseudo-random 1/frac of the compositions, another one for every seed
			if ((uint64(idx)+r.Seed*0x51ED27)*0x9E3779B97F4A7C15>>33)%frac != 0 {
				return
			}
		}
		c := c21Case{Seed: "comp", Raw: c21ComposeSrc(sc, ecs, op), Mode: modes[(idx+int(r.Seed%3))%len(modes)]}
		if r.Do(c, func(ctx *vk.Ctx) error { return c21Exec(ctx, c) }) != nil {
			stop = true
		}
		n++
	}
	for _, sc := range c21StmtCtx {
		for _, op := range c21Operands {
			do(sc, nil, op)
		}
	}
	for _, sc := range c21StmtCtx {
		for _, e1 := range c21ExprCtx {
			for _, op := range c21Operands {
				do(sc, []string{e1}, op)
			}
		}
	}
	for _, sc := range c21StmtCtx {
		for _, e1 := range c21ExprCtx {
			for _, e2 := range c21ExprCtx {
				for _, op := range c21Operands {
					do(sc, []string{e1, e2}, op)
				}
			}
		}
	}
	r.Extra("compositions_total", idx)
	r.Extra("compositions_run", n)
	r.Extra("exhaustive", false)
}
