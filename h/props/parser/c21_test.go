package parser

import (
	"fmt"
	goast "go/ast"
	goparser "go/parser"
	goscanner "go/scanner"
	gotoken "go/token"
	"reflect"
	"strconv"
	"strings"
	"testing"

	fork "github.com/gnolang/gno/gnovm/pkg/parser"
	"pgregory.net/rapid"
	go123 "verif/props/parser/go123parser"
	"verif/vk"
)

// C21 — Gno's forked go/parser (Go 1.24 + gno.patch) parses exactly like
// go/parser. Oracles:
//  (1) no panic on any input;
//  (2) exact, metamorphic: ParseFile, ParseFile2(nil callback) and
//      ParseFile2(counting callback) return identical trees and errors, and
//      the callback sees exactly the token stream an independent go/scanner
//      produces (a prefix of it when the parser stops early);
//  (3) differential against two references that bracket the fork's version:
//      A = the toolchain's go/parser (1.25.9) and B = a copy of go/parser
//      1.23.5. Where A and B agree the fork must equal them exactly (tree with
//      positions, error list with messages). Where A and B differ (version
//      drift) the fork must, component by component, equal one of them; a
//      component on which all three differ is counted as "double drift" and is
//      NOT a violation (no 1.24 reference is installed).

type c21Case struct {
	Seed string   `json:"seed"`
	Raw  []byte   `json:"raw,omitempty"` // Seed=="raw", "gram" or "comp": the input itself
	Win  [2]int   `json:"win"`           // top-level declaration window: first, count (count 0: whole file)
	Muts []c21Mut `json:"muts"`
	Mode int      `json:"mode"` // index into c21Modes
	Expr bool     `json:"expr"` // parse a token window as an expression (ParseExprFrom*)
}

var c21Modes = []goparser.Mode{
	goparser.ParseComments | goparser.DeclarationErrors, // what gnolang.ParseFile uses
	0,
	goparser.ParseComments,
	goparser.AllErrors,
	goparser.ParseComments | goparser.AllErrors | goparser.DeclarationErrors,
	goparser.SkipObjectResolution,
	goparser.SkipObjectResolution | goparser.ParseComments | goparser.AllErrors,
	goparser.ImportsOnly,
	goparser.PackageClauseOnly | goparser.ParseComments,
	goparser.ImportsOnly | goparser.AllErrors | goparser.ParseComments,
}

// c21Source builds the input text of a case.
func c21Source(c c21Case) ([]byte, error) {
	var src []byte
	if c.Seed == "raw" || c.Seed == "gram" || c.Seed == "comp" {
		src = c.Raw // the input itself: raw bytes, a generated file (c21Gram) or a composition (TestC21_Compose)
	} else {
		b, err := c21GetSeeds().text(c.Seed)
		if err != nil {
			return nil, err
		}
		src = b
	}
	if c.Win[1] == 0 && len(c.Muts) == 0 && !c.Expr {
		return src, nil
	}
	toks, tail := c21Lex(src)
	if c.Expr {
		// a token window, without the package clause
		if len(toks) > 0 {
			s := c21Abs(c.Win[0]) % len(toks)
			e := s + 1 + c21Abs(c.Win[1])%40
			if e > len(toks) {
				e = len(toks)
			}
			toks = append([]c21Tok(nil), toks[s:e]...)
			toks[0].gap = ""
			tail = ""
		}
	} else if c.Win[1] > 0 {
		starts := c21DeclStarts(toks)
		if len(starts) > 1 {
			nd := len(starts) - 1
			first := c21Abs(c.Win[0]) % nd
			last := first + c21Abs(c.Win[1])
			if last > nd {
				last = nd
			}
			out := append([]c21Tok(nil), toks[:starts[0]]...) // package clause (+ leading comments)
			out = append(out, toks[starts[first]:starts[last]]...)
			toks = out
			if last != nd {
				tail = "\n"
			}
		}
	}
	for _, m := range c.Muts {
		toks, tail = c21Apply(toks, tail, m)
	}
	return c21Render(toks, tail), nil
}

// ---------------------------------------------------------------------------
// structural comparison with a readable first difference

type c21Pair struct{ a, b uintptr }

// c21Differ compares two values with the semantics of reflect.DeepEqual (nil
// and empty slices differ, pointer cycles are followed once) and reports the
// path and values of the first difference. The path is kept as a stack and
// only rendered when a difference is found.
type c21Differ struct {
	seen map[c21Pair]bool
	path []string
}

func (d *c21Differ) at(format string, a ...any) string {
	return strings.Join(d.path, "") + ": " + fmt.Sprintf(format, a...)
}

func (d *c21Differ) sub(seg string, a, b reflect.Value) string {
	d.path = append(d.path, seg)
	r := d.diff(a, b)
	d.path = d.path[:len(d.path)-1]
	return r
}

func (d *c21Differ) diff(a, b reflect.Value) string {
	if a.IsValid() != b.IsValid() {
		return d.at("one side invalid")
	}
	if !a.IsValid() {
		return ""
	}
	if a.Type() != b.Type() {
		return d.at("type %v vs %v", a.Type(), b.Type())
	}
	switch a.Kind() {
	case reflect.Pointer:
		if a.IsNil() || b.IsNil() {
			if a.IsNil() != b.IsNil() {
				return d.at("nil vs non-nil %v", a.Type())
			}
			return ""
		}
		k := c21Pair{a.Pointer(), b.Pointer()}
		if d.seen[k] {
			return ""
		}
		d.seen[k] = true
		return d.diff(a.Elem(), b.Elem())
	case reflect.Interface:
		if a.IsNil() || b.IsNil() {
			if a.IsNil() != b.IsNil() {
				return d.at("nil vs non-nil interface (%v / %v)", c21Dyn(a), c21Dyn(b))
			}
			return ""
		}
		if a.Elem().Type() != b.Elem().Type() {
			return d.at("dynamic type %v vs %v", a.Elem().Type(), b.Elem().Type())
		}
		return d.sub(".("+a.Elem().Type().String()+")", a.Elem(), b.Elem())
	case reflect.Struct:
		for i := 0; i < a.NumField(); i++ {
			if r := d.sub("."+a.Type().Field(i).Name, a.Field(i), b.Field(i)); r != "" {
				return r
			}
		}
		return ""
	case reflect.Slice:
		if a.IsNil() != b.IsNil() {
			return d.at("nil vs empty slice")
		}
		fallthrough
	case reflect.Array:
		if a.Len() != b.Len() {
			return d.at("len %d vs %d", a.Len(), b.Len())
		}
		for i := 0; i < a.Len(); i++ {
			if r := d.sub("["+strconv.Itoa(i)+"]", a.Index(i), b.Index(i)); r != "" {
				return r
			}
		}
		return ""
	case reflect.Map:
		if a.IsNil() != b.IsNil() || a.Len() != b.Len() {
			return d.at("map len %d vs %d", a.Len(), b.Len())
		}
		for _, k := range a.MapKeys() {
			bv := b.MapIndex(k)
			if !bv.IsValid() {
				return d.at("key %v missing on one side", k)
			}
			if r := d.sub(fmt.Sprintf("[%v]", k), a.MapIndex(k), bv); r != "" {
				return r
			}
		}
		return ""
	case reflect.Func:
		if a.IsNil() != b.IsNil() {
			return d.at("func nil vs non-nil")
		}
		return ""
	case reflect.String:
		if a.String() != b.String() {
			return d.at("%q vs %q", a.String(), b.String())
		}
		return ""
	case reflect.Int, reflect.Int8, reflect.Int16, reflect.Int32, reflect.Int64:
		if a.Int() != b.Int() {
			return d.at("%d vs %d", a.Int(), b.Int())
		}
		return ""
	case reflect.Uint, reflect.Uint8, reflect.Uint16, reflect.Uint32, reflect.Uint64, reflect.Uintptr:
		if a.Uint() != b.Uint() {
			return d.at("%d vs %d", a.Uint(), b.Uint())
		}
		return ""
	case reflect.Bool:
		if a.Bool() != b.Bool() {
			return d.at("%v vs %v", a.Bool(), b.Bool())
		}
		return ""
	default:
		if !reflect.DeepEqual(a.Interface(), b.Interface()) {
			return d.at("%v vs %v", a.Interface(), b.Interface())
		}
		return ""
	}
}

func c21Dyn(v reflect.Value) string {
	if v.IsNil() {
		return "nil"
	}
	return v.Elem().Type().String()
}

func c21DiffAny(a, b any, path string) string {
	d := &c21Differ{seen: map[c21Pair]bool{}, path: []string{path}}
	return d.diff(reflect.ValueOf(a), reflect.ValueOf(b))
}

// ---------------------------------------------------------------------------

type c21Err struct {
	Off, Line, Col int
	Msg            string
}

type c21Out struct {
	file *goast.File
	expr goast.Expr
	errs []c21Err
	raw  error
}

func c21Errs(err error) []c21Err {
	if err == nil {
		return nil
	}
	if el, ok := err.(goscanner.ErrorList); ok {
		if len(el) == 0 {
			return []c21Err{{-1, -1, -1, "non-nil but empty ErrorList"}}
		}
		out := make([]c21Err, len(el))
		for i, e := range el {
			out[i] = c21Err{e.Pos.Offset, e.Pos.Line, e.Pos.Column, e.Pos.Filename + "|" + e.Msg}
		}
		return out
	}
	return []c21Err{{-1, -1, -1, "non-ErrorList: " + err.Error()}}
}

func c21MkOut(f *goast.File, x goast.Expr, err error) c21Out {
	return c21Out{file: f, expr: x, errs: c21Errs(err), raw: err}
}

// c21SameOut compares two complete results.
func c21SameOut(x, y c21Out) string {
	if d := c21DiffAny(x.errs, y.errs, "errors"); d != "" {
		return d
	}
	if d := c21DiffAny(x.file, y.file, "File"); d != "" {
		return d
	}
	return c21DiffAny(&x.expr, &y.expr, "Expr")
}

const c21Name = "in.gno"

type c21TokEv struct {
	tok gotoken.Token
	lev int
}

// c21ScanAll is the independent token stream: what go/scanner yields for src
// (the parser always scans comments and drops them itself without
// ParseComments).
func c21ScanAll(src []byte) []gotoken.Token {
	fset := gotoken.NewFileSet()
	file := fset.AddFile(c21Name, -1, len(src))
	var sc goscanner.Scanner
	sc.Init(file, src, func(gotoken.Position, string) {}, goscanner.ScanComments)
	var out []gotoken.Token
	for {
		_, tok, _ := sc.Scan()
		out = append(out, tok)
		if tok == gotoken.EOF {
			break
		}
	}
	return out
}

// c21InitPrefix is the number of leading tokens parser.init consumes before
// ParseFile2 installs the callback: the leading comments and the first
// non-comment token.
func c21InitPrefix(all []gotoken.Token) int {
	i := 0
	for i < len(all) && all[i] == gotoken.COMMENT {
		i++
	}
	if i < len(all) {
		i++
	}
	return i
}

// c21CheckStream checks the callback's token stream against the scanner's.
func c21CheckStream(evs []c21TokEv, want []gotoken.Token) (full bool, err error) {
	if len(evs) > len(want) {
		// the parser keeps calling next() at EOF; further EOFs are fine
		for _, e := range evs[len(want):] {
			if e.tok != gotoken.EOF {
				return false, fmt.Errorf("callback saw %d tokens, scanner yields %d; extra non-EOF token %v", len(evs), len(want), e.tok)
			}
		}
		evs = evs[:len(want)]
	}
	for i, e := range evs {
		if e.tok != want[i] {
			return false, fmt.Errorf("callback token #%d = %v, scanner says %v", i, e.tok, want[i])
		}
		if e.lev < 0 {
			return false, fmt.Errorf("callback token #%d has negative nesting level %d", i, e.lev)
		}
	}
	return len(evs) == len(want), nil
}

func c21Exec(ctx *vk.Ctx, c c21Case) error {
	src, err := c21Source(c)
	if err != nil {
		return err
	}
	if len(src) > 1_000_000 {
		src = src[:1_000_000]
	}
	mode := c21Modes[c21Abs(c.Mode)%len(c21Modes)]
	ctx.Class(fmt.Sprintf("mode=%d", c21Abs(c.Mode)%len(c21Modes)))
	for _, m := range c.Muts {
		ctx.Class("op=" + c21OpNames[c21Abs(m.Op)%c21NumOps])
	}
	ctx.ClassIf(c.Expr, "expr")
	ctx.ClassIf(len(c.Muts) == 0, "unmutated")
	kind := c.Seed
	if i := strings.IndexByte(kind, ':'); i > 0 {
		kind = kind[:i]
	}
	ctx.Class("seed=" + kind)
	if len(src) <= 400 {
		ctx.Note("src", string(src))
	} else {
		ctx.Note("src-head", string(src[:400]))
	}

	var evs []c21TokEv
	cb := func(tok gotoken.Token, lev int) { evs = append(evs, c21TokEv{tok, lev}) }

	// (1)+(2): the fork, three ways. A panic here is caught by the kit.
	var f1, f2, f3, ra, rb c21Out
	if c.Expr {
		x, e := fork.ParseExprFrom(gotoken.NewFileSet(), c21Name, src, fork.Mode(mode))
		f1 = c21MkOut(nil, x, e)
		x, e = fork.ParseExprFrom2(gotoken.NewFileSet(), c21Name, src, fork.Mode(mode), nil)
		f2 = c21MkOut(nil, x, e)
		x, e = fork.ParseExprFrom2(gotoken.NewFileSet(), c21Name, src, fork.Mode(mode), cb)
		f3 = c21MkOut(nil, x, e)
		x, e = goparser.ParseExprFrom(gotoken.NewFileSet(), c21Name, src, mode)
		ra = c21MkOut(nil, x, e)
		x, e = go123.ParseExprFrom(gotoken.NewFileSet(), c21Name, src, go123.Mode(mode))
		rb = c21MkOut(nil, x, e)
	} else {
		f, e := fork.ParseFile(gotoken.NewFileSet(), c21Name, src, fork.Mode(mode))
		f1 = c21MkOut(f, nil, e)
		f, e = fork.ParseFile2(gotoken.NewFileSet(), c21Name, src, fork.Mode(mode), nil)
		f2 = c21MkOut(f, nil, e)
		f, e = fork.ParseFile2(gotoken.NewFileSet(), c21Name, src, fork.Mode(mode), cb)
		f3 = c21MkOut(f, nil, e)
		f, e = goparser.ParseFile(gotoken.NewFileSet(), c21Name, src, mode)
		ra = c21MkOut(f, nil, e)
		f, e = go123.ParseFile(gotoken.NewFileSet(), c21Name, src, go123.Mode(mode))
		rb = c21MkOut(f, nil, e)
	}
	what := "ParseFile vs ParseFile2"
	if c.Expr {
		what = "ParseExprFrom vs ParseExprFrom2"
	}
	if d := c21SameOut(f1, f2); d != "" {
		return fmt.Errorf("%s(nil callback) differ: %s\nsrc: %q", what, d, c21Clip(src))
	}
	if d := c21SameOut(f1, f3); d != "" {
		return fmt.Errorf("%s(counting callback) differ: %s\nsrc: %q", what, d, c21Clip(src))
	}
	// callback stream vs independent scanner
	// The documented contract is "called at each new token". Today parser.init
	// reads the first token (and leading comments) before ParseFile2 installs
	// the callback, so the stream starts after that prefix; a stream that
	// includes the prefix is accepted as well.
	all := c21ScanAll(src)
	full, serr := c21CheckStream(evs, all[c21InitPrefix(all):])
	if serr != nil {
		var serr2 error
		if full, serr2 = c21CheckStream(evs, all); serr2 != nil {
			return fmt.Errorf("%v\nsrc: %q", serr, c21Clip(src))
		}
	}
	want := all
	ctx.ClassIf(full, "callback-saw-all-tokens")
	ctx.ClassIf(!full, "callback-stopped-early")
	if !full && !c.Expr && mode&(goparser.ImportsOnly|goparser.PackageClauseOnly) == 0 && mode&goparser.AllErrors != 0 && f1.file != nil && f1.file.Name != nil && f1.file.Name.Name != "" && f1.file.Name.Name != "_" {
		// with AllErrors the only early exits are a bad package clause and the nesting limit
		nest := false
		for _, e := range f1.errs {
			if strings.Contains(e.Msg, "exceeded max nesting depth") {
				nest = true
			}
		}
		if !nest && len(f1.errs) == 0 {
			return fmt.Errorf("error-free full parse consumed only %d of %d tokens\nsrc: %q", len(evs), len(want), c21Clip(src))
		}
	}

	nd := 0
	if f1.file != nil {
		nd = len(f1.file.Decls)
	}
	ctx.NTIf(nd >= 1 || len(f1.errs) >= 1 || (c.Expr && f1.expr != nil))
	ctx.ClassIf(len(f1.errs) == 0, "no-errors")
	ctx.ClassIf(len(f1.errs) > 0, "has-errors")
	ctx.ClassIf(nd >= 1, "has-decls")

	if kind == "gram" || kind == "comp" {
		ctx.ClassIf(len(c.Muts) == 0 && len(ra.errs) == 0, kind+"-unmutated-valid")
		ctx.ClassIf(len(c.Muts) == 0 && len(ra.errs) > 0, kind+"-unmutated-invalid")
		c21ContextClasses(ctx, ra.file)
	}

	// (3) the two references
	dA, dB, dAB := c21SameOut(f1, ra), c21SameOut(f1, rb), c21SameOut(ra, rb)
	if dAB == "" {
		ctx.Class("refs-agree")
		if dA != "" {
			return fmt.Errorf("go/parser 1.25.9 and 1.23.5 agree, the fork differs: %s\nsrc: %q", dA, c21Clip(src))
		}
		return nil
	}
	ctx.Class("refs-drift")
	if dA == "" {
		ctx.Class("drift-fork-equals-1.25")
		return nil
	}
	if dB == "" {
		ctx.Class("drift-fork-equals-1.23")
		return nil
	}
	// component-wise
	double := false
	check := func(name string, f, a, b any) error {
		ab := c21DiffAny(a, b, name)
		fa := c21DiffAny(f, a, name)
		if ab == "" {
			if fa != "" {
				return fmt.Errorf("component %s: both references agree, the fork differs: %s\nsrc: %q", name, fa, c21Clip(src))
			}
			return nil
		}
		if fa == "" || c21DiffAny(f, b, name) == "" {
			return nil
		}
		double = true
		return nil
	}
	if c.Expr {
		if err := check("Expr", &f1.expr, &ra.expr, &rb.expr); err != nil {
			return err
		}
	} else {
		ff, fa, fb := f1.file, ra.file, rb.file
		if (ff == nil) != (fa == nil) || (fa == nil) != (fb == nil) {
			return fmt.Errorf("nil-ness of the returned file differs: fork %v, 1.25 %v, 1.23 %v", ff == nil, fa == nil, fb == nil)
		}
		if ff != nil {
			for _, k := range []struct {
				n       string
				f, a, b any
			}{
				{"Doc", ff.Doc, fa.Doc, fb.Doc}, {"Package", ff.Package, fa.Package, fb.Package}, {"Name", ff.Name, fa.Name, fb.Name},
				{"Imports", ff.Imports, fa.Imports, fb.Imports}, {"Comments", ff.Comments, fa.Comments, fb.Comments},
				{"Unresolved", ff.Unresolved, fa.Unresolved, fb.Unresolved}, {"Scope", ff.Scope, fa.Scope, fb.Scope},
				{"FileStart", ff.FileStart, fa.FileStart, fb.FileStart}, {"FileEnd", ff.FileEnd, fa.FileEnd, fb.FileEnd},
				{"GoVersion", ff.GoVersion, fa.GoVersion, fb.GoVersion},
			} {
				if err := check(k.n, k.f, k.a, k.b); err != nil {
					return err
				}
			}
			if len(ff.Decls) == len(fa.Decls) && len(fa.Decls) == len(fb.Decls) {
				for i := range ff.Decls {
					if err := check(fmt.Sprintf("Decls[%d]", i), &ff.Decls[i], &fa.Decls[i], &fb.Decls[i]); err != nil {
						return err
					}
				}
			} else if err := check("Decls", ff.Decls, fa.Decls, fb.Decls); err != nil {
				return err
			}
		}
	}
	// errors: as a whole, else each fork error must be known to a reference
	if c21DiffAny(f1.errs, ra.errs, "") != "" && c21DiffAny(f1.errs, rb.errs, "") != "" {
		if c21DiffAny(ra.errs, rb.errs, "") == "" {
			return fmt.Errorf("error lists: both references agree, the fork differs: %s\nsrc: %q", c21DiffAny(f1.errs, ra.errs, "errors"), c21Clip(src))
		}
		known := map[c21Err]bool{}
		for _, e := range ra.errs {
			known[e] = true
		}
		for _, e := range rb.errs {
			known[e] = true
		}
		for _, e := range f1.errs {
			if !known[e] {
				double = true
			}
		}
	}
	if double {
		ctx.Class("double-drift")
	} else {
		ctx.Class("drift-componentwise-ok")
	}
	return nil
}

func c21Clip(b []byte) string {
	if len(b) > 1200 {
		return string(b[:1200]) + "…"
	}
	return string(b)
}

const c21Rule = "a seed (one of ~4000 .gno files of gnovm/tests/files and examples, the fork's testdata, ~600 string literals of the fork's copied Go tests, ~90 hand-written snippets around the 1.23/1.24/1.25 parser changes, raw bytes, or (2 in 7) a file written by a recursive grammar-directed generator: 1-3 top-level declarations with every statement, expression and type form nested in each other up to a node budget of 20-250, ~97% syntactically valid, composite literals of named types in control clause headers parenthesised except in 12%), optionally cut to a window of top-level declarations (or a token window parsed as an expression), 0-4 token-level mutations (delete, duplicate, swap, replace/insert from a vocabulary of punctuation, keywords, literals, comments, //line directives and illegal bytes, wrap in 1..1500 brackets, delete range, change whitespace, truncate, corrupt a token; generated files: none in half of the cases, else 0-2) and one of 10 parser modes; non-trivial = the fork returns >=1 declaration or >=1 error (or an expression)"

func c21DrawMuts(rt *rapid.T, max int) []c21Mut {
	n := rapid.IntRange(0, max).Draw(rt, "nmut")
	out := make([]c21Mut, n)
	for i := range out {
		out[i] = c21Mut{
			Op: rapid.IntRange(0, c21NumOps-1).Draw(rt, "op"),
			I:  rapid.IntRange(0, 4000).Draw(rt, "i"),
			J:  rapid.IntRange(0, 4000).Draw(rt, "j"),
			K:  rapid.IntRange(0, 255).Draw(rt, "k"),
		}
	}
	return out
}

func TestC21_Parser(t *testing.T) {
	seeds := c21GetSeeds()
	if len(seeds.keys) < 1000 {
		t.Fatalf("only %d seeds found under %s", len(seeds.keys), seeds.root)
	}
	var small []string // literal and hand-written seeds get extra weight
	for _, k := range seeds.keys {
		if !strings.HasPrefix(k, "file:") {
			small = append(small, k)
		}
	}
	vk.Run(t, vk.Spec[c21Case]{
		ID: "C21", Name: "TestC21_Parser", Rule: c21Rule,
		Draw: func(rt *rapid.T) c21Case {
			var c c21Case
			gram := false
			switch rapid.IntRange(0, 13).Draw(rt, "kind") {
			case 0:
				c.Seed = "raw"
				pre := rapid.SampledFrom([]string{"", "package p\n", "package p; func f() { ", "package p; var _ = "}).Draw(rt, "prefix")
				c.Raw = append([]byte(pre), rapid.SliceOfN(rapid.Byte(), 0, 40).Draw(rt, "raw")...)
			case 10, 11, 12, 13:
				c.Seed = "gram"
				c.Raw = c21Gram(rt)
				gram = true
			case 1, 2, 3:
				c.Seed = small[rapid.IntRange(0, len(small)-1).Draw(rt, "small")]
			default:
				c.Seed = seeds.keys[rapid.IntRange(0, len(seeds.keys)-1).Draw(rt, "seed")]
			}
			c.Mode = rapid.SampledFrom([]int{0, 0, 0, 1, 2, 3, 4, 4, 5, 6, 7, 8, 9}).Draw(rt, "mode")
			if gram {
				// generated files: whole, in a full-parse mode, undamaged in half of the cases
				c.Mode = rapid.SampledFrom([]int{0, 0, 0, 1, 2, 3, 4, 4, 5, 6}).Draw(rt, "gmode")
				if rapid.IntRange(0, 1).Draw(rt, "damage") == 1 {
					c.Muts = c21DrawMuts(rt, 2)
				}
				return c
			}
			if rapid.IntRange(0, 9).Draw(rt, "expr") == 0 {
				c.Expr = true
				c.Win = [2]int{rapid.IntRange(0, 4000).Draw(rt, "ws"), rapid.IntRange(0, 39).Draw(rt, "wl")}
			} else if rapid.IntRange(0, 2).Draw(rt, "window") > 0 {
				c.Win = [2]int{rapid.IntRange(0, 200).Draw(rt, "ws"), rapid.IntRange(1, 3).Draw(rt, "wl")}
			}
			c.Muts = c21DrawMuts(rt, 4)
			return c
		},
		Exec: c21Exec,
	})
}

// TestC21_Corpus parses every seed unmodified in the mode gno uses and in
// AllErrors mode (exhaustive over the corpus), and a few fixed extreme inputs
// (nesting beyond the parser's limit).
func TestC21_Corpus(t *testing.T) {
	if vk.Replaying() {
		t.Skip()
	}
	seeds := c21GetSeeds()
	r := vk.Open(t, "C21", "TestC21_Corpus", "thorough: every seed unmodified x {gno's mode, AllErrors+comments}, every hand-written and literal seed in all 10 modes, 5 inputs nested beyond the 1e5 limit; quick: 1/24 of the files (rotating with the seed), literals in 2 modes, hand-written seeds in all modes, 1 nesting input; "+c21Rule)
	defer r.Close()
	r.ReplayAs = "TestC21_Parser"
	n := 0
	thorough := r.Thorough()
	for idx, k := range seeds.keys {
		modes := []int{0, 4}
		if !strings.HasPrefix(k, "file:") {
			modes = []int{0, 1, 2, 3, 4, 5, 6, 7, 8, 9}
			if !thorough && strings.HasPrefix(k, "lit:") {
				modes = []int{0, 1 + idx%9}
			}
		} else if !thorough {
			// quick tier: a rotating 1/24 of the files, gno's mode only
			if uint64(idx)%24 != r.Seed%24 {
				continue
			}
			modes = []int{0}
		}
		for _, m := range modes {
			c := c21Case{Seed: k, Mode: m}
			if r.Do(c, func(ctx *vk.Ctx) error { return c21Exec(ctx, c) }) != nil {
				return
			}
			n++
		}
	}
	// nesting limit (maxNestLev = 1e5 in all three parsers)
	deep := []string{
		"package p; var _ = " + strings.Repeat("(", 100001) + "x" + strings.Repeat(")", 100001),
		"package p; func f() { " + strings.Repeat("{", 100001) + strings.Repeat("}", 100001) + " }",
		"package p; var _ = " + strings.Repeat("[]", 100002) + "int{}",
		"package p; var _ = " + strings.Repeat("-", 100002) + "x",
		"package p; type T " + strings.Repeat("*", 100002) + "int",
	}
	if !thorough {
		deep = deep[:1]
	}
	for _, raw := range deep {
		c := c21Case{Seed: "raw", Raw: []byte(raw), Mode: 4}
		if r.Do(c, func(ctx *vk.Ctx) error { return c21Exec(ctx, c) }) != nil {
			return
		}
		n++
	}
	r.Extra("seeds", len(seeds.keys))
	r.Extra("corpus_cases", n)
	r.Extra("exhaustive", false)
}
