//go:build verif

package float

import (
	"fmt"
	"math"
	"strconv"
	"strings"
	"testing"

	"pgregory.net/rapid"
	"verif/vk"
)

// C05 VM layer: the same operations through Gno source on the real GnoVM.
// Operands enter the program as integer table entries turned into floats by
// math.Float64frombits / math.Float32frombits at run time (nothing is a Gno
// constant expression, so the preprocessor's big-decimal constant folding is
// not what is measured); results leave through math.Float64bits/Float32bits.

type c05Conv struct {
	From string `json:"from"` // float64 float32 int int8 ... uint64
	To   string `json:"to"`
	X    uint64 `json:"x"` // float bits, or the integer in two's complement
}

type c05VMCase struct {
	Kind  string      `json:"kind"` // arith64 | arith32 | conv
	Pairs [][2]uint64 `json:"pairs,omitempty"`
	Convs []c05Conv   `json:"convs,omitempty"`
}

var c05IntTypes = []string{"int", "int8", "int16", "int32", "int64", "uint", "uint8", "uint16", "uint32", "uint64"}

func c05intRange(typ string) (lo, hi float64, bits uint, signed bool) { // [lo, hi)
	switch typ {
	case "int8":
		return -128, 128, 8, true
	case "int16":
		return -32768, 32768, 16, true
	case "int32":
		return -c05p31, c05p31, 32, true
	case "int", "int64":
		return -c05p63, c05p63, 64, true
	case "uint8":
		return 0, 256, 8, false
	case "uint16":
		return 0, 65536, 16, false
	case "uint32":
		return 0, 4294967296, 32, false
	}
	return 0, c05p64, 64, false
}

func c05renderArith(c c05VMCase) string {
	var sb strings.Builder
	sb.WriteString("package main\n\nimport \"math\"\n\nvar tbl = []uint64{")
	for i, p := range c.Pairs {
		if i > 0 {
			sb.WriteString(", ")
		}
		fmt.Fprintf(&sb, "%#x, %#x", p[0], p[1])
	}
	sb.WriteString("}\n\nfunc main() {\n\tfor i := 0; i < len(tbl); i += 2 {\n")
	if c.Kind == "arith64" {
		sb.WriteString("\t\ta := math.Float64frombits(tbl[i])\n\t\tb := math.Float64frombits(tbl[i+1])\n")
	} else {
		sb.WriteString("\t\ta := math.Float32frombits(uint32(tbl[i]))\n\t\tb := math.Float32frombits(uint32(tbl[i+1]))\n")
	}
	sb.WriteString("\t\tc := a\n\t\tc += b\n\t\td := a\n\t\td -= b\n\t\te := a\n\t\te *= b\n\t\tf := a\n\t\tf /= b\n\t\tg := a\n\t\tg++\n\t\th := a\n\t\th--\n")
	bits := "math.Float64bits"
	if c.Kind == "arith32" {
		bits = "math.Float32bits"
	}
	sb.WriteString("\t\tprintln(")
	for _, e := range []string{"a + b", "a - b", "a * b", "a / b", "-a", "c", "d", "e", "f", "g", "h", "+a"} {
		fmt.Fprintf(&sb, "%s(%s), ", bits, e)
	}
	if c.Kind == "arith64" {
		sb.WriteString("math.Float32bits(float32(a)), ")
	} else {
		sb.WriteString("math.Float64bits(float64(a)), ")
	}
	sb.WriteString("a == b, a != b, a < b, a <= b, a > b, a >= b)\n")
	sb.WriteString("\t}\n}\n")
	return sb.String()
}

func c05expectArith(c c05VMCase, p [2]uint64) (vals []uint64, nan []bool, bools []bool, fl uint32) {
	if c.Kind == "arith64" {
		a, b := math.Float64frombits(p[0]), math.Float64frombits(p[1])
		one := c05hI64to64(1)
		fs := []float64{c05hAdd64(a, b), c05hSub64(a, b), c05hMul64(a, b), c05hDiv64(a, b), c05hNeg64(a),
			c05hAdd64(a, b), c05hSub64(a, b), c05hMul64(a, b), c05hDiv64(a, b), c05hAdd64(a, one), c05hSub64(a, one), a}
		for _, f := range fs {
			vals = append(vals, math.Float64bits(f))
			nan = append(nan, f != f)
			fl |= c05cls64(math.Float64bits(f)) << 4
		}
		n := c05h64to32(a)
		vals = append(vals, uint64(math.Float32bits(n)))
		nan = append(nan, n != n)
		bools = []bool{a == b, a != b, a < b, a <= b, a > b, a >= b}
		fl |= c05cls64(p[0]) | c05cls64(p[1]) | c05cls32(math.Float32bits(n))<<4
		return
	}
	a, b := math.Float32frombits(uint32(p[0])), math.Float32frombits(uint32(p[1]))
	one := c05hI64to32(1)
	fs := []float32{c05hAdd32(a, b), c05hSub32(a, b), c05hMul32(a, b), c05hDiv32(a, b), c05hNeg32(a),
		c05hAdd32(a, b), c05hSub32(a, b), c05hMul32(a, b), c05hDiv32(a, b), c05hAdd32(a, one), c05hSub32(a, one), a}
	for _, f := range fs {
		vals = append(vals, uint64(math.Float32bits(f)))
		nan = append(nan, f != f)
		fl |= c05cls32(math.Float32bits(f)) << 4
	}
	w := c05h32to64(a)
	vals = append(vals, math.Float64bits(w))
	nan = append(nan, w != w)
	bools = []bool{a == b, a != b, a < b, a <= b, a > b, a >= b}
	fl |= c05cls32(uint32(p[0])) | c05cls32(uint32(p[1]))
	return
}

var c05Specials64 = []uint64{0, 1 << 63, 0x7ff0000000000000, 0xfff0000000000000, 0x7ff8000000000000, 0x7ff0000000000001, 0xfff8000000000123,
	1, 1<<63 | 1, 1<<52 - 1, 1 << 52, 0x7fefffffffffffff, 0xffefffffffffffff, 0x3ff0000000000000, 0xbff0000000000000, 0x3ff0000000000001, 0x3fefffffffffffff}

var c05Specials32 = []uint64{0, 1 << 31, 0x7f800000, 0xff800000, 0x7fc00000, 0x7f800001, 0xffc00123,
	1, 1<<31 | 1, 1<<23 - 1, 1 << 23, 0x7f7fffff, 0xff7fffff, 0x3f800000, 0xbf800000, 0x3f800001, 0x3f7fffff}

var c05arithNames = []string{"a+b", "a-b", "a*b", "a/b", "-a", "a+=b", "a-=b", "a*=b", "a/=b", "a++", "a--", "+a", "width conversion"}
var c05cmpNames = []string{"a==b", "a!=b", "a<b", "a<=b", "a>b", "a>=b"}

func c05renderConv(c c05VMCase) string {
	var sb strings.Builder
	sb.WriteString("package main\n\nimport \"math\"\n\nvar iv = []int64{")
	for i, k := range c.Convs {
		if i > 0 {
			sb.WriteString(", ")
		}
		if k.From[0] == 'i' {
			fmt.Fprintf(&sb, "%d", int64(k.X))
		} else {
			sb.WriteString("0")
		}
	}
	sb.WriteString("}\n\nvar uv = []uint64{")
	for i, k := range c.Convs {
		if i > 0 {
			sb.WriteString(", ")
		}
		fmt.Fprintf(&sb, "%#x", k.X)
	}
	sb.WriteString("}\n\nfunc main() {\n")
	for i, k := range c.Convs {
		var src string
		switch {
		case k.From == "float64":
			src = fmt.Sprintf("math.Float64frombits(uv[%d])", i)
		case k.From == "float32":
			src = fmt.Sprintf("math.Float32frombits(uint32(uv[%d]))", i)
		case k.From[0] == 'i':
			src = fmt.Sprintf("%s(iv[%d])", k.From, i)
		default:
			src = fmt.Sprintf("%s(uv[%d])", k.From, i)
		}
		fmt.Fprintf(&sb, "\t{\n\t\tv := %s\n", src)
		switch k.To {
		case "float64":
			sb.WriteString("\t\tprintln(math.Float64bits(float64(v)))\n")
		case "float32":
			sb.WriteString("\t\tprintln(math.Float32bits(float32(v)))\n")
		default:
			fmt.Fprintf(&sb, "\t\tprintln(%s(v))\n", k.To)
		}
		sb.WriteString("\t}\n")
	}
	sb.WriteString("}\n")
	return sb.String()
}

// c05expectConv returns the expected printed line; ok=false when the operand is outside the conversion's domain.
func c05expectConv(k c05Conv) (want string, isNaN bool, special bool, ok bool) {
	isFloat := func(s string) bool { return s == "float64" || s == "float32" }
	switch {
	case isFloat(k.From) && isFloat(k.To):
		if k.From == "float64" {
			f := math.Float64frombits(k.X)
			if k.To == "float64" {
				return strconv.FormatUint(k.X, 10), f != f, c05cls64(k.X) != 0, true
			}
			n := c05h64to32(f)
			return strconv.FormatUint(uint64(math.Float32bits(n)), 10), n != n, c05cls64(k.X) != 0 || c05cls32(math.Float32bits(n)) != 0, true
		}
		f := math.Float32frombits(uint32(k.X))
		if k.To == "float32" {
			return strconv.FormatUint(uint64(uint32(k.X)), 10), f != f, c05cls32(uint32(k.X)) != 0, true
		}
		w := c05h32to64(f)
		return strconv.FormatUint(math.Float64bits(w), 10), w != w, c05cls32(uint32(k.X)) != 0, true
	case isFloat(k.From): // float -> integer, in range only
		var f float64
		if k.From == "float64" {
			f = math.Float64frombits(k.X)
		} else {
			f = float64(math.Float32frombits(uint32(k.X)))
		}
		lo, hi, _, signed := c05intRange(k.To)
		if !c05inRangeF64(f, lo, hi) {
			return "", false, false, false
		}
		t := math.Trunc(f)
		edge := t == lo || t+1 == hi || t == 0 || f != t
		if signed {
			// in range, so every width agrees with the 64-bit truncation
			if k.From == "float64" {
				return strconv.FormatInt(c05hF64toI64(f), 10), false, edge, true
			}
			return strconv.FormatInt(c05hF32toI64(math.Float32frombits(uint32(k.X))), 10), false, edge, true
		}
		if k.From == "float64" {
			return strconv.FormatUint(c05hF64toU64(f), 10), false, edge, true
		}
		return strconv.FormatUint(c05hF32toU64(math.Float32frombits(uint32(k.X))), 10), false, edge, true
	default: // integer -> float
		_, _, bits, signed := c05intRange(k.From)
		var f64 float64
		var f32 float32
		if signed {
			v := int64(k.X) << (64 - bits) >> (64 - bits)
			f64, f32 = c05hI64to64(v), c05hI64to32(v)
			special = int64(f64) != v || int64(f32) != v || f32 == c05p63
		} else {
			v := k.X << (64 - bits) >> (64 - bits)
			f64, f32 = c05hU64to64(v), c05hU64to32(v)
			special = f32 == c05p64 || f64 == c05p64 || uint64(f64) != v || uint64(f32) != v
		}
		if k.To == "float64" {
			return strconv.FormatUint(math.Float64bits(f64), 10), false, special, true
		}
		return strconv.FormatUint(uint64(math.Float32bits(f32)), 10), false, special, true
	}
}

func c05VMExec(ctx *vk.Ctx, c c05VMCase) error {
	vm, err := c05GetVM()
	if err != nil {
		return fmt.Errorf("cannot bring up the GnoVM: %v", err)
	}
	ctx.Class(c.Kind)
	var src string
	if c.Kind == "conv" {
		if len(c.Convs) == 0 {
			return nil
		}
		src = c05renderConv(c)
	} else {
		if len(c.Pairs) == 0 {
			return nil
		}
		src = c05renderArith(c)
	}
	out, err := vm.Run(src)
	if err != nil {
		return fmt.Errorf("%v\nprogram:\n%s", err, src)
	}
	lines := strings.Split(out, "\n")
	if c.Kind == "conv" {
		if len(lines) != len(c.Convs) {
			return fmt.Errorf("program printed %d lines, want %d:\n%s\nprogram:\n%s", len(lines), len(c.Convs), out, src)
		}
		for i, k := range c.Convs {
			want, isNaN, special, ok := c05expectConv(k)
			if !ok {
				ctx.Class("conv-out-of-range-skipped")
				continue
			}
			ctx.Class("conv/" + k.From + "->" + k.To)
			ctx.NTIf(special)
			got := strings.TrimSpace(lines[i])
			if isNaN {
				u, perr := strconv.ParseUint(got, 10, 64)
				nan := perr == nil && ((k.To == "float64" && c05cls64(u) == c05fNaN) || (k.To == "float32" && c05cls32(uint32(u)) == c05fNaN))
				if !nan {
					return fmt.Errorf("GnoVM %s(%s %#x) printed %s, want a NaN", k.To, k.From, k.X, got)
				}
				continue
			}
			if got != want {
				return fmt.Errorf("GnoVM %s(%s %#x) printed %s, IEEE-754/Go semantics give %s", k.To, k.From, k.X, got, want)
			}
		}
		return nil
	}
	if len(lines) != len(c.Pairs) {
		return fmt.Errorf("program printed %d lines, want %d:\n%s\nprogram:\n%s", len(lines), len(c.Pairs), out, src)
	}
	for i, p := range c.Pairs {
		vals, nans, bools, fl := c05expectArith(c, p)
		ctx.NTIf(fl != 0)
		for j, n := range c05FlagNames {
			ctx.ClassIf(fl&(1<<j) != 0, "has-"+n)
		}
		f := strings.Fields(lines[i])
		if len(f) != len(vals)+len(bools) {
			return fmt.Errorf("line %d has %d fields, want %d: %q", i, len(f), len(vals)+len(bools), lines[i])
		}
		wide := c.Kind == "arith64"
		for j := range vals {
			got, perr := strconv.ParseUint(f[j], 10, 64)
			if perr != nil {
				return fmt.Errorf("line %d field %d: %v", i, j, perr)
			}
			resWide := wide
			if j == len(vals)-1 {
				resWide = !wide
			}
			okv := got == vals[j]
			if nans[j] {
				if resWide {
					okv = c05cls64(got) == c05fNaN
				} else {
					okv = c05cls32(uint32(got)) == c05fNaN
				}
			}
			if !okv {
				return fmt.Errorf("GnoVM %s: %s with a=%#x b=%#x gave bits %#x, IEEE-754 (host) %#x", c.Kind, c05arithNames[j], p[0], p[1], got, vals[j])
			}
		}
		for j, w := range bools {
			if f[len(vals)+j] != strconv.FormatBool(w) {
				return fmt.Errorf("GnoVM %s: %s with a=%#x b=%#x gave %s, IEEE-754 (host) %v", c.Kind, c05cmpNames[j], p[0], p[1], f[len(vals)+j], w)
			}
		}
	}
	return nil
}

func c05drawConv(rt *rapid.T, i int) c05Conv {
	l := fmt.Sprintf("c%d", i)
	r := c05rng(rapid.Uint64().Draw(rt, l+"stream"))
	switch rapid.IntRange(0, 3).Draw(rt, l+"dir") {
	case 0: // float -> float
		if rapid.Bool().Draw(rt, l+"narrow") {
			set := c05set("s64", c05Set64)
			var x uint64
			switch r.next() % 3 {
			case 0:
				x = set[r.next()%uint64(len(set))]
			case 1: // at a float32 rounding position
				w := math.Float64bits(float64(math.Float32frombits(uint32(r.next()))))
				x = w | []uint64{0, 1, 1<<28 - 1, 1 << 28, 1<<28 + 1, 1<<29 - 1}[r.next()%6]
			default:
				x = r.next()
			}
			return c05Conv{"float64", "float32", x}
		}
		set := c05set("s32", c05Set32)
		x := uint64(uint32(r.next()))
		if r.next()&1 == 0 {
			x = set[r.next()%uint64(len(set))]
		}
		return c05Conv{"float32", "float64", x}
	case 1: // integer -> float
		from := rapid.SampledFrom(c05IntTypes).Draw(rt, l+"from")
		to := rapid.SampledFrom([]string{"float32", "float64"}).Draw(rt, l+"to")
		ints := c05set("ints", c05Ints)
		_, _, bits, signed := c05intRange(from)
		var x uint64
		if r.next()&1 == 0 {
			x = ints[r.next()%uint64(len(ints))]
		} else {
			x = r.next() >> (r.next() % 64)
			if r.next()&1 == 0 {
				x = -x
			}
		}
		// bring into the source type's range by truncation to its width
		if signed {
			x = uint64(int64(x) << (64 - bits) >> (64 - bits))
		} else {
			x = x << (64 - bits) >> (64 - bits)
		}
		return c05Conv{from, to, x}
	default: // float -> integer, in range by construction
		from := rapid.SampledFrom([]string{"float32", "float64"}).Draw(rt, l+"from")
		to := rapid.SampledFrom(c05IntTypes).Draw(rt, l+"to")
		lo, hi, _, signed := c05intRange(to)
		ints := c05set("ints", c05Ints)
		var f float64
		switch r.next() % 8 {
		case 0:
			f = lo
		case 1:
			f = lo + float64(r.next()%3)
		case 2:
			f = math.Nextafter(hi, math.Inf(-1)) // largest float64 whose truncation is in range
		case 3:
			f = hi - 1 - float64(r.next()%3)
		case 4:
			f = float64(r.next()%3) - 1
		case 5:
			n := ints[r.next()%uint64(len(ints))]
			if signed {
				f = float64(int64(n))
			} else {
				f = float64(n)
			}
		default:
			f = float64(r.next() >> (r.next() % 64))
			if signed && r.next()&1 == 0 {
				f = -f
			}
		}
		switch r.next() % 6 {
		case 0:
			f += 0.5
		case 1:
			f -= 0.5
		case 2:
			f = math.Nextafter(f, math.Inf(1))
		case 3:
			f = math.Nextafter(f, math.Inf(-1))
		case 4:
			f += float64(r.next()%1000) / 1024
		}
		x := math.Float64bits(f)
		if from == "float32" {
			g := float32(f)
			f = float64(g)
			x = uint64(math.Float32bits(g))
		}
		if !c05inRangeF64(f, lo, hi) { // fall back to a value that is in range for every type
			f = float64(r.next() % 100)
			x = math.Float64bits(f)
			if from == "float32" {
				x = uint64(math.Float32bits(float32(f)))
			}
		}
		return c05Conv{from, to, x}
	}
}

func TestC05_VM(t *testing.T) {
	vk.Run(t, vk.Spec[c05VMCase]{
		ID: "C05", Name: "TestC05_VM",
		Rule: "rapid: Gno programs run on the real GnoVM (test.ProdStore, one transaction fork per program). arith64/arith32: 1-24 operand pairs (structured set and biased pair stream) through + - * / unary- += -= *= /= ++ -- == != < <= > >= and the width conversion, all on run-time values; conv: 1-24 conversions float64<->float32, every integer type -> float32/float64, float32/float64 -> every integer type with the truncated value in range by construction. Oracle = host FPU / Go conversion semantics, bits compared through math.Float64bits/Float32bits (NaN by class). Non-trivial = some operand or result is zero/subnormal/inf/NaN, a conversion rounds, truncates a fraction or sits at a bound of the target type.",
		Setup: func(r *vk.Rec) {
			if _, err := c05GetVM(); err != nil {
				t.Fatalf("GnoVM bring-up: %v", err)
			}
		},
		Draw: func(rt *rapid.T) c05VMCase {
			kind := rapid.SampledFrom([]string{"arith64", "arith64", "arith32", "arith32", "conv", "conv"}).Draw(rt, "kind")
			c := c05VMCase{Kind: kind}
			n := rapid.IntRange(1, 24).Draw(rt, "n")
			if kind == "conv" {
				for i := 0; i < n; i++ {
					c.Convs = append(c.Convs, c05drawConv(rt, i))
				}
				return c
			}
			for i := 0; i < n; i++ {
				l := fmt.Sprintf("p%d", i)
				var a, b uint64
				if rapid.IntRange(0, 4).Draw(rt, l+"special") == 0 { // the textbook special values, any with any
					sp := c05Specials64
					if kind == "arith32" {
						sp = c05Specials32
					}
					a = sp[rapid.IntRange(0, len(sp)-1).Draw(rt, l+"sa")]
					b = sp[rapid.IntRange(0, len(sp)-1).Draw(rt, l+"sb")]
					c.Pairs = append(c.Pairs, [2]uint64{a, b})
					continue
				}
				if kind == "arith64" {
					set := c05set("s64", c05Set64)
					if rapid.IntRange(0, 2).Draw(rt, l+"src") == 0 {
						a = set[rapid.IntRange(0, len(set)-1).Draw(rt, l+"a")]
						b = set[rapid.IntRange(0, len(set)-1).Draw(rt, l+"b")]
					} else {
						r := c05rng(rapid.Uint64().Draw(rt, l+"stream"))
						a, b = c05pair64(&r, set)
					}
				} else {
					set := c05set("s32", c05Set32)
					if rapid.IntRange(0, 2).Draw(rt, l+"src") == 0 {
						a = set[rapid.IntRange(0, len(set)-1).Draw(rt, l+"a")]
						b = set[rapid.IntRange(0, len(set)-1).Draw(rt, l+"b")]
					} else {
						r := c05rng(rapid.Uint64().Draw(rt, l+"stream"))
						a, b = c05pair32(&r, set)
					}
				}
				c.Pairs = append(c.Pairs, [2]uint64{a, b})
			}
			return c
		},
		Exec: c05VMExec,
	})
}
