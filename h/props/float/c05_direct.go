//go:build verif

package float

import (
	"fmt"
	"math"
	"sort"
	"sync"

	gno "github.com/gnolang/gno/gnovm/pkg/gnolang"
)

// C05 direct layer: the softfloat primitives (re-exported under the verif
// tag) against the host FPU. All operands reach the host operations through
// function parameters, so nothing is constant-folded; amd64 Go does not fuse
// these single operations.

// class flags of one evaluation
const (
	c05fNaN uint32 = 1 << iota
	c05fInf
	c05fZero
	c05fSub
	c05fResNaN
	c05fResInf
	c05fResZero
	c05fResSub
	c05fSkipped // operand outside the operation's domain (float->int out of range)
)

var c05FlagNames = []string{"operand-nan", "operand-inf", "operand-zero", "operand-subnormal", "result-nan", "result-inf", "result-zero", "result-subnormal", "out-of-range-skipped"}

func c05cls64(x uint64) uint32 {
	e := (x >> 52) & 0x7ff
	m := x & (1<<52 - 1)
	switch {
	case e == 0x7ff && m != 0:
		return c05fNaN
	case e == 0x7ff:
		return c05fInf
	case e == 0 && m == 0:
		return c05fZero
	case e == 0:
		return c05fSub
	}
	return 0
}

func c05cls32(x uint32) uint32 {
	e := (x >> 23) & 0xff
	m := x & (1<<23 - 1)
	switch {
	case e == 0xff && m != 0:
		return c05fNaN
	case e == 0xff:
		return c05fInf
	case e == 0 && m == 0:
		return c05fZero
	case e == 0:
		return c05fSub
	}
	return 0
}

func c05same64(got, want uint64) bool {
	if c05cls64(want) == c05fNaN {
		return c05cls64(got) == c05fNaN
	}
	return got == want
}

func c05same32(got, want uint32) bool {
	if c05cls32(want) == c05fNaN {
		return c05cls32(got) == c05fNaN
	}
	return got == want
}

type c05Fn func(a, b uint64) (flags uint32, bad string)

type c05OpInfo struct {
	Name   string
	Arity  int    // 1 or 2
	Domain string // "f64" "f32" "int" (operand interpretation)
	Fn     c05Fn
}

func c05bin64(name string, soft func(a, b uint64) uint64, host func(a, b float64) float64) c05OpInfo {
	return c05OpInfo{name, 2, "f64", func(a, b uint64) (uint32, string) {
		got := soft(a, b)
		want := math.Float64bits(host(math.Float64frombits(a), math.Float64frombits(b)))
		fl := c05cls64(a) | c05cls64(b) | c05cls64(want)<<4
		if !c05same64(got, want) {
			return fl, fmt.Sprintf("%s(%#016x, %#016x) = %#016x, IEEE-754 (host) %#016x", name, a, b, got, want)
		}
		return fl, ""
	}}
}

func c05bin32(name string, soft func(a, b uint32) uint32, host func(a, b float32) float32) c05OpInfo {
	return c05OpInfo{name, 2, "f32", func(a64, b64 uint64) (uint32, string) {
		a, b := uint32(a64), uint32(b64)
		got := soft(a, b)
		want := math.Float32bits(host(math.Float32frombits(a), math.Float32frombits(b)))
		fl := c05cls32(a) | c05cls32(b) | c05cls32(want)<<4
		if !c05same32(got, want) {
			return fl, fmt.Sprintf("%s(%#08x, %#08x) = %#08x, IEEE-754 (host) %#08x", name, a, b, got, want)
		}
		return fl, ""
	}}
}

//go:noinline
func c05hAdd64(a, b float64) float64 { return a + b }

//go:noinline
func c05hSub64(a, b float64) float64 { return a - b }

//go:noinline
func c05hMul64(a, b float64) float64 { return a * b }

//go:noinline
func c05hDiv64(a, b float64) float64 { return a / b }

//go:noinline
func c05hAdd32(a, b float32) float32 { return a + b }

//go:noinline
func c05hSub32(a, b float32) float32 { return a - b }

//go:noinline
func c05hMul32(a, b float32) float32 { return a * b }

//go:noinline
func c05hDiv32(a, b float32) float32 { return a / b }

//go:noinline
func c05hNeg64(a float64) float64 { return -a }

//go:noinline
func c05hNeg32(a float32) float32 { return -a }

//go:noinline
func c05h64to32(a float64) float32 { return float32(a) }

//go:noinline
func c05h32to64(a float32) float64 { return float64(a) }

func c05cmp64(a, b uint64) (uint32, string) {
	x, y := math.Float64frombits(a), math.Float64frombits(b)
	fl := c05cls64(a) | c05cls64(b)
	type r struct {
		n         string
		got, want bool
	}
	rs := [...]r{
		{"Feq64", gno.VerifFeq64(a, b), x == y},
		{"Fgt64", gno.VerifFgt64(a, b), x > y},
		{"Fge64", gno.VerifFge64(a, b), x >= y},
		{"Flt64", gno.VerifFlt64(a, b), x < y},
		{"Fle64", gno.VerifFle64(a, b), x <= y},
	}
	for _, k := range rs {
		if k.got != k.want {
			return fl, fmt.Sprintf("%s(%#016x, %#016x) = %v, IEEE-754 (host) %v", k.n, a, b, k.got, k.want)
		}
	}
	cmp, isnan := gno.VerifFcmp64(a, b)
	wantNaN := x != x || y != y
	if isnan != wantNaN {
		return fl, fmt.Sprintf("Fcmp64(%#016x, %#016x) isnan=%v, want %v", a, b, isnan, wantNaN)
	}
	if !wantNaN {
		var w int32
		if x < y {
			w = -1
		} else if x > y {
			w = 1
		}
		if cmp != w {
			return fl, fmt.Sprintf("Fcmp64(%#016x, %#016x) = %d, want %d", a, b, cmp, w)
		}
	}
	return fl, ""
}

func c05cmp32(a64, b64 uint64) (uint32, string) {
	a, b := uint32(a64), uint32(b64)
	x, y := math.Float32frombits(a), math.Float32frombits(b)
	fl := c05cls32(a) | c05cls32(b)
	type r struct {
		n         string
		got, want bool
	}
	rs := [...]r{
		{"Feq32", gno.VerifFeq32(a, b), x == y},
		{"Fgt32", gno.VerifFgt32(a, b), x > y},
		{"Fge32", gno.VerifFge32(a, b), x >= y},
		{"Flt32", gno.VerifFlt32(a, b), x < y},
		{"Fle32", gno.VerifFle32(a, b), x <= y},
	}
	for _, k := range rs {
		if k.got != k.want {
			return fl, fmt.Sprintf("%s(%#08x, %#08x) = %v, IEEE-754 (host) %v", k.n, a, b, k.got, k.want)
		}
	}
	return fl, ""
}

// in-range tests: the truncated value must be representable in the target.
func c05inRangeF64(x float64, lo, hi float64) bool { // lo inclusive, hi exclusive, both exact powers of two
	if x != x {
		return false
	}
	t := math.Trunc(x)
	return t >= lo && t < hi
}

func c05unaryF64toInt(name string, lo, hi float64, soft func(uint64) uint64, host func(float64) uint64) c05OpInfo {
	return c05OpInfo{name, 1, "f64", func(a, _ uint64) (uint32, string) {
		x := math.Float64frombits(a)
		fl := c05cls64(a)
		if !c05inRangeF64(x, lo, hi) {
			return fl | c05fSkipped, ""
		}
		got, want := soft(a), host(x)
		if want == 0 {
			fl |= c05fResZero
		}
		if got != want {
			return fl, fmt.Sprintf("%s(%#016x = %v) = %d, truncation gives %d", name, a, x, int64(got), int64(want))
		}
		return fl, ""
	}}
}

func c05unaryF32toInt(name string, lo, hi float64, soft func(uint32) uint64, host func(float32) uint64) c05OpInfo {
	return c05OpInfo{name, 1, "f32", func(a64, _ uint64) (uint32, string) {
		a := uint32(a64)
		x := math.Float32frombits(a)
		fl := c05cls32(a)
		if !c05inRangeF64(float64(x), lo, hi) {
			return fl | c05fSkipped, ""
		}
		got, want := soft(a), host(x)
		if want == 0 {
			fl |= c05fResZero
		}
		if got != want {
			return fl, fmt.Sprintf("%s(%#08x = %v) = %d, truncation gives %d", name, a, x, int64(got), int64(want))
		}
		return fl, ""
	}}
}

func c05intTo64(name string, soft func(uint64) uint64, host func(uint64) float64) c05OpInfo {
	return c05OpInfo{name, 1, "int", func(a, _ uint64) (uint32, string) {
		got, want := soft(a), math.Float64bits(host(a))
		if got != want {
			return 0, fmt.Sprintf("%s(%#x) = %#016x, correctly rounded %#016x", name, a, got, want)
		}
		return 0, ""
	}}
}

func c05intTo32(name string, soft func(uint64) uint32, host func(uint64) float32) c05OpInfo {
	return c05OpInfo{name, 1, "int", func(a, _ uint64) (uint32, string) {
		got, want := soft(a), math.Float32bits(host(a))
		if got != want {
			return 0, fmt.Sprintf("%s(%#x) = %#08x, correctly rounded %#08x", name, a, got, want)
		}
		return 0, ""
	}}
}

//go:noinline
func c05hI64to64(x int64) float64 { return float64(x) }

//go:noinline
func c05hI64to32(x int64) float32 { return float32(x) }

//go:noinline
func c05hI32to64(x int32) float64 { return float64(x) }

//go:noinline
func c05hI32to32(x int32) float32 { return float32(x) }

//go:noinline
func c05hU64to64(x uint64) float64 { return float64(x) }

//go:noinline
func c05hU64to32(x uint64) float32 { return float32(x) }

//go:noinline
func c05hF64toI64(x float64) int64 { return int64(x) }

//go:noinline
func c05hF64toI32(x float64) int32 { return int32(x) }

//go:noinline
func c05hF64toU64(x float64) uint64 { return uint64(x) }

//go:noinline
func c05hF32toI64(x float32) int64 { return int64(x) }

//go:noinline
func c05hF32toI32(x float32) int32 { return int32(x) }

//go:noinline
func c05hF32toU64(x float32) uint64 { return uint64(x) }

const (
	c05p31 = 2147483648.0
	c05p63 = 9223372036854775808.0
	c05p64 = 18446744073709551616.0
)

var c05Ops = func() map[string]c05OpInfo {
	l := []c05OpInfo{
		c05bin64("Fadd64", gno.VerifFadd64, c05hAdd64),
		c05bin64("Fsub64", gno.VerifFsub64, c05hSub64),
		c05bin64("Fmul64", gno.VerifFmul64, c05hMul64),
		c05bin64("Fdiv64", gno.VerifFdiv64, c05hDiv64),
		{"cmp64", 2, "f64", c05cmp64},
		c05bin32("Fadd32", gno.VerifFadd32, c05hAdd32),
		c05bin32("Fsub32", gno.VerifFsub32, c05hSub32),
		c05bin32("Fmul32", gno.VerifFmul32, c05hMul32),
		c05bin32("Fdiv32", gno.VerifFdiv32, c05hDiv32),
		{"cmp32", 2, "f32", c05cmp32},
		{"Fneg64", 1, "f64", func(a, _ uint64) (uint32, string) {
			got, want := gno.VerifFneg64(a), math.Float64bits(c05hNeg64(math.Float64frombits(a)))
			fl := c05cls64(a) | c05cls64(want)<<4
			if !c05same64(got, want) {
				return fl, fmt.Sprintf("Fneg64(%#016x) = %#016x, want %#016x", a, got, want)
			}
			// negation of a non-NaN must flip exactly the sign bit
			return fl, ""
		}},
		{"Fneg32", 1, "f32", func(a64, _ uint64) (uint32, string) {
			a := uint32(a64)
			got, want := gno.VerifFneg32(a), math.Float32bits(c05hNeg32(math.Float32frombits(a)))
			fl := c05cls32(a) | c05cls32(want)<<4
			if !c05same32(got, want) {
				return fl, fmt.Sprintf("Fneg32(%#08x) = %#08x, want %#08x", a, got, want)
			}
			return fl, ""
		}},
		{"F32to64", 1, "f32", func(a64, _ uint64) (uint32, string) {
			a := uint32(a64)
			got, want := gno.VerifF32to64(a), math.Float64bits(c05h32to64(math.Float32frombits(a)))
			fl := c05cls32(a) | c05cls64(want)<<4
			if !c05same64(got, want) {
				return fl, fmt.Sprintf("F32to64(%#08x) = %#016x, want %#016x", a, got, want)
			}
			return fl, ""
		}},
		{"F64to32", 1, "f64", func(a, _ uint64) (uint32, string) {
			got, want := gno.VerifF64to32(a), math.Float32bits(c05h64to32(math.Float64frombits(a)))
			fl := c05cls64(a) | c05cls32(want)<<4
			if !c05same32(got, want) {
				return fl, fmt.Sprintf("F64to32(%#016x) = %#08x, IEEE-754 (host) %#08x", a, got, want)
			}
			return fl, ""
		}},
		c05unaryF64toInt("F64toint64", -c05p63, c05p63, func(a uint64) uint64 { return uint64(gno.VerifF64toint64(a)) }, func(x float64) uint64 { return uint64(c05hF64toI64(x)) }),
		c05unaryF64toInt("F64toint", -c05p63, c05p63, func(a uint64) uint64 { v, _ := gno.VerifF64toint(a); return uint64(v) }, func(x float64) uint64 { return uint64(c05hF64toI64(x)) }),
		c05unaryF64toInt("F64toint32", -c05p31, c05p31, func(a uint64) uint64 { return uint64(int64(gno.VerifF64toint32(a))) }, func(x float64) uint64 { return uint64(int64(c05hF64toI32(x))) }),
		c05unaryF64toInt("F64touint64", 0, c05p64, gno.VerifF64touint64, c05hF64toU64),
		c05unaryF32toInt("F32toint64", -c05p63, c05p63, func(a uint32) uint64 { return uint64(gno.VerifF32toint64(a)) }, func(x float32) uint64 { return uint64(c05hF32toI64(x)) }),
		c05unaryF32toInt("F32toint32", -c05p31, c05p31, func(a uint32) uint64 { return uint64(int64(gno.VerifF32toint32(a))) }, func(x float32) uint64 { return uint64(int64(c05hF32toI32(x))) }),
		c05unaryF32toInt("F32touint64", 0, c05p64, gno.VerifF32touint64, c05hF32toU64),
		c05intTo64("Fintto64", func(a uint64) uint64 { return gno.VerifFintto64(int64(a)) }, func(a uint64) float64 { return c05hI64to64(int64(a)) }),
		c05intTo64("Fint64to64", func(a uint64) uint64 { return gno.VerifFint64to64(int64(a)) }, func(a uint64) float64 { return c05hI64to64(int64(a)) }),
		c05intTo64("Fint32to64", func(a uint64) uint64 { return gno.VerifFint32to64(int32(a)) }, func(a uint64) float64 { return c05hI32to64(int32(a)) }),
		c05intTo64("Fuint64to64", gno.VerifFuint64to64, c05hU64to64),
		c05intTo32("Fintto32", func(a uint64) uint32 { return gno.VerifFintto32(int64(a)) }, func(a uint64) float32 { return c05hI64to32(int64(a)) }),
		c05intTo32("Fint64to32", func(a uint64) uint32 { return gno.VerifFint64to32(int64(a)) }, func(a uint64) float32 { return c05hI64to32(int64(a)) }),
		c05intTo32("Fint32to32", func(a uint64) uint32 { return gno.VerifFint32to32(int32(a)) }, func(a uint64) float32 { return c05hI32to32(int32(a)) }),
		c05intTo32("Fuint64to32", gno.VerifFuint64to32, c05hU64to32),
	}
	m := map[string]c05OpInfo{}
	for _, o := range l {
		m[o.Name] = o
	}
	return m
}()

func c05OpNames(arity int, domain string) []string {
	var out []string
	for n, o := range c05Ops {
		if o.Arity == arity && (domain == "" || o.Domain == domain) {
			out = append(out, n)
		}
	}
	sort.Strings(out)
	return out
}

// ---- structured operand sets ----

func c05Set64() []uint64 {
	exps := []uint64{0, 1, 2, 51, 52, 53, 54, 510, 511, 512, 873, 874, 875, 896, 897, 898, 968, 969, 970, 971, 1021, 1022, 1023, 1024, 1025,
		1046, 1047, 1048, 1054, 1055, 1056, 1074, 1075, 1076, 1077, 1085, 1086, 1087, 1150, 1151, 1534, 1535, 1536, 2045, 2046}
	mants := []uint64{0, 1, 2, 3, 1 << 51, 1<<51 | 1, 1<<52 - 1, 1<<52 - 2, 1 << 28, 1<<28 | 1, 1<<28 - 1, 1 << 29, 3 << 28, 1<<29 - 1,
		0x5555555555555, 0xAAAAAAAAAAAAA, 0x8000010000000, 0xFFFFFE0000000 | 1<<28, 0xFFFFFF0000001, 0xFFFFFE0000000 | 1<<28 - 1}
	seen := map[uint64]bool{}
	var out []uint64
	add := func(x uint64) {
		if !seen[x] {
			seen[x] = true
			out = append(out, x)
		}
	}
	for _, s := range []uint64{0, 1 << 63} {
		for _, e := range exps {
			for _, m := range mants {
				add(s | e<<52 | (m & (1<<52 - 1)))
			}
		}
		// infinities and NaNs
		add(s | 0x7ff<<52)
		for _, m := range []uint64{1, 1 << 51, 1<<51 | 1, 1<<52 - 1, 0x4000000000000} {
			add(s | 0x7ff<<52 | m)
		}
	}
	// a few familiar values
	for _, f := range []float64{0.1, 0.2, 0.3, 1.0 / 3, 10, 100, 1e15, 1e16, 1e22, 1e23, 1e-5, math.Pi, math.E, 4503599627370496.5, 9007199254740993, 0.5, 0.75, 2.5, 3.5} {
		add(math.Float64bits(f))
		add(math.Float64bits(-f))
	}
	return out
}

func c05Set32() []uint64 {
	exps := []uint32{0, 1, 2, 22, 23, 24, 25, 62, 63, 64, 65, 102, 103, 104, 105, 125, 126, 127, 128, 129, 149, 150, 151, 152, 157, 158, 159, 189, 190, 191, 192, 253, 254}
	mants := []uint32{0, 1, 2, 3, 1 << 22, 1<<22 | 1, 1<<23 - 1, 1<<23 - 2, 0x555555, 0x2AAAAA, 0x1000, 0xFFF, 0x400001, 0x7FF000}
	seen := map[uint32]bool{}
	var out []uint64
	add := func(x uint32) {
		if !seen[x] {
			seen[x] = true
			out = append(out, uint64(x))
		}
	}
	for _, s := range []uint32{0, 1 << 31} {
		for _, e := range exps {
			for _, m := range mants {
				add(s | e<<23 | m)
			}
		}
		add(s | 0xff<<23)
		for _, m := range []uint32{1, 1 << 22, 1<<22 | 1, 1<<23 - 1} {
			add(s | 0xff<<23 | m)
		}
	}
	for _, f := range []float32{0.1, 0.2, 0.3, 1.0 / 3, 10, 100, 1e7, 16777216, 16777217, 1e-5, math.Pi, 0.5, 0.75, 2.5, 3.5} {
		add(math.Float32bits(f))
		add(math.Float32bits(-f))
	}
	return out
}

// integers around every power of two, with the tie patterns of both float widths.
func c05Ints() []uint64 {
	seen := map[uint64]bool{}
	var out []uint64
	add := func(x uint64) {
		if !seen[x] {
			seen[x] = true
			out = append(out, x)
		}
	}
	for _, d := range []uint64{0, 1, 2, 3, 7, 100, 255, 256, 65535, 65536} {
		add(d)
		add(-d)
	}
	for k := uint(1); k < 64; k++ {
		p := uint64(1) << k
		var extra []uint64
		for _, w := range []uint{24, 25, 53, 54} { // half-ulp positions when the top bit is bit k
			if k >= w {
				h := uint64(1) << (k - w)
				extra = append(extra, h, h+1, h-1, 3*h, 2*h, 2*h+1, 2*h-1)
			}
		}
		for _, base := range []uint64{p, p - 1, p + 1, p | p>>1} {
			add(base)
			add(-base)
			for _, e := range extra {
				add(base + e)
				add(-(base + e))
				add(base - e)
			}
		}
	}
	add(math.MaxInt64)
	add(1 << 63)
	add(math.MaxUint64)
	add(math.MaxUint64 - 1)
	add(math.MaxUint32)
	add(math.MaxInt32)
	add(uint64(1<<63) + 1<<10)
	add(uint64(1<<63) + 1<<10 + 1)
	add(uint64(1<<63) + 1<<39)
	add(uint64(1<<63) + 1<<39 + 1)
	return out
}

// floats whose truncation is in range of the integer conversions, near the interesting edges.
func c05FloatsForInt64() []uint64 {
	var out []uint64
	for _, x := range c05Set64() {
		out = append(out, x)
	}
	for _, n := range c05Ints() {
		f := float64(int64(n))
		for _, g := range []float64{f, math.Nextafter(f, math.Inf(1)), math.Nextafter(f, math.Inf(-1)), f + 0.5, f - 0.5, float64(n)} {
			out = append(out, math.Float64bits(g))
		}
	}
	return out
}

func c05FloatsForInt32() []uint64 {
	var out []uint64
	out = append(out, c05Set32()...)
	for _, n := range c05Ints() {
		f := float32(int64(n))
		for _, g := range []float32{f, math.Nextafter32(f, float32(math.Inf(1))), math.Nextafter32(f, float32(math.Inf(-1))), f + 0.5, f - 0.5, float32(n)} {
			out = append(out, uint64(math.Float32bits(g)))
		}
	}
	return out
}

// c05Operands returns the structured operand list of an operation.
func c05Operands(o c05OpInfo) []uint64 {
	switch o.Domain {
	case "f64":
		if o.Arity == 1 && o.Name != "Fneg64" {
			return c05set("ff64", c05FloatsForInt64)
		}
		return c05set("s64", c05Set64)
	case "f32":
		if o.Arity == 1 && o.Name != "Fneg32" {
			return c05set("ff32", c05FloatsForInt32)
		}
		return c05set("s32", c05Set32)
	}
	return c05set("ints", c05Ints)
}

var (
	c05setCache = map[string][]uint64{}
	c05setMu    sync.Mutex
)

func c05set(name string, f func() []uint64) []uint64 {
	c05setMu.Lock()
	defer c05setMu.Unlock()
	if s, ok := c05setCache[name]; ok {
		return s
	}
	s := f()
	c05setCache[name] = s
	return s
}

// ---- deterministic pair stream for "rand" blocks ----

type c05rng uint64

func (r *c05rng) next() uint64 {
	*r += 0x9E3779B97F4A7C15
	z := uint64(*r)
	z = (z ^ z>>30) * 0xBF58476D1CE4E5B9
	z = (z ^ z>>27) * 0x94D049BB133111EB
	return z ^ z>>31
}

// sparse returns a word with few set bits (ties and exact results are likely).
func (r *c05rng) sparse(width uint) uint64 {
	var m uint64
	n := int(r.next()%4) + 1
	for i := 0; i < n; i++ {
		m |= 1 << (r.next() % uint64(width))
	}
	return m
}

func c05pair64(r *c05rng, set []uint64) (a, b uint64) {
	const mm = 1<<52 - 1
	a = r.next()
	switch r.next() % 8 {
	case 0:
		b = r.next()
	case 1: // nearby exponent, random mantissa
		ea := int64(a>>52) & 0x7ff
		eb := ea + int64(r.next()%130) - 65
		if eb < 0 {
			eb = 0
		}
		if eb > 2046 {
			eb = 2046
		}
		b = r.next()&(1<<63|mm) | uint64(eb)<<52
	case 2: // neighbour with opposite or same sign
		b = a + r.next()%5 - 2
		if r.next()&1 == 0 {
			b ^= 1 << 63
		}
	case 3: // sparse mantissas, close exponents
		ea := r.next() % 2047
		eb := (ea + r.next()%110 + 2047 - 55) % 2047
		a = r.next()&(1<<63) | ea<<52 | r.sparse(52)
		b = r.next()&(1<<63) | eb<<52 | r.sparse(52)
	case 4:
		b = set[r.next()%uint64(len(set))]
	case 5: // exponent sum near a boundary (mul)
		tgt := []int64{-1075, -1074, -1073, -1023, -1022, -1021, 1022, 1023, 1024, -150, -149, -127, -126, 127, 128}[r.next()%15]
		ea := int64(r.next()%2046) + 1
		eb := tgt - (ea - 1023) + 1023 + int64(r.next()%3) - 1
		if eb < 0 || eb > 2046 {
			eb = 1023
		}
		a = a&(1<<63|mm) | uint64(ea)<<52
		b = r.next()&(1<<63|mm) | uint64(eb)<<52
	case 6: // exponent difference near a boundary (div)
		tgt := []int64{-1075, -1074, -1073, -1023, -1022, -1021, 1022, 1023, 1024, -150, -149, -127, -126, 127, 128}[r.next()%15]
		ea := int64(r.next()%2046) + 1
		eb := (ea - 1023) - tgt + 1023 + int64(r.next()%3) - 1
		if eb < 0 || eb > 2046 {
			eb = 1023
		}
		a = a&(1<<63|mm) | uint64(ea)<<52
		b = r.next()&(1<<63|mm) | uint64(eb)<<52
	case 7: // subnormal / tiny operands
		a = r.next()&(1<<63) | (r.next()%3)<<52 | r.next()&mm
		b = r.next()&(1<<63) | (r.next()%56)<<52 | r.next()&mm
	}
	if r.next()&1 == 0 {
		a, b = b, a
	}
	return
}

func c05pair32(r *c05rng, set []uint64) (uint64, uint64) {
	const mm = 1<<23 - 1
	a := uint32(r.next())
	var b uint32
	switch r.next() % 8 {
	case 0:
		b = uint32(r.next())
	case 1:
		ea := int64(a>>23) & 0xff
		eb := ea + int64(r.next()%60) - 30
		if eb < 0 {
			eb = 0
		}
		if eb > 254 {
			eb = 254
		}
		b = uint32(r.next())&(1<<31|mm) | uint32(eb)<<23
	case 2:
		b = a + uint32(r.next()%5) - 2
		if r.next()&1 == 0 {
			b ^= 1 << 31
		}
	case 3:
		ea := uint32(r.next() % 255)
		eb := (ea + uint32(r.next()%52) + 255 - 26) % 255
		a = uint32(r.next())&(1<<31) | ea<<23 | uint32(r.sparse(23))
		b = uint32(r.next())&(1<<31) | eb<<23 | uint32(r.sparse(23))
	case 4:
		b = uint32(set[r.next()%uint64(len(set))])
	case 5:
		tgt := []int64{-150, -149, -148, -127, -126, -125, 126, 127, 128}[r.next()%9]
		ea := int64(r.next()%254) + 1
		eb := tgt - (ea - 127) + 127 + int64(r.next()%3) - 1
		if eb < 0 || eb > 254 {
			eb = 127
		}
		a = a&(1<<31|mm) | uint32(ea)<<23
		b = uint32(r.next())&(1<<31|mm) | uint32(eb)<<23
	case 6:
		tgt := []int64{-150, -149, -148, -127, -126, -125, 126, 127, 128}[r.next()%9]
		ea := int64(r.next()%254) + 1
		eb := (ea - 127) - tgt + 127 + int64(r.next()%3) - 1
		if eb < 0 || eb > 254 {
			eb = 127
		}
		a = a&(1<<31|mm) | uint32(ea)<<23
		b = uint32(r.next())&(1<<31|mm) | uint32(eb)<<23
	case 7:
		a = uint32(r.next())&(1<<31) | uint32(r.next()%3)<<23 | uint32(r.next())&mm
		b = uint32(r.next())&(1<<31) | uint32(r.next()%27)<<23 | uint32(r.next())&mm
	}
	if r.next()&1 == 0 {
		a, b = b, a
	}
	return uint64(a), uint64(b)
}

// c05unaryOperand draws an operand for a unary operation.
func c05unaryOperand(r *c05rng, o c05OpInfo, set []uint64) uint64 {
	switch r.next() % 4 {
	case 0:
		return set[r.next()%uint64(len(set))]
	case 1:
		x := r.next()
		if o.Domain == "int" { // random magnitude
			return uint64(int64(x) >> (r.next() % 64))
		}
		if o.Domain == "f32" { // exponent in the integer range
			return uint64(uint32(x)&(1<<31|1<<23-1) | uint32(100+r.next()%95)<<23)
		}
		return x&(1<<63|1<<52-1) | (1000+r.next()%90)<<52
	case 2:
		if o.Domain == "int" {
			return r.sparse(64)
		}
		if o.Domain == "f32" {
			return uint64(uint32(r.next())&(1<<31) | uint32(r.next()%255)<<23 | uint32(r.sparse(23)))
		}
		return r.next()&(1<<63) | (r.next()%2047)<<52 | r.sparse(52)
	}
	if o.Domain == "f32" {
		return uint64(uint32(r.next()))
	}
	return r.next()
}
