//go:build verif

package float

import (
	"fmt"
	"math"
	"math/big"
	"runtime"
	"sync"
	"sync/atomic"
	"testing"

	"pgregory.net/rapid"
	"verif/vk"
)

// C05 — floating-point results are bit-exact IEEE-754 (direct layer).
//
// One case is either a single evaluation ("pair"), one left operand against
// the whole structured operand set ("sweep"), a block of N operand pairs
// expanded from a drawn 64-bit value by a fixed splitmix64 stream ("rand"), or
// a run of N consecutive 32-bit patterns pushed through every unary operation
// ("range").

type c05Case struct {
	Kind string `json:"kind"`
	Op   string `json:"op"`
	A    uint64 `json:"a"`
	B    uint64 `json:"b"`
	Seed uint64 `json:"seed,omitempty"`
	N    int    `json:"n,omitempty"`
}

type c05PairErr struct {
	c   c05Case
	msg string
}

func (e *c05PairErr) Error() string { return e.msg }

var (
	c05evals  atomic.Int64
	c05flagCt [9]atomic.Int64
	c05ties   atomic.Int64
	c05rec    atomic.Pointer[vk.Rec]
)

func c05publish() {
	r := c05rec.Load()
	if r == nil {
		return
	}
	r.Extra("op_evaluations", c05evals.Load())
	m := map[string]int64{}
	for i, n := range c05FlagNames {
		m[n] = c05flagCt[i].Load()
	}
	m["exact-tie"] = c05ties.Load()
	r.Extra("evaluation_classes", m)
}

type c05tally struct {
	n  int64
	fl [9]int64
}

func (t *c05tally) add(fl uint32) {
	t.n++
	for i := 0; fl != 0; i, fl = i+1, fl>>1 {
		if fl&1 != 0 {
			t.fl[i]++
		}
	}
}

func (t *c05tally) flush() (any uint32) {
	c05evals.Add(t.n)
	for i := range t.fl {
		if t.fl[i] != 0 {
			c05flagCt[i].Add(t.fl[i])
			any |= 1 << i
		}
	}
	return
}

// c05isTie reports whether the exact result of a binary f64/f32 add, sub or mul
// lies exactly halfway between two adjacent floats of the result width.
func c05isTie(op string, a, b uint64) bool {
	var x, y, r *big.Float
	var lo, hi float64
	mk := func(f float64) *big.Float { return new(big.Float).SetPrec(2400).SetFloat64(f) }
	var is32 bool
	switch op {
	case "Fadd64", "Fsub64", "Fmul64":
		fa, fb := math.Float64frombits(a), math.Float64frombits(b)
		if math.IsNaN(fa) || math.IsNaN(fb) || math.IsInf(fa, 0) || math.IsInf(fb, 0) {
			return false
		}
		x, y = mk(fa), mk(fb)
	case "Fadd32", "Fsub32", "Fmul32":
		fa, fb := float64(math.Float32frombits(uint32(a))), float64(math.Float32frombits(uint32(b)))
		if math.IsNaN(fa) || math.IsNaN(fb) || math.IsInf(fa, 0) || math.IsInf(fb, 0) {
			return false
		}
		x, y = mk(fa), mk(fb)
		is32 = true
	default:
		return false
	}
	r = new(big.Float).SetPrec(2400)
	switch op[1:4] {
	case "add":
		r.Add(x, y)
	case "sub":
		r.Sub(x, y)
	case "mul":
		r.Mul(x, y)
	}
	if is32 {
		f, _ := r.Float32()
		if math.IsInf(float64(f), 0) {
			return false
		}
		lo, hi = float64(math.Nextafter32(f, float32(math.Inf(-1)))), float64(math.Nextafter32(f, float32(math.Inf(1))))
		return c05mid(r, float64(f), lo, hi)
	}
	f, _ := r.Float64()
	if math.IsInf(f, 0) {
		return false
	}
	lo, hi = math.Nextafter(f, math.Inf(-1)), math.Nextafter(f, math.Inf(1))
	return c05mid(r, f, lo, hi)
}

func c05mid(exact *big.Float, f, lo, hi float64) bool {
	mk := func(v float64) *big.Float { return new(big.Float).SetPrec(2400).SetFloat64(v) }
	for _, n := range []float64{lo, hi} {
		if math.IsInf(n, 0) {
			continue
		}
		m := new(big.Float).SetPrec(2400).Add(mk(f), mk(n))
		m.Quo(m, mk(2))
		if m.Cmp(exact) == 0 {
			return true
		}
	}
	return false
}

var (
	c05lowsCore = []uint64{0, 1<<28 - 1, 1 << 28, 1<<28 + 1}
	c05lowsFull = []uint64{0, 1, 1<<28 - 1, 1 << 28, 1<<28 + 1, 1<<29 - 1}
)

var c05RangeOps = []string{"Fneg32", "F32to64", "F32toint32", "F32toint64", "F32touint64", "Fint32to32", "Fint32to64"}

func c05Exec(ctx *vk.Ctx, c c05Case) error {
	defer c05publish()
	var t c05tally
	fail := func(op string, a, b uint64, msg string) error {
		t.flush()
		return &c05PairErr{c05Case{Kind: "pair", Op: op, A: a, B: b}, msg}
	}
	if c.Kind == "range" {
		ctx.Class("range")
		var fns []c05OpInfo
		for _, n := range c05RangeOps {
			fns = append(fns, c05Ops[n])
		}
		f64to32, i64to32, u64to32, i64to64, u64to64, cmp32 := c05Ops["F64to32"], c05Ops["Fint64to32"], c05Ops["Fuint64to32"], c05Ops["Fint64to64"], c05Ops["Fuint64to64"], c05Ops["cmp32"]
		for i := 0; i < c.N; i++ {
			p := uint64(uint32(c.A) + uint32(i))
			for _, o := range fns {
				fl, bad := o.Fn(p, 0)
				t.add(fl)
				if bad != "" {
					return fail(o.Name, p, 0, bad)
				}
			}
			// Every pattern: narrowing at this float32's position with the 29 discarded bits at exactly half
			// and one either side of it, self-comparison, and one 64-bit integer carrying the pattern on top.
			// Patterns within 512 of a multiple of 2^20 (the quick tier's sample) get the wider variant list.
			full := (uint32(p)+512)&(1<<20-1) < 1024
			w := math.Float64bits(float64(math.Float32frombits(uint32(p))))
			if c05cls64(w)&(c05fNaN|c05fInf) == 0 {
				lows := c05lowsCore
				if full {
					lows = c05lowsFull
				}
				for _, low := range lows {
					fl, bad := f64to32.Fn(w|low, 0)
					t.add(fl)
					if bad != "" {
						return fail("F64to32", w|low, 0, bad)
					}
				}
			}
			n0 := p<<32 | p*0x9E3779B9&0xffffffff
			for _, o := range []c05OpInfo{i64to32, u64to32} {
				fl, bad := o.Fn(n0, 0)
				t.add(fl)
				if bad != "" {
					return fail(o.Name, n0, 0, bad)
				}
			}
			fl, bad := cmp32.Fn(p, p)
			t.add(fl)
			if bad != "" {
				return fail("cmp32", p, p, bad)
			}
			if !full {
				continue
			}
			// 64-bit integers carrying this pattern in their upper half (rounding to 24/53 bits happens below it)
			for _, n := range []uint64{n0, p<<31 | 1, p << 29, p<<32 | 0x80000000, p<<32 | 0x7fffffff} {
				for _, o := range []c05OpInfo{i64to32, u64to32, i64to64, u64to64} {
					fl, bad := o.Fn(n, 0)
					t.add(fl)
					if bad != "" {
						return fail(o.Name, n, 0, bad)
					}
				}
			}
			for _, q := range []uint64{p ^ 1<<31, uint64(uint32(p) + 1)} {
				fl, bad := cmp32.Fn(p, q)
				t.add(fl)
				if bad != "" {
					return fail("cmp32", p, q, bad)
				}
			}
		}
		t.flush()
		ctx.NT()
		return nil
	}
	o, ok := c05Ops[c.Op]
	if !ok {
		return fmt.Errorf("unknown operation %q", c.Op)
	}
	ctx.Class(c.Kind + "/" + c.Op)
	switch c.Kind {
	case "pair":
		fl, bad := o.Fn(c.A, c.B)
		t.add(fl)
		if bad != "" {
			return fail(c.Op, c.A, c.B, bad)
		}
		tie := o.Arity == 2 && c05isTie(c.Op, c.A, c.B)
		if tie {
			c05ties.Add(1)
			ctx.Class("exact-tie")
		}
		inexactInt := false
		if o.Domain == "int" {
			inexactInt = c05intInexact(c.Op, c.A)
			ctx.ClassIf(inexactInt, "int-conversion-rounds")
		}
		for i, n := range c05FlagNames {
			ctx.ClassIf(fl&(1<<i) != 0, n)
		}
		ctx.NTIf((fl&^c05fSkipped != 0 || tie || inexactInt) && fl&c05fSkipped == 0)
		t.flush()
		return nil
	case "sweep":
		set := c05Operands(o)
		if o.Arity == 1 {
			for _, a := range set {
				fl, bad := o.Fn(a, 0)
				t.add(fl)
				if bad != "" {
					return fail(c.Op, a, 0, bad)
				}
			}
		} else {
			for _, b := range set {
				fl, bad := o.Fn(c.A, b)
				t.add(fl)
				if bad != "" {
					return fail(c.Op, c.A, b, bad)
				}
			}
		}
	case "rand":
		r := c05rng(c.Seed)
		set := c05Operands(o)
		for i := 0; i < c.N; i++ {
			var a, b uint64
			switch {
			case o.Arity == 1:
				a = c05unaryOperand(&r, o, set)
			case o.Domain == "f32":
				a, b = c05pair32(&r, set)
			default:
				a, b = c05pair64(&r, set)
			}
			fl, bad := o.Fn(a, b)
			t.add(fl)
			if bad != "" {
				return fail(c.Op, a, b, bad)
			}
		}
	default:
		return fmt.Errorf("unknown case kind %q", c.Kind)
	}
	any := t.flush()
	for i, n := range c05FlagNames {
		ctx.ClassIf(any&(1<<i) != 0, "block-has-"+n)
	}
	ctx.NTIf(any&^c05fSkipped != 0 || o.Domain == "int")
	return nil
}

func c05intInexact(op string, a uint64) bool {
	switch op {
	case "Fintto64", "Fint64to64":
		return int64(float64(int64(a))) != int64(a) || float64(int64(a)) == c05p63
	case "Fuint64to64":
		return float64(a) == c05p64 || uint64(float64(a)) != a
	case "Fintto32", "Fint64to32":
		return float64(float32(int64(a))) == c05p63 || int64(float32(int64(a))) != int64(a)
	case "Fuint64to32":
		return float64(float32(a)) == c05p64 || uint64(float32(a)) != a
	case "Fint32to32":
		return int32(float32(int32(a))) != int32(a) || float32(int32(a)) == c05p31
	}
	return false
}

func c05drawPair(rt *rapid.T) c05Case {
	names := append(append([]string{}, c05OpNames(2, "")...), c05OpNames(1, "")...)
	// binary operations carry most of the weight
	w := rapid.IntRange(0, 9).Draw(rt, "opclass")
	var op string
	if w < 7 {
		op = rapid.SampledFrom(c05OpNames(2, "")).Draw(rt, "op")
	} else {
		op = rapid.SampledFrom(names).Draw(rt, "op")
	}
	o := c05Ops[op]
	set := c05Operands(o)
	c := c05Case{Kind: "pair", Op: op}
	pick := func(label string) uint64 {
		return set[rapid.IntRange(0, len(set)-1).Draw(rt, label)]
	}
	if o.Arity == 1 {
		switch rapid.IntRange(0, 2).Draw(rt, "src") {
		case 0:
			c.A = pick("a")
		default:
			r := c05rng(rapid.Uint64().Draw(rt, "stream"))
			c.A = c05unaryOperand(&r, o, set)
		}
		return c
	}
	switch rapid.IntRange(0, 3).Draw(rt, "src") {
	case 0:
		c.A, c.B = pick("a"), pick("b")
	case 1:
		c.A = pick("a")
		c.B = rapid.Uint64().Draw(rt, "b")
		if o.Domain == "f32" {
			c.B &= 0xffffffff
		}
		if rapid.Bool().Draw(rt, "swap") {
			c.A, c.B = c.B, c.A
		}
	default:
		r := c05rng(rapid.Uint64().Draw(rt, "stream"))
		if o.Domain == "f32" {
			c.A, c.B = c05pair32(&r, set)
		} else {
			c.A, c.B = c05pair64(&r, set)
		}
	}
	return c
}

func TestC05_Pairs(t *testing.T) {
	var blockN int
	vk.Run(t, vk.Spec[c05Case]{
		ID: "C05", Name: "TestC05_Pairs",
		Rule: "rapid: single evaluations of every softfloat primitive (operands from the structured sets, structured x uniform bits, or the biased pair stream: nearby exponents, neighbours of opposite sign, sparse mantissas, exponent sums/differences at the overflow/underflow edges of both widths, subnormals) and blocks of N pairs expanded from a drawn 64-bit value by a fixed splitmix64 stream; oracle = the same operation on the host FPU, bits compared exactly (NaN by class); non-trivial = an operand or the result is zero/subnormal/inf/NaN, or the exact result is a rounding tie, or an integer conversion has to round (blocks: contains such an evaluation). extra.op_evaluations counts single primitive evaluations.",
		Setup: func(r *vk.Rec) {
			c05rec.Store(r)
			blockN = vk.Pick(r, 4096, 65536)
		},
		Draw: func(rt *rapid.T) c05Case {
			if rapid.IntRange(0, 9).Draw(rt, "kind") < 7 {
				return c05drawPair(rt)
			}
			names := append(append([]string{}, c05OpNames(2, "")...), c05OpNames(2, "")...)
			names = append(names, c05OpNames(1, "")...)
			return c05Case{Kind: "rand", Op: rapid.SampledFrom(names).Draw(rt, "op"),
				Seed: rapid.Uint64().Draw(rt, "seed"), N: rapid.IntRange(1, blockN).Draw(rt, "n")}
		},
		Exec: c05Exec,
	})
}

// c05parallel runs the cases on all cores; the first failure stops the enumeration and is
// recorded as a single-evaluation replay case.
func c05parallel(r *vk.Rec, cases []c05Case) {
	var wg sync.WaitGroup
	var stop atomic.Bool
	ch := make(chan c05Case, 64)
	nw := runtime.GOMAXPROCS(0)
	if nw > 16 {
		nw = 16
	}
	for w := 0; w < nw; w++ {
		wg.Add(1)
		go func() {
			defer wg.Done()
			for c := range ch {
				if stop.Load() {
					continue
				}
				err := r.Do(c, func(ctx *vk.Ctx) error { return c05Exec(ctx, c) })
				if err != nil {
					stop.Store(true)
					if pe, ok := err.(*c05PairErr); ok {
						r.Fail(pe.c, pe)
					}
				}
			}
		}()
	}
	for _, c := range cases {
		if stop.Load() {
			break
		}
		ch <- c
	}
	close(ch)
	wg.Wait()
	c05publish()
}

// TestC05_Cross evaluates every binary operation on the full cross product of
// its structured operand set and every unary operation on its whole set.
func TestC05_Cross(t *testing.T) {
	r := vk.Open(t, "C05", "TestC05_Cross", "enumeration: every binary primitive (add sub mul div and the five comparisons, both widths) on the complete cross product S x S of its structured operand set (signed zeros, infinities, quiet/signalling NaNs, smallest/largest subnormals and normals, powers of two at the exponent edges of both widths, mantissas with ties at bit 0, at the float32 rounding position and at all-ones), every unary primitive on its whole structured set (integers around every power of two with the 24/53-bit tie patterns; floats next to every integer boundary); one case = one left operand against the whole set")
	defer r.Close()
	if vk.Replaying() {
		t.Skip()
	}
	r.ReplayAs = "TestC05_Pairs"
	r.Extra("exhaustive", true)
	c05rec.Store(r)
	var cases []c05Case
	for _, op := range c05OpNames(2, "") {
		set := c05Operands(c05Ops[op])
		r.Extra("set_size_"+c05Ops[op].Domain, len(set))
		for _, a := range set {
			cases = append(cases, c05Case{Kind: "sweep", Op: op, A: a})
		}
	}
	for _, op := range c05OpNames(1, "") {
		cases = append(cases, c05Case{Kind: "sweep", Op: op})
	}
	c05parallel(r, cases)
}

// TestC05_Unary32 pushes float32/int32 bit patterns through every unary
// primitive: all 2^32 of them in the thorough tier, the 1024 patterns around
// every multiple of 2^20 in the quick tier.
func TestC05_Unary32(t *testing.T) {
	r := vk.Open(t, "C05", "TestC05_Unary32", "enumeration over 32-bit patterns p (thorough: all 2^32; quick: 512 on either side of every multiple of 2^20). Every p: Fneg32, F32to64, F32toint32/64, F32touint64 (in range), Fint32to32/64 of p, F64to32 of the widened value with the discarded bits at 0/half-1/half/half+1, Fint64to32/Fuint64to32 of a 64-bit integer carrying p on top, the float32 comparisons of p with itself. The quick-tier sample additionally: discarded bits 1/all-ones, Fint64/Fuint64 to 32/64 of five integers carrying p, comparisons with the negation and the successor. One case = a run of consecutive patterns")
	defer r.Close()
	if vk.Replaying() {
		t.Skip()
	}
	r.ReplayAs = "TestC05_Pairs"
	r.Extra("exhaustive", r.Thorough())
	c05rec.Store(r)
	var cases []c05Case
	if r.Thorough() {
		for lo := uint64(0); lo < 1<<32; lo += 1 << 18 {
			cases = append(cases, c05Case{Kind: "range", Op: "unary32", A: lo, N: 1 << 18})
		}
	} else {
		for lo := uint64(0); lo < 1<<32; lo += 1 << 20 {
			cases = append(cases, c05Case{Kind: "range", Op: "unary32", A: uint64(uint32(lo) - 512), N: 1024})
		}
	}
	c05parallel(r, cases)
}
