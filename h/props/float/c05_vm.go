//go:build verif

package float

import (
	"bytes"
	"fmt"
	"os"
	"strings"
	"sync"

	gno "github.com/gnolang/gno/gnovm/pkg/gnolang"
	"github.com/gnolang/gno/gnovm/pkg/test"
	"github.com/gnolang/gno/tm2/pkg/std"
)

// c05VM runs small Gno programs on the real GnoVM. The standard library
// ("math") is imported once on the root store; every program then runs in a
// transaction fork of that store which is dropped afterwards.
type c05VM struct {
	root gno.Store
	out  *bytes.Buffer
	n    int
}

var (
	c05vmOnce sync.Once
	c05vm     *c05VM
	c05vmErr  error
)

func c05RootDir() string {
	if d := os.Getenv("GNOROOT"); d != "" {
		return d
	}
	return "/repo"
}

func c05GetVM() (*c05VM, error) {
	c05vmOnce.Do(func() {
		defer func() {
			if p := recover(); p != nil {
				c05vmErr = fmt.Errorf("VM bring-up panicked: %v", p)
			}
		}()
		out := new(bytes.Buffer)
		_, st := test.ProdStore(c05RootDir(), out, nil)
		vm := &c05VM{root: st, out: out}
		// warm: import "math" on the root store itself.
		if _, err := vm.run(st, "package main\nimport \"math\"\nfunc main() { println(math.Float64bits(1.5)) }\n"); err != nil {
			c05vmErr = err
			return
		}
		c05vm = vm
	})
	return c05vm, c05vmErr
}

// Run executes one program (package main with func main) and returns what it
// printed. A VM panic is returned as an error.
func (vm *c05VM) Run(src string) (string, error) {
	tx := vm.root.BeginTransaction(nil, nil, nil, nil)
	return vm.run(tx, src)
}

func (vm *c05VM) run(st gno.Store, src string) (res string, err error) {
	vm.n++
	vm.out.Reset()
	pkgPath := fmt.Sprintf("gno.land/r/verif/c05p%d", vm.n)
	m := gno.NewMachineWithOptions(gno.MachineOptions{
		Output:  vm.out,
		Store:   st,
		Context: test.Context("", pkgPath, nil),
	})
	defer m.Release()
	defer func() {
		if p := recover(); p != nil {
			err = fmt.Errorf("GnoVM panic: %v", p)
			if up, ok := p.(gno.UnhandledPanicError); ok {
				err = fmt.Errorf("GnoVM unhandled panic: %s", up.Error())
			}
		}
	}()
	mpkg := &std.MemPackage{
		Type:  gno.MPUserProd,
		Name:  "main",
		Path:  pkgPath,
		Files: []*std.MemFile{{Name: "main.gno", Body: src}},
	}
	m.RunMemPackage(mpkg, false)
	m.RunMain()
	return strings.TrimSpace(vm.out.String()), nil
}
