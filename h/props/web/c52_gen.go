package web

// C52 generator: markdown documents from a grammar covering CommonMark, the
// GFM extensions gnoweb enables (strikethrough, table, footnote, task list)
// and every gnoweb extension (columns, forms, alerts, mentions, links, images
// + validator, foreign sandbox, code expansion / heading attributes in the
// documentation context), where leaves are optionally replaced by attack
// payloads. Everything is produced from rapid draws only.

import (
	"fmt"
	"strings"

	"pgregory.net/rapid"
)

// c52Marker is an attribute that only ever appears inside raw-HTML payloads of
// the generated document. An *element* carrying it in the rendered HTML means
// raw HTML of the document was passed through.
const c52Marker = "vkraw"

var c52RawTags = []string{
	`<script vkraw=1>alert(1)</script>`,
	`<SCRIPT vkraw=1 src=//evil.example/x.js></SCRIPT>`,
	`<img vkraw=1 src=x onerror=alert(1)>`,
	`<svg vkraw=1 onload=alert(1)>`,
	`<svg vkraw=1><script>alert(1)</script></svg>`,
	`<iframe vkraw=1 src="javascript:alert(1)"></iframe>`,
	`<iframe vkraw=1 srcdoc="<script>alert(1)</script>">`,
	`<a vkraw=1 href="javascript:alert(1)">x</a>`,
	`<body vkraw=1 onload=alert(1)>`,
	`<details vkraw=1 open ontoggle=alert(1)>`,
	`<math vkraw=1><mtext><script>alert(1)</script></mtext></math>`,
	`<style vkraw=1>@import 'javascript:alert(1)'</style>`,
	`<base vkraw=1 href="javascript:/a/">`,
	`<meta vkraw=1 http-equiv=refresh content="0;url=javascript:alert(1)">`,
	`<object vkraw=1 data="javascript:alert(1)">`,
	`<embed vkraw=1 src="javascript:alert(1)">`,
	`<form vkraw=1 action="javascript:alert(1)"><input type=submit>`,
	`<input vkraw=1 autofocus onfocus=alert(1)>`,
	`<x-vk vkraw=1 onclick=alert(1)>`,
	`<div vkraw=1 style="x" onmouseover="alert(1)">`,
	`<!--><script vkraw=1>alert(1)</script>-->`,
	`<![CDATA[<script vkraw=1>alert(1)</script>]]>`,
	`<?xml vkraw=1 ?><script vkraw=1>alert(1)</script>`,
	`<!DOCTYPE html><script vkraw=1>alert(1)</script>`,
	`</textarea><script vkraw=1>alert(1)</script>`,
	`</title></style></pre></code></a><script vkraw=1>alert(1)</script>`,
	`--><script vkraw=1>alert(1)</script>`,
	`--!><script vkraw=1>alert(1)</script>`,
	`"><script vkraw=1>alert(1)</script>`,
	`'><script vkraw=1>alert(1)</script>`,
	`" onmouseover="alert(1)" vkraw="1`,
	`' onmouseover='alert(1)' vkraw='1`,
	"` onmouseover=alert(1) vkraw=1 `",
	`<scr<script vkraw=1>ipt>alert(1)</script>`,
	"<script vkraw=1\n>alert(1)</script\n>",
	"<script\tvkraw=1>alert(1)</script>",
	`<gno-columns vkraw=1 onclick=alert(1)>`,
	`<gno-columns-sep vkraw=1 onclick=alert(1)/>`,
	`<gno-input vkraw=1 name="a" onfocus=alert(1) />`,
	`<gno-foreign vkraw=1 onclick=alert(1)>`,
	`&lt;script vkraw=1&gt;alert(1)&lt;/script&gt;`,
	`&#60;script vkraw=1&#62;alert(1)&#60;/script&#62;`,
	"\u0000<script vkraw=1>alert(1)</script>",
	`<script vkraw=1>alert(1)</script`,
	`<img vkraw=1 src="x" onerror="alert(1)"`,
	`<<script vkraw=1>alert(1)//<</script>`,
	`<p vkraw=1 onclick=alert(1)>para</p>`,
	`<b vkraw=1 onclick=alert(1)>bold</b>`,
	`<textarea vkraw=1 onfocus=alert(1) autofocus>`,
	`<video vkraw=1><source onerror=alert(1)></video>`,
	`<table vkraw=1 background="javascript:alert(1)">`,
	`<link vkraw=1 rel=stylesheet href="javascript:alert(1)">`,
}

// text used inside attribute values / titles / alt text / labels
var c52AttrAttacks = []string{
	`" onmouseover="alert(1)`,
	`' onmouseover='alert(1)`,
	`"><script vkraw=1>alert(1)</script>`,
	`'><script vkraw=1>alert(1)</script>`,
	`"><img vkraw=1 src=x onerror=alert(1)>`,
	`x" onfocus="alert(1)" autofocus="`,
	`--><script vkraw=1>alert(1)</script><!--`,
	`--!><script vkraw=1>alert(1)</script>`,
	`</textarea><script vkraw=1>alert(1)</script>`,
	`</option></select><script vkraw=1>alert(1)</script>`,
	`</label><svg vkraw=1 onload=alert(1)>`,
	`&quot; onmouseover=&quot;alert(1)`,
	`&#34;&#62;&#60;script vkraw=1&#62;alert(1)&#60;/script&#62;`,
	`&#x22; onfocus=&#x22;alert(1)`,
	"` onmouseover=alert(1) `",
	`\" onmouseover=\"alert(1)`,
	`javascript:alert(1)`,
	"a\u0000\"><script vkraw=1>",
	`%22%3E%3Cscript%3E`,
	`{{.}}<script vkraw=1>`,
}

var c52Words = []string{"gno", "land", "realm", "hello", "world", "x", "a b", "Z9", "émoji ✓", "_", "*", "1.", "#", "-", "+", "|", "`", "~~", "\\", "&amp;", "&", "<", ">", "[", "]", "(", ")", "!", "@", "g1", ":", "{", "}", "="}

type c52Gen struct {
	rt     *rapid.T
	n      int
	doc    bool // documentation context (RenderDocumentation)
	attack int  // percentage of leaves replaced by payloads
	refs   []string
}

// c52Uniform draws an (almost) uniform integer in [lo, hi]. rapid's integer
// and index generators are deliberately biased towards small values for wide
// ranges, which would turn "rarely" into "mostly"; draws over <= 4 values are
// uniform, so wider ranges are composed from base-4 digits.
var c52Digits = []int{0, 1, 2, 3}

func c52Uniform(rt *rapid.T, lo, hi int, l string) int {
	n := hi - lo + 1
	if n <= 1 {
		return lo
	}
	if n <= 4 {
		return lo + rapid.SampledFrom(c52Digits[:n]).Draw(rt, l)
	}
	v, span := 0, 1
	for span < n*4 { // two extra bits keep the modulo bias small
		v = v*4 + rapid.SampledFrom(c52Digits).Draw(rt, l)
		span *= 4
	}
	return lo + v%n
}

func (g *c52Gen) intn(lo, hi int, l string) int {
	g.n++
	return c52Uniform(g.rt, lo, hi, l)
}
func (g *c52Gen) pct(p int, l string) bool { return g.intn(0, 99, l) < p }
func (g *c52Gen) pick(xs []string, l string) string {
	return xs[g.intn(0, len(xs)-1, l)]
}

func c52MangleCase(g *c52Gen, s string) string {
	switch g.intn(0, 3, "case") {
	case 0:
		return s
	case 1:
		return strings.ToUpper(s)
	case 2:
		b := []byte(s)
		for i := range b {
			if i%2 == 0 && b[i] >= 'a' && b[i] <= 'z' {
				b[i] -= 32
			}
		}
		return string(b)
	default:
		b := []byte(s)
		i := g.intn(0, len(b)-1, "ci")
		if b[i] >= 'a' && b[i] <= 'z' {
			b[i] -= 32
		}
		return string(b)
	}
}

// url draws a link / image destination: a safe URL, a plainly dangerous one,
// or an obfuscated dangerous one.
func (g *c52Gen) url() string {
	safe := []string{"https://gno.land/r/demo/x", "http://example.com/a?b=c&d=e#f", "mailto:a@b.co", "/r/test/page:a/b", "/r/test/other$help&func=Foo", "#frag", "?q=1", "./rel/path", "x.png", "//evil.example/x", "/u/alice", "gno.land/r/demo", "https://example.com/a%22b", "https://example.com/\"onmouseover=\"alert(1)", "tel:+100", "ftp://h/x", "HTTPS://EXAMPLE.COM"}
	if !g.pct(g.attack+20, "urlatk") {
		return g.pick(safe, "safeurl")
	}
	scheme := g.pick([]string{"javascript", "javascript", "javascript", "vbscript", "data", "data", "file", "livescript", "jar", "blob", "view-source", "feed"}, "scheme")
	rest := "alert(1)"
	switch scheme {
	case "data":
		rest = g.pick([]string{
			"text/html,<script vkraw=1>alert(1)</script>",
			"text/html;base64,PHNjcmlwdD5hbGVydCgxKTwvc2NyaXB0Pg==",
			",<script vkraw=1>alert(1)</script>",
			"image/svg+xml;base64,PHN2ZyBvbmxvYWQ9YWxlcnQoMSk+",
			"image/svg+xml,<svg onload=alert(1)>",
			"image/png;base64,iVBORw0KGgo=",
			"image/gif;base64,R0lGODlh",
			"image/jpeg;base64,/9j/",
			"image/webp;base64,UklGRg==",
			"image/svg+xml;x,text/html,<script>alert(1)</script>",
			"image/svg+xmlx,<script>alert(1)</script>",
			"image/pngx;,<script>alert(1)</script>",
			"application/javascript,alert(1)",
			"text/javascript,alert(1)",
			"image/,x",
			"IMAGE/SVG+XML;base64,PHN2Zz4=",
			"text/html;image/png;,<script>alert(1)</script>",
			" image/png;text/html,<script>alert(1)</script>",
		}, "datarest")
	case "file":
		rest = "///etc/passwd"
	case "javascript", "vbscript", "livescript":
		rest = g.pick([]string{"alert(1)", "alert(1)//https://gno.land", "//gno.land/%0aalert(1)", "void(0)", "'\"><script vkraw=1>alert(1)</script>", "alert`1`", "/r/demo/x"}, "jsrest")
	default:
		rest = "https://gno.land/x"
	}
	s := c52MangleCase(g, scheme)
	// obfuscation inside the scheme
	if g.pct(35, "obf") {
		ins := g.pick([]string{"\t", "&#9;", "&Tab;", "&NewLine;", "&#10;", "&#x0A;", "&#13;", "\u00ad", "&shy;", "\\", "&#0;", "\u0000", "%09", "&#x9", "&#09", "\u200b", "&ZeroWidthSpace;", " "}, "ins")
		i := g.intn(1, len(s)-1, "insat")
		s = s[:i] + ins + s[i:]
	}
	if g.pct(20, "entch") {
		// entity-encode one letter of the scheme
		i := g.intn(0, len(s)-1, "entat")
		c := s[i]
		if (c >= 'a' && c <= 'z') || (c >= 'A' && c <= 'Z') {
			enc := g.pick([]string{"&#%d;", "&#x%x;", "&#%07d;", "&#x%X", "&#%d"}, "entfmt")
			s = s[:i] + fmt.Sprintf(enc, c) + s[i+1:]
		}
	}
	colon := g.pick([]string{":", ":", ":", ":", "&colon;", "&#58;", "&#x3a;", "&#x3A", "\\:", "%3A", "&#0058;", "\uff1a", " :", "\t:", "&Tab;:"}, "colon")
	lead := ""
	if g.pct(30, "lead") {
		lead = g.pick([]string{" ", "\t", "\u0001", "&#1;", "&#x1f;", "&#32;", "&nbsp;", "\u00a0", "\u2028", "&#8232;", "\\", "&Tab;", "&NewLine;", "%20", "\u0000", "&#14;", "\ufeff", "\u000b", "\u000c", "&#12;", "/", "\\\\", "x&NewLine;"}, "leadch")
	}
	return lead + s + colon + rest
}

// dest wraps a URL as a CommonMark link destination.
func (g *c52Gen) dest() string {
	u := g.url()
	switch g.intn(0, 5, "destform") {
	case 0:
		return "<" + u + ">"
	case 1:
		return strings.ReplaceAll(strings.ReplaceAll(u, "(", "\\("), ")", "\\)")
	default:
		if strings.ContainsAny(u, " \t\n") || strings.Count(u, "(") != strings.Count(u, ")") {
			return "<" + u + ">"
		}
		return u
	}
}

func (g *c52Gen) title() string {
	if !g.pct(40, "hastitle") {
		return ""
	}
	t := "title"
	if g.pct(g.attack+20, "titleatk") {
		t = g.pick(c52AttrAttacks, "titleattack")
	}
	switch g.intn(0, 2, "titleq") {
	case 0:
		return ` "` + strings.ReplaceAll(t, `"`, `\"`) + `"`
	case 1:
		return ` '` + strings.ReplaceAll(t, `'`, `\'`) + `'`
	default:
		return ` (` + strings.NewReplacer("(", "\\(", ")", "\\)").Replace(t) + `)`
	}
}

func (g *c52Gen) word() string {
	if g.pct(g.attack, "wordatk") {
		if g.pct(60, "rawtag") {
			return g.pick(c52RawTags, "raw")
		}
		return g.pick(c52AttrAttacks, "attr")
	}
	return g.pick(c52Words, "word")
}

func (g *c52Gen) plain() string {
	n := g.intn(1, 4, "nwords")
	var p []string
	for i := 0; i < n; i++ {
		p = append(p, g.word())
	}
	return strings.Join(p, " ")
}

var c52Addr = "g1jg8mtutu9khhfwc4nxmuhcpftf0pajdhfvsqf5"

// inline returns inline markdown (single line unless a hard break is drawn).
func (g *c52Gen) inline(depth int) string {
	n := g.intn(1, 4, "ninl")
	var sb strings.Builder
	for i := 0; i < n; i++ {
		if i > 0 {
			sb.WriteString(" ")
		}
		k := g.intn(0, 19, "inl")
		if depth <= 0 && k >= 1 && k <= 6 {
			k = 0
		}
		switch k {
		case 0:
			sb.WriteString(g.plain())
		case 1:
			sb.WriteString("*" + g.inline(depth-1) + "*")
		case 2:
			sb.WriteString("**" + g.inline(depth-1) + "**")
		case 3:
			sb.WriteString("~~" + g.inline(depth-1) + "~~")
		case 4, 5:
			sb.WriteString("[" + g.inline(depth-1) + "](" + g.dest() + g.title() + ")")
		case 6:
			sb.WriteString("![" + g.inline(depth-1) + "](" + g.dest() + g.title() + ")")
		case 7:
			sb.WriteString("`" + g.plain() + "`")
		case 8:
			// autolink: only absolute URIs without spaces/<> are autolinks
			u := g.url()
			sb.WriteString("<" + u + ">")
		case 9:
			sb.WriteString("<a@b.co>")
		case 10:
			sb.WriteString(g.pick(c52RawTags, "inlraw"))
		case 11:
			sb.WriteString("@" + g.pick([]string{"alice", "bob_1", "x", "<script vkraw=1>", "a\"onmouseover=\"alert(1)", "javascript:alert(1)"}, "mention"))
		case 12:
			sb.WriteString(g.pick([]string{c52Addr, " " + c52Addr, c52Addr + "\"><script vkraw=1>", "g1" + strings.Repeat("q", 38)}, "addr"))
		case 13:
			r := g.pick([]string{"ref1", "ref2", "Ref 3"}, "refname")
			g.refs = append(g.refs, r)
			if g.pct(50, "reffull") {
				sb.WriteString("[" + g.plain() + "][" + r + "]")
			} else {
				sb.WriteString("[" + r + "]")
			}
		case 14:
			sb.WriteString("[^" + g.pick([]string{"1", "note", "x\"y"}, "fn") + "]")
		case 15:
			sb.WriteString(g.pick([]string{"  \n", "\\\n", "\n"}, "brk") + g.plain())
		case 16:
			sb.WriteString(g.pick([]string{"&lt;", "&#60;", "&#x3c;", "&quot;", "&amp;lt;", "&#0;", "&#xD800;", "&bogus;", "&#1114112;"}, "ent") + g.plain())
		case 17:
			sb.WriteString("\\" + g.pick([]string{"<", ">", "\"", "[", "]", "(", "`", "*"}, "esc") + g.plain())
		case 18:
			// image reference / nested image in link
			sb.WriteString("[![" + g.plain() + "](" + g.dest() + ")](" + g.dest() + g.title() + ")")
		default:
			sb.WriteString(g.pick(c52AttrAttacks, "inlattr"))
		}
	}
	return sb.String()
}

func (g *c52Gen) attrVal(v string) string {
	switch g.intn(0, 4, "aq") {
	case 0, 1:
		return `"` + strings.ReplaceAll(v, `"`, "&quot;") + `"`
	case 2:
		return `'` + strings.ReplaceAll(v, `'`, "&#39;") + `'`
	case 3:
		return `"` + v + `"` // possibly broken nesting on purpose
	default:
		if v == "" || strings.ContainsAny(v, " \t\"'<>`=") {
			return `'` + strings.ReplaceAll(v, `'`, "&apos;") + `'`
		}
		return v
	}
}

func (g *c52Gen) formVal(normal ...string) string {
	if g.pct(g.attack+25, "formatk") {
		if g.pct(30, "formraw") {
			return g.pick(c52RawTags, "formrawtag")
		}
		return g.pick(c52AttrAttacks, "formattr")
	}
	return g.pick(normal, "formnormal")
}

func (g *c52Gen) form() []string {
	open := "<gno-form"
	if g.pct(50, "fpath") {
		open += " path=" + g.attrVal(g.formVal("sub/path", "a?b=c", "", "x/../y"))
	}
	if g.pct(50, "fexec") {
		open += " exec=" + g.attrVal(g.formVal("Transfer", "create_post", "X"))
	}
	if g.pct(10, "fextra") {
		open += " onclick=" + g.attrVal("alert(1)") + " vkraw=1"
	}
	open += ">"
	out := []string{open}
	n := g.intn(0, 5, "nelem")
	for i := 0; i < n; i++ {
		var sb strings.Builder
		tag := g.pick([]string{"gno-input", "gno-input", "gno-input", "gno-textarea", "gno-textarea", "gno-select", "gno-select", "gno-bogus", "GNO-INPUT"}, "ftag")
		sb.WriteString("<" + tag)
		attrs := []string{"name", "type", "placeholder", "value", "description", "checked", "readonly", "required", "rows", "selected", "onfocus", "style", "id"}
		na := g.intn(1, 6, "nattr")
		for j := 0; j < na; j++ {
			a := "name"
			if j > 0 {
				a = g.pick(attrs, "attrname")
			}
			var v string
			switch a {
			case "name":
				v = g.formVal("field", "amount", "to_addr", "f"+fmt.Sprint(i))
			case "type":
				v = g.formVal("text", "number", "email", "tel", "password", "radio", "checkbox", "hidden", "submit", "image", "file")
			case "checked", "readonly", "required", "selected":
				v = g.pick([]string{"true", "false", "", "\"><script vkraw=1>"}, "boolattr")
			case "rows":
				v = g.pick([]string{"3", "0", "99", "-1", "x", "4\" onfocus=\"alert(1)"}, "rows")
			default:
				v = g.formVal("Enter value", "hello", "line1\\nline2")
			}
			sb.WriteString(" " + a + "=" + g.attrVal(v))
		}
		sb.WriteString(g.pick([]string{" />", "/>", ">", " / >", " />x"}, "fclose"))
		out = append(out, sb.String())
	}
	if g.pct(15, "fjunk") {
		out = append(out, g.word())
	}
	if g.pct(85, "fend") {
		out = append(out, "</gno-form>")
	}
	return out
}

func (g *c52Gen) prefixLines(lines []string, first, rest string) []string {
	out := make([]string, 0, len(lines))
	for i, l := range lines {
		for j, ll := range strings.Split(l, "\n") {
			if i == 0 && j == 0 {
				out = append(out, first+ll)
			} else {
				out = append(out, rest+ll)
			}
		}
	}
	return out
}

// blocks returns the lines of n block-level constructs, blank-line separated.
func (g *c52Gen) blocks(depth, max int) []string {
	n := g.intn(1, max, "nblocks")
	var out []string
	for i := 0; i < n; i++ {
		if i > 0 && !g.pct(8, "noblank") {
			out = append(out, "")
		}
		out = append(out, g.block(depth)...)
	}
	return out
}

func (g *c52Gen) block(depth int) []string {
	k := g.intn(0, 22, "blk")
	if depth <= 0 && (k == 3 || k == 4 || k == 12 || k == 13 || k == 14) {
		k = 0
	}
	switch k {
	case 0, 1:
		return []string{g.inline(2)}
	case 2:
		h := strings.Repeat("#", g.intn(1, 6, "hlevel")) + " " + g.inline(1)
		if g.doc || g.pct(15, "hattr") {
			if g.pct(70, "hasattr") {
				var as []string
				na := g.intn(1, 4, "nhattr")
				for j := 0; j < na; j++ {
					as = append(as, g.pick([]string{
						"#my-id", ".cls", `onclick="alert(1)"`, "onmouseover=alert", `ONLOAD="alert(1)"`, `data-x="&quot;><script vkraw=1>"`,
						`style="background:url(javascript:alert(1))"`, `title="\"><script vkraw=1>alert(1)</script>"`, `id="x\" onclick=\"alert(1)"`,
						`data-on="x"`, `href="javascript:alert(1)"`, `src=javascript:alert(1)`, `class="a b" onfocus=alert(1) tabindex=0`,
						`data-a='"><svg vkraw=1 onload=alert(1)>'`, `#id"onclick="alert(1)`, `lang=en onpointerenter=alert(1)`,
					}, "hattrv"))
				}
				h += " {" + strings.Join(as, " ") + "}"
			}
		}
		if g.pct(15, "setext") {
			return []string{g.inline(1), g.pick([]string{"===", "---"}, "setextch")}
		}
		return []string{h}
	case 3:
		return g.prefixLines(g.blocks(depth-1, 3), "> ", g.pick([]string{"> ", "> ", ">", ""}, "bqlazy"))
	case 4:
		marker := g.pick([]string{"- ", "* ", "+ ", "1. ", "7) ", "- [ ] ", "- [x] ", "* [X] "}, "listm")
		var out []string
		ni := g.intn(1, 3, "nitems")
		for i := 0; i < ni; i++ {
			ind := strings.Repeat(" ", len(marker))
			if strings.Contains(marker, "[") {
				ind = "  "
			}
			out = append(out, g.prefixLines(g.blocks(depth-1, 2), marker, ind)...)
		}
		return out
	case 5:
		fence := g.pick([]string{"```", "~~~", "````", "```"}, "fence")
		info := g.pick([]string{"", "go", "gno", "md", "html", "js", "text", "<script vkraw=1>", `go" onmouseover="alert(1)`, `"><script vkraw=1>alert(1)</script>`, "go {onclick=alert(1)}", "x y z", "&quot;&gt;&lt;script&gt;", "go-html-template", "svg", "xml"}, "info")
		if fence[0] == '`' && strings.Contains(info, "`") {
			info = "go"
		}
		out := []string{fence + info}
		nb := g.intn(0, 3, "ncode")
		for i := 0; i < nb; i++ {
			out = append(out, g.pick(append([]string{"package main", "func main() { println(\"</code></pre><script vkraw=1>alert(1)</script>\") }", "// </details><script vkraw=1>", "<a href=\"javascript:alert(1)\" vkraw=1>x</a>", "# not a heading", "\t\ttabs"}, c52RawTags...), "codeline"))
		}
		if g.pct(90, "fenceclosed") {
			out = append(out, fence)
		}
		return out
	case 6:
		return g.prefixLines([]string{g.pick(c52RawTags, "icode"), g.plain()}, "    ", "    ")
	case 7:
		return []string{g.pick([]string{"---", "***", "___", "- - -"}, "hr")}
	case 8:
		// HTML blocks (CommonMark types 1-7)
		return []string{g.pick([]string{
			"<script vkraw=1>\nalert(1)\n</script>",
			"<pre vkraw=1 onclick=alert(1)>\n<script vkraw=1>alert(1)</script>\n</pre>",
			"<style vkraw=1>\n*{background:url(javascript:alert(1))}\n</style>",
			"<textarea vkraw=1>\n</textarea><script vkraw=1>alert(1)</script>",
			"<!-- comment -->\n<script vkraw=1>alert(1)</script>",
			"<!-- --!><script vkraw=1>alert(1)</script> -->",
			"<?php vkraw=1 ?>\n<script vkraw=1>alert(1)</script>",
			"<!DOCTYPE html>\n<script vkraw=1>alert(1)</script>",
			"<![CDATA[\n<script vkraw=1>alert(1)</script>\n]]>",
			"<div vkraw=1 onclick=alert(1)>\n*markdown*\n</div>",
			"<div vkraw=1>\n\n<script vkraw=1>alert(1)</script>\n\n</div>",
			"<x-custom vkraw=1 onclick=alert(1)>\ntext\n</x-custom>",
			"<a vkraw=1 href=\"javascript:alert(1)\">\nclick\n</a>",
			"</div vkraw=1>\n<script vkraw=1>alert(1)</script>",
			"<iframe vkraw=1 src=\"javascript:alert(1)\">",
			"  <svg vkraw=1 onload=alert(1)>",
			"<form vkraw=1 action=\"javascript:alert(1)\">\n<button formaction=\"javascript:alert(1)\">x</button>\n</form>",
			"<table vkraw=1><tr><td onclick=alert(1)>x</td></tr></table>",
			"<details vkraw=1 ontoggle=alert(1) open>\n<summary>x</summary>\n</details>",
		}, "htmlblock")}
	case 9:
		cols := g.intn(1, 3, "ncols")
		row := func(f func() string) string {
			var c []string
			for i := 0; i < cols; i++ {
				c = append(c, f())
			}
			return "| " + strings.Join(c, " | ") + " |"
		}
		cell := func() string { return strings.ReplaceAll(strings.ReplaceAll(g.inline(1), "\n", " "), "|", "\\|") }
		out := []string{row(cell), row(func() string { return g.pick([]string{"---", ":--", "--:", ":-:"}, "align") })}
		nr := g.intn(0, 2, "nrows")
		for i := 0; i < nr; i++ {
			out = append(out, row(cell))
		}
		return out
	case 10:
		name := g.pick([]string{"1", "note", "x\"y"}, "fndef")
		return g.prefixLines([]string{g.inline(1)}, "[^"+name+"]: ", "    ")
	case 11:
		r := g.pick([]string{"ref1", "ref2", "Ref 3"}, "refdef")
		return []string{"[" + r + "]: " + g.dest() + g.title()}
	case 12:
		// columns
		out := []string{g.pick([]string{"<gno-columns>", "<gno-columns>", "<GNO-COLUMNS>", "<gno-columns onclick=\"alert(1)\" vkraw=1>", " <gno-columns> "}, "colopen")}
		nc := g.intn(0, 3, "ncolumn")
		for i := 0; i < nc; i++ {
			if i > 0 {
				out = append(out, g.pick([]string{"<gno-columns-sep/>", "<gno-columns-sep>", "<gno-columns-sep />", "<gno-columns-sep onclick=alert(1) vkraw=1/>", "|||"}, "colsep"))
			}
			if g.pct(70, "colblank") {
				out = append(out, "")
			}
			out = append(out, g.blocks(depth-1, 2)...)
			if g.pct(70, "colblank2") {
				out = append(out, "")
			}
		}
		if g.pct(85, "colclosed") {
			out = append(out, g.pick([]string{"</gno-columns>", "</gno-columns>", "</GNO-COLUMNS>", "</gno-columns vkraw=1>"}, "colclose"))
		}
		return out
	case 13:
		// alert
		kind := g.pick([]string{"NOTE", "TIP", "CAUTION", "WARNING", "SUCCESS", "INFO", "note", "xss", "Tip", "on_click", "x\"><script vkraw=1>"}, "alertkind")
		head := "> [!" + kind + "]" + g.pick([]string{"", "-", "--"}, "alertfold")
		if g.pct(60, "alerttitle") {
			head += " " + strings.ReplaceAll(g.inline(1), "\n", " ")
		}
		out := []string{head}
		if g.pct(80, "alertbody") {
			out = append(out, g.prefixLines(g.blocks(depth-1, 2), "> ", "> ")...)
		}
		return out
	case 14:
		// foreign sandbox
		var out []string
		if g.pct(90, "fgblank") {
			out = append(out, "")
		}
		open := "<gno-foreign"
		if g.pct(50, "fglabel") {
			open += " label=" + g.attrVal(g.formVal("external content", "r/other", ""))
		}
		if g.pct(8, "fgextra") {
			open += " onclick=alert(1) vkraw=1"
		}
		out = append(out, g.pick([]string{"", "", "  ", "   "}, "fgindent")+open+">")
		out = append(out, g.blocks(depth-1, 3)...)
		if g.pct(12, "fgsentinel") {
			out = append(out, g.pick([]string{"</gno-foreign>", "</GNO-FOREIGN>", "</gno-foreign >", "<gno-foreign>"}, "fgsent"))
			out = append(out, g.blocks(depth-1, 2)...)
		}
		if g.pct(88, "fgclosed") {
			out = append(out, g.pick([]string{"</gno-foreign>", "</gno-foreign>", "</Gno-Foreign>", "  </gno-foreign>  "}, "fgclose"))
		}
		out = append(out, "")
		return out
	case 15, 16:
		return g.form()
	case 17:
		return []string{g.pick(c52RawTags, "rawline")}
	case 18:
		// mentions and addresses at line start / end
		return []string{g.pick([]string{"@alice hello", "hello @bob_1", "@al", c52Addr, "see " + c52Addr + ".", "@" + strings.Repeat("a", 91), "@alice\"><script vkraw=1>alert(1)</script>", "[@alice](javascript:alert(1))"}, "mentionline")}
	case 19:
		// link reference definition + use, with dangerous destination
		u := g.dest()
		return []string{"[click][d" + fmt.Sprint(g.n) + "]", "", "[d" + fmt.Sprint(g.n) + "]: " + u + g.title()}
	case 20:
		// many foreign blocks / deep nesting to cross the caps
		var out []string
		if g.pct(50, "deep") {
			d := g.intn(3, 7, "deepn")
			for i := 0; i < d; i++ {
				out = append(out, "", g.pick([]string{"<gno-foreign>", "<gno-columns>", "> [!NOTE] x"}, "deepkind"))
			}
			out = append(out, "", g.pick(c52RawTags, "deepraw"), "", g.inline(1))
			return out
		}
		c := g.intn(30, 40, "manyfg")
		for i := 0; i < c; i++ {
			out = append(out, "", "<gno-foreign>", "x", "</gno-foreign>")
		}
		out = append(out, "", "<gno-foreign>", g.pick(c52RawTags, "manyraw"), g.inline(1), "</gno-foreign>", "")
		return out
	default:
		return []string{g.inline(2), g.inline(1)}
	}
}

var c52MutChars = []string{"<", ">", "\"", "'", "&", "#", ";", ":", "/", "\\", "\n", "\t", "`", "[", "]", "(", ")", "!", "*", "_", "|", "-", " ", "=", "\r", "\u0000", "{", "}", "~", "@"}

// c52DrawDoc draws one markdown document.
func c52DrawDoc(rt *rapid.T, doc bool) string {
	g := &c52Gen{rt: rt, doc: doc}
	g.attack = []int{10, 30, 30, 60}[g.intn(0, 3, "attacklevel")]
	lines := g.blocks(3, 6)
	for _, r := range g.refs {
		if g.pct(70, "defref") {
			lines = append(lines, "", "["+r+"]: "+g.dest()+g.title())
		}
	}
	src := strings.Join(lines, "\n")
	if g.pct(70, "finalnl") {
		src += "\n"
	}
	// character-level mutations (broken nesting, stray delimiters)
	if g.pct(35, "mutate") {
		rs := []rune(src)
		nm := g.intn(1, 4, "nmut")
		for i := 0; i < nm && len(rs) > 0; i++ {
			pos := g.intn(0, len(rs)-1, "mutpos")
			switch g.intn(0, 3, "mutkind") {
			case 0:
				rs = append(rs[:pos], rs[pos+1:]...)
			case 1:
				ins := []rune(g.pick(c52MutChars, "mutch"))
				rs = append(rs[:pos], append(ins, rs[pos:]...)...)
			case 2:
				rs = append(rs[:pos], append([]rune{rs[pos]}, rs[pos:]...)...)
			default:
				end := pos + g.intn(1, 12, "cutlen")
				if end > len(rs) {
					end = len(rs)
				}
				rs = append(rs[:pos], rs[end:]...)
			}
		}
		src = string(rs)
	}
	return src
}
