package web

import (
	"bytes"
	"fmt"
	"io"
	"log/slog"
	"strings"
	"sync"
	"testing"

	"github.com/gnolang/gno/gno.land/pkg/gnoweb"
	md "github.com/gnolang/gno/gno.land/pkg/gnoweb/markdown"
	"github.com/gnolang/gno/gno.land/pkg/gnoweb/weburl"
	"github.com/yuin/goldmark"
	"github.com/yuin/goldmark/ast"
	"github.com/yuin/goldmark/parser"
	gmhtml "github.com/yuin/goldmark/renderer/html"
	"github.com/yuin/goldmark/text"
	"github.com/yuin/goldmark/util"
	"golang.org/x/net/html"
	"golang.org/x/net/html/atom"
	"pgregory.net/rapid"
	"verif/vk"
)

// C52 — gnoweb never turns realm output into executable web content.
//
// Oracle (independent of the renderer): the produced HTML is parsed with the
// WHATWG-conforming parser golang.org/x/net/html in the context the page
// template embeds it (inside a <div>), and the resulting DOM is inspected the
// way a browser would see it.

type c52Case struct {
	Mode string `json:"mode"` // realm (RenderRealm) | doc (RenderDocumentation)
	Src  string `json:"src"`
	Pad  int    `json:"pad"` // bytes of filler appended to Src (crosses the 1 MiB plain-text fallback when large)
	URL  string `json:"url"` // page URL of the realm (chosen by the harness, not by the document)
}

var (
	c52Once     sync.Once
	c52Renderer *gnoweb.HTMLRenderer
)

func c52Get() *gnoweb.HTMLRenderer {
	c52Once.Do(func() {
		logger := slog.New(slog.NewTextHandler(io.Discard, nil))
		// the default (safe) configuration, exactly as NewRouter builds it when
		// cfg.UnsafeHTML is false
		c52Renderer = gnoweb.NewHTMLRenderer(logger, gnoweb.NewDefaultRenderConfig(), nil)
	})
	return c52Renderer
}

// URL-bearing attributes (HTML living standard + legacy ones browsers honour).
var c52URLAttrs = map[string]bool{
	"href": true, "src": true, "action": true, "formaction": true, "xlink:href": true, "poster": true,
	"background": true, "data": true, "ping": true, "cite": true, "longdesc": true, "manifest": true,
	"codebase": true, "dynsrc": true, "lowsrc": true, "srcset": true, "imagesrcset": true,
}

// c52Scheme extracts the scheme a browser's URL parser would see: leading and
// trailing C0 controls and spaces are stripped, ASCII tab and newlines are
// removed everywhere, and the scheme is ASCII-case-insensitive.
func c52Scheme(u string) (scheme, rest string) {
	u = strings.TrimFunc(u, func(r rune) bool { return r <= 0x20 })
	u = strings.NewReplacer("\t", "", "\n", "", "\r", "").Replace(u)
	for i := 0; i < len(u); i++ {
		c := u[i]
		switch {
		case c >= 'a' && c <= 'z', c >= 'A' && c <= 'Z':
		case i > 0 && (c >= '0' && c <= '9' || c == '+' || c == '-' || c == '.'):
		case c == ':' && i > 0:
			return strings.ToLower(u[:i]), u[i+1:]
		default:
			return "", u
		}
	}
	return "", u
}

// c52BadURL reports whether the URL has a script-capable scheme: javascript:,
// vbscript:, or a data: URL whose media type is
// not an image (the renderer documents data:image/* as the only data URLs it
// lets through; an <img>/<a> pointing at an image cannot run script).
func c52BadURL(u string) (bool, string) {
	s, rest := c52Scheme(u)
	switch s {
	case "javascript", "vbscript":
		return true, s
	case "data":
		mt := strings.ToLower(strings.TrimLeft(rest, " "))
		if i := strings.IndexAny(mt, ";,"); i >= 0 {
			mt = mt[:i]
		}
		if strings.HasPrefix(mt, "image/") {
			return false, "data-image"
		}
		return true, "data:" + mt
	}
	return false, s
}

type c52Obs struct {
	elements   int
	links      int
	imgs       int
	emptyURL   int
	schemes    map[string]bool
	elemNames  map[string]bool
	comments   int
	violations []c52Violation
}

type c52Violation struct {
	kind, tag, key, val string
}

func (v c52Violation) String() string {
	switch v.kind {
	case "script":
		return "script element"
	case "handler":
		return fmt.Sprintf("event-handler attribute %s=%q on <%s>", v.key, v.val, v.tag)
	case "raw":
		return fmt.Sprintf("raw HTML of the document survived as element <%s %s=%q>", v.tag, v.key, v.val)
	}
	return fmt.Sprintf("script-capable URL %s=%q on <%s>", v.key, v.val, v.tag)
}

func c52Inspect(n *html.Node, o *c52Obs) {
	switch n.Type {
	case html.CommentNode:
		o.comments++
	case html.ElementNode:
		o.elements++
		o.elemNames[n.Data] = true
		if n.Data == "script" {
			o.violations = append(o.violations, c52Violation{kind: "script", tag: n.Data})
		}
		if n.Data == "a" {
			o.links++
		}
		if n.Data == "img" {
			o.imgs++
		}
		for _, a := range n.Attr {
			key := strings.ToLower(a.Key)
			if strings.HasPrefix(key, "on") {
				o.violations = append(o.violations, c52Violation{"handler", n.Data, a.Key, a.Val})
			}
			if key == c52Marker {
				o.violations = append(o.violations, c52Violation{"raw", n.Data, a.Key, a.Val})
			}
			if c52URLAttrs[key] {
				vals := []string{a.Val}
				if key == "srcset" || key == "imagesrcset" {
					vals = strings.Split(a.Val, ",")
				}
				for _, v := range vals {
					if strings.TrimSpace(v) == "" {
						o.emptyURL++
						continue
					}
					bad, s := c52BadURL(v)
					if s != "" {
						o.schemes[s] = true
					}
					if bad {
						o.violations = append(o.violations, c52Violation{"url", n.Data, key, v})
					}
				}
			}
		}
	}
	for c := n.FirstChild; c != nil; c = c.NextSibling {
		c52Inspect(c, o)
	}
}

func c52Render(c c52Case) (string, error) {
	r := c52Get()
	src := c.Src
	if c.Pad > 0 {
		src += "\n\n" + strings.Repeat("pad pad\n", c.Pad/8+1)
	}
	var buf bytes.Buffer
	switch c.Mode {
	case "doc":
		if err := r.RenderDocumentation(&buf, []byte(src)); err != nil {
			return buf.String(), err
		}
	default:
		u, err := weburl.Parse(c.URL)
		if err != nil {
			return "", fmt.Errorf("harness: bad page url %q: %v", c.URL, err)
		}
		if _, err := r.RenderRealm(&buf, u, []byte(src), gnoweb.RealmRenderContext{ChainId: "dev", Remote: "127.0.0.1:26657", Domain: "gno.land"}); err != nil {
			return buf.String(), err
		}
	}
	return buf.String(), nil
}

// c52EncodedDangerousDests parses the document with gnoweb's own markdown
// parser (the parser is not what the known finding is about) and returns the
// resolved form of every link destination that is dangerous after goldmark's
// reference resolution (util.URLEscape(dest, true)) but not before it.
func c52EncodedDangerousDests(c c52Case) map[string]bool {
	res := map[string]bool{}
	u, err := weburl.Parse(c.URL)
	if err != nil {
		return res
	}
	gm := goldmark.New(gnoweb.NewDefaultGoldmarkOptions()...)
	var visit func(src []byte, depth int)
	visit = func(src []byte, depth int) {
		pctx := md.NewGnoParserContext(md.GnoContext{GnoURL: u, ChainId: "dev", Remote: "127.0.0.1:26657", Domain: "gno.land"})
		doc := gm.Parser().Parse(text.NewReader(src), parser.WithContext(pctx))
		_ = ast.Walk(doc, func(n ast.Node, entering bool) (ast.WalkStatus, error) {
			if !entering {
				return ast.WalkContinue, nil
			}
			var dest []byte
			switch x := n.(type) {
			case *md.GnoLink:
				dest = x.Destination
			case *ast.Link:
				dest = x.Destination
			case *md.ForeignNode:
				if depth < 8 {
					visit(x.Body, depth+1)
				}
			}
			if dest != nil {
				resolved := util.URLEscape(dest, true)
				if !gmhtml.IsDangerousURL(dest) && gmhtml.IsDangerousURL(resolved) {
					res[string(resolved)] = true
				}
			}
			return ast.WalkContinue, nil
		})
	}
	src := c.Src
	if c.Pad > 0 {
		return res
	}
	visit([]byte(src), 0)
	return res
}

func c52HasPayload(src string) bool {
	l := strings.ToLower(src)
	return strings.Contains(l, c52Marker) || strings.Contains(l, "script") || strings.Contains(l, "onmouseover") ||
		strings.Contains(l, "onclick") || strings.Contains(l, "onfocus") || strings.Contains(l, "onload") || strings.Contains(l, "onerror") ||
		strings.Contains(l, "data:")
}

func c52Exec(ctx *vk.Ctx, c c52Case) error {
	ctx.Class("mode=" + c.Mode)
	out, err := c52Render(c)
	if err != nil {
		// a render error is shown as an error page: nothing of the document is served
		ctx.Class("render-error")
		return nil
	}
	root := &html.Node{Type: html.ElementNode, Data: "div", DataAtom: atom.Div}
	nodes, perr := html.ParseFragment(strings.NewReader(out), root)
	if perr != nil {
		return fmt.Errorf("harness: cannot parse rendered HTML: %v", perr)
	}
	o := &c52Obs{schemes: map[string]bool{}, elemNames: map[string]bool{}}
	for _, n := range nodes {
		c52Inspect(n, o)
	}
	var enc map[string]bool
	var msgs []string
	for _, v := range o.violations {
		// Known-finding hook (see known_findings.json): renderGnoLink tests the link
		// destination for dangerous schemes *before* resolving entities/escapes and
		// writes it *after* resolving them. The matcher is exactly that divergence:
		// an <a href> whose value is the resolved form of a destination of the
		// document whose unresolved form passes the scheme test.
		if v.kind == "url" && v.tag == "a" && v.key == "href" && c.Mode == "realm" {
			if enc == nil {
				enc = c52EncodedDangerousDests(c)
			}
			if enc[v.val] && ctx.Known("link-dest-checked-before-unescape") {
				ctx.Class("known:link-dest-checked-before-unescape")
				continue
			}
		}
		msgs = append(msgs, v.String())
	}
	if len(msgs) > 0 {
		show := out
		if len(show) > 1500 {
			show = show[:1500] + "…"
		}
		return fmt.Errorf("%s\n  mode=%s\n  markdown: %q\n  html: %q", strings.Join(msgs, "; "), c.Mode, c.Src, show)
	}
	payload := c52HasPayload(c.Src)
	// non-trivial: the document carries an attack payload and the renderer
	// produced structured output for it
	ctx.NTIf(payload && o.elements > 0)
	ctx.ClassIf(payload, "has-payload")
	ctx.ClassIf(c.Pad > 1<<20, "plaintext-fallback")
	ctx.ClassIf(o.links > 0, "out:link")
	ctx.ClassIf(o.imgs > 0, "out:img")
	ctx.ClassIf(o.emptyURL > 0, "out:url-erased")
	ctx.ClassIf(o.elemNames["form"], "out:form")
	ctx.ClassIf(o.elemNames["textarea"], "out:textarea")
	ctx.ClassIf(o.elemNames["select"], "out:select")
	ctx.ClassIf(o.elemNames["details"], "out:details")
	ctx.ClassIf(o.elemNames["table"], "out:table")
	ctx.ClassIf(o.elemNames["pre"], "out:pre")
	ctx.ClassIf(o.elemNames["sup"], "out:footnote")
	ctx.ClassIf(strings.Contains(out, `class="gno-foreign"`), "out:foreign")
	ctx.ClassIf(strings.Contains(out, `gno-foreign: render budget exceeded`), "out:foreign-cap")
	ctx.ClassIf(strings.Contains(out, `class="gno-columns"`), "out:columns")
	ctx.ClassIf(strings.Contains(out, `class="gno-alert`), "out:alert")
	ctx.ClassIf(strings.Contains(out, `link-user`), "out:mention")
	ctx.ClassIf(strings.Contains(out, `raw HTML omitted`), "out:raw-html-omitted")
	ctx.ClassIf(strings.Contains(out, `doc-example`), "out:code-expand")
	ctx.ClassIf(strings.Contains(out, `data-controller="form-exec"`), "out:form-exec")
	ctx.ClassIf(o.schemes["data-image"], "out:data-image-url")
	ctx.ClassIf(o.schemes["file"], "out:file-url")
	return nil
}

var c52Rule = "rapid: markdown from a grammar over CommonMark + GFM (table, strikethrough, footnote, task list) + every gnoweb extension " +
	"(gno-columns, gno-form with inputs/textareas/selects, alerts, mentions/addresses, links, images, gno-foreign sandbox incl. caps, heading attributes and code expansion in the doc context), " +
	"leaves replaced with probability 10/30/60% by attack payloads (raw tags carrying a marker attribute, on*= attribute break-outs, javascript:/vbscript:/data: URLs with case, whitespace, control-char and entity obfuscation), " +
	"then 0-4 character mutations; rendered by NewHTMLRenderer(NewDefaultRenderConfig()) via RenderRealm or RenderDocumentation; " +
	"non-trivial = the document contains a payload and the output DOM has at least one element; distinct by document"

func TestC52_Safety(t *testing.T) {
	vk.Run(t, vk.Spec[c52Case]{
		ID: "C52", Name: "TestC52_Safety", Rule: c52Rule,
		Draw: func(rt *rapid.T) c52Case {
			c := c52Case{Mode: "realm", URL: "/r/test/page"}
			k := c52Uniform(rt, 0, 99, "mode")
			if k < 25 {
				c.Mode = "doc"
			}
			if k%5 == 0 {
				c.URL = "/r/test/page:a/b?x=1"
			}
			c.Src = c52DrawDoc(rt, c.Mode == "doc")
			if c52Uniform(rt, 0, 299, "pad") == 0 {
				c.Pad = 1<<20 + 16
			}
			return c
		},
		Exec: c52Exec,
	})
}
