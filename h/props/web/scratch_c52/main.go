package main

import (
	"bytes"
	"fmt"
	"io"
	"log/slog"
	"os"

	"github.com/gnolang/gno/gno.land/pkg/gnoweb"
	"github.com/gnolang/gno/gno.land/pkg/gnoweb/weburl"
)

func main() {
	r := gnoweb.NewHTMLRenderer(slog.New(slog.NewTextHandler(io.Discard, nil)), gnoweb.NewDefaultRenderConfig(), nil)
	u, _ := weburl.Parse("/r/test/page")
	for _, src := range os.Args[1:] {
		var buf bytes.Buffer
		_, err := r.RenderRealm(&buf, u, []byte(src), gnoweb.RealmRenderContext{ChainId: "dev", Remote: "x", Domain: "gno.land"})
		fmt.Printf("SRC %q\nERR %v\nOUT %s\n", src, err, buf.String())
		buf.Reset()
		err = r.RenderDocumentation(&buf, []byte(src))
		fmt.Printf("DOC %v %s\n\n", err, buf.String())
	}
}
