package atomic

// Shared helpers of the C02 / C10 checks (prefix ax): a small runner over the
// chain engine that supports a small consensus Block.MaxGas (one deployment
// per block), message construction from plain data, result classification.

import (
	"encoding/hex"
	"fmt"
	"strconv"
	"strings"

	"github.com/gnolang/gno/gno.land/pkg/sdk/vm"
	abci "github.com/gnolang/gno/tm2/pkg/bft/abci/types"
	"github.com/gnolang/gno/tm2/pkg/crypto"
	"github.com/gnolang/gno/tm2/pkg/sdk/bank"
	"github.com/gnolang/gno/tm2/pkg/std"
	ec "verif/eng/chain"
	"verif/vk"
)

// axTx is one transaction as plain data.
type axTx struct {
	Signer int       `json:"signer"`
	Gas    int64     `json:"gas"`
	Fee    int64     `json:"fee"`
	Msgs   []ec.HMsg `json:"msgs"`
}

const axFee = 1_000_000

// axMinMaxGas is the smallest Block.MaxGas the runner supports: every library
// realm deployment (<= ~4.0 M gas) must fit into a block of its own and the
// ante rejects GasWanted > Block.MaxGas.
const axMinMaxGas = 4_300_000

// axBurnPath is a realm used by the gas checks (deployed by axStart when asked).
const axBurnPath = "gno.land/r/vv/burn"

type axEnv struct {
	C      *ec.Chain
	Keys   []ec.Key
	T      int64
	MaxGas int64
	Hashes []string
}

// axBuild turns a data message into a std.Msg. Unlike ec.HMsg.Build it honours
// Dep (MaxDeposit) for calls and run scripts as well.
func axBuild(m ec.HMsg, caller crypto.Address, keys []ec.Key) std.Msg {
	msg := m.Build(caller, keys)
	if m.Dep > 0 {
		dep := std.Coins{std.NewCoin("ugnot", m.Dep)}
		switch x := msg.(type) {
		case vm.MsgCall:
			x.MaxDeposit = dep
			return x
		case vm.MsgRun:
			x.MaxDeposit = dep
			return x
		}
	}
	return msg
}

// axNoop is the message of the "only ante effects" twin: a 1ugnot send to self
// (bank.MsgSend requires a positive amount; a self-send changes nothing).
func axNoop(addr crypto.Address) std.Msg {
	return bank.MsgSend{FromAddress: addr, ToAddress: addr, Amount: std.Coins{std.NewCoin("ugnot", 1)}}
}

type axRealm struct{ Path, Src string }

// axStart creates a chain, deploys the library realms (and extra ones), one
// deployment per block so that a small Block.MaxGas is respected, and lets
// every account send one no-op tx (so that all public keys are on record and
// later transactions of one signer have the same shape).
func axStart(nacc int, maxGas int64, extra ...axRealm) (*axEnv, error) {
	if maxGas != 0 && maxGas < axMinMaxGas {
		return nil, fmt.Errorf("harness: MaxGas %d below the supported minimum", maxGas)
	}
	keys := ec.Keys(nacc)
	c, _, err := ec.New(nil, ec.GenesisWithBalances(1e13, keys...), ec.Options{MaxGas: maxGas})
	if err != nil {
		return nil, err
	}
	e := &axEnv{C: c, Keys: keys, MaxGas: maxGas}
	depGas := int64(20_000_000)
	if maxGas != 0 && depGas > maxGas {
		depGas = maxGas
	}
	var all []axRealm
	for _, r := range ec.Realms {
		all = append(all, axRealm{r.Path, r.Src})
	}
	all = append(all, extra...)
	for _, r := range all {
		e.T++
		c.Begin(e.T)
		res, _, err := c.Send([]std.Msg{ec.AddPkg(keys[0].Addr, r.Path, map[string]string{"a.gno": r.Src}, nil)}, depGas, axFee, keys[0])
		if err != nil {
			return nil, err
		}
		if res.Error != nil {
			return nil, fmt.Errorf("harness: realm %s failed to deploy: %v %s", r.Path, res.Error, res.Log)
		}
		c.End()
	}
	for i := 1; i < nacc; i++ {
		e.T++
		c.Begin(e.T)
		res, _, err := c.Send([]std.Msg{axNoop(keys[i].Addr)}, 2_000_000, axFee, keys[i])
		if err != nil {
			return nil, err
		}
		if res.Error != nil {
			return nil, fmt.Errorf("harness: warm-up tx failed: %v %s", res.Error, res.Log)
		}
		c.End()
	}
	return e, nil
}

func (e *axEnv) msgs(tx axTx) ([]std.Msg, ec.Key) {
	k := e.Keys[tx.Signer%len(e.Keys)]
	out := make([]std.Msg, len(tx.Msgs))
	for i, m := range tx.Msgs {
		out[i] = axBuild(m, k.Addr, e.Keys)
	}
	return out, k
}

// Begin starts the next block.
func (e *axEnv) Begin() {
	e.T += 5
	e.C.Begin(e.T)
}

// Send delivers one transaction inside the current block.
func (e *axEnv) Send(tx axTx) (abci.ResponseDeliverTx, error) {
	msgs, k := e.msgs(tx)
	r, _, err := e.C.Send(msgs, tx.Gas, tx.Fee, k)
	return r, err
}

// SendNoop delivers the only-ante-effects twin of tx.
func (e *axEnv) SendNoop(tx axTx) (abci.ResponseDeliverTx, error) {
	k := e.Keys[tx.Signer%len(e.Keys)]
	r, _, err := e.C.Send([]std.Msg{axNoop(k.Addr)}, tx.Gas, tx.Fee, k)
	return r, err
}

// End commits the current block.
func (e *axEnv) End() string {
	_, h := e.C.End()
	hs := hex.EncodeToString(h)
	e.Hashes = append(e.Hashes, hs)
	return hs
}

// Block runs txs in a block of their own.
func (e *axEnv) Block(txs []axTx) ([]abci.ResponseDeliverTx, error) {
	e.Begin()
	var out []abci.ResponseDeliverTx
	for _, tx := range txs {
		r, err := e.Send(tx)
		if err != nil {
			return nil, err
		}
		out = append(out, r)
	}
	e.End()
	return out, nil
}

// Prefix runs history blocks.
func (e *axEnv) Prefix(blocks [][]axTx) error {
	for _, b := range blocks {
		if _, err := e.Block(b); err != nil {
			return err
		}
	}
	return nil
}

// axOOG reports whether the response carries an out-of-gas error.
func axOOG(r abci.ResponseDeliverTx) bool {
	if r.Error == nil {
		return false
	}
	_, ok := r.Error.(std.OutOfGasError)
	return ok
}

func axErrType(r abci.ResponseDeliverTx) string {
	if r.Error == nil {
		return "ok"
	}
	return strings.TrimPrefix(fmt.Sprintf("%T", r.Error), "std.")
}

// axSame compares two responses: error type and text, data, events, gas used
// and wanted. The free-text Log is excluded: it is not consensus data and
// carries Go pointer values and goroutine numbers.
func axSame(a, b abci.ResponseDeliverTx) string {
	x, y := ec.ResultOf(a), ec.ResultOf(b)
	x.Log, y.Log = "", ""
	if x != y {
		return fmt.Sprintf("A=%+v\n B=%+v", x, y)
	}
	return ""
}

func axItoa(n int) string { return strconv.Itoa(n) }

// axGasBound is the clause "reported gas used <= gas wanted", strict against
// the gas wanted DECLARED by the tx. Two literal divergences are routed
// through known findings with narrow matchers:
//   - an out-of-gas tx that passed the ante reports the meter value after the
//     charge that broke the limit (the block is charged GasWanted only);
//   - a tx rejected with out-of-gas before/inside the ante (response
//     GasWanted == 0) reports - and is charged to the block - what the
//     pass-through meter consumed before the tx meter existed.
func axGasBound(ctx *vk.Ctx, r abci.ResponseDeliverTx, declared int64, what string) error {
	if r.GasUsed <= declared {
		return nil
	}
	if axOOG(r) && r.GasWanted == declared && ctx.Known("oog-reported-gas-exceeds-wanted") {
		ctx.Class("known:oog-reported-gas-exceeds-wanted")
		return nil
	}
	if axOOG(r) && r.GasWanted == 0 && ctx.Known("ante-rejected-gas-exceeds-wanted") {
		ctx.Class("known:ante-rejected-gas-exceeds-wanted")
		return nil
	}
	return fmt.Errorf("%s: reported GasUsed %d exceeds the declared GasWanted %d (response: %s, GasWanted %d)", what, r.GasUsed, declared, axErrType(r), r.GasWanted)
}

// axCoins returns the ugnot balance and the sequence of an account (committed).
func (e *axEnv) axAcct(i int) (int64, uint64, error) {
	ai, err := e.C.Account(e.Keys[i%len(e.Keys)].Addr)
	if err != nil {
		return 0, 0, err
	}
	return ai.Coins.AmountOf("ugnot"), ai.Sequence, nil
}
