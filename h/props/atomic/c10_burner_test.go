package atomic

import (
	"fmt"
	"os"
	"strings"
	"testing"

	"pgregory.net/rapid"
	ec "verif/eng/chain"
	"verif/vk"
)

// C10 (burners) — every Gno program stops within its gas limit, measured in
// gas and abstract work, never in time.
//
// A burner is a realm function whose amount of work W(shape, n, m) is known by
// construction (loop iterations, calls, bytes allocated / hashed / copied /
// compared, word multiplications of a modular exponentiation). It is called
// with a drawn GasWanted. Oracle: if the call is reported successful then the
// work was really done, so GasUsed <= GasWanted and GasUsed >= eps(shape) * W
// — a fixed, a-priori lower bound on gas per unit of work (the repository
// calibrates 1 gas = 1 ns; eps is far below any plausible cost). Work that is
// not metered therefore shows up as a successful call whose gas is too small
// for its work — without any wall-clock measurement. If the call fails it must
// fail with the out-of-gas error, pay exactly the fee and leave the realm's
// marker unchanged. Unbounded burners must fail.

const c10BurnRealm = `package burn

import (
	"crypto/modexp"
	"crypto/sha256"
	"sort"
	"strconv"
	"strings"
)

var Marker int

type Blob struct {
	B []byte
	S string
}

var Slots [64]*Blob

func Loop(cur realm, n int) int {
	Marker++
	x := 0
	for i := 0; i < n; i++ {
		x += i % 7
	}
	return x
}

func Nest(cur realm, n, m int) int {
	Marker++
	x := 0
	for i := 0; i < m; i++ {
		for j := 0; j < n; j++ {
			x ^= j
		}
	}
	return x
}

func rec(k int) int {
	if k == 0 {
		return 0
	}
	return 1 + rec(k-1)
}

func Rec(cur realm, n, m int) int {
	Marker++
	x := 0
	for i := 0; i < m; i++ {
		x += rec(n)
	}
	return x
}

func fib(k int) int {
	if k < 2 {
		return 1
	}
	return fib(k-1) + fib(k-2)
}

func Fib(cur realm, k int) int {
	Marker++
	return fib(k)
}

func Alloc(cur realm, n, m int) int {
	Marker++
	t := 0
	for i := 0; i < m; i++ {
		b := make([]byte, n)
		t += len(b)
	}
	return t
}

func Double(cur realm, k int) int {
	Marker++
	s := "x"
	for i := 0; i < k; i++ {
		s += s
	}
	return len(s)
}

func Append(cur realm, n int) int {
	Marker++
	var s []int
	for i := 0; i < n; i++ {
		s = append(s, i)
	}
	return len(s)
}

func Map(cur realm, n int) int {
	Marker++
	mm := map[int]int{}
	for i := 0; i < n; i++ {
		mm[i] = i
	}
	return len(mm)
}

func Sha(cur realm, n, m int) int {
	Marker++
	b := make([]byte, n)
	t := 0
	for i := 0; i < m; i++ {
		h := sha256.Sum256(b)
		t += int(h[0])
		b[0] = h[1]
	}
	return t
}

func Sort(cur realm, n, m int) int {
	Marker++
	t := 0
	for r := 0; r < m; r++ {
		s := make([]int, n)
		for i := range s {
			s[i] = (i * 7919) % n
		}
		sort.Ints(s)
		t += s[0]
	}
	return t
}

func Repeat(cur realm, n, m int) int {
	Marker++
	t := 0
	for i := 0; i < m; i++ {
		t += len(strings.Repeat("ab", n))
	}
	return t
}

func Contains(cur realm, n, m int) int {
	Marker++
	big := strings.Repeat("a", n)
	t := 0
	for i := 0; i < m; i++ {
		if strings.Contains(big, "ab") {
			t++
		}
	}
	return t
}

func Copy(cur realm, n, m int) int {
	Marker++
	a := make([]byte, n)
	b := make([]byte, n)
	t := 0
	for i := 0; i < m; i++ {
		t += copy(a, b)
	}
	return t
}

func Conv(cur realm, n, m int) int {
	Marker++
	s := strings.Repeat("a", n)
	t := 0
	for i := 0; i < m; i++ {
		b := []byte(s)
		t += len(b)
	}
	return t
}

func Cmp(cur realm, n, m int) int {
	Marker++
	a := strings.Repeat("a", n)
	b := strings.Repeat("a", n-1) + "a"
	t := 0
	for i := 0; i < m; i++ {
		if a == b {
			t++
		}
	}
	return t
}

func Itoa(cur realm, n int) int {
	Marker++
	t := 0
	for i := 0; i < n; i++ {
		t += len(strconv.Itoa(i))
	}
	return t
}

func ModExp(cur realm, elen, mlen, m int) int {
	Marker++
	// operands are built without interpreted loops so that the cost of the
	// calls themselves is what the transaction pays for
	base := []byte(strings.Repeat("\xfe", mlen))
	exp := []byte(strings.Repeat("\xff", elen))
	mod := []byte(strings.Repeat("\xff", mlen))
	t := 0
	for i := 0; i < m; i++ {
		r := modexp.ModExp(base, exp, mod)
		t += int(r[len(r)-1])
	}
	return t
}

func Store(cur realm, n int) int {
	Marker++
	for i := 0; i < n; i++ {
		Slots[i%64] = &Blob{B: make([]byte, 32), S: "s"}
	}
	return n
}

func Forever(cur realm) int {
	Marker++
	x := 0
	for {
		x++
	}
	return x
}
`

type c10Burn struct {
	Shape string `json:"shape"`
	N     int    `json:"n"`
	M     int    `json:"m"`
	Gas   int64  `json:"gas"`
}

type c10BurnCase struct {
	Burns []c10Burn `json:"burns"`
}

// c10Shape describes one burner: its arguments, its work and the a-priori
// minimum gas per unit of work as a fraction num/den.
type c10Shape struct {
	name     string
	two      bool // takes (n, m)
	unit     string
	num, den int64
	work     func(n, m int) float64
	maxN     int // bound on n (allocation sizes, recursion depth)
}

func c10Fib(k int) float64 {
	a, b := 1.0, 1.0
	for i := 2; i <= k; i++ {
		a, b = b, a+b
	}
	return 2*b - 1 // number of calls of fib(k) with fib(0)=fib(1)=1 leaf
}

var c10Shapes = []c10Shape{
	{"Loop", false, "iteration", 1, 1, func(n, m int) float64 { return float64(n) }, 1 << 30},
	{"Nest", true, "iteration", 1, 1, func(n, m int) float64 { return float64(n) * float64(m) }, 1 << 20},
	{"Rec", true, "call", 1, 1, func(n, m int) float64 { return float64(n) * float64(m) }, 200},
	{"Fib", false, "call", 1, 1, func(n, m int) float64 { return c10Fib(n) }, 40},
	{"Alloc", true, "byte", 1, 64, func(n, m int) float64 { return float64(n) * float64(m) }, 1 << 20},
	{"Double", false, "byte", 1, 64, func(n, m int) float64 { return float64(int64(1) << uint(n)) }, 27},
	{"Append", false, "element", 1, 1, func(n, m int) float64 { return float64(n) }, 1 << 30},
	{"Map", false, "element", 1, 1, func(n, m int) float64 { return float64(n) }, 1 << 30},
	{"Sha", true, "byte", 1, 1, func(n, m int) float64 { return float64(n) * float64(m) }, 1 << 20},
	{"Sort", true, "element", 1, 1, func(n, m int) float64 { return float64(n) * float64(m) }, 1 << 16},
	{"Repeat", true, "byte", 1, 64, func(n, m int) float64 { return 2 * float64(n) * float64(m) }, 1 << 19},
	{"Contains", true, "byte", 1, 64, func(n, m int) float64 { return float64(n) * float64(m) }, 1 << 20},
	{"Copy", true, "byte", 1, 64, func(n, m int) float64 { return float64(n) * float64(m) }, 1 << 20},
	{"Conv", true, "byte", 1, 64, func(n, m int) float64 { return float64(n) * float64(m) }, 1 << 20},
	{"Cmp", true, "byte", 1, 64, func(n, m int) float64 { return float64(n) * float64(m) }, 1 << 20},
	{"Itoa", false, "call", 1, 1, func(n, m int) float64 { return float64(n) }, 1 << 30},
	{"Store", false, "iteration", 1, 1, func(n, m int) float64 { return float64(n) }, 1 << 30},
}

func c10ShapeOf(name string) *c10Shape {
	for i := range c10Shapes {
		if c10Shapes[i].name == name {
			return &c10Shapes[i]
		}
	}
	return nil
}

func c10BurnMsg(b c10Burn) ec.HMsg {
	switch b.Shape {
	case "Forever":
		return c02Call(axBurnPath, "Forever")
	case "ModExp":
		// N = exponent bytes, M encodes modulus bytes (low 12 bits) and call count
		return c02Call(axBurnPath, "ModExp", axItoa(b.N), axItoa(b.M&0xfff), axItoa(b.M>>12))
	}
	sh := c10ShapeOf(b.Shape)
	if sh.two {
		return c02Call(axBurnPath, b.Shape, axItoa(b.N), axItoa(b.M))
	}
	return c02Call(axBurnPath, b.Shape, axItoa(b.N))
}

// c10BurnBound returns (work, num, den, unit): success requires
// GasUsed*den >= work*num.
func c10BurnBound(b c10Burn) (float64, int64, int64, string) {
	if b.Shape == "ModExp" {
		mlen, calls := b.M&0xfff, b.M>>12
		words := float64((mlen + 7) / 8)
		// square-and-multiply: one modular squaring per exponent bit, each
		// at least words^2 word multiplications
		return float64(calls) * 8 * float64(b.N) * words * words, 1, 4, "word-multiplication"
	}
	if b.Shape == "Forever" {
		return 1e300, 1, 1, "iteration"
	}
	sh := c10ShapeOf(b.Shape)
	return sh.work(b.N, b.M), sh.num, sh.den, sh.unit
}

func c10DrawBurn(rt *rapid.T) c10Burn {
	b := c10Burn{Gas: rapid.SampledFrom([]int64{2_500_000, 4_000_000, 8_000_000, 16_000_000}).Draw(rt, "gas")}
	k := rapid.IntRange(0, len(c10Shapes)+2).Draw(rt, "shape")
	// target amount of work: 10^3 .. 10^8 units, log-uniform
	exp10 := rapid.IntRange(30, 80).Draw(rt, "work-exp10")
	target := 1.0
	for i := 0; i < exp10/10; i++ {
		target *= 10
	}
	target *= []float64{1, 1.26, 1.58, 2, 2.5, 3.2, 4, 5, 6.3, 7.9}[exp10%10]
	switch {
	case k == len(c10Shapes):
		b.Shape = "Forever"
		return b
	case k > len(c10Shapes):
		b.Shape = "ModExp"
		mlen := rapid.SampledFrom([]int{8, 32, 64, 256}).Draw(rt, "mlen")
		calls := rapid.IntRange(1, 8).Draw(rt, "calls")
		words := float64((mlen + 7) / 8)
		// at most 3*10^8 word multiplications per transaction (about half a
		// second of real work if it is not stopped)
		elen := int(target * 3 / (float64(calls) * 8 * words * words))
		if elen < 1 {
			elen = 1
		}
		if elen > 1<<18 {
			elen = 1 << 18
		}
		b.N, b.M = elen, mlen|calls<<12
		return b
	}
	sh := c10Shapes[k]
	b.Shape = sh.name
	switch sh.name {
	case "Fib":
		b.N = 5
		for b.N < sh.maxN && c10Fib(b.N) < target {
			b.N++
		}
	case "Double":
		b.N = 1
		for b.N < sh.maxN && float64(int64(1)<<uint(b.N)) < target*64 {
			b.N++
		}
	default:
		if sh.den > 1 {
			target *= float64(sh.den) // byte-oriented shapes: cheap per unit
		}
		if sh.two {
			if sh.den > 1 {
				// byte-oriented shapes: large blocks, so that the interpreted
				// loop around them is negligible per byte
				b.N = rapid.SampledFrom([]int{4096, 65536, 1 << 18, 1 << 20, 1 << 20}).Draw(rt, "nbytes")
			} else {
				b.N = rapid.SampledFrom([]int{16, 256, 4096, 65536, 1 << 20}).Draw(rt, "n")
			}
			if b.N > sh.maxN {
				b.N = sh.maxN
			}
			per := float64(b.N)
			if sh.name == "Repeat" {
				per *= 2
			}
			b.M = int(target / per)
			if b.M < 1 {
				b.M = 1
			}
		} else {
			b.N = int(target)
		}
	}
	return b
}

func c10BurnExec(ctx *vk.Ctx, c c10BurnCase) error {
	e, err := axStart(2, 0, axRealm{axBurnPath, c10BurnRealm})
	if err != nil {
		return err
	}
	debug := os.Getenv("VERIF_DEBUG") != ""
	marker := 0
	nt := false
	for i, b := range c.Burns {
		bal0, seq0, err := e.axAcct(1)
		if err != nil {
			return err
		}
		rs, err := e.Block([]axTx{{Signer: 1, Fee: axFee, Gas: b.Gas, Msgs: []ec.HMsg{c10BurnMsg(b)}}})
		if err != nil {
			return err
		}
		r := rs[0]
		bal1, seq1, err := e.axAcct(1)
		if err != nil {
			return err
		}
		work, num, den, unit := c10BurnBound(b)
		if debug {
			fmt.Printf("burn %-8s n=%-8d m=%-8d G=%-9d -> %-14s used=%-9d work=%.3g gas/unit=%.4f\n", b.Shape, b.N, b.M, b.Gas, axErrType(r), r.GasUsed, work, float64(r.GasUsed)/work)
		}
		if r.GasWanted != b.Gas {
			return fmt.Errorf("burner %d %+v: response GasWanted=%d (the ante must pass: %v %.200q)", i, b, r.GasWanted, r.Error, r.Log)
		}
		if seq1 != seq0+1 {
			return fmt.Errorf("burner %d %+v: sequence %d -> %d", i, b, seq0, seq1)
		}
		ctx.Class("shape=" + b.Shape)
		if err := axGasBound(ctx, r, b.Gas, fmt.Sprintf("burner %d %+v", i, b)); err != nil {
			return err
		}
		if r.Error == nil {
			marker++
			ctx.Class("completed:" + b.Shape)
			if b.Shape == "Forever" {
				return fmt.Errorf("burner %d: an endless loop was reported successful (gas used %d)", i, r.GasUsed)
			}
			if float64(r.GasUsed)*float64(den) < work*float64(num) {
				key := "unmetered-work:" + b.Shape
				if !ctx.Known(key) {
					return fmt.Errorf("burner %d %+v completed %.4g %ss for only %d gas (%.5f gas per %s; the minimum taken for granted is %d/%d): work is not metered [%s]",
						i, b, work, unit, r.GasUsed, float64(r.GasUsed)/work, unit, num, den, key)
				}
				ctx.Class("known:" + key)
			}
			// (a successful call may also lock a storage deposit; no exact
			// balance expectation here)
			nt = nt || work >= 1e5
		} else {
			ctx.Class("stopped:" + b.Shape)
			if !axOOG(r) {
				return fmt.Errorf("burner %d %+v failed with %s, not with out-of-gas: %.300q", i, b, axErrType(r), r.Log)
			}
			if bal0-bal1 != axFee {
				return fmt.Errorf("burner %d %+v ran out of gas; balance changed by %d, fee is %d", i, b, bal0-bal1, axFee)
			}
			nt = true
		}
		got, err := e.C.QEval(axBurnPath, "Marker")
		if err != nil {
			return err
		}
		if want := fmt.Sprintf("(%d int)", marker); strings.TrimSpace(got) != want {
			return fmt.Errorf("burner %d %+v (%s): realm marker is %s, want %s (effects of failed txs must be discarded, of successful ones kept)", i, b, axErrType(r), got, want)
		}
	}
	ctx.NTIf(nt)
	return nil
}

func TestC10_Burner(t *testing.T) {
	vk.Run(t, vk.Spec[c10BurnCase]{
		ID: "C10", Name: "TestC10_Burner",
		Rule: "rapid: 3-6 burner calls per fresh chain; shape in {loop, nested loop, recursion, fib, make([]byte), string doubling, append, map growth, sha256, sort, strings.Repeat/Contains, copy, []byte(string), string ==, strconv.Itoa, persistent object churn, modexp, endless loop}, amount of work log-uniform 10^3..10^8 units, GasWanted in {2.5M, 4M, 8M, 16M}; a successful call must have GasUsed <= GasWanted and GasUsed >= eps*work (eps = 1 gas per iteration/call/element/sha256 byte, 1/64 gas per byte moved or compared, 1/4 gas per word multiplication), a failed one must be out-of-gas with exactly the fee paid and the realm marker unchanged; non-trivial = some burner did >= 10^5 units of work or ran out of gas",
		Draw: func(rt *rapid.T) c10BurnCase {
			var c c10BurnCase
			for n := rapid.IntRange(3, 6).Draw(rt, "nburn"); n > 0; n-- {
				c.Burns = append(c.Burns, c10DrawBurn(rt))
			}
			return c
		},
		Exec: c10BurnExec,
	})
}

// c10FixedBurns: for every shape one burner whose work is so large that
// eps*work exceeds its GasWanted several times - it can only be reported
// successful if (part of) its work is not metered - and one moderate burner
// that completes with ample gas (validating the lower bound on real runs).
func c10FixedBurns() (huge, moderate c10BurnCase) {
	const W = 20_000_000 // units of work of the huge variant (iterations; x64 for byte shapes)
	for _, sh := range c10Shapes {
		h := c10Burn{Shape: sh.name, Gas: 4_000_000}
		m := c10Burn{Shape: sh.name, Gas: 150_000_000}
		switch sh.name {
		case "Fib":
			h.N, m.N = 35, 15
		case "Double":
			h.N, h.Gas, m.N = 27, 2_000_000, 16
		case "Rec":
			h.N, h.M, m.N, m.M = 200, W/200, 100, 10
		case "Sort":
			h.N, h.M, m.N, m.M = 65536, W/65536+1, 64, 4
		case "Sha":
			h.N, h.M, m.N, m.M = 1<<20, W>>20+1, 65536, 8
		case "Nest":
			h.N, h.M, m.N, m.M = 4096, W/4096+1, 64, 16
		default:
			if sh.two { // byte shapes: 2000 blocks of 1 MiB at 40M gas (eps*work = 32.8M
				// is out of reach once setup and loop overhead are paid, unless
				// the per-byte work itself is free)
				h.N, h.M, h.Gas, m.N, m.M = 1<<20, 2000, 40_000_000, 65536, 16
				if h.N > sh.maxN {
					h.N = sh.maxN
				}
			} else {
				h.N, m.N = W, 1000
			}
		}
		huge.Burns = append(huge.Burns, h)
		moderate.Burns = append(moderate.Burns, m)
	}
	huge.Burns = append(huge.Burns, c10Burn{Shape: "Forever", Gas: 3_000_000})
	moderate.Burns = append(moderate.Burns, c10Burn{Shape: "ModExp", N: 32, M: 32 | 2<<12, Gas: 150_000_000})
	return
}

// TestC10_BurnerShapes runs the fixed huge and moderate burners of every shape.
func TestC10_BurnerShapes(t *testing.T) {
	r := vk.Open(t, "C10", "TestC10_BurnerShapes", "enumeration: every burner shape once with huge work (2*10^7 iterations at GasWanted 4M; 2000 blocks of 1 MiB at 40M for byte-oriented shapes; eps*work is out of reach, so it must be stopped) and once with moderate work and ample gas (must complete and satisfy GasUsed >= eps*work); same oracle as TestC10_Burner")
	defer r.Close()
	if vk.Replaying() {
		t.Skip()
	}
	r.ReplayAs = "TestC10_Burner"
	r.Extra("exhaustive", false)
	huge, moderate := c10FixedBurns()
	for i, c := range []c10BurnCase{huge, moderate} {
		c := c
		err := r.Do(c, func(ctx *vk.Ctx) error {
			if err := c10BurnExec(ctx, c); err != nil {
				return err
			}
			return nil
		})
		if err != nil {
			return
		}
		_ = i
	}
}
