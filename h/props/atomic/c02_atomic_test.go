package atomic

import (
	"bytes"
	"fmt"
	"strings"
	"testing"

	"github.com/gnolang/gno/tm2/pkg/amino"
	abci "github.com/gnolang/gno/tm2/pkg/bft/abci/types"
	"github.com/gnolang/gno/tm2/pkg/sdk"
	"pgregory.net/rapid"
	ec "verif/eng/chain"
	"verif/vk"
)

// C02 — transactions are atomic: a failed transaction has only ante effects.
//
// Twin execution. Two fresh chains run the same generated prefix history. In
// the next block chain A receives the multi-message transaction T whose i-th
// message is made to fail by a generated cause; chain B receives T' = same
// signer, fee, gas-wanted and sequence, but a single no-op message. If T is
// reported failed the committed states, the app hashes, the results of later
// transactions of the same block and of a follow-up block (delivered without
// restarting either chain) and a few queries must be identical on A and B.
// If T is reported successful, its effects must equal the effects of its
// messages delivered as separate transactions (chain S).

const (
	c02None     = "none"
	c02MsgErr   = "msg-error"
	c02GnoPanic = "gno-panic"
	c02GoPanic  = "go-panic"
	c02Deposit  = "deposit"
	c02TxOOG    = "tx-oog"
	c02BlockGas = "block-gas"
)

type c02Case struct {
	NAcc   int       `json:"nacc"`
	Cause  string    `json:"cause"`
	Prefix [][]axTx  `json:"prefix"`
	T      axTx      `json:"t"`
	FailAt int       `json:"fail_at"`
	Perm   int       `json:"perm"`             // 0..999: position of the gas limit inside its window
	MaxGas int64     `json:"maxgas,omitempty"` // block-gas cause: consensus Block.MaxGas
	Regime string    `json:"regime,omitempty"` // block-gas cause: after-msgs | pre-ante | exhausted
	Fill   []axTx    `json:"fill,omitempty"`   // block-gas cause: successful txs before the burner
	After  []axTx    `json:"after,omitempty"`  // later txs of T's block (not for block-gas)
	F      []axTx    `json:"f"`                // follow-up block after the reader script
}

const c02BlockTxGas = 4_200_000 // GasWanted of every tx of a small-MaxGas chain (<= axMinMaxGas)

func c02Call(pkg, fn string, args ...string) ec.HMsg {
	return ec.HMsg{Kind: "call", Pkg: pkg, Fn: fn, Args: args}
}

var c02GenBodies = []string{
	"package %s\n\nvar X = []int{1, 2, 3}\n\nfunc Add(cur realm, n int) int { X = append(X, n); return len(X) }\n",
	"package %s\n\nimport \"gno.land/r/vv/ctr\"\n\nvar S string\n\nfunc init() { S = \"init\" }\n\nfunc Add(cur realm, n int) int { S += \"!\"; return ctr.Inc(cross(cur), n) }\n",
	"package %s\n\ntype T struct{ A, B int }\n\nvar M = map[string]*T{}\n\nfunc Add(cur realm, n int) int { M[string(rune('a'+n%%26))] = &T{len(M), n}; return len(M) }\n",
}

func c02GenPkg(rt *rapid.T, body string) ec.HMsg {
	name := "p" + axItoa(rapid.IntRange(0, 3).Draw(rt, "pn"))
	return ec.HMsg{Kind: "addpkg", Path: "gno.land/r/gen/" + name, Body: fmt.Sprintf(body, name)}
}

// c02RunImport is a script that imports a generated package and calls it (the
// import is type-checked, so it goes through the keeper's type-check cache).
func c02RunImport(path string) ec.HMsg {
	name := path[strings.LastIndex(path, "/")+1:]
	return ec.HMsg{Kind: "run", Body: "package main\n\nimport \"" + path + "\"\n\nfunc main(cur realm) {\n\tprintln(" + name + ".Add(cross(cur), 2))\n}\n"}
}

// c02Good draws a message that writes state and succeeds in ordinary states.
func c02Good(rt *rapid.T, nacc int) ec.HMsg {
	key := func() string { return rapid.StringMatching("[a-d]").Draw(rt, "k") }
	switch rapid.IntRange(0, 15).Draw(rt, "good") {
	case 0:
		return c02Call(ec.PathCtr, "Inc", axItoa(rapid.IntRange(1, 9).Draw(rt, "n")))
	case 1:
		return c02Call(ec.PathCtr, "Note", rapid.StringMatching("[a-c]{1,12}").Draw(rt, "s"))
	case 2:
		return c02Call(ec.PathKV, "Set", key(), rapid.StringMatching("[x-z]{1,40}").Draw(rt, "v"))
	case 3:
		return c02Call(ec.PathKV, "Push", key(), rapid.StringMatching("[x-z]{1,20}").Draw(rt, "v"))
	case 4:
		return c02Call(ec.PathMulti, "Both", key(), axItoa(rapid.IntRange(0, 5).Draw(rt, "n")))
	case 5:
		return ec.HMsg{Kind: "call", Pkg: ec.PathBank, Fn: "Deposit", Send: rapid.SampledFrom([]int64{1, 5000}).Draw(rt, "send")}
	case 6:
		return c02Call(ec.PathBank, "Mint", "@"+axItoa(rapid.IntRange(-2, nacc-1).Draw(rt, "to")), axItoa(rapid.SampledFrom([]int{1, 7, 1000}).Draw(rt, "amt")))
	case 7:
		return ec.HMsg{Kind: "send", To: rapid.IntRange(-3, nacc-1).Draw(rt, "to"), Amt: rapid.SampledFrom([]int64{1, 1000, 999_999}).Draw(rt, "amt"), Den: "ugnot"}
	case 8:
		return c02Call(ec.PathKV, "Del", key())
	case 9:
		return c02Call(ec.PathKV, "Pop", axItoa(rapid.IntRange(1, 3).Draw(rt, "n")))
	case 10:
		return c02Call(ec.PathCtr, "Trim", axItoa(rapid.IntRange(1, 3).Draw(rt, "n")))
	case 11:
		return ec.HMsg{Kind: "run", Body: c02RunWrite}
	case 12:
		return c02RunImport("gno.land/r/gen/p" + axItoa(rapid.IntRange(0, 3).Draw(rt, "pn")))
	case 13:
		return c02Call("gno.land/r/gen/p"+axItoa(rapid.IntRange(0, 3).Draw(rt, "pn")), "Add", axItoa(rapid.IntRange(0, 9).Draw(rt, "n")))
	default:
		return c02GenPkg(rt, c02GenBodies[rapid.IntRange(0, len(c02GenBodies)-1).Draw(rt, "body")])
	}
}

const c02RunWrite = "package main\n\nimport (\n\t\"gno.land/r/vv/kv\"\n\t\"gno.land/r/vv/ctr\"\n)\n\nfunc main(cur realm) {\n\tkv.Set(cross(cur), \"r\", \"run\")\n\tkv.Push(cross(cur), \"r\", \"run\")\n\tctr.Note(cross(cur), \"from-run\")\n}\n"
const c02RunPanic = "package main\n\nimport \"gno.land/r/vv/kv\"\n\nfunc main(cur realm) {\n\tkv.Set(cross(cur), \"r\", \"gone\")\n\tkv.Push(cross(cur), \"r\", \"gone\")\n\tpanic(\"run panic\")\n}\n"

// c02Bad draws a message failing by the given cause.
func c02Bad(rt *rapid.T, nacc int, cause string) ec.HMsg {
	switch cause {
	case c02MsgErr:
		switch rapid.IntRange(0, 5).Draw(rt, "bad") {
		case 0:
			return ec.HMsg{Kind: "send", To: rapid.IntRange(-3, nacc-1).Draw(rt, "to"), Amt: 1 << 50, Den: "ugnot"}
		case 1:
			return ec.HMsg{Kind: "send", To: 0, Amt: 1 << 40, Den: "/" + ec.PathBank + ":none"}
		case 2:
			return ec.HMsg{Kind: "call", Pkg: ec.PathBank, Fn: "Deposit", Send: 1 << 50}
		case 3:
			return ec.HMsg{Kind: "addpkg", Path: ec.PathCtr, Body: "package ctr\n\nvar X = 1\n"}
		case 4:
			return c02GenPkg(rt, "package %s\n\nfunc Broken( int {\n")
		default:
			return c02GenPkg(rt, "package %s\n\nvar X int = \"s\"\n")
		}
	case c02GnoPanic:
		switch rapid.IntRange(0, 5).Draw(rt, "bad") {
		case 0:
			return c02Call(ec.PathCtr, "Boom", "1")
		case 1:
			return c02Call(ec.PathMulti, "BothThenBoom", "q", "1")
		case 2:
			return ec.HMsg{Kind: "run", Body: c02RunPanic}
		case 3:
			return c02GenPkg(rt, "package %s\n\nvar X = []int{1}\n\nfunc init() { X = append(X, 2); panic(\"init panic\") }\n")
		case 4:
			return c02Call(ec.PathBank, "Pay", "@0", axItoa(1<<40))
		default:
			return c02Call(ec.PathBank, "Burn", "@-2", "5000")
		}
	case c02GoPanic:
		switch rapid.IntRange(0, 4).Draw(rt, "bad") {
		case 0:
			return c02Call(ec.PathCtr, "Nope")
		case 1:
			return c02Call(ec.PathCtr, "Inc", "x")
		case 2:
			return c02Call(ec.PathCtr, "Inc")
		case 3:
			return c02Call(ec.PathCtr, "Render", "")
		default:
			return c02Call("gno.land/r/none/x", "F")
		}
	case c02Deposit:
		var m ec.HMsg
		switch rapid.IntRange(0, 4).Draw(rt, "bad") {
		case 0:
			m = c02Call(ec.PathKV, "Push", "a", rapid.StringMatching("[x-z]{20,40}").Draw(rt, "v"))
		case 1:
			m = c02Call(ec.PathCtr, "Note", rapid.StringMatching("[a-c]{20,40}").Draw(rt, "s"))
		case 2:
			m = c02GenPkg(rt, c02GenBodies[rapid.IntRange(0, len(c02GenBodies)-1).Draw(rt, "body")])
		case 3:
			m = ec.HMsg{Kind: "run", Body: c02RunWrite}
		default:
			m = c02Call(ec.PathMulti, "Both", "zz", "1")
		}
		m.Dep = rapid.SampledFrom([]int64{1, 1, 50}).Draw(rt, "dep")
		return m
	}
	panic("no bad message for cause " + cause)
}

var c02Causes = []string{c02None, c02MsgErr, c02MsgErr, c02GnoPanic, c02GnoPanic, c02GoPanic, c02Deposit, c02Deposit,
	c02TxOOG, c02TxOOG, c02TxOOG, c02BlockGas, c02BlockGas, c02BlockGas}

func c02Draw(rt *rapid.T) c02Case {
	c := c02Case{NAcc: rapid.IntRange(2, 4).Draw(rt, "nacc")}
	c.Cause = rapid.SampledFrom(c02Causes).Draw(rt, "cause")
	small := c.Cause == c02BlockGas
	gas := int64(60_000_000)
	if small {
		gas = c02BlockTxGas
	}
	goodTx := func(maxMsgs int) axTx {
		tx := axTx{Signer: rapid.IntRange(0, c.NAcc-1).Draw(rt, "signer"), Fee: axFee, Gas: gas}
		for n := rapid.IntRange(1, maxMsgs).Draw(rt, "nmsgs"); n > 0; n-- {
			tx.Msgs = append(tx.Msgs, c02Good(rt, c.NAcc))
		}
		return tx
	}
	anyTx := func() axTx {
		h := ec.DrawTx(rt, c.NAcc, 2)
		return axTx{Signer: h.Signer, Fee: axFee, Gas: gas, Msgs: h.Msgs}
	}
	for nb := rapid.IntRange(0, 2).Draw(rt, "nprefix"); nb > 0; nb-- {
		var blk []axTx
		nt := 1
		if !small {
			nt = rapid.IntRange(1, 2).Draw(rt, "ntx")
		}
		for ; nt > 0; nt-- {
			if small {
				blk = append(blk, goodTx(1))
			} else if rapid.IntRange(0, 3).Draw(rt, "any") == 0 {
				blk = append(blk, anyTx())
			} else {
				blk = append(blk, goodTx(2))
			}
		}
		c.Prefix = append(c.Prefix, blk)
	}
	// the transaction under test
	c.T = axTx{Signer: rapid.IntRange(0, c.NAcc-1).Draw(rt, "tsigner"), Fee: axFee, Gas: gas}
	n := rapid.IntRange(2, 4).Draw(rt, "tmsgs")
	if small {
		n = rapid.IntRange(1, 2).Draw(rt, "tmsgs-small")
	}
	c.FailAt = n - 1
	if n > 1 {
		c.FailAt = rapid.IntRange(1, n-1).Draw(rt, "failat")
	}
	if rapid.IntRange(0, 7).Draw(rt, "first") == 0 {
		c.FailAt = 0
	}
	for i := 0; i < n; i++ {
		bad := i == c.FailAt && c.Cause != c02None && c.Cause != c02TxOOG && c.Cause != c02BlockGas
		if bad {
			c.T.Msgs = append(c.T.Msgs, c02Bad(rt, c.NAcc, c.Cause))
		} else {
			c.T.Msgs = append(c.T.Msgs, c02Good(rt, c.NAcc))
		}
	}
	c.Perm = rapid.IntRange(0, 999).Draw(rt, "perm")
	if small {
		c.MaxGas = rapid.Int64Range(6_000_000, 12_000_000).Draw(rt, "maxgas")
		c.Regime = rapid.SampledFrom([]string{"after-msgs", "after-msgs", "after-msgs", "pre-ante", "exhausted"}).Draw(rt, "regime")
		for k := rapid.IntRange(0, 1).Draw(rt, "nfill"); k > 0; k-- {
			c.Fill = append(c.Fill, goodTx(1))
		}
	} else {
		for k := rapid.IntRange(0, 2).Draw(rt, "nafter"); k > 0; k-- {
			c.After = append(c.After, anyTx())
		}
	}
	for k := rapid.IntRange(1, 3).Draw(rt, "nfollow"); k > 0; k-- {
		c.F = append(c.F, anyTx())
	}
	return c
}

// c02Reader reads everything the library realms hold and then writes to them,
// so that a stale object left in a VM cache by a failed tx would be built upon.
const c02Reader = `package main

import (
	"gno.land/r/vv/bnk"
	"gno.land/r/vv/ctr"
	"gno.land/r/vv/kv"
	"gno.land/r/vv/multi"
)

func main(cur realm) {
	println(ctr.Render(""), ctr.N, len(ctr.Log))
	for _, s := range ctr.Log {
		println(s)
	}
	println(kv.Render(""), kv.Len, len(kv.M))
	for _, k := range []string{"a", "b", "c", "d", "q", "r", "zz"} {
		println(k, kv.Get(k))
	}
	println(multi.Calls, bnk.Received)
	ctr.Inc(cross(cur), 1)
	ctr.Note(cross(cur), "reader")
	kv.Set(cross(cur), "f", "follow")
	kv.Push(cross(cur), "f", "follow")
}
`

var c02Queries = [][2]string{
	{ec.PathCtr, "N"}, {ec.PathCtr, "len(Log)"}, {ec.PathCtr, "Render(\"\")"}, {ec.PathKV, "Render(\"\")"}, {ec.PathKV, "Len"},
	{ec.PathMulti, "Calls"}, {ec.PathBank, "Received"},
	{"gno.land/r/gen/p0", "Add"}, {"gno.land/r/gen/p1", "Add"}, {"gno.land/r/gen/p2", "Add"}, {"gno.land/r/gen/p3", "Add"},
}

func c02QueryAll(e *axEnv) string {
	var sb strings.Builder
	for _, q := range c02Queries {
		v, err := e.C.QEval(q[0], q[1])
		if err != nil {
			// error text of a query carries Go stack traces with goroutine numbers
			v = "error"
		}
		fmt.Fprintf(&sb, "%s.%s=%s;", q[0], q[1], v)
	}
	return sb.String()
}

// axSim runs tx through the application's simulate query (no state change).
func axSim(e *axEnv, tx axTx, noop bool) (int64, bool, error) {
	msgs, k := e.msgs(tx)
	if noop {
		msgs = msgs[:0]
		msgs = append(msgs, axNoop(k.Addr))
	}
	bz, err := e.C.MakeTx(msgs, tx.Gas, tx.Fee, k)
	if err != nil {
		return 0, false, err
	}
	q := e.C.Query(".app/simulate", bz)
	if q.Error != nil {
		return 0, false, fmt.Errorf("harness: simulate query failed: %v", q.Error)
	}
	var res sdk.Result
	if err := amino.Unmarshal(q.Value, &res); err != nil {
		return 0, false, fmt.Errorf("harness: simulate result does not decode: %v", err)
	}
	return res.GasUsed, res.Error == nil, nil
}

// c02Plan is what the first chain works out from measurements and the second
// chain repeats verbatim.
type c02Plan struct {
	TGas  int64   // GasWanted of T / T'
	Burns []int64 // block-gas cause: GasWanted of the burner txs before T
}

const c02MinBurn = 1_750_000 // a burner must also find >= ~1.66M block gas left when it starts

const c02BurnBody = "package main\n\nfunc main() {\n\tx := 0\n\tfor {\n\t\tx++\n\t}\n}\n"

type c02Run struct {
	env      *axEnv
	fill     []abci.ResponseDeliverTx
	t        abci.ResponseDeliverTx
	after    []abci.ResponseDeliverTx
	hashT    string
	dumpT    ec.Dump
	queriesT string
}

// c02Deliver runs prefix and T's block on a fresh chain. twin selects T'.
// plan is computed when nil (chain A) and replayed otherwise (chain B); the
// same simulate queries are issued on both chains to keep them symmetric.
func c02Deliver(c c02Case, twin bool, plan *c02Plan) (*c02Run, *c02Plan, map[string]int64, error) {
	notes := map[string]int64{}
	e, err := axStart(c.NAcc, c.MaxGas)
	if err != nil {
		return nil, nil, nil, err
	}
	if err := e.Prefix(c.Prefix); err != nil {
		return nil, nil, nil, err
	}
	p := c02Plan{TGas: c.T.Gas}
	switch c.Cause {
	case c02TxOOG:
		gNoop, okNoop, err := axSim(e, c.T, true)
		if err != nil {
			return nil, nil, nil, err
		}
		if !okNoop {
			return nil, nil, nil, fmt.Errorf("harness: simulated no-op twin fails")
		}
		lo := gNoop + 20_000
		if c.FailAt > 0 {
			part := c.T
			part.Msgs = c.T.Msgs[:c.FailAt]
			g, ok, err := axSim(e, part, false)
			if err != nil {
				return nil, nil, nil, err
			}
			notes["prefix-msgs-ok"] = b2i(ok)
			if g > lo {
				lo = g
			}
		}
		part := c.T
		part.Msgs = c.T.Msgs[:c.FailAt+1]
		hi, ok, err := axSim(e, part, false)
		if err != nil {
			return nil, nil, nil, err
		}
		notes["upto-fail-ok"] = b2i(ok)
		notes["lo"], notes["hi"] = lo, hi
		p.TGas = lo + 1
		if hi-1 > lo+1 {
			p.TGas = lo + 1 + (hi-1-lo-1)*int64(c.Perm)/999
		}
	case c02BlockGas:
		gT, ok, err := axSim(e, c.T, false)
		if err != nil {
			return nil, nil, nil, err
		}
		notes["t-sim-ok"], notes["t-sim-gas"] = b2i(ok), gT
	}
	if plan != nil {
		p = *plan
	}
	run := &c02Run{env: e}
	e.Begin()
	if c.Cause == c02BlockGas {
		var used int64
		for _, f := range c.Fill {
			r, err := e.Send(f)
			if err != nil {
				return nil, nil, nil, err
			}
			run.fill = append(run.fill, r)
			if r.GasWanted > 0 {
				if r.GasUsed < r.GasWanted {
					used += r.GasUsed
				} else {
					used += r.GasWanted
				}
			}
		}
		if plan == nil {
			gT := notes["t-sim-gas"]
			var remain int64 // block gas that shall remain when T starts
			switch c.Regime {
			case "after-msgs":
				lo, hi := int64(1_750_000), gT-1
				if hi < lo {
					hi = lo
				}
				remain = lo + (hi-lo)*int64(c.Perm)/999
			case "pre-ante":
				remain = 1 + 1_500_000*int64(c.Perm)/999
			default:
				remain = 0
			}
			// Burner txs run out of gas and therefore charge exactly their
			// GasWanted to the block meter. Each needs >= c02MinBurn to pass the
			// ante handler and at most c02BlockTxGas (<= Block.MaxGas).
			need := c.MaxGas - used - remain
			for need >= c02MinBurn {
				b := need
				if b > c02BlockTxGas {
					b = c02BlockTxGas
					if rest := need - b; rest > 0 && rest < c02MinBurn {
						b = need - c02MinBurn
					}
				}
				p.Burns = append(p.Burns, b)
				need -= b
			}
			notes["remain-target"] = remain
			notes["burn-missed"] = need
		}
		for i, g := range p.Burns {
			burner := axTx{Signer: (c.T.Signer + 1 + i) % c.NAcc, Fee: axFee, Gas: g, Msgs: []ec.HMsg{{Kind: "run", Body: c02BurnBody}}}
			r, err := e.Send(burner)
			if err != nil {
				return nil, nil, nil, err
			}
			run.fill = append(run.fill, r)
		}
	}
	t := c.T
	t.Gas = p.TGas
	if twin {
		run.t, err = e.SendNoop(t)
	} else {
		run.t, err = e.Send(t)
	}
	if err != nil {
		return nil, nil, nil, err
	}
	for _, a := range c.After {
		r, err := e.Send(a)
		if err != nil {
			return nil, nil, nil, err
		}
		run.after = append(run.after, r)
	}
	run.hashT = e.End()
	run.dumpT, err = e.C.Dump()
	if err != nil {
		return nil, nil, nil, err
	}
	run.queriesT = c02QueryAll(e)
	return run, &p, notes, nil
}

func b2i(b bool) int64 {
	if b {
		return 1
	}
	return 0
}

// c02Ctx records the classes of one case besides forwarding them to the kit.
type c02Ctx struct {
	*vk.Ctx
	seen map[string]bool
}

func (c *c02Ctx) Class(name string) {
	if c.seen != nil {
		c.seen[name] = true
	}
	c.Ctx.Class(name)
}

func (c *c02Ctx) ClassIf(cond bool, name string) {
	if cond {
		c.Class(name)
	}
}

// c02FailIndex extracts the index of the failed message from the result log
// ("msg:K,success:false"), or -1 when the failure was not a handler result.
func c02FailIndex(r abci.ResponseDeliverTx) int {
	i := strings.Index(r.Log, ",success:false")
	if i < 0 {
		return -1
	}
	j := strings.LastIndex(r.Log[:i], "msg:")
	if j < 0 {
		return -1
	}
	n := -1
	fmt.Sscanf(r.Log[j:i], "msg:%d", &n)
	return n
}

func c02Exec(ctx *vk.Ctx, c c02Case) error { return c02ExecSeen(ctx, c, nil) }

// c02ExecSeen is c02Exec; classes are additionally recorded in seen.
func c02ExecSeen(vctx *vk.Ctx, c c02Case, seen map[string]bool) error {
	ctx := &c02Ctx{Ctx: vctx, seen: seen}
	a, plan, notes, err := c02Deliver(c, false, nil)
	if err != nil {
		return err
	}
	for k, v := range notes {
		ctx.Note(k, v)
	}
	ctx.Note("t-gas", plan.TGas)
	ctx.Note("t-result", axErrType(a.t))
	ctx.Class("cause=" + c.Cause)
	if a.t.Error == nil {
		ctx.Class("T-succeeded")
		ctx.ClassIf(c.Cause != c02None, "T-succeeded-unexpectedly:"+c.Cause)
		return c02Success(ctx, c, a, plan)
	}
	// --- T is reported failed: compare with the only-ante-effects twin.
	b, _, _, err := c02Deliver(c, true, plan)
	if err != nil {
		return err
	}
	if len(a.fill) != len(b.fill) {
		return fmt.Errorf("harness: twin ran %d txs before T', chain A %d", len(b.fill), len(a.fill))
	}
	for i := range a.fill {
		if d := axSame(a.fill[i], b.fill[i]); d != "" {
			return fmt.Errorf("same tx, same state, different result (tx %d before T in its block):\n %s", i, d)
		}
	}
	anteA, anteB := a.t.GasWanted > 0, b.t.GasWanted > 0
	failIdx := c02FailIndex(a.t)
	kind := "failed-after-ante"
	switch {
	case !anteA && !anteB:
		kind = "both-rejected-before-ante" // neither paid a fee: no effects at all on both
	case !anteA && anteB:
		// T was rejected by the ante (e.g. it is larger and needs more ante gas);
		// then its twin is not a valid reference.
		ctx.Class("skip:twin-passed-ante-but-T-did-not")
		return nil
	case anteA && b.t.Error != nil:
		// the twin itself failed after the ante: it still has only ante effects.
		ctx.Class("twin-failed-too:" + axErrType(b.t))
	}
	ctx.Class(kind)
	ctx.Class("T-error=" + axErrType(a.t))
	blockOOG := axOOG(a.t) && anteA && strings.Contains(a.t.Log, "block gas meter")
	txOOG := axOOG(a.t) && anteA && !blockOOG
	ctx.ClassIf(blockOOG, "T-failed:block-gas-after-msgs")
	ctx.ClassIf(txOOG, "T-failed:tx-out-of-gas")
	ctx.ClassIf(!anteA && axOOG(a.t) && a.t.GasUsed == 0, "T-failed:no-block-gas-left")
	ctx.ClassIf(!anteA && axOOG(a.t) && a.t.GasUsed > 0, "T-failed:block-gas-before-ante")
	if failIdx < 0 {
		failIdx = c.FailAt // by construction (panic / out-of-gas: no handler log)
		if blockOOG {
			failIdx = len(c.T.Msgs) // all messages had run
		}
	}
	ctx.Note("fail-index", failIdx)
	nt := anteA && failIdx >= 1
	// With a small Block.MaxGas the chain's dynamic gas price follows the gas
	// used by each block; T and its no-op twin use different amounts, so the
	// price record (and with it the app hash) legitimately differs.
	var ignore func(store string, key []byte) bool
	if c.Cause == c02BlockGas {
		ignore = func(store string, key []byte) bool { return store == "main" && string(key) == "gasPrice" }
	}
	// --- state after T's block
	if d := ec.Diff(a.dumpT, b.dumpT, ignore); d != "" {
		if blockOOG && ctx.Known("block-gas-overflow-after-msgs") {
			ctx.Class("known:block-gas-overflow-after-msgs")
			ctx.ClassIf(nt, "nontrivial:"+c.Cause)
			ctx.NTIf(nt)
			return nil // the chains have legitimately diverged; nothing more to compare
		}
		return fmt.Errorf("T was reported failed (%s: %.300q) yet the committed state differs from the only-ante-effects twin:\n%s", axErrType(a.t), a.t.Log, d)
	}
	if a.hashT != b.hashT && ignore == nil {
		return fmt.Errorf("T was reported failed; equal logical state but app hash differs from the twin: %s vs %s", a.hashT, b.hashT)
	}
	for i := range a.after {
		if d := axSame(a.after[i], b.after[i]); d != "" {
			return fmt.Errorf("tx %d after the failed T in the same block behaves differently than after the twin:\n %s", i, d)
		}
	}
	if a.queriesT != b.queriesT {
		return fmt.Errorf("queries after the failed T differ from the twin:\n A=%s\n B=%s", a.queriesT, b.queriesT)
	}
	// --- follow-up block, no restart
	// follow-up: the reader script; then a call into (and an import of) every
	// package T tried to deploy - in-memory traces of a failed deployment would
	// answer differently than a chain that never saw it; then the generated txs.
	follow := []axTx{{Signer: c.T.Signer, Fee: axFee, Gas: c.T.Gas, Msgs: []ec.HMsg{{Kind: "run", Body: c02Reader}}}}
	probed := map[string]bool{}
	for _, m := range c.T.Msgs {
		if m.Kind == "addpkg" && !probed[m.Path] {
			probed[m.Path] = true
			follow = append(follow,
				axTx{Signer: c.T.Signer, Fee: axFee, Gas: c.T.Gas, Msgs: []ec.HMsg{c02Call(m.Path, "Add", "1")}},
				axTx{Signer: c.T.Signer, Fee: axFee, Gas: c.T.Gas, Msgs: []ec.HMsg{c02RunImport(m.Path)}})
		}
	}
	ctx.ClassIf(len(probed) > 0, "follow-up-probes-package-of-failed-T")
	follow = append(follow, c.F...)
	ra, err := a.env.Block(follow)
	if err != nil {
		return err
	}
	rb, err := b.env.Block(follow)
	if err != nil {
		return err
	}
	for i := range ra {
		if d := axSame(ra[i], rb[i]); d != "" {
			return fmt.Errorf("follow-up tx %d after the failed T differs from the twin chain (same committed state, no restart):\n %s", i, d)
		}
	}
	ctx.ClassIf(ra[0].Error == nil, "reader-ok")
	da, err := a.env.C.Dump()
	if err != nil {
		return err
	}
	db, err := b.env.C.Dump()
	if err != nil {
		return err
	}
	if d := ec.Diff(da, db, ignore); d != "" {
		return fmt.Errorf("state after the follow-up block differs from the twin chain:\n%s", d)
	}
	if ha, hb := a.env.Hashes[len(a.env.Hashes)-1], b.env.Hashes[len(b.env.Hashes)-1]; ha != hb && ignore == nil {
		return fmt.Errorf("app hash after the follow-up block differs from the twin chain: %s vs %s", ha, hb)
	}
	if qa, qb := c02QueryAll(a.env), c02QueryAll(b.env); qa != qb {
		return fmt.Errorf("queries after the follow-up block differ:\n A=%s\n B=%s", qa, qb)
	}
	ctx.ClassIf(nt, "nontrivial:"+c.Cause)
	ctx.NTIf(nt)
	return nil
}

// c02Success: T succeeded, so all its messages' effects must be present: the
// state must equal the state reached by delivering the messages one per
// transaction (same block), except for the signer's extra fees and sequence.
func c02Success(ctx *c02Ctx, c c02Case, a *c02Run, plan *c02Plan) error {
	if c.Cause == c02BlockGas {
		return nil // the split txs would face a different block gas situation
	}
	e, err := axStart(c.NAcc, c.MaxGas)
	if err != nil {
		return err
	}
	if err := e.Prefix(c.Prefix); err != nil {
		return err
	}
	e.Begin()
	for i, m := range c.T.Msgs {
		r, err := e.Send(axTx{Signer: c.T.Signer, Fee: c.T.Fee, Gas: c.T.Gas, Msgs: []ec.HMsg{m}})
		if err != nil {
			return err
		}
		if r.Error != nil {
			return fmt.Errorf("T succeeded as one tx but its message %d fails when delivered alone in the same order: %v %.300q", i, r.Error, r.Log)
		}
	}
	for _, t := range c.After {
		if _, err := e.Send(t); err != nil {
			return err
		}
	}
	e.End()
	ds, err := e.C.Dump()
	if err != nil {
		return err
	}
	la, ls := ec.LedgerOf(a.dumpT), ec.LedgerOf(ds)
	signer := e.Keys[c.T.Signer%len(e.Keys)].Addr
	extra := int64(len(c.T.Msgs)-1) * c.T.Fee
	// accounts whose record legitimately differs: the signer and whoever
	// collected the extra fees (found as the only other differing account).
	differing := map[string]bool{}
	for addr := range la.Accounts {
		if la.Balances[addr]["ugnot"] != ls.Balances[addr]["ugnot"] {
			differing[addr] = true
		}
	}
	for addr := range ls.Accounts {
		if la.Balances[addr]["ugnot"] != ls.Balances[addr]["ugnot"] {
			differing[addr] = true
		}
	}
	if extra > 0 {
		if got := la.Balances[signer.String()]["ugnot"] - ls.Balances[signer.String()]["ugnot"]; got != extra {
			return fmt.Errorf("signer balance after T (one tx) minus after the split txs = %d, want the %d extra fees", got, extra)
		}
		delete(differing, signer.String())
		if len(differing) != 1 {
			return fmt.Errorf("besides the signer, %d accounts differ in ugnot between T and its split delivery (want exactly the fee collector): %v", len(differing), differing)
		}
		for addr := range differing {
			if got := ls.Balances[addr]["ugnot"] - la.Balances[addr]["ugnot"]; got != extra {
				return fmt.Errorf("account %s (fee collector) differs by %d, want %d", addr, got, extra)
			}
		}
	} else if len(differing) != 0 {
		return fmt.Errorf("accounts differ between T and its delivery as a single-message tx: %v", differing)
	}
	ignore := func(store string, key []byte) bool {
		if store != "main" || !bytes.HasPrefix(key, []byte("/a/")) {
			return false
		}
		if bytes.Equal(key[3:], signer[:]) {
			return true
		}
		for addr := range differing {
			if acc := la.Accounts[addr]; acc != nil {
				ad := acc.GetAddress()
				if bytes.Equal(key[3:], ad[:]) {
					return true
				}
			}
		}
		return false
	}
	if d := ec.Diff(a.dumpT, ds, ignore); d != "" {
		return fmt.Errorf("T succeeded but the state differs from delivering its messages one per tx:\n%s", d)
	}
	ctx.Class("success-equals-split")
	return nil
}

func TestC02_Atomic(t *testing.T) {
	vk.Run(t, vk.Spec[c02Case]{
		ID: "C02", Name: "TestC02_Atomic",
		Rule: "rapid: prefix history (0-2 blocks) + tx T of 2-4 messages (1-2 for the block-gas cause) whose message i fails by a generated cause — handler error, Gno panic, Go panic in the handler, storage-deposit failure (MaxDeposit too small), tx out-of-gas (GasWanted drawn strictly between the simulated cumulative gas after message i-1 and after message i), block gas (Block.MaxGas 6-12M; a burner tx with exact GasWanted leaves a drawn remainder: >=1.75M and < T's gas, <1.5M, or 0) — then 0-2 txs in the same block and a follow-up block (reader script + 1-3 generated txs); twin chain with a no-op T'; non-trivial = T passed the ante, failed at message index >=1 after earlier state-writing messages had run, and all comparisons were made; distinct by case",
		Draw: c02Draw, Exec: c02Exec,
	})
}

// c02FixedCases: one hand-written representative per failure cause (and per
// block-gas regime), so that every run exercises every cause.
func c02FixedCases() []c02Case {
	inc := c02Call(ec.PathCtr, "Inc", "3")
	set := c02Call(ec.PathKV, "Set", "a", "xyz")
	push := c02Call(ec.PathKV, "Push", "b", "yyyy")
	both := c02Call(ec.PathMulti, "Both", "c", "2")
	pkg := func(body string) ec.HMsg {
		return ec.HMsg{Kind: "addpkg", Path: "gno.land/r/gen/p1", Body: fmt.Sprintf(body, "p1")}
	}
	follow := []axTx{
		{Signer: 0, Fee: axFee, Gas: 60_000_000, Msgs: []ec.HMsg{pkg(c02GenBodies[0]), c02Call("gno.land/r/gen/p1", "Add", "4")}},
		{Signer: 1, Fee: axFee, Gas: 60_000_000, Msgs: []ec.HMsg{c02Call(ec.PathMulti, "Both", "d", "1"), c02Call(ec.PathKV, "Pop", "1")}},
	}
	prefix := [][]axTx{{{Signer: 0, Fee: axFee, Gas: 60_000_000, Msgs: []ec.HMsg{set, c02Call(ec.PathCtr, "Note", "abc")}}}}
	mk := func(cause string, failAt int, msgs ...ec.HMsg) c02Case {
		return c02Case{NAcc: 2, Cause: cause, Prefix: prefix, FailAt: failAt, Perm: 500, F: follow,
			T:     axTx{Signer: 1, Fee: axFee, Gas: 60_000_000, Msgs: msgs},
			After: []axTx{{Signer: 0, Fee: axFee, Gas: 60_000_000, Msgs: []ec.HMsg{inc, push}}}}
	}
	small := func(regime string, msgs ...ec.HMsg) c02Case {
		c := mk(c02BlockGas, len(msgs)-1, msgs...)
		c.MaxGas, c.Regime, c.After = 7_000_000, regime, nil
		c.T.Gas = c02BlockTxGas
		c.Prefix = [][]axTx{{{Signer: 0, Fee: axFee, Gas: c02BlockTxGas, Msgs: []ec.HMsg{set}}}}
		c.Fill = []axTx{{Signer: 0, Fee: axFee, Gas: c02BlockTxGas, Msgs: []ec.HMsg{push}}}
		for i := range c.F {
			c.F[i].Gas = c02BlockTxGas
		}
		c.F = append([]axTx{}, c.F...)
		return c
	}
	smallFollow := func(c c02Case) c02Case {
		f := make([]axTx, len(c.F))
		for i, t := range c.F {
			t.Gas = c02BlockTxGas
			f[i] = t
		}
		c.F = f
		return c
	}
	return []c02Case{
		mk(c02MsgErr, 1, inc, ec.HMsg{Kind: "send", To: 0, Amt: 1 << 50, Den: "ugnot"}, set),
		mk(c02GnoPanic, 2, push, inc, c02Call(ec.PathMulti, "BothThenBoom", "q", "1")),
		mk(c02GnoPanic, 1, both, pkg("package %s\n\nvar X = []int{1}\n\nfunc init() { X = append(X, 2); panic(\"init panic\") }\n")),
		mk(c02GoPanic, 1, set, c02Call(ec.PathCtr, "Nope"), inc),
		mk(c02GnoPanic, 3, inc, pkg(c02GenBodies[0]), c02RunImport("gno.land/r/gen/p1"), c02Call(ec.PathCtr, "Boom", "1")),
		mk(c02Deposit, 1, inc, ec.HMsg{Kind: "call", Pkg: ec.PathKV, Fn: "Push", Args: []string{"a", "zzzzzzzzzzzzzzzzzzzzzzzzzzzzzz"}, Dep: 1}),
		mk(c02Deposit, 1, both, ec.HMsg{Kind: "addpkg", Path: "gno.land/r/gen/p1", Body: fmt.Sprintf(c02GenBodies[2], "p1"), Dep: 1}),
		mk(c02TxOOG, 1, inc, both, set),
		mk(c02TxOOG, 2, push, pkg(c02GenBodies[1]), c02Call("gno.land/r/gen/p1", "Add", "1")),
		smallFollow(small("after-msgs", inc, set)),
		smallFollow(small("pre-ante", inc)),
		smallFollow(small("exhausted", set)),
		mk(c02None, 0, inc, both, pkg(c02GenBodies[2]), push),
	}
}

const c02CauseShards = 3

// TestC02_Causes runs the fixed representatives and demands that every
// failure cause was really observed as intended.
func TestC02_Causes(t *testing.T) {
	r := vk.Open(t, "C02", "TestC02_Causes", "enumeration: one fixed multi-message tx per failure cause (handler error, Gno panic in a call and in a package init, Go panic, storage deposit in a call and in a deployment, tx out-of-gas inside message 1 and 2, block gas crossed after the messages / too little left for the ante / exhausted) plus one successful tx; same twin oracle as TestC02_Atomic; non-trivial as there")
	defer r.Close()
	if vk.Replaying() {
		t.Skip()
	}
	r.ReplayAs = "TestC02_Atomic"
	r.Extra("exhaustive", false)
	for i, c := range c02FixedCases() {
		c := c
		if i%c02CauseShards != r.Shard%c02CauseShards {
			continue // the registration runs this enumerator in c02CauseShards processes
		}
		err := r.Do(c, func(ctx *vk.Ctx) error {
			seen := map[string]bool{}
			if err := c02ExecSeen(ctx, c, seen); err != nil {
				return err
			}
			want := map[string]string{c02MsgErr: "T-error=InsufficientCoinsError", c02GoPanic: "T-error=InternalError", c02TxOOG: "T-failed:tx-out-of-gas",
				c02GnoPanic: "failed-after-ante", c02Deposit: "failed-after-ante", c02None: "success-equals-split"}[c.Cause]
			if c.Cause == c02BlockGas {
				want = map[string]string{"after-msgs": "T-failed:block-gas-after-msgs", "pre-ante": "T-failed:block-gas-before-ante", "exhausted": "T-failed:no-block-gas-left"}[c.Regime]
			}
			if !seen[want] {
				return fmt.Errorf("harness: fixed case for cause %s/%s did not produce the intended failure (%s); classes seen: %v", c.Cause, c.Regime, want, seen)
			}
			return nil
		})
		if err != nil {
			return
		}
	}
}
