package atomic

import (
	"fmt"
	"sort"
	"strings"
	"testing"

	abci "github.com/gnolang/gno/tm2/pkg/bft/abci/types"
	"pgregory.net/rapid"
	ec "verif/eng/chain"
	"verif/vk"
)

// C10 (restart gas) — the same transaction from the same state uses the same
// gas whether the process is long-running or freshly restarted.
//
// Target: process-lifetime caches of the VM keeper (type-check cache, block
// node cache, ...) that survive across transactions but not across a restart.
// History: library realms and two /p/ packages (one importing the other) are
// deployed; a committed tx A imports some of these user packages (MsgRun
// script, or MsgAddPackage of a realm importing them); then T — another
// MsgRun / MsgAddPackage importing at least one of the same packages (also two
// packages, a /p/ package that itself imports another, the realm A deployed),
// or a MsgCall into one of them. T is executed on (i) the uninterrupted chain,
// (ii) a chain restarted between A and T, (iii) a fresh chain replaying the
// same blocks with a drawn restart pattern (none / before A / before A and T).
// GasUsed, error, data and events of T (and of A) must be identical in all
// three, and so must the answers of the simulate query issued just before T.

const (
	c10PBase = "gno.land/p/vv/base"
	c10PMid  = "gno.land/p/vv/mid"
)

const c10PBaseSrc = `package base

type Pair struct{ A, B int }

func Double(n int) int { return 2 * n }

func Sum(p Pair) int { return p.A + p.B }
`

const c10PMidSrc = `package mid

import "gno.land/p/vv/base"

func Quad(n int) int { return base.Double(base.Double(n)) }

func Mk(n int) base.Pair { return base.Pair{A: n, B: Quad(n)} }
`

// c10Use maps an importable user package to a statement using it.
var c10Use = map[string]string{
	ec.PathCtr:   "t += ctr.Inc(cross(cur), 1)",
	ec.PathKV:    "t += kv.Set(cross(cur), \"g\", \"v\")",
	ec.PathMulti: "t += multi.Both(cross(cur), \"m\", 1)",
	c10PBase:     "t += base.Double(3)",
	c10PMid:      "t += mid.Quad(3) + mid.Mk(2).B",
}

var c10Pool = []string{ec.PathCtr, ec.PathKV, ec.PathMulti, c10PBase, c10PMid}

const c10GenA = "gno.land/r/gen/qa"
const c10GenT = "gno.land/r/gen/qt"

// c10Importer is a MsgRun script or a MsgAddPackage whose source imports the
// given user packages (and, optionally, the realm deployed by A).
type c10Importer struct {
	Kind    string   `json:"kind"` // run | addpkg | call
	Imports []string `json:"imports"`
	UseGenA bool     `json:"use_gen_a,omitempty"`
}

func c10ImporterMsg(im c10Importer, path string) ec.HMsg {
	if im.Kind == "call" {
		switch im.Imports[0] {
		case ec.PathKV:
			return c02Call(ec.PathKV, "Set", "g", "w")
		case ec.PathMulti:
			return c02Call(ec.PathMulti, "Both", "m", "2")
		case c10GenA:
			return c02Call(c10GenA, "Add", "2")
		default:
			return c02Call(ec.PathCtr, "Inc", "2")
		}
	}
	imports := append([]string{}, im.Imports...)
	if im.UseGenA {
		imports = append(imports, c10GenA)
	}
	sort.Strings(imports)
	var sb strings.Builder
	name := "main"
	if im.Kind == "addpkg" {
		name = path[strings.LastIndex(path, "/")+1:]
	}
	fmt.Fprintf(&sb, "package %s\n\nimport (\n", name)
	for _, p := range imports {
		fmt.Fprintf(&sb, "\t%q\n", p)
	}
	sb.WriteString(")\n\n")
	body := func() {
		sb.WriteString("\tt := 0\n")
		for _, p := range imports {
			if p == c10GenA {
				sb.WriteString("\tt += qa.Add(cross(cur), 1)\n")
			} else {
				fmt.Fprintf(&sb, "\t%s\n", c10Use[p])
			}
		}
	}
	if im.Kind == "run" {
		sb.WriteString("func main(cur realm) {\n")
		body()
		sb.WriteString("\tprintln(t)\n}\n")
		return ec.HMsg{Kind: "run", Body: sb.String()}
	}
	sb.WriteString("var V int\n\nfunc Add(cur realm, n int) int {\n")
	body()
	sb.WriteString("\tV += n + t\n\treturn V\n}\n")
	return ec.HMsg{Kind: "addpkg", Path: path, Body: sb.String()}
}

type c10RGCase struct {
	NAcc   int         `json:"nacc"`
	Pre    []axTx      `json:"pre"` // generated txs committed before A
	A      c10Importer `json:"a"`
	T      c10Importer `json:"t"`
	SigA   int         `json:"sig_a"`
	SigT   int         `json:"sig_t"`
	Replay string      `json:"replay"` // execution (iii): none | before-a | before-a-and-t
}

func c10RGDraw(rt *rapid.T) c10RGCase {
	c := c10RGCase{NAcc: rapid.IntRange(2, 3).Draw(rt, "nacc")}
	for n := rapid.IntRange(0, 1).Draw(rt, "npre"); n > 0; n-- {
		tx := axTx{Signer: rapid.IntRange(0, c.NAcc-1).Draw(rt, "signer"), Fee: axFee, Gas: 60_000_000}
		tx.Msgs = append(tx.Msgs, c02Good(rt, c.NAcc))
		c.Pre = append(c.Pre, tx)
	}
	c.SigA = rapid.IntRange(0, c.NAcc-1).Draw(rt, "sigA")
	c.SigT = rapid.IntRange(0, c.NAcc-1).Draw(rt, "sigT")
	c.A.Kind = rapid.SampledFrom([]string{"run", "run", "addpkg"}).Draw(rt, "akind")
	perm := rapid.Permutation(c10Pool).Draw(rt, "apool")
	c.A.Imports = append([]string{}, perm[:rapid.IntRange(1, 3).Draw(rt, "na")]...)
	sort.Strings(c.A.Imports)
	// T shares at least one imported user package with A
	c.T.Kind = rapid.SampledFrom([]string{"run", "run", "run", "addpkg", "addpkg", "call"}).Draw(rt, "tkind")
	shared := c.A.Imports[rapid.IntRange(0, len(c.A.Imports)-1).Draw(rt, "shared")]
	set := map[string]bool{shared: true}
	perm2 := rapid.Permutation(c10Pool).Draw(rt, "tpool")
	for _, p := range perm2[:rapid.IntRange(0, 2).Draw(rt, "nt")] {
		set[p] = true
	}
	for p := range set {
		c.T.Imports = append(c.T.Imports, p)
	}
	sort.Strings(c.T.Imports)
	if c.A.Kind == "addpkg" && rapid.IntRange(0, 1).Draw(rt, "usegen") == 0 {
		if c.T.Kind == "call" {
			c.T.Imports = []string{c10GenA}
		} else {
			c.T.UseGenA = true
		}
	}
	if c.T.Kind == "call" && c.T.Imports[0] != c10GenA {
		// a call goes into a realm (not a /p/ package)
		callee := ec.PathCtr
		for _, p := range c.T.Imports {
			if p == ec.PathKV || p == ec.PathMulti || p == ec.PathCtr {
				callee = p
				break
			}
		}
		c.T.Imports = []string{callee}
	}
	c.Replay = rapid.SampledFrom([]string{"none", "before-a", "before-a-and-t"}).Draw(rt, "replay")
	return c
}

type c10RGOut struct {
	a, t   abci.ResponseDeliverTx
	simGas int64
	simOK  bool
}

// c10RGRun executes the history once. restartA / restartT: rebuild the app
// over the same DB right before A's / T's block.
func c10RGRun(c c10RGCase, restartA, restartT bool) (*c10RGOut, error) {
	e, err := axStart(c.NAcc, 0, axRealm{c10PBase, c10PBaseSrc}, axRealm{c10PMid, c10PMidSrc})
	if err != nil {
		return nil, err
	}
	for _, p := range c.Pre {
		if _, err := e.Block([]axTx{p}); err != nil {
			return nil, err
		}
	}
	if restartA {
		if err := e.C.Restart(); err != nil {
			return nil, err
		}
	}
	out := &c10RGOut{}
	txA := axTx{Signer: c.SigA, Fee: axFee, Gas: 60_000_000, Msgs: []ec.HMsg{c10ImporterMsg(c.A, c10GenA)}}
	rs, err := e.Block([]axTx{txA})
	if err != nil {
		return nil, err
	}
	out.a = rs[0]
	if restartT {
		if err := e.C.Restart(); err != nil {
			return nil, err
		}
	}
	txT := axTx{Signer: c.SigT, Fee: axFee, Gas: 60_000_000, Msgs: []ec.HMsg{c10ImporterMsg(c.T, c10GenT)}}
	out.simGas, out.simOK, err = axSim(e, txT, false)
	if err != nil {
		return nil, err
	}
	rs, err = e.Block([]axTx{txT})
	if err != nil {
		return nil, err
	}
	out.t = rs[0]
	return out, nil
}

func c10RGExec(ctx *vk.Ctx, c c10RGCase) error {
	i1, err := c10RGRun(c, false, false)
	if err != nil {
		return err
	}
	i2, err := c10RGRun(c, false, true)
	if err != nil {
		return err
	}
	i3, err := c10RGRun(c, c.Replay != "none", c.Replay == "before-a-and-t")
	if err != nil {
		return err
	}
	names := []string{"(i) uninterrupted", "(ii) restarted between A and T", "(iii) replay with restarts: " + c.Replay}
	outs := []*c10RGOut{i1, i2, i3}
	for k, o := range outs {
		if d := axSame(i1.a, o.a); d != "" {
			return fmt.Errorf("tx A: same tx, same state, different result in %s than in %s:\n %s", names[k], names[0], d)
		}
		if d := axSame(i1.t, o.t); d != "" {
			return fmt.Errorf("tx T (%s importing %v after a committed %s importing %v): same tx, same state, different result in %s than in %s:\n %s",
				c.T.Kind, c.T.Imports, c.A.Kind, c.A.Imports, names[k], names[0], d)
		}
		// The simulate query runs T on the same committed state under the last
		// committed header in every execution, so its answers must agree with
		// each other. (It is not compared with the delivery: that one runs at
		// the next height, and values that embed the height can differ in size.)
		if o.simGas != i1.simGas || o.simOK != i1.simOK {
			return fmt.Errorf("tx T simulated before its block: gas %d (ok=%v) in %s, gas %d (ok=%v) in %s", o.simGas, o.simOK, names[k], i1.simGas, i1.simOK, names[0])
		}
		if err := axGasBound(ctx, o.t, 60_000_000, "tx T in "+names[k]); err != nil {
			return err
		}
	}
	ctx.Class("A=" + c.A.Kind + ":" + axErrType(i1.a))
	ctx.Class("T=" + c.T.Kind + ":" + axErrType(i1.t))
	ctx.Class("replay=" + c.Replay)
	ctx.ClassIf(c.T.UseGenA || c.T.Imports[0] == c10GenA, "T-uses-realm-deployed-by-A")
	overlap := false
	for _, p := range c.T.Imports {
		for _, q := range c.A.Imports {
			if p == q {
				overlap = true
				ctx.ClassIf(strings.Contains(p, "/p/"), "shared-import:/p/")
				ctx.ClassIf(strings.Contains(p, "/r/"), "shared-import:/r/")
			}
		}
	}
	nt := overlap && i1.a.Error == nil && c.T.Kind != "call"
	ctx.ClassIf(nt, "T-imports-what-committed-A-imported")
	ctx.ClassIf(len(c.T.Imports) >= 2 && c.T.Kind != "call", "T-imports-two-or-more")
	ctx.NTIf(nt)
	return nil
}

func TestC10_RestartGas(t *testing.T) {
	vk.Run(t, vk.Spec[c10RGCase]{
		ID: "C10", Name: "TestC10_RestartGas",
		Rule: "rapid: library realms + /p/ packages base and mid (mid imports base) deployed; 0-1 generated tx; committed tx A = MsgRun script or MsgAddPackage importing 1-3 of {ctr, kv, multi, p/base, p/mid}; tx T = MsgRun / MsgAddPackage importing at least one of A's packages plus 0-2 others (optionally the realm A deployed), or a MsgCall into one; T executed uninterrupted, after an app restart between A and T, and on a replay with a drawn restart pattern; result, events and GasUsed of A and T identical in all three, and so are the simulate answers for T; non-trivial = A committed successfully and T (run/addpkg) imports a user package A imported, with a restart between them in one execution",
		Draw: c10RGDraw, Exec: c10RGExec,
	})
}
