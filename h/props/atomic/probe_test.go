package atomic

import (
	"fmt"
	"testing"

	ec "verif/eng/chain"
)

func TestProbe(t *testing.T) {
	variants := map[string][]ec.HMsg{
		"both":      {c02Call(ec.PathMulti, "Both", "a", "1")},
		"set+spin":  {c02Call(ec.PathKV, "Set", "mkB", "1"), c02Call(ec.PathCtr, "Spin", "200")},
		"set":       {c02Call(ec.PathKV, "Set", "mkB", "1")},
		"set+set":   {c02Call(ec.PathKV, "Set", "mkB", "1"), c02Call(ec.PathKV, "Set", "mkC", "1")},
		"note+inc":  {c02Call(ec.PathCtr, "Note", "zz"), c02Call(ec.PathCtr, "Inc", "5")},
	}
	for _, name := range []string{"both", "set+spin", "set", "set+set", "note+inc"} {
		e, err := axStart(2, 8_000_000)
		if err != nil {
			t.Fatal(err)
		}
		e.Begin()
		var used int64
		for _, m := range []ec.HMsg{c02Call(ec.PathCtr, "Inc", "1"), c02Call(ec.PathKV, "Set", "a", "xx"), {Kind: "send", To: 1, Amt: 5, Den: "ugnot"}} {
			r, _ := e.Send(axTx{Signer: 0, Fee: axFee, Gas: 4_200_000, Msgs: []ec.HMsg{m}})
			used += r.GasUsed
		}
		r, _ := e.Send(axTx{Signer: 1, Fee: axFee, Gas: 8_000_000, Msgs: variants[name]})
		fmt.Printf("%s: remaining before %d; T: %s used=%d %.80q\n", name, 8_000_000-used, axErrType(r), r.GasUsed, r.Log)
		e.End()
		for _, q := range [][2]string{{ec.PathKV, "len(M)"}, {ec.PathCtr, "N"}, {ec.PathCtr, "len(Log)"}, {ec.PathMulti, "Calls"}} {
			v, _ := e.C.QEval(q[0], q[1])
			fmt.Printf("   %s.%s = %s\n", q[0], q[1], v)
		}
	}
}
