package atomic

import (
	"bytes"
	"fmt"
	"os"
	"strings"
	"testing"

	"github.com/gnolang/gno/tm2/pkg/amino"
	abci "github.com/gnolang/gno/tm2/pkg/bft/abci/types"
	"github.com/gnolang/gno/tm2/pkg/sdk"
	"github.com/gnolang/gno/tm2/pkg/std"
	"pgregory.net/rapid"
	ec "verif/eng/chain"
	"verif/vk"
)

// ---------------------------------------------------------------------------
// C10 (sweep) — gas wanted is a sharp, deterministic limit.
//
// Chain M measures the gas need N of a generated tx T (ample GasWanted) after
// a generated prefix; the application's simulate query must report the same
// figure, twice. Fresh chains with the same prefix (optionally restarted
// before T's block: cold VM and store caches) then deliver T with GasWanted =
// N + delta. Transactions are padded (memo) so that their byte length does not
// depend on GasWanted. Oracle: delta < 0 => out-of-gas error; delta >= 0 and
// not out-of-gas => the very same result and GasUsed == N (same tx, same
// state, same gas — also after a restart). An out-of-gas tx that passed the
// ante pays exactly its fee, advances the sequence and changes nothing else.

type c10SweepCase struct {
	NAcc    int      `json:"nacc"`
	Prefix  [][]axTx `json:"prefix"`
	T       axTx     `json:"t"`
	Deltas  []int64  `json:"deltas"`
	Restart []bool   `json:"restart"`
	// Join: deliver the last prefix block's txs in T's own block (same logical
	// state in front of T, but not yet committed)
	Join []bool `json:"join"`
}

const c10Ample = 200_000_000

// axPadded builds T so that its encoded length is independent of GasWanted:
// the memo is shortened by as many bytes as the gas-wanted varint grows.
func (e *axEnv) axPadded(tx axTx) ([]byte, ec.Key, error) {
	msgs, k := e.msgs(tx)
	ai, err := e.C.Acct(k.Addr)
	if err != nil {
		return nil, k, err
	}
	build := func(gas int64, pad int) []byte {
		fee := std.Fee{GasWanted: gas, GasFee: std.NewCoin("ugnot", tx.Fee)}
		stx := ec.SignTx(ec.ChainID, msgs, fee, strings.Repeat("m", pad), []ec.Key{k}, []uint64{ai.Number}, []uint64{ai.Sequence})
		return amino.MustMarshal(stx)
	}
	target := len(build(1<<62, 4))
	for pad := 4; pad <= 16; pad++ {
		if bz := build(tx.Gas, pad); len(bz) == target {
			return bz, k, nil
		}
	}
	return nil, k, fmt.Errorf("harness: cannot pad tx to %d bytes", target)
}

func (e *axEnv) SendPadded(tx axTx) (abci.ResponseDeliverTx, error) {
	bz, k, err := e.axPadded(tx)
	if err != nil {
		return abci.ResponseDeliverTx{}, err
	}
	r := e.C.Deliver(bz)
	e.C.NoteDelivered(r, k)
	return r, nil
}

func (e *axEnv) SimPadded(tx axTx) (sdk.Result, error) {
	var res sdk.Result
	bz, _, err := e.axPadded(tx)
	if err != nil {
		return res, err
	}
	q := e.C.Query(".app/simulate", bz)
	if q.Error != nil {
		return res, fmt.Errorf("harness: simulate query failed: %v", q.Error)
	}
	if err := amino.Unmarshal(q.Value, &res); err != nil {
		return res, fmt.Errorf("harness: simulate result does not decode: %v", err)
	}
	return res, nil
}

var c10Deltas = []int64{-1000, -50_000, -1_200_000, 0, 0, 0, 0, 1, 1, 5000}

func c10SweepDraw(rt *rapid.T) c10SweepCase {
	c := c10SweepCase{NAcc: rapid.IntRange(2, 3).Draw(rt, "nacc")}
	goodTx := func(maxMsgs int) axTx {
		tx := axTx{Signer: rapid.IntRange(0, c.NAcc-1).Draw(rt, "signer"), Fee: axFee, Gas: 60_000_000}
		for n := rapid.IntRange(1, maxMsgs).Draw(rt, "nmsgs"); n > 0; n-- {
			tx.Msgs = append(tx.Msgs, c02Good(rt, c.NAcc))
		}
		return tx
	}
	for nb := rapid.IntRange(1, 2).Draw(rt, "nprefix"); nb > 0; nb-- {
		c.Prefix = append(c.Prefix, []axTx{goodTx(2)})
	}
	if rapid.IntRange(0, 4).Draw(rt, "anyT") == 0 {
		h := ec.DrawTx(rt, c.NAcc, 3)
		c.T = axTx{Signer: h.Signer, Fee: axFee, Msgs: h.Msgs}
	} else {
		c.T = goodTx(3)
	}
	for i := 0; i < 2; i++ {
		if i == 0 {
			// one probe just below the need (mostly need-1), one at or around it
			c.Deltas = append(c.Deltas, rapid.SampledFrom([]int64{-1, -1, -1, -2, -17}).Draw(rt, "below"))
		} else {
			c.Deltas = append(c.Deltas, rapid.SampledFrom(c10Deltas).Draw(rt, "delta"))
		}
		c.Restart = append(c.Restart, rapid.IntRange(0, 2).Draw(rt, "restart") == 0)
		c.Join = append(c.Join, rapid.IntRange(0, 2).Draw(rt, "join") == 0)
	}
	return c
}

// axOnlyFeeChanged checks that between two dumps nothing changed except the
// signer's account record and one other account (the fee collector) that
// gained exactly the fee.
func axOnlyFeeChanged(before, after ec.Dump, signer [20]byte, fee int64) error {
	lb, la := ec.LedgerOf(before), ec.LedgerOf(after)
	var collector []byte
	for addr, acc := range la.Accounts {
		ad := acc.GetAddress()
		if bytes.Equal(ad[:], signer[:]) {
			continue
		}
		if d := la.Balances[addr]["ugnot"] - lb.Balances[addr]["ugnot"]; d != 0 {
			if d != fee || collector != nil {
				return fmt.Errorf("account %s changed by %d", addr, d)
			}
			collector = append([]byte{}, ad[:]...)
		}
	}
	if collector == nil {
		return fmt.Errorf("no account collected the fee")
	}
	ignore := func(store string, key []byte) bool {
		return store == "main" && bytes.HasPrefix(key, []byte("/a/")) && (bytes.Equal(key[3:], signer[:]) || bytes.Equal(key[3:], collector))
	}
	if d := ec.Diff(before, after, ignore); d != "" {
		return fmt.Errorf("state changed beyond fee and sequence:\n%s", d)
	}
	return nil
}

func c10SweepExec(ctx *vk.Ctx, c c10SweepCase) error {
	m, err := axStart(c.NAcc, 0)
	if err != nil {
		return err
	}
	if err := m.Prefix(c.Prefix); err != nil {
		return err
	}
	t0 := c.T
	t0.Gas = c10Ample
	s1, err := m.SimPadded(t0)
	if err != nil {
		return err
	}
	s2, err := m.SimPadded(t0)
	if err != nil {
		return err
	}
	if s1.GasUsed != s2.GasUsed {
		return fmt.Errorf("simulating the same tx twice on the same state: gas %d then %d", s1.GasUsed, s2.GasUsed)
	}
	m.Begin()
	r0, err := m.SendPadded(t0)
	if err != nil {
		return err
	}
	m.End()
	if r0.GasWanted != c10Ample {
		return fmt.Errorf("harness: reference delivery did not pass the ante: %v %.300q", r0.Error, r0.Log)
	}
	need := r0.GasUsed
	ctx.Note("need", need)
	ctx.Note("t-result", axErrType(r0))
	ctx.ClassIf(r0.Error == nil, "T-ok")
	ctx.ClassIf(r0.Error != nil, "T-fails:"+axErrType(r0))
	if need > r0.GasWanted {
		return fmt.Errorf("reference delivery: GasUsed %d > GasWanted %d (%v)", need, r0.GasWanted, r0.Error)
	}
	if s1.GasUsed != need || (s1.Error == nil) != (r0.Error == nil) {
		return fmt.Errorf("simulate reported gas %d (err=%v) but delivering the same tx on the same state used %d (err=%v)", s1.GasUsed, s1.Error, need, r0.Error)
	}
	nt := false
	for i, delta := range c.Deltas {
		x, err := axStart(c.NAcc, 0)
		if err != nil {
			return err
		}
		join := i < len(c.Join) && c.Join[i] && len(c.Prefix) > 0 && !c.Restart[i]
		prefix := c.Prefix
		if join {
			prefix = c.Prefix[:len(c.Prefix)-1]
			ctx.Class("last-prefix-tx-in-T's-block")
		}
		if err := x.Prefix(prefix); err != nil {
			return err
		}
		if c.Restart[i] {
			if err := x.C.Restart(); err != nil {
				return err
			}
			ctx.Class("restarted-before-T")
		}
		before, err := x.C.Dump()
		if err != nil {
			return err
		}
		bal0, seq0, err := x.axAcct(c.T.Signer)
		if err != nil {
			return err
		}
		t := c.T
		t.Gas = need + delta
		if t.Gas < 1 {
			t.Gas = 1 // a declared gas wanted must be positive to be a valid tx
		}
		x.Begin()
		if join {
			for _, p := range c.Prefix[len(c.Prefix)-1] {
				if _, err := x.Send(p); err != nil {
					return err
				}
			}
		}
		r, err := x.SendPadded(t)
		if err != nil {
			return err
		}
		x.End()
		after, err := x.C.Dump()
		if err != nil {
			return err
		}
		bal1, seq1, err := x.axAcct(c.T.Signer)
		if err != nil {
			return err
		}
		what := fmt.Sprintf("T with GasWanted = need%+d = %d (restart=%v, joined=%v)", delta, t.Gas, c.Restart[i], join)
		switch {
		case delta < 0 && !axOOG(r):
			return fmt.Errorf("%s: the tx needs %d gas but was not stopped: result %s, GasUsed %d", what, need, axErrType(r), r.GasUsed)
		case delta >= 0 && !axOOG(r):
			a, b := ec.ResultOf(r0), ec.ResultOf(r)
			a.Log, b.Log, a.GasWanted, b.GasWanted = "", "", 0, 0
			if a != b {
				return fmt.Errorf("%s: same tx, same state, different outcome than with ample gas:\n ample=%+v\n now=%+v", what, a, b)
			}
			ctx.Class("same-gas-at-or-above-need")
			nt = nt || c.Restart[i] || join || delta <= 1
		case delta >= 0:
			// consumption peaked above its final value (gas refunds of
			// overwritten store keys): legitimate, but counted
			ctx.Class("oog-at-or-above-need")
		}
		if err := axGasBound(ctx, r, t.Gas, what); err != nil {
			return err
		}
		if !axOOG(r) {
			continue
		}
		if r.GasWanted == 0 {
			// out of gas inside the ante handler: an ante rejection, no fee
			ctx.Class("oog-in-ante")
			if d := ec.Diff(before, after, nil); d != "" && !join {
				return fmt.Errorf("%s: rejected by the ante handler yet state changed:\n%s", what, d)
			}
			continue
		}
		ctx.Class("oog-after-ante")
		nt = true
		if join {
			continue // the block also holds the prefix txs: no per-tx before/after state
		}
		if bal0-bal1 != c.T.Fee || seq1 != seq0+1 {
			return fmt.Errorf("%s: out of gas: balance changed by %d (fee %d), sequence %d -> %d", what, bal0-bal1, c.T.Fee, seq0, seq1)
		}
		signer := x.Keys[c.T.Signer%len(x.Keys)].Addr
		if err := axOnlyFeeChanged(before, after, signer, c.T.Fee); err != nil {
			return fmt.Errorf("%s: out of gas, but %v", what, err)
		}
	}
	ctx.NTIf(nt)
	return nil
}

func TestC10_Sweep(t *testing.T) {
	vk.Run(t, vk.Spec[c10SweepCase]{
		ID: "C10", Name: "TestC10_Sweep",
		Rule: "rapid: prefix (1-2 txs) + tx T of 1-3 messages (state-writing calls, sends, deployments, scripts; 1 in 5 from the general grammar incl. failing messages); need N measured with ample gas on a reference chain and by two simulate queries; two fresh chains deliver T with GasWanted = N+delta (first delta in {-1,-2,-17}, second in {-1.2M, -50k, -1000, 0, +1, +5000}), one third of them after an app restart, others with the last prefix tx moved into T's own block (same logical state, uncommitted); tx length kept independent of GasWanted by memo padding; non-trivial = an out-of-gas tx that passed the ante was checked for fee-only effects, or the same gas was reproduced at delta<=1, after a restart or behind an uncommitted predecessor",
		Draw: c10SweepDraw, Exec: c10SweepExec,
	})
}

// ---------------------------------------------------------------------------
// C10 (block) — block gas accounting and refusal.
//
// One chain with a small Block.MaxGas and a block of 3-9 marked transactions.
// Model: consumed += min(GasUsed, GasWanted) for a tx that passed the ante,
// GasUsed for one rejected before/inside the ante. Oracle: a tx is answered
// with the "no block gas left" response (out-of-gas, GasWanted = GasUsed = 0)
// iff consumed >= MaxGas when it arrives; a successful tx never lifts consumed
// above MaxGas; a tx failed by the block meter did cross MaxGas; markers
// (kv.Set of a unique key as the first message) are present after the commit
// exactly for the txs reported successful; the next block starts afresh.

type c10BTx struct {
	Signer int    `json:"signer"`
	Kind   string `json:"kind"` // ok | fail | burn | tiny
	Gas    int64  `json:"gas"`
	Spin   int    `json:"spin"`
}

type c10BlockCase struct {
	NAcc   int        `json:"nacc"`
	MaxGas int64      `json:"maxgas"`
	Blocks [][]c10BTx `json:"blocks"`
}

func c10BlockDraw(rt *rapid.T) c10BlockCase {
	c := c10BlockCase{NAcc: rapid.IntRange(2, 4).Draw(rt, "nacc"), MaxGas: rapid.Int64Range(axMinMaxGas, 14_000_000).Draw(rt, "maxgas")}
	for nb := rapid.IntRange(1, 2).Draw(rt, "nblocks"); nb > 0; nb-- {
		var blk []c10BTx
		for n := rapid.IntRange(3, 9).Draw(rt, "ntx"); n > 0; n-- {
			tx := c10BTx{Signer: rapid.IntRange(0, c.NAcc-1).Draw(rt, "signer"), Gas: c02BlockTxGas}
			switch rapid.IntRange(0, 9).Draw(rt, "kind") {
			case 0, 1, 2, 3, 4:
				tx.Kind, tx.Spin = "ok", rapid.IntRange(0, 1500).Draw(rt, "spin")
			case 5:
				tx.Kind = "fail"
			case 6, 7, 8:
				tx.Kind, tx.Gas = "burn", rapid.Int64Range(2_200_000, c02BlockTxGas).Draw(rt, "burn")
			default:
				tx.Kind, tx.Gas = "tiny", rapid.Int64Range(1, 200_000).Draw(rt, "tiny")
			}
			blk = append(blk, tx)
		}
		c.Blocks = append(c.Blocks, blk)
	}
	return c
}

func c10Marker(b, i int) string { return fmt.Sprintf("mk%dx%d", b, i) }

func c10BlockTx(t c10BTx, marker string) axTx {
	tx := axTx{Signer: t.Signer, Fee: axFee, Gas: t.Gas, Msgs: []ec.HMsg{c02Call(ec.PathKV, "Set", marker, "1")}}
	switch t.Kind {
	case "ok", "tiny":
		tx.Msgs = append(tx.Msgs, c02Call(ec.PathCtr, "Spin", axItoa(t.Spin)))
	case "fail":
		tx.Msgs = append(tx.Msgs, c02Call(ec.PathCtr, "Boom", "1"))
	case "burn":
		tx.Msgs = append(tx.Msgs, c02Call(ec.PathCtr, "Spin", "1000000000"))
	}
	return tx
}

func c10BlockExec(ctx *vk.Ctx, c c10BlockCase) error {
	e, err := axStart(c.NAcc, c.MaxGas)
	if err != nil {
		return err
	}
	nt := false
	for bi, blk := range c.Blocks {
		var consumed int64
		e.Begin()
		type seen struct {
			marker   string
			ok       bool
			blockOOG bool
		}
		var txs []seen
		for ti, t := range blk {
			mk := c10Marker(bi, ti)
			r, err := e.Send(c10BlockTx(t, mk))
			if err != nil {
				return err
			}
			what := fmt.Sprintf("block %d tx %d (%s, GasWanted %d; model: %d of %d block gas consumed before it) -> %s used=%d wanted=%d", bi, ti, t.Kind, t.Gas, consumed, c.MaxGas, axErrType(r), r.GasUsed, r.GasWanted)
			refused := axOOG(r) && r.GasWanted == 0 && r.GasUsed == 0
			if os.Getenv("VERIF_DEBUG") != "" && !refused {
				fmt.Printf("%s %.150q\n", what, r.Log)
			}
			if err := axGasBound(ctx, r, t.Gas, what); err != nil {
				return err
			}
			if consumed >= c.MaxGas && !refused {
				return fmt.Errorf("%s: processed although the block gas limit was exhausted", what)
			}
			if consumed < c.MaxGas && refused {
				return fmt.Errorf("%s: refused for lack of block gas although the block's transactions consumed less than the limit", what)
			}
			if refused {
				ctx.Class("refused:no-block-gas-left")
				nt = true
				txs = append(txs, seen{marker: mk})
				continue
			}
			blockOOG := false
			if r.GasWanted > 0 {
				ch := r.GasUsed
				if ch > r.GasWanted {
					ch = r.GasWanted
				}
				consumed += ch
				if r.Error == nil && consumed > c.MaxGas {
					return fmt.Errorf("%s: reported successful although it lifts the block's gas to %d, above the limit", what, consumed)
				}
				if axOOG(r) && r.GasUsed <= r.GasWanted {
					// not stopped by its own meter: by the block meter
					blockOOG = true
					ctx.Class("failed:block-gas-crossed-inside-tx")
					nt = true
					if consumed <= c.MaxGas {
						return fmt.Errorf("%s: out of gas below its own GasWanted although the block gas (%d after it) did not cross the limit", what, consumed)
					}
				} else if axOOG(r) {
					ctx.Class("failed:tx-out-of-gas")
				}
				if r.Error != nil && !axOOG(r) && t.Kind != "fail" {
					return fmt.Errorf("harness: %s: unexpected failure %.300q", what, r.Log)
				}
			} else {
				// rejected before or inside the ante handler: the gas it
				// reports is what the pass-through meter charged to the block
				if !axOOG(r) {
					return fmt.Errorf("harness: %s: ante rejection other than out-of-gas: %.300q", what, r.Log)
				}
				consumed += r.GasUsed
				ctx.Class("rejected:out-of-gas-before-or-in-ante")
			}
			ctx.ClassIf(r.Error == nil, "ok")
			txs = append(txs, seen{marker: mk, ok: r.Error == nil, blockOOG: blockOOG})
		}
		e.End()
		for ti, s := range txs {
			v, err := e.C.QEval(ec.PathKV, "Get(\""+s.marker+"\")")
			if err != nil {
				return err
			}
			present := strings.Contains(v, "\"1\"")
			if os.Getenv("VERIF_DEBUG") != "" {
				fmt.Printf("marker b%d t%d ok=%v blockOOG=%v -> %s\n", bi, ti, s.ok, s.blockOOG, v)
			}
			if present == s.ok {
				continue
			}
			if present && s.blockOOG && ctx.Known("block-gas-overflow-after-msgs") {
				ctx.Class("known:block-gas-overflow-after-msgs")
				continue
			}
			return fmt.Errorf("block %d tx %d: reported ok=%v but its marker %s present=%v after the commit (%s)", bi, ti, s.ok, s.marker, present, v)
		}
	}
	ctx.NTIf(nt)
	return nil
}

func TestC10_Block(t *testing.T) {
	vk.Run(t, vk.Spec[c10BlockCase]{
		ID: "C10", Name: "TestC10_Block",
		Rule: "rapid: Block.MaxGas 4.3M-14M, 1-2 blocks of 3-9 marked txs (successful calls with a drawn amount of spinning, a panicking one, burners that run out of gas at an exact GasWanted of 2.2-4.2M, tiny-gas txs dying in the ante); model of the block meter from the responses; non-trivial = some tx was refused for lack of block gas or crossed the block limit inside its execution",
		Draw: c10BlockDraw, Exec: c10BlockExec,
	})
}
