package crashq

import (
	"fmt"
	"os"
	"sync/atomic"
	"testing"
	"time"

	"pgregory.net/rapid"
	"verif/vk"
)

// C28 — queries never interfere with consensus and see one committed version.
//
// Consensus (BeginBlock/DeliverTx/EndBlock/Commit of the recorded raw blocks)
// and a plan of ABCI queries run as two goroutines over the real gno.land
// application; every DB call of either passes the gate (c28_gate.go), and the
// rapid-drawn schedule decides which side passes its next gate point.

const c28Rule = "history = realm-deployment block + 3-6 generated blocks (1-3 txs each: at least one Tick moving the witness realm's VM state and its main-store balance in lockstep; sends, kv writes, package deployments and CALLS INTO the deployed packages) on the real gno.land app over a gated memdb or pebbledb, prune strategy drawn. Query vocabulary: vm/qeval, vm/qrender, package-loading qeval, qeval of deployed packages, vm/qfile, auth/accounts and .store/main/key with and without height, .app/simulate of a Tick, and .app/simulate of a tx drawn from the block grammar and tied to a tx of the history (the block's own tx byte for byte; the same message by another account - for a deployment the SAME path with a DIFFERENT body; a MsgRun script doing the same realm mutation). Consensus and queries run as two goroutines, every DB call is a gate point; half the cases use a freely drawn segment schedule over an unordered plan, half an aligned plan in which the j-th query runs right after the j-th ABCI call (BeginBlock, each DeliverTx, EndBlock, Commit; with jitter) and is mostly a simulation of the tx just delivered / about to be delivered. Non-trivial: a successful answer whose DB calls straddle a commit's physical write, or a successful answer of a height below the commit under way, or a successful simulation of a block tx that ran after that tx's DeliverTx and before its block's Commit returned. Distinct = distinct (history, plan, schedule)."

var c28Verbose = os.Getenv("C28_VERBOSE") != ""

func c28DrawSeg(rt *rapid.T) C28Seg {
	s := C28Seg{T: rapid.IntRange(0, 1).Draw(rt, "t")}
	switch rapid.IntRange(0, 11).Draw(rt, "shape") {
	case 0, 1, 2:
		s.N = rapid.IntRange(1, 4).Draw(rt, "n")
	case 3, 4:
		s.N = rapid.IntRange(5, 40).Draw(rt, "n")
	case 5:
		s.N = rapid.SampledFrom([]int{60, 100, 200}).Draw(rt, "n")
	case 6, 7, 8:
		// park consensus right before a physical write / the snapshot refresh /
		// the release of the previous snapshot / its next ABCI call
		s.T = 0
		s.Until = rapid.SampledFrom([]string{C28KBatch, C28KBatch, C28KSnap, C28KSnapClose, C28KSnapClose, C28KOp}).Draw(rt, "until")
	case 9:
		// finish the current query (park the query thread before the next one)
		s.T = 1
		s.Until = C28KOp
	default:
		s.T = 1
		s.N = rapid.IntRange(1, 30).Draw(rt, "n")
	}
	return s
}

// c28DrawFiller draws one query of the general vocabulary.
func c28DrawFiller(rt *rapid.T, c *C28Case, npkg int, keysUsed []string) C28Query {
	q := C28Query{}
	switch rapid.IntRange(0, 15).Draw(rt, "qk") {
	case 0, 1, 2:
		q.Kind = "snap"
	case 3:
		q.Kind = "render"
	case 4:
		q.Kind = "kv"
		q.Key = rapid.SampledFrom(keysUsed).Draw(rt, "key")
	case 5:
		q.Kind = "qfile"
		q.Pkg = rapid.IntRange(-1, npkg-1).Draw(rt, "pkg")
	case 6, 7:
		q.Kind = "acct"
		q.Acc = rapid.IntRange(0, c.NAcc-1).Draw(rt, "acc")
		q.HSel = rapid.SampledFrom([]int{0, 0, 1, 2, 3, 4, 5, 6, 7}).Draw(rt, "h")
	case 8, 9:
		q.Kind = "store"
		q.Acc = rapid.IntRange(0, c.NAcc-1).Draw(rt, "acc")
		q.HSel = rapid.SampledFrom([]int{0, 0, 1, 2, 3, 4, 5, 6, 7}).Draw(rt, "h")
	case 10:
		q.Kind = "sim"
	case 11, 12:
		q.Kind = "pkgeval"
		if npkg > 0 {
			q.Pkg = rapid.IntRange(0, npkg-1).Draw(rt, "pkg")
		}
	default:
		// a simulation drawn from the block grammar, tied to any tx of the history
		q.Kind = "simtx"
		q.B = rapid.IntRange(0, len(c.Blocks)-1).Draw(rt, "b")
		q.I = rapid.IntRange(0, len(c.Blocks[q.B].Txs)-1).Draw(rt, "i")
		q.Var = rapid.IntRange(0, 2).Draw(rt, "var")
	}
	return q
}

func c28Draw(rt *rapid.T) C28Case {
	c := C28Case{NAcc: rapid.IntRange(2, 4).Draw(rt, "nacc")}
	c.Prune = rapid.SampledFrom([]string{"syncable", "syncable", "nothing", "everything"}).Draw(rt, "prune")
	c.Backend = rapid.SampledFrom([]string{"memdb", "memdb", "memdb", "pebbledb"}).Draw(rt, "db")
	nb := rapid.IntRange(3, 6).Draw(rt, "nblocks")
	npkg := 0
	keysUsed := []string{"a"}
	for b := 0; b < nb; b++ {
		blk := C28Block{DT: int64(rapid.IntRange(1, 30).Draw(rt, "dt"))}
		blk.Txs = append(blk.Txs, C28Tx{Kind: "tick", Signer: rapid.IntRange(0, c.NAcc-1).Draw(rt, "s")})
		nt := rapid.IntRange(0, 2).Draw(rt, "ntx")
		for i := 0; i < nt; i++ {
			tx := C28Tx{Signer: rapid.IntRange(0, c.NAcc-1).Draw(rt, "s")}
			k := rapid.IntRange(0, 10).Draw(rt, "kind")
			if k >= 7 && npkg == 0 {
				k = 6 // nothing to call yet: deploy instead
			}
			if k >= 4 && k <= 6 && npkg >= 3 {
				k = 7 // enough packages: call one
			}
			switch k {
			case 0, 1:
				tx.Kind = "tick"
			case 2:
				tx.Kind = "send"
				tx.To = rapid.IntRange(0, c.NAcc-1).Draw(rt, "to")
				tx.Amt = rapid.Int64Range(1, 5000).Draw(rt, "amt")
			case 3:
				tx.Kind = "kvset"
				tx.Key = rapid.SampledFrom([]string{"a", "b"}).Draw(rt, "key")
				keysUsed = append(keysUsed, tx.Key)
			case 4, 5, 6:
				tx.Kind = "addpkg"
				npkg++
			default:
				// later txs call into what earlier txs deployed, so that a leak
				// into the deployed code shows in DeliverTx results
				tx.Kind = "pkgcall"
				tx.Pkg = rapid.IntRange(0, npkg-1).Draw(rt, "pkg")
			}
			blk.Txs = append(blk.Txs, tx)
		}
		c.Blocks = append(c.Blocks, blk)
	}
	if rapid.IntRange(0, 9).Draw(rt, "mode") < 5 {
		// free mode: an unordered plan under a freely drawn schedule
		nq := rapid.IntRange(3, 12).Draw(rt, "nq")
		for i := 0; i < nq; i++ {
			c.Queries = append(c.Queries, c28DrawFiller(rt, &c, npkg, keysUsed))
		}
		ns := rapid.IntRange(2, 40).Draw(rt, "nseg")
		for i := 0; i < ns; i++ {
			c.Sched = append(c.Sched, c28DrawSeg(rt))
		}
		return c
	}
	// aligned mode: the j-th query runs right after the j-th ABCI call of the
	// consensus thread (BeginBlock, each DeliverTx, EndBlock, Commit), and
	// the queries next to a tx are mostly simulations drawn from that tx.
	for b, blk := range c.Blocks {
		simOf := func(i int) C28Query {
			return C28Query{Kind: "simtx", B: b, I: i, Var: rapid.IntRange(0, 2).Draw(rt, "var")}
		}
		slot := func(q C28Query) {
			c.Queries = append(c.Queries, q)
			if rapid.IntRange(0, 5).Draw(rt, "jit") == 0 {
				// jitter: cut the ABCI call or the query short; the rest runs later
				n := rapid.IntRange(1, 25).Draw(rt, "cut")
				if rapid.Bool().Draw(rt, "cutq") {
					c.Sched = append(c.Sched, C28Seg{T: 0, N: 1}, C28Seg{T: 0, Until: C28KOp}, C28Seg{T: 1, N: n})
				} else {
					c.Sched = append(c.Sched, C28Seg{T: 0, N: n}, C28Seg{T: 1, N: 1}, C28Seg{T: 1, Until: C28KOp})
				}
				return
			}
			c.Sched = append(c.Sched, C28Seg{T: 0, N: 1}, C28Seg{T: 0, Until: C28KOp}, C28Seg{T: 1, N: 1}, C28Seg{T: 1, Until: C28KOp})
		}
		pick := func(w int, i int) C28Query { // w of 4: a simulation of tx i, else filler
			if rapid.IntRange(0, 3).Draw(rt, "rel") < w {
				return simOf(i)
			}
			return c28DrawFiller(rt, &c, npkg, keysUsed)
		}
		// after BeginBlock: possibly the simulation of a tx the block is about to deliver
		slot(pick(2, rapid.IntRange(0, len(blk.Txs)-1).Draw(rt, "i")))
		for i := range blk.Txs {
			slot(pick(3, i)) // after its DeliverTx, before the Commit
		}
		slot(pick(2, rapid.IntRange(0, len(blk.Txs)-1).Draw(rt, "i"))) // after EndBlock
		slot(c28DrawFiller(rt, &c, npkg, keysUsed))                     // after Commit
	}
	return c
}

func c28Exec(t *testing.T) func(ctx *vk.Ctx, c C28Case) error {
	return func(ctx *vk.Ctx, c C28Case) error {
		if !c.Valid() {
			return nil
		}
		t0 := time.Now()
		ref, err := C28RunRef(c)
		if err != nil {
			return err
		}
		db, cleanup, err := C28OpenDB(c)
		if err != nil {
			t.Fatalf("INCONCLUSIVE harness: cannot open %s: %v", c.Backend, err)
		}
		defer cleanup()
		g := NewC28Gate()
		gdb := NewC28DB(db, g)
		app, err := C28Boot(gdb, c, ref)
		if err != nil {
			return err
		}
		defer func() {
			defer func() { recover() }()
			app.Close()
		}()
		obs := &C28Obs{}
		var entered, done atomic.Int64
		entered.Store(1)
		done.Store(1)
		thr := make([]*C28Thread, 2)
		ready := make(chan struct{}, 2)
		var consPanic, queryPanic any
		var isolated []bool
		var ops atomic.Int64 // ABCI calls started by the consensus thread
		var sOps, eOps []int64
		g.Arm()
		go func() { // consensus
			th := g.Register(0)
			thr[0] = th
			ready <- struct{}{}
			defer g.Done(th)
			defer func() { consPanic = recover() }()
			for h := 2; h <= ref.Last; h++ {
				hash, res := C28ConsBlock(app, ref, h, func() { ops.Add(1); g.Point(C28KOp) },
					func(h int) { entered.Store(int64(h)) }, func(h int) { done.Store(int64(h)) })
				obs.Hash = append(obs.Hash, hash)
				obs.Res = append(obs.Res, res)
			}
			ops.Add(1)
		}()
		go func() { // queries
			th := g.Register(1)
			thr[1] = th
			ready <- struct{}{}
			defer g.Done(th)
			defer func() { queryPanic = recover() }()
			for _, q := range c.Queries {
				g.Point(C28KOp)
				th.OpStart()
				lo := int(done.Load())
				so := ops.Load()
				a := C28Ask(app, q, c, ref)
				hi := int(entered.Load())
				sOps = append(sOps, so)
				eOps = append(eOps, ops.Load())
				obs.Answers = append(obs.Answers, a)
				obs.Lo = append(obs.Lo, lo)
				obs.Hi = append(obs.Hi, hi)
				obs.Strad = append(obs.Strad, th.OpStraddled())
				isolated = append(isolated, th.OpIsolated())
			}
		}()
		<-ready
		<-ready
		handovers, serr := g.Schedule(c.Sched, thr, 90*time.Second)
		if serr != nil {
			// harness-side stall: never a violation
			t.Fatalf("INCONCLUSIVE %v", serr)
		}
		g.Disarm()
		if consPanic != nil {
			return fmt.Errorf("consensus thread panicked while queries ran concurrently: %v", consPanic)
		}
		if queryPanic != nil {
			return fmt.Errorf("query thread panicked: %v", queryPanic)
		}
		if w := g.QLiveWrites.Load(); w > 0 {
			return fmt.Errorf("the query thread performed %d write(s) on the live database", w)
		}
		if err := C28CompareCons(ref, obs); err != nil {
			return err
		}
		nt := false
		okAnswers := 0
		for i, a := range obs.Answers {
			q := c.Queries[i]
			h, err := C28Check(ref, c, q, a, obs.Lo[i], obs.Hi[i])
			// the known divergence: every read of the query was served by ONE
			// snapshot (isolation worked) yet the height it loaded is older
			if _, ok := err.(*C28Mix); ok && isolated[i] && ctx.Known(C28KeyStaleHeight) {
				ctx.Class("known:" + C28KeyStaleHeight)
				nt = true
				continue
			}
			// the other known divergence: the legacy live path (the query read
			// the live DB) answered "absent" for the height being committed
			if _, ok := err.(*C28LiveRace); ok && !isolated[i] && ctx.Known(C28KeyLiveFallback) {
				ctx.Class("known:" + C28KeyLiveFallback)
				continue
			}
			if err != nil {
				return fmt.Errorf("query #%d (started with height %d committed, returned with commit of %d entered, straddled a write: %v, all reads from one snapshot: %v): %v", i, obs.Lo[i], obs.Hi[i], obs.Strad[i], isolated[i], err)
			}
			ctx.Class("q:" + q.Kind)
			if !a.OK() {
				ctx.Class("answer-error:" + q.Kind)
				continue
			}
			okAnswers++
			if obs.Strad[i] {
				ctx.Class("ok-answer-straddling-a-write")
				nt = true
			}
			if q.Height(c) == 0 && h < obs.Hi[i] {
				ctx.Class("ok-answer-of-older-height-than-commit-under-way")
				nt = true
			}
			if q.Height(c) > 0 {
				ctx.Class("ok-answer-explicit-height")
			}
			if q.Kind == "sim" || q.Kind == "simtx" {
				ctx.Class("simulate-succeeded")
			}
			if q.Kind == "simtx" {
				// ABCI call indices (0-based over the gated blocks) of the tx's
				// DeliverTx and of its block's Commit
				base := 0
				for b := 0; b < q.B; b++ {
					base += len(c.Blocks[b].Txs) + 3
				}
				dIdx := int64(base + 1 + q.I)
				cIdx := int64(base + len(c.Blocks[q.B].Txs) + 2)
				// the query ended after that DeliverTx had returned and began
				// before that Commit had returned
				inFlight := eOps[i] >= dIdx+2 && sOps[i] <= cIdx+1
				kind := c.Blocks[q.B].Txs[q.I].Kind
				if inFlight {
					ctx.Class("simulate-of-just-delivered-tx-before-its-commit:" + kind)
					if kind == "addpkg" && q.Var == 1 {
						ctx.Class("simulate-addpkg-colliding-with-block")
					}
					if q.Var == 0 {
						ctx.Class("simulate-identical-to-block-tx-in-flight")
					}
					if q.Var == 2 && kind != "addpkg" && kind != "send" {
						ctx.Class("simulate-msgrun-mutating-state-the-block-mutates")
					}
					nt = true
				}
				if eOps[i] < dIdx+1 && sOps[i] >= int64(base) {
					ctx.Class("simulate-of-block-tx-before-its-delivertx")
				}
			}
		}
		ctx.ClassIf(handovers > 0, "lock-handover")
		ctx.ClassIf(g.QLiveReads.Load() > 0, "query-read-live-db")
		ctx.Class("db=" + c.Backend)
		ctx.Class("prune=" + c.Prune)
		ctx.Note("cons_steps", thr[0].Steps)
		ctx.Note("query_steps", thr[1].Steps)
		ctx.Note("ok_answers", okAnswers)
		ctx.NTIf(nt)
		if c28Verbose {
			fmt.Printf("C28 case: blocks=%d queries=%d ok=%d nt=%v steps C=%d Q=%d handovers=%d liveReadsQ=%d counts=%v %.2fs\n",
				len(c.Blocks), len(c.Queries), okAnswers, nt, thr[0].Steps, thr[1].Steps, handovers, g.QLiveReads.Load(), g.Counts, time.Since(t0).Seconds())
			for i, a := range obs.Answers {
				fmt.Printf("   q%d %+v lo=%d hi=%d strad=%v -> err=%q data=%s\n", i, c.Queries[i], obs.Lo[i], obs.Hi[i], obs.Strad[i], a.Err, c28Short(a.Data))
			}
		}
		return nil
	}
}

func TestC28_Gate(t *testing.T) {
	vk.Run(t, vk.Spec[C28Case]{
		ID: "C28", Name: "TestC28_Gate", Rule: c28Rule,
		Draw: c28Draw, Exec: c28Exec(t),
	})
}
