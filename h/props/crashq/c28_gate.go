package crashq

// C28 gate: a dbm.DB wrapper that blocks every DB call of a registered
// logical thread until the harness scheduler lets that thread proceed. The
// scheduler is driven by a plain-data schedule (drawn by rapid, so it shrinks
// and replays). Threads are identified by goroutine id. A thread that is
// chosen but turns out to be blocked on an application lock held by the other
// (parked) thread is detected through its goroutine wait reason, and the other
// thread is let go instead; a schedule never deadlocks the application by
// itself. A scheduler stall is reported as such (never as a violation).

import (
	"bytes"
	"fmt"
	"runtime"
	"strconv"
	"sync"
	"sync/atomic"
	"time"

	dbm "github.com/gnolang/gno/tm2/pkg/db"
)

// C28Seg is one schedule segment: let thread T (0 = consensus, 1 = query)
// pass up to N gate points; when Until is set the segment ends as soon as the
// thread is parked at a gate point of that kind (without passing it).
type C28Seg struct {
	T     int    `json:"t"`
	N     int    `json:"n"`
	Until string `json:"u,omitempty"`
}

// Gate point kinds.
const (
	C28KOp        = "op"         // harness-level boundary (ABCI call / query)
	C28KGet       = "get"        // Get/Has on the live DB
	C28KIter      = "iter"       // iterator creation / Next on the live DB
	C28KWrite     = "write"      // direct Set/Delete on the live DB
	C28KBatch     = "batchwrite" // Batch.Write/WriteSync on the live DB
	C28KSnap      = "snapshot"   // NewSnapshot
	C28KSnapGet   = "snapget"    // read through a snapshot
	C28KSnapClose = "snapclose"  // Snapshot.Close
)

const (
	c28Running int32 = iota
	c28Parked
	c28Done
)

// C28Thread is one logical thread known to the gate.
type C28Thread struct {
	ID     int
	goid   int64
	resume chan struct{}
	st     int32  // scheduler's view
	kind   string // gate kind where parked
	Steps  int64  // gate points passed
	// per-operation write-straddle bookkeeping (owned by the thread)
	opFirstW, opLastW int64
	opCalls           int
	opLive            int          // calls on the live DB since OpStart
	opSnaps           map[int64]bool // snapshots read since OpStart
}

type c28Ev struct {
	th   *C28Thread
	done bool
	kind string
}

// C28Gate coordinates the threads.
type C28Gate struct {
	on      atomic.Bool
	mu      sync.Mutex
	byGoid  map[int64]*C28Thread
	ev      chan c28Ev
	NWrites atomic.Int64 // physical writes performed so far (while armed)
	Foreign atomic.Int64 // gated-DB calls by unregistered goroutines while armed
	Counts  [2]map[string]int64
	// LiveReadsByQuery counts live-DB reads/writes performed by the query thread.
	QLiveReads  atomic.Int64
	QLiveWrites atomic.Int64
	snapSeq     atomic.Int64
}

func NewC28Gate() *C28Gate {
	g := &C28Gate{byGoid: map[int64]*C28Thread{}, ev: make(chan c28Ev, 64)}
	g.Counts[0] = map[string]int64{}
	g.Counts[1] = map[string]int64{}
	return g
}

func c28Goid() int64 {
	var b [64]byte
	n := runtime.Stack(b[:], false)
	// "goroutine 123 ["
	s := b[:n]
	s = bytes.TrimPrefix(s, []byte("goroutine "))
	i := bytes.IndexByte(s, ' ')
	if i < 0 {
		return -1
	}
	id, _ := strconv.ParseInt(string(s[:i]), 10, 64)
	return id
}

// Register must be called by the thread's own goroutine before its first
// gated call.
func (g *C28Gate) Register(id int) *C28Thread {
	th := &C28Thread{ID: id, goid: c28Goid(), resume: make(chan struct{}, 1)}
	g.mu.Lock()
	g.byGoid[th.goid] = th
	g.mu.Unlock()
	return th
}

func (g *C28Gate) lookup() *C28Thread {
	if !g.on.Load() {
		return nil
	}
	id := c28Goid()
	g.mu.Lock()
	th := g.byGoid[id]
	g.mu.Unlock()
	if th == nil {
		g.Foreign.Add(1)
	}
	return th
}

// Point parks the calling thread (if registered and the gate is armed) until
// the scheduler releases it.
func (g *C28Gate) Point(kind string) *C28Thread {
	th := g.lookup()
	if th == nil {
		return nil
	}
	g.ev <- c28Ev{th: th, kind: kind}
	<-th.resume
	th.Steps++
	w := g.NWrites.Load()
	if th.opCalls == 0 {
		th.opFirstW = w
	}
	th.opLastW = w
	th.opCalls++
	return th
}

// OpStart resets the straddle bookkeeping of the calling thread.
func (th *C28Thread) OpStart() {
	th.opCalls, th.opFirstW, th.opLastW, th.opLive, th.opSnaps = 0, 0, 0, 0, map[int64]bool{}
}

// OpIsolated reports whether every DB read since OpStart was served by one
// and the same snapshot (never by the live DB).
func (th *C28Thread) OpIsolated() bool { return th.opLive == 0 && len(th.opSnaps) == 1 }

// OpStraddled reports whether the thread's DB calls since OpStart happened on
// both sides of at least one physical write.
func (th *C28Thread) OpStraddled() bool { return th.opCalls >= 2 && th.opLastW > th.opFirstW }

// Done tells the scheduler that the thread has finished.
func (g *C28Gate) Done(th *C28Thread) { g.ev <- c28Ev{th: th, done: true} }

// c28WaitReasons returns the wait reason in the goroutine header of each
// requested goroutine id ("" when not found).
func c28WaitReasons(ids ...int64) map[int64]string {
	buf := make([]byte, 1<<20)
	n := runtime.Stack(buf, true)
	buf = buf[:n]
	out := map[int64]string{}
	for _, id := range ids {
		pat := []byte("goroutine " + strconv.FormatInt(id, 10) + " [")
		i := 0
		for {
			j := bytes.Index(buf[i:], pat)
			if j < 0 {
				break
			}
			j += i
			if j == 0 || buf[j-1] == '\n' {
				rest := buf[j+len(pat):]
				e := bytes.IndexAny(rest, "],")
				if e >= 0 {
					out[id] = string(rest[:e])
				}
				break
			}
			i = j + 1
		}
	}
	return out
}

func c28IsLockWait(reason string) bool {
	switch reason {
	case "sync.Mutex.Lock", "sync.RWMutex.RLock", "sync.RWMutex.Lock", "semacquire", "sync.Cond.Wait", "sync.WaitGroup.Wait":
		return true
	}
	return false
}

// C28Stall is returned by Schedule when the scheduler cannot make progress.
type C28Stall struct{ Msg string }

func (s *C28Stall) Error() string { return "scheduler stall: " + s.Msg }

// Schedule runs the threads to completion under the schedule. The threads
// must already be started; each parks at its first gate point. It returns a
// *C28Stall when the application threads block each other for good or the
// time limit passes.
func (g *C28Gate) Schedule(sched []C28Seg, thr []*C28Thread, limit time.Duration) (lockHandovers int, err error) {
	if len(sched) == 0 {
		sched = []C28Seg{{T: 0, N: 7}, {T: 1, N: 3}}
	}
	for _, t := range thr {
		t.st = c28Running
	}
	si, used := 0, 0
	timer := time.NewTimer(time.Hour)
	defer timer.Stop()
	start := time.Now()
	lastProgress := time.Now()
	for {
		// ---- wait until every thread is parked, done or blocked on a lock
		wait := 200 * time.Microsecond
		blockedSince := time.Time{}
		for {
			nrun := 0
			for _, t := range thr {
				if t.st == c28Running {
					nrun++
				}
			}
			if nrun == 0 {
				break
			}
			if !timer.Stop() {
				select {
				case <-timer.C:
				default:
				}
			}
			timer.Reset(wait)
			select {
			case e := <-g.ev:
				lastProgress = time.Now()
				if e.done {
					e.th.st = c28Done
				} else {
					e.th.st = c28Parked
					e.th.kind = e.kind
				}
				wait = 200 * time.Microsecond
				blockedSince = time.Time{}
				continue
			case <-timer.C:
			}
			if wait < 4*time.Millisecond {
				wait *= 2
			}
			var ids []int64
			nparked := 0
			for _, t := range thr {
				if t.st == c28Running {
					ids = append(ids, t.goid)
				}
				if t.st == c28Parked {
					nparked++
				}
			}
			rs := c28WaitReasons(ids...)
			all := true
			for _, id := range ids {
				if !c28IsLockWait(rs[id]) {
					all = false
				}
			}
			if all && nparked > 0 {
				// the running thread(s) wait for a lock held by a parked thread
				lockHandovers++
				break
			}
			if all && nparked == 0 {
				if blockedSince.IsZero() {
					blockedSince = time.Now()
				} else if time.Since(blockedSince) > 20*time.Second {
					return lockHandovers, &C28Stall{fmt.Sprintf("all live threads wait for locks and none is parked at the gate (%v)", rs)}
				}
			}
			if time.Since(lastProgress) > limit || time.Since(start) > 10*limit {
				return lockHandovers, &C28Stall{fmt.Sprintf("no gate event for %v (wait reasons %v)", time.Since(lastProgress).Round(time.Second), rs)}
			}
		}
		// ---- pick
		var parked []*C28Thread
		ndone := 0
		for _, t := range thr {
			if t.st == c28Parked {
				parked = append(parked, t)
			}
			if t.st == c28Done {
				ndone++
			}
		}
		if ndone == len(thr) {
			return lockHandovers, nil
		}
		if len(parked) == 0 {
			continue // blocked threads only; keep waiting (bounded above)
		}
		var pick *C28Thread
		for skips := 0; pick == nil; {
			seg := sched[si%len(sched)]
			bound := seg.N
			if bound < 1 {
				bound = 1
				if seg.Until != "" {
					bound = 1 << 30
				}
			}
			var want *C28Thread
			if seg.T >= 0 && seg.T < len(thr) && thr[seg.T].st == c28Parked {
				want = thr[seg.T]
			}
			switch {
			case want == nil:
				si, used = si+1, 0
				skips++
				if skips > len(sched) {
					pick = parked[0]
				}
			case seg.Until != "" && want.kind == seg.Until:
				// reached the target kind: the segment is complete
				si, used = si+1, 0
				skips++
				if skips > 2*len(sched) {
					pick = parked[0]
				}
			default:
				pick = want
				used++
				if used >= bound {
					si, used = si+1, 0
				}
			}
		}
		pick.st = c28Running
		g.Counts[pick.ID%2][pick.kind]++
		pick.resume <- struct{}{}
	}
}

// ---------------------------------------------------------------------------
// The gated DB.

type C28DB struct {
	dbm.DB
	G *C28Gate
}

func NewC28DB(db dbm.DB, g *C28Gate) *C28DB { return &C28DB{DB: db, G: g} }

func (d *C28DB) read() { d.live(d.G.Point(C28KGet)) }

func (d *C28DB) live(th *C28Thread) {
	if th == nil {
		return
	}
	th.opLive++
	if th.ID == 1 {
		d.G.QLiveReads.Add(1)
	}
}

func (d *C28DB) wrote(th *C28Thread) {
	if d.G.on.Load() {
		d.G.NWrites.Add(1)
	}
	if th != nil && th.ID == 1 {
		d.G.QLiveWrites.Add(1)
	}
}

func (d *C28DB) Get(k []byte) ([]byte, error) { d.read(); return d.DB.Get(k) }
func (d *C28DB) Has(k []byte) (bool, error)   { d.read(); return d.DB.Has(k) }
func (d *C28DB) Set(k, v []byte) error {
	th := d.G.Point(C28KWrite)
	err := d.DB.Set(k, v)
	d.wrote(th)
	return err
}

func (d *C28DB) SetSync(k, v []byte) error {
	th := d.G.Point(C28KWrite)
	err := d.DB.SetSync(k, v)
	d.wrote(th)
	return err
}

func (d *C28DB) Delete(k []byte) error {
	th := d.G.Point(C28KWrite)
	err := d.DB.Delete(k)
	d.wrote(th)
	return err
}

func (d *C28DB) DeleteSync(k []byte) error {
	th := d.G.Point(C28KWrite)
	err := d.DB.DeleteSync(k)
	d.wrote(th)
	return err
}

func (d *C28DB) Iterator(s, e []byte) (dbm.Iterator, error) {
	d.live(d.G.Point(C28KIter))
	it, err := d.DB.Iterator(s, e)
	if err != nil {
		return nil, err
	}
	return &c28Iter{Iterator: it, g: d.G, kind: C28KIter}, nil
}

func (d *C28DB) ReverseIterator(s, e []byte) (dbm.Iterator, error) {
	d.live(d.G.Point(C28KIter))
	it, err := d.DB.ReverseIterator(s, e)
	if err != nil {
		return nil, err
	}
	return &c28Iter{Iterator: it, g: d.G, kind: C28KIter}, nil
}

func (d *C28DB) NewBatch() dbm.Batch { return &c28Batch{Batch: d.DB.NewBatch(), d: d} }
func (d *C28DB) NewBatchWithSize(n int) dbm.Batch {
	return &c28Batch{Batch: d.DB.NewBatchWithSize(n), d: d}
}

func (d *C28DB) NewSnapshot() (dbm.Snapshot, error) {
	d.G.Point(C28KSnap)
	s, err := d.DB.NewSnapshot()
	if err != nil {
		return nil, err
	}
	return &c28Snap{Snapshot: s, g: d.G, id: d.G.snapSeq.Add(1)}, nil
}

type c28Iter struct {
	dbm.Iterator
	g    *C28Gate
	kind string
}

func (it *c28Iter) Next() { it.g.Point(it.kind); it.Iterator.Next() }

type c28Batch struct {
	dbm.Batch
	d *C28DB
}

func (b *c28Batch) Write() error {
	th := b.d.G.Point(C28KBatch)
	err := b.Batch.Write()
	b.d.wrote(th)
	return err
}

func (b *c28Batch) WriteSync() error {
	th := b.d.G.Point(C28KBatch)
	err := b.Batch.WriteSync()
	b.d.wrote(th)
	return err
}

type c28Snap struct {
	dbm.Snapshot
	g  *C28Gate
	id int64
}

func (s *c28Snap) pt() {
	if th := s.g.Point(C28KSnapGet); th != nil && th.opSnaps != nil {
		th.opSnaps[s.id] = true
	}
}

func (s *c28Snap) Get(k []byte) ([]byte, error) { s.pt(); return s.Snapshot.Get(k) }
func (s *c28Snap) Has(k []byte) (bool, error)   { s.pt(); return s.Snapshot.Has(k) }
func (s *c28Snap) Iterator(a, e []byte) (dbm.Iterator, error) {
	s.pt()
	it, err := s.Snapshot.Iterator(a, e)
	if err != nil {
		return nil, err
	}
	return &c28Iter{Iterator: it, g: s.g, kind: C28KSnapGet}, nil
}

func (s *c28Snap) ReverseIterator(a, e []byte) (dbm.Iterator, error) {
	s.pt()
	it, err := s.Snapshot.ReverseIterator(a, e)
	if err != nil {
		return nil, err
	}
	return &c28Iter{Iterator: it, g: s.g, kind: C28KSnapGet}, nil
}
func (s *c28Snap) Close() error { s.g.Point(C28KSnapClose); return s.Snapshot.Close() }

// Arm switches gating on; Disarm switches it off (parked threads must have
// finished).
func (g *C28Gate) Arm()    { g.on.Store(true) }
func (g *C28Gate) Disarm() { g.on.Store(false) }
